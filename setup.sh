#!/bin/sh
# setup_cmd: build the Lean side once (driver + every property module). Offline.
set -e
HERE="$(cd "$(dirname "$0")" && pwd)"
cd "$HERE"
PY=/venv/bin/python
[ -x "$PY" ] || PY=python3
# regenerate every Gen/*.lean from /repo's working tree, then build everything
"$PY" harness/regen_all.py
cd lean
MODS=$(ls P2P/Props/*.lean | sed 's#/#.#g; s#\.lean$##')
lake build driver $MODS
