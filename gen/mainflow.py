"""Translator: AST of pdb2pqr/main.py (+ every write-open in the package) -> lean/P2P/Gen/MainFlow.lean

For each function of main.py: the `args.<option>` attributes it reads directly, the callees it
hands the whole `args` namespace to, and its ordered call skeleton (names of the calls in
evaluation order, with `if args.<opt>` / `try` structure flattened to guards). For the package:
every `open(<expr>, "w"/"a"/"x"…)`, with the function it is in and whether the path expression
mentions `args.output_pqr`. Strict: a construct that hides a read of `args` (getattr/vars/
**args/args escaping into a container) makes the translator stop — except the documented
`getattr(args, option)` loop over IGNORED_PROPKA_OPTIONS in check_options, which is modelled."""

from __future__ import annotations

import ast
import os
from pathlib import Path

REPO = Path(os.environ.get("VERIF_REPO", "/repo"))
PKG = REPO / "pdb2pqr"


class Unsupported(Exception):
    pass


def call_name(node: ast.Call) -> str:
    f = node.func
    parts = []
    while isinstance(f, ast.Attribute):
        parts.append(f.attr)
        f = f.value
    if isinstance(f, ast.Name):
        parts.append(f.id)
    else:
        parts.append("?")
    return ".".join(reversed(parts))


class FuncInfo:
    def __init__(self, name):
        self.name = name
        self.reads = []  # options read directly
        self.read_ctx = []  # (option, innermost enclosing call or <if>/<stmt>)
        self.writes = []  # options assigned
        self.passes = []  # callees that receive `args`
        self.calls = []  # ordered call skeleton: (guard options tuple, callee)
        self.hidden = []  # getattr/setattr/vars uses


def analyse_function(fn: ast.FunctionDef) -> FuncInfo:
    info = FuncInfo(fn.name)
    argnames = {a.arg for a in fn.args.args + fn.args.kwonlyargs}
    if "args" not in argnames:
        has_args = False
    else:
        has_args = True

    def opts_in(expr):
        out = []
        for n in ast.walk(expr):
            if isinstance(n, ast.Attribute) and isinstance(n.value, ast.Name) and n.value.id == "args":
                out.append(n.attr)
        return out

    def visit(stmts, guards):
        for st in stmts:
            if isinstance(st, ast.If):
                g = tuple(sorted(set(opts_in(st.test))))
                record_expr(st.test, guards, "<if>")
                visit(st.body, guards + g)
                visit(st.orelse, guards + tuple("!" + x for x in g))
            elif isinstance(st, ast.Try):
                visit(st.body, guards)
                for h in st.handlers:
                    visit(h.body, guards + ("except",))
                visit(st.orelse, guards)
                visit(st.finalbody, guards)
            elif isinstance(st, (ast.For, ast.While)):
                record_expr(st.iter if isinstance(st, ast.For) else st.test, guards)
                visit(st.body, guards)
                visit(st.orelse, guards)
            elif isinstance(st, ast.With):
                for it in st.items:
                    record_expr(it.context_expr, guards)
                visit(st.body, guards)
            elif isinstance(st, (ast.FunctionDef, ast.ClassDef)):
                raise Unsupported(f"nested definition in {fn.name}")
            else:
                for child in ast.iter_child_nodes(st):
                    if isinstance(child, ast.expr):
                        record_expr(child, guards)
                if isinstance(st, (ast.Assign, ast.AugAssign)):
                    targets = st.targets if isinstance(st, ast.Assign) else [st.target]
                    for t in targets:
                        if isinstance(t, ast.Attribute) and isinstance(t.value, ast.Name) and t.value.id == "args":
                            info.writes.append(t.attr)

    def record_expr(expr, guards, kind="<stmt>"):
        # calls in evaluation order (post-order: arguments before the call)
        class V(ast.NodeVisitor):
            def visit_Call(self, node):
                self.generic_visit(node)
                name = call_name(node)
                passes_args = any(isinstance(a, ast.Name) and a.id == "args" for a in node.args) or any(isinstance(k.value, ast.Name) and k.value.id == "args" for k in node.keywords)
                if name in ("getattr", "setattr", "vars", "hasattr") and passes_args:
                    info.hidden.append(name)
                elif passes_args:
                    info.passes.append(name)
                if any(isinstance(a, ast.Starred) for a in node.args) or any(k.arg is None for k in node.keywords):
                    for a in list(node.args) + [k.value for k in node.keywords]:
                        if isinstance(getattr(a, "value", a), ast.Name) and getattr(a, "value", a).id == "args":
                            raise Unsupported(f"*args/**args of the namespace in {fn.name}")
                info.calls.append((guards, name))

            def visit_Attribute(self, node):
                if isinstance(node.value, ast.Name) and node.value.id == "args" and isinstance(node.ctx, ast.Load):
                    info.reads.append(node.attr)
                self.generic_visit(node)

            def visit_Name(self, node):
                pass

        V().visit(expr)

        def ctx_walk(node, encl):
            if isinstance(node, ast.Call):
                # the function expression itself (e.g. args.ff.lower) is read "by" that method call
                name = call_name(node)
                ctx_walk(node.func, name)
                for a in list(node.args) + [k.value for k in node.keywords]:
                    ctx_walk(a, name)
                return
            if isinstance(node, ast.Attribute) and isinstance(node.value, ast.Name) and node.value.id == "args" and isinstance(node.ctx, ast.Load):
                info.read_ctx.append((node.attr, encl))
            for c in ast.iter_child_nodes(node):
                ctx_walk(c, encl)

        ctx_walk(expr, kind)
        # `args` stored somewhere other than a call argument / attribute base
        for n in ast.walk(expr):
            if isinstance(n, (ast.List, ast.Tuple, ast.Dict, ast.Set)):
                for e in ast.iter_child_nodes(n):
                    if isinstance(e, ast.Name) and e.id == "args":
                        raise Unsupported(f"`args` placed in a container in {fn.name}")

    if has_args:
        visit(fn.body, ())
    else:
        visit(fn.body, ())
    return info


def write_opens():
    """every open(...) for writing in the package"""
    out = []
    for p in sorted(PKG.rglob("*.py")):
        tree = ast.parse(p.read_text())
        for fn in ast.walk(tree):
            if isinstance(fn, (ast.FunctionDef, ast.AsyncFunctionDef)):
                for n in ast.walk(fn):
                    if isinstance(n, ast.Call) and call_name(n) in ("open", "Path.open", "io.open"):
                        mode = None
                        if len(n.args) >= 2 and isinstance(n.args[1], ast.Constant):
                            mode = n.args[1].value
                        for k in n.keywords:
                            if k.arg == "mode" and isinstance(k.value, ast.Constant):
                                mode = k.value.value
                        if mode is None and len(n.args) < 2 and not any(k.arg == "mode" for k in n.keywords):
                            continue  # default mode "r"
                        if mode is None:
                            raise Unsupported(f"open() with a computed mode in {p.name}:{fn.name}")
                        if any(c in mode for c in "wax+"):
                            target = ast.unparse(n.args[0]) if n.args else "?"
                            out.append((str(p.relative_to(REPO)), fn.name, mode, target))
    return out


FUNCS = ["main_driver", "non_trivial", "transform_arguments", "check_files", "check_options", "print_pqr", "print_pdb", "print_splash_screen", "setup_molecule", "is_repairable", "drop_water", "run_propka"]


def lstr(s):
    return '"' + s.replace("\\", "\\\\").replace('"', '\\"') + '"'


def generate():
    tree = ast.parse((PKG / "main.py").read_text())
    fns = {n.name: n for n in tree.body if isinstance(n, ast.FunctionDef)}
    infos = {}
    for name in FUNCS:
        if name not in fns:
            raise Unsupported(f"function {name} not found in main.py")
        infos[name] = analyse_function(fns[name])
    for name, info in infos.items():
        if info.hidden and name != "check_options":
            raise Unsupported(f"{name} reads options through {info.hidden}")
    out = ["-- GENERATED by gen/mainflow.py from the AST of pdb2pqr/main.py and all open() calls of the package — do not edit", "import P2P.Model.MainFlow", "namespace P2P.Gen.MainFlow", "open P2P.MainFlow", ""]
    out.append("def funcs : List Func := [")
    items = []
    for name in FUNCS:
        i = infos[name]
        calls = ", ".join("(" + "[" + ", ".join(lstr(g) for g in gs) + "], " + lstr(c) + ")" for gs, c in i.calls)
        rc = ", ".join(f"({lstr(o)}, {lstr(c)})" for o, c in sorted(set(i.read_ctx)))
        items.append(f"  ⟨{lstr(name)}, [" + ", ".join(lstr(x) for x in sorted(set(i.reads))) + f"], [{rc}], [" + ", ".join(lstr(x) for x in sorted(set(i.writes))) + "], [" + ", ".join(lstr(x) for x in i.passes) + f"], [{calls}]⟩")
    out.append(",\n".join(items))
    out.append("]")
    out.append("")
    out.append("/-- (file, function, mode, path expression) of every open() for writing in the package -/")
    out.append("def writeOpens : List (String × String × String × String) := [")
    out.append(",\n".join(f"  ({lstr(a)}, {lstr(b)}, {lstr(c)}, {lstr(d)})" for a, b, c, d in write_opens()))
    out.append("]")
    out.append("")
    out.append("end P2P.Gen.MainFlow")
    return {"P2P/Gen/MainFlow.lean": "\n".join(out) + "\n"}


generate.__name__ = "gen.mainflow"

if __name__ == "__main__":
    print(generate()["P2P/Gen/MainFlow.lean"])
