"""Translator: AST of every module of pdb2pqr -> lean/P2P/Gen/ModuleState.lean

Inventory of state that outlives a run: module-level bindings, class attributes and
default-argument values that are mutable objects; every statement inside a function that mutates
or rebinds one of them; and the sites whose result could depend on the interpreter's hash seed or
object addresses: iteration over a set expression, set.pop(), id(), hash()."""

from __future__ import annotations

import ast
import os
from pathlib import Path

REPO = Path(os.environ.get("VERIF_REPO", "/repo"))
PKG = REPO / "pdb2pqr"
MUT_CALLS = {"dict", "list", "set", "OrderedDict", "defaultdict", "Counter", "deque"}
MUT_METHODS = {"append", "extend", "update", "add", "pop", "remove", "clear", "setdefault", "insert", "popitem", "discard", "sort", "reverse", "__setitem__"}


def is_mutable_expr(e):
    if isinstance(e, (ast.Dict, ast.List, ast.Set, ast.ListComp, ast.DictComp, ast.SetComp)):
        return True
    if isinstance(e, ast.Call):
        f = e.func
        n = f.id if isinstance(f, ast.Name) else f.attr if isinstance(f, ast.Attribute) else None
        return n in MUT_CALLS
    return False


SET_FUNCS: set[str] = set()  # simple names of package functions that return a set (first pass)


def is_set_expr(e, local_sets):
    if isinstance(e, (ast.Set, ast.SetComp)):
        return True
    if isinstance(e, ast.Call) and isinstance(e.func, ast.Name) and e.func.id in ("set", "frozenset"):
        return True
    if isinstance(e, ast.Call):
        f = e.func
        n = f.id if isinstance(f, ast.Name) else f.attr if isinstance(f, ast.Attribute) else None
        if n in SET_FUNCS:
            return True  # the value returned by a set-returning function of the package
    if isinstance(e, ast.Name) and e.id in local_sets:
        return True
    if isinstance(e, ast.Attribute) and e.attr in local_sets:
        return True
    if isinstance(e, ast.BinOp) and isinstance(e.op, (ast.BitOr, ast.BitAnd, ast.Sub, ast.BitXor)):
        return is_set_expr(e.left, local_sets) or is_set_expr(e.right, local_sets)
    return False


def find_set_functions():
    """functions of the package one of whose return expressions is a set (fixed point over calls)"""
    SET_FUNCS.clear()
    trees = [ast.parse(p.read_text()) for p in sorted(PKG.rglob("*.py"))]
    changed = True
    while changed:
        changed = False
        for tree in trees:
            for fn in ast.walk(tree):
                if not isinstance(fn, (ast.FunctionDef, ast.AsyncFunctionDef)) or fn.name in SET_FUNCS:
                    continue
                local = set()
                for n in ast.walk(fn):
                    if isinstance(n, ast.Assign) and len(n.targets) == 1 and isinstance(n.targets[0], ast.Name) and is_set_expr(n.value, set()):
                        local.add(n.targets[0].id)
                for n in ast.walk(fn):
                    if isinstance(n, ast.Return) and n.value is not None and is_set_expr(n.value, local):
                        SET_FUNCS.add(fn.name)
                        changed = True
                        break


def analyse():
    find_set_functions()
    cells = []  # (cell, kind)
    writes = []  # (cell, function)
    set_iter = []  # (module, function, source)
    id_hash = []  # (module, function, which)
    for p in sorted(PKG.rglob("*.py")):
        mod = ".".join(p.relative_to(REPO).with_suffix("").parts)
        src = p.read_text()
        tree = ast.parse(src)
        mod_cells = {}
        set_attrs = set()
        for node in tree.body:
            if isinstance(node, ast.Assign) and len(node.targets) == 1 and isinstance(node.targets[0], ast.Name) and is_mutable_expr(node.value):
                mod_cells[node.targets[0].id] = f"{mod}.{node.targets[0].id}"
                cells.append((f"{mod}.{node.targets[0].id}", "module"))
            elif isinstance(node, ast.ClassDef):
                for b in node.body:
                    if isinstance(b, ast.Assign) and len(b.targets) == 1 and isinstance(b.targets[0], ast.Name) and is_mutable_expr(b.value):
                        cells.append((f"{mod}.{node.name}.{b.targets[0].id}", "class"))
                        mod_cells[f"{node.name}.{b.targets[0].id}"] = f"{mod}.{node.name}.{b.targets[0].id}"
        # attributes assigned a set anywhere in the module (self.x = set())
        for n in ast.walk(tree):
            if isinstance(n, ast.Assign) and len(n.targets) == 1 and isinstance(n.targets[0], ast.Attribute) and is_set_expr(n.value, set()):
                set_attrs.add(n.targets[0].attr)
        for fn in ast.walk(tree):
            if not isinstance(fn, (ast.FunctionDef, ast.AsyncFunctionDef)):
                continue
            fname = f"{mod}.{fn.name}"
            defaults = {}
            pos = fn.args.args[len(fn.args.args) - len(fn.args.defaults) :] if fn.args.defaults else []
            for a, d in zip(pos, fn.args.defaults):
                if is_mutable_expr(d):
                    defaults[a.arg] = f"{fname}(default {a.arg})"
                    cells.append((defaults[a.arg], "default"))
            for a, d in zip(fn.args.kwonlyargs, fn.args.kw_defaults):
                if d is not None and is_mutable_expr(d):
                    defaults[a.arg] = f"{fname}(default {a.arg})"
                    cells.append((defaults[a.arg], "default"))
            globals_declared = set()
            local_sets = set(set_attrs)
            for n in ast.walk(fn):
                if isinstance(n, ast.Global):
                    globals_declared.update(n.names)
                if isinstance(n, ast.Assign) and len(n.targets) == 1 and isinstance(n.targets[0], ast.Name) and is_set_expr(n.value, set()):
                    local_sets.add(n.targets[0].id)

            def target_cell(e):
                if isinstance(e, ast.Name):
                    if e.id in defaults:
                        return defaults[e.id]
                    if e.id in mod_cells:
                        return mod_cells[e.id]
                if isinstance(e, ast.Attribute) and isinstance(e.value, ast.Name):
                    k = f"{e.value.id}.{e.attr}"
                    if k in mod_cells:
                        return mod_cells[k]
                    if e.value.id in ("cls",) and any(c.endswith("." + e.attr) for c in mod_cells.values()):
                        return next(c for c in mod_cells.values() if c.endswith("." + e.attr))
                return None

            for n in ast.walk(fn):
                if isinstance(n, ast.Call) and isinstance(n.func, ast.Attribute) and n.func.attr in MUT_METHODS:
                    c = target_cell(n.func.value)
                    if c:
                        writes.append((c, fname))
                if isinstance(n, (ast.Assign, ast.AugAssign, ast.Delete)):
                    targets = n.targets if isinstance(n, (ast.Assign, ast.Delete)) else [n.target]
                    for t in targets:
                        if isinstance(t, ast.Subscript):
                            c = target_cell(t.value)
                            if c:
                                writes.append((c, fname))
                        elif isinstance(t, ast.Name) and t.id in globals_declared and t.id in mod_cells:
                            writes.append((mod_cells[t.id], fname))
                        elif isinstance(t, ast.Name) and isinstance(n, ast.AugAssign) and t.id in defaults:
                            writes.append((defaults[t.id], fname))
                if isinstance(n, (ast.For, ast.comprehension)):
                    it = n.iter
                    if is_set_expr(it, local_sets):
                        set_iter.append((mod, fn.name, ast.unparse(it)[:60]))
                if isinstance(n, ast.Call) and isinstance(n.func, ast.Name) and n.func.id in ("id", "hash"):
                    id_hash.append((mod, fn.name, n.func.id))
                if isinstance(n, ast.Call) and isinstance(n.func, ast.Attribute) and n.func.attr == "pop" and is_set_expr(n.func.value, local_sets) and not n.args:
                    set_iter.append((mod, fn.name, ast.unparse(n)[:60]))
                if isinstance(n, ast.Call) and isinstance(n.func, ast.Name) and n.func.id in ("list", "tuple", "sorted", "enumerate", "next", "iter") and n.args and is_set_expr(n.args[0], local_sets) and n.func.id != "sorted":
                    set_iter.append((mod, fn.name, ast.unparse(n)[:60]))
    return sorted(set(cells)), sorted(set(writes)), sorted(set(set_iter)), sorted(set(id_hash))


def lstr(s):
    return '"' + s.replace("\\", "\\\\").replace('"', '\\"') + '"'


def generate():
    cells, writes, set_iter, id_hash = analyse()
    out = ["-- GENERATED by gen/modulestate.py from the AST of every module of pdb2pqr — do not edit", "namespace P2P.Gen.ModuleState", ""]
    out.append("/-- mutable objects that outlive a run: (cell, kind ∈ module | class | default) -/")
    out.append("def cells : List (String × String) := [")
    out.append(",\n".join(f"  ({lstr(a)}, {lstr(b)})" for a, b in cells))
    out.append("]")
    out.append("/-- (cell, function) for every statement inside a function that mutates such a cell -/")
    out.append("def writes : List (String × String) := [")
    out.append(",\n".join(f"  ({lstr(a)}, {lstr(b)})" for a, b in writes))
    out.append("]")
    out.append("/-- (module, function, source) of every iteration over / pop from / listing of a set expression -/")
    out.append("def setIteration : List (String × String × String) := [")
    out.append(",\n".join(f"  ({lstr(a)}, {lstr(b)}, {lstr(c)})" for a, b, c in set_iter))
    out.append("]")
    out.append("/-- (module, function, id|hash) -/")
    out.append("def idHash : List (String × String × String) := [")
    out.append(",\n".join(f"  ({lstr(a)}, {lstr(b)}, {lstr(c)})" for a, b, c in id_hash))
    out.append("]")
    out.append("")
    out.append("end P2P.Gen.ModuleState")
    return {"P2P/Gen/ModuleState.lean": "\n".join(out) + "\n"}


generate.__name__ = "gen.modulestate"

if __name__ == "__main__":
    print(generate()["P2P/Gen/ModuleState.lean"])
