"""Translator: pdb2pqr/dat/<FF>.DAT + <FF>.names  ->  lean/P2P/Gen/FF_<FF>.lean

Strict by design: anything outside the documented formats (or outside the regex fragment
P2P.Model.Regex covers) raises, so the check records `tie_broken: translator` instead of
guessing. Numbers are emitted as exact decimals (sign, mantissa, exponent)."""

from __future__ import annotations

import os
import re
import re._constants as sc
import re._parser as sp
import xml.etree.ElementTree as ET
from decimal import Decimal
from pathlib import Path

REPO = Path(os.environ.get("VERIF_REPO", "/repo"))
DAT = REPO / "pdb2pqr" / "dat"
FFS = ["AMBER", "CHARMM", "PARSE", "PEOEPB", "SWANSON", "TYL06"]


class Unsupported(Exception):
    pass


# ----------------------------------------------------------------- regex


def re_ast(pattern: str):
    """Python pattern -> nested tuples in the fragment of P2P.Model.Regex"""
    try:
        tree = sp.parse(pattern)
    except re.error as e:
        raise Unsupported(f"pattern {pattern!r}: {e}") from e
    return conv_seq(list(tree))


def conv_seq(items):
    return ("seqs", [conv(i) for i in items])


def conv(item):
    op, arg = item
    if op is sc.LITERAL:
        return ("lit", arg)
    if op is sc.ANY:
        return ("any",)
    if op is sc.IN:
        neg = False
        chars = []
        for o, a in arg:
            if o is sc.NEGATE:
                neg = True
            elif o is sc.LITERAL:
                chars.append(a)
            elif o is sc.RANGE:
                chars.extend(range(a[0], a[1] + 1))
            else:
                raise Unsupported(f"class item {o}")
        return ("cls", neg, chars)
    if op is sc.MAX_REPEAT:
        lo, hi, sub = arg
        if (lo, hi) != (0, 1):
            raise Unsupported(f"repeat {lo},{hi}")
        return ("opt", conv_seq(list(sub)))
    if op is sc.SUBPATTERN:
        _gid, add, dele, sub = arg
        if add or dele:
            raise Unsupported("inline flags")
        return ("group", conv_seq(list(sub)))
    if op is sc.ASSERT_NOT:
        direction, sub = arg
        if direction != 1:
            raise Unsupported("look-behind")
        return ("nla", conv_seq(list(sub)))
    if op is sc.BRANCH:
        _, branches = arg
        return ("alts", [conv_seq(list(b)) for b in branches])
    if op is sc.AT:
        if arg is sc.AT_END:
            return ("eos",)
        raise Unsupported(f"anchor {arg}")
    raise Unsupported(f"regex construct {op}")


def re_lean(a) -> str:
    k = a[0]
    if k == "seqs":
        return "(seqs [" + ", ".join(re_lean(x) for x in a[1]) + "])"
    if k == "alts":
        return "(alts [" + ", ".join(re_lean(x) for x in a[1]) + "])"
    if k == "lit":
        return f"(.lit (Char.ofNat {a[1]}))"
    if k == "any":
        return ".any"
    if k == "cls":
        return f"(.cls {'true' if a[1] else 'false'} [" + ", ".join(f"Char.ofNat {c}" for c in a[2]) + "])"
    if k in ("opt", "group", "nla"):
        return f"(.{k} {re_lean(a[1])})"
    if k == "eos":
        return ".eos"
    raise Unsupported(k)


def re_tokens(a) -> list[str]:
    """prefix tokens for the driver protocol (binary seq/alt, right nested like `seqs`/`alts`)"""
    k = a[0]
    if k in ("seqs", "alts"):
        xs = a[1]
        if not xs:
            return ["e"] if k == "seqs" else ["n", "e"]
        if len(xs) == 1:
            return re_tokens(xs[0])
        return ["s" if k == "seqs" else "v"] + re_tokens(xs[0]) + re_tokens((k, xs[1:]))
    if k == "lit":
        return [f"l{a[1]}"]
    if k == "any":
        return ["a"]
    if k == "cls":
        return [f"c{1 if a[1] else 0}" + ",".join(str(c) for c in a[2])]
    if k == "opt":
        return ["o"] + re_tokens(a[1])
    if k == "group":
        return ["g"] + re_tokens(a[1])
    if k == "nla":
        return ["n"] + re_tokens(a[1])
    if k == "eos":
        return ["$"]
    raise Unsupported(k)


# ------------------------------------------------------------ DAT / names


def dec(tok: str):
    """exact decimal of a DAT number token: (neg, mant, exp)"""
    if not re.fullmatch(r"[+-]?(\d+\.?\d*|\.\d+)([eE][+-]?\d+)?", tok):
        raise Unsupported(f"number token {tok!r}")
    d = Decimal(tok)
    sign, digits, exp = d.as_tuple()
    # Lean's parseFloat? keeps every digit of the literal: mirror that (Decimal does too)
    mant = int("".join(map(str, digits)))
    return bool(sign), mant, exp


def read_dat(path: Path):
    rows = []
    for line in path.read_text(encoding="utf-8").splitlines(keepends=True):
        if line.startswith("#"):
            continue
        f = line.split()
        if not f:
            continue
        if len(f) < 4:
            raise Unsupported(f"short row {line!r}")
        rows.append((f[0], f[1], dec(f[2]), dec(f[3]), f[4] if len(f) > 4 else ""))
    return rows


def read_names(path: Path):
    """sections as the SAX handler sees them (etree view; the harness compares both views)"""
    root = ET.parse(path).getroot()
    sections = []
    for res in root:
        if res.tag != "residue":
            raise Unsupported(f"element <{res.tag}> at top level of {path.name}")
        name = use = None
        atoms = {}
        for ch in res:
            if ch.tag == "name":
                name = ch.text
            elif ch.tag == "useresname":
                use = ch.text
            elif ch.tag == "atom":
                an = au = None
                for c2 in ch:
                    if c2.tag == "name":
                        an = c2.text
                    elif c2.tag == "useatomname":
                        au = c2.text
                    else:
                        raise Unsupported(f"element <{c2.tag}> in <atom>")
                if an is None or au is None:
                    raise Unsupported("atom without name/useatomname")
                atoms[an] = au
            elif ch.tag in ("residue", "name", "useresname", "useatomname"):
                raise Unsupported(f"nested <{ch.tag}> in <residue>")
            else:
                # any other element (<exclud> in CHARMM/PEOEPB.names): the SAX handler stores no
                # text for it; it must not contain elements the handler reacts to
                if any(d.tag in ("residue", "atom", "useresname", "useatomname") for d in ch.iter() if d is not ch):
                    raise Unsupported(f"<{ch.tag}> contains handled elements")
        if name is None:
            raise Unsupported("residue section without <name>")
        sections.append((name, use, list(atoms.items())))
    return sections


def lstr(s: str) -> str:
    return '(str "' + s.replace("\\", "\\\\").replace('"', '\\"') + '")'


def ldec(d) -> str:
    neg, mant, exp = d
    e = f"(Int.ofNat {exp})" if exp >= 0 else f"(Int.negSucc {-exp - 1})"
    return f"⟨{'true' if neg else 'false'}, {mant}, {e}⟩"


def gen_ff(name: str) -> str:
    rows = read_dat(DAT / f"{name}.DAT")
    sections = read_names(DAT / f"{name}.names")
    out = [
        f"-- GENERATED by gen/ff.py from pdb2pqr/dat/{name}.DAT and {name}.names — do not edit",
        "import P2P.Model.FF",
        f"namespace P2P.Gen.FF_{name}",
        "open P2P P2P.FF P2P.Regex",
        "",
        "",
    ]
    out.pop()  # (placeholder removed below)
    chunks = [rows[i : i + 40] for i in range(0, len(rows), 40)]
    for ci, ch in enumerate(chunks):
        out.append(f"def rows{ci} : List Row := [")
        out.append(",\n".join(f"  ⟨{lstr(r)}, {lstr(a)}, {ldec(q)}, {ldec(rad)}, {lstr(g)}⟩" for r, a, q, rad, g in ch))
        out.append("]")
    out.append("def rows : List Row := " + (" ++ ".join(f"rows{ci}" for ci in range(len(chunks))) or "[]"))
    out.append("")
    out.append("def sections : List Section := [")
    secs = []
    for pat, use, atoms in sections:
        ast = re_ast(pat + "$")
        u = "none" if use is None else f"(some {lstr(use)})"
        al = "[" + ", ".join(f"({lstr(a)}, {lstr(b)})" for a, b in atoms) + "]"
        secs.append(f"  -- {pat}\n  ⟨{re_lean(ast)}, {u}, {al}⟩")
    out.append(",\n".join(secs))
    out.append("]")
    out.append("")
    out.append(f"end P2P.Gen.FF_{name}")
    return "\n".join(out) + "\n"


def generate():
    return {f"P2P/Gen/FF_{n}.lean": gen_ff(n) for n in FFS}


generate.__name__ = "gen.ff"

if __name__ == "__main__":
    for k, v in generate().items():
        print(k, len(v))
