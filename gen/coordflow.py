"""Translator: AST of every module of the pdb2pqr package -> lean/P2P/Gen/CoordFlow.lean

For each function / method: the package function and class names it mentions (calls, method
calls by simple name, and bare references — an over-approximation of the call graph: a method
call `x.foo()` is an edge to every `foo` of the package), whether it assigns `.x/.y/.z` (or
`.coords`) of an object that is not created in the same function, and whether it uses `setattr`
with a computed attribute name. `getattr(<module>, <var>)` (the dynamic choice of an
optimisation class in hydrogens/__init__.py) is an edge to the class named by the enclosing
`if <var> == "<literal>"` test when there is one, and to every class of that module otherwise.
Strict: other dynamic dispatch (`globals()`, `__dict__` lookups, `eval`, `exec`) stops the
translator."""

from __future__ import annotations

import ast
import os
from pathlib import Path

REPO = Path(os.environ.get("VERIF_REPO", "/repo"))
PKG = REPO / "pdb2pqr"
COORD = ("x", "y", "z", "coords")


class Unsupported(Exception):
    pass


def modules():
    for p in sorted(PKG.rglob("*.py")):
        rel = p.relative_to(PKG).with_suffix("")
        yield ".".join(rel.parts), p


def collect():
    """-> (functions, classes_by_module)"""
    trees = {}
    classes = {}
    for mod, p in modules():
        t = ast.parse(p.read_text())
        trees[mod] = t
        classes[mod] = [n.name for n in ast.walk(t) if isinstance(n, ast.ClassDef)]
    fnames = set()
    cnames = set()
    for mod, t in trees.items():
        for n in ast.walk(t):
            if isinstance(n, (ast.FunctionDef, ast.AsyncFunctionDef)):
                fnames.add(n.name)
            elif isinstance(n, ast.ClassDef):
                cnames.add(n.name)
    known = fnames | cnames
    out = []
    for mod, t in trees.items():
        # module aliases: `from . import structures`, `from .. import aa`, `import x.y as z`
        alias = {}
        for n in ast.walk(t):
            if isinstance(n, ast.ImportFrom):
                for a in n.names:
                    alias[a.asname or a.name] = a.name
            elif isinstance(n, ast.Import):
                for a in n.names:
                    alias[a.asname or a.name.split(".")[0]] = a.name.split(".")[-1]

        def visit(body, cls):
            for n in body:
                if isinstance(n, ast.ClassDef):
                    visit(n.body, n.name)
                elif isinstance(n, (ast.FunctionDef, ast.AsyncFunctionDef)):
                    out.append(analyse(mod, cls, n, known, classes, alias))
                    # nested defs are part of the enclosing function's body (ast.walk covers them)

        visit(t.body, "")
    return out, classes


def analyse(mod, cls, fn, known, classes, alias):
    refs = set()
    writes = []
    dyn = False
    # variables bound to a freshly constructed object in this function
    fresh = set()
    for n in ast.walk(fn):
        if isinstance(n, ast.Assign) and isinstance(n.value, ast.Call):
            f = n.value.func
            last = f.attr if isinstance(f, ast.Attribute) else (f.id if isinstance(f, ast.Name) else "")
            if last == "cls" or (last[:1].isupper() and last in known):
                for tg in n.targets:
                    if isinstance(tg, ast.Name):
                        fresh.add(tg.id)
    if fn.name == "__init__":
        fresh.add("self")
    # literal guards: var == "Lit" in an enclosing if
    parents = {}
    for n in ast.walk(fn):
        for c in ast.iter_child_nodes(n):
            parents[c] = n

    def literal_guard(node, var):
        p = node
        while p in parents:
            child, p = p, parents[p]
            if isinstance(p, ast.If) and child in p.body:
                t = p.test
                if (
                    isinstance(t, ast.Compare)
                    and len(t.ops) == 1
                    and isinstance(t.ops[0], ast.Eq)
                    and isinstance(t.left, ast.Name)
                    and t.left.id == var
                    and isinstance(t.comparators[0], ast.Constant)
                    and isinstance(t.comparators[0].value, str)
                ):
                    return t.comparators[0].value
        return None

    for n in ast.walk(fn):
        if isinstance(n, ast.Name):
            if n.id in known:
                refs.add(n.id)
            if n.id in ("globals", "eval", "exec", "__import__"):
                raise Unsupported(f"{mod}.{cls}.{fn.name}: dynamic dispatch through {n.id}")
        elif isinstance(n, ast.Attribute):
            if n.attr in known:
                refs.add(n.attr)
            if n.attr == "__dict__":
                raise Unsupported(f"{mod}.{cls}.{fn.name}: __dict__ access")
        if isinstance(n, ast.Call) and isinstance(n.func, ast.Name) and n.func.id == "getattr":
            a0, a1 = n.args[0], n.args[1]
            if isinstance(a1, ast.Constant):
                if a1.value in known:
                    refs.add(a1.value)
            elif isinstance(a0, ast.Name) and a0.id in alias and isinstance(a1, ast.Name):
                target_mod = alias[a0.id]
                lit = literal_guard(n, a1.id)
                cands = [c for m, cs in classes.items() if m.split(".")[-1] == target_mod for c in cs]
                if lit is not None:
                    refs.add(lit)
                else:
                    refs.update(cands)
            else:
                # getattr(obj, computed): may name any method of the package
                refs.add("<getattr>")
        if isinstance(n, ast.Call) and isinstance(n.func, ast.Name) and n.func.id == "setattr":
            a1 = n.args[1]
            if isinstance(a1, ast.Constant):
                if a1.value in COORD:
                    writes.append("setattr")
            else:
                dyn = True
        targets = []
        if isinstance(n, ast.Assign):
            targets = n.targets
        elif isinstance(n, (ast.AugAssign, ast.AnnAssign)):
            targets = [n.target]
        for tg in targets:
            for t in ast.walk(tg):
                if isinstance(t, ast.Attribute) and t.attr in COORD and isinstance(t.ctx, ast.Store):
                    base = t.value
                    if isinstance(base, ast.Name) and base.id in fresh:
                        continue
                    writes.append(ast.unparse(t))
    return {"mod": mod, "cls": cls, "name": fn.name, "refs": sorted(refs), "writes": sorted(set(writes)), "dyn": dyn}


def lstr(s):
    return '"' + s.replace("\\", "\\\\").replace('"', '\\"') + '"'


def generate():
    fns, _classes = collect()
    out = [
        "-- GENERATED by gen/coordflow.py from the AST of every module of the pdb2pqr package — do not edit",
        "import P2P.Model.CoordFlow",
        "namespace P2P.Gen.CoordFlow",
        "open P2P.CoordFlow",
        "",
    ]
    items = [
        f"  ⟨{lstr(f['mod'])}, {lstr(f['cls'])}, {lstr(f['name'])}, [" + ", ".join(lstr(r) for r in f["refs"]) + f"], {'true' if f['writes'] else 'false'}, {'true' if f['dyn'] else 'false'}⟩"
        for f in fns
    ]
    chunks = [items[i : i + 40] for i in range(0, len(items), 40)]
    for ci, ch in enumerate(chunks):
        out.append(f"def fns{ci} : List Fn := [")
        out.append(",\n".join(ch))
        out.append("]")
    out.append("def fns : List Fn := " + " ++ ".join(f"fns{ci}" for ci in range(len(chunks))))
    out.append("")
    out.append("end P2P.Gen.CoordFlow")
    return {"P2P/Gen/CoordFlow.lean": "\n".join(out) + "\n"}


generate.__name__ = "gen.coordflow"

if __name__ == "__main__":
    fns, _ = collect()
    for f in fns:
        if f["writes"] or f["dyn"]:
            print(f["mod"], f["cls"], f["name"], f["writes"], f["dyn"])
    # who reaches set_dihedral_angle
    names = lambda f: [f["cls"]] if f["name"] == "__init__" else [f["name"]]
    S = {"set_dihedral_angle"}
    changed = True
    while changed:
        changed = False
        for f in fns:
            if set(f["refs"]) & S and not set(names(f)) <= S:
                S.update(names(f))
                changed = True
    print(sorted(S))
    print(len(fns))
