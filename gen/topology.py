"""Translator: pdb2pqr/dat/AA.xml, NA.xml, PATCHES.xml -> lean/P2P/Gen/Topology.lean

Re-implements, over xml.etree, what definitions.DefinitionHandler + Definition.__init__ /
add_patch build (the *effective* residue definitions, including the patched variants named by
<newname>), and biomolecule.Biomolecule.apply_patch (run-time patches). The harness
cross-checks every object this module builds against the real classes, exhaustively, on every
run. Strict: unknown XML elements raise."""

from __future__ import annotations

import copy
import os
import re
import xml.etree.ElementTree as ET
from decimal import Decimal
from pathlib import Path

REPO = Path(os.environ.get("VERIF_REPO", "/repo"))
DAT = REPO / "pdb2pqr" / "dat"


class Unsupported(Exception):
    pass


class DAtom:
    def __init__(self, name):
        self.name = name
        self.x = self.y = self.z = "0.0"  # decimal text
        self.bonds = []

    def __repr__(self):
        return f"{self.name}({self.x},{self.y},{self.z};{','.join(self.bonds)})"


class DRes:
    def __init__(self, name=""):
        self.name = name
        self.map = {}  # atom name -> DAtom (ordered)
        self.altnames = {}
        self.dihedrals = []


class DPatch:
    def __init__(self):
        self.name = ""
        self.applyto = ""
        self.newname = ""
        self.map = {}
        self.remove = []
        self.altnames = {}
        self.dihedrals = []


def _text(e):
    return (e.text or "").strip()


def _atom(e, holder):
    a = DAtom("")
    for c in e:
        t = _text(c)
        if c.tag == "name":
            a.name = t
        elif c.tag in ("x", "y", "z"):
            if t:
                setattr(a, c.tag, t)
        elif c.tag == "bond":
            if t:
                a.bonds.append(t)
        elif c.tag == "altname":
            if t:
                holder.altnames[t] = a.name  # name precedes altname in every file (checked against the real parser)
        else:
            raise Unsupported(f"<{c.tag}> inside <atom>")
    if a.name == "":
        raise Unsupported("atom without name")
    return a


def read_residues(path):
    root = ET.parse(path).getroot()
    out = {}
    for r in root:
        if r.tag != "residue":
            raise Unsupported(f"<{r.tag}> at top level of {path.name}")
        res = DRes()
        for c in r:
            if c.tag == "name":
                res.name = _text(c)
            elif c.tag == "atom":
                a = _atom(c, res)
                res.map[a.name] = a
            elif c.tag == "dihedral":
                if _text(c):
                    res.dihedrals.append(_text(c))
            else:
                raise Unsupported(f"<{c.tag}> inside <residue>")
        if res.name == "":
            raise Unsupported("residue without name")
        out[res.name] = res
    return out


def read_patches(path):
    root = ET.parse(path).getroot()
    out = []
    for p in root:
        if p.tag != "patch":
            raise Unsupported(f"<{p.tag}> at top level of {path.name}")
        patch = DPatch()
        for c in p:
            t = _text(c)
            if c.tag in ("name", "applyto", "newname"):
                if t:
                    setattr(patch, c.tag, t)
            elif c.tag == "add":
                for d in c:
                    if d.tag == "atom":
                        a = _atom(d, patch)
                        patch.map[a.name] = a
                    elif d.tag == "dihedral":
                        if _text(d):
                            patch.dihedrals.append(_text(d))
                    else:
                        raise Unsupported(f"<{d.tag}> inside <add>")
            elif c.tag == "remove":
                # <remove><atom><name>X</name></atom></remove>  or  <remove>X</remove>
                if t:
                    patch.remove.append(t)
                for d in c:
                    if d.tag == "atom":
                        for e in d:
                            if e.tag == "name" and _text(e):
                                patch.remove.append(_text(e))
                            elif e.tag != "name":
                                raise Unsupported(f"<{e.tag}> inside <remove><atom>")
                    elif d.tag == "name":
                        if _text(d):
                            patch.remove.append(_text(d))
                    else:
                        raise Unsupported(f"<{d.tag}> inside <remove>")
            elif c.tag == "dihedral":
                if t:
                    patch.dihedrals.append(t)
            elif c.tag == "altname":
                raise Unsupported("<altname> directly inside <patch>")
            else:
                raise Unsupported(f"<{c.tag}> inside <patch>")
        if patch.name == "":
            raise Unsupported("patch without name")
        out.append(patch)
    return out


class Definitions:
    """Definition.__init__"""

    def __init__(self):
        self.map = {}
        self.patches = {}
        for f in ("AA.xml", "NA.xml"):
            self.map.update(read_residues(DAT / f))
        self.patchlist = read_patches(DAT / "PATCHES.xml")
        for patch in self.patchlist:
            if patch.newname != "":
                for name in list(self.map.keys()):
                    if not re.compile(patch.applyto).match(name):
                        continue
                    self.add_patch(patch, name, patch.newname.replace("*", name))
            self.add_patch(patch, patch.applyto, patch.name)

    def add_patch(self, patch, refname, newname):
        if refname not in self.map:
            self.patches[newname] = patch
            return
        pr = copy.deepcopy(self.map[refname])
        for an in patch.map:
            pr.map[an] = patch.map[an]  # shared object, as in the code
            for b in patch.map[an].bonds:
                if b not in pr.map:
                    continue
                if an not in pr.map[b].bonds:
                    pr.map[b].bonds.append(an)
        for k in patch.altnames:
            pr.altnames[k] = patch.altnames[k]
        for rm in patch.remove:
            if rm not in pr.map:
                continue
            rb = pr.map[rm].bonds
            del pr.map[rm]
            for b in rb:
                if rm in pr.map[b].bonds:  # KeyError here is what the code would raise too
                    pr.map[b].bonds.remove(rm)
        for d in patch.dihedrals:
            pr.dihedrals.append(d)
        self.map[newname] = pr
        self.patches[newname] = patch


def apply_patch_ref(defs: Definitions, patchname: str, ref: DRes, present: list[str]):
    """Biomolecule.apply_patch on (reference, list of atom names present): returns
    (new reference, new present list). PEPTIDE mutates the reference in place like the code."""
    patch = defs.patches[patchname]
    newref = ref if patchname == "PEPTIDE" else copy.deepcopy(ref)
    for an in patch.map:
        newref.map[an] = patch.map[an]
        for b in patch.map[an].bonds:
            if b not in newref.map:
                continue
            if an not in newref.map[b].bonds:
                newref.map[b].bonds.append(an)
    present = list(present)
    for rm in patch.remove:
        if rm in present:
            present.remove(rm)
        if rm not in newref.map:
            continue
        rb = newref.map[rm].bonds
        del newref.map[rm]
        for b in rb:
            idx = newref.map[b].bonds.index(rm)
            del newref.map[b].bonds[idx]
    for d in patch.dihedrals:
        newref.dihedrals.append(d)
    # rename atoms as directed by the patch (iterating the list as it is renamed, like the code)
    for i, n in enumerate(list(present)):
        if n in patch.altnames:
            new = patch.altnames[n]
            present[present.index(n)] = new
    return newref, present


_defs = None


def definitions() -> Definitions:
    global _defs
    if _defs is None:
        _defs = Definitions()
    return _defs


def thousandths(t: str) -> int:
    """coordinate text -> integer number of micro-Ångströms (the XML has at most six decimals)"""
    d = Decimal(t) * 1000000
    if d != d.to_integral_value():
        raise Unsupported(f"coordinate {t} has more than six decimals")
    return int(d)


def lstr(s: str) -> str:
    return '(str "' + s.replace("\\", "\\\\").replace('"', '\\"') + '")'


def lint(i: int) -> str:
    return f"(Int.ofNat {i})" if i >= 0 else f"(Int.negSucc {-i - 1})"


def generate():
    d = Definitions()
    out = [
        "-- GENERATED by gen/topology.py from pdb2pqr/dat/AA.xml, NA.xml, PATCHES.xml — do not edit",
        "import P2P.Model.Topology",
        "namespace P2P.Gen.Topology",
        "open P2P P2P.Topology",
        "",
        "/-- keys of `Definition.map` in insertion order: the canonical residue names -/",
        "def canon : List Str := [" + ", ".join(lstr(k) for k in d.map) + "]",
        "",
    ]
    items = []
    for name, r in d.map.items():
        atoms = ", ".join(
            f"⟨{lstr(a.name)}, {lint(thousandths(a.x))}, {lint(thousandths(a.y))}, {lint(thousandths(a.z))}, [" + ", ".join(lstr(b) for b in a.bonds) + "]⟩"
            for a in r.map.values()
        )
        dih = ", ".join("[" + ", ".join(lstr(w) for w in dd.split()) + "]" for dd in r.dihedrals)
        items.append(f"  ⟨{lstr(name)}, [{atoms}], [{dih}]⟩")
    chunks = [items[i : i + 4] for i in range(0, len(items), 4)]
    for ci, ch in enumerate(chunks):
        out.append(f"def residues{ci} : List ResDef := [")
        out.append(",\n".join(ch))
        out.append("]")
    out.append("/-- the effective residue definitions (after the <newname> patches) -/")
    out.append("def residues : List ResDef := " + " ++ ".join(f"residues{ci}" for ci in range(len(chunks))))
    out.append("")
    out.append("/-- run-time patches (`Definition.patches`) -/")
    items = []
    for name, p in d.patches.items():
        atoms = ", ".join(
            f"⟨{lstr(a.name)}, {lint(thousandths(a.x))}, {lint(thousandths(a.y))}, {lint(thousandths(a.z))}, [" + ", ".join(lstr(b) for b in a.bonds) + "]⟩"
            for a in p.map.values()
        )
        dih = ", ".join("[" + ", ".join(lstr(w) for w in dd.split()) + "]" for dd in p.dihedrals)
        rm = ", ".join(lstr(x) for x in p.remove)
        alt = ", ".join(f"({lstr(a)}, {lstr(b)})" for a, b in p.altnames.items())
        # the dictionary key is the patch name as used by apply_patch (may differ from <name> for <newname> variants)
        items.append(f"  ⟨{lstr(name)}, [{atoms}], [{rm}], [{alt}], [{dih}]⟩")
    chunks = [items[i : i + 8] for i in range(0, len(items), 8)]
    for ci, ch in enumerate(chunks):
        out.append(f"def patches{ci} : List PatchDef := [")
        out.append(",\n".join(ch))
        out.append("]")
    out.append("def patches : List PatchDef := " + " ++ ".join(f"patches{ci}" for ci in range(len(chunks))))
    out.append("")
    out.append("end P2P.Gen.Topology")
    return {"P2P/Gen/Topology.lean": "\n".join(out) + "\n"}


generate.__name__ = "gen.topology"

if __name__ == "__main__":
    for k, v in generate().items():
        print(k, len(v))
