import P2P.Text
import P2P.Model.Pqr
