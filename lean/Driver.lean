/-
  Line-protocol driver: reads requests from stdin, answers on stdout.
  Built natively by `lake build driver` (no Mathlib anywhere below it) or run
  with `lake env lean --run Driver.lean`.
-/
import P2P.Drv.Proto
import P2P.Drv.Pqr
import P2P.Drv.PdbRead
import P2P.Drv.Dx
import P2P.Drv.Psize
import P2P.Drv.Cif
import P2P.Drv.FF
import P2P.Drv.SS
import P2P.Drv.Termini
import P2P.Drv.Pka
import P2P.Drv.Geom
import P2P.Drv.Cells
import P2P.Drv.Peoe
import P2P.Drv.Rigid
import P2P.Drv.Atoms
import P2P.Drv.ChargeGuard
import P2P.Drv.Carboxylic
import P2P.Drv.Stages
import P2P.Drv.RepairFit
import P2P.Drv.Nuc

open P2P P2P.Drv

def allHandlers : List (String × Handler) :=
  PqrD.handlers ++ PdbReadD.handlers ++ DxD.handlers ++ PsizeD.handlers ++ CifD.handlers ++ FFD.handlers ++ SSD.handlers ++ TerminiD.handlers ++ PkaD.handlers ++ GeomD.handlers ++ CellsD.handlers ++ PeoeD.handlers ++ RigidD.handlers ++ AtomsD.handlers ++ ChargeGuardD.handlers ++ CarboxylicD.handlers ++ StagesD.handlers ++ RepairFitD.handlers ++ NucD.handlers

def answer (line : Str) : Str :=
  let line := line.filter (fun c => c ≠ '\n' && c ≠ '\r')
  match splitOnChar tab line with
  | [] => str "bad-op"
  | op :: args =>
    match allHandlers.lookup op.toS with
    | some h => h args
    | none => str "bad-op"

partial def loop (hin hout : IO.FS.Stream) : IO Unit := do
  let line ← hin.getLine
  if line.isEmpty then return ()
  hout.putStrLn (answer line.toList).toS
  loop hin hout

def main : IO Unit := do
  let hin ← IO.getStdin
  let hout ← IO.getStdout
  loop hin hout
  hout.flush
