import P2P.Model.OptionGate

namespace P2P.Proofs.OptionGate
open P2P P2P.OptionGate

theorem gate_none_iff_core (r : Req) : gate r = none ↔ Usable r := by
  obtain ⟨un, uf, ff, dat, lig, ph, nn, nc⟩ := r
  unfold gate checkFiles checkOptions Usable
  rcases un with _ | _ | _ <;> rcases uf with _ | _ | _ <;> rcases lig with _ | _ | _ <;>
    cases dat <;> cases nn <;> cases nc <;> cases hph : phOutside ph <;> cases hp : isParse ff <;>
    cases hs : ff.isSome <;> simp_all

end P2P.Proofs.OptionGate
