import P2P.Model.Peoe
import Mathlib.Tactic.Ring
import Mathlib.Tactic.Linarith
import Mathlib.Tactic.FieldSimp
import Mathlib.Algebra.Order.Field.Rat
import Mathlib.Algebra.BigOperators.Group.List.Basic
import Mathlib.Data.Rat.Defs
import Mathlib.Algebra.Order.Ring.Abs

namespace P2P.Proofs.Peoe
open P2P P2P.Peoe

/-- exact arithmetic -/
instance : QNum ℚ where
  ofNat n := (n : ℚ)
  abs x := |x|
  lt a b := decide (a < b)
  pow a n := a ^ n

private theorem qadd (a b : ℚ) : @HAdd.hAdd ℚ ℚ ℚ (@instHAdd ℚ QNum.toAdd) a b = a + b := rfl
private theorem qsub (a b : ℚ) : @HSub.hSub ℚ ℚ ℚ (@instHSub ℚ QNum.toSub) a b = a - b := rfl
private theorem qmul (a b : ℚ) : @HMul.hMul ℚ ℚ ℚ (@instHMul ℚ QNum.toMul) a b = a * b := rfl
private theorem qdiv (a b : ℚ) : @HDiv.hDiv ℚ ℚ ℚ (@instHDiv ℚ QNum.toDiv) a b = a / b := rfl
private theorem qofNat (n : Nat) : (QNum.ofNat n : ℚ) = (n : ℚ) := rfl
private theorem qabs (a : ℚ) : QNum.abs a = |a| := rfl
private theorem qlt (a b : ℚ) : QNum.lt a b = decide (a < b) := rfl
private theorem qpow (a : ℚ) (n : Nat) : QNum.pow a n = a ^ n := rfl

private theorem isclose_zero_iff {rel : ℚ} (hrel : 0 ≤ rel ∧ rel < 1) (a : ℚ) :
    isclose rel a (QNum.ofNat 0) = true ↔ a = 0 := by
  unfold isclose
  simp only [qmul, qofNat, qabs, qlt, Nat.cast_zero, abs_zero, sub_zero]
  have h0 : ¬ |a| < 0 := not_lt.mpr (abs_nonneg a)
  simp only [h0, decide_false, Bool.false_eq_true, if_false, Bool.not_eq_true', decide_eq_false_iff_not, not_lt]
  constructor
  · intro h
    by_contra hne
    have hpos : 0 < |a| := abs_pos.mpr hne
    nlinarith [hrel.1, hrel.2]
  · rintro rfl; simp


/-- the pairwise transfer, antisymmetric in `(i, j)` -/
private def pairF (chi : ℚ → Nat → ℚ) (norm : Nat → ℚ) (damp : ℚ) (k : Nat) (q : List ℚ) (i j : Nat) : ℚ :=
  (chi (q.getD j 0) j - chi (q.getD i 0) i) /
    (if chi (q.getD i 0) i < chi (q.getD j 0) j then norm i else norm j) * damp ^ k

private theorem pairF_antisymm (chi : ℚ → Nat → ℚ) (norm : Nat → ℚ) (damp : ℚ) (k : Nat) (q : List ℚ) (i j : Nat) :
    pairF chi norm damp k q j i = - pairF chi norm damp k q i j := by
  unfold pairF
  rcases lt_trichotomy (chi (q.getD i 0) i) (chi (q.getD j 0) j) with h | h | h
  · rw [if_pos h, if_neg (not_lt.mpr h.le)]; ring
  · rw [h]; simp
  · rw [if_pos h, if_neg (not_lt.mpr h.le)]; ring

private theorem foldl_add_eq (g : Nat → ℚ) (l : List Nat) (a : ℚ) :
    l.foldl (fun acc j => acc + g j) a = a + (l.map g).sum := by
  induction l generalizing a with
  | nil => simp
  | cons x l ih => simp only [List.foldl_cons, ih, List.map_cons, List.sum_cons]; ring

private theorem sum_flatMap_pairs (g : Nat → Nat → ℚ) (bonded : Nat → List Nat) (l : List Nat) :
    (l.map (fun i => ((bonded i).map (g i)).sum)).sum =
      ((l.flatMap (fun i => (bonded i).map (fun j => (i, j)))).map (fun e => g e.1 e.2)).sum := by
  induction l with
  | nil => simp
  | cons x l ih =>
    simp only [List.map_cons, List.sum_cons, List.flatMap_cons, List.map_append, List.sum_append, ih,
      List.map_map]
    rfl

private theorem sum_map_neg' (g h : Nat × Nat → ℚ) (l : List (Nat × Nat)) (hh : ∀ e, h e = - g e) :
    (l.map h).sum = - (l.map g).sum := by
  induction l with
  | nil => simp
  | cons x l ih => simp only [List.map_cons, List.sum_cons, ih, hh]; ring

private theorem delta_sum_zero (n : Nat) (bonded : Nat → List Nat) (g : Nat → Nat → ℚ)
    (hg : ∀ i j, g j i = - g i j)
    (hsym : (directedEdges n bonded).Perm ((directedEdges n bonded).map Prod.swap)) :
    ((List.range n).map (fun i => ((bonded i).map (g i)).sum)).sum = 0 := by
  rw [sum_flatMap_pairs]
  change ((directedEdges n bonded).map (fun e => g e.1 e.2)).sum = 0
  have h1 : ((directedEdges n bonded).map (fun e => g e.1 e.2)).sum =
      (((directedEdges n bonded).map Prod.swap).map (fun e => g e.1 e.2)).sum :=
    (hsym.map _).sum_eq
  rw [List.map_map] at h1
  have h2 : ((directedEdges n bonded).map ((fun e => g e.1 e.2) ∘ Prod.swap)).sum =
      - ((directedEdges n bonded).map (fun e => g e.1 e.2)).sum :=
    sum_map_neg' _ _ _ (fun e => by simp [hg e.1 e.2])
  linarith

private theorem range_map_getD (q : List ℚ) :
    (List.range q.length).map (fun i => q.getD i 0) = q := by
  apply List.ext_getElem
  · simp
  · intro i h1 h2
    simp at h1
    simp [h1]

private theorem sum_map_add3 (a b c : Nat → ℚ) (l : List Nat) :
    (l.map (fun i => a i + (b i + c i))).sum = (l.map a).sum + (l.map b).sum + (l.map c).sum := by
  induction l with
  | nil => simp
  | cons x l ih => simp only [List.map_cons, List.sum_cons, ih]; ring

private theorem cycles_succ (n : Nat) (chi : ℚ → Nat → ℚ) (norm : Nat → ℚ) (bonded : Nat → List Nat) (damp : ℚ)
    (share : Nat → ℚ) (k ic : Nat) (q : List ℚ) :
    cycles n chi norm bonded damp share (k + 1) ic q =
      cycles n chi norm bonded damp share k (ic + 1)
        ((List.range n).map (fun i => q.getD i 0 +
          (((bonded i).map (pairF chi norm damp (ic + 1) q i)).sum + share i))) := by
  rw [cycles]
  congr 1
  apply List.map_congr_left
  intro i _
  simp only [qadd, qsub, qmul, qdiv, qofNat, qlt, qpow, Nat.cast_zero, decide_eq_true_eq]
  rw [foldl_add_eq]
  simp only [zero_add]
  rfl

private theorem cycles_sum (n : Nat) (chi : ℚ → Nat → ℚ) (norm : Nat → ℚ) (bonded : Nat → List Nat) (damp : ℚ)
    (share : Nat → ℚ)
    (hsym : (directedEdges n bonded).Perm ((directedEdges n bonded).map Prod.swap))
    (k ic : Nat) (q : List ℚ) (hq : q.length = n) :
    (cycles n chi norm bonded damp share k ic q).sum = q.sum + k * ((List.range n).map share).sum := by
  induction k generalizing ic q with
  | zero => simp [cycles]
  | succ k ih =>
    rw [cycles_succ, ih _ _ (by simp), sum_map_add3,
      delta_sum_zero n bonded _ (pairF_antisymm chi norm damp (ic + 1) q) hsym]
    subst hq
    rw [range_map_getD]
    push_cast
    ring


private theorem foldl_abs_eq (formal : Nat → ℚ) (l : List Nat) (a : ℚ) :
    l.foldl (fun acc i => if formal i = 0 then acc else acc + |formal i|) a =
      a + (l.map (fun i => |formal i|)).sum := by
  induction l generalizing a with
  | nil => simp
  | cons x l ih =>
    simp only [List.foldl_cons, ih, List.map_cons, List.sum_cons]
    by_cases h : formal x = 0
    · simp [h]
    · simp only [h, if_false]; ring

private theorem abs_sum_nonneg (formal : Nat → ℚ) (l : List Nat) :
    0 ≤ (l.map (fun i => |formal i|)).sum := by
  induction l with
  | nil => simp
  | cons x l ih => simp only [List.map_cons, List.sum_cons]; have := abs_nonneg (formal x); linarith

private theorem abs_sum_eq_zero (formal : Nat → ℚ) (l : List Nat)
    (h : (l.map (fun i => |formal i|)).sum = 0) : ∀ i ∈ l, formal i = 0 := by
  induction l with
  | nil => simp
  | cons x l ih =>
    simp only [List.map_cons, List.sum_cons] at h
    have h1 := abs_nonneg (formal x)
    have h2 := abs_sum_nonneg formal l
    have h3 : |formal x| = 0 := by linarith
    have h4 : (l.map (fun i => |formal i|)).sum = 0 := by linarith
    intro i hi
    rcases List.mem_cons.mp hi with rfl | hi
    · exact abs_eq_zero.mp h3
    · exact ih h4 i hi

private theorem sum_map_zero (g : Nat → ℚ) (l : List Nat) (h : ∀ i ∈ l, g i = 0) : (l.map g).sum = 0 := by
  induction l with
  | nil => simp
  | cons x l ih =>
    simp only [List.map_cons, List.sum_cons]
    rw [h x (List.mem_cons_self ..), ih (fun i hi => h i (List.mem_cons_of_mem _ hi))]; simp

private theorem sum_map_mul_left' (c : ℚ) (g : Nat → ℚ) (l : List Nat) :
    (l.map (fun i => c * g i)).sum = c * (l.map g).sum := by
  induction l with
  | nil => simp
  | cons x l ih => simp only [List.map_cons, List.sum_cons, ih]; ring

private theorem sum_scale (c : ℚ) (l : List ℚ) : (l.map (fun x => c * x)).sum = c * l.sum := by
  induction l with
  | nil => simp
  | cons x l ih => simp only [List.map_cons, List.sum_cons, ih]; ring

theorem peoe_conserves_core (rel : ℚ) (hrel : 0 ≤ rel ∧ rel < 1) (n : Nat) (chi : ℚ → Nat → ℚ) (norm : Nat → ℚ)
    (bonded : Nat → List Nat) (damp scale : ℚ) (hs : scale ≠ 0) (nc : Nat) (hnc : 0 < nc) (formal : Nat → ℚ)
    (hsym : (directedEdges n bonded).Perm ((directedEdges n bonded).map Prod.swap)) :
    (equilibrate rel n chi norm bonded damp scale nc formal).sum = ((List.range n).map formal).sum := by
  unfold equilibrate
  simp only [isclose_zero_iff hrel, qadd, qmul, qdiv, qabs]
  simp only [qofNat, Nat.cast_zero, Nat.cast_one]
  rw [sum_scale, cycles_sum n chi norm bonded damp _ hsym nc 0 _ (by simp), foldl_abs_eq, zero_add]
  have hz : ((List.range n).map (fun _ => (0 : ℚ))).sum = 0 := sum_map_zero _ _ (fun _ _ => rfl)
  rw [hz, zero_add]
  have hnc' : (nc : ℚ) ≠ 0 := by exact_mod_cast hnc.ne'
  by_cases habs : ((List.range n).map (fun i => |formal i|)).sum = 0
  · have hall := abs_sum_eq_zero formal _ habs
    simp only [habs, if_true]
    rw [sum_map_zero formal _ hall, sum_map_zero _ _ (fun _ _ => rfl)]
    simp
  · simp only [habs, if_false]
    have he : ∀ i, (if formal i = 0 then (0 : ℚ) else formal i * (1 / scale)) = (1 / scale) * formal i := by
      intro i
      by_cases h : formal i = 0
      · simp [h]
      · simp only [h, if_false]; ring
    simp only [he]
    rw [sum_map_mul_left', sum_map_mul_left']
    field_simp

/-! ### symmetry of the reader's neighbour lists -/

private theorem directedEdges_succ (n : Nat) (bonded : Nat → List Nat) :
    directedEdges (n + 1) bonded = directedEdges n bonded ++ (bonded n).map (fun j => (n, j)) := by
  simp [directedEdges, List.range_succ, List.flatMap_append]

private theorem count_pair_map (i' i j : Nat) (l : List Nat) :
    List.count (i, j) (l.map (fun j => (i', j))) = if i' = i then List.count j l else 0 := by
  induction l with
  | nil => simp
  | cons a l ih =>
    simp only [List.map_cons, List.count_cons, ih, beq_iff_eq, Prod.mk.injEq]
    by_cases h : i' = i <;> simp [h]

private theorem count_directedEdges (n : Nat) (bonded : Nat → List Nat) (i j : Nat) :
    List.count (i, j) (directedEdges n bonded) = if i < n then List.count j (bonded i) else 0 := by
  induction n with
  | zero => simp [directedEdges]
  | succ n ih =>
    rw [directedEdges_succ, List.count_append, ih, count_pair_map]
    by_cases h1 : i < n
    · have : n ≠ i := by omega
      have h2 : i < n + 1 := by omega
      simp [h1, this, h2]
    · by_cases h2 : n = i
      · subst h2; simp
      · have : ¬ i < n + 1 := by omega
        simp [h1, h2, this]

private theorem count_bondedOf (bs : Bonds) (i j : Nat) :
    List.count j (bondedOf bs i) =
      List.countP (fun b => decide (b.1 = i ∧ b.2.1 = j)) bs + List.countP (fun b => decide (b.2.1 = i ∧ b.1 = j)) bs := by
  induction bs with
  | nil => simp [bondedOf]
  | cons b bs ih =>
    have : bondedOf (b :: bs) i = ((if b.1 = i then [b.2.1] else []) ++ (if b.2.1 = i then [b.1] else [])) ++ bondedOf bs i := by
      simp [bondedOf]
    rw [this, List.count_append, List.count_append, ih, List.countP_cons, List.countP_cons]
    generalize List.countP (fun b : Nat × Nat × BondType => decide (b.1 = i ∧ b.2.1 = j)) bs = A
    generalize List.countP (fun b : Nat × Nat × BondType => decide (b.2.1 = i ∧ b.1 = j)) bs = B
    obtain ⟨x, y, t⟩ := b
    simp only [decide_eq_true_eq]
    have e1 : List.count j (if x = i then [y] else []) = if (x = i ∧ y = j) then 1 else 0 := by
      by_cases h1 : x = i <;> by_cases h3 : y = j <;> simp [h1, h3]
    have e2 : List.count j (if y = i then [x] else []) = if (y = i ∧ x = j) then 1 else 0 := by
      by_cases h1 : y = i <;> by_cases h3 : x = j <;> simp [h1, h3]
    rw [e1, e2]
    omega

private theorem count_swap (l : List (Nat × Nat)) (i j : Nat) :
    List.count (i, j) (l.map Prod.swap) = List.count (j, i) l := by
  induction l with
  | nil => simp
  | cons a l ih =>
    obtain ⟨x, y⟩ := a
    simp only [List.map_cons, List.count_cons, ih, Prod.swap_prod_mk, beq_iff_eq, Prod.mk.injEq]
    by_cases h1 : x = j <;> by_cases h2 : y = i <;> simp [h1, h2]

theorem bonded_symmetric_core (n : Nat) (bs : Bonds) (h : ∀ b ∈ bs, b.1 < n ∧ b.2.1 < n) :
    (directedEdges n (bondedOf bs)).Perm ((directedEdges n (bondedOf bs)).map Prod.swap) := by
  rw [List.perm_iff_count]
  rintro ⟨i, j⟩
  rw [count_swap, count_directedEdges, count_directedEdges, count_bondedOf, count_bondedOf]
  have key : ∀ i j : Nat, ¬ i < n →
      List.countP (fun b : Nat × Nat × BondType => decide (b.1 = i ∧ b.2.1 = j)) bs = 0 ∧
      List.countP (fun b : Nat × Nat × BondType => decide (b.2.1 = i ∧ b.1 = j)) bs = 0 ∧
      List.countP (fun b : Nat × Nat × BondType => decide (b.1 = j ∧ b.2.1 = i)) bs = 0 ∧
      List.countP (fun b : Nat × Nat × BondType => decide (b.2.1 = j ∧ b.1 = i)) bs = 0 := by
    intro i j hi
    refine ⟨?_, ?_, ?_, ?_⟩ <;>
    · rw [List.countP_eq_zero]
      intro b hb
      have := h b hb
      simp only [decide_eq_true_eq]
      omega
  by_cases hi : i < n <;> by_cases hj : j < n
  · simp only [hi, hj, if_true]
    have c1 : List.countP (fun b : Nat × Nat × BondType => decide (b.2.1 = j ∧ b.1 = i)) bs =
        List.countP (fun b : Nat × Nat × BondType => decide (b.1 = i ∧ b.2.1 = j)) bs := by
      simp only [and_comm]
    have c2 : List.countP (fun b : Nat × Nat × BondType => decide (b.1 = j ∧ b.2.1 = i)) bs =
        List.countP (fun b : Nat × Nat × BondType => decide (b.2.1 = i ∧ b.1 = j)) bs := by
      simp only [and_comm]
    omega
  · obtain ⟨k1, k2, k3, k4⟩ := key j i hj
    simp only [hi, hj, if_true, if_false, k3, k4]
  · obtain ⟨k1, k2, k3, k4⟩ := key i j hi
    simp only [hi, hj, if_true, if_false, k3, k4]
  · simp only [hi, hj, if_false]

/-! ### radius lookup and transfer -/

theorem radius_lookup_order_core (p s : List (String × Nat)) (ty el : String) :
    assignRadius p s ty el =
      (match p.lookup ty with
       | some r => some r
       | none => match p.lookup el with
         | some r => some r
         | none => match s.lookup ty with
           | some r => some r
           | none => s.lookup el) := by
  unfold assignRadius
  cases h1 : p.lookup ty <;> cases h2 : p.lookup el <;> cases h3 : s.lookup ty <;> simp [h1, h2, h3]

private theorem inner_fold (lig : List Str) (l : List HAtom) (h m : List Nat) :
    (l.foldl (fun (acc : List Nat × List Nat) a =>
      if lig.contains a.name then (acc.1 ++ [a.id], acc.2) else (acc.1, acc.2 ++ [a.id])) (h, m)).1 =
      h ++ (l.filter (fun a => lig.contains a.name)).map (·.id) := by
  induction l generalizing h m with
  | nil => simp
  | cons a l ih =>
    simp only [List.foldl_cons]
    by_cases hc : lig.contains a.name = true
    · rw [if_pos hc, ih, List.filter_cons, if_pos hc]
      simp only [List.map_cons, List.append_assoc, List.cons_append, List.nil_append]
    · rw [if_neg hc, ih, List.filter_cons, if_neg hc]

private theorem outer_fold (lig : List Str) (rs : List (Bool × List HAtom)) (acc : List Nat × List Nat) :
    (rs.foldl (fun (acc : List Nat × List Nat) (wr : Bool × List HAtom) =>
    if wr.1 then acc else
    let scanned := wr.2.takeWhile (·.isHet)
    scanned.foldl (fun (acc : List Nat × List Nat) a =>
      if lig.contains a.name then (acc.1 ++ [a.id], acc.2) else (acc.1, acc.2 ++ [a.id])) acc) acc).1 =
    acc.1 ++ (rs.filter (fun wr => !wr.1)).flatMap (fun wr => ((wr.2.takeWhile (·.isHet)).filter (fun a => lig.contains a.name)).map (·.id)) := by
  induction rs generalizing acc with
  | nil => simp
  | cons wr rs ih =>
    simp only [List.foldl_cons]
    rw [ih]
    obtain ⟨w, r⟩ := wr
    cases w
    · obtain ⟨h, m⟩ := acc
      simp only [Bool.false_eq_true, if_false, inner_fold, List.filter_cons, Bool.not_false, if_true,
        List.flatMap_cons, List.append_assoc]
    · simp only [if_true, List.filter_cons, Bool.not_true, Bool.false_eq_true, if_false]

theorem transfer_spec_core (lig : List Str) (rs : List (Bool × List HAtom)) :
    (ligandTransfer lig rs).1 =
      (rs.filter (fun wr => !wr.1)).flatMap (fun wr => ((wr.2.takeWhile (·.isHet)).filter (fun a => lig.contains a.name)).map (·.id)) := by
  unfold ligandTransfer
  rw [outer_fold]; simp

private theorem flatMap_nil_of (lig : List Str) (l : List (Bool × List HAtom))
    (h : ∀ wr ∈ l, wr.1 = true ∨ ∀ a ∈ wr.2.takeWhile (·.isHet), lig.contains a.name = false) :
    (l.filter (fun wr => !wr.1)).flatMap (fun wr => ((wr.2.takeWhile (·.isHet)).filter (fun a => lig.contains a.name)).map (·.id)) = [] := by
  rw [List.flatMap_eq_nil_iff]
  intro wr hwr
  rw [List.mem_filter] at hwr
  rcases h wr hwr.1 with h1 | h1
  · simp [h1] at hwr
  · rw [List.map_eq_nil_iff, List.filter_eq_nil_iff]
    intro a ha
    rw [h1 a ha]; simp

theorem ligand_only_partial_core (lig : List Str) (pre post : List (Bool × List HAtom)) (ligand : List HAtom)
    (hpre : ∀ wr ∈ pre ++ post, wr.1 = true ∨ ∀ a ∈ wr.2.takeWhile (·.isHet), lig.contains a.name = false) :
    (ligandTransfer lig (pre ++ [(false, ligand)] ++ post)).1 =
      ((ligand.takeWhile (·.isHet)).filter (fun a => lig.contains a.name)).map (·.id) := by
  rw [transfer_spec_core]
  have h1 := flatMap_nil_of lig pre (fun wr h => hpre wr (List.mem_append_left _ h))
  have h2 := flatMap_nil_of lig post (fun wr h => hpre wr (List.mem_append_right _ h))
  simp only [List.filter_append, List.flatMap_append, h1, h2]
  simp

end P2P.Proofs.Peoe
