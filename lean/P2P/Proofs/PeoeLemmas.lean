import P2P.Model.Peoe
import Mathlib.Tactic.Ring
import Mathlib.Tactic.Linarith
import Mathlib.Tactic.FieldSimp
import Mathlib.Algebra.Order.Field.Rat
import Mathlib.Algebra.BigOperators.Group.List.Basic
import Mathlib.Data.Rat.Defs
import Mathlib.Algebra.Order.Ring.Abs

namespace P2P.Proofs.Peoe
open P2P P2P.Peoe

/-- exact arithmetic -/
instance : QNum ℚ where
  ofNat n := (n : ℚ)
  abs x := |x|
  lt a b := decide (a < b)
  pow a n := a ^ n

theorem peoe_conserves_core (rel : ℚ) (hrel : 0 ≤ rel ∧ rel < 1) (n : Nat) (chi : ℚ → Nat → ℚ) (norm : Nat → ℚ)
    (bonded : Nat → List Nat) (damp scale : ℚ) (hs : scale ≠ 0) (nc : Nat) (hnc : 0 < nc) (formal : Nat → ℚ)
    (hsym : (directedEdges n bonded).Perm ((directedEdges n bonded).map Prod.swap)) :
    (equilibrate rel n chi norm bonded damp scale nc formal).sum = ((List.range n).map formal).sum := by
  sorry

theorem bonded_symmetric_core (n : Nat) (bs : Bonds) (h : ∀ b ∈ bs, b.1 < n ∧ b.2.1 < n) :
    (directedEdges n (bondedOf bs)).Perm ((directedEdges n (bondedOf bs)).map Prod.swap) := by
  sorry

theorem radius_lookup_order_core (p s : List (String × Nat)) (ty el : String) :
    assignRadius p s ty el =
      (match p.lookup ty with
       | some r => some r
       | none => match p.lookup el with
         | some r => some r
         | none => match s.lookup ty with
           | some r => some r
           | none => s.lookup el) := by
  sorry

theorem transfer_spec_core (lig : List Str) (rs : List (Bool × List HAtom)) :
    (ligandTransfer lig rs).1 =
      (rs.filter (fun wr => !wr.1)).flatMap (fun wr => ((wr.2.takeWhile (·.isHet)).filter (fun a => lig.contains a.name)).map (·.id)) := by
  sorry

theorem ligand_only_partial_core (lig : List Str) (pre post : List (Bool × List HAtom)) (ligand : List HAtom)
    (hpre : ∀ wr ∈ pre ++ post, wr.1 = true ∨ ∀ a ∈ wr.2.takeWhile (·.isHet), lig.contains a.name = false) :
    (ligandTransfer lig (pre ++ [(false, ligand)] ++ post)).1 =
      ((ligand.takeWhile (·.isHet)).filter (fun a => lig.contains a.name)).map (·.id) := by
  sorry

end P2P.Proofs.Peoe
