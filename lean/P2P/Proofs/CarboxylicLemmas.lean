import P2P.Model.Carboxylic
import P2P.Proofs.CarboxylicAux

/-! Lemmas behind the Carboxylic theorems of Props/C03.lean. -/
namespace P2P.Proofs.Carboxylic
open P2P P2P.Atoms P2P.Carboxylic P2P.Proofs.CarboxylicAux

/-! ### the two instances of the generic simulation (`CarboxylicAux`) and their kernel-checked
state tables -/

def cfgD : Cfg where
  A := alphabetD
  HA := [HD1, HD2, str "HD11", str "HD12", str "HD21", str "HD22"]
  OA := [OD1, OD2, flipSuffix]
  p1 := HD1
  p2 := HD2
  oxy := oxyD
  hHA := by decide
  hOA := by decide
  hdisj := by decide
  hflip := by decide
  hstem := by decide
  hstem2 := by decide
  hinit := by decide

def cfgE : Cfg where
  A := alphabetE
  HA := [HE1, HE2, str "HE11", str "HE12", str "HE21", str "HE22"]
  OA := [OE1, OE2, flipSuffix]
  p1 := HE1
  p2 := HE2
  oxy := oxyE
  hHA := by decide
  hOA := by decide
  hdisj := by decide
  hflip := by decide
  hstem := by decide
  hstem2 := by decide
  hinit := by decide

/-- for each of the four construction orders: the reachable states of the machine on the residue
`[OD1, OD2, HD1, HD2]` are closed under every step, and `complete` + `cleanup` of each of them,
for every lowest-energy candidate, leaves a permutation of `[OD1, OD2, HD2]` -/
theorem checkedD : ∀ order ∈ orders HD1 HD2, Checked cfgD [OD1, OD2, HD1, HD2] [OD1, OD2, HD2] order := by
  decide +kernel

theorem checkedE : ∀ order ∈ orders HE1 HE2, Checked cfgE [OE1, OE2, HE1, HE2] [OE1, OE2, HE2] order := by
  decide +kernel

/-- **ASH**: for every residue that holds OD1, OD2, HD1, HD2 (anywhere in its atom list) and none of
the names the object creates, every construction order, every sequence of hydrogen-bond outcomes
and every lowest-energy candidate: after `complete` and `cleanup` the carboxyl group holds exactly
OD1, OD2 and the proton HD2 — no HD1, no doubled candidate, no `FLIP` — and every other atom of
the residue is where it was -/
theorem ash_clean_core (names : Names) (hn : names.Nodup)
    (hin : OD1 ∈ names ∧ OD2 ∈ names ∧ HD1 ∈ names ∧ HD2 ∈ names)
    (hout : ∀ n ∈ [str "HD11", str "HD12", str "HD21", str "HD22", flipSuffix], n ∉ names)
    (order : List Str) (ho : order ∈ orders HD1 HD2) (ops : List COp) (bestIdx : Nat) :
    ((run names HD1 HD2 oxyD order ops bestIdx).filter (fun n => alphabetD.contains n)).Perm [OD1, OD2, HD2] ∧
    (run names HD1 HD2 oxyD order ops bestIdx).filter (fun n => !alphabetD.contains n) =
      names.filter (fun n => !alphabetD.contains n) := by
  have hperm : [OD1, OD2, HD1, HD2].Perm (projN cfgD.A names) := by
    apply perm_base hn (by decide)
    · intro x hx
      refine ⟨?_, (by decide : ∀ x ∈ [OD1, OD2, HD1, HD2], x ∈ cfgD.A) x hx⟩
      simp only [List.mem_cons, List.not_mem_nil, or_false] at hx
      rcases hx with rfl | rfl | rfl | rfl
      · exact hin.1
      · exact hin.2.1
      · exact hin.2.2.1
      · exact hin.2.2.2
    · intro x hx hb
      exact hout x ((by decide : ∀ x ∈ cfgD.A, x ∉ [OD1, OD2, HD1, HD2] →
        x ∈ [str "HD11", str "HD12", str "HD21", str "HD22", flipSuffix]) x hx hb)
  exact main' cfgD _ _ order (checkedD order ho) names hperm ops bestIdx

/-- **GLH**: the same for OE1, OE2, HE1, HE2 -/
theorem glh_clean_core (names : Names) (hn : names.Nodup)
    (hin : OE1 ∈ names ∧ OE2 ∈ names ∧ HE1 ∈ names ∧ HE2 ∈ names)
    (hout : ∀ n ∈ [str "HE11", str "HE12", str "HE21", str "HE22", flipSuffix], n ∉ names)
    (order : List Str) (ho : order ∈ orders HE1 HE2) (ops : List COp) (bestIdx : Nat) :
    ((run names HE1 HE2 oxyE order ops bestIdx).filter (fun n => alphabetE.contains n)).Perm [OE1, OE2, HE2] ∧
    (run names HE1 HE2 oxyE order ops bestIdx).filter (fun n => !alphabetE.contains n) =
      names.filter (fun n => !alphabetE.contains n) := by
  have hperm : [OE1, OE2, HE1, HE2].Perm (projN cfgE.A names) := by
    apply perm_base hn (by decide)
    · intro x hx
      refine ⟨?_, (by decide : ∀ x ∈ [OE1, OE2, HE1, HE2], x ∈ cfgE.A) x hx⟩
      simp only [List.mem_cons, List.not_mem_nil, or_false] at hx
      rcases hx with rfl | rfl | rfl | rfl
      · exact hin.1
      · exact hin.2.1
      · exact hin.2.2.1
      · exact hin.2.2.2
    · intro x hx hb
      exact hout x ((by decide : ∀ x ∈ cfgE.A, x ∉ [OE1, OE2, HE1, HE2] →
        x ∈ [str "HE11", str "HE12", str "HE21", str "HE22", flipSuffix]) x hx hb)
  exact main' cfgE _ _ order (checkedE order ho) names hperm ops bestIdx

end P2P.Proofs.Carboxylic
