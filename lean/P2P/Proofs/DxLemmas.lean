import P2P.Model.Dx
namespace P2P.Proofs.Dx
open P2P P2P.Dx

/-- a line whose first word is none of the keywords `read_dx` dispatches on -/
def isDataLine (l : Str) : Bool :=
  match splitWs l with
  | [] => false
  | w0 :: _ => !(w0 = str "#" || w0 = str "attribute" || w0 = str "component" || w0 = str "object"
      || w0 = str "origin" || w0 = str "delta")

theorem cube_values_core (ws : List Str) : splitWs (valueLines ws).flatten = ws.flatMap splitWs := by
  sorry

theorem cube_six_per_line_core (ws : List Str) :
    (chunk6 (ws.length + 1) ws).flatten = ws ∧
    (∀ c ∈ (chunk6 (ws.length + 1) ws).dropLast, c.length = 6) ∧
    (∀ c ∈ (chunk6 (ws.length + 1) ws), 1 ≤ c.length ∧ c.length ≤ 6) := by
  sorry

theorem cube_header_core (fF fE : PyFloat → Str) (d : DxData) (atoms : List CAtom)
    (n0 n1 n2 : Int) (o s0 s1 s2 : PyFloat × PyFloat × PyFloat) (rest : List (PyFloat × PyFloat × PyFloat))
    (hc : d.counts = some (n0, n1, n2)) (ho : d.origin = some o) (hs : d.spacings = s0 :: s1 :: s2 :: rest) :
    writeCube fF fE d atoms = .ok (
      str "CPMD CUBE FILE.\n" ++ str "OUTER LOOP: X, MIDDLE LOOP: Y, INNER LOOP: Z\n" ++
      (fI4 atoms.length ++ [' '] ++ fF o.1 ++ [' '] ++ fF o.2.1 ++ [' '] ++ fF o.2.2 ++ ['\n']) ++
      (fI4 (-n0) ++ [' '] ++ fF s0.1 ++ [' '] ++ fF s0.2.1 ++ [' '] ++ fF s0.2.2 ++ ['\n']) ++
      (fI4 (-n1) ++ [' '] ++ fF s1.1 ++ [' '] ++ fF s1.2.1 ++ [' '] ++ fF s1.2.2 ++ ['\n']) ++
      (fI4 (-n2) ++ [' '] ++ fF s2.1 ++ [' '] ++ fF s2.2.1 ++ [' '] ++ fF s2.2.2 ++ ['\n']) ++
      (atoms.map (fun a => fI4 a.serial ++ [' '] ++ fF a.charge ++ [' '] ++ fF a.x ++ [' '] ++ fF a.y
        ++ [' '] ++ fF a.z ++ ['\n'])).flatten ++
      (valueLines (d.values.map fE)).flatten) := by
  sorry

theorem dx_values_core (lines : List Str) (d : DxData) (h : readDx lines = .ok d) :
    d.values = (lines.filter isDataLine).flatMap (fun l => (splitWs l).filterMap parseFloat?) := by
  sorry

theorem dx_cube_roundtrip_core (fE : PyFloat → Str) (tok : PyFloat → Str) (lines : List Str) (d : DxData)
    (h : readDx lines = .ok d) (hE : ∀ v, splitWs (fE v) = [tok v]) :
    splitWs (valueLines (d.values.map fE)).flatten =
      ((lines.filter isDataLine).flatMap (fun l => (splitWs l).filterMap parseFloat?)).map tok := by
  sorry

end P2P.Proofs.Dx
