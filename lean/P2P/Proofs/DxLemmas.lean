import P2P.Model.Dx
namespace P2P.Proofs.Dx
open P2P P2P.Dx

/-- a line whose first word is none of the keywords `read_dx` dispatches on -/
def isDataLine (l : Str) : Bool :=
  match splitWs l with
  | [] => false
  | w0 :: _ => !(w0 = str "#" || w0 = str "attribute" || w0 = str "component" || w0 = str "object"
      || w0 = str "origin" || w0 = str "delta")

/-! ### `splitWs` -/

/-- the words already closed (`acc`) come out in front, untouched -/
theorem splitWsAux_acc (s cur : Str) (acc : List Str) :
    splitWsAux s cur acc = acc.reverse ++ splitWsAux s cur [] := by
  induction s generalizing cur acc with
  | nil =>
    simp only [splitWsAux]
    by_cases h : cur.isEmpty <;> simp [h]
  | cons c cs ih =>
    simp only [splitWsAux]
    by_cases hc : isWs c
    · simp only [hc, if_true]
      rw [ih [] (if cur.isEmpty then acc else cur.reverse :: acc),
        ih [] (if cur.isEmpty then [] else [cur.reverse])]
      by_cases h : cur.isEmpty <;> simp [h]
    · simp only [hc]
      exact ih (c :: cur) acc

theorem splitWsAux_append_ws (a b cur : Str) (c : Char) (hc : isWs c = true) :
    splitWsAux (a ++ c :: b) cur [] = splitWsAux a cur [] ++ splitWs b := by
  induction a generalizing cur with
  | nil =>
    simp only [List.nil_append, splitWsAux, hc, if_true, splitWs]
    rw [splitWsAux_acc]
  | cons x a ih =>
    simp only [List.cons_append, splitWsAux]
    by_cases hx : isWs x
    · simp only [hx, if_true]
      rw [splitWsAux_acc (a ++ c :: b), splitWsAux_acc a, ih [], List.append_assoc]
    · simp only [hx]
      exact ih (x :: cur)

/-- a whitespace character separates: the words of `a ++ c :: b` are those of `a` then those of `b` -/
theorem splitWs_append_ws (a b : Str) (c : Char) (hc : isWs c = true) :
    splitWs (a ++ c :: b) = splitWs a ++ splitWs b :=
  splitWsAux_append_ws a b [] c hc

theorem splitWs_nil : splitWs [] = [] := rfl

theorem splitWs_joinWith_space (c : List Str) : splitWs (joinWith [' '] c) = c.flatMap splitWs := by
  induction c with
  | nil => rfl
  | cons x xs ih =>
    cases xs with
    | nil => simp [joinWith]
    | cons y ys =>
      have : joinWith [' '] (x :: y :: ys) = x ++ ' ' :: joinWith [' '] (y :: ys) := by
        simp [joinWith]
      rw [this, splitWs_append_ws _ _ _ (by decide), ih]
      simp

/-! ### value section -/

theorem splitWs_lines (init : List (List Str)) (last : List Str) :
    splitWs ((init.map (fun c => joinWith [' '] c ++ ['\n'])).flatten ++ joinWith [' '] last) =
      (init ++ [last]).flatten.flatMap splitWs := by
  induction init with
  | nil => simp [splitWs_joinWith_space]
  | cons c init ih =>
    have : ((c :: init).map (fun c => joinWith [' '] c ++ ['\n'])).flatten ++ joinWith [' '] last =
        joinWith [' '] c ++ '\n' :: ((init.map (fun c => joinWith [' '] c ++ ['\n'])).flatten ++
          joinWith [' '] last) := by
      simp
    rw [this, splitWs_append_ws _ _ _ (by decide), ih, splitWs_joinWith_space]
    simp

/-- the value section re-tokenises to the tokens of the chunks, for any chunking -/
theorem splitWs_valueLines_gen (cs : List (List Str)) :
    splitWs (match cs.reverse with
      | [] => []
      | last :: revInit =>
        (revInit.reverse.map (fun c => joinWith [' '] c ++ ['\n'])) ++ [joinWith [' '] last]).flatten =
      cs.flatten.flatMap splitWs := by
  generalize h : cs.reverse = r
  cases r with
  | nil =>
    have : cs = [] := by simpa using h
    subst this
    rfl
  | cons last revInit =>
    have hcs : cs = revInit.reverse ++ [last] := by
      have := congrArg List.reverse h
      simpa using this
    subst hcs
    simp only [List.flatten_append, List.flatten_cons, List.flatten_nil, List.append_nil]
    have := splitWs_lines revInit.reverse last
    simpa using this

theorem chunk6_spec (fuel : Nat) (vs : List Str) (hf : vs.length < fuel) :
    (chunk6 fuel vs).flatten = vs ∧
    (∀ c ∈ (chunk6 fuel vs).dropLast, c.length = 6) ∧
    (∀ c ∈ chunk6 fuel vs, 1 ≤ c.length ∧ c.length ≤ 6) := by
  induction fuel generalizing vs with
  | zero => omega
  | succ fuel ih =>
    cases vs with
    | nil => simp [chunk6]
    | cons x xs =>
      by_cases hl : (x :: xs).length ≤ 6
      · have : chunk6 (fuel + 1) (x :: xs) = [x :: xs] := by
          simp only [chunk6]
          rw [if_pos hl]
        rw [this]
        refine ⟨by simp, by simp, ?_⟩
        intro c hc
        simp only [List.mem_singleton] at hc
        subst hc
        simp only [List.length_cons] at hl ⊢
        omega
      · have heq : chunk6 (fuel + 1) (x :: xs) =
            (x :: xs).take 6 :: chunk6 fuel ((x :: xs).drop 6) := by
          simp only [chunk6, hl, if_false]
        have hlen : ((x :: xs).drop 6).length < fuel := by
          simp only [List.length_drop]
          omega
        obtain ⟨h1, h2, h3⟩ := ih ((x :: xs).drop 6) hlen
        have htake : ((x :: xs).take 6).length = 6 := by
          simp only [List.length_take]
          omega
        rw [heq]
        refine ⟨?_, ?_, ?_⟩
        · rw [List.flatten_cons, h1, List.take_append_drop]
        · intro c hc
          cases hr : chunk6 fuel ((x :: xs).drop 6) with
          | nil => rw [hr] at hc; simp at hc
          | cons b l =>
            rw [hr] at hc
            simp only [List.dropLast_cons_cons, List.mem_cons] at hc
            rcases hc with hc | hc
            · rw [hc]; exact htake
            · apply h2
              rw [hr]
              exact hc
        · intro c hc
          simp only [List.mem_cons] at hc
          rcases hc with hc | hc
          · rw [hc, htake]; omega
          · exact h3 c hc

theorem cube_values_core (ws : List Str) : splitWs (valueLines ws).flatten = ws.flatMap splitWs := by
  have h := splitWs_valueLines_gen (chunk6 (ws.length + 1) ws)
  rw [(chunk6_spec (ws.length + 1) ws (by omega)).1] at h
  exact h

theorem cube_six_per_line_core (ws : List Str) :
    (chunk6 (ws.length + 1) ws).flatten = ws ∧
    (∀ c ∈ (chunk6 (ws.length + 1) ws).dropLast, c.length = 6) ∧
    (∀ c ∈ (chunk6 (ws.length + 1) ws), 1 ≤ c.length ∧ c.length ≤ 6) :=
  chunk6_spec (ws.length + 1) ws (by omega)

theorem cube_header_core (fF fE : PyFloat → Str) (d : DxData) (atoms : List CAtom)
    (n0 n1 n2 : Int) (o s0 s1 s2 : PyFloat × PyFloat × PyFloat) (rest : List (PyFloat × PyFloat × PyFloat))
    (hc : d.counts = some (n0, n1, n2)) (ho : d.origin = some o) (hs : d.spacings = s0 :: s1 :: s2 :: rest) :
    writeCube fF fE d atoms = .ok (
      str "CPMD CUBE FILE.\n" ++ str "OUTER LOOP: X, MIDDLE LOOP: Y, INNER LOOP: Z\n" ++
      (fI4 atoms.length ++ [' '] ++ fF o.1 ++ [' '] ++ fF o.2.1 ++ [' '] ++ fF o.2.2 ++ ['\n']) ++
      (fI4 (-n0) ++ [' '] ++ fF s0.1 ++ [' '] ++ fF s0.2.1 ++ [' '] ++ fF s0.2.2 ++ ['\n']) ++
      (fI4 (-n1) ++ [' '] ++ fF s1.1 ++ [' '] ++ fF s1.2.1 ++ [' '] ++ fF s1.2.2 ++ ['\n']) ++
      (fI4 (-n2) ++ [' '] ++ fF s2.1 ++ [' '] ++ fF s2.2.1 ++ [' '] ++ fF s2.2.2 ++ ['\n']) ++
      (atoms.map (fun a => fI4 a.serial ++ [' '] ++ fF a.charge ++ [' '] ++ fF a.x ++ [' '] ++ fF a.y
        ++ [' '] ++ fF a.z ++ ['\n'])).flatten ++
      (valueLines (d.values.map fE)).flatten) := by
  obtain ⟨ox, oy, oz⟩ := o
  obtain ⟨a0, b0, c0⟩ := s0
  obtain ⟨a1, b1, c1⟩ := s1
  obtain ⟨a2, b2, c2⟩ := s2
  simp [writeCube, hc, ho, hs, bind, Except.bind, pure, Except.pure]

/-! ### reader -/

theorem mapM_pyFloat_ok (ws : List Str) (vs : List PyFloat) (h : ws.mapM pyFloat = .ok vs) :
    vs = ws.filterMap parseFloat? := by
  induction ws generalizing vs with
  | nil =>
    simp only [List.mapM_nil, pure, Except.pure] at h
    cases h
    rfl
  | cons w ws ih =>
    simp only [List.mapM_cons, bind, Except.bind, pure, Except.pure] at h
    cases hw : parseFloat? w with
    | none => simp [pyFloat, hw] at h
    | some v =>
      simp only [pyFloat, hw] at h
      cases hm : ws.mapM pyFloat with
      | error e => simp [hm] at h
      | ok vs' =>
        simp only [hm] at h
        cases h
        simp [hw, ih vs' hm]

theorem dxLine_values (d d' : DxData) (l : Str) (h : dxLine d l = .ok d') :
    d'.values = d.values ++ (if isDataLine l then (splitWs l).filterMap parseFloat? else []) := by
  unfold dxLine at h
  unfold isDataLine
  cases hw : splitWs l with
  | nil => simp [hw, word, bind, Except.bind] at h
  | cons w0 rest =>
    simp only [hw, word, List.drop_zero, bind, Except.bind] at h
    by_cases h1 : (w0 = str "#" || w0 = str "attribute" || w0 = str "component") = true
    · rw [if_pos h1] at h
      simp only [pure, Except.pure] at h
      cases h
      simp only [Bool.or_eq_true, decide_eq_true_eq] at h1
      rcases h1 with (h1 | h1) | h1 <;> simp [h1]
    · rw [if_neg h1] at h
      simp only [Bool.or_eq_true, decide_eq_true_eq, not_or] at h1
      obtain ⟨⟨n1, n2⟩, n3⟩ := h1
      by_cases h2 : w0 = str "object"
      · rw [if_pos h2] at h
        have hv : d'.values = d.values := by
          simp only [pure, Except.pure] at h
          repeat' split at h
          all_goals first | (cases h; rfl) | (cases h)
        simp [hv, h2]
      · rw [if_neg h2] at h
        by_cases h3 : w0 = str "origin"
        · rw [if_pos h3] at h
          cases hf : float3 (w0 :: rest) with
          | error e => simp [hf] at h
          | ok o =>
            simp only [hf, pure, Except.pure] at h
            cases h
            simp [h3]
        · rw [if_neg h3] at h
          by_cases h4 : w0 = str "delta"
          · rw [if_pos h4] at h
            cases hf : float3 (w0 :: rest) with
            | error e => simp [hf] at h
            | ok o =>
              simp only [hf, pure, Except.pure] at h
              cases h
              simp [h4]
          · rw [if_neg h4] at h
            cases hm : (w0 :: rest).mapM pyFloat with
            | error e => simp [hm] at h
            | ok vs =>
              simp only [hm, pure, Except.pure] at h
              cases h
              have := mapM_pyFloat_ok _ _ hm
              simp [n1, n2, n3, h2, h3, h4, this]

theorem foldlM_dxLine_values (lines : List Str) (d0 d : DxData) (h : lines.foldlM dxLine d0 = .ok d) :
    d.values = d0.values ++
      (lines.filter isDataLine).flatMap (fun l => (splitWs l).filterMap parseFloat?) := by
  induction lines generalizing d0 with
  | nil =>
    simp only [List.foldlM_nil, pure, Except.pure] at h
    cases h
    simp
  | cons l lines ih =>
    simp only [List.foldlM_cons, bind, Except.bind] at h
    cases hl : dxLine d0 l with
    | error e => simp [hl] at h
    | ok d1 =>
      simp only [hl] at h
      rw [ih d1 h, dxLine_values d0 d1 l hl]
      by_cases hd : isDataLine l <;> simp [hd]

theorem dx_values_core (lines : List Str) (d : DxData) (h : readDx lines = .ok d) :
    d.values = (lines.filter isDataLine).flatMap (fun l => (splitWs l).filterMap parseFloat?) := by
  have := foldlM_dxLine_values lines empty d h
  simpa [empty] using this

theorem dx_cube_roundtrip_core (fE : PyFloat → Str) (tok : PyFloat → Str) (lines : List Str) (d : DxData)
    (h : readDx lines = .ok d) (hE : ∀ v, splitWs (fE v) = [tok v]) :
    splitWs (valueLines (d.values.map fE)).flatten =
      ((lines.filter isDataLine).flatMap (fun l => (splitWs l).filterMap parseFloat?)).map tok := by
  rw [cube_values_core, ← dx_values_core lines d h]
  generalize d.values = vs
  induction vs with
  | nil => rfl
  | cons v vs ih => simp [List.flatMap_cons, hE, ih]

end P2P.Proofs.Dx
