import P2P.Proofs.ChargeTableBase
namespace P2P.Proofs.ChargeTable
/-- kernel evaluation of the PARSE column of the charge table -/
theorem ok_PARSE : tableOK ("PARSE", P2P.Gen.FFCharges.PARSE) = true := by decide +kernel
theorem cov_PARSE : covered P2P.Gen.FFCharges.PARSE = 144 := by decide +kernel
end P2P.Proofs.ChargeTable
