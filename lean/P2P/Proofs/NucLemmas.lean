import P2P.Model.NucCharge

/-! Lemmas for the strand form of the nucleic-acid charge table (C02). -/
namespace P2P.Proofs.Nuc
open P2P P2P.NucCharge

theorem addOpt_some {a b : Option Int} {t : Int} (h : addOpt a b = some t) :
    ∃ x y, a = some x ∧ b = some y ∧ t = x + y := by
  cases a <;> cases b <;> simp [addOpt] at h
  exact ⟨_, _, rfl, rfl, h.symm⟩

theorem mids_total (unit : Int) (cell : Str → Pos → Option Int) (kind : List Str)
    (hk : kindOK unit cell kind = true) :
    ∀ (ms : List Str), (∀ b ∈ ms, b ∈ kind) → ∀ m, midsTotal cell ms = some m → m = -unit * (ms.length : Int) := by
  intro ms
  induction ms with
  | nil => intro _ m h; simp [midsTotal] at h; subst h; simp
  | cons b bs ih =>
    intro hm m h
    rw [midsTotal] at h
    obtain ⟨x, y, hx, hy, rfl⟩ := addOpt_some h
    have hb : b ∈ kind := hm b (by simp)
    have ih' := ih (fun c hc => hm c (by simp [hc])) y hy
    rw [kindOK, Bool.and_eq_true, List.all_eq_true] at hk
    have h1 := hk.1 b hb
    rw [hx] at h1
    have hxv : x = -unit := of_decide_eq_true h1
    subst hxv
    rw [ih']
    simp only [List.length_cons]
    have : ((bs.length + 1 : Nat) : Int) = (bs.length : Int) + 1 := by omega
    rw [this, Int.mul_add]; omega

theorem strand_total_core (unit : Int) (cell : Str → Pos → Option Int) (kind : List Str)
    (hk : kindOK unit cell kind = true) (s : Strand)
    (hf : s.first ∈ kind) (hl : s.last ∈ kind) (hm : ∀ b ∈ s.mids, b ∈ kind)
    (t : Int) (ht : strandTotal cell s = some t) :
    t = -unit * (s.phosphates : Int) := by
  rw [strandTotal] at ht
  obtain ⟨e, m, he, hmid, rfl⟩ := addOpt_some ht
  obtain ⟨q5, q3, h5, h3, rfl⟩ := addOpt_some he
  have hm' := mids_total unit cell kind hk s.mids hm m hmid
  have hk2 := hk
  rw [kindOK, Bool.and_eq_true] at hk2
  have h2' := hk2.2
  rw [List.all_eq_true] at h2'
  have h2 := h2' s.first hf
  rw [List.all_eq_true] at h2
  have h3' := h2 s.last hl
  rw [h5, h3] at h3'
  have hs : q5 + q3 = -unit := of_decide_eq_true h3'
  rw [hs, hm', Strand.phosphates]
  have : ((s.mids.length + 1 : Nat) : Int) = (s.mids.length : Int) + 1 := by omega
  rw [this, Int.mul_add]; omega

end P2P.Proofs.Nuc
