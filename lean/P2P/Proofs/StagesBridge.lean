import P2P.Proofs.StagesData

/-!
  Bridge between the run-time reference of a residue (base definition + the patches applied at
  run time, `Biomolecule.apply_patch`) and the NAMED definition its final state is looked up under
  (`Definition.__init__` builds those at load time with its own patch routine): for every amino
  acid, every terminus variant and every state patch, the two have the same atoms. With the
  stage-composition theorem: the residue ends with exactly the atoms of the definition it is named
  after — the fact the charge table of C02 / C12 (`charge_table`) is stated about.
-/
namespace P2P.Proofs.Stages
open P2P P2P.Topology P2P.Atoms P2P.Stages P2P.Gen.Topology P2P.Proofs.StagesTable

structure Combo where
  base : Str
  pre : Str            -- terminus prefix of the named definition
  early : List Str     -- terminus patches applied before repair (`set_termini`); a residue inside a chain gets PEPTIDE instead (`update_bonds`)
  state : Option Str   -- state patch applied after repair
deriving Repr, DecidableEq

def termCombos : List (Str × List Str) :=
  [(str "", []), (str "N", [str "NTERM"]), (str "C", [str "CTERM"]),
   (str "NEUTRAL-N", [str "NTERM", str "NEUTRAL-NTERM"]), (str "NEUTRAL-C", [str "CTERM", str "NEUTRAL-CTERM"])]

def baseNames : List Str :=
  ["ALA", "ARG", "ASN", "ASP", "CYS", "GLN", "GLU", "GLY", "HIS", "ILE", "LEU", "LYS", "MET", "PHE", "PRO", "SER",
   "THR", "TRP", "TYR", "VAL", "ASH", "CYM", "CYX", "GLH", "HSE", "HSD", "HSP", "HID", "HIE", "HIP", "AR0", "LYN",
   "TYM"].map str

def lateStates (b : Str) : List Str :=
  if b = str "ASP" then [str "ASH"] else if b = str "GLU" then [str "GLH"] else if b = str "LYS" then [str "LYN"]
  else if b = str "TYR" then [str "TYM"] else if b = str "CYS" then [str "CYM", str "CYX"]
  else if b = str "ARG" then [str "AR0"]
  else if b = str "HIS" then [str "HIP", str "HID", str "HIE", str "HSP", str "HSD", str "HSE"] else []

def combos : List Combo :=
  baseNames.flatMap (fun b => termCombos.flatMap (fun t =>
    (none :: (lateStates b).map some).map (fun st => { base := b, pre := t.1, early := t.2, state := st })))

def notPseudo (n : Str) : Bool := !isPseudo n

def patchesOf : List Str → Option (List PatchDef)
  | [] => some []
  | n :: ns => match findPatch patches n, patchesOf ns with
    | some p, some ps => some (p :: ps)
    | _, _ => none

structure Resolved where
  base : ResDef
  early : List PatchDef
  late : List PatchDef
  named : ResDef
deriving Repr

def resolve (c : Combo) : Option Resolved :=
  match findRes residues c.base, patchesOf (if c.early.isEmpty then [str "PEPTIDE"] else c.early), patchesOf c.state.toList,
      findRes residues (c.pre ++ c.state.getD c.base) with
  | some base, some early, some late, some named => some { base, early, late, named }
  | _, _, _, _ => none

/-- the run-time reference: the patches applied one after the other to the base definition -/
def refAfter (r : Resolved) : ResDef :=
  (r.early ++ r.late).foldl (fun ref p => (applyPatch p ref []).1) r.base

def sameSetB (a b : List Str) : Bool := a.all (fun n => b.contains n) && b.all (fun n => a.contains n)

def comboOK (c : Combo) : Bool :=
  match resolve c with
  | none => false
  | some r =>
    sameSetB ((refAfter r).names.filter notPseudo) (r.named.names.filter notPseudo) &&
      nodupB r.named.names && r.late.all (fun p => latePatches.contains p)

/-- 230 combinations (33 definitions x 5 terminus variants x the state patches that apply), all
resolved in this run's topology, all with equal atom sets -/
theorem combos_ok : combos.all comboOK = true := by
  decide +kernel

theorem combos_count : combos.length = 230 := by
  decide +kernel

/-- the stages a run applies to a residue of this combination -/
def stagesOf (r : Resolved) (strip : Bool) : List Stage :=
  r.early.map Stage.patch ++ [Stage.repair] ++
    ((if strip then [Stage.stripH] else []) ++ r.late.map Stage.patch) ++ [Stage.addH]

/-- the patch of a stage, if it is one -/
def stagePatch : Stage → Option PatchDef
  | .patch p => some p
  | _ => none

theorem applyPatch_ref_indep (p : PatchDef) (ref : ResDef) (a b : List Str) :
    (applyPatch p ref a).1 = (applyPatch p ref b).1 := rfl

theorem fold_ref (skip ok : Str → Bool) (l : List Stage) : ∀ st : St,
    (l.foldl (step skip ok) st).ref =
      (l.filterMap stagePatch).foldl (fun ref p => (applyPatch p ref []).1) st.ref := by
  induction l with
  | nil => intro st; rfl
  | cons x l ih =>
    intro st
    rw [List.foldl_cons, ih]
    cases x <;> rfl

theorem filterMap_patch (ps : List PatchDef) : (ps.map Stage.patch).filterMap stagePatch = ps := by
  induction ps with
  | nil => rfl
  | cons p ps ih => simp [stagePatch, ih]

theorem stagesOf_patches (r : Resolved) (strip : Bool) :
    (stagesOf r strip).filterMap stagePatch = r.early ++ r.late := by
  unfold stagesOf
  cases strip
  · simp only [Bool.false_eq_true, if_false, List.nil_append]
    rw [List.filterMap_append, List.filterMap_append, List.filterMap_append, filterMap_patch,
      filterMap_patch]
    show r.early ++ [] ++ r.late ++ [] = r.early ++ r.late
    simp
  · simp only [if_true]
    rw [List.filterMap_append, List.filterMap_append, List.filterMap_append, List.filterMap_append,
      filterMap_patch, filterMap_patch]
    show r.early ++ [] ++ ([] ++ r.late) ++ [] = r.early ++ r.late
    simp

theorem run_ref (skip ok : Str → Bool) (r : Resolved) (s : Names) (strip : Bool) :
    (run skip ok r.base s (stagesOf r strip)).ref = refAfter r := by
  unfold run
  rw [fold_ref, stagesOf_patches]
  rfl

theorem foldPatch_nodup (ps : List PatchDef) : ∀ ref : ResDef, ref.names.Nodup →
    (ps.foldl (fun ref p => (applyPatch p ref []).1) ref).names.Nodup := by
  induction ps with
  | nil => intro ref h; exact h
  | cons p ps ih =>
    intro ref h
    rw [List.foldl_cons]
    exact ih _ (patch_ref_nodup p ref [] h)

theorem patchesOf_mem : ∀ (ns : List Str) (ps : List PatchDef), patchesOf ns = some ps →
    ∀ p ∈ ps, p ∈ patches := by
  intro ns
  induction ns with
  | nil =>
    intro ps h p hp
    simp only [patchesOf, Option.some.injEq] at h
    subst h
    cases hp
  | cons n ns ih =>
    intro ps h p hp
    unfold patchesOf at h
    split at h
    · rename_i q qs hq hqs
      simp only [Option.some.injEq] at h
      subst h
      rcases List.mem_cons.1 hp with rfl | hp
      · exact List.mem_of_find?_eq_some hq
      · exact ih qs hqs p hp
    · cases h

theorem sameSetB_mem {a b : List Str} (h : sameSetB a b = true) (n : Str) : n ∈ a ↔ n ∈ b := by
  unfold sameSetB at h
  rw [Bool.and_eq_true, List.all_eq_true, List.all_eq_true] at h
  constructor
  · intro hn
    exact List.contains_iff_mem.1 (h.1 n hn)
  · intro hn
    exact List.contains_iff_mem.1 (h.2 n hn)

theorem resolve_mem {c : Combo} {r : Resolved} (hr : resolve c = some r) :
    r.base ∈ residues ∧ (∀ p ∈ r.early, p ∈ patches) ∧ (∀ p ∈ r.late, p ∈ patches) := by
  unfold resolve at hr
  split at hr
  · rename_i b e l nd hb he hl hnd
    simp only [Option.some.injEq] at hr
    subst hr
    exact ⟨List.mem_of_find?_eq_some hb, patchesOf_mem _ _ he, patchesOf_mem _ _ hl⟩
  · cases hr

/-- **The residue ends with exactly the atoms of the definition it is named after.** -/
theorem stages_reach_named_definition_core (c : Combo) (hc : c ∈ combos) (r : Resolved)
    (hr : resolve c = some r) (skip ok : Str → Bool) (s : Names) (strip : Bool)
    (hs1 : (run skip ok r.base s (r.early.map Stage.patch)).names.Nodup)
    (hs1p : ∀ n ∈ (run skip ok r.base s (r.early.map Stage.patch)).names, isPseudo n = false)
    (hop : OP1 ∉ (run skip ok r.base s (r.early.map Stage.patch)).names ∧
      OP2 ∉ (run skip ok r.base s (r.early.map Stage.patch)).names)
    (hok : ∀ n, ok n = true) (hskip : ∀ n, skip n = false) :
    (run skip ok r.base s (stagesOf r strip)).names.Perm (r.named.names.filter notPseudo) := by
  have hcok : comboOK c = true := List.all_eq_true.1 combos_ok c hc
  unfold comboOK at hcok
  rw [hr] at hcok
  simp only [Bool.and_eq_true] at hcok
  obtain ⟨⟨hsame, hnd⟩, hlate⟩ := hcok
  obtain ⟨hbase, hearlyM, _⟩ := resolve_mem hr
  have hlateM : ∀ p ∈ r.late, p ∈ latePatches := by
    intro p hp
    exact List.contains_iff_mem.1 (List.all_eq_true.1 hlate p hp)
  have hperm := stages_exact_on_data_core skip ok r.base hbase s (r.early.map Stage.patch)
    ((if strip then [Stage.stripH] else []) ++ r.late.map Stage.patch)
    (by
      intro x hx
      obtain ⟨p, hp, rfl⟩ := List.mem_map.1 hx
      exact ⟨p, hearlyM p hp, rfl⟩)
    (by
      intro x hx
      rcases List.mem_append.1 hx with h | h
      · left
        cases strip
        · cases h
        · simpa using h
      · right
        obtain ⟨p, hp, rfl⟩ := List.mem_map.1 h
        exact ⟨p, hlateM p hp, rfl⟩)
    hs1 hs1p hop hok hskip
  change (run skip ok r.base s (stagesOf r strip)).names.Perm
    ((run skip ok r.base s (stagesOf r strip)).ref.names.filter (fun n => !isPseudo n)) at hperm
  rw [run_ref] at hperm
  refine hperm.trans ?_
  have hbnd : r.base.names.Nodup :=
    (nodupB_iff _).1 (List.all_eq_true.1 residue_names_nodup r.base hbase)
  have h1 : ((refAfter r).names.filter (fun n => !isPseudo n)).Nodup :=
    (foldPatch_nodup _ _ hbnd).filter _
  have h2 : (r.named.names.filter notPseudo).Nodup := ((nodupB_iff _).1 hnd).filter _
  rw [List.perm_ext_iff_of_nodup h1 h2]
  exact sameSetB_mem hsame

end P2P.Proofs.Stages
