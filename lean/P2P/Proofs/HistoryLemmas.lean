import P2P.Model.History
namespace P2P.Proofs.History
open P2P.History

theorem history_independent_core {Cell I O V : Type} (step : G Cell V → I → G Cell V × O) (W : Cell → Prop)
    (hframe : ∀ g i c, ¬ W c → (step g i).1 c = g c)
    (hreads : ∀ g g' i, (∀ c, ¬ W c → g c = g' c) → (step g i).2 = (step g' i).2)
    (g0 : G Cell V) (hist : List I) :
    outputs step g0 hist = hist.map (fun i => (step g0 i).2) := by
  -- generalise: any state that agrees with g0 outside W
  suffices h : ∀ (g : G Cell V), (∀ c, ¬ W c → g c = g0 c) → outputs step g hist = hist.map (fun i => (step g0 i).2) from
    h g0 (fun _ _ => rfl)
  induction hist with
  | nil => intro g _; rfl
  | cons i is ih =>
    intro g hg
    simp only [outputs, List.map_cons]
    rw [hreads g g0 i hg]
    congr 1
    apply ih
    intro c hc
    rw [hframe g i c hc]
    exact hg c hc

end P2P.Proofs.History
