import P2P.Model.PdbRead

/-! Chain letters for records without a chain identifier (`Biomolecule.__init__`): lemmas for C07 / C02. -/
namespace P2P.Proofs.PdbChain
open P2P P2P.PdbRead

/-- the chain a record is filed under once it has been taken in: the chain of `prev` -/
def filedChain (s : GState) : Option Str := s.prev.map (·.chain)

theorem ter_counts (n : Nat) (s s' : GState) (hs : s.stopped = false) (h : gstep n s .ter = .ok s') :
    s'.count = s.count + 1 ∧ s'.chains = s.chains ∧ s'.prev = s.prev := by
  simp [gstep, hs] at h
  subst h
  simp

theorem flush_keeps (s s' : GState) (h : flush s = .ok s') : s'.count = s.count ∧ s'.prev = s.prev := by
  unfold flush at h
  cases hp : s.prev with
  | none => simp [hp] at h
  | some p =>
    simp only [hp] at h
    split at h
    · cases h
    · cases h; simp [hp]

theorem atom_step (n : Nat) (s s' : GState) (a0 : AtomRec) (hs : s.stopped = false)
    (h : gstep n s (.atom a0) = .ok s') :
    s'.count = s.count ∧
    ((a0.chain = [] ∧ n > 1 ∧ isWaterName a0.resName = false) →
      ∃ c rest, chainAlphabet.drop s.count = c :: rest ∧ filedChain s' = some [c]) ∧
    (¬ (a0.chain = [] ∧ n > 1 ∧ isWaterName a0.resName = false) → filedChain s' = some a0.chain) := by
  unfold gstep at h
  simp only [hs, Bool.false_eq_true, ↓reduceIte] at h
  by_cases hb : (a0.chain = [] && decide (n > 1) && !isWaterName a0.resName) = true
  · have hyes : a0.chain = [] ∧ n > 1 ∧ isWaterName a0.resName = false := by
      simp only [Bool.and_eq_true, decide_eq_true_eq, Bool.not_eq_true'] at hb
      exact ⟨hb.1.1, hb.1.2, hb.2⟩
    simp only [hb, ↓reduceIte] at h
    cases hd : chainAlphabet.drop s.count with
    | nil => simp [hd, bind, Except.bind] at h
    | cons c rest =>
      simp only [hd, bind, Except.bind, pure, Except.pure] at h
      split at h
      · split at h
        · cases h
        · rename_i v hv
          cases h
          have := flush_keeps _ _ hv
          exact ⟨by simpa using this.1, fun _ => ⟨c, rest, rfl, by simp [filedChain]⟩, fun hne => absurd hyes hne⟩
      · cases h
        exact ⟨rfl, fun _ => ⟨c, rest, rfl, by simp [filedChain]⟩, fun hne => absurd hyes hne⟩
  · have hne : ¬ (a0.chain = [] ∧ n > 1 ∧ isWaterName a0.resName = false) := by
      intro ⟨h1, h2, h3⟩
      apply hb
      simp [h1, h2, h3]
    simp only [hb, Bool.false_eq_true, ↓reduceIte, bind, Except.bind, pure, Except.pure] at h
    split at h
    · split at h
      · cases h
      · rename_i v hv
        cases h
        have := flush_keeps _ _ hv
        exact ⟨by simpa using this.1, fun hh => absurd hh hne, fun _ => by simp [filedChain]⟩
    · cases h
      exact ⟨rfl, fun hh => absurd hh hne, fun _ => by simp [filedChain]⟩

/-- the 62 chain letters are pairwise different -/
theorem alphabet_index_inj : ∀ i : Fin 62, ∀ j : Fin 62, chainAlphabet[i.val]? = chainAlphabet[j.val]? → i = j := by
  decide +kernel

theorem alphabet_length : chainAlphabet.length = 62 := by decide

theorem drop_head_inj (i j : Nat) (c : Char) (ri rj : List Char)
    (hi : chainAlphabet.drop i = c :: ri) (hj : chainAlphabet.drop j = c :: rj) : i = j := by
  have e1 : chainAlphabet[i]? = some c := by rw [← List.head?_drop, hi]; rfl
  have e2 : chainAlphabet[j]? = some c := by rw [← List.head?_drop, hj]; rfl
  have hil : i < 62 := by
    cases Nat.lt_or_ge i 62 with
    | inl h => exact h
    | inr h => rw [List.getElem?_eq_none (by rw [alphabet_length]; exact h)] at e1; cases e1
  have hjl : j < 62 := by
    cases Nat.lt_or_ge j 62 with
    | inl h => exact h
    | inr h => rw [List.getElem?_eq_none (by rw [alphabet_length]; exact h)] at e2; cases e2
  have := alphabet_index_inj ⟨i, hil⟩ ⟨j, hjl⟩ (e1.trans e2.symm)
  exact Fin.mk.inj this

end P2P.Proofs.PdbChain
