/-
  P2P.Proofs.FFAux2 — invariants of the force-field map construction (`baseMap`, `updateMapRes`,
  `applySection`, `build`) for an arbitrary entry predicate `Q`.
-/
import P2P.Model.FF
import P2P.Proofs.FFAux

namespace P2P.Proofs.FF
open P2P P2P.FF P2P.Regex

/-! ### `Except` folds -/

theorem except_bind_ok {ε α β : Type} {x : Except ε α} {f : α → Except ε β} {b : β}
    (h : (x >>= f) = .ok b) : ∃ a, x = .ok a ∧ f a = .ok b := by
  cases x with
  | error e => cases h
  | ok a => exact ⟨a, rfl, h⟩

theorem foldlM_except_inv {α β ε : Type} (P : β → Prop) (f : β → α → Except ε β)
    (hf : ∀ b a b', P b → f b a = .ok b' → P b') :
    ∀ (l : List α) (b b' : β), P b → l.foldlM f b = .ok b' → P b' := by
  intro l
  induction l with
  | nil =>
    intro b b' hb h
    cases h
    exact hb
  | cons a l ih =>
    intro b b' hb h
    rw [List.foldlM_cons] at h
    rcases except_bind_ok h with ⟨b1, h1, h2⟩
    exact ih b1 b' (hf b a b1 hb h1) h2

/-! ### the generic invariant -/

/-- atom dictionary: keys distinct, every entry satisfies `Q` -/
def GoodAtoms (Q : Entry → Prop) (as : List (Str × Entry)) : Prop :=
  (as.map (·.1)).Nodup ∧ ∀ an e, (an, e) ∈ as → Q e

/-- residue keys distinct, every residue has a good atom dictionary -/
def Inv (Q : Entry → Prop) (m : FFMap) : Prop :=
  (m.map (·.1)).Nodup ∧ ∀ k re, (k, re) ∈ m → GoodAtoms Q re.atoms

theorem goodAtoms_nil (Q : Entry → Prop) : GoodAtoms Q [] := ⟨by simp, by simp⟩

theorem goodAtoms_dset {Q : Entry → Prop} {as : List (Str × Entry)} (h : GoodAtoms Q as) (an : Str) (e : Entry)
    (he : Q e) : GoodAtoms Q (dset as an e) := by
  refine ⟨dset_keys_nodup _ _ h.1, ?_⟩
  intro an' e' hm
  rcases mem_dset hm with hm | hm
  · exact h.2 _ _ hm
  · cases hm; exact he

theorem goodAtoms_dsetAll {Q : Entry → Prop} {as xs : List (Str × Entry)} (h : GoodAtoms Q as)
    (hx : ∀ an e, (an, e) ∈ xs → Q e) : GoodAtoms Q (dsetAll as xs) := by
  refine ⟨dsetAll_keys_nodup _ h.1, ?_⟩
  intro an e hm
  rcases mem_dsetAll hm with hm | hm
  · exact h.2 _ _ hm
  · exact hx _ _ hm

theorem inv_nil (Q : Entry → Prop) : Inv Q [] := ⟨by simp, by simp⟩

theorem inv_lookup {Q : Entry → Prop} {m : FFMap} (h : Inv Q m) {k : Str} {re : ResEntry}
    (hk : dget? m k = some re) : GoodAtoms Q re.atoms := h.2 k re (dget?_mem hk)

theorem inv_append_new {Q : Entry → Prop} {m : FFMap} (h : Inv Q m) {k : Str} (hk : dhas m k = false)
    (re : ResEntry) (hr : GoodAtoms Q re.atoms) : Inv Q (m ++ [(k, re)]) := by
  constructor
  · rw [List.map_append, List.nodup_append]
    refine ⟨h.1, by simp, ?_⟩
    intro a ha b hb
    simp at hb
    subst hb
    intro e; subst e
    exact (dhas_false_iff m a).1 hk ha
  · intro k' re' hm
    rcases List.mem_append.1 hm with hm | hm
    · exact h.2 _ _ hm
    · simp at hm
      rw [hm.2]; exact hr

/-- a key-preserving map whose value function keeps atom dictionaries good -/
theorem inv_map {Q : Entry → Prop} {m : FFMap} (h : Inv Q m) (g : Str → ResEntry → ResEntry)
    (hg : ∀ k re, (k, re) ∈ m → GoodAtoms Q (g k re).atoms) :
    Inv Q (m.map (fun p => (p.1, g p.1 p.2))) := by
  constructor
  · rw [keys_map]; exact h.1
  · intro k re hm
    rcases List.mem_map.1 hm with ⟨p, hp, he⟩
    cases he
    exact hg p.1 p.2 hp

/-! ### the parameter file -/

def entryOf' (row : Row) : Entry :=
  { name := row.atom, q := row.q, r := row.r, resname := row.res, group := row.group }

theorem inv_addRow {Q : Entry → Prop} {m : FFMap} (h : Inv Q m) (row : Row) (hq : Q (entryOf' row)) :
    Inv Q (addRow m row) := by
  unfold addRow
  cases hd : dget? m row.res with
  | none =>
    simp only []
    apply inv_append_new h ((dget?_eq_none_iff _ _).1 hd)
    refine ⟨by simp, ?_⟩
    intro an e hm
    simp at hm
    rw [hm.2]; exact hq
  | some re =>
    simp only []
    constructor
    · exact dset_keys_nodup _ _ h.1
    · intro k re' hm
      rcases mem_dset hm with hm | hm
      · exact h.2 _ _ hm
      · cases hm
        exact goodAtoms_dset (inv_lookup h hd) _ _ hq

theorem inv_baseMap {Q : Entry → Prop} (rows : List Row) (hq : ∀ row ∈ rows, Q (entryOf' row)) :
    Inv Q (baseMap rows) := by
  unfold baseMap
  suffices H : ∀ (m : FFMap), Inv Q m → Inv Q (rows.foldl addRow m) from H [] (inv_nil Q)
  induction rows with
  | nil => intro m hm; exact hm
  | cons row rows ih =>
    intro m hm
    rw [List.foldl_cons]
    exact ih (fun r hr => hq r (List.mem_cons_of_mem _ hr)) _ (inv_addRow hm row (hq row List.mem_cons_self))

/-! ### `update_map` -/

def updFn (toname : Str) (src : List (Str × Entry)) (k : Str) (re : ResEntry) : ResEntry :=
  if k = toname then { re with atoms := dsetAll re.atoms src } else re

/-- the map with `toname` present -/
def ensure (m : FFMap) (toname fromname : Str) : FFMap :=
  if dhas m toname then m else m ++ [(toname, { name := fromname, atoms := [] })]

theorem updateMapRes_ok {m m' : FFMap} {toname fromname : Str} (h : updateMapRes m toname fromname = .ok m') :
    ∃ fr, dget? m fromname = some fr ∧
      m' = (ensure m toname fromname).map (fun p => (p.1, updFn toname fr.atoms p.1 p.2)) := by
  unfold updateMapRes at h
  cases hd : dget? m fromname with
  | none => rw [hd] at h; cases h
  | some fr =>
    rw [hd] at h
    simp only [] at h
    refine ⟨fr, rfl, ?_⟩
    injection h with h
    rw [← h]
    unfold ensure
    apply List.map_congr_left
    intro p _
    rcases p with ⟨k, re⟩
    simp only [updFn]
    split <;> rfl

theorem inv_ensure {Q : Entry → Prop} {m : FFMap} (h : Inv Q m) (toname fromname : Str) :
    Inv Q (ensure m toname fromname) := by
  unfold ensure
  split
  · exact h
  · rename_i hh
    exact inv_append_new h (by simpa using hh) _ (goodAtoms_nil Q)

theorem inv_updateMapRes {Q : Entry → Prop} {m m' : FFMap} {toname fromname : Str} (h : Inv Q m)
    (hu : updateMapRes m toname fromname = .ok m') : Inv Q m' := by
  rcases updateMapRes_ok hu with ⟨fr, hfr, rfl⟩
  have hfg := inv_lookup h hfr
  apply inv_map (inv_ensure h toname fromname)
  intro k re hm
  have := (inv_ensure h toname fromname).2 k re hm
  unfold updFn
  split
  · exact goodAtoms_dsetAll this hfg.2
  · exact this

/-! ### sections -/

def phase1 (canon : List Str) (m : FFMap) (s : Section) : Except FErr FFMap :=
  match s.useres with
  | none => pure m
  | some old =>
    let newreslist := canon.filterMap (fun n => (reMatch s.pat n).map (fun g => (n, g)))
    if containsSub old groupVar then
      newreslist.foldlM (fun m (resname, groups) =>
        match groups with
        | [] => .error .indexError
        | g :: _ =>
          let fromname := replaceAll old groupVar g
          if dhas m fromname then updateMapRes m resname fromname else pure m) m
    else
      newreslist.foldlM (fun m (resname, _) => updateMapRes m resname old) m

def aliasAll (pairs : List (Str × Str)) (as : List (Str × Entry)) : List (Str × Entry) :=
  pairs.foldl (fun as (newname, oldname) =>
        match dget? as oldname with
        | some e => dset as newname e
        | none => as) as

def phase2Fn (s : Section) (k : Str) (re : ResEntry) : ResEntry :=
  if (reMatch s.pat k).isSome then { re with atoms := aliasAll s.atoms re.atoms } else re

def phase2 (s : Section) (m1 : FFMap) : FFMap :=
  if s.atoms.isEmpty then m1 else m1.map (fun p => (p.1, phase2Fn s p.1 p.2))

theorem applySection_eq (canon : List Str) (m : FFMap) (s : Section) :
    applySection canon m s = (phase1 canon m s >>= fun m1 => .ok (phase2 s m1)) := by
  have key : ∀ m1 : FFMap, (if s.atoms.isEmpty then (pure m1 : Except FErr FFMap) else
      pure (m1.map (fun (k, re) =>
        if (reMatch s.pat k).isSome then
          (k, { re with atoms := s.atoms.foldl (fun as (newname, oldname) =>
            match dget? as oldname with
            | some e => dset as newname e
            | none => as) re.atoms })
        else (k, re)))) = Except.ok (phase2 s m1) := by
    intro m1
    unfold phase2
    split
    · rfl
    · show Except.ok _ = Except.ok _
      congr 1
      apply List.map_congr_left
      intro p _
      rcases p with ⟨k, re⟩
      simp only [phase2Fn]
      split <;> rfl
  unfold applySection phase1
  cases s.useres with
  | none =>
    simp only [pure_bind]
    exact key m
  | some old =>
    simp only []
    split
    · congr 1
      funext m1
      exact key m1
    · congr 1
      funext m1
      exact key m1

theorem goodAtoms_aliasAll {Q : Entry → Prop} (pairs : List (Str × Str)) {as : List (Str × Entry)}
    (h : GoodAtoms Q as) : GoodAtoms Q (aliasAll pairs as) := by
  unfold aliasAll
  induction pairs generalizing as with
  | nil => exact h
  | cons p pairs ih =>
    rw [List.foldl_cons]
    apply ih
    rcases p with ⟨newname, oldname⟩
    simp only []
    cases hd : dget? as oldname with
    | none => exact h
    | some e => exact goodAtoms_dset h _ _ (h.2 _ _ (dget?_mem hd))

theorem inv_phase2 {Q : Entry → Prop} {m : FFMap} (h : Inv Q m) (s : Section) : Inv Q (phase2 s m) := by
  unfold phase2
  split
  · exact h
  · apply inv_map h
    intro k re hm
    unfold phase2Fn
    split
    · exact goodAtoms_aliasAll _ (h.2 k re hm)
    · exact h.2 k re hm

theorem inv_phase1 {Q : Entry → Prop} {m m1 : FFMap} (h : Inv Q m) (canon : List Str) (s : Section)
    (hp : phase1 canon m s = .ok m1) : Inv Q m1 := by
  unfold phase1 at hp
  cases hu : s.useres with
  | none =>
    rw [hu] at hp
    cases hp
    exact h
  | some old =>
    rw [hu] at hp
    simp only [] at hp
    split at hp
    · refine foldlM_except_inv (Inv Q) _ ?_ _ _ _ h hp
      intro b a b' hb hf
      rcases a with ⟨resname, groups⟩
      cases groups with
      | nil => cases hf
      | cons g gs =>
        simp only [] at hf
        split at hf
        · exact inv_updateMapRes hb hf
        · cases hf; exact hb
    · refine foldlM_except_inv (Inv Q) _ ?_ _ _ _ h hp
      intro b a b' hb hf
      rcases a with ⟨resname, groups⟩
      exact inv_updateMapRes hb hf

theorem inv_applySection {Q : Entry → Prop} {m m' : FFMap} (h : Inv Q m) (canon : List Str) (s : Section)
    (hs : applySection canon m s = .ok m') : Inv Q m' := by
  rw [applySection_eq] at hs
  rcases except_bind_ok hs with ⟨m1, h1, h2⟩
  cases h2
  exact inv_phase2 (inv_phase1 h canon s h1) s

theorem inv_build {Q : Entry → Prop} (rows : List Row) (secs : List Section) (canon : List Str) (m : FFMap)
    (hq : ∀ row ∈ rows, Q (entryOf' row)) (h : build rows secs canon = .ok m) : Inv Q m := by
  unfold build at h
  exact foldlM_except_inv (Inv Q) _ (fun b a b' hb hf => inv_applySection hb canon a hf) _ _ _
    (inv_baseMap rows hq) h

end P2P.Proofs.FF
