import P2P.Model.Rigid
import P2P.Proofs.GeomLemmas
import P2P.Proofs.RigidTableAll

/-! Lemmas behind Props/C04.lean and Props/C05.lean. -/
namespace P2P.Proofs.Rigid
open P2P P2P.Geom P2P.Rigid P2P.Topology P2P.Proofs.Geom P2P.Proofs.RigidTable

/-- the torsion a residue undergoes, as a function of the data `set_dihedral_angle` reads -/
noncomputable def diffOf (r2d small : ℝ) (pos : Str → V3 ℝ) (a b c d : Str) (angle : ℝ) : ℝ :=
  angle - dihedral r2d small (pos a) (pos b) (pos c) (pos d)

theorem applyTorsion_outside_core (r2d small : ℝ) (pos : Str → V3 ℝ) (a b c d : Str) (M : List Str) (angle : ℝ)
    (u : Str) (h : u ∉ M) : applyTorsion r2d small pos a b c d M angle u = pos u := by
  have h' : M.idxOf? u = none := List.idxOf?_eq_none_iff.2 h
  simp only [applyTorsion, h']

theorem setDihedral_eq (r2d small : ℝ) (c1 c2 c3 c4 : V3 ℝ) (angle : ℝ) (moved : List (V3 ℝ)) :
    setDihedral r2d small c1 c2 c3 c4 angle moved =
      moved.map (torsionMap c2 c3 (angle - dihedral r2d small c1 c2 c3 c4)) := by
  simp [setDihedral, qchichange, rotmol, torsionMap, List.map_map, Function.comp_def]

theorem applyTorsion_inside_core (r2d small : ℝ) (pos : Str → V3 ℝ) (a b c d : Str) (M : List Str) (angle : ℝ)
    (u : Str) (h : u ∈ M) :
    applyTorsion r2d small pos a b c d M angle u =
      torsionMap (pos b) (pos c) (diffOf r2d small pos a b c d angle) (pos u) := by
  have hs : (M.idxOf? u).isSome := List.isSome_idxOf?.2 h
  obtain ⟨i, hi⟩ := Option.isSome_iff_exists.1 hs
  obtain ⟨hlt, hget, -⟩ := List.idxOf?_eq_some_iff.1 hi
  simp only [applyTorsion, hi, setDihedral_eq, List.map_map]
  rw [List.getD_eq_getElem?_getD, List.getElem?_map, List.getElem?_eq_getElem hlt]
  simp [hget, diffOf]

theorem rotPoint_zero (m : M3 ℝ) : rotPoint m ⟨0,0,0⟩ = ⟨0,0,0⟩ := by
  apply V3.ext' <;> simp [rotPoint]

theorem torsionMap_rigid_core (o c : V3 ℝ) (h : d2 c o ≠ 0) (diff : ℝ) (p q : V3 ℝ) :
    d2 (torsionMap o c diff p) (torsionMap o c diff q) = d2 p q ∧
    torsionMap o c diff o = o ∧ torsionMap o c diff c = c := by
  have ha : V3.dot (V3.sub c o) (V3.sub c o) ≠ 0 := h
  have hu := normalize_unit_core _ ha
  have hiso := chi_isometry_core _ hu diff
  have hn := norm_ne_zero _ ha
  refine ⟨?_, ?_, ?_⟩
  · exact rigid_of_iso _ hiso p q o o
  · have h0 : V3.sub o o = V3.smul 0 (V3.normalize (V3.sub c o)) := by
      apply V3.ext' <;> simp [V3.smul, V3.sub]
    unfold torsionMap
    rw [h0, chi_fixes_axis_core _ hu]
    apply V3.ext' <;> simp [V3.smul, V3.add]
  · have h0 : V3.sub c o = V3.smul (V3.norm (V3.sub c o)) (V3.normalize (V3.sub c o)) := by
      apply V3.ext' <;> simp only [V3.smul, V3.normalize] <;> field_simp
    have hfix := chi_fixes_axis_core _ hu diff (V3.norm (V3.sub c o))
    rw [← h0] at hfix
    unfold torsionMap
    rw [hfix]
    apply V3.ext' <;> simp [V3.sub, V3.add]

theorem pair_preserved_core (r2d small : ℝ) (pos : Str → V3 ℝ) (a b c d : Str) (M : List Str) (angle : ℝ)
    (haxis : d2 (pos c) (pos b) ≠ 0) (u w : Str) (h : pairOK b c M u w = true) :
    d2 (applyTorsion r2d small pos a b c d M angle u) (applyTorsion r2d small pos a b c d M angle w) =
      d2 (pos u) (pos w) := by
  have T := fun p q => torsionMap_rigid_core (pos b) (pos c) haxis (diffOf r2d small pos a b c d angle) p q
  by_cases hu : u ∈ M <;> by_cases hw : w ∈ M
  · rw [applyTorsion_inside_core _ _ _ _ _ _ _ _ _ _ hu, applyTorsion_inside_core _ _ _ _ _ _ _ _ _ _ hw]
    exact (T _ _).1
  · rw [applyTorsion_inside_core _ _ _ _ _ _ _ _ _ _ hu, applyTorsion_outside_core _ _ _ _ _ _ _ _ _ _ hw]
    have hbc : w = b ∨ w = c := by simpa [pairOK, hu, hw] using h
    have e : torsionMap (pos b) (pos c) (diffOf r2d small pos a b c d angle) (pos w) = pos w := by
      rcases hbc with rfl | rfl
      · exact (T (pos u) (pos u)).2.1
      · exact (T (pos u) (pos u)).2.2
    have := (T (pos u) (pos w)).1
    rw [e] at this; exact this
  · rw [applyTorsion_outside_core _ _ _ _ _ _ _ _ _ _ hu, applyTorsion_inside_core _ _ _ _ _ _ _ _ _ _ hw]
    have hbc : u = b ∨ u = c := by simpa [pairOK, hu, hw] using h
    have e : torsionMap (pos b) (pos c) (diffOf r2d small pos a b c d angle) (pos u) = pos u := by
      rcases hbc with rfl | rfl
      · exact (T (pos w) (pos w)).2.1
      · exact (T (pos w) (pos w)).2.2
    have := (T (pos u) (pos w)).1
    rw [e] at this; exact this
  · rw [applyTorsion_outside_core _ _ _ _ _ _ _ _ _ _ hu, applyTorsion_outside_core _ _ _ _ _ _ _ _ _ _ hw]

theorem rigid_cond_preserves_core (r : ResDef) (present : List Str) (r2d small : ℝ) (pos : Str → V3 ℝ)
    (a b c d : Str) (M : List Str) (angle : ℝ) (haxis : d2 (pos c) (pos b) ≠ 0)
    (h : RigidCond r present b c M = true) :
    ∀ v ∈ present, ∀ u ∈ nbrs r present v,
      d2 (applyTorsion r2d small pos a b c d M angle u) (applyTorsion r2d small pos a b c d M angle v) =
        d2 (pos u) (pos v) ∧
      ∀ w ∈ nbrs r present v,
        d2 (applyTorsion r2d small pos a b c d M angle u) (applyTorsion r2d small pos a b c d M angle w) =
          d2 (pos u) (pos w) := by
  simp only [RigidCond, List.all_eq_true, Bool.and_eq_true] at h
  intro v hv u hu
  obtain ⟨h1, h2⟩ := h v hv u hu
  exact ⟨pair_preserved_core _ _ _ _ _ _ _ _ _ haxis _ _ h1,
    fun w hw => pair_preserved_core _ _ _ _ _ _ _ _ _ haxis _ _ (h2 w hw)⟩

/-- what `variantOK` says, unfolded -/
theorem variantOK_spec_core (r : ResDef) (present : List Str) (isN isC : Bool) (h : variantOK r present isN isC = true)
    (a b c e : Str) (hd : [a, b, c, e] ∈ r.dihedrals)
    (hp : present.contains a = true ∧ present.contains b = true ∧ present.contains c = true ∧ present.contains e = true) :
    (∀ u ∈ moveable r present isN isC c, u ∉ fixedNames) ∧ e ∈ moveable r present isN isC c ∧
    a ∉ moveable r present isN isC c ∧ b ∉ moveable r present isN isC c ∧
    RigidCond r present b c (moveable r present isN isC c) = true := by
  unfold variantOK at h
  rw [List.all_eq_true] at h
  have h1 := h _ hd
  obtain ⟨pa, pb, pc, pe⟩ := hp
  simp only [pa, pb, pc, pe, Bool.and_self, if_true, Bool.and_eq_true, List.all_eq_true,
    Bool.not_eq_true'] at h1
  obtain ⟨⟨⟨⟨h1, h2⟩, h3⟩, h4⟩, h5⟩ := h1
  refine ⟨fun u hu => ?_, ?_, ?_, ?_, h5⟩
  · have := h1 u hu
    simpa using this
  · simpa using h2
  · simpa using h3
  · simpa using h4

/-- what `baseOK` says, unfolded -/
theorem baseOK_spec_core (patches : List PatchDef) (base : ResDef) (ha : isAmino base = true)
    (h : baseOK patches base = true) (ns cs : List Str) (hn : ns ∈ ntermSeqs) (hc : cs ∈ ctermSeqs) :
    ∃ r, applyAll patches base (ns ++ cs) = some r ∧
      bondsSymmetric r (fullAtoms r) = true ∧
      variantOK r (fullAtoms r) (!ns.isEmpty) (!cs.isEmpty) = true ∧
      variantOK r (heavyAtoms r) (!ns.isEmpty) (!cs.isEmpty) = true := by
  unfold baseOK at h
  simp only [ha, Bool.not_true, Bool.false_or, List.all_eq_true] at h
  have hm : (applyAll patches base (ns ++ cs), !ns.isEmpty, !cs.isEmpty) ∈ runtimeVariants patches base := by
    unfold runtimeVariants
    rw [List.mem_flatMap]
    exact ⟨ns, hn, List.mem_map.2 ⟨cs, hc, rfl⟩⟩
  have h1 := h _ hm
  cases hr : applyAll patches base (ns ++ cs) with
  | none => simp [hr] at h1
  | some r =>
    simp only [hr, defOK, Bool.and_eq_true] at h1
    exact ⟨r, rfl, h1.1.1, h1.1.2, h1.2⟩

theorem lookup_map_self {β : Type} (f : Str → β) (l : List Str) (x : Str) (y : β)
    (h : (l.map (fun u => (u, f u))).lookup x = some y) : y = f x := by
  induction l with
  | nil => simp at h
  | cons a l ih =>
    simp only [List.map_cons, List.lookup_cons] at h
    by_cases hxa : x = a
    · subst hxa; simp at h; exact h.symm
    · have : (x == a) = false := by simpa using hxa
      simp only [this] at h
      exact ih h

theorem bfs_mem (r : ResDef) (present : List Str) (ok : Str → Bool) (fuel : Nat) :
    ∀ (d : Nat) (seen frontier : List Str), ∀ x ∈ bfs r present ok fuel d seen frontier,
      x.1 ∈ frontier ∨ ok x.1 = true := by
  induction fuel with
  | zero => intro d seen frontier x hx; simp [bfs] at hx
  | succ n ih =>
    intro d seen frontier x hx
    unfold bfs at hx
    split at hx
    · simp at hx
    · simp only [List.mem_append, List.mem_map] at hx
      rcases hx with ⟨u, hu, rfl⟩ | hx
      · exact Or.inl hu
      · rcases ih _ _ _ x hx with h | h
        · right
          simp only [nextLayer, List.mem_filter, Bool.and_eq_true] at h
          exact h.2.1.2
        · exact Or.inr h

theorem lookup_join_map (f : Str → Option Int) (l : List Str) (x : Str) (dv : Int)
    (h : ((l.map (fun u => (u, f u))).lookup x).join = some dv) : f x = some dv := by
  cases hl : (l.map (fun u => (u, f u))).lookup x with
  | none => rw [hl] at h; simp at h
  | some y =>
    have hy := lookup_map_self _ _ _ _ hl
    rw [hl, Option.join_some] at h
    rw [← hy, h]

theorem refTable_entry (r : ResDef) (present : List Str) (isN isC : Bool) (x : Str) (dv : Int)
    (h : ((refTable r present isN isC).lookup x).join = some dv) :
    (if backbone.contains x then some (-1 : Int)
     else if isC && x = str "HO" then some 3
     else if isN && (x = str "H3" || x = str "H2") then some 2
     else ((pathTable r present).lookup x).map Int.ofNat) = some dv :=
  lookup_join_map _ _ _ _ h

theorem refTable_ge (r : ResDef) (present : List Str) (isN isC : Bool) (x : Str) (dv : Int)
    (h : ((refTable r present isN isC).lookup x).join = some dv) : dv ≥ -1 := by
  have hy := refTable_entry _ _ _ _ _ _ h
  split_ifs at hy
  · simp at hy; omega
  · simp at hy; omega
  · simp at hy; omega
  · cases hp : (pathTable r present).lookup x with
    | none => simp [hp] at hy
    | some n => simp [hp] at hy; omega

theorem refTable_backbone (r : ResDef) (present : List Str) (isN isC : Bool) (x : Str) (dv : Int)
    (hx : x ∈ backbone)
    (h : ((refTable r present isN isC).lookup x).join = some dv) : dv = -1 := by
  have hy := refTable_entry _ _ _ _ _ _ h
  have hb : backbone.contains x = true := by simpa using hx
  rw [if_pos hb] at hy
  simpa using hy.symm

/-- general, for every definition and every presence pattern: the moved set never contains a
backbone atom -/
theorem backbone_never_moveable_core (r : ResDef) (present : List Str) (isN isC : Bool) (pivot u : Str)
    (hu : u ∈ backbone) : u ∉ moveable r present isN isC pivot := by
  intro hm
  unfold moveable at hm
  simp only at hm
  split at hm
  · simp at hm
  · rename_i dp hdp
    simp only [List.mem_filter, Bool.and_eq_true, List.contains_iff_mem, List.mem_map] at hm
    obtain ⟨_, hne, x, hx, rfl⟩ := hm
    have hne' : x.1 ≠ pivot := by simpa using hne
    rcases bfs_mem _ _ _ _ _ _ _ x hx with h | h
    · simp at h; exact hne' h
    · have hge := refTable_ge r present isN isC pivot dp hdp
      split at h
      · rename_i dv hdv
        have := refTable_backbone r present isN isC x.1 dv hu hdv
        simp at h
        omega
      · simp at h


/-! ### C05 -/

/-- Euclidean distance of the model -/
noncomputable def edist (p q : V3 ℝ) : ℝ := Real.sqrt (d2 p q)

theorem sqrt_tri (u1 u2 u3 v1 v2 v3 : ℝ) :
    Real.sqrt ((u1 + v1) * (u1 + v1) + (u2 + v2) * (u2 + v2) + (u3 + v3) * (u3 + v3)) ≤
      Real.sqrt (u1 * u1 + u2 * u2 + u3 * u3) + Real.sqrt (v1 * v1 + v2 * v2 + v3 * v3) := by
  have hA : 0 ≤ u1 * u1 + u2 * u2 + u3 * u3 := by nlinarith [mul_self_nonneg u1, mul_self_nonneg u2, mul_self_nonneg u3]
  have hB : 0 ≤ v1 * v1 + v2 * v2 + v3 * v3 := by nlinarith [mul_self_nonneg v1, mul_self_nonneg v2, mul_self_nonneg v3]
  have hcs : (u1 * v1 + u2 * v2 + u3 * v3) ^ 2 ≤ (u1 * u1 + u2 * u2 + u3 * u3) * (v1 * v1 + v2 * v2 + v3 * v3) := by
    nlinarith [sq_nonneg (u1 * v2 - u2 * v1), sq_nonneg (u1 * v3 - u3 * v1), sq_nonneg (u2 * v3 - u3 * v2)]
  have h1 : u1 * v1 + u2 * v2 + u3 * v3 ≤
      Real.sqrt (u1 * u1 + u2 * u2 + u3 * u3) * Real.sqrt (v1 * v1 + v2 * v2 + v3 * v3) := by
    rw [← Real.sqrt_mul hA]
    exact le_trans (le_abs_self _) (Real.abs_le_sqrt hcs)
  have hsA := Real.sq_sqrt hA
  have hsB := Real.sq_sqrt hB
  have hnA := Real.sqrt_nonneg (u1 * u1 + u2 * u2 + u3 * u3)
  have hnB := Real.sqrt_nonneg (v1 * v1 + v2 * v2 + v3 * v3)
  apply Real.sqrt_le_iff.2
  refine ⟨by positivity, ?_⟩
  generalize Real.sqrt (u1 * u1 + u2 * u2 + u3 * u3) = sa at *
  generalize Real.sqrt (v1 * v1 + v2 * v2 + v3 * v3) = sb at *
  nlinarith

theorem edist_triangle (a b c : V3 ℝ) : edist a c ≤ edist a b + edist b c := by
  obtain ⟨a1, a2, a3⟩ := a
  obtain ⟨b1, b2, b3⟩ := b
  obtain ⟨c1, c2, c3⟩ := c
  simp only [edist, d2, V3.dot, V3.sub]
  have := sqrt_tri (a1 - b1) (a2 - b2) (a3 - b3) (b1 - c1) (b2 - c2) (b3 - c3)
  have e1 : a1 - b1 + (b1 - c1) = a1 - c1 := by ring
  have e2 : a2 - b2 + (b2 - c2) = a2 - c2 := by ring
  have e3 : a3 - b3 + (b3 - c3) = a3 - c3 := by ring
  rw [e1, e2, e3] at this
  exact this

theorem d2_comm (a b : V3 ℝ) : d2 a b = d2 b a := by
  simp only [d2, V3.dot, V3.sub]; ring

theorem edist_comm (a b : V3 ℝ) : edist a b = edist b a := by
  unfold edist; rw [d2_comm]

theorem placed_bond_le_residual_core (refs defs : List (V3 ℝ)) (h p P : V3 ℝ) :
    |edist (findCoordinates refs defs h) P - edist h p| ≤ edist (findCoordinates refs defs p) P := by
  have hr : edist h p = edist (findCoordinates refs defs h) (findCoordinates refs defs p) := by
    unfold edist
    congr 1
    exact (findCoordinates_rigid_core refs defs h p).symm
  rw [hr, abs_le]
  have t1 := edist_triangle (findCoordinates refs defs h) (findCoordinates refs defs p) P
  have t2 := edist_triangle (findCoordinates refs defs h) P (findCoordinates refs defs p)
  rw [edist_comm P] at t2
  constructor <;> linarith

theorem d2_eq_zero (a b : V3 ℝ) (h : d2 a b = 0) : a = b := by
  obtain ⟨a1, a2, a3⟩ := a
  obtain ⟨b1, b2, b3⟩ := b
  simp only [d2, V3.dot, V3.sub] at h
  have hx : a1 - b1 = 0 := by nlinarith [mul_self_nonneg (a1 - b1), mul_self_nonneg (a2 - b2), mul_self_nonneg (a3 - b3)]
  have hy : a2 - b2 = 0 := by nlinarith [mul_self_nonneg (a1 - b1), mul_self_nonneg (a2 - b2), mul_self_nonneg (a3 - b3)]
  have hz : a3 - b3 = 0 := by nlinarith [mul_self_nonneg (a1 - b1), mul_self_nonneg (a2 - b2), mul_self_nonneg (a3 - b3)]
  apply V3.ext' <;> simp only <;> linarith

theorem d2_self (a : V3 ℝ) : d2 a a = 0 := by
  simp [d2, V3.dot, V3.sub]

theorem placement_injective_core (refs defs : List (V3 ℝ)) (a b : V3 ℝ)
    (h : findCoordinates refs defs a = findCoordinates refs defs b) : a = b := by
  apply d2_eq_zero
  have := findCoordinates_rigid_core refs defs a b
  rw [h] at this
  have h0 := d2_self (findCoordinates refs defs b)
  unfold d2 at h0 ⊢
  rw [← this, h0]

theorem rotateTetrahedral_eq (a1 a2 : V3 ℝ) (angle : ℝ) (ps : List (V3 ℝ)) :
    rotateTetrahedral a1 a2 angle ps = ps.map (torsionMap a1 a2 angle) := by
  simp [rotateTetrahedral, qchichange, rotmol, torsionMap, List.map_map, Function.comp_def]

theorem rotateTetrahedral_rigid_core (a1 a2 : V3 ℝ) (h : d2 a2 a1 ≠ 0) (angle : ℝ) (ps : List (V3 ℝ)) :
    (rotateTetrahedral a1 a2 angle ps).length = ps.length ∧
    ∀ i j (hi : i < ps.length) (hj : j < ps.length),
      d2 ((rotateTetrahedral a1 a2 angle ps).getD i a1) ((rotateTetrahedral a1 a2 angle ps).getD j a1) = d2 ps[i] ps[j] ∧
      d2 ((rotateTetrahedral a1 a2 angle ps).getD i a1) a1 = d2 ps[i] a1 ∧
      d2 ((rotateTetrahedral a1 a2 angle ps).getD i a1) a2 = d2 ps[i] a2 := by
  rw [rotateTetrahedral_eq]
  refine ⟨List.length_map _, ?_⟩
  intro i j hi hj
  have gi : (ps.map (torsionMap a1 a2 angle)).getD i a1 = torsionMap a1 a2 angle ps[i] := by
    rw [List.getD_eq_getElem?_getD, List.getElem?_map, List.getElem?_eq_getElem hi]; rfl
  have gj : (ps.map (torsionMap a1 a2 angle)).getD j a1 = torsionMap a1 a2 angle ps[j] := by
    rw [List.getD_eq_getElem?_getD, List.getElem?_map, List.getElem?_eq_getElem hj]; rfl
  rw [gi, gj]
  have T := fun p q => torsionMap_rigid_core a1 a2 h angle p q
  refine ⟨(T _ _).1, ?_, ?_⟩
  · have := (T ps[i] a1).1
    rw [(T ps[i] a1).2.1] at this; exact this
  · have := (T ps[i] a2).1
    rw [(T ps[i] a2).2.2] at this; exact this

theorem chi_compose (l : V3 ℝ) (hl : V3.dot l l = 1) (x y : ℝ) (v : V3 ℝ) :
    rotPoint (chiMatrix l x) (rotPoint (chiMatrix l y) v) = rotPoint (chiMatrix l (x + y)) v := by
  obtain ⟨a, b, d⟩ := l
  obtain ⟨vx, vy, vz⟩ := v
  simp only [V3.dot] at hl
  have hr : (GNum.pi * (x + y) / GNum.dec 1800 1 : ℝ) =
      GNum.pi * x / GNum.dec 1800 1 + GNum.pi * y / GNum.dec 1800 1 := by ring
  simp only [rotPoint, chiMatrix, ofNat_eq, cos_eq, sin_eq]
  rw [hr, Real.cos_add, Real.sin_add]
  generalize (GNum.pi * x / GNum.dec 1800 1 : ℝ) = r1
  generalize (GNum.pi * y / GNum.dec 1800 1 : ℝ) = r2
  set c1 := Real.cos r1
  set s1 := Real.sin r1
  set c2 := Real.cos r2
  set s2 := Real.sin r2
  apply V3.ext'
  · simp only
    linear_combination (-s1*s2*vx + (1-c1)*(1-c2)*(a*vx+b*vy+d*vz)*a) * hl
  · simp only
    linear_combination (-s1*s2*vy + (1-c1)*(1-c2)*(a*vx+b*vy+d*vz)*b) * hl
  · simp only
    linear_combination (-s1*s2*vz + (1-c1)*(1-c2)*(a*vx+b*vy+d*vz)*d) * hl

theorem torsionMap_compose (o c : V3 ℝ) (h : d2 c o ≠ 0) (x y : ℝ) (p : V3 ℝ) :
    torsionMap o c x (torsionMap o c y p) = torsionMap o c (x + y) p := by
  have ha : V3.dot (V3.sub c o) (V3.sub c o) ≠ 0 := h
  have hu := normalize_unit_core _ ha
  unfold torsionMap
  have e : ∀ v : V3 ℝ, V3.sub (V3.add v o) o = v := by
    intro v; apply V3.ext' <;> simp [V3.sub, V3.add]
  rw [e, chi_compose _ hu]

theorem rotate_compose_core (a1 a2 : V3 ℝ) (h : d2 a2 a1 ≠ 0) (x y : ℝ) (ps : List (V3 ℝ)) :
    rotateTetrahedral a1 a2 x (rotateTetrahedral a1 a2 y ps) = rotateTetrahedral a1 a2 (x + y) ps := by
  simp only [rotateTetrahedral_eq, List.map_map]
  apply List.map_congr_left
  intro p _
  exact torsionMap_compose a1 a2 h x y p

theorem chi_id (l : V3 ℝ) (ang : ℝ) (hc : Real.cos (GNum.pi * ang / GNum.dec 1800 1 : ℝ) = 1)
    (hs : Real.sin (GNum.pi * ang / GNum.dec 1800 1 : ℝ) = 0) (v : V3 ℝ) :
    rotPoint (chiMatrix l ang) v = v := by
  simp only [rotPoint, chiMatrix, ofNat_eq, cos_eq, sin_eq, hc, hs]
  apply V3.ext' <;> simp

theorem torsionMap_id (o c : V3 ℝ) (ang : ℝ) (hc : Real.cos (GNum.pi * ang / GNum.dec 1800 1 : ℝ) = 1)
    (hs : Real.sin (GNum.pi * ang / GNum.dec 1800 1 : ℝ) = 0) (p : V3 ℝ) :
    torsionMap o c ang p = p := by
  unfold torsionMap
  rw [chi_id _ _ hc hs]
  apply V3.ext' <;> simp [V3.sub, V3.add]

theorem rotate_full_turn_core (a1 a2 : V3 ℝ) (h : d2 a2 a1 ≠ 0) (ps : List (V3 ℝ)) :
    rotateTetrahedral a1 a2 360 ps = ps ∧ rotateTetrahedral a1 a2 0 ps = ps := by
  have _ := h
  have h360 : (GNum.pi * 360 / GNum.dec 1800 1 : ℝ) = 2 * Real.pi := by
    simp only [pi_eq, dec_eq]; push_cast; ring
  have h0 : (GNum.pi * 0 / GNum.dec 1800 1 : ℝ) = 0 := by simp
  constructor
  · rw [rotateTetrahedral_eq]
    have : torsionMap a1 a2 360 = id := by
      funext p
      exact torsionMap_id a1 a2 360 (by rw [h360, Real.cos_two_pi]) (by rw [h360, Real.sin_two_pi]) p
    rw [this, List.map_id]
  · rw [rotateTetrahedral_eq]
    have : torsionMap a1 a2 0 = id := by
      funext p
      exact torsionMap_id a1 a2 0 (by rw [h0, Real.cos_zero]) (by rw [h0, Real.sin_zero]) p
    rw [this, List.map_id]

theorem makeNoBonds_unit_core (atom close : V3 ℝ) (h : d2 atom close ≠ 0) :
    d2 (makeNoBonds atom close) atom = 1 := by
  have ha : V3.dot (V3.sub atom close) (V3.sub atom close) ≠ 0 := h
  have hn := norm_ne_zero _ ha
  have hs := norm_mul_self (V3.sub atom close)
  obtain ⟨a1, a2, a3⟩ := atom
  obtain ⟨b1, b2, b3⟩ := close
  simp only [makeNoBonds, Geom.dist, d2]
  generalize V3.norm (V3.sub ⟨a1, a2, a3⟩ ⟨b1, b2, b3⟩) = n at hn hs
  simp only [V3.dot, V3.sub] at hs ⊢
  field_simp
  linear_combination (-1 : ℝ) * hs

end P2P.Proofs.Rigid
