import P2P.Proofs.RigidBase
namespace P2P.Proofs.RigidTable
/-- kernel evaluation of `baseOK` on base definitions 27 … 29 of the regenerated topology -/
theorem chunk9 : chunkOK 9 = true := by decide +kernel
end P2P.Proofs.RigidTable
