import P2P.Model.Stages
import P2P.Gen.Topology

/-!
  Kernel-checked facts about the generated topology (AA.xml, NA.xml, PATCHES.xml as of this run)
  that discharge the data hypotheses of the stage-composition theorems: the patches applied after
  heavy-atom repair add and remove hydrogens only, and none of their alternative names is a
  canonical atom name.
-/
namespace P2P.Proofs.StagesTable
open P2P P2P.Topology P2P.Atoms P2P.Stages P2P.Gen.Topology

/-- every canonical atom name: of every effective residue definition and of every patch's added atoms -/
def U : List Str := residues.flatMap (·.names) ++ patches.flatMap (fun p => p.atoms.map (·.name))

/-- the patches the run applies between `repair_heavy` and `add_hydrogens`: the disulfide patch
(`update_ss_bridges`) and the pKa states (`apply_pka_values`) -/
def latePatchNames : List Str :=
  [str "CYX", str "CYM", str "ASH", str "GLH", str "LYN", str "TYM", str "AR0",
   str "HID", str "HIE", str "HIP", str "HSD", str "HSE", str "HSP"]

def latePatches : List PatchDef := patches.filter (fun p => latePatchNames.contains p.name)

def patchFine (p : PatchDef) : Bool :=
  lateOK (.patch p) && p.altnames.all (fun kv => !U.contains kv.1)

theorem late_patches_present : latePatchNames.all (fun n => patches.any (fun p => p.name = n)) = true := by
  decide +kernel

theorem late_patches_fine : latePatches.all patchFine = true := by
  decide +kernel

def nodupB : List Str → Bool
  | [] => true
  | x :: xs => !xs.contains x && nodupB xs

theorem nodupB_iff (l : List Str) : nodupB l = true ↔ l.Nodup := by
  induction l with
  | nil => simp [nodupB]
  | cons x xs ih => simp [nodupB, ih, List.nodup_cons]

theorem residue_names_nodup : residues.all (fun r => nodupB r.names) = true := by
  decide +kernel

/-- protein residue definitions never use the phosphate names the repair stage special-cases -/
def isAminoDef (r : ResDef) : Bool := r.has (str "CA") && r.has (str "N") && r.has (str "C")

theorem amino_no_phosphate :
    (residues.filter isAminoDef).all (fun r => !r.has OP1 && !r.has OP2 && !r.has (str "O1P") && !r.has (str "O2P")) = true := by
  decide +kernel

end P2P.Proofs.StagesTable
