/-
  P2P.Proofs.FFAux — association-list dictionary library (`dset`, `dget?`, `dhas`) used by
  the force-field proofs.
-/
import P2P.Model.FF

namespace P2P.Proofs.FF
open P2P P2P.FF

variable {β : Type}

/-! ### basic shapes -/

theorem dset_eq (d : List (Str × β)) (k : Str) (v : β) :
    dset d k v = if dhas d k then d.map (fun p => if p.1 = k then (p.1, v) else p) else d ++ [(k, v)] := by
  unfold dset dhas
  split
  · apply List.map_congr_left
    intro p _
    rcases p with ⟨a, b⟩
    simp
  · rfl

@[simp] theorem dget?_nil (k : Str) : dget? ([] : List (Str × β)) k = none := rfl
@[simp] theorem dhas_nil (k : Str) : dhas ([] : List (Str × β)) k = false := rfl

theorem dget?_cons (p : Str × β) (d : List (Str × β)) (k : Str) :
    dget? (p :: d) k = if p.1 = k then some p.2 else dget? d k := by
  unfold dget?
  by_cases h : p.1 = k <;> simp [h]

theorem dhas_cons (p : Str × β) (d : List (Str × β)) (k : Str) :
    dhas (p :: d) k = (decide (p.1 = k) || dhas d k) := by
  unfold dhas; simp

theorem dhas_iff (d : List (Str × β)) (k : Str) : dhas d k = true ↔ k ∈ d.map (·.1) := by
  unfold dhas
  simp only [List.any_eq_true, List.mem_map, decide_eq_true_eq]

theorem dhas_false_iff (d : List (Str × β)) (k : Str) : dhas d k = false ↔ k ∉ d.map (·.1) := by
  rw [← dhas_iff]; simp

theorem dget?_isSome (d : List (Str × β)) (k : Str) : (dget? d k).isSome = dhas d k := by
  induction d with
  | nil => rfl
  | cons p d ih =>
    rw [dget?_cons, dhas_cons]
    by_cases h : p.1 = k <;> simp [h, ih]

theorem dget?_eq_none_iff (d : List (Str × β)) (k : Str) : dget? d k = none ↔ dhas d k = false := by
  rw [← dget?_isSome]; simp

theorem dhas_of_dget? {d : List (Str × β)} {k : Str} {v : β} (h : dget? d k = some v) : dhas d k = true := by
  rw [← dget?_isSome, h]; rfl

theorem dget?_mem {d : List (Str × β)} {k : Str} {v : β} (h : dget? d k = some v) : (k, v) ∈ d := by
  induction d with
  | nil => simp at h
  | cons p d ih =>
    rw [dget?_cons] at h
    by_cases hp : p.1 = k
    · simp [hp] at h
      rcases p with ⟨a, b⟩
      simp at hp h
      simp [hp, h]
    · simp [hp] at h
      exact List.mem_cons_of_mem _ (ih h)

theorem dget?_of_mem_nodup {d : List (Str × β)} {k : Str} {v : β}
    (hn : (d.map (·.1)).Nodup) (h : (k, v) ∈ d) : dget? d k = some v := by
  induction d with
  | nil => simp at h
  | cons p d ih =>
    rw [dget?_cons]
    simp only [List.map_cons, List.nodup_cons] at hn
    rcases List.mem_cons.1 h with h | h
    · subst h; simp
    · have : p.1 ≠ k := by
        intro e
        apply hn.1
        rw [e]
        exact List.mem_map.2 ⟨(k, v), h, rfl⟩
      simp [this, ih hn.2 h]

theorem dget?_append (d d' : List (Str × β)) (k : Str) :
    dget? (d ++ d') k = if dhas d k then dget? d k else dget? d' k := by
  induction d with
  | nil => simp
  | cons p d ih =>
    rw [List.cons_append, dget?_cons, dget?_cons, dhas_cons, ih]
    by_cases h : p.1 = k <;> simp [h]

theorem dhas_append (d d' : List (Str × β)) (k : Str) :
    dhas (d ++ d') k = (dhas d k || dhas d' k) := by
  unfold dhas; simp

/-- a key-preserving map commutes with lookup -/
theorem dget?_map {γ : Type} (d : List (Str × β)) (g : Str → β → γ) (k : Str) :
    dget? (d.map (fun p => (p.1, g p.1 p.2))) k = (dget? d k).map (g k) := by
  induction d with
  | nil => rfl
  | cons p d ih =>
    rw [List.map_cons, dget?_cons, dget?_cons, ih]
    by_cases h : p.1 = k
    · simp [h]
    · simp [h]

theorem keys_map {γ : Type} (d : List (Str × β)) (g : Str → β → γ) :
    (d.map (fun p => (p.1, g p.1 p.2))).map (·.1) = d.map (·.1) := by
  simp [List.map_map, Function.comp_def]

/-! ### `dset` -/

theorem dset_keys (d : List (Str × β)) (k : Str) (v : β) :
    (dset d k v).map (·.1) = if dhas d k then d.map (·.1) else d.map (·.1) ++ [k] := by
  rw [dset_eq]
  split
  · rw [List.map_map]
    apply List.map_congr_left
    intro p _
    simp only [Function.comp_def]
    split <;> rfl
  · simp

theorem dset_keys_nodup {d : List (Str × β)} (k : Str) (v : β) (hn : (d.map (·.1)).Nodup) :
    ((dset d k v).map (·.1)).Nodup := by
  rw [dset_keys]
  split
  · exact hn
  · rename_i h
    have : k ∉ d.map (·.1) := by rw [← dhas_iff]; simpa using h
    rw [List.nodup_append]
    refine ⟨hn, by simp, ?_⟩
    intro a ha b hb
    simp at hb
    subst hb
    intro e; subst e; exact this ha

theorem dget?_dset (d : List (Str × β)) (k : Str) (v : β) (k' : Str) :
    dget? (dset d k v) k' = if k' = k then some v else dget? d k' := by
  rw [dset_eq]
  by_cases hh : dhas d k = true
  · rw [if_pos hh]
    induction d with
    | nil => simp at hh
    | cons p d ih =>
      rw [List.map_cons, dget?_cons, dget?_cons]
      by_cases hp : p.1 = k
      · simp only [hp, if_true]
        by_cases hk : k' = k
        · simp [hk]
        · have hk2 : ¬ k = k' := fun e => hk e.symm
          simp only [hk, hk2, if_false]
          by_cases hd : dhas d k = true
          · have := ih hd
            simpa [hk] using this
          · -- no further occurrence: the map is the identity on `d`
            have hd' : ∀ q ∈ d, q.1 ≠ k := by
              intro q hq e
              apply hd
              rw [dhas_iff]; exact List.mem_map.2 ⟨q, hq, e⟩
            have : d.map (fun p => if p.1 = k then (p.1, v) else p) = d := by
              conv => rhs; rw [← List.map_id d]
              apply List.map_congr_left
              intro q hq
              simp [hd' q hq]
            rw [this]
      · have hd : dhas d k = true := by
          rw [dhas_cons] at hh
          simpa [hp] using hh
        have := ih hd
        simp only [hp, if_false]
        rw [this]
        by_cases hk : k' = k
        · have : ¬ p.1 = k' := by rw [hk]; exact hp
          simp [hk, hp]
        · simp [hk]
  · rw [if_neg hh, dget?_append]
    have hh' : dhas d k = false := by simpa using hh
    by_cases hk : k' = k
    · subst hk
      simp [hh', dget?_cons]
    · have hk2 : ¬ k = k' := fun e => hk e.symm
      by_cases hd : dhas d k' = true
      · simp [hd, hk]
      · have hd' : dhas d k' = false := by simpa using hd
        simp [hd', hk, dget?_cons, hk2]
        exact ((dget?_eq_none_iff d k').2 hd').symm

theorem mem_dset {d : List (Str × β)} {k : Str} {v : β} {p : Str × β} (h : p ∈ dset d k v) :
    p ∈ d ∨ p = (k, v) := by
  rw [dset_eq] at h
  split at h
  · rcases List.mem_map.1 h with ⟨q, hq, rfl⟩
    by_cases e : q.1 = k
    · right; simp [e]
    · left; simp [e, hq]
  · rcases List.mem_append.1 h with h | h
    · exact Or.inl h
    · right; simpa using h

theorem dhas_dset (d : List (Str × β)) (k : Str) (v : β) (k' : Str) :
    dhas (dset d k v) k' = (decide (k' = k) || dhas d k') := by
  rw [← dget?_isSome, dget?_dset, ← dget?_isSome]
  by_cases h : k' = k <;> simp [h]

/-! ### `foldl dset` (Python `dict.update`) -/

def dsetAll (as xs : List (Str × β)) : List (Str × β) :=
  xs.foldl (fun as (p : Str × β) => dset as p.1 p.2) as

theorem foldl_dset_eq (as xs : List (Str × β)) :
    xs.foldl (fun as (an, e) => dset as an e) as = dsetAll as xs := rfl

@[simp] theorem dsetAll_nil (as : List (Str × β)) : dsetAll as [] = as := rfl
@[simp] theorem dsetAll_cons (as : List (Str × β)) (p : Str × β) (xs : List (Str × β)) :
    dsetAll as (p :: xs) = dsetAll (dset as p.1 p.2) xs := rfl

theorem dsetAll_keys_nodup {as : List (Str × β)} (xs : List (Str × β)) (hn : (as.map (·.1)).Nodup) :
    ((dsetAll as xs).map (·.1)).Nodup := by
  induction xs generalizing as with
  | nil => exact hn
  | cons p xs ih => exact ih (dset_keys_nodup _ _ hn)

theorem mem_dsetAll {as xs : List (Str × β)} {p : Str × β} (h : p ∈ dsetAll as xs) : p ∈ as ∨ p ∈ xs := by
  induction xs generalizing as with
  | nil => exact Or.inl h
  | cons q xs ih =>
    rcases ih h with h | h
    · rcases mem_dset h with h | h
      · exact Or.inl h
      · right; rw [h]; simp
    · exact Or.inr (List.mem_cons_of_mem _ h)

theorem dget?_dsetAll {xs : List (Str × β)} (as : List (Str × β)) (hx : (xs.map (·.1)).Nodup) (a : Str) :
    dget? (dsetAll as xs) a = (match dget? xs a with | some v => some v | none => dget? as a) := by
  induction xs generalizing as with
  | nil => simp
  | cons p xs ih =>
    simp only [List.map_cons, List.nodup_cons] at hx
    rw [dsetAll_cons, ih _ hx.2, dget?_cons, dget?_dset]
    by_cases h : p.1 = a
    · have : dget? xs a = none := by
        rw [dget?_eq_none_iff, dhas_false_iff, ← h]; exact hx.1
      simp [h, this]
    · have h2 : ¬ a = p.1 := fun e => h e.symm
      simp [h, h2]

end P2P.Proofs.FF
