import P2P.Model.Atoms
import Mathlib.Data.List.Nodup
import Mathlib.Data.List.Perm.Basic

/-! Lemmas behind Props/C03.lean. -/
namespace P2P.Proofs.Atoms
open P2P P2P.Atoms

set_option linter.unusedVariables false

/-! ### Flip -/

theorem flipSuffix_length : flipSuffix.length = 4 := by decide

theorem isFlip_append (n : Str) : isFlip (n ++ flipSuffix) = true := by
  unfold isFlip
  simp [flipSuffix_length]

theorem baseOf_append (n : Str) : baseOf (n ++ flipSuffix) = n := by
  unfold baseOf
  simp [flipSuffix_length]

theorem eq_of_isFlip {n : Str} (h : isFlip n = true) : n = baseOf n ++ flipSuffix := by
  unfold isFlip at h
  simp only [Bool.and_eq_true, List.isSuffixOf_iff_suffix] at h
  obtain ⟨⟨t, rfl⟩, _⟩ := h
  rw [baseOf_append]

/-- the flip copies of the moved atoms -/
abbrev copies (M : List Str) : Names := M.map (fun n => n ++ flipSuffix)

theorem flipInit_eq (s : Names) (M : List Str) : flipInit s M = s ++ copies M := by
  unfold flipInit
  induction M generalizing s with
  | nil => simp
  | cons m M ih =>
    rw [List.foldl_cons, ih]
    simp [copies, create]

theorem mem_copies {M : List Str} {x : Str} : x ∈ copies M ↔ ∃ m ∈ M, x = m ++ flipSuffix := by
  simp [copies, eq_comm]

theorem copies_nodup {M : List Str} (hM : M.Nodup) : (copies M).Nodup :=
  hM.map (fun _ _ h => List.append_cancel_right h)

/-- step of the `fix_flip` loop with a flip bond atom -/
abbrev stepB : Names → Str → Names :=
  fun acc n => if isFlip n && acc.contains (baseOf n) then remove acc (baseOf n) else acc
/-- step of the `fix_flip` loop with an ordinary bond atom -/
abbrev stepF : Names → Str → Names :=
  fun acc n => if isFlip n then remove acc n else acc

theorem fixFlip_eq (s : Names) (b : Str) :
    fixFlip s b = if isFlip b then s.foldl stepB s else s.foldl stepF s := rfl

theorem foldB_spec (L : List Str) : ∀ acc : Names, acc.Nodup →
    (L.foldl stepB acc).Nodup ∧
      ∀ x, x ∈ L.foldl stepB acc ↔ x ∈ acc ∧ ∀ n ∈ L, isFlip n = true → baseOf n ≠ x := by
  induction L with
  | nil => intro acc h; simp [h]
  | cons n L ih =>
    intro acc hacc
    rw [List.foldl_cons]
    have h1 : (stepB acc n).Nodup := by
      unfold stepB remove; split
      · exact hacc.erase _
      · exact hacc
    have h2 : ∀ x, x ∈ stepB acc n ↔ x ∈ acc ∧ (isFlip n = true → baseOf n ≠ x) := by
      intro x
      unfold stepB remove
      split
      · rename_i hc
        simp only [Bool.and_eq_true] at hc
        rw [hacc.mem_erase_iff]
        constructor
        · rintro ⟨a, b⟩; exact ⟨b, fun _ e => a e.symm⟩
        · rintro ⟨a, b⟩; exact ⟨fun e => b hc.1 e.symm, a⟩
      · rename_i hc
        simp only [Bool.and_eq_true, List.contains_iff_mem, not_and] at hc
        constructor
        · intro hx; exact ⟨hx, fun hf e => hc hf (e ▸ hx)⟩
        · exact fun h => h.1
    obtain ⟨i1, i2⟩ := ih _ h1
    refine ⟨i1, fun x => ?_⟩
    rw [i2, h2]
    simp only [List.mem_cons, forall_eq_or_imp, and_assoc]

theorem foldF_spec (L : List Str) : ∀ acc : Names, acc.Nodup →
    (L.foldl stepF acc).Nodup ∧
      ∀ x, x ∈ L.foldl stepF acc ↔ x ∈ acc ∧ ¬ (isFlip x = true ∧ x ∈ L) := by
  induction L with
  | nil => intro acc h; simp [h]
  | cons n L ih =>
    intro acc hacc
    rw [List.foldl_cons]
    have h1 : (stepF acc n).Nodup := by
      unfold stepF remove; split
      · exact hacc.erase _
      · exact hacc
    have h2 : ∀ x, x ∈ stepF acc n ↔ x ∈ acc ∧ ¬ (isFlip x = true ∧ x = n) := by
      intro x
      unfold stepF remove
      split
      · rename_i hc
        rw [hacc.mem_erase_iff]
        constructor
        · rintro ⟨a, b⟩; exact ⟨b, fun e => a e.2⟩
        · rintro ⟨a, b⟩; exact ⟨fun e => b ⟨e ▸ hc, e⟩, a⟩
      · rename_i hc
        constructor
        · intro hx; exact ⟨hx, fun e => hc (e.2 ▸ e.1)⟩
        · exact fun h => h.1
    obtain ⟨i1, i2⟩ := ih _ h1
    refine ⟨i1, fun x => ?_⟩
    rw [i2, h2]
    simp only [List.mem_cons]
    tauto

theorem foldB_id (L : List Str) (acc : Names) (h : ∀ n ∈ L, isFlip n = true → baseOf n ∉ acc) :
    L.foldl stepB acc = acc := by
  induction L with
  | nil => rfl
  | cons n L ih =>
    rw [List.foldl_cons]
    have : stepB acc n = acc := by
      unfold stepB
      split
      · rename_i hc
        simp only [Bool.and_eq_true, List.contains_iff_mem] at hc
        exact absurd hc.2 (h n (List.mem_cons_self ..) hc.1)
      · rfl
    rw [this]
    exact ih (fun m hm => h m (List.mem_cons_of_mem _ hm))

theorem foldF_id (L : List Str) (acc : Names) (h : ∀ n ∈ L, isFlip n = false) :
    L.foldl stepF acc = acc := by
  induction L with
  | nil => rfl
  | cons n L ih =>
    rw [List.foldl_cons]
    have : stepF acc n = acc := by
      unfold stepF
      rw [h n (List.mem_cons_self ..)]; rfl
    rw [this]
    exact ih (fun m hm => h m (List.mem_cons_of_mem _ hm))

/-- step of the `finalize` loop -/
def finStep : Option Names → Str → Option Names := fun acc n =>
  match acc with
  | none => none
  | some a => if isFlip n then (remove? a (baseOf n)).map (fun a' => rename a' n (baseOf n)) else some a

theorem flipFinalize_false (s : Names) : flipFinalize false s = s.foldl finStep (some s) := rfl

theorem finFold_id (L : List Str) (a : Names) (h : ∀ n ∈ L, isFlip n = false) :
    L.foldl finStep (some a) = some a := by
  induction L with
  | nil => rfl
  | cons n L ih =>
    rw [List.foldl_cons]
    have : finStep (some a) n = some a := by
      simp only [finStep, h n (List.mem_cons_self ..)]; rfl
    rw [this]
    exact ih (fun m hm => h m (List.mem_cons_of_mem _ hm))

theorem finFold_copies (M2 : List Str) : ∀ P : Names, (∀ x ∈ P, isFlip x = false) → M2.Nodup →
    (∀ m ∈ M2, m ∈ P) →
    ∃ t, (copies M2).foldl finStep (some (P ++ copies M2)) = some t ∧ t.Perm P := by
  induction M2 with
  | nil => intro P _ _ _; exact ⟨P, by simp [copies], List.Perm.refl _⟩
  | cons m M2 ih =>
    intro P hP hnd hsub
    have hmP : m ∈ P := hsub m (List.mem_cons_self ..)
    have hnd' := List.nodup_cons.1 hnd
    have hstep : finStep (some (P ++ copies (m :: M2))) (m ++ flipSuffix) =
        some ((P.erase m ++ [m]) ++ copies M2) := by
      have hc : (P ++ copies (m :: M2)).contains m = true := by
        rw [List.contains_iff_mem]; exact List.mem_append_left _ hmP
      simp only [finStep, isFlip_append, baseOf_append, if_true, remove?, hc, Option.map_some,
        rename]
      rw [List.erase_append_left _ hmP]
      have e1 : (P.erase m).map (fun x => if x = m ++ flipSuffix then m else x) = P.erase m := by
        conv_rhs => rw [← List.map_id (P.erase m)]
        apply List.map_congr_left
        intro x hx
        have : x ≠ m ++ flipSuffix := by
          rintro rfl
          have := hP _ (List.mem_of_mem_erase hx)
          rw [isFlip_append] at this; cases this
        simp [this]
      have e2 : (copies M2).map (fun x => if x = m ++ flipSuffix then m else x) = copies M2 := by
        conv_rhs => rw [← List.map_id (copies M2)]
        apply List.map_congr_left
        intro x hx
        obtain ⟨m', hm', rfl⟩ := mem_copies.1 hx
        have : m' ++ flipSuffix ≠ m ++ flipSuffix := by
          intro e
          exact hnd'.1 (List.append_cancel_right e ▸ hm')
        simp [this]
      simp only [copies, List.map_cons, List.map_append, e1] at e2 ⊢
      simp [e2]
    show ∃ t, ((m ++ flipSuffix) :: copies M2).foldl finStep _ = some t ∧ _
    rw [List.foldl_cons, hstep]
    have hP' : ∀ x ∈ P.erase m ++ [m], isFlip x = false := by
      intro x hx
      rcases List.mem_append.1 hx with hx | hx
      · exact hP _ (List.mem_of_mem_erase hx)
      · rw [List.mem_singleton.1 hx]; exact hP _ hmP
    have hsub' : ∀ m' ∈ M2, m' ∈ P.erase m ++ [m] := by
      intro m' hm'
      apply List.mem_append_left
      have hne : m' ≠ m := by rintro rfl; exact hnd'.1 hm'
      exact (List.mem_erase_of_ne hne).2 (hsub m' (List.mem_cons_of_mem _ hm'))
    obtain ⟨t, ht, hperm⟩ := ih _ hP' hnd'.2 hsub'
    refine ⟨t, ht, hperm.trans ?_⟩
    exact (List.perm_append_comm.trans (List.perm_cons_erase hmP).symm)

/-- the final renaming of `complete` -/
abbrev unflip : Str → Str := fun n => if isFlip n then baseOf n else n

theorem map_unflip_id (t : Names) (h : ∀ x ∈ t, isFlip x = false) : t.map unflip = t := by
  conv_rhs => rw [← List.map_id t]
  apply List.map_congr_left
  intro x hx
  simp [unflip, h x hx]

theorem map_unflip_copies (M : List Str) : (copies M).map unflip = M := by
  unfold copies
  rw [List.map_map]
  conv_rhs => rw [← List.map_id M]
  apply List.map_congr_left
  intro x _
  simp [unflip, isFlip_append, baseOf_append]

/-- the states the optimisation loop can reach -/
inductive FInv (s : Names) (M : List Str) : Names × Bool → Prop
  | A : FInv s M (s ++ copies M, false)
  | B (t : Names) : t.Perm s → FInv s M (t, true)
  | C (t : Names) : t.Perm (s.filter (fun x => !M.contains x) ++ copies M) → FInv s M (t, true)

section
variable {s : Names} {M : List Str}

theorem FInv.step (hs : s.Nodup) (ht : NoTemp s) (hM : M.Nodup) (hsub : ∀ n ∈ M, n ∈ s)
    {st : Names × Bool} (hi : FInv s M st) (b : Str) : FInv s M (flipStep M st b) := by
  have hsf : ∀ x ∈ s, isFlip x = false := fun x hx => (ht x hx).1
  have hCf : ∀ x ∈ copies M, isFlip x = true := by
    intro x hx; obtain ⟨m, _, rfl⟩ := mem_copies.1 hx; exact isFlip_append m
  have hdisj : ∀ a ∈ s, ∀ c ∈ copies M, a ≠ c := by
    rintro a ha c hc rfl
    have := hCf _ hc
    rw [hsf _ ha] at this; cases this
  have hndA : (s ++ copies M).Nodup :=
    List.nodup_append.2 ⟨hs, copies_nodup hM, hdisj⟩
  unfold flipStep
  split
  swap
  · exact hi
  rename_i hg
  simp only [Bool.and_eq_true, Bool.or_eq_true, List.contains_iff_mem] at hg
  obtain ⟨hbm, hbM⟩ := hg
  rw [fixFlip_eq]
  cases hi with
  | A =>
    simp only
    split
    · -- flip bond atom: originals of the moved atoms go
      apply FInv.C
      obtain ⟨n1, n2⟩ := foldB_spec (s ++ copies M) (s ++ copies M) hndA
      have hnd2 : (s.filter (fun x => !M.contains x) ++ copies M).Nodup :=
        List.nodup_append.2 ⟨hs.filter _, copies_nodup hM,
          fun a ha c hc => hdisj a (List.mem_filter.1 ha).1 c hc⟩
      rw [List.perm_ext_iff_of_nodup n1 hnd2]
      intro x
      rw [n2]
      simp only [List.mem_append, List.mem_filter, Bool.not_eq_true', ← Bool.not_eq_true,
        List.contains_iff_mem]
      constructor
      · rintro ⟨hx | hx, hall⟩
        · left
          refine ⟨hx, fun hxM => ?_⟩
          exact hall (x ++ flipSuffix) (Or.inr (mem_copies.2 ⟨x, hxM, rfl⟩)) (isFlip_append x)
            (baseOf_append x)
        · exact Or.inr hx
      · rintro (⟨hx, hxM⟩ | hx)
        · refine ⟨Or.inl hx, ?_⟩
          rintro n (hn | hn) hf e
          · rw [hsf n hn] at hf; cases hf
          · obtain ⟨m, hm, rfl⟩ := mem_copies.1 hn
            rw [baseOf_append] at e
            exact hxM (e ▸ hm)
        · refine ⟨Or.inr hx, ?_⟩
          rintro n (hn | hn) hf e
          · rw [hsf n hn] at hf; cases hf
          · obtain ⟨m, hm, rfl⟩ := mem_copies.1 hn
            rw [baseOf_append] at e
            have := hsf m (hsub m hm)
            rw [e, hCf x hx] at this; cases this
    · -- ordinary bond atom: the copies go
      apply FInv.B
      obtain ⟨n1, n2⟩ := foldF_spec (s ++ copies M) (s ++ copies M) hndA
      rw [List.perm_ext_iff_of_nodup n1 hs]
      intro x
      rw [n2]
      simp only [List.mem_append]
      constructor
      · rintro ⟨hx | hx, hn⟩
        · exact hx
        · exact absurd ⟨hCf x hx, Or.inr hx⟩ hn
      · intro hx
        refine ⟨Or.inl hx, fun h => ?_⟩
        rw [hsf x hx] at h; cases h.1
  | B t hp =>
    simp only
    have htf : ∀ x ∈ t, isFlip x = false := fun x hx => hsf x (hp.mem_iff.1 hx)
    have e1 : t.foldl stepB t = t := foldB_id t t (fun n hn hf => by rw [htf n hn] at hf; cases hf)
    have e2 : t.foldl stepF t = t := foldF_id t t htf
    rw [e1, e2, ite_self]
    exact FInv.B t hp
  | C t hp =>
    simp only at hbm ⊢
    have hmem : ∀ x, x ∈ t ↔ (x ∈ s ∧ x ∉ M) ∨ x ∈ copies M := by
      intro x
      rw [hp.mem_iff]
      simp only [List.mem_append, List.mem_filter, Bool.not_eq_true', ← Bool.not_eq_true,
        List.contains_iff_mem]
    have hbf : isFlip b = true := by
      rcases (hmem b).1 hbm with ⟨hb1, hb2⟩ | hb
      · rcases hbM with h | h
        · exact absurd h hb2
        · exact h.1
      · exact hCf b hb
    rw [if_pos hbf]
    have e1 : t.foldl stepB t = t := by
      apply foldB_id
      intro n hn hf hbase
      rcases (hmem n).1 hn with ⟨hn1, _⟩ | hn
      · rw [hsf n hn1] at hf; cases hf
      · obtain ⟨m, hm, rfl⟩ := mem_copies.1 hn
        rw [baseOf_append] at hbase
        rcases (hmem m).1 hbase with ⟨_, h2⟩ | h2
        · exact h2 hm
        · have := hsf m (hsub m hm)
          rw [hCf m h2] at this; cases this
    rw [e1]
    exact FInv.C t hp

theorem FInv.fold (hs : s.Nodup) (ht : NoTemp s) (hM : M.Nodup) (hsub : ∀ n ∈ M, n ∈ s)
    (bs : List Str) : ∀ {st : Names × Bool}, FInv s M st → FInv s M (bs.foldl (flipStep M) st) := by
  induction bs with
  | nil => intro st hi; exact hi
  | cons b bs ih => intro st hi; exact ih (hi.step hs ht hM hsub b)

theorem filter_append_moved_perm (hs : s.Nodup) (hM : M.Nodup) (hsub : ∀ n ∈ M, n ∈ s) :
    (s.filter (fun x => !M.contains x) ++ M).Perm s := by
  have h1 : (s.filter (fun x => M.contains x)).Perm M := by
    rw [List.perm_ext_iff_of_nodup (hs.filter _) hM]
    intro x
    simp only [List.mem_filter, List.contains_iff_mem]
    exact ⟨fun h => h.2, fun h => ⟨hsub x h, h⟩⟩
  exact (List.perm_append_comm.trans (h1.symm.append_right _)).trans
    (List.filter_append_perm (fun x => M.contains x) s)

theorem FInv.complete (hs : s.Nodup) (ht : NoTemp s) (hM : M.Nodup) (hsub : ∀ n ∈ M, n ∈ s)
    {st : Names × Bool} (hi : FInv s M st) :
    ∃ t, flipComplete st.2 st.1 = some t ∧ t.Perm s := by
  have hsf : ∀ x ∈ s, isFlip x = false := fun x hx => (ht x hx).1
  cases hi with
  | A =>
    obtain ⟨t, h1, h2⟩ := finFold_copies M s hsf hM hsub
    refine ⟨t, ?_, h2⟩
    show (flipFinalize false (s ++ copies M)).map (fun t => t.map unflip) = some t
    rw [flipFinalize_false, List.foldl_append, finFold_id s _ hsf, h1, Option.map_some,
      map_unflip_id t (fun x hx => hsf x (h2.mem_iff.1 hx))]
  | B t hp =>
    refine ⟨t, ?_, hp⟩
    show (flipFinalize true t).map (fun t => t.map unflip) = some t
    simp only [flipFinalize, if_true, Option.map_some]
    rw [map_unflip_id t (fun x hx => hsf x (hp.mem_iff.1 hx))]
  | C t hp =>
    refine ⟨t.map unflip, ?_, ?_⟩
    · show (flipFinalize true t).map (fun t => t.map unflip) = _
      simp only [flipFinalize, if_true, Option.map_some]
    · refine (hp.map unflip).trans ?_
      rw [List.map_append, map_unflip_copies,
        map_unflip_id _ (fun x hx => hsf x (List.mem_filter.1 hx).1)]
      exact filter_append_moved_perm hs hM hsub

end

/-- **Flip**: whatever hydrogen bonds are found (any sequence of `fix_flip` calls the loop can
make), after `complete` the residue holds exactly the names it started with -/
theorem flip_clean_core (s : Names) (M : List Str) (hs : s.Nodup) (ht : NoTemp s) (hM : M.Nodup)
    (hsub : ∀ n ∈ M, n ∈ s) (bs : List Str) :
    ∃ t, flipComplete (bs.foldl (flipStep M) (flipInit s M, false)).2 (bs.foldl (flipStep M) (flipInit s M, false)).1 = some t ∧
      t.Perm s := by
  rw [flipInit_eq]
  exact (FInv.fold hs ht hM hsub bs FInv.A).complete hs ht hM hsub

/-! ### Alcoholic -/

theorem isLP_LP1 : isLP LP1 = true := by decide
theorem isLP_LP2 : isLP LP2 = true := by decide

theorem filter_notLP_of_noTemp {s : Names} (ht : NoTemp s) : s.filter (fun n => !isLP n) = s := by
  rw [List.filter_eq_self]
  intro a ha
  simp [(ht a ha).2]

/-- invariant of the Alcoholic loop -/
def AlcInv (s0 : Names) (h : Str) (st : Names) : Prop :=
  (st.filter (fun n => !isLP n) = s0 ∧ h ∉ st) ∨ st.filter (fun n => !isLP n) = s0 ++ [h]

theorem AlcInv.mem {s0 : Names} {h : Str} {st : Names} (hi : st.filter (fun n => !isLP n) = s0 ++ [h]) : h ∈ st := by
  have : h ∈ st.filter (fun n => !isLP n) := by rw [hi]; simp
  exact (List.mem_filter.1 this).1

theorem AlcInv.addLP {s0 : Names} {h : Str} {st : Names} (hh : isLP h = false) (x : Str) (hx : isLP x = true)
    (hi : AlcInv s0 h st) : AlcInv s0 h (create st x) := by
  unfold create
  have hne : h ≠ x := by rintro rfl; rw [hh] at hx; cases hx
  rcases hi with ⟨h1, h2⟩ | h1
  · left
    refine ⟨by simp [List.filter_append, h1, hx], ?_⟩
    simp [h2, hne]
  · right
    simp [List.filter_append, h1, hx]

theorem AlcInv.addH {s0 : Names} {h : Str} {st : Names} (hh : isLP h = false)
    (hi : AlcInv s0 h st) (hc : st.contains h = false) : AlcInv s0 h (create st h) := by
  unfold create
  rcases hi with ⟨h1, _⟩ | h1
  · right
    simp [List.filter_append, h1, hh]
  · exfalso
    have := AlcInv.mem h1
    simp [this] at hc

theorem AlcInv.step {s0 : Names} {h : Str} {st : Names} (hh : isLP h = false)
    (hi : AlcInv s0 h st) (op : Op) : AlcInv s0 h (alcStep h st op) := by
  cases op with
  | donor ok =>
    simp only [alcStep, alcTryDonor]
    split
    · rename_i hc
      simp only [Bool.and_eq_true, Bool.not_eq_true'] at hc
      exact hi.addH hh hc.2
    · exact hi
  | acceptor ok =>
    simp only [alcStep, tryAcceptor]
    split
    · exact hi
    · split
      · exact hi.addLP hh _ isLP_LP2
      · exact hi.addLP hh _ isLP_LP1
  | both okD okA =>
    simp only [alcStep]
    split
    · rename_i hc
      simp only [Bool.and_eq_true, Bool.not_eq_true'] at hc
      split
      · exact hi.addH hh hc.2
      · exact hi
    · exact hi

theorem AlcInv.fold {s0 : Names} {h : Str} (hh : isLP h = false) (ops : List Op) :
    ∀ {st : Names}, AlcInv s0 h st → AlcInv s0 h (ops.foldl (alcStep h) st) := by
  induction ops with
  | nil => intro st hi; exact hi
  | cons op ops ih => intro st hi; exact ih (hi.step hh op)

/-- **Alcoholic**: after any sequence of attempts and `complete`, the residue holds its
original names plus the polar hydrogen exactly once, and no lone pair -/
theorem alc_clean_core (s : Names) (h : Str) (hs : s.Nodup) (ht : NoTemp s)
    (hh : isLP h = false) (ops : List Op) (b : Nat) (hb : b = 1 ∨ b = 2 ∨ b = 3) :
    (alcComplete (ops.foldl (alcStep h) (alcInit s h)) h false b).Perm (s.erase h ++ [h]) := by
  have h0 : alcInit s h = s.erase h := by
    unfold alcInit remove
    split
    · rfl
    · rename_i hc
      rw [List.erase_of_not_mem]
      simpa using hc
  have ht0 : NoTemp (s.erase h) := fun n hn => ht n (List.mem_of_mem_erase hn)
  have hi0 : AlcInv (s.erase h) h (alcInit s h) := by
    rw [h0]
    left
    exact ⟨filter_notLP_of_noTemp ht0, fun hm => absurd rfl ((hs.mem_erase_iff).1 hm).1⟩
  have hi := AlcInv.fold hh ops hi0
  generalize ops.foldl (alcStep h) (alcInit s h) = st at hi
  unfold alcComplete alcFinalize
  have hb' : (b = 1 || b = 2 || b = 3) = true := by
    rcases hb with rfl | rfl | rfl <;> decide
  rcases hi with ⟨h1, h2⟩ | h1
  · have hc : st.contains h = false := by simpa using h2
    simp only [hc, hb', Bool.false_or, Bool.false_eq_true, if_false, if_true, create]
    simp [List.filter_append, h1, hh]
  · have hc : st.contains h = true := by simpa using AlcInv.mem h1
    simp only [hc, Bool.or_true, if_true]
    rw [h1]

/-- the hypothesis on the bond count is needed: with no (or more than three) atoms bonded to the
oxygen, `finalize` adds nothing -/
theorem alc_needs_bonds_core (s : Names) (h : Str) (hh : h ∉ s) (b : Nat) (hb : b = 0 ∨ b ≥ 4) :
    h ∉ alcComplete s h false b := by
  unfold alcComplete alcFinalize
  have hb' : (b = 1 || b = 2 || b = 3) = false := by
    rcases hb with rfl | hb
    · decide
    · simp; omega
  have hc : s.contains h = false := by simpa using hh
  simp only [hc, hb', Bool.false_or, Bool.false_eq_true, if_false]
  intro hm
  exact hh (List.mem_filter.1 hm).1

/-! ### Water -/

theorem isLP_H1 : isLP H1 = false := by decide
theorem isLP_H2 : isLP H2 = false := by decide

theorem filter_LP_of_noTemp {s : Names} (ht : NoTemp s) : s.filter isLP = [] := by
  rw [List.filter_eq_nil_iff]
  intro a ha
  simp [(ht a ha).2]

theorem filter_split_length (p q : Str → Bool) (l : Names) :
    (l.filter p).length = ((l.filter (fun n => !q n)).filter p).length + ((l.filter q).filter p).length := by
  induction l with
  | nil => rfl
  | cons a l ih =>
    by_cases hq : q a = true <;> by_cases hp : p a = true <;>
      simp [hq, hp, ih] <;> omega

def isBond (n : Str) : Bool := n = H1 || n = H2 || n = LP1 || n = LP2

structure WInv (s st hp lp : Names) : Prop where
  hp_ok : hp = [] ∨ hp = [H1] ∨ hp = [H1, H2]
  lp_ok : lp = [] ∨ lp = [LP1] ∨ lp = [LP1, LP2]
  fN : st.filter (fun n => !isLP n) = s ++ hp
  fL : st.filter isLP = lp

section
variable {s st hp lp : Names}

theorem WInv.memN (hi : WInv s st hp lp) {x : Str} (hx : isLP x = false) : x ∈ st ↔ x ∈ s ∨ x ∈ hp := by
  rw [← List.mem_append, ← hi.fN, List.mem_filter]
  simp [hx]

theorem WInv.memL (hi : WInv s st hp lp) {x : Str} (hx : isLP x = true) : x ∈ st ↔ x ∈ lp := by
  rw [← hi.fL, List.mem_filter]
  simp [hx]

theorem WInv.bonds (hi : WInv s st hp lp) (h1 : H1 ∉ s) (h2 : H2 ∉ s) (ht : NoTemp s) :
    watBonds st = hp.length + lp.length := by
  unfold watBonds
  rw [filter_split_length _ isLP, hi.fN, hi.fL, List.filter_append]
  have hs : s.filter (fun n => decide (n = H1) || decide (n = H2) || decide (n = LP1) || decide (n = LP2)) = [] := by
    rw [List.filter_eq_nil_iff]
    intro a ha
    have hl := (ht a ha).2
    have e1 : a ≠ H1 := fun e => h1 (e ▸ ha)
    have e2 : a ≠ H2 := fun e => h2 (e ▸ ha)
    have e3 : a ≠ LP1 := by rintro rfl; rw [isLP_LP1] at hl; cases hl
    have e4 : a ≠ LP2 := by rintro rfl; rw [isLP_LP2] at hl; cases hl
    simp [e1, e2, e3, e4]
  rw [hs]
  rcases hi.hp_ok with rfl | rfl | rfl <;> rcases hi.lp_ok with rfl | rfl | rfl <;> decide


theorem WInv.acceptor (hi : WInv s st hp lp) (ok : Bool) : ∃ lp', WInv s (tryAcceptor st ok) hp lp' := by
  unfold tryAcceptor
  split
  · exact ⟨lp, hi⟩
  · rename_i hc
    simp only [Bool.or_eq_true, Bool.not_eq_true', not_or, List.contains_iff_mem, hi.memL isLP_LP2] at hc
    split
    · rename_i hc1
      simp only [List.contains_iff_mem, hi.memL isLP_LP1] at hc1
      refine ⟨[LP1, LP2], hi.hp_ok, Or.inr (Or.inr rfl), ?_, ?_⟩
      · simp [create, List.filter_append, hi.fN, isLP_LP2]
      · rcases hi.lp_ok with rfl | rfl | rfl
        · simp at hc1
        · simp [create, List.filter_append, hi.fL, isLP_LP2]
        · simp at hc
    · rename_i hc1
      simp only [List.contains_iff_mem, hi.memL isLP_LP1] at hc1
      refine ⟨[LP1], hi.hp_ok, Or.inr (Or.inl rfl), ?_, ?_⟩
      · simp [create, List.filter_append, hi.fN, isLP_LP1]
      · rcases hi.lp_ok with rfl | rfl | rfl
        · simp [create, List.filter_append, hi.fL, isLP_LP1]
        · simp at hc1
        · simp at hc1

theorem WInv.memH2 (hi : WInv s st hp lp) (h2 : H2 ∉ s) : H2 ∈ st ↔ hp = [H1, H2] := by
  rw [hi.memN isLP_H2]
  rcases hi.hp_ok with rfl | rfl | rfl <;> simp [h2]; decide

theorem WInv.memH1 (hi : WInv s st hp lp) (h1 : H1 ∉ s) : H1 ∈ st ↔ hp ≠ [] := by
  rw [hi.memN isLP_H1]
  rcases hi.hp_ok with rfl | rfl | rfl <;> simp [h1]

theorem WInv.addH1 (hi : WInv s st [] lp) : WInv s (create st H1) [H1] lp :=
  ⟨Or.inr (Or.inl rfl), hi.lp_ok, by simp [create, List.filter_append, hi.fN, isLP_H1],
    by simp [create, List.filter_append, hi.fL, isLP_H1]⟩

theorem WInv.addH2 (hi : WInv s st [H1] lp) : WInv s (create st H2) [H1, H2] lp :=
  ⟨Or.inr (Or.inr rfl), hi.lp_ok, by simp [create, List.filter_append, hi.fN, isLP_H2],
    by simp [create, List.filter_append, hi.fL, isLP_H2]⟩

theorem WInv.donor (hi : WInv s st hp lp) (h1 : H1 ∉ s) (h2 : H2 ∉ s) (ok : Bool) :
    ∃ hp', WInv s (watTryDonor st ok) hp' lp := by
  unfold watTryDonor
  split
  · exact ⟨hp, hi⟩
  · rename_i hc
    simp only [Bool.or_eq_true, Bool.not_eq_true', not_or, List.contains_iff_mem, hi.memH2 h2] at hc
    split
    · rename_i hc1
      simp only [List.contains_iff_mem, hi.memH1 h1] at hc1
      rcases hi.hp_ok with rfl | rfl | rfl
      · exact absurd rfl hc1
      · exact ⟨_, hi.addH2⟩
      · exact absurd rfl hc.2
    · rename_i hc1
      simp only [List.contains_iff_mem, hi.memH1 h1, ne_eq, not_not] at hc1
      subst hc1
      exact ⟨_, hi.addH1⟩

theorem WInv.step (hi : WInv s st hp lp) (h1 : H1 ∉ s) (h2 : H2 ∉ s) (op : Op) :
    ∃ hp' lp', WInv s (watStep st op) hp' lp' := by
  cases op with
  | donor ok =>
    obtain ⟨hp', h⟩ := hi.donor h1 h2 ok
    exact ⟨hp', lp, h⟩
  | acceptor ok =>
    obtain ⟨lp', h⟩ := hi.acceptor ok
    exact ⟨hp, lp', h⟩
  | both okD okA =>
    simp only [watStep]
    split
    · split
      · obtain ⟨hp', h⟩ := hi.donor h1 h2 true
        exact ⟨hp', lp, h⟩
      · exact ⟨hp, lp, hi⟩
    · exact ⟨hp, lp, hi⟩

theorem WInv.fold (h1 : H1 ∉ s) (h2 : H2 ∉ s) (ops : List Op) :
    ∀ {st hp lp : Names}, WInv s st hp lp → ∃ hp' lp', WInv s (ops.foldl watStep st) hp' lp' := by
  induction ops with
  | nil => intro st hp lp hi; exact ⟨hp, lp, hi⟩
  | cons op ops ih =>
    intro st hp lp hi
    obtain ⟨hp', lp', h⟩ := hi.step h1 h2 op
    exact ih h

/-- `finalize` from a state that already has H1 (and not H2) -/
theorem WInv.fin1 (hi : WInv s st [H1] lp) (h1 : H1 ∉ s) (h2 : H2 ∉ s) (ht : NoTemp s) (fuel : Nat) :
    (watFinalize (fuel + 1) st false).1 = create st H2 := by
  have hb := hi.bonds h1 h2 ht
  have c2 : st.contains H2 = false := by
    rw [← Bool.not_eq_true, List.contains_iff_mem, hi.memH2 h2]; decide
  have c1 : st.contains H1 = true := by
    rw [List.contains_iff_mem, hi.memH1 h1]; decide
  have hne : H2 ≠ H1 := by decide
  unfold watFinalize
  simp only [c2, c1, Bool.or_self, Bool.false_eq_true, if_false, if_true, hne, hb]
  rcases hi.lp_ok with rfl | rfl | rfl <;> simp

theorem WInv.fin0 (hi : WInv s st [] lp) (h1 : H1 ∉ s) (h2 : H2 ∉ s) (ht : NoTemp s) (fuel : Nat) :
    (watFinalize (fuel + 2) st false).1 = create (create st H1) H2 := by
  have hb := hi.bonds h1 h2 ht
  have c2 : st.contains H2 = false := by
    rw [← Bool.not_eq_true, List.contains_iff_mem, hi.memH2 h2]; decide
  have c1 : st.contains H1 = false := by
    rw [← Bool.not_eq_true, List.contains_iff_mem, hi.memH1 h1]; simp
  have hnext := hi.addH1.fin1 h1 h2 ht fuel
  rw [watFinalize]
  simp only [c2, c1, Bool.or_self, Bool.false_eq_true, if_false, if_true, hb]
  rcases hi.lp_ok with rfl | rfl | rfl <;> simp [hnext]

end

/-- **Water**: after any sequence of attempts and `complete`, the water holds its original
names plus H1 and H2, each once, and no lone pair -/
theorem wat_clean_core (s : Names) (hs : s.Nodup) (ht : NoTemp s) (h1 : H1 ∉ s) (h2 : H2 ∉ s)
    (ops : List Op) :
    (watComplete (ops.foldl watStep s) false).Perm (s ++ [H1, H2]) := by
  have hi0 : WInv s s [] [] :=
    ⟨Or.inl rfl, Or.inl rfl, by simp [filter_notLP_of_noTemp ht], filter_LP_of_noTemp ht⟩
  obtain ⟨hp, lp, hi⟩ := WInv.fold h1 h2 ops hi0
  generalize ops.foldl watStep s = st at hi
  unfold watComplete
  rcases hi.hp_ok with rfl | rfl | rfl
  · rw [hi.fin0 h1 h2 ht 1]
    simp [create, List.filter_append, hi.fN, isLP_H1, isLP_H2]
  · rw [hi.fin1 h1 h2 ht 2]
    simp [create, List.filter_append, hi.fN, isLP_H2]
  · have c2 : st.contains H2 = true := by
      rw [List.contains_iff_mem, hi.memH2 h2]
    rw [watFinalize]
    simp only [c2, Bool.or_true, if_true, hi.fN]
    exact List.Perm.refl _

/-! ### cleanup -/

/-- **cleanup** removes the first proton exactly when both are present -/
theorem cleanup_spec_core (s : Names) (first second : Str) (hs : s.Nodup) (hne : first ≠ second) :
    ¬ (first ∈ cleanup s first second ∧ second ∈ cleanup s first second) ∧
    (∀ n, n ≠ first → (n ∈ cleanup s first second ↔ n ∈ s)) ∧ (cleanup s first second).Nodup := by
  unfold cleanup remove
  by_cases h : (s.contains first && s.contains second) = true
  · rw [if_pos h]
    refine ⟨?_, ?_, hs.erase _⟩
    · rintro ⟨h1, _⟩
      exact absurd rfl ((hs.mem_erase_iff).1 h1).1
    · intro n hn
      rw [hs.mem_erase_iff]
      exact ⟨fun h => h.2, fun h => ⟨hn, h⟩⟩
  · rw [if_neg h]
    refine ⟨?_, fun _ _ => Iff.rfl, hs⟩
    rintro ⟨h1, h2⟩
    apply h
    simp [h1, h2]

/-! ### histidine naming -/

theorem dropIf_spec (s : Names) (n : Str) (hs : s.Nodup) :
    n ∉ dropIf s n ∧ (∀ m, m ≠ n → (m ∈ dropIf s n ↔ m ∈ s)) ∧ (dropIf s n).Nodup := by
  unfold dropIf remove
  by_cases h : s.contains n = true
  · rw [if_pos h]
    refine ⟨fun hm => absurd rfl ((hs.mem_erase_iff).1 hm).1, ?_, hs.erase _⟩
    intro m hm
    rw [hs.mem_erase_iff]
    exact ⟨fun h => h.2, fun h => ⟨hm, h⟩⟩
  · rw [if_neg h]
    refine ⟨fun hm => h (List.contains_iff_mem.2 hm), fun _ _ => Iff.rfl, hs⟩

/-- a neutral histidine that carries both ring protons ends with exactly one of them, everything
else untouched, and is named after the one it keeps; a doubly protonated one keeps both -/
theorem his_state_clean_core (hip nd1D nd1A ne2D ne2A : Bool) (s : Names) (hs : s.Nodup)
    (h1 : str "HD1" ∈ s) (h2 : str "HE2" ∈ s) :
    (hisSetState hip nd1D nd1A ne2D ne2A s).Nodup ∧
    (∀ m, m ≠ str "HD1" → m ≠ str "HE2" → (m ∈ hisSetState hip nd1D nd1A ne2D ne2A s ↔ m ∈ s)) ∧
    (hip = true → hisSetState hip nd1D nd1A ne2D ne2A s = s ∧ hisName (hisSetState hip nd1D nd1A ne2D ne2A s) = some (str "HIP")) ∧
    (hip = false →
      ((str "HD1" ∈ hisSetState hip nd1D nd1A ne2D ne2A s ∧ str "HE2" ∉ hisSetState hip nd1D nd1A ne2D ne2A s ∧
          hisName (hisSetState hip nd1D nd1A ne2D ne2A s) = some (str "HID")) ∨
       (str "HE2" ∈ hisSetState hip nd1D nd1A ne2D ne2A s ∧ str "HD1" ∉ hisSetState hip nd1D nd1A ne2D ne2A s ∧
          hisName (hisSetState hip nd1D nd1A ne2D ne2A s) = some (str "HIE")))) := by
  have hne : str "HD1" ≠ str "HE2" := by decide
  have dropE := dropIf_spec s (str "HE2") hs
  have dropD := dropIf_spec s (str "HD1") hs
  have keepD : str "HD1" ∈ dropIf s (str "HE2") := (dropE.2.1 _ hne).2 h1
  have keepE : str "HE2" ∈ dropIf s (str "HD1") := (dropD.2.1 _ hne.symm).2 h2
  have nameD : hisName (dropIf s (str "HE2")) = some (str "HID") := by
    simp [hisName, keepD, dropE.1]
  have nameE : hisName (dropIf s (str "HD1")) = some (str "HIE") := by
    simp [hisName, keepE, dropD.1]
  cases hip
  · -- neutral
    have hdef : hisSetState false nd1D nd1A ne2D ne2A s =
        (if (nd1D && !nd1A) = true then dropIf s (str "HE2")
         else if ((ne2D && !ne2A) || (nd1A && !nd1D)) = true then dropIf s (str "HD1")
         else dropIf s (str "HE2")) := by
      simp [hisSetState]
    rw [hdef]
    by_cases c1 : (nd1D && !nd1A) = true
    · rw [if_pos c1]
      exact ⟨dropE.2.2, fun m _ hm => dropE.2.1 m hm, fun h => absurd h (by decide),
        fun _ => Or.inl ⟨keepD, dropE.1, nameD⟩⟩
    · rw [if_neg c1]
      by_cases c2 : ((ne2D && !ne2A) || (nd1A && !nd1D)) = true
      · rw [if_pos c2]
        exact ⟨dropD.2.2, fun m hm _ => dropD.2.1 m hm, fun h => absurd h (by decide),
          fun _ => Or.inr ⟨keepE, dropD.1, nameE⟩⟩
      · rw [if_neg c2]
        exact ⟨dropE.2.2, fun m _ hm => dropE.2.1 m hm, fun h => absurd h (by decide),
          fun _ => Or.inl ⟨keepD, dropE.1, nameD⟩⟩
  · have hdef : hisSetState true nd1D nd1A ne2D ne2A s = s := by simp [hisSetState]
    rw [hdef]
    refine ⟨hs, fun _ _ _ => Iff.rfl, fun _ => ⟨rfl, ?_⟩, fun h => absurd h (by decide)⟩
    simp [hisName, h1, h2]

/-! ### repair and hydrogen addition -/

theorem isExtra_false_of_mem_ref {refNames : List Str} (s : Names) {n : Str} (hr : n ∈ refNames) :
    isExtra refNames s n = false := by
  have : refNames.contains n = true := List.contains_iff_mem.2 hr
  unfold isExtra
  rw [this]; simp

theorem repair_complete_core (refNames : List Str) (s : Names) (n : Str) (hn : n ∈ refNames)
    (hh : isH n = false) (hp : isPseudo n = false) (h1 : ¬ (n = str "O1P" ∧ OP1 ∈ s)) (h2 : ¬ (n = str "O2P" ∧ OP2 ∈ s)) :
    n ∈ (repairHeavy refNames s).1 := by
  unfold repairHeavy
  simp only
  rw [List.mem_append]
  by_cases hs : n ∈ s
  · left
    rw [List.mem_filter]
    exact ⟨hs, by rw [isExtra_false_of_mem_ref s hn]; rfl⟩
  · right
    unfold missingHeavy
    rw [List.mem_filter]
    refine ⟨hn, ?_⟩
    have c : s.contains n = false := by
      rw [← Bool.not_eq_true, List.contains_iff_mem]; exact hs
    have e1 : (decide (n = str "O1P") && s.contains OP1) = false := by
      rw [← Bool.not_eq_true, Bool.and_eq_true, decide_eq_true_eq, List.contains_iff_mem]; exact h1
    have e2 : (decide (n = str "O2P") && s.contains OP2) = false := by
      rw [← Bool.not_eq_true, Bool.and_eq_true, decide_eq_true_eq, List.contains_iff_mem]; exact h2
    rw [hh, hp, e1, e2, c]; rfl

theorem repair_reports_core (refNames : List Str) (s : Names) (n : Str) (hn : n ∈ s) :
    n ∈ (repairHeavy refNames s).1 ∨ n ∈ (repairHeavy refNames s).2 := by
  unfold repairHeavy
  simp only
  cases he : isExtra refNames s n
  · left
    exact List.mem_append_left _ (List.mem_filter.2 ⟨hn, by rw [he]; rfl⟩)
  · right
    exact List.mem_filter.2 ⟨hn, he⟩

theorem repair_keeps_known_core (refNames : List Str) (s : Names) (n : Str) (hn : n ∈ s) (hr : n ∈ refNames) :
    n ∈ (repairHeavy refNames s).1 ∧ n ∉ (repairHeavy refNames s).2 := by
  unfold repairHeavy
  simp only
  have he := isExtra_false_of_mem_ref s hr
  refine ⟨List.mem_append_left _ (List.mem_filter.2 ⟨hn, by rw [he]; rfl⟩), fun h => ?_⟩
  have := (List.mem_filter.1 h).2
  rw [he] at this; cases this

theorem repair_nodup_core (refNames : List Str) (s : Names) (hs : s.Nodup) (hr : refNames.Nodup) :
    (repairHeavy refNames s).1.Nodup := by
  unfold repairHeavy
  simp only
  refine List.nodup_append.2 ⟨hs.filter _, hr.filter _, ?_⟩
  rintro a ha b hb rfl
  have h1 : a ∈ s := (List.mem_filter.1 ha).1
  have h2 := (List.mem_filter.1 hb).2
  simp only [Bool.and_eq_true, Bool.not_eq_true'] at h2
  have h3 : s.contains a = true := List.contains_iff_mem.2 h1
  rw [h3] at h2
  cases h2.2

/-- step of the `add_hydrogens` loop -/
abbrev hStep (skip ok : Str → Bool) : Names → Str → Names :=
  fun acc n => if isH n && !acc.contains n && !skip n && ok n then create acc n else acc

theorem addHydrogens_eq (refNames : List Str) (skip ok : Str → Bool) (s : Names) :
    addHydrogens refNames skip ok s = refNames.foldl (hStep skip ok) s := rfl

theorem hStep_mono (skip ok : Str → Bool) (acc : Names) (n : Str) :
    ∀ m ∈ acc, m ∈ hStep skip ok acc n := by
  intro m hm
  unfold hStep create
  split
  · exact List.mem_append_left _ hm
  · exact hm

theorem hFold_mono (skip ok : Str → Bool) (L : List Str) :
    ∀ acc : Names, ∀ m ∈ acc, m ∈ L.foldl (hStep skip ok) acc := by
  induction L with
  | nil => intro acc m hm; exact hm
  | cons n L ih =>
    intro acc m hm
    rw [List.foldl_cons]
    exact ih _ m (hStep_mono skip ok acc n m hm)

theorem hFold_complete (skip ok : Str → Bool) (hok : ∀ n, ok n = true) (L : List Str) :
    ∀ acc : Names, ∀ n ∈ L, isH n = true → skip n = false → n ∈ L.foldl (hStep skip ok) acc := by
  induction L with
  | nil => intro acc n hn; cases hn
  | cons a L ih =>
    intro acc n hn hh hs
    rw [List.foldl_cons]
    rcases List.mem_cons.1 hn with rfl | hn
    · apply hFold_mono
      unfold hStep create
      by_cases hc : n ∈ acc
      · split
        · exact List.mem_append_left _ hc
        · exact hc
      · have c : acc.contains n = false := by
          rw [← Bool.not_eq_true, List.contains_iff_mem]; exact hc
        simp [hh, hs, hok n, hc]
    · exact ih _ n hn hh hs

theorem hFold_origin (skip ok : Str → Bool) (L : List Str) :
    ∀ acc : Names, ∀ n ∈ L.foldl (hStep skip ok) acc,
      n ∈ acc ∨ (n ∈ L ∧ isH n = true ∧ skip n = false) := by
  induction L with
  | nil => intro acc n hn; exact Or.inl hn
  | cons a L ih =>
    intro acc n hn
    rw [List.foldl_cons] at hn
    rcases ih _ n hn with h | ⟨h1, h2, h3⟩
    · unfold hStep create at h
      split at h
      · rename_i hc
        simp only [Bool.and_eq_true, Bool.not_eq_true'] at hc
        rcases List.mem_append.1 h with h | h
        · exact Or.inl h
        · rw [List.mem_singleton] at h
          subst h
          exact Or.inr ⟨List.mem_cons_self .., hc.1.1.1, hc.1.2⟩
      · exact Or.inl h
    · exact Or.inr ⟨List.mem_cons_of_mem _ h1, h2, h3⟩

theorem hFold_nodup (skip ok : Str → Bool) (L : List Str) :
    ∀ acc : Names, acc.Nodup → (L.foldl (hStep skip ok) acc).Nodup := by
  induction L with
  | nil => intro acc h; exact h
  | cons a L ih =>
    intro acc hacc
    rw [List.foldl_cons]
    apply ih
    unfold hStep create
    split
    · rename_i hc
      simp only [Bool.and_eq_true, Bool.not_eq_true'] at hc
      have hna : a ∉ acc := by
        intro h
        have := List.contains_iff_mem.2 h
        rw [hc.1.1.2] at this; cases this
      refine List.nodup_append.2 ⟨hacc, List.nodup_singleton _, ?_⟩
      intro x hx y hy e
      rw [List.mem_singleton] at hy
      subst hy; subst e
      exact hna hx
    · exact hacc

theorem hydrogens_complete_core (refNames : List Str) (skip ok : Str → Bool) (s : Names)
    (hok : ∀ n, ok n = true) (n : Str) (hn : n ∈ refNames) (hh : isH n = true) (hs : skip n = false) :
    n ∈ addHydrogens refNames skip ok s := by
  rw [addHydrogens_eq]
  exact hFold_complete skip ok hok refNames s n hn hh hs

theorem hydrogens_only_adds_core (refNames : List Str) (skip ok : Str → Bool) (s : Names) :
    (∀ n ∈ s, n ∈ addHydrogens refNames skip ok s) ∧
    (∀ n ∈ addHydrogens refNames skip ok s, n ∈ s ∨ (n ∈ refNames ∧ isH n = true ∧ skip n = false)) := by
  rw [addHydrogens_eq]
  exact ⟨hFold_mono skip ok refNames s, hFold_origin skip ok refNames s⟩

theorem hydrogens_nodup_core (refNames : List Str) (skip ok : Str → Bool) (s : Names) (hs : s.Nodup) :
    (addHydrogens refNames skip ok s).Nodup := by
  rw [addHydrogens_eq]
  exact hFold_nodup skip ok refNames s hs

end P2P.Proofs.Atoms
