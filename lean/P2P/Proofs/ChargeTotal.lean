import P2P.Proofs.ChargeTableAll
import P2P.Proofs.ChargeLemmas
import Mathlib.Tactic.FieldSimp

/-!
  From the charge table to whole structures: the exact total of any sequence of fully parameterised
  amino-acid states is an integral multiple of the unit — the sum of the states' formal charges —
  and therefore passes the total-charge guard, for every tolerance.
-/
namespace P2P.Proofs.ChargeTable
open P2P P2P.ChargeTable P2P.Topology

/-- exact charge of one residue state under a force field (`none`: not fully parameterised) -/
def resCharge (ff : List (Str × List (Str × Int))) (r : ResDef) : Option Int :=
  match ff.lookup r.name with
  | none => none
  | some entries => cellSum entries (atomsFor r)

/-- exact total of a structure given as the list of its residues' states -/
def structureTotal (ff : List (Str × List (Str × Int))) (rs : List ResDef) : Option Int :=
  rs.foldl (fun acc r => match acc, resCharge ff r with
    | some s, some q => some (s + q)
    | _, _ => none) (some 0)

theorem resCharge_of_cell (ff : List (Str × List (Str × Int))) (r : ResDef)
    (hc : cellCovered ff r = true) (hok : cellOK unit ff r = true) :
    resCharge ff r = some (unit * formalOfName r.name) := by
  unfold cellCovered at hc
  unfold cellOK at hok
  unfold resCharge
  cases h : ff.lookup r.name with
  | none => rw [h] at hc; cases hc
  | some entries =>
    rw [h] at hc hok
    simp only at hc hok ⊢
    cases h2 : cellSum entries (atomsFor r) with
    | none => rw [h2] at hc; cases hc
    | some q =>
      rw [h2] at hok
      simp only [decide_eq_true_eq] at hok
      rw [hok]

theorem structureTotal_fold (ff : List (Str × List (Str × Int))) (rs : List ResDef)
    (h : ∀ r ∈ rs, resCharge ff r = some (unit * formalOfName r.name)) (acc : Int) :
    rs.foldl (fun acc r => match acc, resCharge ff r with
      | some s, some q => some (s + q)
      | _, _ => none) (some acc) = some (acc + unit * (rs.map (fun r => formalOfName r.name)).sum) := by
  induction rs generalizing acc with
  | nil => simp
  | cons r rs ih =>
    rw [List.foldl_cons, h r (List.mem_cons_self)]
    simp only
    rw [ih (fun x hx => h x (List.mem_cons_of_mem _ hx))]
    simp only [List.map_cons, List.sum_cons]
    congr 1
    ring

theorem structure_total_integral_core :
    ∀ ff ∈ P2P.Gen.FFCharges.all, ∀ rs : List ResDef,
      (∀ r ∈ rs, r ∈ aminoDefs ∧ excluded.contains r.name = false ∧
        knownNonIntegral.contains (ff.1, r.name) = false ∧ cellCovered ff.2 r = true) →
      structureTotal ff.2 rs = some (unit * (rs.map (fun r => formalOfName r.name)).sum) := by
  intro ff hff rs h
  have hcell : ∀ r ∈ rs, resCharge ff.2 r = some (unit * formalOfName r.name) := by
    intro r hr
    obtain ⟨h1, h2, h3, h4⟩ := h r hr
    have ht := tableOK_all ff hff
    rw [tableOK, List.all_eq_true] at ht
    have := ht r h1
    rw [Bool.or_eq_true, Bool.or_eq_true, h2, h3] at this
    rcases this with (hx | hx) | hx
    · exact absurd hx (by decide)
    · exact absurd hx (by decide)
    · exact resCharge_of_cell ff.2 r h4 hx
  have := structureTotal_fold ff.2 rs hcell 0
  simpa [structureTotal] using this

theorem unit_pos : (0 : Int) < unit := by
  unfold unit
  positivity

/-- such a total, expressed in e, passes the guard whatever the tolerance -/
theorem integral_total_passes_guard_core (n : Int) (tol : ℚ) :
    P2P.ChargeGuard.nonInteger (((unit * n : Int) : ℚ) / (unit : ℚ)) tol = false := by
  rw [P2P.Proofs.ChargeGuard.nonInteger_spec_core]
  refine ⟨n, ?_⟩
  have hu : (unit : ℚ) ≠ 0 := by
    have := unit_pos
    exact_mod_cast this.ne'
  have : ((unit * n : Int) : ℚ) / (unit : ℚ) = (n : ℚ) := by
    push_cast
    field_simp
  rw [this, sub_self, abs_zero]
  exact abs_nonneg tol

end P2P.Proofs.ChargeTable
