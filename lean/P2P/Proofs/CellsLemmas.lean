import P2P.Model.Cells
import Mathlib.Data.Rat.Floor
import Mathlib.Algebra.Order.Floor.Defs
import Mathlib.Algebra.Order.Floor.Ring
import Mathlib.Tactic.Linarith
import Mathlib.Tactic.Ring
import Mathlib.Tactic.NormNum
import Mathlib.Tactic.Push
import Mathlib.Algebra.Order.Ring.Abs

namespace P2P.Proofs.Cells
open P2P.Cells

/-- Python `int(x)` for a rational: truncation toward zero -/
def truncQ (x : ℚ) : Int := if x < 0 then ⌈x⌉ else ⌊x⌋

/-- the second key is the first one shifted by `-s`, `0` or `s` in every coordinate -/
def Adjacent (s : Int) (ka kb : Key) : Prop :=
  (kb.1 - ka.1 = -s ∨ kb.1 - ka.1 = 0 ∨ kb.1 - ka.1 = s) ∧
  (kb.2.1 - ka.2.1 = -s ∨ kb.2.1 - ka.2.1 = 0 ∨ kb.2.1 - ka.2.1 = s) ∧
  (kb.2.2 - ka.2.2 = -s ∨ kb.2.2 - ka.2.2 = 0 ∨ kb.2.2 - ka.2.2 = s)

/-- bookkeeping invariant: cell keys are distinct dictionary keys, and an atom whose `cell`
attribute is set sits in exactly that cell, which is the cell of its current coordinates -/
def Inv (st : State) : Prop :=
  (st.cellmap.map (·.1)).Nodup ∧
  (∀ a k, cellOf st a = some k → k = keyOf st.size (posOf st a) ∧ ∃ v, (k, v) ∈ st.cellmap ∧ a ∈ v)

/-- protocol-obeying operations -/
inductive Op where
  | place (a : Id) (p : TPos)     -- an unregistered atom is given coordinates and added
  | remove (a : Id)
  | move (a : Id) (p : TPos)      -- remove_cell; set coordinates; add_cell
deriving Repr

def applyOp (st : State) : Op → State
  | .place a p => if cellOf st a = none then addCell (setPos st a p) a else st
  | .remove a => (removeCell st a).getD st
  | .move a p => match removeCell st a with
    | some st' => addCell (setPos st' a p) a
    | none => st

/-! ### key arithmetic -/

theorem cellCoord_false (s : Int) (hs : 0 < s) (t : Int) :
    cellCoord s false t = t / s * s := by
  simp [cellCoord, fdiv, Int.fdiv_eq_ediv_of_nonneg _ hs.le]

theorem cellCoord_true (s : Int) (hs : 0 < s) (t : Int) :
    cellCoord s true t = (t - 1) / s * s := by
  simp [cellCoord, fdiv, Int.fdiv_eq_ediv_of_nonneg _ hs.le]

theorem coord_facts (s : Int) (hs : 0 < s) (x : ℚ) :
    (∃ m : Int, cellCoord s (decide (x < 0)) (truncQ x) = m * s) ∧
    ((cellCoord s (decide (x < 0)) (truncQ x) : Int) : ℚ) ≤ x ∧
    x ≤ ((cellCoord s (decide (x < 0)) (truncQ x) : Int) : ℚ) + s ∧
    (0 ≤ x → x < ((cellCoord s (decide (x < 0)) (truncQ x) : Int) : ℚ) + s) ∧
    (x < 0 → ((cellCoord s (decide (x < 0)) (truncQ x) : Int) : ℚ) < x) := by
  by_cases hx : x < 0
  · have hk : cellCoord s (decide (x < 0)) (truncQ x) = (⌈x⌉ - 1) / s * s := by
      simp only [hx, decide_true, truncQ, if_true]
      exact cellCoord_true s hs _
    rw [hk]
    have h1 : (⌈x⌉ - 1) / s * s ≤ ⌈x⌉ - 1 := Int.ediv_mul_le _ hs.ne'
    have h2 : ⌈x⌉ - 1 < ((⌈x⌉ - 1) / s + 1) * s := Int.lt_ediv_add_one_mul_self _ hs
    have h3 : (⌈x⌉ - 1) / s * s < ⌈x⌉ := by omega
    have h4 : (((⌈x⌉ - 1) / s * s : Int) : ℚ) < x := Int.lt_ceil.mp h3
    have h5 : x ≤ (⌈x⌉ : ℚ) := Int.le_ceil x
    have h6 : ⌈x⌉ ≤ (⌈x⌉ - 1) / s * s + s := by
      have : ((⌈x⌉ - 1) / s + 1) * s = (⌈x⌉ - 1) / s * s + s := by ring
      omega
    have h7 : (⌈x⌉ : ℚ) ≤ (((⌈x⌉ - 1) / s * s : Int) : ℚ) + s := by exact_mod_cast h6
    refine ⟨⟨_, rfl⟩, h4.le, by linarith, fun h => absurd hx (not_lt.mpr h), fun _ => h4⟩
  · have hx' : 0 ≤ x := not_lt.mp hx
    have hk : cellCoord s (decide (x < 0)) (truncQ x) = ⌊x⌋ / s * s := by
      simp only [hx, decide_false, truncQ, if_false]
      exact cellCoord_false s hs _
    rw [hk]
    have h1 : ⌊x⌋ / s * s ≤ ⌊x⌋ := Int.ediv_mul_le _ hs.ne'
    have h2 : ⌊x⌋ < (⌊x⌋ / s + 1) * s := Int.lt_ediv_add_one_mul_self _ hs
    have h3 : ⌊x⌋ + 1 ≤ ⌊x⌋ / s * s + s := by
      have : (⌊x⌋ / s + 1) * s = ⌊x⌋ / s * s + s := by ring
      omega
    have h4 : (⌊x⌋ : ℚ) ≤ x := Int.floor_le x
    have h5 : x < (⌊x⌋ : ℚ) + 1 := Int.lt_floor_add_one x
    have h1' : ((⌊x⌋ / s * s : Int) : ℚ) ≤ (⌊x⌋ : ℚ) := by exact_mod_cast h1
    have h3' : (⌊x⌋ : ℚ) + 1 ≤ ((⌊x⌋ / s * s : Int) : ℚ) + s := by exact_mod_cast h3
    refine ⟨⟨_, rfl⟩, by linarith, by linarith, fun _ => by linarith, fun h => absurd h hx⟩

theorem key_interval_core (s : Int) (hs : 0 < s) (x : ℚ) :
    let k := cellCoord s (decide (x < 0)) (truncQ x)
    (∃ m : Int, k = m * s) ∧
    ((0 ≤ x → (k : ℚ) ≤ x ∧ x < k + s) ∧ (x < 0 → (k : ℚ) < x ∧ x ≤ k + s)) := by
  intro k
  obtain ⟨hm, h1, h2, h3, h4⟩ := coord_facts s hs x
  exact ⟨hm, fun h => ⟨h1, h3 h⟩, fun h => ⟨h4 h, h2⟩⟩

theorem close_implies_adjacent_core (s : Int) (hs : 0 < s) (x y : ℚ) (h : |x - y| < s) :
    let kx := cellCoord s (decide (x < 0)) (truncQ x)
    let ky := cellCoord s (decide (y < 0)) (truncQ y)
    ky - kx = -s ∨ ky - kx = 0 ∨ ky - kx = s := by
  intro kx ky
  obtain ⟨⟨m, hm⟩, hx1, hx2, hx3, hx4⟩ := coord_facts s hs x
  obtain ⟨⟨n, hn⟩, hy1, hy2, hy3, hy4⟩ := coord_facts s hs y
  have hkx : kx = m * s := hm
  have hky : ky = n * s := hn
  change ((kx : Int) : ℚ) ≤ x at hx1
  change x ≤ ((kx : Int) : ℚ) + s at hx2
  change ((ky : Int) : ℚ) ≤ y at hy1
  change y ≤ ((ky : Int) : ℚ) + s at hy2
  obtain ⟨ha, hb⟩ := abs_lt.mp h
  have hA : ((ky : Int) : ℚ) < kx + 2 * s := by linarith
  have hB : ((kx : Int) : ℚ) < ky + 2 * s := by linarith
  have hA' : ky < kx + 2 * s := by exact_mod_cast hA
  have hB' : kx < ky + 2 * s := by exact_mod_cast hB
  rw [hkx, hky] at hA' hB' ⊢
  have h1 : (n - m) * s < 2 * s := by linarith
  have h2 : (-2) * s < (n - m) * s := by linarith
  have h1' : n - m < 2 := lt_of_mul_lt_mul_right h1 hs.le
  have h2' : -2 < n - m := lt_of_mul_lt_mul_right h2 hs.le
  have : n - m = -1 ∨ n - m = 0 ∨ n - m = 1 := by omega
  rcases this with h | h | h
  · left; have : n * s - m * s = (n - m) * s := by ring
    rw [this, h]; ring
  · right; left; have : n * s - m * s = (n - m) * s := by ring
    rw [this, h]; ring
  · right; right; have : n * s - m * s = (n - m) * s := by ring
    rw [this, h]; ring

/-! ### dictionary lemmas -/

theorem find_nodup {α β : Type} [DecidableEq α] (l : List (α × β)) (k : α) (v : β)
    (hnd : (l.map (·.1)).Nodup) (hmem : (k, v) ∈ l) :
    l.find? (·.1 = k) = some (k, v) := by
  induction l with
  | nil => simp at hmem
  | cons x t ih =>
    obtain ⟨k', v'⟩ := x
    simp only [List.map_cons, List.nodup_cons] at hnd
    rcases List.mem_cons.mp hmem with h | h
    · cases h
      simp
    · have hne : k' ≠ k := by
        intro e
        apply hnd.1
        rw [e]
        exact List.mem_map.mpr ⟨(k, v), h, rfl⟩
      simp [hne, ih hnd.2 h]

theorem find_map_ne {β : Type} (l : List (Id × β)) (a b : Id) (v : β) (hba : b ≠ a) :
    ((l.map (fun (k, w) => if k = a then (k, v) else (k, w))).find? (·.1 = b)).map (·.2)
      = (l.find? (·.1 = b)).map (·.2) := by
  induction l with
  | nil => simp
  | cons x t ih =>
    obtain ⟨k, w⟩ := x
    by_cases hka : k = a
    · have hkb : k ≠ b := by rw [hka]; exact fun e => hba e.symm
      simpa [List.find?_cons, hka, hkb, Ne.symm hba] using ih
    · by_cases hkb : k = b
      · subst hkb
        simp [hka]
      · simpa [List.find?_cons, hka, hkb] using ih

theorem find_map_eq {β : Type} (l : List (Id × β)) (a : Id) (v : β)
    (hany : l.any (·.1 = a) = true) :
    ((l.map (fun (k, w) => if k = a then (k, v) else (k, w))).find? (·.1 = a)).map (·.2)
      = some v := by
  induction l with
  | nil => simp at hany
  | cons x t ih =>
    obtain ⟨k, w⟩ := x
    by_cases hka : k = a
    · simp [hka]
    · have : t.any (·.1 = a) = true := by simpa [hka] using hany
      simpa [List.find?_cons, hka] using ih this

theorem find_setAssoc {β : Type} (l : List (Id × β)) (a b : Id) (v : β) :
    ((setAssoc l a v).find? (·.1 = b)).map (·.2)
      = if b = a then some v else (l.find? (·.1 = b)).map (·.2) := by
  unfold setAssoc
  by_cases hany : l.any (·.1 = a) = true
  · rw [if_pos hany]
    by_cases hba : b = a
    · rw [if_pos hba, hba]; exact find_map_eq l a v hany
    · rw [if_neg hba]; exact find_map_ne l a b v hba
  · rw [if_neg hany]
    by_cases hba : b = a
    · rw [if_pos hba, hba]
      have : l.find? (·.1 = a) = none := by
        rw [List.find?_eq_none]
        intro x hx
        simp only [List.any_eq_true, not_exists, not_and] at hany
        exact hany x hx
      simp [List.find?_append, this]
    · rw [if_neg hba]
      have hab : a ≠ b := fun e => hba e.symm
      cases h : l.find? (·.1 = b) <;> simp [List.find?_append, h, hab]

theorem cellOf_setCell (st : State) (a b : Id) (v : Option Key) (cm : List (Key × List Id)) :
    cellOf { st with cell := setAssoc st.cell a v, cellmap := cm } b
      = if b = a then v else cellOf st b := by
  unfold cellOf
  simp only [find_setAssoc]
  split <;> simp

theorem posOf_setPos (st : State) (a b : Id) (p : TPos) :
    posOf (setPos st a p) b = if b = a then p else posOf st b := by
  unfold posOf setPos
  simp only [find_setAssoc]
  split <;> simp

theorem cellOf_setPos (st : State) (a b : Id) (p : TPos) :
    cellOf (setPos st a p) b = cellOf st b := rfl

/-! ### cell map updates -/

theorem keys_map_upd (cm : List (Key × List Id)) (key : Key) (g : List Id → List Id) :
    (cm.map (fun (k, v) => if k = key then (k, g v) else (k, v))).map (·.1) = cm.map (·.1) := by
  rw [List.map_map]
  apply List.map_congr_left
  rintro ⟨k, v⟩ _
  simp only [Function.comp]
  split <;> rfl

theorem mem_map_upd (cm : List (Key × List Id)) (key : Key) (g : List Id → List Id)
    (k : Key) (v : List Id) (h : (k, v) ∈ cm) :
    (k, if k = key then g v else v) ∈ cm.map (fun (k, v) => if k = key then (k, g v) else (k, v)) := by
  refine List.mem_map.mpr ⟨(k, v), h, ?_⟩
  show (if k = key then (k, g v) else (k, v)) = _
  split <;> rfl


theorem inv_setPos (st : State) (hI : Inv st) (a : Id) (p : TPos) (hnone : cellOf st a = none) :
    Inv (setPos st a p) := by
  obtain ⟨hnd, hcell⟩ := hI
  refine ⟨hnd, ?_⟩
  intro b k hb
  rw [cellOf_setPos] at hb
  have hba : b ≠ a := by
    intro e; rw [e, hnone] at hb; cases hb
  rw [posOf_setPos, if_neg hba]
  exact hcell b k hb

def addCM (cm : List (Key × List Id)) (key : Key) (a : Id) : List (Key × List Id) :=
  if cm.any (·.1 = key) then cm.map (fun (k, v) => if k = key then (k, v ++ [a]) else (k, v))
  else cm ++ [(key, [a])]

theorem addCell_eq (st : State) (a : Id) :
    addCell st a = { st with cellmap := addCM st.cellmap (keyOf st.size (posOf st a)) a,
                             cell := setAssoc st.cell a (some (keyOf st.size (posOf st a))) } := rfl

theorem addCM_nodup (cm : List (Key × List Id)) (key : Key) (a : Id)
    (hnd : (cm.map (·.1)).Nodup) : ((addCM cm key a).map (·.1)).Nodup := by
  unfold addCM
  split
  · rw [keys_map_upd cm key (· ++ [a])]; exact hnd
  · rename_i hany
    rw [List.map_append, List.nodup_append]
    refine ⟨hnd, by simp, ?_⟩
    intro x hx y hy
    simp only [List.map_cons, List.map_nil, List.mem_singleton] at hy
    subst hy
    intro e
    apply hany
    obtain ⟨⟨k, v⟩, hm, hk⟩ := List.mem_map.mp hx
    rw [List.any_eq_true]
    exact ⟨(k, v), hm, by simpa [e] using hk⟩

theorem addCM_mono (cm : List (Key × List Id)) (key : Key) (a : Id) (k : Key) (v : List Id) (b : Id)
    (hm : (k, v) ∈ cm) (hb : b ∈ v) : ∃ v', (k, v') ∈ addCM cm key a ∧ b ∈ v' := by
  unfold addCM
  split
  · refine ⟨_, mem_map_upd cm key (· ++ [a]) k v hm, ?_⟩
    split
    · exact List.mem_append_left _ hb
    · exact hb
  · exact ⟨v, List.mem_append_left _ hm, hb⟩

theorem addCM_self (cm : List (Key × List Id)) (key : Key) (a : Id) :
    ∃ v', (key, v') ∈ addCM cm key a ∧ a ∈ v' := by
  unfold addCM
  split
  · rename_i hany
    rw [List.any_eq_true] at hany
    obtain ⟨⟨k, v⟩, hm, hk⟩ := hany
    have hk' : k = key := by simpa using hk
    subst hk'
    refine ⟨_, mem_map_upd cm k (· ++ [a]) k v hm, ?_⟩
    rw [if_pos rfl]
    simp
  · exact ⟨[a], by simp, by simp⟩

theorem inv_addCell (st : State) (hI : Inv st) (a : Id) : Inv (addCell st a) := by
  obtain ⟨hnd, hcell⟩ := hI
  rw [addCell_eq]
  refine ⟨addCM_nodup _ _ _ hnd, ?_⟩
  intro b k hb
  rw [cellOf_setCell] at hb
  show k = keyOf st.size (posOf st b) ∧ ∃ v, (k, v) ∈ addCM st.cellmap (keyOf st.size (posOf st a)) a ∧ b ∈ v
  by_cases hba : b = a
  · rw [if_pos hba] at hb
    cases hb
    subst hba
    exact ⟨rfl, addCM_self _ _ _⟩
  · rw [if_neg hba] at hb
    obtain ⟨h1, v, hm, hbv⟩ := hcell b k hb
    exact ⟨h1, addCM_mono _ _ _ _ _ _ hm hbv⟩

theorem inv_removeCell (st st' : State) (hI : Inv st) (a : Id) (h : removeCell st a = some st') :
    Inv st' ∧ cellOf st' a = none := by
  unfold removeCell at h
  split at h
  · rename_i hnone
    cases h
    exact ⟨hI, hnone⟩
  · rename_i old hold
    split at h
    · cases h
    · rename_i k0 v0 hfind
      split at h
      · cases h
        obtain ⟨hnd, hcell⟩ := hI
        refine ⟨⟨?_, ?_⟩, ?_⟩
        · show ((st.cellmap.map (fun (k, w) => if k = old then (k, w.erase a) else (k, w))).map (·.1)).Nodup
          rw [keys_map_upd st.cellmap old (fun w => w.erase a)]; exact hnd
        · intro b k hb
          rw [cellOf_setCell] at hb
          by_cases hba : b = a
          · rw [if_pos hba] at hb; cases hb
          · rw [if_neg hba] at hb
            obtain ⟨h1, v, hm, hbv⟩ := hcell b k hb
            refine ⟨h1, _, mem_map_upd st.cellmap old (fun w => w.erase a) k v hm, ?_⟩
            split
            · exact (List.mem_erase_of_ne hba).mpr hbv
            · exact hbv
        · rw [cellOf_setCell]; simp
      · cases h

theorem inv_applyOp (st : State) (hI : Inv st) (op : Op) : Inv (applyOp st op) := by
  cases op with
  | place a p =>
    show Inv (if cellOf st a = none then addCell (setPos st a p) a else st)
    split
    · rename_i hnone
      exact inv_addCell _ (inv_setPos st hI a p hnone) a
    · exact hI
  | remove a =>
    show Inv ((removeCell st a).getD st)
    cases h : removeCell st a with
    | none => exact hI
    | some st' => exact (inv_removeCell st st' hI a h).1
  | move a p =>
    show Inv (match removeCell st a with
      | some st' => addCell (setPos st' a p) a
      | none => st)
    cases h : removeCell st a with
    | none => exact hI
    | some st' =>
      obtain ⟨h1, h2⟩ := inv_removeCell st st' hI a h
      exact inv_addCell _ (inv_setPos st' h1 a p h2) a

theorem inv_init (s : Int) : Inv (init s) := by
  refine ⟨by simp [init], ?_⟩
  intro a k h
  simp [init, cellOf] at h

theorem inv_foldl (ops : List Op) (st : State) (hI : Inv st) : Inv (ops.foldl applyOp st) := by
  induction ops generalizing st with
  | nil => exact hI
  | cons op t ih => exact ih _ (inv_applyOp st hI op)

theorem inv_after_any_history_core (s : Int) (hs : 0 < s) (ops : List Op) :
    Inv (ops.foldl applyOp (init s)) := by
  have _ := hs
  exact inv_foldl ops _ (inv_init s)

/-! ### the query -/

theorem mem_offsets (s d : Int) (h : d = -s ∨ d = 0 ∨ d = s) : d ∈ offsets s := by
  unfold offsets
  rcases h with h | h | h <;> simp [h]

theorem near_complete_static_core (st : State) (hI : Inv st) (a b : Id) (ka kb : Key) (hab : a ≠ b)
    (ha : cellOf st a = some ka) (hb : cellOf st b = some kb) (hadj : Adjacent st.size ka kb) :
    b ∈ nearCells st a := by
  obtain ⟨hnd, hcell⟩ := hI
  obtain ⟨_, v, hm, hbv⟩ := hcell b kb hb
  obtain ⟨x, y, z⟩ := ka
  obtain ⟨x', y', z'⟩ := kb
  obtain ⟨h1, h2, h3⟩ := hadj
  dsimp only at h1 h2 h3
  unfold nearCells
  rw [ha]
  dsimp only
  rw [List.mem_flatMap]
  refine ⟨x' - x, mem_offsets _ _ h1, ?_⟩
  rw [List.mem_flatMap]
  refine ⟨y' - y, mem_offsets _ _ h2, ?_⟩
  rw [List.mem_flatMap]
  refine ⟨z' - z, mem_offsets _ _ h3, ?_⟩
  have hk : (x + (x' - x), y + (y' - y), z + (z' - z)) = (x', y', z') := by
    congr 1
    · omega
    · congr 1 <;> omega
  rw [hk, find_nodup st.cellmap (x', y', z') v hnd hm]
  dsimp only
  rw [List.mem_filter]
  exact ⟨hbv, by simpa using Ne.symm hab⟩

theorem near_excludes_self_core (st : State) (a : Id) : a ∉ nearCells st a := by
  unfold nearCells
  split
  · simp
  · intro h
    simp only [List.mem_flatMap] at h
    obtain ⟨i, _, j, _, k, _, h⟩ := h
    split at h
    · simp at h
    · rw [List.mem_filter] at h
      simpa using h.2

end P2P.Proofs.Cells
