import P2P.Proofs.ChargeTableBase
namespace P2P.Proofs.ChargeTable
/-- kernel evaluation of the CHARMM column of the charge table -/
theorem ok_CHARMM : tableOK ("CHARMM", P2P.Gen.FFCharges.CHARMM) = true := by decide +kernel
theorem cov_CHARMM : covered P2P.Gen.FFCharges.CHARMM = 83 := by decide +kernel
end P2P.Proofs.ChargeTable
