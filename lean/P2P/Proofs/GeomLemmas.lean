import P2P.Model.Geom
import Mathlib.Analysis.SpecialFunctions.Trigonometric.Basic
import Mathlib.Analysis.SpecialFunctions.Trigonometric.Inverse
import Mathlib.Analysis.SpecialFunctions.Pow.Real
import Mathlib.Tactic.Ring
import Mathlib.Tactic.Linarith
import Mathlib.Tactic.NormNum
import Mathlib.Tactic.FieldSimp
import Mathlib.Tactic.LinearCombination
import Mathlib.Tactic.Positivity

namespace P2P.Proofs.Geom
open P2P.Geom

/-- the reals as the arithmetic the theorems are about -/
noncomputable instance : GNum ℝ where
  ofNat n := (n : ℝ)
  dec m e := (m : ℝ) / 10 ^ e
  sqrt := Real.sqrt
  sin := Real.sin
  cos := Real.cos
  acos := Real.arccos
  abs x := |x|
  lt a b := decide (a < b)
  pi := Real.pi

/-- `qᵀ N q` for the symmetric matrix given by its upper triangle -/
def quadForm (c : Sym4 ℝ) (q0 q1 q2 q3 : ℝ) : ℝ :=
  c.a00 * q0 * q0 + c.a11 * q1 * q1 + c.a22 * q2 * q2 + c.a33 * q3 * q3 +
  2 * (c.a01 * q0 * q1 + c.a02 * q0 * q2 + c.a03 * q0 * q3 + c.a12 * q1 * q2 + c.a13 * q1 * q3 + c.a23 * q2 * q3)

@[simp] theorem ofNat_eq (n : Nat) : (GNum.ofNat n : ℝ) = (n : ℝ) := rfl
@[simp] theorem dec_eq (m e : Nat) : (GNum.dec m e : ℝ) = (m : ℝ) / 10 ^ e := rfl
@[simp] theorem sqrt_eq (x : ℝ) : (GNum.sqrt x : ℝ) = Real.sqrt x := rfl
@[simp] theorem sin_eq (x : ℝ) : (GNum.sin x : ℝ) = Real.sin x := rfl
@[simp] theorem cos_eq (x : ℝ) : (GNum.cos x : ℝ) = Real.cos x := rfl
@[simp] theorem pi_eq : (GNum.pi : ℝ) = Real.pi := rfl

theorem V3.ext' {a b : V3 ℝ} (hx : a.x = b.x) (hy : a.y = b.y) (hz : a.z = b.z) : a = b := by
  cases a; cases b; simp_all

theorem q2mat_isometry_core (q0 q1 q2 q3 : ℝ) (h : q0 ^ 2 + q1 ^ 2 + q2 ^ 2 + q3 ^ 2 = 1) (p p' : V3 ℝ) :
    V3.dot (rotPoint (q2mat q0 q1 q2 q3) p) (rotPoint (q2mat q0 q1 q2 q3) p') = V3.dot p p' := by
  obtain ⟨x, y, z⟩ := p
  obtain ⟨x', y', z'⟩ := p'
  simp only [V3.dot, rotPoint, q2mat, ofNat_eq]
  have h2 : (q0 ^ 2 + q1 ^ 2 + q2 ^ 2 + q3 ^ 2)^2 = 1 := by rw [h]; norm_num
  linear_combination (x*x'+y*y'+z*z') * h2

theorem q2mat_proper_core (q0 q1 q2 q3 : ℝ) (h : q0 ^ 2 + q1 ^ 2 + q2 ^ 2 + q3 ^ 2 = 1) (p p' : V3 ℝ) :
    rotPoint (q2mat q0 q1 q2 q3) (V3.cross p p') =
      V3.cross (rotPoint (q2mat q0 q1 q2 q3) p) (rotPoint (q2mat q0 q1 q2 q3) p') := by
  obtain ⟨x, y, z⟩ := p
  obtain ⟨x', y', z'⟩ := p'
  apply V3.ext'
  · simp only [V3.cross, rotPoint, q2mat, ofNat_eq]
    linear_combination (-((q0 * q0 + q1 * q1 - q2 * q2 - q3 * q3) * (y * z' - z * y') + 2 * (q2 * q1 + q0 * q3) * (z * x' - x * z') + 2 * (q3 * q1 - q0 * q2) * (x * y' - y * x'))) * h
  · simp only [V3.cross, rotPoint, q2mat, ofNat_eq]
    linear_combination (-(2 * (q1 * q2 - q0 * q3) * (y * z' - z * y') + (q0 * q0 - q1 * q1 + q2 * q2 - q3 * q3) * (z * x' - x * z') + 2 * (q3 * q2 + q0 * q1) * (x * y' - y * x'))) * h
  · simp only [V3.cross, rotPoint, q2mat, ofNat_eq]
    linear_combination (-(2 * (q1 * q3 + q0 * q2) * (y * z' - z * y') + 2 * (q2 * q3 - q0 * q1) * (z * x' - x * z') + (q0 * q0 - q1 * q1 - q2 * q2 + q3 * q3) * (x * y' - y * x'))) * h

theorem chi_isometry_core (l : V3 ℝ) (hl : V3.dot l l = 1) (angle : ℝ) (p p' : V3 ℝ) :
    V3.dot (rotPoint (chiMatrix l angle) p) (rotPoint (chiMatrix l angle) p') = V3.dot p p' := by
  obtain ⟨x, y, z⟩ := p
  obtain ⟨x', y', z'⟩ := p'
  obtain ⟨a, b, d⟩ := l
  simp only [V3.dot] at hl
  simp only [V3.dot, rotPoint, chiMatrix, ofNat_eq, cos_eq, sin_eq]
  generalize (GNum.pi * angle / GNum.dec 1800 1 : ℝ) = r
  have hcs := Real.cos_sq_add_sin_sq r
  set c := Real.cos r
  set s := Real.sin r
  linear_combination (s^2 * (x*x'+y*y'+z*z') + (1-c)^2 * (a*x+b*y+d*z) * (a*x'+b*y'+d*z')) * hl + ((x*x'+y*y'+z*z') - (a*x+b*y+d*z) * (a*x'+b*y'+d*z')) * hcs

theorem chi_fixes_axis_core (l : V3 ℝ) (hl : V3.dot l l = 1) (angle t : ℝ) :
    rotPoint (chiMatrix l angle) (V3.smul t l) = V3.smul t l := by
  obtain ⟨a, b, d⟩ := l
  simp only [V3.dot] at hl
  simp only [rotPoint, chiMatrix, V3.smul, ofNat_eq, cos_eq, sin_eq]
  generalize (GNum.pi * angle / GNum.dec 1800 1 : ℝ) = r
  set c := Real.cos r
  set s := Real.sin r
  apply V3.ext'
  · show _ = t * a
    linear_combination (t * (1 - c) * a) * hl
  · show _ = t * b
    linear_combination (t * (1 - c) * b) * hl
  · show _ = t * d
    linear_combination (t * (1 - c) * d) * hl

theorem dot_self_nonneg (a : V3 ℝ) : 0 ≤ V3.dot a a := by
  unfold V3.dot; nlinarith [mul_self_nonneg a.x, mul_self_nonneg a.y, mul_self_nonneg a.z]

theorem norm_mul_self (a : V3 ℝ) : V3.norm a * V3.norm a = V3.dot a a :=
  Real.mul_self_sqrt (dot_self_nonneg a)

theorem norm_ne_zero (a : V3 ℝ) (ha : V3.dot a a ≠ 0) : V3.norm a ≠ 0 := by
  intro h
  have := norm_mul_self a
  rw [h] at this
  exact ha (by linarith)

theorem normalize_unit_core (a : V3 ℝ) (ha : V3.dot a a ≠ 0) : V3.dot (V3.normalize a) (V3.normalize a) = 1 := by
  have hn := norm_ne_zero a ha
  have hs := norm_mul_self a
  have h1 : V3.dot (V3.normalize a) (V3.normalize a) = V3.dot a a / (V3.norm a * V3.norm a) := by
    simp only [V3.normalize]
    generalize V3.norm a = n at hn
    simp only [V3.dot]
    field_simp
  rw [h1, hs]; exact div_self ha


/-! ### linearity -/

theorem rotPoint_sub (m : M3 ℝ) (p q : V3 ℝ) :
    rotPoint m (V3.sub p q) = V3.sub (rotPoint m p) (rotPoint m q) := by
  apply V3.ext' <;> simp only [rotPoint, V3.sub] <;> ring

theorem iso_sub (m : M3 ℝ) (hm : ∀ p p', V3.dot (rotPoint m p) (rotPoint m p') = V3.dot p p') (p q : V3 ℝ) :
    V3.dot (V3.sub (rotPoint m p) (rotPoint m q)) (V3.sub (rotPoint m p) (rotPoint m q)) =
      V3.dot (V3.sub p q) (V3.sub p q) := by
  rw [← rotPoint_sub, hm]

theorem qchichange_rigid_core (axis : V3 ℝ) (ha : V3.dot axis axis ≠ 0) (angle : ℝ) (p p' : V3 ℝ) (t : ℝ) :
    let R := rotPoint (chiMatrix (V3.normalize axis) angle)
    V3.dot (V3.sub (R p) (R p')) (V3.sub (R p) (R p')) = V3.dot (V3.sub p p') (V3.sub p p') ∧
    V3.dot (V3.sub (R p) (V3.smul t axis)) (V3.sub (R p) (V3.smul t axis)) =
      V3.dot (V3.sub p (V3.smul t axis)) (V3.sub p (V3.smul t axis)) := by
  intro R
  have hu := normalize_unit_core axis ha
  have hiso := chi_isometry_core (V3.normalize axis) hu angle
  have hn := norm_ne_zero axis ha
  have hax : V3.smul t axis = V3.smul (t * V3.norm axis) (V3.normalize axis) := by
    apply V3.ext' <;> simp only [V3.smul, V3.normalize] <;> field_simp
  have hfix : R (V3.smul t axis) = V3.smul t axis := by
    rw [hax]; exact chi_fixes_axis_core (V3.normalize axis) hu angle _
  refine ⟨iso_sub _ hiso p p', ?_⟩
  have := iso_sub _ hiso p (V3.smul t axis)
  rw [show rotPoint (chiMatrix (V3.normalize axis) angle) (V3.smul t axis) = V3.smul t axis from hfix] at this
  exact this

/-! ### Horn -/

abbrev S9 := (ℝ × ℝ × ℝ) × (ℝ × ℝ × ℝ) × (ℝ × ℝ × ℝ)

def hstep (acc : S9) (dr : V3 ℝ × V3 ℝ) : S9 :=
  let d := dr.1; let r := dr.2
  ((acc.1.1 + d.x * r.x, acc.1.2.1 + d.x * r.y, acc.1.2.2 + d.x * r.z),
   (acc.2.1.1 + d.y * r.x, acc.2.1.2.1 + d.y * r.y, acc.2.1.2.2 + d.y * r.z),
   (acc.2.2.1 + d.z * r.x, acc.2.2.2.1 + d.z * r.y, acc.2.2.2.2 + d.z * r.z))

def sym4of (s : S9) : Sym4 ℝ :=
  let xxyx := s.1.1; let xxyy := s.1.2.1; let xxyz := s.1.2.2
  let xyyx := s.2.1.1; let xyyy := s.2.1.2.1; let xyyz := s.2.1.2.2
  let xzyx := s.2.2.1; let xzyy := s.2.2.2.1; let xzyz := s.2.2.2.2
  { a00 := xxyx + xyyy + xzyz, a01 := xzyy - xyyz, a02 := xxyz - xzyx, a03 := xyyx - xxyy,
    a11 := xxyx - xyyy - xzyz, a12 := xxyy + xyyx, a13 := xzyx + xxyz,
    a22 := xyyy - xzyz - xxyx, a23 := xyyz + xzyy, a33 := xzyz - xxyx - xyyy }

theorem cmat_eq (defs refs : List (V3 ℝ)) :
    cmat defs refs = sym4of ((defs.zip refs).foldl hstep ((0, 0, 0), (0, 0, 0), (0, 0, 0))) := by
  have hz : (GNum.dec 0 0 : ℝ) = 0 := by simp
  unfold cmat
  simp only [hz]
  rfl

theorem horn_step (acc : S9) (dr : V3 ℝ × V3 ℝ) (q0 q1 q2 q3 : ℝ) :
    quadForm (sym4of (hstep acc dr)) q0 q1 q2 q3 =
      quadForm (sym4of acc) q0 q1 q2 q3 + V3.dot (rotPoint (q2mat q0 q1 q2 q3) dr.1) dr.2 := by
  obtain ⟨⟨a1, a2, a3⟩, ⟨a4, a5, a6⟩, ⟨a7, a8, a9⟩⟩ := acc
  obtain ⟨⟨x, y, z⟩, ⟨x', y', z'⟩⟩ := dr
  simp only [quadForm, sym4of, hstep, V3.dot, rotPoint, q2mat, ofNat_eq]
  push_cast
  ring

theorem horn_fold (l : List (V3 ℝ × V3 ℝ)) (acc : S9) (q0 q1 q2 q3 : ℝ) :
    quadForm (sym4of (l.foldl hstep acc)) q0 q1 q2 q3 =
      quadForm (sym4of acc) q0 q1 q2 q3 +
        (l.map (fun dr => V3.dot (rotPoint (q2mat q0 q1 q2 q3) dr.1) dr.2)).sum := by
  induction l generalizing acc with
  | nil => simp
  | cons dr l ih =>
    simp only [List.foldl_cons, List.map_cons, List.sum_cons]
    rw [ih, horn_step]; ring

theorem horn_identity_core (defs refs : List (V3 ℝ)) (q0 q1 q2 q3 : ℝ) :
    quadForm (cmat defs refs) q0 q1 q2 q3 =
      ((defs.zip refs).map (fun dr => V3.dot (rotPoint (q2mat q0 q1 q2 q3) dr.1) dr.2)).sum := by
  rw [cmat_eq, horn_fold]
  simp [quadForm, sym4of]

theorem zip_map_map {β γ : Type} (l : List β) (f : β → β) (g : β × β → γ) :
    (l.zip (l.map f)).map g = l.map (fun d => g (d, f d)) := by
  induction l with
  | nil => rfl
  | cons a l ih => simp [ih]

theorem sum_eq_of_le (l : List (V3 ℝ)) (f g : V3 ℝ → ℝ) (hle : ∀ d ∈ l, f d ≤ g d)
    (hsum : (l.map g).sum ≤ (l.map f).sum) : ∀ d ∈ l, f d = g d := by
  induction l with
  | nil => intro d hd; cases hd
  | cons a l ih =>
    simp only [List.map_cons, List.sum_cons] at hsum
    have ha : f a ≤ g a := hle a (by simp)
    have hl : ∀ d ∈ l, f d ≤ g d := fun d hd => hle d (by simp [hd])
    have hrest : (l.map f).sum ≤ (l.map g).sum := by
      clear ih hsum hle ha
      induction l with
      | nil => simp
      | cons b l ih2 =>
        simp only [List.map_cons, List.sum_cons]
        have := hl b (by simp)
        have := ih2 (fun d hd => hl d (by simp [hd]))
        linarith
    intro d hd
    rcases List.mem_cons.1 hd with rfl | hd
    · linarith
    · exact ih hl (by linarith) d hd

theorem horn_exact_core (defs : List (V3 ℝ)) (g0 g1 g2 g3 q0 q1 q2 q3 : ℝ)
    (hg : g0 ^ 2 + g1 ^ 2 + g2 ^ 2 + g3 ^ 2 = 1) (hq : q0 ^ 2 + q1 ^ 2 + q2 ^ 2 + q3 ^ 2 = 1)
    (hmax : quadForm (cmat defs (defs.map (rotPoint (q2mat g0 g1 g2 g3)))) g0 g1 g2 g3 ≤
            quadForm (cmat defs (defs.map (rotPoint (q2mat g0 g1 g2 g3)))) q0 q1 q2 q3) :
    ∀ d ∈ defs, rotPoint (q2mat q0 q1 q2 q3) d = rotPoint (q2mat g0 g1 g2 g3) d := by
  rw [horn_identity_core, horn_identity_core, zip_map_map, zip_map_map] at hmax
  have hG := q2mat_isometry_core g0 g1 g2 g3 hg
  have hQ := q2mat_isometry_core q0 q1 q2 q3 hq
  have hle : ∀ d ∈ defs, V3.dot (rotPoint (q2mat q0 q1 q2 q3) d) (rotPoint (q2mat g0 g1 g2 g3) d) ≤
      V3.dot (rotPoint (q2mat g0 g1 g2 g3) d) (rotPoint (q2mat g0 g1 g2 g3) d) := by
    intro d _
    have h1 := hG d d
    have h2 := hQ d d
    have h3 := dot_self_nonneg (V3.sub (rotPoint (q2mat q0 q1 q2 q3) d) (rotPoint (q2mat g0 g1 g2 g3) d))
    simp only [V3.dot, V3.sub] at h1 h2 h3 ⊢
    nlinarith
  have heq := sum_eq_of_le defs _ _ hle hmax
  intro d hd
  have h0 := heq d hd
  have h1 := hG d d
  have h2 := hQ d d
  generalize rotPoint (q2mat q0 q1 q2 q3) d = u at *
  generalize rotPoint (q2mat g0 g1 g2 g3) d = w at *
  obtain ⟨ux, uy, uz⟩ := u
  obtain ⟨wx, wy, wz⟩ := w
  simp only [V3.dot] at h0 h1 h2
  have hsq : (ux - wx) ^ 2 + (uy - wy) ^ 2 + (uz - wz) ^ 2 = 0 := by nlinarith
  have hx : ux - wx = 0 := by nlinarith [sq_nonneg (ux - wx), sq_nonneg (uy - wy), sq_nonneg (uz - wz)]
  have hy : uy - wy = 0 := by nlinarith [sq_nonneg (ux - wx), sq_nonneg (uy - wy), sq_nonneg (uz - wz)]
  have hz : uz - wz = 0 := by nlinarith [sq_nonneg (ux - wx), sq_nonneg (uy - wy), sq_nonneg (uz - wz)]
  apply V3.ext' <;> simp only <;> linarith

/-! ### Jacobi keeps `vmat` orthogonal -/

/-- columns `0..3` of `v` (rows `0..3`) are orthonormal -/
def OrthoV (v : Nat → Nat → ℝ) : Prop :=
  ∀ a b, a < 4 → b < 4 →
    v 0 a * v 0 b + v 1 a * v 1 b + v 2 a * v 2 b + v 3 a * v 3 b = if a = b then 1 else 0

theorem foldl_v_eq {β : Type} (f : JState ℝ → β → JState ℝ) (hf : ∀ s k, (f s k).v = s.v)
    (l : List β) (s : JState ℝ) : (l.foldl f s).v = s.v := by
  induction l generalizing s with
  | nil => rfl
  | cons a l ih => rw [List.foldl_cons, ih, hf]

theorem foldl_inv {β : Type} (P : JState ℝ → Prop) (f : JState ℝ → β → JState ℝ) (l : List β)
    (hf : ∀ s k, k ∈ l → P s → P (f s k)) (s : JState ℝ) (hs : P s) : P (l.foldl f s) := by
  induction l generalizing s with
  | nil => exact hs
  | cons a l ih =>
    rw [List.foldl_cons]
    exact ih (fun s k hk => hf s k (by simp [hk])) _ (hf s a (by simp) hs)

/-- the Givens update of one row -/
def Vupd (c sn : ℝ) (i j : Nat) (v : Nat → Nat → ℝ) (k : Nat) : Nat → Nat → ℝ :=
  fun p q => if p = k ∧ q = i then c * v k i - sn * v k j
    else if p = k ∧ q = j then sn * v k i + c * v k j else v p q

theorem vfold_v (c sn : ℝ) (i j : Nat) (l : List Nat) (s : JState ℝ) :
    (l.foldl (fun s k => setV (setV s k j (sn * s.v k i + c * s.v k j)) k i (c * s.v k i - sn * s.v k j)) s).v =
      l.foldl (Vupd c sn i j) s.v := by
  induction l generalizing s with
  | nil => rfl
  | cons a l ih => rw [List.foldl_cons, ih]; rfl

theorem Vupd_rows (c sn : ℝ) (i j : Nat) (hij : i ≠ j) (v : Nat → Nat → ℝ) (p q : Nat) (hp : p < 4) :
    (List.range 4).foldl (Vupd c sn i j) v p q =
      if q = i then c * v p i - sn * v p j else if q = j then sn * v p i + c * v p j else v p q := by
  have hji : j ≠ i := Ne.symm hij
  have hr : List.range 4 = [0, 1, 2, 3] := by decide
  rw [hr]
  simp only [List.foldl_cons, List.foldl_nil]
  have h4 : p = 0 ∨ p = 1 ∨ p = 2 ∨ p = 3 := by omega
  rcases h4 with rfl | rfl | rfl | rfl <;> simp [Vupd, hij, hji]

theorem OrthoV_rot (c sn : ℝ) (hcs : c ^ 2 + sn ^ 2 = 1) (i j : Nat) (hij : i ≠ j) (hi : i < 4) (hj : j < 4)
    (v : Nat → Nat → ℝ) (hv : OrthoV v) : OrthoV ((List.range 4).foldl (Vupd c sn i j) v) := by
  have hji : j ≠ i := Ne.symm hij
  intro a b ha hb
  rw [Vupd_rows c sn i j hij v 0 a (by norm_num), Vupd_rows c sn i j hij v 1 a (by norm_num),
    Vupd_rows c sn i j hij v 2 a (by norm_num), Vupd_rows c sn i j hij v 3 a (by norm_num),
    Vupd_rows c sn i j hij v 0 b (by norm_num), Vupd_rows c sn i j hij v 1 b (by norm_num),
    Vupd_rows c sn i j hij v 2 b (by norm_num), Vupd_rows c sn i j hij v 3 b (by norm_num)]
  have Hii := hv i i hi hi
  have Hjj := hv j j hj hj
  have Hij := hv i j hi hj
  have Hia := hv i a hi ha
  have Hja := hv j a hj ha
  have Hib := hv i b hi hb
  have Hjb := hv j b hj hb
  have Hab := hv a b ha hb
  simp only [if_true, if_neg hij] at Hii Hjj Hij
  by_cases hai : a = i
  · subst hai
    by_cases hbi : b = a
    · subst hbi
      simp only [if_true]
      linear_combination c ^ 2 * Hii + sn ^ 2 * Hjj - 2 * c * sn * Hij + hcs
    · by_cases hbj : b = j
      · subst hbj
        simp only [if_true, if_neg hij, if_neg hji]
        linear_combination c * sn * Hii - c * sn * Hjj + (c ^ 2 - sn ^ 2) * Hij
      · have hab : a ≠ b := fun h => hbi h.symm
        have hjb : j ≠ b := fun h => hbj h.symm
        simp only [if_true, if_neg hbi, if_neg hbj, if_neg hab, if_neg hjb] at Hib Hjb ⊢
        linear_combination c * Hib - sn * Hjb
  · by_cases haj : a = j
    · subst haj
      by_cases hbi : b = i
      · subst hbi
        simp only [if_true, if_neg hij, if_neg hji]
        linear_combination c * sn * Hii - c * sn * Hjj + (c ^ 2 - sn ^ 2) * Hij
      · by_cases hbj : b = a
        · subst hbj
          simp only [if_true, if_neg hji]
          linear_combination sn ^ 2 * Hii + c ^ 2 * Hjj + 2 * c * sn * Hij + hcs
        · have hab : a ≠ b := fun h => hbj h.symm
          have hib : i ≠ b := fun h => hbi h.symm
          simp only [if_true, if_neg hbi, if_neg hbj, if_neg hab, if_neg hib, if_neg hji] at Hib Hjb ⊢
          linear_combination sn * Hib + c * Hjb
    · have hia : i ≠ a := fun h => hai h.symm
      have hja : j ≠ a := fun h => haj h.symm
      by_cases hbi : b = i
      · subst hbi
        simp only [if_true, if_neg hai, if_neg haj, if_neg hia, if_neg hja] at Hia Hja ⊢
        linear_combination c * Hia - sn * Hja
      · by_cases hbj : b = j
        · subst hbj
          simp only [if_true, if_neg hai, if_neg haj, if_neg hia, if_neg hja, if_neg hji] at Hia Hja ⊢
          linear_combination sn * Hia + c * Hja
        · simp only [if_neg hai, if_neg haj, if_neg hbi, if_neg hbj]
          exact Hab

theorem cs_unit (t : ℝ) :
    ((GNum.dec 10 1 : ℝ) / GNum.sqrt (t * t + (GNum.ofNat 1 : ℝ))) ^ 2 +
      (t * ((GNum.dec 10 1 : ℝ) / GNum.sqrt (t * t + (GNum.ofNat 1 : ℝ)))) ^ 2 = 1 := by
  simp only [dec_eq, ofNat_eq, sqrt_eq]
  have hpos : 0 < t * t + ((1 : ℕ) : ℝ) := by push_cast; nlinarith [mul_self_nonneg t]
  have hs : Real.sqrt (t * t + ((1 : ℕ) : ℝ)) ^ 2 = t * t + ((1 : ℕ) : ℝ) := Real.sq_sqrt hpos.le
  have hne : Real.sqrt (t * t + ((1 : ℕ) : ℝ)) ≠ 0 := (Real.sqrt_pos.2 hpos).ne'
  generalize Real.sqrt (t * t + ((1 : ℕ) : ℝ)) = r at hs hne
  push_cast at hs ⊢
  field_simp
  nlinarith

theorem jrot_ortho (s : JState ℝ) (i j : Nat) (hij : i ≠ j) (hi : i < 4) (hj : j < 4)
    (hs : OrthoV s.v) : OrthoV (jrot s i j).v := by
  unfold jrot
  dsimp only
  split
  · show OrthoV (JState.v (List.foldl _ _ _))
    rw [vfold_v, foldl_v_eq, foldl_v_eq, foldl_v_eq]
    · exact OrthoV_rot _ _ (cs_unit _) i j hij hi hj _ hs
    all_goals (intro _ _; rfl)
  · exact hs

theorem pairs_ok : ∀ ij ∈ pairs, ij.1 ≠ ij.2 ∧ ij.1 < 4 ∧ ij.2 < 4 := by decide

theorem jsweeps_ortho (n : Nat) (s : JState ℝ) (hs : OrthoV s.v) : OrthoV (jsweeps n s).v := by
  induction n generalizing s with
  | zero => exact hs
  | succ n ih =>
    unfold jsweeps
    split
    · exact hs
    · apply ih
      exact foldl_inv (fun s => OrthoV s.v) _ pairs
        (fun s ij hij h => jrot_ortho s ij.1 ij.2 (pairs_ok ij hij).1 (pairs_ok ij hij).2.1 (pairs_ok ij hij).2.2 h) s hs

theorem jinit_ortho (c : Sym4 ℝ) : OrthoV (jinit c).v := by
  intro a b ha hb
  have h1 : (GNum.dec 10 1 : ℝ) = 1 := by simp
  have h0 : (GNum.dec 0 0 : ℝ) = 0 := by simp
  simp only [jinit, h1, h0]
  have h4 : a = 0 ∨ a = 1 ∨ a = 2 ∨ a = 3 := by omega
  have h4' : b = 0 ∨ b = 1 ∨ b = 2 ∨ b = 3 := by omega
  rcases h4 with rfl | rfl | rfl | rfl <;> rcases h4' with rfl | rfl | rfl | rfl <;> simp

/-- swap of columns `j` and `k` in one row -/
def Sswap (j k : Nat) (v : Nat → Nat → ℝ) (p : Nat) : Nat → Nat → ℝ :=
  fun p' q => if p' = p ∧ q = j then v p k else if p' = p ∧ q = k then v p j else v p' q

theorem sfold_v (j k : Nat) (l : List Nat) (s : JState ℝ) :
    (l.foldl (fun s i => setV (setV s i k (s.v i j)) i j (s.v i k)) s).v = l.foldl (Sswap j k) s.v := by
  induction l generalizing s with
  | nil => rfl
  | cons a l ih => rw [List.foldl_cons, ih]; rfl

theorem Sswap_rows (j k : Nat) (hjk : j ≠ k) (v : Nat → Nat → ℝ) (p q : Nat) (hp : p < 4) :
    (List.range 4).foldl (Sswap j k) v p q = v p (if q = j then k else if q = k then j else q) := by
  have hkj : k ≠ j := Ne.symm hjk
  have hr : List.range 4 = [0, 1, 2, 3] := by decide
  rw [hr]
  simp only [List.foldl_cons, List.foldl_nil]
  have h4 : p = 0 ∨ p = 1 ∨ p = 2 ∨ p = 3 := by omega
  rcases h4 with rfl | rfl | rfl | rfl <;> simp [Sswap, hjk, hkj] <;> split_ifs <;> rfl

theorem OrthoV_swap (j k : Nat) (hjk : j ≠ k) (hj : j < 4) (hk : k < 4)
    (v : Nat → Nat → ℝ) (hv : OrthoV v) : OrthoV ((List.range 4).foldl (Sswap j k) v) := by
  intro a b ha hb
  rw [Sswap_rows j k hjk v 0 a (by norm_num), Sswap_rows j k hjk v 1 a (by norm_num),
    Sswap_rows j k hjk v 2 a (by norm_num), Sswap_rows j k hjk v 3 a (by norm_num),
    Sswap_rows j k hjk v 0 b (by norm_num), Sswap_rows j k hjk v 1 b (by norm_num),
    Sswap_rows j k hjk v 2 b (by norm_num), Sswap_rows j k hjk v 3 b (by norm_num)]
  have ha' : (if a = j then k else if a = k then j else a) < 4 := by split_ifs <;> assumption
  have hb' : (if b = j then k else if b = k then j else b) < 4 := by split_ifs <;> assumption
  rw [hv _ _ ha' hb']
  have : ((if a = j then k else if a = k then j else a) = (if b = j then k else if b = k then j else b)) ↔ a = b := by
    split_ifs <;> omega
  simp only [this]

theorem sel_mem (d : Nat → ℝ) (l : List Nat) (init : Nat × ℝ) :
    (l.foldl (fun (kd : Nat × ℝ) i => if GNum.lt (d i) kd.2 then (i, d i) else kd) init).1 = init.1 ∨
    (l.foldl (fun (kd : Nat × ℝ) i => if GNum.lt (d i) kd.2 then (i, d i) else kd) init).1 ∈ l := by
  induction l generalizing init with
  | nil => left; rfl
  | cons a l ih =>
    rw [List.foldl_cons]
    rcases ih (if GNum.lt (d a) init.2 then (a, d a) else init) with h | h
    · rw [h]; split_ifs <;> simp
    · right; simp [h]

theorem jsort_ortho (s : JState ℝ) (hs : OrthoV s.v) : OrthoV (jsort s).v := by
  unfold jsort
  apply foldl_inv (fun s => OrthoV s.v) _ _ _ s hs
  intro s j hj hs
  simp only [List.mem_range] at hj
  have hsel := sel_mem s.d (List.drop (j + 1) (List.range 4)) (j, s.d j)
  generalize List.foldl (fun (kd : Nat × ℝ) i => if GNum.lt (s.d i) kd.2 = true then (i, s.d i) else kd) (j, s.d j)
    (List.drop (j + 1) (List.range 4)) = kd at hsel ⊢
  obtain ⟨k, dtemp⟩ := kd
  have hk : k < 4 := by
    rcases hsel with h | h
    · simp only at h; omega
    · have := List.mem_of_mem_drop h
      simpa using this
  dsimp only
  split
  · rename_i hkj
    rw [sfold_v]
    exact OrthoV_swap j k (by omega) (by omega) hk _ hs
  · exact hs

theorem jacobi_unit_quaternion_core (c : Sym4 ℝ) (nrot : Nat) :
    let s := jacobi c nrot
    (s.v 0 3) ^ 2 + (s.v 1 3) ^ 2 + (s.v 2 3) ^ 2 + (s.v 3 3) ^ 2 = 1 := by
  intro s
  have h : OrthoV s.v := jsort_ortho _ (jsweeps_ortho _ _ (jinit_ortho c))
  have := h 3 3 (by norm_num) (by norm_num)
  simp only [if_true] at this
  linear_combination this

theorem rigid_of_iso (m : M3 ℝ) (hm : ∀ p p', V3.dot (rotPoint m p) (rotPoint m p') = V3.dot p p')
    (a b dc rc : V3 ℝ) :
    V3.dot (V3.sub (V3.add (rotPoint m (V3.sub a dc)) rc) (V3.add (rotPoint m (V3.sub b dc)) rc))
           (V3.sub (V3.add (rotPoint m (V3.sub a dc)) rc) (V3.add (rotPoint m (V3.sub b dc)) rc)) =
    V3.dot (V3.sub a b) (V3.sub a b) := by
  have h1 : V3.sub (V3.add (rotPoint m (V3.sub a dc)) rc) (V3.add (rotPoint m (V3.sub b dc)) rc) =
      rotPoint m (V3.sub a b) := by
    apply V3.ext' <;> simp only [rotPoint, V3.sub, V3.add] <;> ring
  rw [h1, hm]

theorem findCoordinates_rigid_core (refs defs : List (V3 ℝ)) (a b : V3 ℝ) :
    V3.dot (V3.sub (findCoordinates refs defs a) (findCoordinates refs defs b))
           (V3.sub (findCoordinates refs defs a) (findCoordinates refs defs b)) =
    V3.dot (V3.sub a b) (V3.sub a b) := by
  have hq := jacobi_unit_quaternion_core (cmat (center defs).2 (center refs).2) 30
  exact rigid_of_iso _ (q2mat_isometry_core _ _ _ _ hq) a b (center defs).1 (center refs).1

end P2P.Proofs.Geom
