import P2P.Model.Geom
import Mathlib.Analysis.SpecialFunctions.Trigonometric.Basic
import Mathlib.Analysis.SpecialFunctions.Trigonometric.Inverse
import Mathlib.Analysis.SpecialFunctions.Pow.Real
import Mathlib.Tactic.Ring
import Mathlib.Tactic.Linarith
import Mathlib.Tactic.NormNum
import Mathlib.Tactic.FieldSimp
import Mathlib.Tactic.LinearCombination
import Mathlib.Tactic.Positivity

namespace P2P.Proofs.Geom
open P2P.Geom

/-- the reals as the arithmetic the theorems are about -/
noncomputable instance : GNum ℝ where
  ofNat n := (n : ℝ)
  dec m e := (m : ℝ) / 10 ^ e
  sqrt := Real.sqrt
  sin := Real.sin
  cos := Real.cos
  acos := Real.arccos
  abs x := |x|
  lt a b := decide (a < b)
  pi := Real.pi

/-- `qᵀ N q` for the symmetric matrix given by its upper triangle -/
def quadForm (c : Sym4 ℝ) (q0 q1 q2 q3 : ℝ) : ℝ :=
  c.a00 * q0 * q0 + c.a11 * q1 * q1 + c.a22 * q2 * q2 + c.a33 * q3 * q3 +
  2 * (c.a01 * q0 * q1 + c.a02 * q0 * q2 + c.a03 * q0 * q3 + c.a12 * q1 * q2 + c.a13 * q1 * q3 + c.a23 * q2 * q3)

theorem q2mat_isometry_core (q0 q1 q2 q3 : ℝ) (h : q0 ^ 2 + q1 ^ 2 + q2 ^ 2 + q3 ^ 2 = 1) (p p' : V3 ℝ) :
    V3.dot (rotPoint (q2mat q0 q1 q2 q3) p) (rotPoint (q2mat q0 q1 q2 q3) p') = V3.dot p p' := by
  sorry

theorem q2mat_proper_core (q0 q1 q2 q3 : ℝ) (h : q0 ^ 2 + q1 ^ 2 + q2 ^ 2 + q3 ^ 2 = 1) (p p' : V3 ℝ) :
    rotPoint (q2mat q0 q1 q2 q3) (V3.cross p p') =
      V3.cross (rotPoint (q2mat q0 q1 q2 q3) p) (rotPoint (q2mat q0 q1 q2 q3) p') := by
  sorry

theorem chi_isometry_core (l : V3 ℝ) (hl : V3.dot l l = 1) (angle : ℝ) (p p' : V3 ℝ) :
    V3.dot (rotPoint (chiMatrix l angle) p) (rotPoint (chiMatrix l angle) p') = V3.dot p p' := by
  sorry

theorem chi_fixes_axis_core (l : V3 ℝ) (hl : V3.dot l l = 1) (angle t : ℝ) :
    rotPoint (chiMatrix l angle) (V3.smul t l) = V3.smul t l := by
  sorry

theorem normalize_unit_core (a : V3 ℝ) (ha : V3.dot a a ≠ 0) : V3.dot (V3.normalize a) (V3.normalize a) = 1 := by
  sorry

theorem qchichange_rigid_core (axis : V3 ℝ) (ha : V3.dot axis axis ≠ 0) (angle : ℝ) (p p' : V3 ℝ) (t : ℝ) :
    let R := rotPoint (chiMatrix (V3.normalize axis) angle)
    V3.dot (V3.sub (R p) (R p')) (V3.sub (R p) (R p')) = V3.dot (V3.sub p p') (V3.sub p p') ∧
    V3.dot (V3.sub (R p) (V3.smul t axis)) (V3.sub (R p) (V3.smul t axis)) =
      V3.dot (V3.sub p (V3.smul t axis)) (V3.sub p (V3.smul t axis)) := by
  sorry

theorem jacobi_unit_quaternion_core (c : Sym4 ℝ) (nrot : Nat) :
    let s := jacobi c nrot
    (s.v 0 3) ^ 2 + (s.v 1 3) ^ 2 + (s.v 2 3) ^ 2 + (s.v 3 3) ^ 2 = 1 := by
  sorry

theorem findCoordinates_rigid_core (refs defs : List (V3 ℝ)) (a b : V3 ℝ) :
    V3.dot (V3.sub (findCoordinates refs defs a) (findCoordinates refs defs b))
           (V3.sub (findCoordinates refs defs a) (findCoordinates refs defs b)) =
    V3.dot (V3.sub a b) (V3.sub a b) := by
  sorry

theorem horn_identity_core (defs refs : List (V3 ℝ)) (q0 q1 q2 q3 : ℝ) :
    quadForm (cmat defs refs) q0 q1 q2 q3 =
      ((defs.zip refs).map (fun dr => V3.dot (rotPoint (q2mat q0 q1 q2 q3) dr.1) dr.2)).sum := by
  sorry

theorem horn_exact_core (defs : List (V3 ℝ)) (g0 g1 g2 g3 q0 q1 q2 q3 : ℝ)
    (hg : g0 ^ 2 + g1 ^ 2 + g2 ^ 2 + g3 ^ 2 = 1) (hq : q0 ^ 2 + q1 ^ 2 + q2 ^ 2 + q3 ^ 2 = 1)
    (hmax : quadForm (cmat defs (defs.map (rotPoint (q2mat g0 g1 g2 g3)))) g0 g1 g2 g3 ≤
            quadForm (cmat defs (defs.map (rotPoint (q2mat g0 g1 g2 g3)))) q0 q1 q2 q3) :
    ∀ d ∈ defs, rotPoint (q2mat q0 q1 q2 q3) d = rotPoint (q2mat g0 g1 g2 g3) d := by
  sorry

end P2P.Proofs.Geom
