import P2P.Proofs.ChargeTableBase
namespace P2P.Proofs.ChargeTable
/-- kernel evaluation of the TYL06 column of the charge table -/
theorem ok_TYL06 : tableOK ("TYL06", P2P.Gen.FFCharges.TYL06) = true := by decide +kernel
theorem cov_TYL06 : covered P2P.Gen.FFCharges.TYL06 = 73 := by decide +kernel
end P2P.Proofs.ChargeTable
