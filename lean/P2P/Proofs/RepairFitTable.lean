import P2P.Model.RepairFit
import P2P.Gen.Topology

/-!
  Kernel-checked facts about the fit atoms of `repair_heavy` over this run's topology
  (every three-letter amino-acid definition — the twenty residues and their titration states —
  as a residue inside a chain: base definition + PEPTIDE patch).
-/
namespace P2P.Proofs.RepairFit
open P2P P2P.Topology P2P.RepairFit P2P.Gen.Topology

/-- the three-letter amino-acid definitions -/
def bases : List ResDef := residues.filter (fun r => P2P.Rigid.isAmino r && decide (r.name.length = 3))

/-- the run-time reference of a residue inside a chain -/
def midRef (r : ResDef) : ResDef :=
  match findPatch patches (str "PEPTIDE") with
  | some p => (applyPatch p r []).1
  | none => r

def sideHeavy (r : ResDef) : List Str := (heavyAll (midRef r)).filter (fun u => !mainChain.contains u)

/-- atoms that close an aromatic ring: their fit atoms are three bonds apart but lie in one planar ring -/
def ringClosers : List (Str × Str) :=
  [(str "PHE", str "CZ"), (str "TYR", str "CZ"), (str "TYM", str "CZ"), (str "TRP", str "CH2")]

/-- **Truncated side chains are rebuilt from local fits.** When a side chain is cut off at `x`
(everything at least as far from CA as `x` is missing), the three atoms `x` is fitted on are pairwise
at most two bonds apart — their mutual distances do not depend on any torsion — for every side-chain
heavy atom of every definition, except the atoms that close an aromatic ring. -/
theorem truncated_fits_local :
    bases.all (fun r => (sideHeavy r).all (fun x =>
      fitLocal (midRef r) (truncatedAt (midRef r) x) x || ringClosers.contains (r.name, x))) = true := by
  decide +kernel

/-- the carbonyl oxygen of a residue inside a chain is fitted on C, CA and the next residue's N:
one rigid planar unit -/
theorem carbonyl_O_fit_local :
    bases.all (fun r => fitAtoms (midRef r) (onlyMissing (midRef r) (str "O")) (str "O") = [str "C", str "CA", str "N+1"]
      && fitLocal (midRef r) (onlyMissing (midRef r) (str "O")) (str "O")) = true := by
  decide +kernel

/-- **Refutation (known finding).** The amide N of a residue inside a chain is fitted on CA, the
previous residue's C and C; C-1 and C are three bonds apart (across the rotatable N-CA bond), so
the fit depends on the backbone torsion — for every definition except proline (whose N is also
bonded to CD) -/
theorem backbone_N_fit_spans :
    bases.all (fun r => r.name = str "PRO" ||
      (fitAtoms (midRef r) (onlyMissing (midRef r) (str "N")) (str "N") = [str "CA", str "C-1", str "C"]
        && !within2 (midRef r) (str "C-1") (str "C"))) = true := by
  decide +kernel

/-- the (definition, atom) pairs whose fit is NOT local when only that atom is missing -/
def spanning : List (Str × Str) :=
  bases.flatMap (fun r => ((heavyAll (midRef r)).filter (fun x => x ≠ str "N+1" && x ≠ str "C-1" &&
    !fitLocal (midRef r) (onlyMissing (midRef r) x) x)).map (fun x => (r.name, x)))

/-- a single missing atom in the middle of a flexible chain is such a case, e.g. CG of lysine
(fitted on CB, CD and CA: CD and CA are three bonds apart, across CB-CG) -/
theorem middle_atom_fit_spans :
    spanning.contains (str "LYS", str "CG") = true ∧ spanning.contains (str "GLU", str "CB") = true ∧
    fitAtoms (midRef ((findRes residues (str "LYS")).getD default)) (onlyMissing (midRef ((findRes residues (str "LYS")).getD default)) (str "CG")) (str "CG")
      = [str "CB", str "CD", str "CA"] := by
  decide +kernel

/-- leaves are never such a case: with only an atom missing that has a single heavy neighbour, the fit is local -/
def leaves (r : ResDef) : List Str :=
  (sideHeavy r).filter (fun x => ((bondsOf (midRef r) x).filter (fun v => v.head? ≠ some 'H')).length = 1)

theorem leaf_fits_local :
    bases.all (fun r => (leaves r).all (fun x => fitLocal (midRef r) (onlyMissing (midRef r) x) x)) = true := by
  decide +kernel

/-! ### hydrogens placed by the superposition route of `add_hydrogens` (same selection loop) -/

/-- run-time references at the three chain positions (`update_bonds` applies PEPTIDE only to residues that are neither first nor last; `set_termini` applies NTERM / CTERM to those) -/
def posRefs (r : ResDef) : List ResDef :=
  [[str "PEPTIDE"], [str "NTERM"], [str "CTERM"]].filterMap
    (fun ps => P2P.Rigid.applyAll patches r ps)

def hydrogens (r : ResDef) : List Str := r.names.filter (fun n => n.head? = some 'H')

/-- the atoms present when hydrogens are added to a residue whose heavy atoms are complete:
the heavy atoms, `N+1` / `C-1` where the reference has them, and the hydrogens listed before `h` -/
def presentFor (r : ResDef) (h : Str) : List Str :=
  heavyAll r ++ (hydrogens r).takeWhile (fun n => n ≠ h)

/-- **Every hydrogen is fitted locally** when the heavy atoms are complete: for every definition,
at every chain position, whichever of the earlier hydrogens exist, the three atoms a hydrogen is
superposed on are pairwise at most two template bonds apart. (Checked for the two extreme presence
patterns: no other hydrogen yet, and every hydrogen listed before it.) -/
theorem hydrogen_fits_local :
    bases.all (fun b => (posRefs b).all (fun r => (hydrogens r).all (fun h =>
      fitLocal r (heavyAll r) h && fitLocal r (presentFor r h) h))) = true := by
  decide +kernel

theorem posRefs_complete : bases.all (fun b => (posRefs b).length = 3) = true := by
  decide +kernel

end P2P.Proofs.RepairFit
