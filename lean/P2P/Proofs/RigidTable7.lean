import P2P.Proofs.RigidBase
namespace P2P.Proofs.RigidTable
/-- kernel evaluation of `baseOK` on base definitions 21 … 23 of the regenerated topology -/
theorem chunk7 : chunkOK 7 = true := by decide +kernel
end P2P.Proofs.RigidTable
