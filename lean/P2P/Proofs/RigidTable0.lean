import P2P.Proofs.RigidBase
namespace P2P.Proofs.RigidTable
/-- kernel evaluation of `baseOK` on base definitions 0 … 2 of the regenerated topology -/
theorem chunk0 : chunkOK 0 = true := by decide +kernel
end P2P.Proofs.RigidTable
