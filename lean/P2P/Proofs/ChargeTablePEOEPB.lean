import P2P.Proofs.ChargeTableBase
namespace P2P.Proofs.ChargeTable
/-- kernel evaluation of the PEOEPB column of the charge table -/
theorem ok_PEOEPB : tableOK ("PEOEPB", P2P.Gen.FFCharges.PEOEPB) = true := by decide +kernel
theorem cov_PEOEPB : covered P2P.Gen.FFCharges.PEOEPB = 70 := by decide +kernel
end P2P.Proofs.ChargeTable
