import P2P.Proofs.RigidBase
namespace P2P.Proofs.RigidTable
/-- kernel evaluation of `baseOK` on base definitions 15 … 17 of the regenerated topology -/
theorem chunk5 : chunkOK 5 = true := by decide +kernel
end P2P.Proofs.RigidTable
