import P2P.Proofs.RigidLemmas

/-!
  The torsion a torsion change leaves behind. `cosTor` / `sinTor` are the cosine and the sine of the
  torsion c1-c2-c3-c4 exactly as `utilities.dihedral` computes them (`scal`, and `chiral` divided by
  the length of the axis). Turning c4 about the axis c2-c3 by `diff` degrees
  (`Debump.set_dihedral_angle` on a moved atom, `torsionMap`) turns the pair (cos, sin) by `diff`:
  so after setting `diff = angle - old` the torsion's cosine and sine are those of `angle`.
-/
namespace P2P.Proofs.Dihedral
open P2P P2P.Geom P2P.Rigid P2P.Proofs.Geom

/-- unit normal of the plane c1, c2, c3 as the code forms it -/
noncomputable def planeA (c1 c2 c3 : V3 ℝ) : V3 ℝ :=
  V3.normalize (V3.cross (V3.sub c1 c2) (V3.sub c3 c2))

/-- unit normal of the plane c2, c3, c4 as the code forms it -/
noncomputable def planeB (c2 c3 c4 : V3 ℝ) : V3 ℝ :=
  V3.normalize (V3.cross (V3.sub c4 c3) (V3.sub c3 c2))

/-- `scal` of `utilities.dihedral` -/
noncomputable def cosTor (c1 c2 c3 c4 : V3 ℝ) : ℝ := V3.dot (planeA c1 c2 c3) (planeB c2 c3 c4)

/-- `chiral` of `utilities.dihedral` divided by the length of the axis -/
noncomputable def sinTor (c1 c2 c3 c4 : V3 ℝ) : ℝ :=
  V3.dot (V3.cross (planeA c1 c2 c3) (planeB c2 c3 c4)) (V3.normalize (V3.sub c3 c2))

/-- neither c1 nor c4 lies on the axis c2-c3 (in particular c2 ≠ c3) -/
def NonDeg (c1 c2 c3 c4 : V3 ℝ) : Prop :=
  V3.dot (V3.cross (V3.sub c1 c2) (V3.sub c3 c2)) (V3.cross (V3.sub c1 c2) (V3.sub c3 c2)) ≠ 0 ∧
  V3.dot (V3.cross (V3.sub c4 c3) (V3.sub c3 c2)) (V3.cross (V3.sub c4 c3) (V3.sub c3 c2)) ≠ 0

/-- degrees to radians as `chiMatrix` does it -/
noncomputable def rad (deg : ℝ) : ℝ := Real.pi * deg / 180


/-! ### helpers -/

theorem lt_eq (a b : ℝ) : (GNum.lt a b : Bool) = decide (a < b) := rfl
theorem abs_eq (x : ℝ) : (GNum.abs x : ℝ) = |x| := rfl
theorem acos_eq (x : ℝ) : (GNum.acos x : ℝ) = Real.arccos x := rfl

theorem rad_eq (diff : ℝ) : (GNum.pi * diff / GNum.dec 1800 1 : ℝ) = rad diff := by
  simp only [pi_eq, dec_eq, rad]
  norm_num

/-- two unit vectors perpendicular to a unit axis: cos² + sin² = 1 -/
theorem unit_perp_identity (a b l : V3 ℝ) (haa : V3.dot a a = 1) (hbb : V3.dot b b = 1)
    (hll : V3.dot l l = 1) (hal : V3.dot a l = 0) (hbl : V3.dot b l = 0) :
    V3.dot a b ^ 2 + V3.dot (V3.cross a b) l ^ 2 = 1 := by
  obtain ⟨ax, ay, az⟩ := a
  obtain ⟨bx, by', bz⟩ := b
  obtain ⟨lx, ly, lz⟩ := l
  simp only [V3.dot, V3.cross] at *
  linear_combination
    ((ay * bz - az * by') ^ 2 + (az * bx - ax * bz) ^ 2 + (ax * by' - ay * bx) ^ 2) * hll +
    (bx * bx + by' * by' + bz * bz) * haa + hbb -
    ((bx * bx + by' * by' + bz * bz) * (ax * lx + ay * ly + az * lz) -
      2 * (ax * bx + ay * by' + az * bz) * (bx * lx + by' * ly + bz * lz)) * hal -
    ((ax * ax + ay * ay + az * az) * (bx * lx + by' * ly + bz * lz)) * hbl

theorem dot_normalize (X Y : V3 ℝ) :
    V3.dot (V3.normalize X) (V3.normalize Y) = V3.dot X Y / (V3.norm X * V3.norm Y) := by
  simp only [V3.normalize, V3.dot]
  ring

theorem dot_cross_right (u e : V3 ℝ) : V3.dot (V3.cross u e) e = 0 := by
  simp only [V3.dot, V3.cross]; ring

/-- the normal of a plane through the axis is perpendicular to the unit axis -/
theorem plane_perp (u e : V3 ℝ) :
    V3.dot (V3.normalize (V3.cross u e)) (V3.normalize e) = 0 := by
  rw [dot_normalize, dot_cross_right, zero_div]

theorem dot_self_zero (e : V3 ℝ) (h : V3.dot e e = 0) : e.x = 0 ∧ e.y = 0 ∧ e.z = 0 := by
  simp only [V3.dot] at h
  have hx := mul_self_nonneg e.x
  have hy := mul_self_nonneg e.y
  have hz := mul_self_nonneg e.z
  refine ⟨mul_self_eq_zero.1 ?_, mul_self_eq_zero.1 ?_, mul_self_eq_zero.1 ?_⟩ <;> linarith

theorem axis_ne (c1 c2 c3 c4 : V3 ℝ) (h : NonDeg c1 c2 c3 c4) :
    V3.dot (V3.sub c3 c2) (V3.sub c3 c2) ≠ 0 := by
  intro h0
  obtain ⟨hx, hy, hz⟩ := dot_self_zero _ h0
  apply h.1
  simp only [V3.dot, V3.cross, hx, hy, hz]
  ring

theorem planeA_unit (c1 c2 c3 c4 : V3 ℝ) (h : NonDeg c1 c2 c3 c4) :
    V3.dot (planeA c1 c2 c3) (planeA c1 c2 c3) = 1 := normalize_unit_core _ h.1

theorem planeB_unit (c1 c2 c3 c4 : V3 ℝ) (h : NonDeg c1 c2 c3 c4) :
    V3.dot (planeB c2 c3 c4) (planeB c2 c3 c4) = 1 := normalize_unit_core _ h.2

/-- a vector is its length times its normalisation -/
theorem smul_norm_normalize (e : V3 ℝ) (he : V3.dot e e ≠ 0) :
    e = V3.smul (V3.norm e) (V3.normalize e) := by
  have hn := norm_ne_zero e he
  apply V3.ext' <;> simp only [V3.smul, V3.normalize] <;> field_simp

/-- the turn commutes with taking the cross product with (a multiple of) the axis -/
theorem chi_cross_axis (l : V3 ℝ) (diff t : ℝ) (u : V3 ℝ) :
    V3.cross (rotPoint (chiMatrix l diff) u) (V3.smul t l) =
      rotPoint (chiMatrix l diff) (V3.cross u (V3.smul t l)) := by
  obtain ⟨a, b, d⟩ := l
  obtain ⟨x, y, z⟩ := u
  simp only [rotPoint, chiMatrix, V3.smul, V3.cross, ofNat_eq, cos_eq, sin_eq]
  generalize (GNum.pi * diff / GNum.dec 1800 1 : ℝ) = r
  set c := Real.cos r
  set s := Real.sin r
  apply V3.ext'
  · simp only
    ring
  · simp only
    ring
  · simp only
    ring

/-- the turn of a vector perpendicular to the axis, seen from any `a`: the pair
(`a·w`, `(a×w)·l`) is turned by the angle -/
theorem rot_key (l : V3 ℝ) (hl : V3.dot l l = 1) (diff : ℝ) (a w : V3 ℝ) (hwl : V3.dot w l = 0) :
    V3.dot a (rotPoint (chiMatrix l diff) w) =
      Real.cos (rad diff) * V3.dot a w - Real.sin (rad diff) * V3.dot (V3.cross a w) l ∧
    V3.dot (V3.cross a (rotPoint (chiMatrix l diff) w)) l =
      Real.sin (rad diff) * V3.dot a w + Real.cos (rad diff) * V3.dot (V3.cross a w) l := by
  obtain ⟨lx, ly, lz⟩ := l
  obtain ⟨ax, ay, az⟩ := a
  obtain ⟨x, y, z⟩ := w
  simp only [V3.dot] at hl hwl
  simp only [rotPoint, chiMatrix, V3.dot, V3.cross, ofNat_eq, cos_eq, sin_eq, rad_eq]
  set c := Real.cos (rad diff)
  set s := Real.sin (rad diff)
  constructor
  · linear_combination ((1 - c) * (ax * lx + ay * ly + az * lz)) * hwl
  · linear_combination (s * (ax * x + ay * y + az * z)) * hl - (s * (ax * lx + ay * ly + az * lz)) * hwl

theorem rotPoint_div (m : M3 ℝ) (p : V3 ℝ) (n : ℝ) :
    rotPoint m ⟨p.x / n, p.y / n, p.z / n⟩ =
      ⟨(rotPoint m p).x / n, (rotPoint m p).y / n, (rotPoint m p).z / n⟩ := by
  apply V3.ext' <;> simp only [rotPoint] <;> ring

/-- a turn about a unit axis commutes with normalisation -/
theorem chi_normalize (l : V3 ℝ) (hl : V3.dot l l = 1) (diff : ℝ) (w : V3 ℝ) :
    V3.normalize (rotPoint (chiMatrix l diff) w) = rotPoint (chiMatrix l diff) (V3.normalize w) := by
  have hn : V3.norm (rotPoint (chiMatrix l diff) w) = V3.norm w := by
    unfold V3.norm
    rw [chi_isometry_core l hl]
  simp only [V3.normalize, hn]
  rw [rotPoint_div]

/-- the second plane normal after the turn is the turned plane normal -/
theorem planeB_torsionMap (c2 c3 c4 : V3 ℝ) (he : V3.dot (V3.sub c3 c2) (V3.sub c3 c2) ≠ 0) (diff : ℝ) :
    planeB c2 c3 (torsionMap c2 c3 diff c4) =
      rotPoint (chiMatrix (V3.normalize (V3.sub c3 c2)) diff) (planeB c2 c3 c4) := by
  have hu := normalize_unit_core _ he
  have hsm := smul_norm_normalize _ he
  have hfix := chi_fixes_axis_core _ hu diff (V3.norm (V3.sub c3 c2))
  rw [← hsm] at hfix
  have h1 : V3.sub (torsionMap c2 c3 diff c4) c3 =
      rotPoint (chiMatrix (V3.normalize (V3.sub c3 c2)) diff) (V3.sub c4 c3) := by
    have e1 : V3.sub (torsionMap c2 c3 diff c4) c3 =
        V3.sub (rotPoint (chiMatrix (V3.normalize (V3.sub c3 c2)) diff) (V3.sub c4 c2)) (V3.sub c3 c2) := by
      apply V3.ext' <;> simp only [torsionMap, V3.sub, V3.add] <;> ring
    have e2 : V3.sub c4 c3 = V3.sub (V3.sub c4 c2) (V3.sub c3 c2) := by
      apply V3.ext' <;> simp only [V3.sub] <;> ring
    rw [e1, e2, rotPoint_sub _ (V3.sub c4 c2) (V3.sub c3 c2), hfix]
  have h2 : V3.cross (V3.sub (torsionMap c2 c3 diff c4) c3) (V3.sub c3 c2) =
      rotPoint (chiMatrix (V3.normalize (V3.sub c3 c2)) diff) (V3.cross (V3.sub c4 c3) (V3.sub c3 c2)) := by
    rw [h1]
    have := chi_cross_axis (V3.normalize (V3.sub c3 c2)) diff (V3.norm (V3.sub c3 c2)) (V3.sub c4 c3)
    rw [← hsm] at this
    exact this
  unfold planeB
  rw [h2, chi_normalize _ hu]

theorem tor_unit_core (c1 c2 c3 c4 : V3 ℝ) (h : NonDeg c1 c2 c3 c4) :
    cosTor c1 c2 c3 c4 ^ 2 + sinTor c1 c2 c3 c4 ^ 2 = 1 := by
  have he := axis_ne c1 c2 c3 c4 h
  exact unit_perp_identity _ _ _ (planeA_unit c1 c2 c3 c4 h) (planeB_unit c1 c2 c3 c4 h)
    (normalize_unit_core _ he) (plane_perp _ _) (plane_perp _ _)

/-- turning c4 about the axis by `diff` degrees turns (cos, sin) of the torsion by `diff` -/
theorem tor_rotates_core (c1 c2 c3 c4 : V3 ℝ) (h : NonDeg c1 c2 c3 c4) (diff : ℝ) :
    cosTor c1 c2 c3 (torsionMap c2 c3 diff c4) =
      Real.cos (rad diff) * cosTor c1 c2 c3 c4 - Real.sin (rad diff) * sinTor c1 c2 c3 c4 ∧
    sinTor c1 c2 c3 (torsionMap c2 c3 diff c4) =
      Real.sin (rad diff) * cosTor c1 c2 c3 c4 + Real.cos (rad diff) * sinTor c1 c2 c3 c4 := by
  have he := axis_ne c1 c2 c3 c4 h
  have hu := normalize_unit_core _ he
  unfold cosTor sinTor
  rw [planeB_torsionMap c2 c3 c4 he diff]
  exact rot_key _ hu diff (planeA c1 c2 c3) (planeB c2 c3 c4) (plane_perp _ _)

/-- **the requested torsion**: if `old` is the torsion before (its cosine and sine are the ones the
code measures), turning by `angle - old` leaves a torsion whose cosine and sine are those of `angle` -/
theorem tor_set_core (c1 c2 c3 c4 : V3 ℝ) (h : NonDeg c1 c2 c3 c4) (old angle : ℝ)
    (hold : Real.cos (rad old) = cosTor c1 c2 c3 c4 ∧ Real.sin (rad old) = sinTor c1 c2 c3 c4) :
    cosTor c1 c2 c3 (torsionMap c2 c3 (angle - old) c4) = Real.cos (rad angle) ∧
    sinTor c1 c2 c3 (torsionMap c2 c3 (angle - old) c4) = Real.sin (rad angle) := by
  obtain ⟨h1, h2⟩ := tor_rotates_core c1 c2 c3 c4 h (angle - old)
  have hr : rad angle = rad (angle - old) + rad old := by unfold rad; ring
  rw [h1, h2, hr, Real.cos_add, Real.sin_add, hold.1, hold.2]
  exact ⟨rfl, rfl⟩

/-- `utilities.dihedral` over the reals, written with `cosTor` and the plane normals -/
theorem dihedral_unfold (r2d small : ℝ) (c1 c2 c3 c4 : V3 ℝ) :
    dihedral r2d small c1 c2 c3 c4 =
      if V3.dot (V3.cross (planeA c1 c2 c3) (planeB c2 c3 c4)) (V3.sub c3 c2) < 0 then
        (if |cosTor c1 c2 c3 c4 + 1| < small then 180
          else if |cosTor c1 c2 c3 c4 - 1| < small then 0
          else r2d * Real.arccos (cosTor c1 c2 c3 c4)) * -1
      else
        (if |cosTor c1 c2 c3 c4 + 1| < small then 180
          else if |cosTor c1 c2 c3 c4 - 1| < small then 0
          else r2d * Real.arccos (cosTor c1 c2 c3 c4)) := by
  have e1 : (GNum.dec 10 1 : ℝ) = 1 := by simp only [dec_eq]; norm_num
  have e2 : (GNum.dec 1800 1 : ℝ) = 180 := by simp only [dec_eq]; norm_num
  have e3 : (GNum.dec 0 0 : ℝ) = 0 := by simp only [dec_eq]; norm_num
  unfold dihedral cosTor planeA planeB
  simp only [lt_eq, abs_eq, acos_eq, e1, e2, e3, decide_eq_true_eq]

/-- the value `utilities.dihedral` returns has that cosine and sine, outside the two branches in which
the code snaps to 180 or 0 degrees (`r2d` = 180/pi is `RADIANS_TO_DEGREES`) -/
theorem dihedral_value_core (c1 c2 c3 c4 : V3 ℝ) (h : NonDeg c1 c2 c3 c4) (small : ℝ) (hs : 0 < small)
    (hgen : ¬ |cosTor c1 c2 c3 c4 + 1| < small ∧ ¬ |cosTor c1 c2 c3 c4 - 1| < small) :
    Real.cos (rad (dihedral (180 / Real.pi) small c1 c2 c3 c4)) = cosTor c1 c2 c3 c4 ∧
    Real.sin (rad (dihedral (180 / Real.pi) small c1 c2 c3 c4)) = sinTor c1 c2 c3 c4 := by
  have _ := hs
  have he := axis_ne c1 c2 c3 c4 h
  have hunit := tor_unit_core c1 c2 c3 c4 h
  have hnpos : 0 < V3.norm (V3.sub c3 c2) :=
    Real.sqrt_pos.2 (lt_of_le_of_ne (dot_self_nonneg _) (Ne.symm he))
  have hchir : V3.dot (V3.cross (planeA c1 c2 c3) (planeB c2 c3 c4)) (V3.sub c3 c2) =
      V3.norm (V3.sub c3 c2) * sinTor c1 c2 c3 c4 := by
    unfold sinTor
    simp only [V3.dot, V3.normalize]
    field_simp
  have hd := dihedral_unfold (180 / Real.pi) small c1 c2 c3 c4
  rw [if_neg hgen.1, if_neg hgen.2, hchir] at hd
  have hle : -1 ≤ cosTor c1 c2 c3 c4 ∧ cosTor c1 c2 c3 c4 ≤ 1 := by
    constructor <;> nlinarith [sq_nonneg (sinTor c1 c2 c3 c4)]
  have hsq : Real.sqrt (1 - cosTor c1 c2 c3 c4 ^ 2) = |sinTor c1 c2 c3 c4| := by
    rw [show 1 - cosTor c1 c2 c3 c4 ^ 2 = sinTor c1 c2 c3 c4 ^ 2 by linarith, Real.sqrt_sq_eq_abs]
  have hrad : rad (180 / Real.pi * Real.arccos (cosTor c1 c2 c3 c4)) = Real.arccos (cosTor c1 c2 c3 c4) := by
    unfold rad
    have := Real.pi_ne_zero
    field_simp
  by_cases hc : V3.norm (V3.sub c3 c2) * sinTor c1 c2 c3 c4 < 0
  · have hneg : sinTor c1 c2 c3 c4 < 0 := by
      by_contra hcon
      have := mul_nonneg hnpos.le (not_lt.1 hcon)
      linarith
    rw [hd, if_pos hc]
    have hr2 : rad (180 / Real.pi * Real.arccos (cosTor c1 c2 c3 c4) * -1) =
        -Real.arccos (cosTor c1 c2 c3 c4) := by
      rw [show rad (180 / Real.pi * Real.arccos (cosTor c1 c2 c3 c4) * -1) =
        -rad (180 / Real.pi * Real.arccos (cosTor c1 c2 c3 c4)) by unfold rad; ring, hrad]
    rw [hr2, Real.cos_neg, Real.sin_neg, Real.cos_arccos hle.1 hle.2, Real.sin_arccos, hsq,
      abs_of_neg hneg]
    exact ⟨rfl, by ring⟩
  · have hpos : 0 ≤ sinTor c1 c2 c3 c4 := by
      by_contra hcon
      exact hc (mul_neg_of_pos_of_neg hnpos (not_le.1 hcon))
    rw [hd, if_neg hc, hrad, Real.cos_arccos hle.1 hle.2, Real.sin_arccos, hsq, abs_of_nonneg hpos]
    exact ⟨rfl, rfl⟩

end P2P.Proofs.Dihedral
