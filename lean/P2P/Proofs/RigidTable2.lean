import P2P.Proofs.RigidBase
namespace P2P.Proofs.RigidTable
/-- kernel evaluation of `baseOK` on base definitions 6 … 8 of the regenerated topology -/
theorem chunk2 : chunkOK 2 = true := by decide +kernel
end P2P.Proofs.RigidTable
