import P2P.Model.FF
import P2P.Model.State
import P2P.Proofs.FFAux3

namespace P2P.Proofs.FF
open P2P P2P.FF P2P.Regex P2P.State

/-- the `ForcefieldAtom` a parameter-file row creates -/
def entryOf (row : Row) : Entry := { name := row.atom, q := row.q, r := row.r, resname := row.res, group := row.group }

/-- dictionary well-formedness: residue keys distinct, atom keys of each residue distinct -/
def WF (m : FFMap) : Prop := (m.map (·.1)).Nodup ∧ ∀ k re, (k, re) ∈ m → (re.atoms.map (·.1)).Nodup

theorem wf_iff_inv (m : FFMap) : WF m ↔ Inv (fun _ => True) m := by
  unfold WF Inv GoodAtoms
  constructor
  · intro h
    exact ⟨h.1, fun k re hm => ⟨h.2 k re hm, fun _ _ _ => trivial⟩⟩
  · intro h
    exact ⟨h.1, fun k re hm => (h.2 k re hm).1⟩

theorem build_wf_core (rows : List Row) (secs : List Section) (canon : List Str) (m : FFMap)
    (h : build rows secs canon = .ok m) : WF m := by
  rw [wf_iff_inv]
  exact inv_build rows secs canon m (fun _ _ => trivial) h

theorem applyFF_exact_core (m : FFMap) (rs : List ARes) :
    (applyFF m rs).1 = rs.flatMap (fun r => r.atoms.filterMap (fun a =>
        (getParams m r.lookup a.name).map (fun p => (a, p.1, p.2)))) ∧
    (applyFF m rs).2 = rs.flatMap (fun r => r.atoms.filter (fun a => (getParams m r.lookup a.name).isNone)) := by
  have h : applyFF m rs = _ := applyFF_outer m rs [] []
  rw [h]
  simp

theorem applyFF_partition_core (m : FFMap) (rs : List ARes) :
    ((applyFF m rs).1.map (·.1) ++ (applyFF m rs).2).Perm (rs.flatMap (·.atoms)) := by
  rw [(applyFF_exact_core m rs).1, (applyFF_exact_core m rs).2]
  induction rs with
  | nil => simp
  | cons r rs ih =>
    simp only [List.flatMap_cons, List.map_append]
    have h1 := filterMap_fst_perm m r.lookup r.atoms
    -- (A ++ B) ++ (C ++ D) ~ (A ++ C) ++ (B ++ D)
    refine List.Perm.trans ?_ (List.Perm.append h1 ih)
    simp only [List.append_assoc]
    apply List.Perm.append_left
    rw [← List.append_assoc, ← List.append_assoc]
    apply List.Perm.append_right
    exact List.perm_append_comm

theorem build_sound_core (rows : List Row) (secs : List Section) (canon : List Str) (m : FFMap)
    (h : build rows secs canon = .ok m) :
    ∀ k re, (k, re) ∈ m → ∀ an e, (an, e) ∈ re.atoms → ∃ row ∈ rows, e = entryOf row := by
  have hi : Inv (fun e => ∃ row ∈ rows, e = entryOf row) m :=
    inv_build rows secs canon m (fun row hr => ⟨row, hr, rfl⟩) h
  intro k re hm an e he
  exact (hi.2 k re hm).2 an e he

theorem base_last_row_wins_core (rows : List Row) (res atom : Str) :
    getParams (baseMap rows) res atom =
      (rows.reverse.find? (fun r => r.res = res && r.atom = atom)).map (fun r => (r.q, r.r)) := by
  unfold baseMap
  rw [getParams_foldl_addRow]
  simp [getParams]
theorem section_rename_spec_core (canon : List Str) (m m' : FFMap) (P : Re) (U : Str) (from_ : ResEntry)
    (hw : WF m) (hU : dget? m U = some from_) (hg : containsSub U groupVar = false)
    (h : applySection canon m ⟨P, some U, []⟩ = .ok m') :
    (∀ n ∈ canon, (reMatch P n).isSome → ∀ a,
        getParams m' n a = (match getParams m U a with | some v => some v | none => getParams m n a)) ∧
    (∀ k, (k ∉ canon ∨ reMatch P k = none) → dget? m' k = dget? m k) := by
  have _ := hU   -- implied by `h` whenever a canonical name matches; not needed otherwise
  rw [applySection_rename canon m P U hg] at h
  have hmem : ∀ n, n ∈ (canon.filterMap (fun n => (reMatch P n).map (fun g => (n, g)))).map (·.1) ↔
      (n ∈ canon ∧ (reMatch P n).isSome) := by
    intro n
    simp only [List.mem_map, List.mem_filterMap, Option.map_eq_some_iff]
    constructor
    · rintro ⟨x, ⟨c, hc, g, hgm, rfl⟩, rfl⟩
      exact ⟨hc, by simp [hgm]⟩
    · rintro ⟨hc, hs⟩
      rcases Option.isSome_iff_exists.1 hs with ⟨g, hgm⟩
      exact ⟨(n, g), ⟨n, hc, g, hgm, rfl⟩, rfl⟩
  have key := rename_fold m U _ (fun _ => False) m m' ((wf_iff_inv m).1 hw) (fun _ => rfl)
    (fun _ hn => hn.elim) (fun _ _ => rfl) h
  refine ⟨?_, ?_⟩
  · intro n hn hm a
    exact key.1 n (Or.inr ((hmem n).2 ⟨hn, hm⟩)) a
  · intro k hk
    apply key.2 k (fun hf => hf)
    intro hmm
    rcases (hmem k).1 hmm with ⟨hc, hs⟩
    rcases hk with hk | hk
    · exact hk hc
    · rw [hk] at hs; cases hs

theorem section_alias_spec_core (canon : List Str) (m m' : FFMap) (P : Re) (new old : Str)
    (h : applySection canon m ⟨P, none, [(new, old)]⟩ = .ok m') :
    ∀ k a, getParams m' k a =
      (if (reMatch P k).isSome && a = new then
         (match getParams m k old with | some v => some v | none => getParams m k new)
       else getParams m k a) := by
  rw [applySection_alias] at h
  injection h with h
  subst h
  intro k a
  unfold getParams
  rw [dget?_map m (aliasFn P new old)]
  cases hk : dget? m k with
  | none => simp
  | some re =>
    simp only [Option.map_some, aliasFn]
    by_cases hm : (reMatch P k).isSome = true
    · simp only [hm, if_true, Bool.true_and]
      cases ho : dget? re.atoms old with
      | none =>
        simp only [Option.map_none]
        by_cases ha : a = new
        · simp [ha]
        · simp [ha]
      | some e =>
        simp only [Option.map_some, dget?_dset]
        by_cases ha : a = new
        · simp [ha]
        · simp [ha]
    · simp [hm]
theorem nterm_priority_core (r : RInfo) (ha : isAmino r = true) (hp : r.cls ≠ str "PRO") (hn : r.isNterm = true)
    (s : Str) (hs : sideState r = some s) :
    lookupName r = some (if patched r "NEUTRAL-NTERM" then str "NEUTRAL-N" ++ s else ['N'] ++ s) := by
  simp [lookupName, ha, hs, hp, terminusPrefix, hn]

theorem pro_nterm_core (r : RInfo) (hp : r.cls = str "PRO") (hn : r.isNterm = true) :
    lookupName r = some (['N'] ++ r.name) := by
  have ha : isAmino r = true := by
    unfold isAmino; rw [hp]; decide
  have hs : sideState r = some r.name := by
    unfold sideState
    simp only [hp]
    have e1 : (str "PRO" = str "ARG") = False := by decide
    have e2 : (str "PRO" = str "ASP") = False := by decide
    have e3 : (str "PRO" = str "CYS") = False := by decide
    have e4 : (str "PRO" = str "GLU") = False := by decide
    have e5 : (str "PRO" = str "HIS") = False := by decide
    have e6 : (str "PRO" = str "LYS") = False := by decide
    have e7 : (str "PRO" = str "TYR") = False := by decide
    simp only [e1, e2, e3, e4, e5, e6, e7, if_false]
  simp [lookupName, ha, hs, hp, proPrefix, hn]

theorem his_by_protons_core (r : RInfo) (hc : r.cls = str "HIS") (hn : r.isNterm = false) (hct : r.isCterm = false) :
    lookupName r =
      (if has r "HD1" && has r "HE2" then some (str "HIP") else if has r "HD1" then some (str "HID")
       else if has r "HE2" then some (str "HIE") else none) := by
  have ha : isAmino r = true := by
    unfold isAmino; rw [hc]; decide
  have hs : sideState r = (if has r "HD1" && has r "HE2" then some (str "HIP") else if has r "HD1" then some (str "HID")
       else if has r "HE2" then some (str "HIE") else none) := by
    unfold sideState
    simp only [hc]
    have e1 : (str "HIS" = str "ARG") = False := by decide
    have e2 : (str "HIS" = str "ASP") = False := by decide
    have e3 : (str "HIS" = str "CYS") = False := by decide
    have e4 : (str "HIS" = str "GLU") = False := by decide
    simp only [e1, e2, e3, e4, if_false, if_true]
  have hp : (r.cls = str "PRO") = False := by rw [hc]; decide
  unfold lookupName
  simp only [ha, if_true, hp, if_false, hs]
  have ht : ∀ ff, terminusPrefix r ff = ff := by
    intro ff; simp [terminusPrefix, hn, hct]
  simp only [ht]
  exact Option.map_id'

theorem water_and_other_core (r : RInfo) (hA : isAmino r = false) (hN : isNucleic r = false) :
    lookupName r = some (if isWater r then str "WAT" else r.name) := by
  simp [lookupName, hA, hN]
  split <;> rfl
end P2P.Proofs.FF
