import P2P.Proofs.ChargeTableBase
import P2P.Model.NucCharge

/-! Kernel-checked nucleic-acid charge table over the regenerated topology (NA.xml, PATCHES.xml)
and the regenerated final force-field maps (C02). -/
namespace P2P.Proofs.Nuc
open P2P P2P.NucCharge P2P.Topology P2P.Proofs.ChargeTable

/-- exact charge of a nucleotide at a strand position under a force field of this run -/
def cellOf (ff : List (Str × List (Str × Int))) : Str → Pos → Option Int :=
  nucCell P2P.Gen.Topology.residues P2P.Gen.Topology.patches ff

def ffOK (ff : String × List (Str × List (Str × Int))) : Bool :=
  kindOK unit (cellOf ff.2) dnaBases && kindOK unit (cellOf ff.2) rnaBases

theorem nuc_ok_all : P2P.Gen.FFCharges.all.all ffOK = true := by decide +kernel

/-- parameterised cells per force field: (DNA, RNA), 12 each at most -/
theorem nuc_coverage :
    P2P.Gen.FFCharges.all.map (fun ff => (ff.1, kindCovered (cellOf ff.2) dnaBases, kindCovered (cellOf ff.2) rnaBases)) =
      [("AMBER", 12, 12), ("CHARMM", 12, 12), ("PARSE", 0, 12), ("PEOEPB", 0, 0), ("SWANSON", 0, 0), ("TYL06", 12, 12)] := by
  decide +kernel

/-- the 5'-phosphate is removed and the capping hydrogen present on every 5' residue -/
theorem five_end_shape :
    bases.all (fun b => match runtimeAtoms P2P.Gen.Topology.residues P2P.Gen.Topology.patches b .five with
      | some atoms => fiveEndShape atoms | none => false) = true := by decide +kernel

/-- a chimeric strand (DNA 5' end, RNA 3' end) is NOT integral under AMBER: −0.9998 e -/
theorem chimera_amber :
    strandTotal (cellOf P2P.Gen.FFCharges.AMBER) ⟨str "DA", [], str "RU"⟩ = some (-9998000) := by decide +kernel

def sameSetB (a b : List Str) : Bool := a.all (fun n => b.contains n) && b.all (fun n => a.contains n)

/-- the run-time reference of an end nucleotide (base definition + 5TERM / 3TERM, `Biomolecule.apply_patch`) has
the atoms of the definition `Definition.__init__` built at load time under the look-up name (DA5, RU3 …) -/
def namedOK (b : Str) (p : Pos) : Bool :=
  match runtimeAtoms P2P.Gen.Topology.residues P2P.Gen.Topology.patches b p, findRes P2P.Gen.Topology.residues (ffName b p) with
  | some atoms, some d => sameSetB atoms d.names
  | _, _ => false

theorem nuc_named_all : bases.all (fun b => namedOK b .five && namedOK b .mid && namedOK b .three) = true := by
  decide +kernel

end P2P.Proofs.Nuc
