import P2P.Model.Pka
import P2P.Model.State
import P2P.Gen.FFKeys
import Mathlib.Order.Defs.LinearOrder
import Mathlib.Order.Basic

namespace P2P.Proofs.Pka
open P2P P2P.Pka P2P.State

/-- formal charge of the side-chain group of residue type `rn` after the actions -/
def sideCharge (rn : Str) (acts : List Action) : Int :=
  let p (n : String) : Bool := acts.contains (.patch (str n))
  if rn = str "ASP" then (if p "ASH" then 0 else -1)
  else if rn = str "GLU" then (if p "GLH" then 0 else -1)
  else if rn = str "HIS" then (if p "HIP" then 1 else 0)
  else if rn = str "CYS" then (if p "CYM" then -1 else 0)
  else if rn = str "LYS" then (if p "LYN" then 0 else 1)
  else if rn = str "TYR" then (if p "TYM" then -1 else 0)
  else if rn = str "ARG" then (if p "AR0" then 0 else 1)
  else 0

/-- formal charge of the two termini of a one-residue chain after the actions -/
def terminiCharge (acts : List Action) : Int :=
  (if acts.contains (.patch (str "NEUTRAL-NTERM")) then 0 else 1) +
  (if acts.contains (.patch (str "NEUTRAL-CTERM")) then 0 else -1)

def sixFF : List Str := ["amber", "charmm", "parse", "peoepb", "swanson", "tyl06"].map str
def titratable : List Str := ["ARG", "ASP", "CYS", "GLU", "HIS", "LYS", "TYR"].map str

/-- the name the residue is looked up by after the titration patch `p` -/
def nameAfter (rn : Str) (isN isC : Bool) (p : Str) : Option Str :=
  lookupName { cls := rn, name := rn, patches := [p], isNterm := isN, isCterm := isC, is5term := false,
               is3term := false, ssBonded := false, atoms := [str "HD1", str "HE2", str "HG"] }

def hasResidue (ff : Str) (n : Option Str) : Bool :=
  match n with
  | some k => (Gen.FFKeys.byName ff).any (·.1 = k)
  | none => false

/-- every patch the decision tree applies (both sides of the pKa: `ph = 1`, `v ∈ {0, 2}`)
names a residue of the force field's final map; for the termini: every amino-acid type -/
def allCellsSupported : Bool :=
  sixFF.all (fun ff => titratable.all (fun rn => [false, true].all (fun isN => [false, true].all (fun isC =>
    [0, 2].all (fun v =>
      (pkaStep Nat.blt ff rn isN isC 1 none none (some v)).all (fun a =>
        match a with
        | .patch p => hasResidue ff (nameAfter rn isN isC p)
        | .warn => true)))))) &&
  sixFF.all (fun ff => aminoClasses.all (fun rn => [0, 2].all (fun v =>
    (pkaStep Nat.blt ff rn true true 1 (some v) (some v) none).all (fun a =>
      match a with
      | .patch p => hasResidue ff (nameAfter rn (p = str "NEUTRAL-NTERM") (p = str "NEUTRAL-CTERM") p)
      | .warn => true))))

theorem one_decision_core {α : Type} (lt : α → α → Bool) (ff rn : Str) (isN isC : Bool) (ph : α) (v : Option α) :
    (pkaStep lt ff rn isN isC ph none none v = [] ∨ pkaStep lt ff rn isN isC ph none none v = [.warn] ∨
     (∃ p, pkaStep lt ff rn isN isC ph none none v = [.patch p]) ∨
     pkaStep lt ff rn isN isC ph none none v = [.patch (str "AR0"), .warn]) := by
  sorry

theorem group_charge_antitone_core {α : Type} [LinearOrder α] (ff rn : Str) (isN isC : Bool) (v : α) (ph₁ ph₂ : α)
    (h : ph₁ ≤ ph₂) :
    sideCharge rn (pkaStep (fun a b => decide (a < b)) ff rn isN isC ph₂ none none (some v)) ≤
    sideCharge rn (pkaStep (fun a b => decide (a < b)) ff rn isN isC ph₁ none none (some v)) := by
  sorry

theorem termini_charge_antitone_core {α : Type} [LinearOrder α] (ff rn : Str) (vN vC : α) (ph₁ ph₂ : α)
    (h : ph₁ ≤ ph₂) :
    terminiCharge (pkaStep (fun a b => decide (a < b)) ff rn true true ph₂ (some vN) (some vC) none) ≤
    terminiCharge (pkaStep (fun a b => decide (a < b)) ff rn true true ph₁ (some vN) (some vC) none) := by
  sorry

theorem total_charge_antitone_core {α : Type} [LinearOrder α] (ff : Str) (groups : List (Str × Bool × Bool × α))
    (ph₁ ph₂ : α) (h : ph₁ ≤ ph₂) :
    (groups.map (fun g => sideCharge g.1 (pkaStep (fun a b => decide (a < b)) ff g.1 g.2.1 g.2.2.1 ph₂ none none (some g.2.2.2)))).sum ≤
    (groups.map (fun g => sideCharge g.1 (pkaStep (fun a b => decide (a < b)) ff g.1 g.2.1 g.2.2.1 ph₁ none none (some g.2.2.2)))).sum := by
  sorry

theorem side_keys_reach_groups_core {α : Type} (rn ch : Str) (num : Int) (v : α) (label : Str)
    (hl : rn.isPrefixOf label = true) (hrn : rn ≠ [] ∧ rn.all (fun c => !isWs c) = true)
    (hch : ch ≠ [] ∧ ch.all (fun c => !isWs c) = true) :
    (pkaDict [⟨rn, num, ch, label, v⟩]).map (·.1) = [keyS rn num ch] := by
  sorry

end P2P.Proofs.Pka
