import P2P.Model.Pka
import P2P.Model.State
import P2P.Gen.FFKeys
import P2P.Proofs.TextLemmas
import Mathlib.Order.Defs.LinearOrder
import Mathlib.Order.Basic

namespace P2P.Proofs.Pka
open P2P P2P.Pka P2P.State

/-- formal charge of the side-chain group of residue type `rn` after the actions -/
def sideCharge (rn : Str) (acts : List Action) : Int :=
  let p (n : String) : Bool := acts.contains (.patch (str n))
  if rn = str "ASP" then (if p "ASH" then 0 else -1)
  else if rn = str "GLU" then (if p "GLH" then 0 else -1)
  else if rn = str "HIS" then (if p "HIP" then 1 else 0)
  else if rn = str "CYS" then (if p "CYM" then -1 else 0)
  else if rn = str "LYS" then (if p "LYN" then 0 else 1)
  else if rn = str "TYR" then (if p "TYM" then -1 else 0)
  else if rn = str "ARG" then (if p "AR0" then 0 else 1)
  else 0

/-- formal charge of the two termini of a one-residue chain after the actions -/
def terminiCharge (acts : List Action) : Int :=
  (if acts.contains (.patch (str "NEUTRAL-NTERM")) then 0 else 1) +
  (if acts.contains (.patch (str "NEUTRAL-CTERM")) then 0 else -1)

def sixFF : List Str := ["amber", "charmm", "parse", "peoepb", "swanson", "tyl06"].map str
def titratable : List Str := ["ARG", "ASP", "CYS", "GLU", "HIS", "LYS", "TYR"].map str

/-- the name the residue is looked up by after the titration patch `p` -/
def nameAfter (rn : Str) (isN isC : Bool) (p : Str) : Option Str :=
  lookupName { cls := rn, name := rn, patches := [p], isNterm := isN, isCterm := isC, is5term := false,
               is3term := false, ssBonded := false, atoms := [str "HD1", str "HE2", str "HG"] }

def hasResidue (ff : Str) (n : Option Str) : Bool :=
  match n with
  | some k => (Gen.FFKeys.byName ff).any (·.1 = k)
  | none => false

/-- every patch the decision tree applies (both sides of the pKa: `ph = 1`, `v ∈ {0, 2}`)
names a residue of the force field's final map; for the termini: every amino-acid type -/
def allCellsSupported : Bool :=
  sixFF.all (fun ff => titratable.all (fun rn => [false, true].all (fun isN => [false, true].all (fun isC =>
    [0, 2].all (fun v =>
      (pkaStep Nat.blt ff rn isN isC 1 none none (some v)).all (fun a =>
        match a with
        | .patch p => hasResidue ff (nameAfter rn isN isC p)
        | .warn => true)))))) &&
  sixFF.all (fun ff => aminoClasses.all (fun rn => [0, 2].all (fun v =>
    (pkaStep Nat.blt ff rn true true 1 (some v) (some v) none).all (fun a =>
      match a with
      | .patch p => hasResidue ff (nameAfter rn (p = str "NEUTRAL-NTERM") (p = str "NEUTRAL-CTERM") p)
      | .warn => true))))

/-! ### helpers: the decision tree as a function of the Boolean comparisons -/

/-- the side-chain branch of `pkaStep` as a function of the Boolean `b = lt ph v` -/
def sideB (ff resname : Str) (isN isC : Bool) (b : Bool) : List Action :=
  let others := ["amber", "charmm", "tyl06", "peoepb", "swanson"]
  let ats := ["amber", "tyl06", "swanson"]
  if resname = str "ARG" && !b then
    (if ff = str "parse" then [.patch (str "AR0"), .warn] else [.warn])
  else if resname = str "ASP" && b then
    (if isC && isIn ff ats then [.warn] else if isN && isIn ff ats then [.warn] else [.patch (str "ASH")])
  else if resname = str "CYS" && !b then
    (if isIn ff ["charmm", "peoepb"] then [.warn]
     else if isIn ff ats && isC then [.warn]
     else if isIn ff ats && isN then [.warn]
     else [.patch (str "CYM")])
  else if resname = str "GLU" && b then
    (if ff = str "peoepb" then [.warn]
     else if isC && isIn ff ats then [.warn] else if isN && isIn ff ats then [.warn] else [.patch (str "GLH")])
  else if resname = str "HIS" && b then [.patch (str "HIP")]
  else if resname = str "LYS" && !b then
    (if isIn ff ["charmm", "peoepb"] then [.warn]
     else if isIn ff ats && isC then [.warn]
     else if isIn ff ats && isN then [.warn]
     else [.patch (str "LYN")])
  else if resname = str "TYR" && !b then
    (if isIn ff others then [.warn] else [.patch (str "TYM")])
  else []

theorem pkaStep_side {α : Type} (lt : α → α → Bool) (ff rn : Str) (isN isC : Bool) (ph v : α) :
    pkaStep lt ff rn isN isC ph none none (some v) = sideB ff rn isN isC (lt ph v) := by
  cases isN <;> cases isC <;> rfl

theorem pkaStep_none {α : Type} (lt : α → α → Bool) (ff rn : Str) (isN isC : Bool) (ph : α) :
    pkaStep lt ff rn isN isC ph none none none = [] := by
  cases isN <;> cases isC <;> rfl

def Good (l : List Action) : Prop :=
  l = [] ∨ l = [.warn] ∨ (∃ p, l = [.patch p]) ∨ l = [.patch (str "AR0"), .warn]

theorem good_ite {c : Prop} [Decidable c] {a b : List Action} (ha : Good a) (hb : Good b) :
    Good (if c then a else b) := by split <;> assumption
theorem good_nil : Good [] := .inl rfl
theorem good_warn : Good [.warn] := .inr (.inl rfl)
theorem good_patch (p : Str) : Good [.patch p] := .inr (.inr (.inl ⟨p, rfl⟩))
theorem good_ar0 : Good [.patch (str "AR0"), .warn] := .inr (.inr (.inr rfl))

theorem good_sideB (ff rn : Str) (isN isC b : Bool) : Good (sideB ff rn isN isC b) := by
  unfold sideB
  repeat (first | exact good_nil | exact good_warn | exact good_patch _ | exact good_ar0 | apply good_ite)

theorem one_decision_core {α : Type} (lt : α → α → Bool) (ff rn : Str) (isN isC : Bool) (ph : α) (v : Option α) :
    (pkaStep lt ff rn isN isC ph none none v = [] ∨ pkaStep lt ff rn isN isC ph none none v = [.warn] ∨
     (∃ p, pkaStep lt ff rn isN isC ph none none v = [.patch p]) ∨
     pkaStep lt ff rn isN isC ph none none v = [.patch (str "AR0"), .warn]) := by
  cases v with
  | none => rw [pkaStep_none]; exact good_nil
  | some v => rw [pkaStep_side]; exact good_sideB ff rn isN isC (lt ph v)

theorem sideB_step (ff rn : Str) (isN isC : Bool) :
    sideCharge rn (sideB ff rn isN isC false) ≤ sideCharge rn (sideB ff rn isN isC true) := by
  by_cases h1 : rn = str "ARG"
  · subst h1; simp [sideB, sideCharge, str]; split_ifs <;> omega
  by_cases h2 : rn = str "ASP"
  · subst h2; simp [sideB, sideCharge, str]; split_ifs <;> omega
  by_cases h3 : rn = str "CYS"
  · subst h3; simp [sideB, sideCharge, str]; split_ifs <;> omega
  by_cases h4 : rn = str "GLU"
  · subst h4; simp [sideB, sideCharge, str]; split_ifs <;> omega
  by_cases h5 : rn = str "HIS"
  · subst h5; simp [sideB, sideCharge, str]
  by_cases h6 : rn = str "LYS"
  · subst h6; simp [sideB, sideCharge, str]; split_ifs <;> omega
  by_cases h7 : rn = str "TYR"
  · subst h7; simp [sideB, sideCharge, str]; split_ifs <;> omega
  simp [sideCharge, h1, h2, h3, h4, h5, h6, h7]

theorem group_charge_antitone_core {α : Type} [LinearOrder α] (ff rn : Str) (isN isC : Bool) (v : α) (ph₁ ph₂ : α)
    (h : ph₁ ≤ ph₂) :
    sideCharge rn (pkaStep (fun a b => decide (a < b)) ff rn isN isC ph₂ none none (some v)) ≤
    sideCharge rn (pkaStep (fun a b => decide (a < b)) ff rn isN isC ph₁ none none (some v)) := by
  rw [pkaStep_side, pkaStep_side]
  by_cases h2 : ph₂ < v
  · have h1 : ph₁ < v := lt_of_le_of_lt h h2
    simp only [h1, h2, decide_true]; exact Int.le_refl _
  · by_cases h1 : ph₁ < v
    · simp only [h1, h2, decide_true, decide_false]
      exact sideB_step ff rn isN isC
    · simp only [h1, h2, decide_false]; exact Int.le_refl _

/-- the two terminus branches of `pkaStep` as a function of `bN = lt ph vN`, `bC = lt ph vC` -/
def termB (ff : Str) (bN bC : Bool) : List Action :=
  let others := ["amber", "charmm", "tyl06", "peoepb", "swanson"]
  (if !bN then (if isIn ff others then [Action.warn] else [.patch (str "NEUTRAL-NTERM")]) else []) ++
  (if bC then (if isIn ff others then [Action.warn] else [.patch (str "NEUTRAL-CTERM")]) else [])

theorem pkaStep_term {α : Type} (lt : α → α → Bool) (ff rn : Str) (ph vN vC : α) :
    pkaStep lt ff rn true true ph (some vN) (some vC) none = termB ff (lt ph vN) (lt ph vC) := by
  simp [pkaStep, termB]

theorem termB_le (ff : Str) (a₁ a₂ c₁ c₂ : Bool) (ha : a₂ = true → a₁ = true) (hc : c₂ = true → c₁ = true) :
    terminiCharge (termB ff a₂ c₂) ≤ terminiCharge (termB ff a₁ c₁) := by
  by_cases hf : isIn ff ["amber", "charmm", "tyl06", "peoepb", "swanson"] = true <;>
  cases a₁ <;> cases a₂ <;> cases c₁ <;> cases c₂ <;> simp at ha hc <;>
    simp [termB, terminiCharge, str, hf]

theorem termini_charge_antitone_core {α : Type} [LinearOrder α] (ff rn : Str) (vN vC : α) (ph₁ ph₂ : α)
    (h : ph₁ ≤ ph₂) :
    terminiCharge (pkaStep (fun a b => decide (a < b)) ff rn true true ph₂ (some vN) (some vC) none) ≤
    terminiCharge (pkaStep (fun a b => decide (a < b)) ff rn true true ph₁ (some vN) (some vC) none) := by
  rw [pkaStep_term, pkaStep_term]
  apply termB_le
  · simp only [decide_eq_true_eq]; exact fun h2 => lt_of_le_of_lt h h2
  · simp only [decide_eq_true_eq]; exact fun h2 => lt_of_le_of_lt h h2

theorem total_charge_antitone_core {α : Type} [LinearOrder α] (ff : Str) (groups : List (Str × Bool × Bool × α))
    (ph₁ ph₂ : α) (h : ph₁ ≤ ph₂) :
    (groups.map (fun g => sideCharge g.1 (pkaStep (fun a b => decide (a < b)) ff g.1 g.2.1 g.2.2.1 ph₂ none none (some g.2.2.2)))).sum ≤
    (groups.map (fun g => sideCharge g.1 (pkaStep (fun a b => decide (a < b)) ff g.1 g.2.1 g.2.2.1 ph₁ none none (some g.2.2.2)))).sum := by
  induction groups with
  | nil => simp
  | cons g gs ih =>
    simp only [List.map_cons, List.sum_cons]
    exact Int.add_le_add (group_charge_antitone_core ff g.1 g.2.1 g.2.2.1 g.2.2.2 ph₁ ph₂ h) ih

open P2P.Proofs.Text in
theorem strip_key (rn ch mid : Str) (hrn : rn ≠ [] ∧ rn.all (fun c => !isWs c) = true)
    (hch : ch ≠ [] ∧ ch.all (fun c => !isWs c) = true) :
    strip (rn ++ mid ++ ch) = rn ++ mid ++ ch := by
  obtain ⟨c, rn', rfl⟩ := List.exists_cons_of_ne_nil hrn.1
  have hc : isWs c = false := (noWs_cons.mp ((noWs_iff_all _).mpr hrn.2)).1
  have hd : isWs (ch.getLast hch.1) = false :=
    (noWs_iff_all _).mpr hch.2 _ (List.getLast_mem hch.1)
  rw [strip, List.cons_append, List.cons_append, lstrip_cons hc]
  conv => lhs; rw [← List.dropLast_concat_getLast hch.1]
  rw [← List.cons_append, ← List.cons_append, ← List.append_assoc, rstrip_concat hd,
    List.append_assoc, List.dropLast_concat_getLast hch.1]
  rfl

theorem side_keys_reach_groups_core {α : Type} (rn ch : Str) (num : Int) (v : α) (label : Str)
    (hl : rn.isPrefixOf label = true) (hrn : rn ≠ [] ∧ rn.all (fun c => !isWs c) = true)
    (hch : ch ≠ [] ∧ ch.all (fun c => !isWs c) = true) :
    (pkaDict [⟨rn, num, ch, label, v⟩]).map (·.1) = [keyS rn num ch] := by
  have hk : keyS rn num ch = rn ++ [' '] ++ intStr num ++ [' '] ++ ch := by
    have := strip_key rn ch ([' '] ++ intStr num ++ [' ']) hrn hch
    simpa [keyS, List.append_assoc] using this
  have hl' : rn <+: label := List.isPrefixOf_iff_prefix.mp hl
  rw [hk]
  simp [pkaDict, hl']

end P2P.Proofs.Pka
