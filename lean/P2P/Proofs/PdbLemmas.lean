import P2P.Model.PdbRead
namespace P2P.Proofs.Pdb
open P2P P2P.PdbRead

/-! spec-level definitions used by the C07 property theorems -/

def atomsOf : List Rec → List AtomRec
  | [] => []
  | .atom a :: rs => a :: atomsOf rs
  | _ :: rs => atomsOf rs

/-- columns 1-6, stripped, are ATOM or HETATM -/
def isAtomLine (l : Str) : Bool :=
  strip (slice l 0 6) = str "ATOM" || strip (slice l 0 6) = str "HETATM"

/-- what `read_pdb` makes of a (stripped) ATOM/HETATM line that parses by columns -/
def parseLine (l : Str) : Option AtomRec :=
  match parseAtom (strip (slice l 0 6) = str "HETATM") l with
  | .ok a => some a
  | .error _ => none

/-- the chain letter a blank-chain, non-water atom receives -/
def relabel (numChains count : Nat) (a : AtomRec) : AtomRec :=
  if a.chain = [] && numChains > 1 && !isWaterName a.resName then
    match chainAlphabet.drop count with
    | [] => a
    | c :: _ => { a with chain := [c] }
  else a

/-- atoms before the second MODEL record, in file order, relabelled -/
def firstModel (numChains : Nat) : List Rec → Nat → Nat → List AtomRec
  | [], _, _ => []
  | .atom a :: rs, m, c => relabel numChains c a :: firstModel numChains rs m c
  | .ter :: rs, m, c => firstModel numChains rs m (c + 1)
  | .model :: rs, m, c => if m ≥ 1 then [] else firstModel numChains rs (m + 1) c
  | _ :: rs, m, c => firstModel numChains rs m c

def isWaterRec : Rec → Bool
  | .atom a => isWaterName a.resName
  | _ => false

theorem read_every_atom_line_core (lines : List Str)
    (h : ∀ l ∈ lines, isAtomLine (strip l) = true → ∃ a, parseLine (strip l) = some a) :
    ∃ recs, readPdb lines = .ok recs ∧
      atomsOf recs = lines.filterMap (fun l => if isAtomLine (strip l) then parseLine (strip l) else none) := by
  sorry

theorem short_line_same_core (het : Bool) (l : Str) (n : Nat) (hn : 54 ≤ n) :
    parseAtom het (l.take n) = parseAtom het l := by
  sorry

theorem group_complete_core (recs : List Rec) (h : (recs.filter (· = .ter)).length < 62) :
    ∃ rs, group recs = .ok rs ∧
      rs.flatten.Perm (firstModel (1 + (recs.filter (· = .ter)).length) recs 0 0) := by
  sorry

theorem group_error_core (recs : List Rec) (e : RErr) (h : group recs = .error e) :
    e = .tooManyChains := by
  sorry

theorem dedupe_first_core (as : List AtomRec) :
    ((dedupe as).map (·.name)).Nodup ∧ (dedupe as).Sublist as ∧
    ∀ n, (dedupe as).find? (fun a => a.name = n) = as.find? (fun a => a.name = n) := by
  sorry

theorem dropWater_exact_core (lines : List Str) (recs : List Rec) (h : readPdb lines = .ok recs) :
    dropWater recs = recs.filter (fun r => !isWaterRec r) := by
  sorry

end P2P.Proofs.Pdb
