import P2P.Model.PdbRead
namespace P2P.Proofs.Pdb
open P2P P2P.PdbRead

/-! spec-level definitions used by the C07 property theorems -/

def atomsOf : List Rec → List AtomRec
  | [] => []
  | .atom a :: rs => a :: atomsOf rs
  | _ :: rs => atomsOf rs

/-- columns 1-6, stripped, are ATOM or HETATM -/
def isAtomLine (l : Str) : Bool :=
  strip (slice l 0 6) = str "ATOM" || strip (slice l 0 6) = str "HETATM"

/-- what `read_pdb` makes of a (stripped) ATOM/HETATM line that parses by columns -/
def parseLine (l : Str) : Option AtomRec :=
  match parseAtom (strip (slice l 0 6) = str "HETATM") l with
  | .ok a => some a
  | .error _ => none

/-- the chain letter a blank-chain, non-water atom receives -/
def relabel (numChains count : Nat) (a : AtomRec) : AtomRec :=
  if a.chain = [] && numChains > 1 && !isWaterName a.resName then
    match chainAlphabet.drop count with
    | [] => a
    | c :: _ => { a with chain := [c] }
  else a

/-- atoms before the second MODEL record, in file order, relabelled -/
def firstModel (numChains : Nat) : List Rec → Nat → Nat → List AtomRec
  | [], _, _ => []
  | .atom a :: rs, m, c => relabel numChains c a :: firstModel numChains rs m c
  | .ter :: rs, m, c => firstModel numChains rs m (c + 1)
  | .model :: rs, m, c => if m ≥ 1 then [] else firstModel numChains rs (m + 1) c
  | _ :: rs, m, c => firstModel numChains rs m c

def isWaterRec : Rec → Bool
  | .atom a => isWaterName a.resName
  | _ => false

/-! ### reading -/

theorem atomsOf_append (a b : List Rec) : atomsOf (a ++ b) = atomsOf a ++ atomsOf b := by
  induction a with
  | nil => rfl
  | cons r a ih => cases r <;> simp [atomsOf, ih]

theorem readLoop_spec (lines : List Str)
    (h : ∀ l ∈ lines, isAtomLine (strip l) = true → ∃ a, parseLine (strip l) = some a) :
    ∀ m acc, ∃ recs, readLoop lines m acc = .ok (acc.reverse ++ recs) ∧
      atomsOf recs = lines.filterMap (fun l => if isAtomLine (strip l) then parseLine (strip l) else none) := by
  induction lines with
  | nil => intro m acc; exact ⟨[], by simp [readLoop], rfl⟩
  | cons raw rest ih =>
    intro m acc
    have hraw := h raw List.mem_cons_self
    have ih' := ih (fun l hl => h l (List.mem_cons_of_mem _ hl))
    rw [readLoop]
    simp only [List.filterMap_cons]
    by_cases hb : strip raw = []
    · have : isAtomLine (strip raw) = false := by rw [hb]; decide
      simp only [hb, if_true]
      exact ih' m acc
    · simp only [hb, if_false]
      by_cases ha : isAtomLine (strip raw) = true
      · obtain ⟨a, hpa⟩ := hraw ha
        have hrec := ha
        unfold isAtomLine at hrec
        simp only [hrec, if_true, ha, hpa]
        unfold parseLine at hpa
        split at hpa
        · rename_i a' hok
          cases hpa
          simp only [hok]
          obtain ⟨recs, h1, h2⟩ := ih' m (.atom a :: acc)
          refine ⟨.atom a :: recs, ?_, ?_⟩
          · rw [h1]; simp
          · simp [atomsOf, h2]
        · cases hpa
      · have hrec := ha
        unfold isAtomLine at hrec
        simp only [hrec, ha]
        simp only [Bool.false_eq_true, if_false]
        have key : ∀ r : Rec, (∀ a, r ≠ .atom a) → ∃ recs, readLoop rest m (r :: acc) = Except.ok (acc.reverse ++ recs) ∧
            atomsOf recs = List.filterMap (fun l => if isAtomLine (strip l) = true then parseLine (strip l) else none) rest := by
          intro r hr
          obtain ⟨recs, h1, h2⟩ := ih' m (r :: acc)
          refine ⟨r :: recs, ?_, ?_⟩
          · rw [h1]; simp
          · cases r <;> simp_all [atomsOf]
        split
        · exact key _ (by intro a; simp)
        split
        · exact key _ (by intro a; simp)
        split
        · exact key _ (by intro a; simp)
        · exact key _ (by intro a; simp)

theorem read_every_atom_line_core (lines : List Str)
    (h : ∀ l ∈ lines, isAtomLine (strip l) = true → ∃ a, parseLine (strip l) = some a) :
    ∃ recs, readPdb lines = .ok recs ∧
      atomsOf recs = lines.filterMap (fun l => if isAtomLine (strip l) then parseLine (strip l) else none) := by
  obtain ⟨recs, h1, h2⟩ := readLoop_spec lines h false []
  exact ⟨recs, by simpa [readPdb] using h1, h2⟩

/-! ### trailing columns -/

theorem slice_take (l : Str) (a b n : Nat) (h : b ≤ n) : slice (l.take n) a b = slice l a b := by
  unfold slice
  rw [List.drop_take, List.take_take]
  congr 1; omega

theorem idx_take (l : Str) (i n : Nat) (h : i < n) : idx (l.take n) i = idx l i := by
  unfold idx
  rw [List.drop_take]
  cases hd : l.drop i with
  | nil => simp
  | cons c t =>
    have : n - i = (n - i - 1) + 1 := by omega
    rw [this, List.take_succ_cons]

theorem short_line_same_core (het : Bool) (l : Str) (n : Nat) (hn : 54 ≤ n) :
    parseAtom het (l.take n) = parseAtom het l := by
  unfold parseAtom
  rw [slice_take l 6 11 n (by omega), slice_take l 12 16 n (by omega), slice_take l 17 20 n (by omega),
    slice_take l 22 26 n (by omega), slice_take l 30 38 n (by omega), slice_take l 38 46 n (by omega),
    slice_take l 46 54 n (by omega), slice_take l 0 6 n (by omega),
    idx_take l 16 n (by omega), idx_take l 21 n (by omega), idx_take l 26 n (by omega)]

/-! ### grouping -/

abbrev Chains := List (Str × List (List AtomRec))
def keys (cs : Chains) : List Str := cs.map (·.1)
def ccontent (cs : Chains) : List AtomRec := (cs.flatMap (·.2)).flatten
def content (s : GState) : List AtomRec := ccontent s.chains ++ s.residue

@[simp] theorem ccontent_nil : ccontent [] = [] := rfl
@[simp] theorem ccontent_cons (k : Str) (rs : List (List AtomRec)) (cs : Chains) :
    ccontent ((k, rs) :: cs) = rs.flatten ++ ccontent cs := by
  simp [ccontent]
@[simp] theorem keys_nil : keys [] = [] := rfl
@[simp] theorem keys_cons (k : Str) (rs : List (List AtomRec)) (cs : Chains) :
    keys ((k, rs) :: cs) = k :: keys cs := rfl

theorem ccontent_append (a b : Chains) : ccontent (a ++ b) = ccontent a ++ ccontent b := by
  simp [ccontent]

theorem any_key (cs : Chains) (c : Str) : cs.any (·.1 = c) = true ↔ c ∈ keys cs := by
  simp [keys, List.any_eq_true]

theorem keys_addChain_mem (cs : Chains) (c : Str) : c ∈ keys (addChain cs c) := by
  unfold addChain
  split
  · rename_i h; exact (any_key cs c).mp h
  · simp [keys]

theorem keys_addChain_sub (cs : Chains) (c k : Str) (h : k ∈ keys cs) : k ∈ keys (addChain cs c) := by
  unfold addChain
  split
  · exact h
  · simp only [keys, List.map_append, List.mem_append]; exact Or.inl h

theorem keys_addChain_nodup (cs : Chains) (c : Str) (h : (keys cs).Nodup) : (keys (addChain cs c)).Nodup := by
  unfold addChain
  split
  · exact h
  · rename_i hn
    have hn' : c ∉ keys cs := fun hc => hn ((any_key cs c).mpr hc)
    simp only [keys, List.map_append, List.map_cons, List.map_nil]
    rw [List.nodup_append]
    refine ⟨h, by simp, ?_⟩
    intro a ha b hb
    simp at hb
    subst hb
    intro hab
    subst hab
    exact hn' ha

theorem ccontent_addChain (cs : Chains) (c : Str) : ccontent (addChain cs c) = ccontent cs := by
  unfold addChain
  split
  · rfl
  · simp [ccontent_append]

theorem keys_addResidue (cs : Chains) (c : Str) (r : List AtomRec) : keys (addResidue cs c r) = keys cs := by
  induction cs with
  | nil => rfl
  | cons x cs ih =>
    obtain ⟨k, rs⟩ := x
    simp only [addResidue, List.map_cons, keys] at ih ⊢
    rw [ih]
    split <;> rfl

theorem addResidue_not_mem (cs : Chains) (c : Str) (r : List AtomRec) (h : c ∉ keys cs) :
    addResidue cs c r = cs := by
  induction cs with
  | nil => rfl
  | cons x cs ih =>
    obtain ⟨k, rs⟩ := x
    simp only [keys_cons, List.mem_cons, not_or] at h
    simp only [addResidue, List.map_cons] at ih ⊢
    rw [ih h.2]
    rw [if_neg (fun hk => h.1 hk.symm)]

theorem ccontent_addResidue (cs : Chains) (c : Str) (r : List AtomRec) (hn : (keys cs).Nodup)
    (hc : c ∈ keys cs) : (ccontent (addResidue cs c r)).Perm (ccontent cs ++ r) := by
  induction cs with
  | nil => simp at hc
  | cons x cs ih =>
    obtain ⟨k, rs⟩ := x
    simp only [keys_cons, List.nodup_cons] at hn
    have hstep : addResidue ((k, rs) :: cs) c r =
        (if k = c then (k, rs ++ [r]) else (k, rs)) :: addResidue cs c r := by
      simp [addResidue]
    rw [hstep]
    by_cases hk : k = c
    · subst hk
      rw [if_pos rfl, addResidue_not_mem cs k r hn.1]
      simp only [ccontent_cons, List.flatten_append, List.flatten_cons, List.flatten_nil, List.append_nil,
        List.append_assoc]
      exact List.Perm.append_left _ List.perm_append_comm
    · rw [if_neg hk]
      simp only [keys_cons, List.mem_cons] at hc
      have hc' : c ∈ keys cs := by
        rcases hc with h | h
        · exact absurd h.symm hk
        · exact h
      simp only [ccontent_cons, List.append_assoc]
      exact List.Perm.append_left _ (ih hn.2 hc')

structure GInv (s : GState) : Prop where
  nodup : (keys s.chains).Nodup
  prev : s.residue ≠ [] → ∃ p, s.prev = some p ∧ p.chain ∈ keys s.chains
  stop : s.stopped = true → s.residue = []
  models : s.stopped = false → s.numModels ≤ 1

theorem flush_ok (s : GState) (p : AtomRec) (hp : s.prev = some p) (hr : s.residue ≠ []) :
    flush s = .ok { s with chains := addResidue s.chains p.chain s.residue, residue := [] } := by
  unfold flush
  rw [hp]
  simp only [hr, if_false]

theorem flush_spec' (s : GState) (hn : (keys s.chains).Nodup)
    (hp : ∃ p, s.prev = some p ∧ p.chain ∈ keys s.chains) (hr : s.residue ≠ []) :
    ∃ s', flush s = .ok s' ∧ (keys s'.chains).Nodup ∧ s'.residue = [] ∧ s'.stopped = s.stopped ∧
      s'.numModels = s.numModels ∧ s'.count = s.count ∧ (content s').Perm (content s) := by
  obtain ⟨p, hp, hpc⟩ := hp
  refine ⟨_, flush_ok s p hp hr, ?_, rfl, rfl, rfl, rfl, ?_⟩
  · simp only [keys_addResidue]; exact hn
  · simp only [content, List.append_nil]
    exact ccontent_addResidue _ _ _ hn hpc

/-- flushing an `GInv` state with a non-empty residue -/
theorem flush_spec (s : GState) (hI : GInv s) (hr : s.residue ≠ []) :
    ∃ s', flush s = .ok s' ∧ GInv s' ∧ s'.residue = [] ∧ s'.stopped = s.stopped ∧
      s'.numModels = s.numModels ∧ s'.count = s.count ∧ (content s').Perm (content s) := by
  obtain ⟨p, hp, hpc⟩ := hI.prev hr
  refine ⟨_, flush_ok s p hp hr, ⟨?_, ?_, ?_, ?_⟩, rfl, rfl, rfl, rfl, ?_⟩
  · simp only [keys_addResidue]; exact hI.nodup
  · intro h; exact absurd rfl h
  · intro _; rfl
  · exact hI.models
  · simp only [content, List.append_nil]
    exact ccontent_addResidue _ _ _ hI.nodup hpc

/-- the rest of the ATOM branch of `gstep` -/
def atomStep (s : GState) (a : AtomRec) : Except RErr GState :=
  let prev := s.prev.getD a
  let s1 := { s with chains := addChain s.chains a.chain, prev := some prev }
  do
    let s2 ←
      if s1.residue ≠ [] && (a.resSeq ≠ prev.resSeq || a.ins ≠ prev.ins || a.chain ≠ prev.chain) then flush s1
      else pure s1
    pure { s2 with residue := s2.residue ++ [a], prev := some a }

theorem chainAlphabet_length : chainAlphabet.length = 62 := by decide

theorem gstep_atom (n : Nat) (s : GState) (a0 : AtomRec) (hs : s.stopped = false) :
    gstep n s (.atom a0) = atomStep s (relabel n s.count a0) ∨
      (gstep n s (.atom a0) = .error .tooManyChains ∧ 62 ≤ s.count) := by
  unfold gstep relabel
  rw [if_neg (by simp [hs])]
  simp only []
  split
  · cases hd : chainAlphabet.drop s.count with
    | nil =>
      right
      refine ⟨rfl, ?_⟩
      have := congrArg List.length hd
      simp [chainAlphabet_length] at this
      omega
    | cons c t => left; rfl
  · left; rfl

theorem atomStep_spec (s : GState) (a : AtomRec) (hI : GInv s) (hs : s.stopped = false) :
    ∃ s', atomStep s a = .ok s' ∧ GInv s' ∧ s'.stopped = false ∧ s'.numModels = s.numModels ∧
      s'.count = s.count ∧ (content s').Perm (content s ++ [a]) := by
  unfold atomStep
  simp only
  split
  · rename_i hc
    simp only [Bool.and_eq_true, decide_eq_true_eq] at hc
    have hr : s.residue ≠ [] := hc.1
    obtain ⟨p, hp, hpc⟩ := hI.prev hr
    rw [flush_ok { s with chains := addChain s.chains a.chain, prev := some (s.prev.getD a) } (s.prev.getD a) rfl hr]
    refine ⟨_, rfl, ⟨?_, ?_, ?_, ?_⟩, hs, rfl, rfl, ?_⟩
    · simp only [keys_addResidue]; exact keys_addChain_nodup _ _ hI.nodup
    · intro _
      exact ⟨a, rfl, by simp only [keys_addResidue]; exact keys_addChain_mem _ _⟩
    · intro h; simp only at h; rw [hs] at h; cases h
    · intro _; exact hI.models hs
    · simp only [content, List.nil_append]
      have h1 := ccontent_addResidue (addChain s.chains a.chain) (s.prev.getD a).chain s.residue
        (keys_addChain_nodup _ _ hI.nodup) (by rw [hp]; exact keys_addChain_sub _ _ _ hpc)
      rw [ccontent_addChain] at h1
      exact List.Perm.append_right _ h1
  · refine ⟨_, rfl, ⟨?_, ?_, ?_, ?_⟩, hs, rfl, rfl, ?_⟩
    · exact keys_addChain_nodup _ _ hI.nodup
    · intro _
      exact ⟨a, rfl, keys_addChain_mem _ _⟩
    · intro h; simp only at h; rw [hs] at h; cases h
    · intro _; exact hI.models hs
    · simp only [content, ccontent_addChain, List.append_assoc]
      exact List.Perm.refl _

theorem gstep_stopped (n : Nat) (s : GState) (r : Rec) (hs : s.stopped = true) : gstep n s r = .ok s := by
  unfold gstep
  rw [if_pos hs]

theorem foldlM_stopped (n : Nat) (recs : List Rec) (s : GState) (hs : s.stopped = true) :
    recs.foldlM (gstep n) s = .ok s := by
  induction recs with
  | nil => rfl
  | cons r rs ih =>
    rw [List.foldlM_cons, gstep_stopped n s r hs]
    exact ih

theorem gstep_ter (n : Nat) (s : GState) (hs : s.stopped = false) :
    gstep n s .ter = .ok { s with count := s.count + 1 } := by
  unfold gstep
  rw [if_neg (by simp [hs])]

theorem gstep_other (n : Nat) (s : GState) (hs : s.stopped = false) :
    gstep n s .other = .ok s := by
  unfold gstep
  rw [if_neg (by simp [hs])]

theorem gstep_end (n : Nat) (s : GState) (hI : GInv s) (hs : s.stopped = false) :
    ∃ s', gstep n s .end_ = .ok s' ∧ GInv s' ∧ s'.stopped = false ∧ s'.numModels = s.numModels ∧
      s'.count = s.count ∧ (content s').Perm (content s) := by
  unfold gstep
  rw [if_neg (by simp [hs])]
  simp only
  split
  · exact ⟨s, rfl, hI, hs, rfl, rfl, List.Perm.refl _⟩
  · rename_i hr
    obtain ⟨s', h1, h2, _, h4, h5, h6, h7⟩ := flush_spec s hI hr
    exact ⟨s', h1, h2, h4.trans hs, h5, h6, h7⟩

theorem gstep_model_first (n : Nat) (s : GState) (hs : s.stopped = false) (hm : s.numModels = 0) :
    gstep n s .model = .ok { s with numModels := s.numModels + 1 } := by
  unfold gstep
  rw [if_neg (by simp [hs])]
  simp only
  rw [if_neg (by omega)]

theorem gstep_model_stop (n : Nat) (s : GState) (hI : GInv s) (hs : s.stopped = false)
    (hm : 1 ≤ s.numModels) :
    ∃ s', gstep n s .model = .ok s' ∧ GInv s' ∧ s'.stopped = true ∧ (content s').Perm (content s) := by
  unfold gstep
  rw [if_neg (by simp [hs])]
  simp only
  rw [if_pos (by omega)]
  by_cases hr : s.residue = []
  · rw [if_neg (by simp [hr])]
    refine ⟨_, rfl, ⟨hI.nodup, fun h => absurd rfl h, fun _ => rfl, fun h => by cases h⟩, rfl, ?_⟩
    simp [content, hr]
  · rw [if_pos (by simpa using hr)]
    obtain ⟨s', h1, h2, h3, h4, h5, h6, h7⟩ :=
      flush_spec' { s with numModels := s.numModels + 1 } hI.nodup (hI.prev hr) hr
    rw [h1]
    refine ⟨_, rfl, ⟨h2, fun h => absurd rfl h, fun _ => rfl, fun h => by cases h⟩, rfl, ?_⟩
    have : content { s' with stopped := true, residue := [] } = content s' := by
      simp [content, h3]
    rw [this]
    exact h7

def terCount (recs : List Rec) : Nat := (recs.filter (· = .ter)).length

theorem terCount_cons_ter (rs : List Rec) : terCount (.ter :: rs) = terCount rs + 1 := by
  simp [terCount]
theorem terCount_cons_of_ne (r : Rec) (rs : List Rec) (h : r ≠ .ter) : terCount (r :: rs) = terCount rs := by
  simp [terCount, h]

theorem fold_spec (n : Nat) (recs : List Rec) : ∀ s : GState, GInv s → s.stopped = false →
    (∃ s', recs.foldlM (gstep n) s = .ok s' ∧ GInv s' ∧
      (content s').Perm (content s ++ firstModel n recs s.numModels s.count)) ∨
    (recs.foldlM (gstep n) s = .error .tooManyChains ∧ 62 ≤ s.count + terCount recs) := by
  induction recs with
  | nil =>
    intro s hI hs
    exact Or.inl ⟨s, rfl, hI, by simp [firstModel]⟩
  | cons r rs ih =>
    intro s hI hs
    rw [List.foldlM_cons]
    cases r with
    | atom a0 =>
      rw [terCount_cons_of_ne _ _ (by simp)]
      rcases gstep_atom n s a0 hs with h | ⟨h, hc⟩
      · obtain ⟨s1, h1, hI1, hs1, hm1, hc1, hp1⟩ := atomStep_spec s (relabel n s.count a0) hI hs
        rw [h, h1]
        rcases ih s1 hI1 hs1 with ⟨s', hf, hI', hp'⟩ | ⟨hf, hc'⟩
        · refine Or.inl ⟨s', hf, hI', ?_⟩
          rw [hm1, hc1] at hp'
          refine hp'.trans ?_
          simp only [firstModel]
          refine (List.Perm.append_right _ hp1).trans ?_
          simp
        · exact Or.inr ⟨hf, by omega⟩
      · rw [h]
        exact Or.inr ⟨rfl, by omega⟩
    | ter =>
      rw [gstep_ter n s hs, terCount_cons_ter]
      have hI1 : GInv { s with count := s.count + 1 } := ⟨hI.nodup, hI.prev, hI.stop, hI.models⟩
      rcases ih _ hI1 hs with ⟨s', hf, hI', hp'⟩ | ⟨hf, hc'⟩
      · exact Or.inl ⟨s', hf, hI', hp'⟩
      · exact Or.inr ⟨hf, by simp only at hc'; omega⟩
    | end_ =>
      rw [terCount_cons_of_ne _ _ (by simp)]
      obtain ⟨s1, h1, hI1, hs1, hm1, hc1, hp1⟩ := gstep_end n s hI hs
      rw [h1]
      rcases ih s1 hI1 hs1 with ⟨s', hf, hI', hp'⟩ | ⟨hf, hc'⟩
      · refine Or.inl ⟨s', hf, hI', ?_⟩
        rw [hm1, hc1] at hp'
        exact hp'.trans (List.Perm.append_right _ hp1)
      · exact Or.inr ⟨hf, by omega⟩
    | model =>
      rw [terCount_cons_of_ne _ _ (by simp)]
      by_cases hm : 1 ≤ s.numModels
      · obtain ⟨s1, h1, hI1, hs1, hp1⟩ := gstep_model_stop n s hI hs hm
        rw [h1]
        refine Or.inl ⟨s1, foldlM_stopped n rs s1 hs1, hI1, ?_⟩
        simp only [firstModel, ge_iff_le, hm, if_true, List.append_nil]
        exact hp1
      · have hm0 : s.numModels = 0 := by omega
        rw [gstep_model_first n s hs hm0]
        have hI1 : GInv { s with numModels := s.numModels + 1 } :=
          ⟨hI.nodup, hI.prev, hI.stop, fun _ => by simp only; omega⟩
        rcases ih _ hI1 hs with ⟨s', hf, hI', hp'⟩ | ⟨hf, hc'⟩
        · refine Or.inl ⟨s', hf, hI', ?_⟩
          simp only [firstModel, ge_iff_le, hm, if_false]
          exact hp'
        · exact Or.inr ⟨hf, hc'⟩
    | other =>
      rw [terCount_cons_of_ne _ _ (by simp), gstep_other n s hs]
      rcases ih s hI hs with ⟨s', hf, hI', hp'⟩ | ⟨hf, hc'⟩
      · exact Or.inl ⟨s', hf, hI', hp'⟩
      · exact Or.inr ⟨hf, hc'⟩

theorem insertSorted_perm (x : Str × List (List AtomRec)) (l : Chains) : (insertSorted x l).Perm (x :: l) := by
  induction l with
  | nil => exact List.Perm.refl _
  | cons y ys ih =>
    simp only [insertSorted]
    split
    · exact List.Perm.refl _
    · exact (List.Perm.cons y ih).trans (List.Perm.swap x y ys)

theorem sortChains_fold_perm (cs : Chains) : ∀ acc : Chains,
    (cs.foldl (fun acc c => insertSorted c acc) acc).Perm (cs ++ acc) := by
  induction cs with
  | nil => intro acc; exact List.Perm.refl _
  | cons c cs ih =>
    intro acc
    simp only [List.foldl_cons]
    refine (ih _).trans ?_
    refine (List.Perm.append_left cs (insertSorted_perm c acc)).trans ?_
    simp

theorem sortChains_perm (cs : Chains) : (sortChains cs).Perm cs := by
  have := sortChains_fold_perm cs []
  simpa [sortChains] using this

theorem ccontent_perm (a b : Chains) (h : a.Perm b) : (ccontent a).Perm (ccontent b) :=
  (h.flatMap_right _).flatten

theorem ccontent_rename (cs : Chains) :
    ccontent (cs.map (fun (k, rs) => (if k = [] then str "ZZ" else k, rs))) = ccontent cs := by
  induction cs with
  | nil => rfl
  | cons x cs ih =>
    obtain ⟨k, rs⟩ := x
    simp only [List.map_cons, ccontent_cons, ih]

/-- the tail of `group` after the fold -/
def finish (s : GState) : Except RErr (List (List AtomRec)) := do
  let s ← if s.residue ≠ [] && s.numModels ≤ 1 then flush s else pure s
  let cs := s.chains.map (fun (k, rs) => (if k = [] then str "ZZ" else k, rs))
  pure ((sortChains cs).flatMap (·.2))

theorem group_eq (recs : List Rec) :
    group recs = (recs.foldlM (gstep (1 + terCount recs))
      { chains := [], prev := none, residue := [], numModels := 0, count := 0, stopped := false }).bind finish := rfl

theorem finish_spec (s : GState) (hI : GInv s) :
    ∃ rs, finish s = .ok rs ∧ rs.flatten.Perm (content s) := by
  unfold finish
  have tail : ∀ s' : GState, s'.residue = [] →
      ((sortChains (s'.chains.map (fun (k, rs) => (if k = [] then str "ZZ" else k, rs)))).flatMap (·.2)).flatten.Perm
        (content s') := by
    intro s' hr
    have h1 := ccontent_perm _ _ (sortChains_perm (s'.chains.map (fun (k, rs) => (if k = [] then str "ZZ" else k, rs))))
    rw [ccontent_rename] at h1
    simpa [content, hr, ccontent] using h1
  by_cases hr : s.residue = []
  · rw [if_neg (by simp [hr])]
    exact ⟨_, rfl, tail s hr⟩
  · have hs : s.stopped = false := by
      cases h : s.stopped with
      | false => rfl
      | true => exact absurd (hI.stop h) hr
    rw [if_pos (by simp [hr, hI.models hs])]
    obtain ⟨s', h1, _, h3, _, _, _, h7⟩ := flush_spec s hI hr
    rw [h1]
    exact ⟨_, rfl, (tail s' h3).trans h7⟩

theorem init_inv : GInv { chains := [], prev := none, residue := [], numModels := 0, count := 0, stopped := false } :=
  ⟨by simp, fun h => absurd rfl h, fun _ => rfl, fun _ => Nat.zero_le _⟩

theorem group_complete_core (recs : List Rec) (h : (recs.filter (· = .ter)).length < 62) :
    ∃ rs, group recs = .ok rs ∧
      rs.flatten.Perm (firstModel (1 + (recs.filter (· = .ter)).length) recs 0 0) := by
  rw [group_eq]
  rcases fold_spec (1 + terCount recs) recs _ init_inv rfl with ⟨s', hf, hI', hp'⟩ | ⟨hf, hc'⟩
  · obtain ⟨rs, h1, h2⟩ := finish_spec s' hI'
    rw [hf]
    refine ⟨rs, h1, h2.trans ?_⟩
    simpa [content, terCount] using hp'
  · exfalso
    simp only [terCount] at hc'
    omega

theorem group_error_core (recs : List Rec) (e : RErr) (h : group recs = .error e) :
    e = .tooManyChains := by
  rw [group_eq] at h
  rcases fold_spec (1 + terCount recs) recs _ init_inv rfl with ⟨s', hf, hI', hp'⟩ | ⟨hf, hc'⟩
  · obtain ⟨rs, h1, h2⟩ := finish_spec s' hI'
    rw [hf] at h
    change finish s' = _ at h
    rw [h1] at h
    cases h
  · rw [hf] at h
    cases h
    rfl

/-! ### de-duplication -/

theorem dedupe_sublist (as : List AtomRec) : (dedupe as).Sublist as := by
  induction as with
  | nil => exact List.Sublist.refl _
  | cons a as ih =>
    simp only [dedupe]
    exact List.Sublist.cons_cons _ (List.Sublist.trans List.filter_sublist ih)

theorem dedupe_nodup (as : List AtomRec) : ((dedupe as).map (·.name)).Nodup := by
  induction as with
  | nil => simp [dedupe]
  | cons a as ih =>
    simp only [dedupe, List.map_cons, List.nodup_cons]
    constructor
    · simp [List.mem_map, List.mem_filter]
    · exact List.Nodup.sublist (List.Sublist.map _ List.filter_sublist) ih

theorem dedupe_find (as : List AtomRec) (n : Str) :
    (dedupe as).find? (fun a => a.name = n) = as.find? (fun a => a.name = n) := by
  induction as with
  | nil => simp [dedupe]
  | cons a as ih =>
    simp only [dedupe, List.find?_cons]
    by_cases h : a.name = n
    · simp [h]
    · simp only [h, decide_false]
      rw [List.find?_filter, ← ih]
      congr 1
      funext b
      by_cases hb : b.name = n
      · subst hb; simp; exact fun h' => h h'.symm
      · simp [hb]

theorem dedupe_first_core (as : List AtomRec) :
    ((dedupe as).map (·.name)).Nodup ∧ (dedupe as).Sublist as ∧
    ∀ n, (dedupe as).find? (fun a => a.name = n) = as.find? (fun a => a.name = n) :=
  ⟨dedupe_nodup as, dedupe_sublist as, dedupe_find as⟩

/-! ### drop_water -/

theorem parseAtom_rtype (het : Bool) (l : Str) (a : AtomRec) (h : parseAtom het l = .ok a) :
    a.rtype = strip (slice l 0 6) := by
  unfold parseAtom at h
  simp only [bind, Except.bind, pure, Except.pure] at h
  repeat (split at h <;> try contradiction)
  cases h
  rfl

theorem dropWhile_idem {α} (p : α → Bool) (l : List α) : (l.dropWhile p).dropWhile p = l.dropWhile p := by
  induction l with
  | nil => rfl
  | cons a l ih =>
    by_cases h : p a
    · simp [h, ih]
    · simp [h]

theorem rstrip_rstrip (s : Str) : rstrip (rstrip s) = rstrip s := by
  simp [rstrip, dropWhile_idem]

theorem dropWhile_append_single {α} (p : α → Bool) (l : List α) (c : α) (hc : p c = false) :
    (l ++ [c]).dropWhile p = l.dropWhile p ++ [c] := by
  induction l with
  | nil => simp [hc]
  | cons a l ih =>
    by_cases h : p a
    · simp [h, ih]
    · simp [h]

theorem lstrip_rstrip_of (s : Str) (h : lstrip s = s) : lstrip (rstrip s) = rstrip s := by
  cases s with
  | nil => rfl
  | cons c t =>
    have hc : isWs c = false := by
      cases hw : isWs c with
      | false => rfl
      | true =>
        exfalso
        simp only [lstrip, List.dropWhile_cons, hw, if_true] at h
        have := List.dropWhile_sublist (l := t) isWs |>.length_le
        rw [h] at this
        simp at this
        omega
    simp only [rstrip, List.reverse_cons, dropWhile_append_single _ _ _ hc, List.reverse_append,
      List.reverse_nil, List.nil_append, List.cons_append, lstrip]
    rw [List.dropWhile_cons_of_neg (by rw [hc]; simp)]

theorem strip_strip (s : Str) : strip (strip s) = strip s := by
  unfold strip
  rw [lstrip_rstrip_of (lstrip s) (dropWhile_idem _ _), rstrip_rstrip]

theorem readAtom_ok (line : Str) (a : AtomRec) (h : readAtom line = .ok a) :
    ∃ het tail, parseAtom het (slice line 0 22 ++ tail) = .ok a := by
  unfold readAtom at h
  simp only [bind, Except.bind] at h
  repeat (split at h <;> try contradiction)
  exact ⟨_, _, by simpa only [List.append_assoc] using h⟩

theorem slice_append_left (l t : Str) (h : 6 ≤ l.length) : slice (slice l 0 22 ++ t) 0 6 = slice l 0 6 := by
  simp only [slice, List.drop_zero, Nat.sub_zero]
  rw [List.take_append_of_le_length (by simp [List.length_take]; omega), List.take_take]
  simp

theorem readAtom_ATOM : readAtom (str "ATOM") = .error .indexError := by decide +kernel
theorem readAtom_HETATM : readAtom (str "HETATM") = .error .indexError := by decide +kernel

theorem readAtom_rtype (line : Str) (a : AtomRec) (hs : strip line = line)
    (hr : strip (slice line 0 6) = str "ATOM" ∨ strip (slice line 0 6) = str "HETATM")
    (h : readAtom line = .ok a) : a.rtype = strip (slice line 0 6) := by
  by_cases hl : 6 ≤ line.length
  · obtain ⟨het, tail, hp⟩ := readAtom_ok line a h
    rw [parseAtom_rtype _ _ _ hp, slice_append_left _ _ hl]
  · exfalso
    have : slice line 0 6 = line := by
      simp only [slice, List.drop_zero, Nat.sub_zero]
      exact List.take_of_length_le (by omega)
    rw [this, hs] at hr
    rcases hr with hr | hr
    · rw [hr, readAtom_ATOM] at h; cases h
    · rw [hr, readAtom_HETATM] at h; cases h

def GoodRec (r : Rec) : Prop := ∀ a, r = .atom a → (a.rtype = str "ATOM" ∨ a.rtype = str "HETATM")

theorem readLoop_good (lines : List Str) : ∀ (m : Bool) (acc recs : List Rec), (∀ r ∈ acc, GoodRec r) →
    readLoop lines m acc = .ok recs → ∀ r ∈ recs, GoodRec r := by
  induction lines with
  | nil =>
    intro m acc recs hacc h
    simp only [readLoop] at h
    cases h
    intro r hr
    exact hacc r (List.mem_reverse.mp hr)
  | cons raw rest ih =>
    intro m acc recs hacc h
    rw [readLoop] at h
    have hcons : ∀ r, GoodRec r → ∀ r' ∈ r :: acc, GoodRec r' := by
      intro r hr r' hr'
      rcases List.mem_cons.mp hr' with rfl | h'
      · exact hr
      · exact hacc _ h'
    have hna : ∀ r : Rec, (∀ a, r ≠ .atom a) → GoodRec r := fun r hr a ha => absurd ha (hr a)
    simp only at h
    split at h
    · exact ih m acc recs hacc h
    split at h
    · rename_i hrec
      have hrec' : strip (slice (strip raw) 0 6) = str "ATOM" ∨ strip (slice (strip raw) 0 6) = str "HETATM" := by
        simpa using hrec
      split at h
      · rename_i a hpa
        refine ih m _ recs (hcons _ ?_) h
        intro a' ha'
        cases ha'
        rw [parseAtom_rtype _ _ _ hpa]; exact hrec'
      · split at h
        · rename_i a hra
          refine ih m _ recs (hcons _ ?_) h
          intro a' ha'
          cases ha'
          rw [readAtom_rtype _ _ (strip_strip raw) hrec' hra]; exact hrec'
        · exact ih m acc recs hacc h
        · cases h
      · cases h
    split at h
    · exact ih m _ recs (hcons _ (hna _ (by intro a; simp))) h
    split at h
    · exact ih m _ recs (hcons _ (hna _ (by intro a; simp))) h
    split at h
    · exact ih m _ recs (hcons _ (hna _ (by intro a; simp))) h
    · exact ih m _ recs (hcons _ (hna _ (by intro a; simp))) h

theorem dropWater_exact_core (lines : List Str) (recs : List Rec) (h : readPdb lines = .ok recs) :
    dropWater recs = recs.filter (fun r => !isWaterRec r) := by
  have hg := readLoop_good lines false [] recs (by simp) h
  unfold dropWater
  apply List.filter_congr
  intro r hr
  cases r with
  | atom a =>
    rcases hg _ hr a rfl with h1 | h1 <;> simp [h1, isWaterRec]
  | _ => rfl

end P2P.Proofs.Pdb
