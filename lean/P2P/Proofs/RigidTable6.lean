import P2P.Proofs.RigidBase
namespace P2P.Proofs.RigidTable
/-- kernel evaluation of `baseOK` on base definitions 18 … 20 of the regenerated topology -/
theorem chunk6 : chunkOK 6 = true := by decide +kernel
end P2P.Proofs.RigidTable
