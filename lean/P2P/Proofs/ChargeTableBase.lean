import P2P.Model.ChargeTable
import P2P.Model.Rigid
import P2P.Gen.Topology
import P2P.Gen.FFCharges

/-! Shared definitions of the kernel-checked charge table (C02). -/
namespace P2P.Proofs.ChargeTable
open P2P P2P.ChargeTable P2P.Topology

/-- charges are integers in units of 10^-unitExp e -/
def unit : Int := 10 ^ P2P.Gen.FFCharges.unitExp

/-- every amino-acid definition of the regenerated topology: the twenty residues, the titration
states, and their N- and C-terminal and neutral-terminal variants -/
def aminoDefs : List ResDef := P2P.Gen.Topology.residues.filter P2P.Rigid.isAmino

/-- N-terminal proline is looked up as NPRO but carries the atoms of the neutral N-terminus plus
an alias at run time, not those of the definition NPRO: its charge is checked on real runs -/
def excluded : List Str := [str "NPRO", str "NEUTRAL-NPRO"]

/-- the one fully parameterised cell whose numbers do NOT add up (known finding, C12) -/
def knownNonIntegral : List (String × Str) := [("PARSE", str "NEUTRAL-CPRO")]

def tableOK (ff : String × List (Str × List (Str × Int))) : Bool :=
  aminoDefs.all (fun r => excluded.contains r.name || knownNonIntegral.contains (ff.1, r.name) || cellOK unit ff.2 r)

def covered (ff : List (Str × List (Str × Int))) : Nat := (aminoDefs.filter (cellCovered ff)).length

end P2P.Proofs.ChargeTable
