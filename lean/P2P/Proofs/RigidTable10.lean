import P2P.Proofs.RigidBase
namespace P2P.Proofs.RigidTable
/-- kernel evaluation of `baseOK` on base definitions 30 … 32 of the regenerated topology -/
theorem chunk10 : chunkOK 10 = true := by decide +kernel
end P2P.Proofs.RigidTable
