import P2P.Proofs.ChargeTableBase
namespace P2P.Proofs.ChargeTable
/-- kernel evaluation of the SWANSON column of the charge table -/
theorem ok_SWANSON : tableOK ("SWANSON", P2P.Gen.FFCharges.SWANSON) = true := by decide +kernel
theorem cov_SWANSON : covered P2P.Gen.FFCharges.SWANSON = 73 := by decide +kernel
end P2P.Proofs.ChargeTable
