/-
  P2P.Proofs.FFAux3 — helper lemmas for `applyFF`, the last-row-wins property of `baseMap`,
  the alias section and the rename section.
-/
import P2P.Model.FF
import P2P.Proofs.FFAux2

namespace P2P.Proofs.FF
open P2P P2P.FF P2P.Regex

/-! ### `applyFF` -/

theorem applyFF_inner (m : FFMap) (lk : Str) (atoms : List AAtom) (h0 : List (AAtom × Dec × Dec)) (m0 : List AAtom) :
    atoms.foldl (fun (hits, misses) a =>
      match getParams m lk a.name with
      | some (q, rad) => (hits ++ [(a, q, rad)], misses)
      | none => (hits, misses ++ [a])) (h0, m0) =
    (h0 ++ atoms.filterMap (fun a => (getParams m lk a.name).map (fun p => (a, p.1, p.2))),
     m0 ++ atoms.filter (fun a => (getParams m lk a.name).isNone)) := by
  induction atoms generalizing h0 m0 with
  | nil => simp
  | cons a as ih =>
    rw [List.foldl_cons]
    cases hg : getParams m lk a.name with
    | none =>
      simp only []
      rw [ih]
      simp [hg]
    | some p =>
      rcases p with ⟨q, rad⟩
      simp only []
      rw [ih]
      simp [hg]

theorem applyFF_outer (m : FFMap) (rs : List ARes) (h0 : List (AAtom × Dec × Dec)) (m0 : List AAtom) :
    rs.foldl (fun (hits, misses) r =>
      r.atoms.foldl (fun (hits, misses) a =>
        match getParams m r.lookup a.name with
        | some (q, rad) => (hits ++ [(a, q, rad)], misses)
        | none => (hits, misses ++ [a])) (hits, misses)) (h0, m0) =
    (h0 ++ rs.flatMap (fun r => r.atoms.filterMap (fun a =>
        (getParams m r.lookup a.name).map (fun p => (a, p.1, p.2)))),
     m0 ++ rs.flatMap (fun r => r.atoms.filter (fun a => (getParams m r.lookup a.name).isNone))) := by
  have hf : (fun (x : List (AAtom × Dec × Dec) × List AAtom) (r : ARes) =>
      match x with
      | (hits, misses) =>
      r.atoms.foldl (fun (hits, misses) a =>
        match getParams m r.lookup a.name with
        | some (q, rad) => (hits ++ [(a, q, rad)], misses)
        | none => (hits, misses ++ [a])) (hits, misses)) =
      fun x r => (x.1 ++ r.atoms.filterMap (fun a => (getParams m r.lookup a.name).map (fun p => (a, p.1, p.2))),
        x.2 ++ r.atoms.filter (fun a => (getParams m r.lookup a.name).isNone)) := by
    funext x r
    rcases x with ⟨h, ms⟩
    exact applyFF_inner m r.lookup r.atoms h ms
  rw [hf]
  induction rs generalizing h0 m0 with
  | nil => simp
  | cons r rs ih =>
    rw [List.foldl_cons, ih]
    simp

theorem filterMap_fst_perm (m : FFMap) (lk : Str) (atoms : List AAtom) :
    ((atoms.filterMap (fun a => (getParams m lk a.name).map (fun p => (a, p.1, p.2)))).map (·.1) ++
      atoms.filter (fun a => (getParams m lk a.name).isNone)).Perm atoms := by
  induction atoms with
  | nil => simp
  | cons a as ih =>
    cases hg : getParams m lk a.name with
    | none =>
      simp only [List.filterMap_cons, hg, Option.map_none, List.filter_cons, Option.isNone_none, if_true]
      exact (List.perm_middle).trans (List.Perm.cons a ih)
    | some p =>
      simp only [List.filterMap_cons, hg, Option.map_some, List.filter_cons, Option.isNone_some, List.map_cons,
        List.cons_append]
      exact List.Perm.cons a (by simpa using ih)


/-! ### `baseMap` -/

theorem baseMap_append_one (rows : List Row) (row : Row) :
    baseMap (rows ++ [row]) = addRow (baseMap rows) row := by
  simp [baseMap, List.foldl_append]

theorem getParams_addRow (m : FFMap) (row : Row) (res atom : Str) :
    getParams (addRow m row) res atom =
      if row.res = res ∧ row.atom = atom then some (row.q, row.r) else getParams m res atom := by
  unfold addRow getParams
  cases hd : dget? m row.res with
  | none =>
    simp only []
    rw [dget?_append]
    have hh : dhas m row.res = false := (dget?_eq_none_iff _ _).1 hd
    by_cases hr : row.res = res
    · subst hr
      by_cases ha : row.atom = atom <;> simp [hh, hd, dget?_cons, ha]
    · cases hh2 : dhas m res with
      | true => simp [hr]
      | false =>
        have : dget? m res = none := (dget?_eq_none_iff _ _).2 hh2
        simp [hr, dget?_cons, this]
  | some re =>
    simp only []
    rw [dget?_dset]
    by_cases hr : row.res = res
    · subst hr
      simp only [if_true, hd, dget?_dset]
      by_cases ha : row.atom = atom
      · simp [ha]
      · have ha2 : ¬ atom = row.atom := fun e => ha e.symm
        simp [ha, ha2]
    · have hr2 : ¬ res = row.res := fun e => hr e.symm
      simp [hr, hr2]

theorem getParams_foldl_addRow (rows : List Row) (m0 : FFMap) (res atom : Str) :
    getParams (rows.foldl addRow m0) res atom =
      ((rows.reverse.find? (fun r => r.res = res && r.atom = atom)).map (fun r => (r.q, r.r))).or
        (getParams m0 res atom) := by
  induction rows generalizing m0 with
  | nil => simp
  | cons row rows ih =>
    rw [List.foldl_cons, ih, getParams_addRow, List.reverse_cons, List.find?_append]
    cases hf : List.find? (fun r => decide (r.res = res) && decide (r.atom = atom)) rows.reverse with
    | some r => simp
    | none =>
      simp only [Option.none_or, Option.map_none, List.find?_cons]
      by_cases h : row.res = res ∧ row.atom = atom
      · simp [h.1, h.2]
      · rw [if_neg h]
        have : (decide (row.res = res) && decide (row.atom = atom)) = false := by
          simpa using h
        simp [this]


/-! ### alias section -/

def aliasFn (P : Re) (new old : Str) (k : Str) (re : ResEntry) : ResEntry :=
  if (reMatch P k).isSome then
    { re with atoms := match dget? re.atoms old with
                       | some e => dset re.atoms new e
                       | none => re.atoms }
  else re

theorem applySection_alias (canon : List Str) (m : FFMap) (P : Re) (new old : Str) :
    applySection canon m ⟨P, none, [(new, old)]⟩ =
      .ok (m.map (fun p => (p.1, aliasFn P new old p.1 p.2))) := by
  unfold applySection aliasFn
  simp only [List.isEmpty_cons, List.foldl_cons, List.foldl_nil]
  show Except.ok _ = Except.ok _
  congr 1
  apply List.map_congr_left
  intro p _
  rcases p with ⟨k, re⟩
  simp only []
  split <;> rfl


/-! ### rename section -/

theorem dget?_ensure_ne (m : FFMap) (t f k : Str) (h : k ≠ t) : dget? (ensure m t f) k = dget? m k := by
  unfold ensure
  split
  · rfl
  · rw [dget?_append]
    cases hh : dhas m k with
    | true => simp
    | false =>
      have h2 : ¬ t = k := fun e => h e.symm
      simp [dget?_cons, h2, (dget?_eq_none_iff m k).2 hh]

theorem dget?_ensure_self (m : FFMap) (t f : Str) :
    dget? (ensure m t f) t = if dhas m t then dget? m t else some { name := f, atoms := [] } := by
  unfold ensure
  split
  · rfl
  · rename_i hh
    rw [dget?_append]
    simp [hh, dget?_cons]

theorem updateMapRes_other {m m' : FFMap} {t U : Str} (hu : updateMapRes m t U = .ok m') (k : Str)
    (hk : k ≠ t) : dget? m' k = dget? m k := by
  rcases updateMapRes_ok hu with ⟨fr, _, rfl⟩
  rw [dget?_map (ensure m t U) (updFn t fr.atoms), dget?_ensure_ne m t U k hk]
  cases dget? m k with
  | none => rfl
  | some re => simp [updFn, hk]

theorem updateMapRes_self {m m' : FFMap} {t U : Str} (hw : Inv (fun _ => True) m)
    (hu : updateMapRes m t U = .ok m') (a : Str) :
    getParams m' t a = (match getParams m U a with | some v => some v | none => getParams m t a) := by
  rcases updateMapRes_ok hu with ⟨fr, hfr, rfl⟩
  have hn := (inv_lookup hw hfr).1
  unfold getParams
  rw [dget?_map (ensure m t U) (updFn t fr.atoms), dget?_ensure_self, hfr]
  simp only []
  cases hh : dhas m t with
  | true =>
    have : (dget? m t).isSome = true := by rw [dget?_isSome]; exact hh
    rcases Option.isSome_iff_exists.1 this with ⟨re, hre⟩
    simp only [if_true, hre, Option.map_some, updFn, dget?_dsetAll _ hn]
    cases dget? fr.atoms a <;> simp
  | false =>
    have : dget? m t = none := (dget?_eq_none_iff m t).2 hh
    simp only [this, Bool.false_eq_true, if_false, Option.map_some, updFn, if_true, dget?_dsetAll _ hn]
    cases dget? fr.atoms a <;> simp

/-- the rename fold, with the set `S` of names already processed -/
theorem rename_fold (m : FFMap) (U : Str) (l : List (Str × List Str)) :
    ∀ (S : Str → Prop) (mi m' : FFMap),
      Inv (fun _ => True) mi →
      (∀ a, getParams mi U a = getParams m U a) →
      (∀ n, S n → ∀ a, getParams mi n a =
        (match getParams m U a with | some v => some v | none => getParams m n a)) →
      (∀ k, ¬ S k → dget? mi k = dget? m k) →
      l.foldlM (fun m (x : Str × List Str) => updateMapRes m x.1 U) mi = .ok m' →
      (∀ n, (S n ∨ n ∈ l.map (·.1)) → ∀ a, getParams m' n a =
        (match getParams m U a with | some v => some v | none => getParams m n a)) ∧
      (∀ k, ¬ S k → k ∉ l.map (·.1) → dget? m' k = dget? m k) := by
  induction l with
  | nil =>
    intro S mi m' _ _ h3 h4 h
    cases h
    refine ⟨?_, ?_⟩
    · intro n hn
      rcases hn with hn | hn
      · exact h3 n hn
      · simp at hn
    · intro k hk _
      exact h4 k hk
  | cons t l ih =>
    intro S mi m' h1 h2 h3 h4 h
    rw [List.foldlM_cons] at h
    rcases except_bind_ok h with ⟨m1, hm1, hrest⟩
    have hself := updateMapRes_self h1 hm1
    have hother := updateMapRes_other hm1
    have hgp_other : ∀ k, k ≠ t.1 → ∀ a, getParams m1 k a = getParams mi k a := by
      intro k hk a
      unfold getParams
      rw [hother k hk]
    have key := ih (fun n => S n ∨ n = t.1) m1 m' (inv_updateMapRes h1 hm1) ?_ ?_ ?_ hrest
    · refine ⟨?_, ?_⟩
      · intro n hn
        apply key.1
        rcases hn with hn | hn
        · exact Or.inl (Or.inl hn)
        · rw [List.map_cons] at hn
          rcases List.mem_cons.1 hn with hn | hn
          · exact Or.inl (Or.inr hn)
          · exact Or.inr hn
      · intro k hk hk2
        apply key.2
        · intro hh
          rcases hh with hh | hh
          · exact hk hh
          · apply hk2; simp [hh]
        · intro hh; apply hk2
          rw [List.map_cons]
          exact List.mem_cons_of_mem _ hh
    · -- `U` keeps its answers
      intro a
      by_cases hU : U = t.1
      · rw [hU, hself a, ← hU, h2 a]
        cases getParams m U a <;> rfl
      · rw [hgp_other U hU a, h2 a]
    · -- processed names
      intro n hn a
      by_cases hnt : n = t.1
      · rw [hnt, hself a, h2 a]
        by_cases hS : S t.1
        · rw [h3 _ hS a]
          cases getParams m U a <;> rfl
        · have : getParams mi t.1 a = getParams m t.1 a := by
            unfold getParams; rw [h4 _ hS]
          rw [this]
      · rw [hgp_other n hnt a]
        rcases hn with hn | hn
        · exact h3 n hn a
        · exact absurd hn hnt
    · intro k hk
      have hk1 : ¬ S k := fun h => hk (Or.inl h)
      have hk2 : k ≠ t.1 := fun h => hk (Or.inr h)
      rw [hother k hk2, h4 k hk1]

theorem applySection_rename (canon : List Str) (m : FFMap) (P : Re) (U : Str)
    (hg : containsSub U groupVar = false) :
    applySection canon m ⟨P, some U, []⟩ =
      (canon.filterMap (fun n => (reMatch P n).map (fun g => (n, g)))).foldlM
        (fun m (x : Str × List Str) => updateMapRes m x.1 U) m := by
  rw [applySection_eq]
  unfold phase1 phase2
  simp only [hg, Bool.false_eq_true, if_false, List.isEmpty_nil, if_true]
  have : (fun (m : FFMap) (x : Str × List Str) => match x with | (resname, _) => updateMapRes m resname U) =
      (fun m (x : Str × List Str) => updateMapRes m x.1 U) := by
    funext m x
    rcases x with ⟨a, b⟩
    rfl
  rw [this]
  generalize (List.foldlM (fun m (x : Str × List Str) => updateMapRes m x.1 U) m _ : Except FErr FFMap) = x
  cases x <;> rfl

end P2P.Proofs.FF
