import P2P.Model.Carboxylic

/-!
  Generic simulation argument behind the Carboxylic theorems.

  The machine of `P2P.Model.Carboxylic` only ever looks at / creates / renames / removes names of a
  fixed alphabet `A`. `Rel c r s t` says: the names of `t` are a permutation of the alphabet part
  of the names of `s`, the non-alphabet part of `s` is `r`, and all other components agree (and
  hold only alphabet names of the right kind). Every operation of the machine preserves `Rel`,
  so a run on an arbitrary residue is simulated by a run on a small concrete residue whose
  reachable states are enumerated and checked by the kernel (see `CarboxylicLemmas`).
-/
namespace P2P.Proofs.CarboxylicAux
open P2P P2P.Atoms P2P.Carboxylic

/-! ### names-level primitives -/

section prim
variable (A : List Str)

def projN (l : Names) : Names := l.filter (fun n => A.contains n)
def restN (l : Names) : Names := l.filter (fun n => !A.contains n)

variable {A}

theorem projN_rename {a b : Str} (ha : a ∈ A) (hb : b ∈ A) (l : Names) :
    projN A (rename l a b) = rename (projN A l) a b := by
  induction l with
  | nil => rfl
  | cons x l ih =>
    simp only [projN, rename, List.map_cons] at ih ⊢
    by_cases hx : x = a
    · subst hx
      simp only [if_true, List.filter_cons, List.contains_iff_mem, ha, hb, List.map_cons, ih]
    · simp only [hx, if_false, List.filter_cons]
      split
      · simp only [List.map_cons, hx, if_false, ih]
      · exact ih

theorem restN_rename {a b : Str} (ha : a ∈ A) (hb : b ∈ A) (l : Names) :
    restN A (rename l a b) = restN A l := by
  induction l with
  | nil => rfl
  | cons x l ih =>
    simp only [restN, rename, List.map_cons] at ih ⊢
    by_cases hx : x = a
    · subst hx
      have ha' : A.contains x = true := by simpa using ha
      have hb' : A.contains b = true := by simpa using hb
      simp only [if_true, List.filter_cons, ha', hb', Bool.not_true, Bool.false_eq_true, if_false, ih]
    · simp only [hx, if_false, List.filter_cons, ih]

theorem projN_remove (a : Str) (l : Names) :
    projN A (remove l a) = remove (projN A l) a := by
  simp only [projN, remove, List.erase_filter]

theorem restN_remove {a : Str} (ha : a ∈ A) (l : Names) :
    restN A (remove l a) = restN A l := by
  induction l with
  | nil => rfl
  | cons x l ih =>
    simp only [restN, remove] at ih ⊢
    by_cases hx : x = a
    · subst hx
      simp [ha]
    · rw [List.erase_cons_tail (by simpa using hx)]
      simp only [List.filter_cons, ih]

theorem projN_create {a : Str} (ha : a ∈ A) (l : Names) :
    projN A (create l a) = create (projN A l) a := by
  simp [projN, create, List.filter_append, ha]

theorem restN_create {a : Str} (ha : a ∈ A) (l : Names) :
    restN A (create l a) = restN A l := by
  simp [restN, create, List.filter_append, ha]

theorem contains_of_perm {a : Str} (ha : a ∈ A) {l t : Names} (h : t.Perm (projN A l)) :
    t.contains a = l.contains a := by
  rw [Bool.eq_iff_iff]
  simp only [List.contains_iff_mem, h.mem_iff, projN, List.mem_filter, ha, and_true]

end prim

/-! ### configuration: alphabet, the hydrogen names, the oxygen names -/

structure Cfg where
  A : List Str
  HA : List Str
  OA : List Str
  p1 : Str
  p2 : Str
  oxy : Str → Str
  hHA : ∀ x ∈ HA, x ∈ A
  hOA : ∀ x ∈ OA, x ∈ A
  hdisj : ∀ x ∈ OA, x ∉ HA
  hflip : flipSuffix ∈ OA
  hstem : ∀ x ∈ HA, x.length = 4 → stem x ∈ HA
  hstem2 : ∀ x ∈ HA, stem x ++ ['2'] ∈ HA
  hinit : ∀ h ∈ [p1, p2], h ∈ HA ∧ h ++ ['1'] ∈ HA ∧ h ++ ['2'] ∈ HA ∧ oxy h ∈ OA

/-- the simulation relation -/
structure Rel (c : Cfg) (r : Names) (s t : St) : Prop where
  perm : t.names.Perm (projN c.A s.names)
  rest : restN c.A s.names = r
  hl : t.hlist = s.hlist
  al : t.atomlist = s.atomlist
  fx : t.fixed = s.fixed
  hH : ∀ x ∈ s.hlist, x ∈ c.HA
  hO : ∀ x ∈ s.atomlist, x ∈ c.OA

variable {c : Cfg} {r : Names} {s t : St}

theorem Rel.contains (h : Rel c r s t) {a : Str} (ha : a ∈ c.A) :
    t.names.contains a = s.names.contains a := contains_of_perm ha h.perm

theorem Rel.renameAll (h : Rel c r s t) {a b : Str}
    (hab : (a ∈ c.HA ∧ b ∈ c.HA) ∨ (a ∈ c.OA ∧ b ∈ c.OA)) :
    Rel c r (renameAll s a b) (renameAll t a b) := by
  have ha : a ∈ c.A := hab.elim (fun h => c.hHA _ h.1) (fun h => c.hOA _ h.1)
  have hb : b ∈ c.A := hab.elim (fun h => c.hHA _ h.2) (fun h => c.hOA _ h.2)
  refine ⟨?_, ?_, ?_, ?_, h.fx, ?_, ?_⟩
  · simp only [Carboxylic.renameAll, projN_rename ha hb]
    exact h.perm.map _
  · simp only [Carboxylic.renameAll, restN_rename ha hb, h.rest]
  · simp only [Carboxylic.renameAll, h.hl]
  · simp only [Carboxylic.renameAll, h.al]
  · intro x hx
    simp only [Carboxylic.renameAll, List.mem_map] at hx
    obtain ⟨y, hy, rfl⟩ := hx
    split
    · next hya =>
      subst hya
      rcases hab with hab | hab
      · exact hab.2
      · exact absurd (h.hH _ hy) (c.hdisj _ hab.1)
    · exact h.hH _ hy
  · intro x hx
    simp only [Carboxylic.renameAll, List.mem_map] at hx
    obtain ⟨y, hy, rfl⟩ := hx
    split
    · next hya =>
      subst hya
      rcases hab with hab | hab
      · exact absurd hab.1 (c.hdisj _ (h.hO _ hy))
      · exact hab.2
    · exact h.hO _ hy

theorem Rel.removeAtom (h : Rel c r s t) {a : Str} (ha : a ∈ c.A) :
    Rel c r (removeAtom s a) (removeAtom t a) := by
  refine ⟨?_, ?_, ?_, h.al, h.fx, ?_, h.hO⟩
  · simp only [Carboxylic.removeAtom, projN_remove]
    exact h.perm.erase _
  · simp only [Carboxylic.removeAtom, restN_remove ha, h.rest]
  · simp only [Carboxylic.removeAtom, h.hl]
  · intro x hx
    simp only [Carboxylic.removeAtom, List.mem_filter] at hx
    exact h.hH _ hx.1

theorem Rel.setFixed (h : Rel c r s t) (b : Bool) :
    Rel c r { s with fixed := b } { t with fixed := b } :=
  ⟨h.perm, h.rest, h.hl, h.al, rfl, h.hH, h.hO⟩

theorem Rel.addAtom (h : Rel c r s t) {o : Str} (ho : o ∈ c.OA) :
    Rel c r { s with atomlist := s.atomlist ++ [o] } { t with atomlist := t.atomlist ++ [o] } := by
  refine ⟨h.perm, h.rest, h.hl, ?_, h.fx, h.hH, ?_⟩
  · simp only [h.al]
  · intro x hx
    simp only [List.mem_append, List.mem_singleton] at hx
    rcases hx with hx | rfl
    · exact h.hO _ hx
    · exact ho

theorem Rel.swapO (h : Rel c r s t) : Rel c r (swapO s) (swapO t) := by
  have ht := h.al
  rcases hs : s.atomlist with _ | ⟨o0, _ | ⟨o1, _ | ⟨o2, l⟩⟩⟩ <;> rw [hs] at ht <;>
    simp only [Carboxylic.swapO, hs, ht]
  · exact h
  · exact h
  · have h0 : o0 ∈ c.OA := h.hO _ (by simp [hs])
    have h1 : o1 ∈ c.OA := h.hO _ (by simp [hs])
    exact ((h.renameAll (Or.inr ⟨h0, c.hflip⟩)).renameAll (Or.inr ⟨h1, h0⟩)).renameAll
      (Or.inr ⟨c.hflip, h1⟩)
  · exact h

/-! `renameH`, cut into pieces -/

def addOxy (s : St) (o : Str) : St :=
  if s.atomlist.head? ≠ some o && !s.atomlist.contains o then
    { s with atomlist := s.atomlist ++ [o] } else s

def renameTail (s : St) (hyd : Str) : St := Carboxylic.swapO (Carboxylic.renameAll s hyd (stem hyd ++ ['2']))

def renameH2 (s : St) (hyd p1 p2 : Str) (oxy : Str → Str) : St :=
  if s.atomlist.length = 2 then
    if endsWith1 hyd then renameTail s hyd else s
  else if s.atomlist.length = 1 then
    let s := addOxy (addOxy s (oxy p1)) (oxy p2)
    if endsWith1 hyd then
      renameTail (if s.names.contains (stem hyd ++ ['2']) then Carboxylic.removeAtom s (stem hyd ++ ['2']) else s) hyd
    else s
  else s

theorem renameH_eq (s : St) (hyd p1 p2 : Str) (oxy : Str → Str) :
    renameH s hyd p1 p2 oxy =
      if !s.names.contains hyd then s
      else if hyd.length = 4 then renameH2 (Carboxylic.renameAll s hyd (stem hyd)) (stem hyd) p1 p2 oxy
      else renameH2 s hyd p1 p2 oxy := by
  by_cases h4 : hyd.length = 4 <;> simp only [renameH, h4, if_true, if_false] <;> rfl

theorem Rel.addOxy (h : Rel c r s t) {o : Str} (ho : o ∈ c.OA) :
    Rel c r (addOxy s o) (addOxy t o) := by
  unfold CarboxylicAux.addOxy
  rw [h.al]
  split
  · simpa only [h.al] using h.addAtom ho
  · exact h

theorem Rel.renameTail (h : Rel c r s t) {hyd : Str} (hh : hyd ∈ c.HA) :
    Rel c r (renameTail s hyd) (renameTail t hyd) :=
  (h.renameAll (Or.inl ⟨hh, c.hstem2 _ hh⟩)).swapO

theorem Rel.renameH2 (h : Rel c r s t) {hyd : Str} (hh : hyd ∈ c.HA) :
    Rel c r (renameH2 s hyd c.p1 c.p2 c.oxy) (renameH2 t hyd c.p1 c.p2 c.oxy) := by
  unfold CarboxylicAux.renameH2
  rw [h.al]
  split
  · split
    · exact h.renameTail hh
    · exact h
  · split
    · have h2 : Rel c r (CarboxylicAux.addOxy (CarboxylicAux.addOxy s (c.oxy c.p1)) (c.oxy c.p2))
          (CarboxylicAux.addOxy (CarboxylicAux.addOxy t (c.oxy c.p1)) (c.oxy c.p2)) :=
        (h.addOxy (c.hinit c.p1 (by simp)).2.2.2).addOxy (c.hinit c.p2 (by simp)).2.2.2
      have hA : stem hyd ++ ['2'] ∈ c.A := c.hHA _ (c.hstem2 _ hh)
      simp only []
      split
      · rw [h2.contains hA]
        split
        · exact (h2.removeAtom hA).renameTail hh
        · exact h2.renameTail hh
      · exact h2
    · exact h

theorem Rel.renameH (h : Rel c r s t) {hyd : Str} (hh : hyd ∈ c.HA) :
    Rel c r (renameH s hyd c.p1 c.p2 c.oxy) (renameH t hyd c.p1 c.p2 c.oxy) := by
  rw [renameH_eq, renameH_eq, h.contains (c.hHA _ hh)]
  split
  · exact h
  · split
    · next h4 => exact (h.renameAll (Or.inl ⟨hh, c.hstem _ hh h4⟩)).renameH2 (c.hstem _ hh h4)
    · exact h.renameH2 hh

theorem Rel.tryAcceptor (h : Rel c r s t) (b : Bool) :
    Rel c r (tryAcceptor s b c.p1 c.p2 c.oxy) (tryAcceptor t b c.p1 c.p2 c.oxy) := by
  have ht := h.hl
  rcases hs : s.hlist with _ | ⟨h0, _ | ⟨h1, l⟩⟩ <;> rw [hs] at ht
  · simp only [Carboxylic.tryAcceptor, hs, ht]; exact h
  · simp only [Carboxylic.tryAcceptor, hs, ht]; exact h
  · have m0 : h0 ∈ c.HA := h.hH _ (by simp [hs])
    have m1 : h1 ∈ c.HA := h.hH _ (by simp [hs])
    cases b
    · have h' := h.removeAtom (c.hHA _ m1)
      simp only [Carboxylic.tryAcceptor, hs, ht, Bool.false_eq_true, if_false, h'.hl]
      split
      · exact (h'.renameH m0).setFixed true
      · exact h'
    · have h' := h.removeAtom (c.hHA _ m0)
      simp only [Carboxylic.tryAcceptor, hs, ht, if_true, h'.hl]
      split
      · exact (h'.renameH m1).setFixed true
      · exact h'

theorem Rel.foldRemove (p : Str → Prop) [DecidablePred p] (l : List Str) (hl : ∀ x ∈ l, x ∈ c.HA) :
    ∀ {s t : St}, Rel c r s t →
    Rel c r (l.foldl (fun s h => if p h then Carboxylic.removeAtom s h else s) s)
      (l.foldl (fun s h => if p h then Carboxylic.removeAtom s h else s) t) := by
  induction l with
  | nil => intro s t h; exact h
  | cons x l ih =>
    intro s t h
    simp only [List.foldl_cons]
    apply ih (fun y hy => hl y (List.mem_cons_of_mem _ hy))
    split
    · exact h.removeAtom (c.hHA _ (hl x (List.mem_cons_self ..)))
    · exact h

theorem Rel.fix (h : Rel c r s t) {keep : Str} (hk : keep ∈ c.HA) :
    Rel c r (fix s keep c.p1 c.p2 c.oxy) (fix t keep c.p1 c.p2 c.oxy) := by
  simp only [Carboxylic.fix, h.hl]
  exact ((Rel.foldRemove (fun x => x ≠ keep) s.hlist h.hH h).renameH hk).setFixed true

theorem Rel.finalize (h : Rel c r s t) {best : Option Str} (hb : ∀ b, best = some b → b ∈ c.HA) :
    Rel c r (finalize s best c.p1 c.p2 c.oxy) (finalize t best c.p1 c.p2 c.oxy) := by
  simp only [Carboxylic.finalize, h.hl, h.fx]
  split
  · exact h
  · have h' := Rel.foldRemove (fun x => some x ≠ best) s.hlist h.hH h
    apply Rel.setFixed
    cases best with
    | none => exact h'
    | some b =>
      simp only []
      split
      · exact h'.renameH (hb b rfl)
      · exact h'

def unfix (s : St) : St := if s.hlist.length = 2 && s.fixed then { s with fixed := false } else s

theorem complete_eq (s : St) (best : Option Str) (p1 p2 : Str) (oxy : Str → Str) :
    complete s best p1 p2 oxy =
      if !(unfix s).fixed then finalize (unfix s) best p1 p2 oxy else unfix s := rfl

theorem Rel.unfix (h : Rel c r s t) : Rel c r (unfix s) (unfix t) := by
  unfold CarboxylicAux.unfix
  rw [h.hl, h.fx]
  split
  · have := h.setFixed false
    rwa [h.hl] at this
  · exact h

theorem Rel.complete (h : Rel c r s t) {best : Option Str} (hb : ∀ b, best = some b → b ∈ c.HA) :
    Rel c r (complete s best c.p1 c.p2 c.oxy) (complete t best c.p1 c.p2 c.oxy) := by
  rw [complete_eq, complete_eq, h.unfix.fx]
  split
  · exact h.unfix.finalize hb
  · exact h.unfix

theorem Rel.step (h : Rel c r s t) (op : COp) :
    Rel c r (step c.p1 c.p2 c.oxy s op) (step c.p1 c.p2 c.oxy t op) := by
  cases op with
  | acc b => exact h.tryAcceptor b
  | fix k =>
    simp only [Carboxylic.step, h.hl]
    cases hk : s.hlist[k]? with
    | none => exact h
    | some x => exact h.fix (h.hH _ (List.mem_of_getElem? hk))

theorem Rel.foldl_step (ops : List COp) : ∀ {s t : St}, Rel c r s t →
    Rel c r (ops.foldl (Carboxylic.step c.p1 c.p2 c.oxy) s)
      (ops.foldl (Carboxylic.step c.p1 c.p2 c.oxy) t) := by
  induction ops with
  | nil => intro s t h; exact h
  | cons op ops ih => intro s t h; exact ih (h.step op)

/-! ### `init` -/

def initStep (oxy : Str → Str) (skip : Str → Bool) (s : St) (h : Str) : St :=
  if skip h then { s with atomlist := s.atomlist ++ [oxy h] }
  else
    let s := Carboxylic.renameAll s h (h ++ ['1'])
    { s with names := create s.names (h ++ ['2']), atomlist := s.atomlist ++ [oxy h],
             hlist := s.hlist ++ [h ++ ['1'], h ++ ['2']] }

theorem init_eq (names : Names) (order : List Str) (oxy : Str → Str) (skip : Str → Bool) :
    init names order oxy skip =
      order.foldl (initStep oxy skip) { names, hlist := [], atomlist := [], fixed := false } := rfl

theorem Rel.double (h : Rel c r s t) {a b o : Str} (ha : a ∈ c.HA) (hb : b ∈ c.HA) (ho : o ∈ c.OA) :
    Rel c r { s with names := create s.names b, atomlist := s.atomlist ++ [o], hlist := s.hlist ++ [a, b] }
      { t with names := create t.names b, atomlist := t.atomlist ++ [o], hlist := t.hlist ++ [a, b] } := by
  refine ⟨?_, ?_, ?_, ?_, h.fx, ?_, ?_⟩
  · simp only [projN_create (c.hHA _ hb)]
    exact h.perm.append_right _
  · simp only [restN_create (c.hHA _ hb), h.rest]
  · simp only [h.hl]
  · simp only [h.al]
  · intro x hx
    simp only [List.mem_append, List.mem_cons, List.not_mem_nil, or_false] at hx
    rcases hx with hx | rfl | rfl
    · exact h.hH _ hx
    · exact ha
    · exact hb
  · intro x hx
    simp only [List.mem_append, List.mem_singleton] at hx
    rcases hx with hx | rfl
    · exact h.hO _ hx
    · exact ho

theorem Rel.initStep (h : Rel c r s t) {sk sk' : Str → Bool} {x : Str} (hx : x ∈ [c.p1, c.p2])
    (hsk : sk x = sk' x) :
    Rel c r (initStep c.oxy sk s x) (initStep c.oxy sk' t x) := by
  obtain ⟨m, m1, m2, mo⟩ := c.hinit x hx
  unfold CarboxylicAux.initStep
  rw [hsk]
  split
  · exact h.addAtom mo
  · exact (h.renameAll (Or.inl ⟨m, m1⟩)).double m1 m2 mo

theorem Rel.foldl_initStep {sk sk' : Str → Bool} (order : List Str) (ho : ∀ x ∈ order, x ∈ [c.p1, c.p2])
    (hsk : ∀ x ∈ order, sk x = sk' x) : ∀ {s t : St}, Rel c r s t →
    Rel c r (order.foldl (CarboxylicAux.initStep c.oxy sk) s)
      (order.foldl (CarboxylicAux.initStep c.oxy sk') t) := by
  induction order with
  | nil => intro s t h; exact h
  | cons x l ih =>
    intro s t h
    exact ih (fun y hy => ho y (List.mem_cons_of_mem _ hy)) (fun y hy => hsk y (List.mem_cons_of_mem _ hy))
      (h.initStep (ho x (List.mem_cons_self ..)) (hsk x (List.mem_cons_self ..)))

theorem Rel.init {names base : Names} (hp : base.Perm (projN c.A names)) (order : List Str)
    (ho : ∀ x ∈ order, x ∈ [c.p1, c.p2]) :
    Rel c (restN c.A names) (init names order c.oxy (fun h => !names.contains h))
      (init base order c.oxy (fun h => !base.contains h)) := by
  rw [init_eq, init_eq]
  apply Rel.foldl_initStep order ho
  · intro x hx
    have hA : x ∈ c.A := c.hHA _ (c.hinit x (ho x hx)).1
    simp only [contains_of_perm hA hp]
  · exact ⟨hp, rfl, rfl, rfl, rfl, fun _ hx => by simp at hx, fun _ hx => by simp at hx⟩

/-! ### `cleanup` -/

theorem cleanup_sim {l t : Names} {a b : Str} (ha : a ∈ c.A) (hb : b ∈ c.A) (h : t.Perm (projN c.A l)) :
    (cleanup t a b).Perm (projN c.A (cleanup l a b)) ∧ restN c.A (cleanup l a b) = restN c.A l := by
  unfold cleanup
  rw [contains_of_perm ha h, contains_of_perm hb h]
  split
  · exact ⟨by rw [projN_remove]; exact h.erase _, restN_remove ha _⟩
  · exact ⟨h, rfl⟩

/-! ### the finite part, and the combination -/

def succs (c : Cfg) (s : St) : List St :=
  [Carboxylic.tryAcceptor s true c.p1 c.p2 c.oxy, Carboxylic.tryAcceptor s false c.p1 c.p2 c.oxy] ++
    s.hlist.map (fun h => Carboxylic.fix s h c.p1 c.p2 c.oxy)

/-- the possible lowest-energy candidates: none only when no candidate is left -/
def bests (s : St) : List (Option Str) := if s.hlist.isEmpty then [none] else s.hlist.map some

theorem step_mem (c : Cfg) (t : St) (op : COp) :
    Carboxylic.step c.p1 c.p2 c.oxy t op = t ∨ Carboxylic.step c.p1 c.p2 c.oxy t op ∈ succs c t := by
  cases op with
  | acc b => cases b <;> simp [Carboxylic.step, succs]
  | fix k =>
    simp only [Carboxylic.step]
    cases hk : t.hlist[k]? with
    | none => exact Or.inl rfl
    | some x =>
      right
      simp only [succs, List.mem_append, List.mem_map]
      exact Or.inr ⟨x, List.mem_of_getElem? hk, rfl⟩

theorem main (c : Cfg) (base target : Names) (order : List Str) (table : List St)
    (ho : ∀ h ∈ order, h ∈ [c.p1, c.p2])
    (h0 : init base order c.oxy (fun h => !base.contains h) ∈ table)
    (hclosed : ∀ t ∈ table, ∀ t' ∈ succs c t, t' ∈ table)
    (hfinal : ∀ t ∈ table, ∀ b ∈ bests t,
      (cleanup (complete t b c.p1 c.p2 c.oxy).names c.p1 c.p2).Perm target)
    (names : Names) (hperm : base.Perm (projN c.A names)) (ops : List COp) (bestIdx : Nat) :
    (projN c.A (run names c.p1 c.p2 c.oxy order ops bestIdx)).Perm target ∧
    restN c.A (run names c.p1 c.p2 c.oxy order ops bestIdx) = restN c.A names := by
  have R0 := Rel.init (c := c) hperm order ho
  -- the concrete run stays in the table
  have htab : ∀ (ops : List COp) (t : St), t ∈ table →
      ops.foldl (Carboxylic.step c.p1 c.p2 c.oxy) t ∈ table := by
    intro ops
    induction ops with
    | nil => intro t ht; exact ht
    | cons op ops ih =>
      intro t ht
      apply ih
      rcases step_mem c t op with e | m
      · rw [e]; exact ht
      · exact hclosed t ht _ m
  have R := Rel.foldl_step ops R0
  have T := htab ops _ h0
  generalize hs : ops.foldl (Carboxylic.step c.p1 c.p2 c.oxy) (init names order c.oxy (fun h => !names.contains h)) = s at R
  generalize ops.foldl (Carboxylic.step c.p1 c.p2 c.oxy) (init base order c.oxy (fun h => !base.contains h)) = t at R T
  -- the lowest-energy candidate
  have hbest : ∀ best : Option Str,
      best = (if s.hlist.isEmpty then none else s.hlist[bestIdx % s.hlist.length]?) →
      (∀ b, best = some b → b ∈ c.HA) ∧ best ∈ bests t := by
    intro best hb
    simp only [bests, R.hl]
    by_cases he : s.hlist.isEmpty = true
    · simp only [he, if_true] at hb ⊢
      subst hb; exact ⟨fun _ h => (by cases h), List.mem_singleton.2 rfl⟩
    · simp only [he] at hb ⊢
      have hlt : bestIdx % s.hlist.length < s.hlist.length := by
        apply Nat.mod_lt
        cases hh : s.hlist with
        | nil => rw [hh] at he; exact absurd rfl he
        | cons a l => simp
      rw [List.getElem?_eq_getElem hlt] at hb
      subst hb
      have hx : s.hlist[bestIdx % s.hlist.length] ∈ s.hlist := List.getElem_mem hlt
      refine ⟨fun b hb => ?_, List.mem_map.2 ⟨_, hx, rfl⟩⟩
      cases hb; exact R.hH _ hx
  have e : run names c.p1 c.p2 c.oxy order ops bestIdx =
      cleanup (complete s (if s.hlist.isEmpty then none else s.hlist[bestIdx % s.hlist.length]?)
        c.p1 c.p2 c.oxy).names c.p1 c.p2 := by
    subst hs; rfl
  rw [e]
  obtain ⟨hb1, hb2⟩ := hbest _ rfl
  have R' := R.complete hb1
  have mp1 : c.p1 ∈ c.A := c.hHA _ (c.hinit c.p1 (by simp)).1
  have mp2 : c.p2 ∈ c.A := c.hHA _ (c.hinit c.p2 (by simp)).1
  obtain ⟨q1, q2⟩ := cleanup_sim mp1 mp2 R'.perm
  exact ⟨q1.symm.trans (hfinal t T _ hb2), q2.trans R'.rest⟩

/-- one round of the closure computation -/
def closeStep (c : Cfg) (tbl : List St) : List St := (tbl ++ tbl.flatMap (succs c)).eraseDups

/-- the states reachable from the concrete residue `base` (two rounds suffice; closedness is
checked, not assumed) -/
def tableOf (c : Cfg) (base : Names) (order : List Str) : List St :=
  closeStep c (closeStep c (closeStep c [init base order c.oxy (fun h => !base.contains h)]))

/-- everything the kernel has to check for one construction order -/
def Checked (c : Cfg) (base target : Names) (order : List Str) : Prop :=
  (∀ h ∈ order, h ∈ [c.p1, c.p2]) ∧
  init base order c.oxy (fun h => !base.contains h) ∈ tableOf c base order ∧
  (∀ t ∈ tableOf c base order, ∀ t' ∈ succs c t, t' ∈ tableOf c base order) ∧
  (∀ t ∈ tableOf c base order, ∀ b ∈ bests t,
    (cleanup (complete t b c.p1 c.p2 c.oxy).names c.p1 c.p2).Perm target)

instance (c : Cfg) (base target : Names) (order : List Str) : Decidable (Checked c base target order) := by
  unfold Checked; infer_instance

theorem main' (c : Cfg) (base target : Names) (order : List Str) (hc : Checked c base target order)
    (names : Names) (hperm : base.Perm (projN c.A names)) (ops : List COp) (bestIdx : Nat) :
    (projN c.A (run names c.p1 c.p2 c.oxy order ops bestIdx)).Perm target ∧
    restN c.A (run names c.p1 c.p2 c.oxy order ops bestIdx) = restN c.A names :=
  main c base target order _ hc.1 hc.2.1 hc.2.2.1 hc.2.2.2 names hperm ops bestIdx

/-- a duplicate-free residue that holds the names of `base` and no other name of the alphabet:
its alphabet part is a permutation of `base` -/
theorem perm_base {A base : List Str} {names : Names} (hn : names.Nodup) (hb : base.Nodup)
    (hin : ∀ x ∈ base, x ∈ names ∧ x ∈ A) (hout : ∀ x ∈ A, x ∉ base → x ∉ names) :
    base.Perm (projN A names) := by
  unfold projN
  rw [List.perm_ext_iff_of_nodup hb (hn.filter _)]
  intro a
  simp only [List.mem_filter, List.contains_iff_mem]
  constructor
  · exact hin a
  · rintro ⟨h1, h2⟩
    exact Decidable.byContradiction fun h3 => hout a h2 h3 h1

end P2P.Proofs.CarboxylicAux
