import P2P.Model.Peoe
import P2P.Proofs.PeoeLemmas

/-! Relabelling the atoms of a molecule and re-ordering its bond records permutes the PEOE
charges and does nothing else (over ℚ). -/
namespace P2P.Proofs.PeoeEquiv
open P2P P2P.Peoe P2P.Proofs.Peoe

private theorem qadd (a b : ℚ) : @HAdd.hAdd ℚ ℚ ℚ (@instHAdd ℚ QNum.toAdd) a b = a + b := rfl
private theorem qsub (a b : ℚ) : @HSub.hSub ℚ ℚ ℚ (@instHSub ℚ QNum.toSub) a b = a - b := rfl
private theorem qmul (a b : ℚ) : @HMul.hMul ℚ ℚ ℚ (@instHMul ℚ QNum.toMul) a b = a * b := rfl
private theorem qdiv (a b : ℚ) : @HDiv.hDiv ℚ ℚ ℚ (@instHDiv ℚ QNum.toDiv) a b = a / b := rfl
private theorem qofNat (n : Nat) : (QNum.ofNat n : ℚ) = (n : ℚ) := rfl
private theorem qlt (a b : ℚ) : QNum.lt a b = decide (a < b) := rfl
private theorem qpow (a : ℚ) (n : Nat) : QNum.pow a n = a ^ n := rfl

/-- the pairwise transfer from atom `j` to atom `i` -/
private def pairF (chi : ℚ → Nat → ℚ) (norm : Nat → ℚ) (damp : ℚ) (k : Nat) (q : List ℚ) (i j : Nat) : ℚ :=
  (chi (q.getD j 0) j - chi (q.getD i 0) i) /
    (if chi (q.getD i 0) i < chi (q.getD j 0) j then norm i else norm j) * damp ^ k

private theorem foldl_add_eq (g : Nat → ℚ) (l : List Nat) (a : ℚ) :
    l.foldl (fun acc j => acc + g j) a = a + (l.map g).sum := by
  induction l generalizing a with
  | nil => simp
  | cons x l ih => simp only [List.foldl_cons, ih, List.map_cons, List.sum_cons]; ring

private theorem cycles_succ (n : Nat) (chi : ℚ → Nat → ℚ) (norm : Nat → ℚ) (bonded : Nat → List Nat) (damp : ℚ)
    (share : Nat → ℚ) (k ic : Nat) (q : List ℚ) :
    cycles n chi norm bonded damp share (k + 1) ic q =
      cycles n chi norm bonded damp share k (ic + 1)
        ((List.range n).map (fun i => q.getD i 0 +
          (((bonded i).map (pairF chi norm damp (ic + 1) q i)).sum + share i))) := by
  rw [cycles]
  congr 1
  apply List.map_congr_left
  intro i _
  simp only [qadd, qsub, qmul, qdiv, qofNat, qlt, qpow, Nat.cast_zero, decide_eq_true_eq]
  rw [foldl_add_eq]
  simp only [zero_add]
  rfl

private theorem getD_range_map (n : Nat) (f : Nat → ℚ) (i : Nat) (hi : i < n) :
    ((List.range n).map f).getD i 0 = f i := by
  simp [List.getD_eq_getElem?_getD, hi]

/-- **equivariance of the charge cycles**: let `σ` relabel the atoms `0 … n-1` (`τ` its inverse on
that range). If the second description of the molecule is the first one seen through `σ` — the
same electronegativity, normaliser and share for corresponding atoms, and for every atom a
neighbour list that is a PERMUTATION of the relabelled neighbour list of its counterpart (bond
records may come in any order) — then after any number of cycles, starting from corresponding
charges, the charges correspond: atom `i` of the second description carries the charge of atom
`σ i` of the first. -/
theorem cycles_equivariant_core (n : Nat) (σ τ : Nat → Nat)
    (hσ : ∀ i, i < n → σ i < n) (hτ : ∀ i, i < n → τ i < n) (hστ : ∀ i, i < n → σ (τ i) = i) (hτσ : ∀ i, i < n → τ (σ i) = i)
    (chi chi' : ℚ → Nat → ℚ) (norm norm' : Nat → ℚ) (bonded bonded' : Nat → List Nat) (damp : ℚ) (share share' : Nat → ℚ)
    (hchi : ∀ q i, i < n → chi' q i = chi q (σ i)) (hnorm : ∀ i, i < n → norm' i = norm (σ i))
    (hshare : ∀ i, i < n → share' i = share (σ i))
    (hb : ∀ i, i < n → ∀ j ∈ bonded i, j < n)
    (hbond : ∀ i, i < n → (bonded' i).Perm ((bonded (σ i)).map τ))
    (k icycle : Nat) (q q' : List ℚ) (hq : q.length = n) (hq' : q'.length = n)
    (hqq : ∀ i, i < n → q'.getD i 0 = q.getD (σ i) 0) :
    let r := cycles n chi norm bonded damp share k icycle q
    let r' := cycles n chi' norm' bonded' damp share' k icycle q'
    r.length = q.length ∧ r'.length = q'.length ∧ (k = 0 ∨ (r.length = n ∧ r'.length = n)) ∧
    ∀ i, i < n → r'.getD i 0 = r.getD (σ i) 0 := by
  induction k generalizing icycle q q' with
  | zero =>
    intro r r'
    refine ⟨rfl, rfl, Or.inl rfl, ?_⟩
    intro i hi
    exact hqq i hi
  | succ k ih =>
    intro r r'
    have hstep : ∀ i, i < n →
        ((bonded' i).map (pairF chi' norm' damp (icycle + 1) q' i)).sum =
          ((bonded (σ i)).map (pairF chi norm damp (icycle + 1) q (σ i))).sum := by
      intro i hi
      rw [((hbond i hi).map _).sum_eq, List.map_map]
      congr 1
      apply List.map_congr_left
      intro m hm
      have hmn : m < n := hb (σ i) (hσ i hi) m hm
      have hτm : τ m < n := hτ m hmn
      simp only [Function.comp, pairF]
      rw [hchi _ i hi, hchi _ (τ m) hτm, hnorm i hi, hnorm (τ m) hτm, hqq i hi, hqq (τ m) hτm,
        hστ m hmn]
    have key := ih (icycle + 1)
      ((List.range n).map (fun i => q.getD i 0 +
          (((bonded i).map (pairF chi norm damp (icycle + 1) q i)).sum + share i)))
      ((List.range n).map (fun i => q'.getD i 0 +
          (((bonded' i).map (pairF chi' norm' damp (icycle + 1) q' i)).sum + share' i)))
      (by simp) (by simp)
      (by
        intro i hi
        rw [getD_range_map n _ i hi, getD_range_map n _ (σ i) (hσ i hi), hstep i hi, hshare i hi,
          hqq i hi])
    simp only [List.length_map, List.length_range] at key
    obtain ⟨k1, k2, _, k4⟩ := key
    have er : r = cycles n chi norm bonded damp share k (icycle + 1)
        ((List.range n).map (fun i => q.getD i 0 +
          (((bonded i).map (pairF chi norm damp (icycle + 1) q i)).sum + share i))) :=
      cycles_succ ..
    have er' : r' = cycles n chi' norm' bonded' damp share' k (icycle + 1)
        ((List.range n).map (fun i => q'.getD i 0 +
          (((bonded' i).map (pairF chi' norm' damp (icycle + 1) q' i)).sum + share' i))) :=
      cycles_succ ..
    rw [er, er']
    refine ⟨by rw [k1, hq], by rw [k2, hq'], Or.inr ⟨k1, k2⟩, k4⟩

end P2P.Proofs.PeoeEquiv
