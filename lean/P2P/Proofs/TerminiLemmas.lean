/-
  Lemmas behind Props/C02.lean: `assignTermini`, `setTermini`, `formalCharge`.
-/
import P2P.Model.Termini

namespace P2P.Proofs.Termini
open P2P P2P.Termini P2P.State

/-! ### `setAt` -/

theorem setAt_zero (a : TRes) (l : List TRes) (f : TRes → TRes) : setAt (a :: l) 0 f = f a :: l := by
  simp only [setAt, List.mapIdx_cons, if_true]
  congr 1
  apply List.ext_getElem <;> simp

theorem setAt_succ (a : TRes) (l : List TRes) (i : Nat) (f : TRes → TRes) :
    setAt (a :: l) (i+1) f = a :: setAt l i f := by
  simp [setAt, List.mapIdx_cons]

theorem setAt_length (l : List TRes) (i : Nat) (f : TRes → TRes) : (setAt l i f).length = l.length := by
  simp [setAt]

theorem setAt_append_right (l m : List TRes) (i : Nat) (f : TRes → TRes) :
    setAt (l ++ m) (l.length + i) f = l ++ setAt m i f := by
  induction l with
  | nil => simp
  | cons a l ih =>
    have : (a :: l).length + i = (l.length + i) + 1 := by simp; omega
    rw [List.cons_append, this, setAt_succ, ih]; rfl

theorem setAt_last (l : List TRes) (a : TRes) (f : TRes → TRes) :
    setAt (l ++ [a]) l.length f = l ++ [f a] := by
  have := setAt_append_right l [a] 0 f
  simpa [setAt_zero] using this

theorem setAt_map {β} (g : TRes → β) (l : List TRes) (i : Nat) (f : TRes → TRes) (hf : ∀ r, g (f r) = g r) :
    (setAt l i f).map g = l.map g := by
  induction l generalizing i with
  | nil => simp [setAt]
  | cons a l ih =>
    cases i with
    | zero => simp [setAt_zero, hf]
    | succ i => simp [setAt_succ, ih]

theorem cyclic_none_core (nn nc : Bool) (chain : List TRes) (r0 : TRes) (rest : List TRes) (hc : chain = r0 :: rest)
    (hN : r0.atoms.contains (str "N") = true) (hC : (ringEnd chain r0).atoms.contains (str "C") = true) :
    assignTermini nn nc true chain = some chain := by
  subst hc
  simp only [assignTermini]
  rw [hN, hC]
  simp

theorem assign_preserves_core (nn nc cyc : Bool) (chain out : List TRes) (h : assignTermini nn nc cyc chain = some out) :
    out.map (fun r => (r.id, r.kind, r.name, r.atoms)) = chain.map (fun r => (r.id, r.kind, r.name, r.atoms)) := by
  cases chain with
  | nil => simp [assignTermini] at h
  | cons r0 rest =>
    simp only [assignTermini] at h
    split at h
    · cases h; rfl
    · have hN : ∀ (c : List TRes),
        (if r0.kind = .amino then
          setAt c 0 (fun r => patch { r with isN := true } (if nn || r.nHeavy2 then "NEUTRAL-NTERM" else "NTERM"))
        else if r0.kind = .nucleic then setAt c 0 (fun r => patch { r with is5 := true } "5TERM")
        else c).map (fun r => (r.id, r.kind, r.name, r.atoms)) = c.map (fun r => (r.id, r.kind, r.name, r.atoms)) := by
        intro c
        split
        · exact setAt_map _ _ _ _ (fun r => rfl)
        · split
          · exact setAt_map _ _ _ _ (fun r => rfl)
          · rfl
      rw [← hN (r0 :: rest)]
      split at h
      · cases h; exact setAt_map _ _ _ _ (fun r => rfl)
      · split at h
        · cases h; exact setAt_map _ _ _ _ (fun r => rfl)
        · split at h
          · cases h; exact setAt_map _ _ _ _ (fun r => rfl)
          · cases h; exact setAt_map _ _ _ _ (fun r => rfl)
          · cases h; rfl


/-- the N-terminus update -/
def ntermF (nn : Bool) (r : TRes) : TRes :=
  patch { r with isN := true } (if nn || r.nHeavy2 then "NEUTRAL-NTERM" else "NTERM")
/-- the C-terminus update -/
def ctermF (nc : Bool) (r : TRes) : TRes :=
  patch { r with isC := true } (if nc then "NEUTRAL-CTERM" else "CTERM")

/-- `assignTermini` on a chain starting with an amino residue, cyclic test failed -/
theorem assign_amino_head (nn nc : Bool) (r0 : TRes) (rest : List TRes) (h0 : r0.kind = .amino) :
    assignTermini nn nc false (r0 :: rest) =
      if ((r0 :: rest).getLastD r0).kind = .amino then some (setAt (ntermF nn r0 :: rest) rest.length (ctermF nc))
      else if ((r0 :: rest).getLastD r0).kind = .nucleic then
        some (setAt (ntermF nn r0 :: rest) rest.length (fun r => patch { r with is3 := true } "3TERM"))
      else
        match lastScan (ntermF nn r0 :: rest) (rest.length + 1) with
        | some (i, true) => some (setAt (ntermF nn r0 :: rest) i (ctermF nc))
        | some (i, false) => some (setAt (ntermF nn r0 :: rest) i (fun r => patch { r with is3 := true } "3TERM"))
        | none => some (ntermF nn r0 :: rest) := by
  simp only [assignTermini, Bool.and_false, Bool.false_eq_true, if_false]
  rw [if_pos h0, setAt_zero]
  simp only [List.length_cons, Nat.add_sub_cancel]
  rfl

theorem peptide_chain_termini_core (nn nc : Bool) (r0 rl : TRes) (mid : List TRes)
    (ha : ∀ r ∈ r0 :: mid ++ [rl], r.kind = .amino) :
    assignTermini nn nc false (r0 :: mid ++ [rl]) = some (
      patch { r0 with isN := true } (if nn || r0.nHeavy2 then "NEUTRAL-NTERM" else "NTERM") :: mid ++
      [patch { rl with isC := true } (if nc then "NEUTRAL-CTERM" else "CTERM")]) := by
  have h0 : r0.kind = .amino := ha r0 (by simp)
  have hl : rl.kind = .amino := ha rl (by simp)
  have hlast : (r0 :: (mid ++ [rl])).getLastD r0 = rl := by
    rw [← List.cons_append, List.getLastD_concat]
  rw [List.cons_append, assign_amino_head nn nc r0 _ h0, hlast, if_pos hl]
  have : (mid ++ [rl]).length = (ntermF nn r0 :: mid).length := by simp
  rw [this, ← List.cons_append, setAt_last]
  rfl

theorem single_residue_termini_core (nn nc : Bool) (r : TRes) (ha : r.kind = .amino) :
    assignTermini nn nc false [r] = some [
      patch { (patch { r with isN := true } (if nn || r.nHeavy2 then "NEUTRAL-NTERM" else "NTERM")) with isC := true }
        (if nc then "NEUTRAL-CTERM" else "CTERM")] := by
  have hlast : [r].getLastD r = r := rfl
  rw [assign_amino_head nn nc r _ ha, hlast, if_pos ha, List.length_nil, setAt_zero]
  rfl

theorem lastScan_tail (pre tail : List TRes) (a : TRes) (ha : a.kind = .amino)
    (hk : ∀ r ∈ tail, (r.kind = .water ∨ r.kind = .other) ∧ r.name ≠ str "NH2" ∧ r.name ≠ str "NME")
    (k : Nat) (hle : k ≤ tail.length) :
    lastScan (pre ++ [a] ++ tail) (pre.length + 1 + k) = some (pre.length, true) := by
  induction k with
  | zero =>
    simp [lastScan, ha]
  | succ k ih =>
    have hk' : k < tail.length := by omega
    have e : pre.length + 1 + (k + 1) = (pre.length + 1 + k) + 1 := by omega
    have hget : (pre ++ [a] ++ tail)[pre.length + 1 + k]? = some tail[k] := by
      rw [List.getElem?_append_right (by simp)]
      simp [hk']
    rw [e, lastScan, hget]
    obtain ⟨h1, h2, h3⟩ := hk tail[k] (List.getElem_mem hk')
    have n1 : tail[k].kind ≠ .amino := by rcases h1 with h | h <;> simp [h]
    have n2 : tail[k].kind ≠ .nucleic := by rcases h1 with h | h <;> simp [h]
    simp only [n1, n2, h2, h3, if_false, decide_false, Bool.or_false, Bool.false_eq_true]
    exact ih (by omega)

/-- the ring end of a chain whose last amino residue is followed only by waters / hetero groups is that
amino residue (the empty tail included) -/
theorem ringEnd_through_trailing (pre tail : List TRes) (a d : TRes) (ha : a.kind = .amino)
    (hk : ∀ r ∈ tail, (r.kind = .water ∨ r.kind = .other) ∧ r.name ≠ str "NH2" ∧ r.name ≠ str "NME") :
    ringEnd (pre ++ [a] ++ tail) d = a := by
  have hscan := lastScan_tail pre tail a ha hk tail.length (Nat.le_refl _)
  have hlen : (pre ++ [a] ++ tail).length = pre.length + 1 + tail.length := by simp; omega
  unfold ringEnd
  rw [hlen, hscan]
  simp

theorem cyclic_through_trailing_core (nn nc : Bool) (pre tail : List TRes) (r0 a : TRes)
    (hc : ∃ rest, pre ++ [a] ++ tail = r0 :: rest) (ha : a.kind = .amino)
    (hk : ∀ r ∈ tail, (r.kind = .water ∨ r.kind = .other) ∧ r.name ≠ str "NH2" ∧ r.name ≠ str "NME")
    (hN : r0.atoms.contains (str "N") = true) (hC : a.atoms.contains (str "C") = true) :
    assignTermini nn nc true (pre ++ [a] ++ tail) = some (pre ++ [a] ++ tail) := by
  obtain ⟨rest, hrest⟩ := hc
  apply cyclic_none_core nn nc _ r0 rest hrest hN
  rw [ringEnd_through_trailing pre tail a r0 ha hk]
  exact hC

theorem cterm_through_trailing_core (nn nc : Bool) (r0 rl : TRes) (mid tail : List TRes)
    (ha : ∀ r ∈ r0 :: mid ++ [rl], r.kind = .amino) (ht : tail ≠ [])
    (hk : ∀ r ∈ tail, (r.kind = .water ∨ r.kind = .other) ∧ r.name ≠ str "NH2" ∧ r.name ≠ str "NME") :
    assignTermini nn nc false (r0 :: mid ++ [rl] ++ tail) = some (
      patch { r0 with isN := true } (if nn || r0.nHeavy2 then "NEUTRAL-NTERM" else "NTERM") :: mid ++
      [patch { rl with isC := true } (if nc then "NEUTRAL-CTERM" else "CTERM")] ++ tail) := by
  have h0 : r0.kind = .amino := ha r0 (by simp)
  have hl : rl.kind = .amino := ha rl (by simp)
  have hlast : (r0 :: (mid ++ [rl] ++ tail)).getLastD r0 = tail.getLast ht := by
    rw [List.getLastD_eq_getLast?, ← List.cons_append, ← List.cons_append, List.getLast?_append,
      List.getLast?_eq_some_getLast ht]
    rfl
  obtain ⟨h1, _, _⟩ := hk (tail.getLast ht) (List.getLast_mem ht)
  have n1 : (tail.getLast ht).kind ≠ .amino := by rcases h1 with h | h <;> simp [h]
  have n2 : (tail.getLast ht).kind ≠ .nucleic := by rcases h1 with h | h <;> simp [h]
  rw [List.cons_append, List.cons_append, assign_amino_head nn nc r0 _ h0, hlast, if_neg n1, if_neg n2]
  have hlen : (mid ++ [rl] ++ tail).length + 1 = (ntermF nn r0 :: mid).length + 1 + tail.length := by
    simp; omega
  have hscan := lastScan_tail (ntermF nn r0 :: mid) tail rl hl hk tail.length (Nat.le_refl _)
  simp only [List.cons_append] at hscan
  rw [hlen, hscan]
  simp only
  have := setAt_append_right (ntermF nn r0 :: mid) ([rl] ++ tail) 0 (ctermF nc)
  simp only [Nat.add_zero, List.cons_append, List.nil_append, setAt_zero, List.append_assoc] at this ⊢
  rw [this]
  rfl

/-! ### `setTermini` without hidden chain ends -/

theorem splitChain_nocut (nn nc : Bool) (rest : List TRes) (hfix : ∀ r ∈ rest, fixflag r = false) :
    ∀ (fuel : Nat) (scan pending : List TRes) (done : List (List TRes)) (bits : List Bool),
      splitChain nn nc fuel scan rest pending done bits = some (done ++ [rest], bits) := by
  intro fuel
  induction fuel with
  | zero => intro scan pending done bits; simp [splitChain]
  | succ fuel ih =>
    intro scan pending done bits
    cases scan with
    | nil => simp [splitChain]
    | cons r0 scan =>
      rw [splitChain]
      split
      · exact ih _ _ _ _
      · rename_i r hr
        have hm : r ∈ rest := List.mem_of_find?_eq_some hr
        simp only [hfix r hm, Bool.false_eq_true, if_false]
        exact ih _ _ _ _

theorem firstPass (nn nc : Bool) :
    ∀ (chains : List (List TRes)) (bits : List Bool) (out acc : List (List TRes)),
      bits.length ≥ chains.length →
      (chains.zip bits).mapM (fun (c, b) => assignTermini nn nc b c) = some out →
      chains.foldlM (fun (acc, bits) ch => do
        let ch' ← assignTermini nn nc (bits.headD false) ch
        pure (acc ++ [ch'], bits.drop 1)) (acc, bits) = some (acc ++ out, bits.drop chains.length) := by
  intro chains
  induction chains with
  | nil =>
    intro bits out acc _ h
    simp at h
    subst h
    simp
  | cons c chains ih =>
    intro bits out acc hlen h
    cases bits with
    | nil => simp at hlen
    | cons b bits =>
      simp only [List.zip_cons_cons, List.mapM_cons] at h
      cases hc : assignTermini nn nc b c with
      | none => simp [hc] at h
      | some c' =>
        cases hr : (chains.zip bits).mapM (fun (c, b) => assignTermini nn nc b c) with
        | none => simp [hc, hr] at h
        | some out' =>
          simp [hc, hr] at h
          subst h
          simp only [List.foldlM_cons, List.headD_cons, hc, List.drop_succ_cons, List.drop_zero]
          have := ih bits out' (acc ++ [c']) (by simpa using hlen) hr
          simpa using this

theorem secondPass (nn nc : Bool) :
    ∀ (cs : List (List TRes)) (acc : List (List TRes)) (bits : List Bool),
      (∀ c ∈ cs, ∀ r ∈ c, fixflag r = false) →
      cs.foldlM (fun (acc, bits) ch => do
        let (parts, bits) ← splitChain nn nc (ch.length + 1) ch ch [] [] bits
        pure (acc ++ parts, bits)) (acc, bits) = some (acc ++ cs, bits) := by
  intro cs
  induction cs with
  | nil => intro acc bits _; simp
  | cons c cs ih =>
    intro acc bits hfix
    simp only [List.foldlM_cons]
    rw [splitChain_nocut nn nc c (hfix c (by simp))]
    have := ih (acc ++ [c]) bits (fun c' hc' => hfix c' (by simp [hc']))
    simpa using this

theorem set_termini_chainwise_core (nn nc : Bool) (chains out : List (List TRes)) (bits : List Bool)
    (hlen : bits.length ≥ chains.length)
    (h1 : (chains.zip bits).mapM (fun (c, b) => assignTermini nn nc b c) = some out)
    (hfix : ∀ c ∈ out, ∀ r ∈ c, fixflag r = false) :
    setTermini nn nc chains bits = some out := by
  unfold setTermini
  have h := firstPass nn nc chains bits out [] hlen h1
  simp only [List.nil_append] at h
  rw [h]
  have h2 := secondPass nn nc out [] (bits.drop chains.length) hfix
  simp only [List.nil_append] at h2
  simp only [Option.pure_def, Option.bind_eq_bind, Option.bind_some] at h2 ⊢
  simp only [h2, Option.bind_some]

/-! ### formal charge -/

theorem patched_append (r : RInfo) (q p : String) (hne : str p ≠ str q) :
    patched { r with patches := r.patches ++ [str q] } p = patched r p := by
  simp only [patched, List.contains_eq_mem, List.mem_append, List.mem_singleton, hne, or_false]

theorem sideState_append (r : RInfo) :
    sideState { r with patches := r.patches ++ [str "NEUTRAL-NTERM"] } = sideState r := by
  unfold sideState
  simp only [patched_append r "NEUTRAL-NTERM" "AR0" (by decide), patched_append r "NEUTRAL-NTERM" "ASH" (by decide),
    patched_append r "NEUTRAL-NTERM" "CYX" (by decide), patched_append r "NEUTRAL-NTERM" "CYM" (by decide),
    patched_append r "NEUTRAL-NTERM" "GLH" (by decide), patched_append r "NEUTRAL-NTERM" "LYN" (by decide),
    patched_append r "NEUTRAL-NTERM" "TYM" (by decide)]
  rfl

theorem neutral_nterm_shift_core (r : RInfo) (ha : isAmino r = true) (hp : r.cls ≠ str "PRO") (hn : r.isNterm = true)
    (hnot : patched r "NEUTRAL-NTERM" = false) (c : Int) (hc : formalCharge r = some c) :
    formalCharge { r with patches := r.patches ++ [str "NEUTRAL-NTERM"] } = some (c - 1) ∨
    sideState { r with patches := r.patches ++ [str "NEUTRAL-NTERM"] } ≠ sideState r := by
  left
  generalize hr' : ({ r with patches := r.patches ++ [str "NEUTRAL-NTERM"] } : RInfo) = r'
  have hpat : patched r' "NEUTRAL-NTERM" = true := by subst hr'; simp [patched]
  have ha' : isAmino r' = true := by subst hr'; exact ha
  have hn' : r'.isNterm = true := by subst hr'; exact hn
  have hcls : r'.cls = r.cls := by subst hr'; rfl
  have hside : sideState r' = sideState r := by subst hr'; exact sideState_append r
  unfold formalCharge at hc ⊢
  rw [hside, if_pos ha', hcls]
  rw [if_pos ha] at hc
  cases hs : sideState r with
  | none => rw [hs] at hc; cases hc
  | some s =>
    rw [hs] at hc
    simp only [Option.some.injEq] at hc ⊢
    subst hc
    simp only [hn, hn', hnot, hpat, if_true, hp, ne_eq, not_false_eq_true, decide_true, Bool.and_true,
      Bool.false_eq_true, if_false]
    omega

theorem formal_range_core (r : RInfo) (c : Int) (h : formalCharge r = some c) : -2 ≤ c ∧ c ≤ 2 := by
  unfold formalCharge at h
  split at h
  · split at h
    · cases h
    · simp only [Option.some.injEq] at h
      subst h
      constructor <;> (repeat' split) <;> omega
  · split at h
    · cases h; split <;> omega
    · split at h
      · cases h; omega
      · cases h

end P2P.Proofs.Termini
