import P2P.Model.Termini

namespace P2P.Proofs.Termini
open P2P P2P.Termini P2P.State

theorem cyclic_none_core (nn nc : Bool) (chain : List TRes) (r0 : TRes) (rest : List TRes) (hc : chain = r0 :: rest)
    (hN : r0.atoms.contains (str "N") = true) (hC : (chain.getLastD r0).atoms.contains (str "C") = true) :
    assignTermini nn nc true chain = some chain := by
  sorry

theorem assign_preserves_core (nn nc cyc : Bool) (chain out : List TRes) (h : assignTermini nn nc cyc chain = some out) :
    out.map (fun r => (r.id, r.kind, r.name, r.atoms)) = chain.map (fun r => (r.id, r.kind, r.name, r.atoms)) := by
  sorry

theorem peptide_chain_termini_core (nn nc : Bool) (r0 rl : TRes) (mid : List TRes)
    (ha : ∀ r ∈ r0 :: mid ++ [rl], r.kind = .amino) :
    assignTermini nn nc false (r0 :: mid ++ [rl]) = some (
      patch { r0 with isN := true } (if nn || r0.nHeavy2 then "NEUTRAL-NTERM" else "NTERM") :: mid ++
      [patch { rl with isC := true } (if nc then "NEUTRAL-CTERM" else "CTERM")]) := by
  sorry

theorem single_residue_termini_core (nn nc : Bool) (r : TRes) (ha : r.kind = .amino) :
    assignTermini nn nc false [r] = some [
      patch { (patch { r with isN := true } (if nn || r.nHeavy2 then "NEUTRAL-NTERM" else "NTERM")) with isC := true }
        (if nc then "NEUTRAL-CTERM" else "CTERM")] := by
  sorry

theorem cterm_through_trailing_core (nn nc : Bool) (r0 rl : TRes) (mid tail : List TRes)
    (ha : ∀ r ∈ r0 :: mid ++ [rl], r.kind = .amino) (ht : tail ≠ [])
    (hk : ∀ r ∈ tail, (r.kind = .water ∨ r.kind = .other) ∧ r.name ≠ str "NH2" ∧ r.name ≠ str "NME") :
    assignTermini nn nc false (r0 :: mid ++ [rl] ++ tail) = some (
      patch { r0 with isN := true } (if nn || r0.nHeavy2 then "NEUTRAL-NTERM" else "NTERM") :: mid ++
      [patch { rl with isC := true } (if nc then "NEUTRAL-CTERM" else "CTERM")] ++ tail) := by
  sorry

theorem set_termini_chainwise_core (nn nc : Bool) (chains out : List (List TRes)) (bits : List Bool)
    (hlen : bits.length ≥ chains.length)
    (h1 : (chains.zip bits).mapM (fun (c, b) => assignTermini nn nc b c) = some out)
    (hfix : ∀ c ∈ out, ∀ r ∈ c, fixflag r = false) :
    setTermini nn nc chains bits = some out := by
  sorry

theorem neutral_nterm_shift_core (r : RInfo) (ha : isAmino r = true) (hp : r.cls ≠ str "PRO") (hn : r.isNterm = true)
    (hnot : patched r "NEUTRAL-NTERM" = false) (c : Int) (hc : formalCharge r = some c) :
    formalCharge { r with patches := r.patches ++ [str "NEUTRAL-NTERM"] } = some (c - 1) ∨
    sideState { r with patches := r.patches ++ [str "NEUTRAL-NTERM"] } ≠ sideState r := by
  sorry

theorem formal_range_core (r : RInfo) (c : Int) (h : formalCharge r = some c) : -2 ≤ c ∧ c ≤ 2 := by
  sorry

end P2P.Proofs.Termini
