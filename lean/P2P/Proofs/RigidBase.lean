import P2P.Model.Rigid
import P2P.Gen.Topology

/-! The base amino-acid definitions of the regenerated topology, shared by the kernel-checked
chunks `P2P/Proofs/RigidTable*.lean` (split so that the chunks are checked in parallel). -/
namespace P2P.Proofs.RigidTable
open P2P P2P.Rigid P2P.Topology

/-- base definitions: amino acids under a three-letter name (the 20 standard residues and the
titration states); their terminus variants are built by `runtimeVariants` the way the pipeline
builds them -/
def bases : List ResDef :=
  P2P.Gen.Topology.residues.filter (fun r => isAmino r && decide (r.name.length ≤ 3))

/-- chunk `i` of width 3 passes `baseOK` -/
def chunkOK (i : Nat) : Bool := ((bases.drop (3 * i)).take 3).all (baseOK P2P.Gen.Topology.patches)

theorem split_all {α : Type} (p : α → Bool) (l : List α) (n : Nat) :
    l.all p = ((l.take n).all p && (l.drop n).all p) := by
  rw [← List.all_append, List.take_append_drop]

end P2P.Proofs.RigidTable
