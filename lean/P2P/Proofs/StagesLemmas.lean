import P2P.Model.Stages
import P2P.Proofs.AtomsLemmas

/-!
  Composition of the atom-set stages of one residue: whatever the input held — any subset of
  the residue's atoms, any extra atoms, in any order — after the terminus patches, heavy-atom
  repair, the state patches and hydrogen addition the residue holds exactly the atoms of its
  final run-time reference, each once; and no heavy atom disappears without a report.
-/
namespace P2P.Proofs.Stages
open P2P P2P.Topology P2P.Atoms P2P.Stages

set_option linter.unusedVariables false

/-! ### names of the reference under `applyPatch` -/

/-- names of an atom list -/
abbrev nm (as : List AtomDef) : List Str := as.map (·.name)

theorem setAtom_names (as : List AtomDef) (a : AtomDef) :
    (nm (setAtom as a) = nm as ∧ a.name ∈ nm as) ∨
      (nm (setAtom as a) = nm as ++ [a.name] ∧ a.name ∉ nm as) := by
  unfold setAtom
  by_cases h : as.any (·.name = a.name) = true
  · left
    rw [if_pos h]
    constructor
    · simp only [nm, List.map_map]
      apply List.map_congr_left
      intro b _
      simp only [Function.comp]
      split
      · rename_i e; exact e.symm
      · rfl
    · simp only [List.any_eq_true, decide_eq_true_eq] at h
      obtain ⟨b, hb, e⟩ := h
      exact List.mem_map.2 ⟨b, hb, e⟩
  · right
    rw [if_neg h]
    constructor
    · simp [nm]
    · intro hm
      apply h
      obtain ⟨b, hb, e⟩ := List.mem_map.1 hm
      simp only [List.any_eq_true, decide_eq_true_eq]
      exact ⟨b, hb, e⟩

theorem setAtom_mem (as : List AtomDef) (a : AtomDef) (n : Str) :
    n ∈ nm (setAtom as a) ↔ n ∈ nm as ∨ n = a.name := by
  rcases setAtom_names as a with ⟨e, h⟩ | ⟨e, h⟩
  · rw [e]
    constructor
    · exact Or.inl
    · rintro (h' | rfl)
      · exact h'
      · exact h
  · rw [e, List.mem_append, List.mem_singleton]

theorem setAtom_nodup (as : List AtomDef) (a : AtomDef) (hnd : (nm as).Nodup) :
    (nm (setAtom as a)).Nodup := by
  rcases setAtom_names as a with ⟨e, h⟩ | ⟨e, h⟩
  · rw [e]; exact hnd
  · rw [e]
    refine List.nodup_append.2 ⟨hnd, List.nodup_singleton _, ?_⟩
    intro x hx y hy e'
    rw [List.mem_singleton] at hy
    subst hy; subst e'
    exact h hx

theorem addBond_names (as : List AtomDef) (x y : Str) : nm (addBond as x y) = nm as := by
  unfold addBond
  simp only [nm, List.map_map]
  apply List.map_congr_left
  intro b _
  simp only [Function.comp]
  split <;> rfl

theorem delBond_names (as : List AtomDef) (x y : Str) : nm (delBond as x y) = nm as := by
  unfold delBond
  simp only [nm, List.map_map]
  apply List.map_congr_left
  intro b _
  simp only [Function.comp]
  split <;> rfl

theorem addBondFold_names (bs : List Str) (x : Str) : ∀ as : List AtomDef,
    nm (bs.foldl (fun as b => if as.any (·.name = b) then addBond as b x else as) as) = nm as := by
  induction bs with
  | nil => intro as; rfl
  | cons b bs ih =>
    intro as
    rw [List.foldl_cons, ih]
    split
    · exact addBond_names ..
    · rfl

theorem delBondFold_names (bs : List Str) (r : Str) : ∀ as : List AtomDef,
    nm (bs.foldl (fun as b => delBond as b r) as) = nm as := by
  induction bs with
  | nil => intro as; rfl
  | cons b bs ih =>
    intro as
    rw [List.foldl_cons, ih]
    exact delBond_names ..

/-- one step of the add phase -/
abbrev addStep (as : List AtomDef) (pa : AtomDef) : List AtomDef :=
  pa.bonds.foldl (fun as b => if as.any (·.name = b) then addBond as b pa.name else as) (setAtom as pa)

theorem addAtoms_eq (ref padd : List AtomDef) : addAtoms ref padd = padd.foldl addStep ref := rfl

theorem addStep_names (as : List AtomDef) (pa : AtomDef) : nm (addStep as pa) = nm (setAtom as pa) :=
  addBondFold_names ..

theorem addAtoms_mem (padd : List AtomDef) : ∀ (ref : List AtomDef) (n : Str),
    n ∈ nm (addAtoms ref padd) ↔ n ∈ nm ref ∨ n ∈ nm padd := by
  induction padd with
  | nil => intro ref n; simp [addAtoms_eq]
  | cons pa padd ih =>
    intro ref n
    rw [addAtoms_eq, List.foldl_cons, ← addAtoms_eq, ih, addStep_names, setAtom_mem]
    simp only [nm, List.map_cons, List.mem_cons]
    tauto

theorem addAtoms_nodup (padd : List AtomDef) : ∀ (ref : List AtomDef),
    (nm ref).Nodup → (nm (addAtoms ref padd)).Nodup := by
  induction padd with
  | nil => intro ref h; exact h
  | cons pa padd ih =>
    intro ref h
    rw [addAtoms_eq, List.foldl_cons, ← addAtoms_eq]
    apply ih
    rw [addStep_names]
    exact setAtom_nodup _ _ h

/-- one step of the remove phase -/
abbrev rmStep (as : List AtomDef) (r : Str) : List AtomDef :=
  match as.find? (·.name = r) with
  | none => as
  | some a => a.bonds.foldl (fun as b => delBond as b r) (as.filter (·.name ≠ r))

theorem removeAtoms_eq (ref : List AtomDef) (rm : List Str) :
    removeAtoms ref rm = rm.foldl rmStep ref := rfl

theorem rmStep_names (as : List AtomDef) (r : Str) :
    nm (rmStep as r) = (nm as).filter (fun n => decide (n ≠ r)) := by
  unfold rmStep
  split
  · rename_i heq
    rw [List.find?_eq_none] at heq
    symm
    rw [List.filter_eq_self]
    intro n hn
    obtain ⟨b, hb, rfl⟩ := List.mem_map.1 hn
    simpa using heq b hb
  · rw [delBondFold_names]
    simp only [nm, List.filter_map]
    rfl

theorem removeAtoms_mem (rm : List Str) : ∀ (ref : List AtomDef) (n : Str),
    n ∈ nm (removeAtoms ref rm) ↔ n ∈ nm ref ∧ n ∉ rm := by
  induction rm with
  | nil => intro ref n; simp [removeAtoms_eq]
  | cons r rm ih =>
    intro ref n
    rw [removeAtoms_eq, List.foldl_cons, ← removeAtoms_eq, ih, rmStep_names, List.mem_filter]
    simp only [decide_eq_true_eq, List.mem_cons, not_or]
    tauto

theorem removeAtoms_nodup (rm : List Str) : ∀ (ref : List AtomDef),
    (nm ref).Nodup → (nm (removeAtoms ref rm)).Nodup := by
  induction rm with
  | nil => intro ref h; exact h
  | cons r rm ih =>
    intro ref h
    rw [removeAtoms_eq, List.foldl_cons, ← removeAtoms_eq]
    apply ih
    rw [rmStep_names]
    exact h.filter _

theorem patch_ref_mem (p : PatchDef) (ref : ResDef) (present : List Str) (n : Str) :
    n ∈ (applyPatch p ref present).1.names ↔ (n ∈ ref.names ∨ n ∈ nm p.atoms) ∧ n ∉ p.remove := by
  show n ∈ nm (removeAtoms (addAtoms ref.atoms p.atoms) p.remove) ↔ _
  rw [removeAtoms_mem, addAtoms_mem]
  rfl

theorem patch_ref_nodup (p : PatchDef) (ref : ResDef) (present : List Str) (h : ref.names.Nodup) :
    (applyPatch p ref present).1.names.Nodup := by
  show (nm (removeAtoms (addAtoms ref.atoms p.atoms) p.remove)).Nodup
  exact removeAtoms_nodup _ _ (addAtoms_nodup _ _ h)

theorem patch_names_eq (p : PatchDef) (ref : ResDef) (present : List Str) :
    (applyPatch p ref present).2 =
      renamePresent (present.filter (fun n => !p.remove.contains n)) p.altnames := rfl

/-! ### the rename phase -/

theorem rename_find_none (alt : List (Str × Str)) (n : Str) (h : ∀ kv ∈ alt, kv.1 ≠ n) :
    alt.find? (·.1 = n) = none := by
  rw [List.find?_eq_none]
  intro kv hkv
  simpa using h kv hkv

theorem rename_id (present : List Str) (alt : List (Str × Str))
    (h : ∀ n ∈ present, ∀ kv ∈ alt, kv.1 ≠ n) : renamePresent present alt = present := by
  unfold renamePresent
  conv_rhs => rw [← List.map_id present]
  apply List.map_congr_left
  intro n hn
  simp only [rename_find_none alt n (h n hn), id]

theorem rename_mem_of (present : List Str) (alt : List (Str × Str)) (n : Str) (hn : n ∈ present)
    (h : ∀ kv ∈ alt, kv.1 ≠ n) : n ∈ renamePresent present alt := by
  unfold renamePresent
  refine List.mem_map.2 ⟨n, hn, ?_⟩
  simp only [rename_find_none alt n h]

/-! ### the reference along a run -/

/-- the reference has distinct names, all from the universe `U` -/
structure RInv (U : List Str) (st : St) : Prop where
  rnd : st.ref.names.Nodup
  rU : ∀ n ∈ st.ref.names, n ∈ U

theorem RInv.patch {U : List Str} {skip ok : Str → Bool} {st : St} (hi : RInv U st) (p : PatchDef)
    (hp : ∀ a ∈ p.atoms, a.name ∈ U) : RInv U (step skip ok st (.patch p)) := by
  refine ⟨patch_ref_nodup p st.ref st.names hi.rnd, ?_⟩
  intro n hn
  rcases ((patch_ref_mem p st.ref st.names n).1 hn).1 with h | h
  · exact hi.rU n h
  · obtain ⟨a, ha, rfl⟩ := List.mem_map.1 h
    exact hp a ha

theorem RInv.foldPatches {U : List Str} {skip ok : Str → Bool} (l : List Stage) :
    ∀ st : St, RInv U st → (∀ x ∈ l, isPatch x = true) →
      (∀ x ∈ l, ∀ p, x = Stage.patch p → ∀ a ∈ p.atoms, a.name ∈ U) →
      RInv U (l.foldl (step skip ok) st) := by
  induction l with
  | nil => intro st hi _ _; exact hi
  | cons x l ih =>
    intro st hi h1 h2
    rw [List.foldl_cons]
    apply ih
    · cases x with
      | patch p => exact hi.patch p (h2 _ (List.mem_cons_self ..) p rfl)
      | repair => exact absurd (h1 _ (List.mem_cons_self ..)) (by simp [isPatch])
      | stripH => exact absurd (h1 _ (List.mem_cons_self ..)) (by simp [isPatch])
      | addH => exact absurd (h1 _ (List.mem_cons_self ..)) (by simp [isPatch])
    · exact fun y hy => h1 y (List.mem_cons_of_mem _ hy)
    · exact fun y hy => h2 y (List.mem_cons_of_mem _ hy)

/-! ### repair without OP1 / OP2 -/

theorem isExtra_noOP (refNames : List Str) (s : Names) (n : Str) (h1 : OP1 ∉ s) (h2 : OP2 ∉ s) :
    isExtra refNames s n = !refNames.contains n := by
  have c1 : s.contains OP1 = false := by
    rw [← Bool.not_eq_true, List.contains_iff_mem]; exact h1
  have c2 : s.contains OP2 = false := by
    rw [← Bool.not_eq_true, List.contains_iff_mem]; exact h2
  unfold isExtra
  rw [c1, c2]
  simp

theorem repair_sub (refNames : List Str) (s : Names) (h1 : OP1 ∉ s) (h2 : OP2 ∉ s) (n : Str)
    (hn : n ∈ (repairHeavy refNames s).1) : n ∈ refNames := by
  unfold repairHeavy at hn
  simp only at hn
  rcases List.mem_append.1 hn with h | h
  · have := (List.mem_filter.1 h).2
    rw [isExtra_noOP refNames s n h1 h2] at this
    simpa using this
  · unfold missingHeavy at h
    exact (List.mem_filter.1 h).1

theorem repair_nonpseudo (refNames : List Str) (s : Names) (hs : ∀ n ∈ s, isPseudo n = false)
    (n : Str) (hn : n ∈ (repairHeavy refNames s).1) : isPseudo n = false := by
  unfold repairHeavy at hn
  simp only at hn
  rcases List.mem_append.1 hn with h | h
  · exact hs n (List.mem_filter.1 h).1
  · unfold missingHeavy at h
    have := (List.mem_filter.1 h).2
    simp only [Bool.and_eq_true, Bool.not_eq_true'] at this
    exact this.1.1.1.2

/-! ### the invariant between repair and hydrogen addition -/

structure LInv (U : List Str) (st : St) : Prop extends RInv U st where
  snd : st.names.Nodup
  sub : ∀ n ∈ st.names, n ∈ st.ref.names ∧ isPseudo n = false
  heavy : ∀ n ∈ st.ref.names, isH n = false → isPseudo n = false → n ∈ st.names

theorem LInv.ofRepair {U : List Str} {skip ok : Str → Bool} {st : St} (hi : RInv U st)
    (hs : st.names.Nodup) (hsp : ∀ n ∈ st.names, isPseudo n = false)
    (h1 : OP1 ∉ st.names) (h2 : OP2 ∉ st.names) : LInv U (step skip ok st .repair) := by
  refine ⟨⟨hi.rnd, hi.rU⟩, ?_, ?_, ?_⟩
  · exact P2P.Proofs.Atoms.repair_nodup_core _ _ hs hi.rnd
  · intro n hn
    exact ⟨repair_sub _ _ h1 h2 n hn, repair_nonpseudo _ _ hsp n hn⟩
  · intro n hn hh hp
    exact P2P.Proofs.Atoms.repair_complete_core _ _ n hn hh hp (fun h => h1 h.2) (fun h => h2 h.2)

theorem LInv.stripH {U : List Str} {skip ok : Str → Bool} {st : St} (hi : LInv U st) :
    LInv U (step skip ok st .stripH) := by
  refine ⟨⟨hi.rnd, hi.rU⟩, ?_, ?_, ?_⟩
  · exact hi.snd.filter _
  · intro n hn
    exact hi.sub n (List.mem_filter.1 hn).1
  · intro n hn hh hp
    exact List.mem_filter.2 ⟨hi.heavy n hn hh hp, by rw [hh]; rfl⟩

theorem LInv.patch_names {U : List Str} {st : St} (hi : LInv U st) (p : PatchDef)
    (halt : ∀ kv ∈ p.altnames, kv.1 ∉ U) :
    (applyPatch p st.ref st.names).2 = st.names.filter (fun n => !p.remove.contains n) := by
  rw [patch_names_eq]
  apply rename_id
  intro n hn kv hkv e
  apply halt kv hkv
  rw [e]
  exact hi.rU n (hi.sub n (List.mem_filter.1 hn).1).1

theorem LInv.patch {U : List Str} {skip ok : Str → Bool} {st : St} (hi : LInv U st) (p : PatchDef)
    (hl : lateOK (.patch p) = true) (hp : ∀ a ∈ p.atoms, a.name ∈ U)
    (halt : ∀ kv ∈ p.altnames, kv.1 ∉ U) : LInv U (step skip ok st (.patch p)) := by
  have hR : RInv U (step skip ok st (.patch p)) := hi.toRInv.patch p hp
  have hnames : (step skip ok st (.patch p)).names =
      st.names.filter (fun n => !p.remove.contains n) := hi.patch_names p halt
  have href : ∀ n, n ∈ (step skip ok st (.patch p)).ref.names ↔
      (n ∈ st.ref.names ∨ n ∈ nm p.atoms) ∧ n ∉ p.remove := patch_ref_mem p st.ref st.names
  simp only [lateOK, Bool.and_eq_true, List.all_eq_true] at hl
  refine ⟨hR, ?_, ?_, ?_⟩
  · rw [hnames]; exact hi.snd.filter _
  · intro n hn
    rw [hnames, List.mem_filter] at hn
    refine ⟨(href n).2 ⟨Or.inl (hi.sub n hn.1).1, ?_⟩, (hi.sub n hn.1).2⟩
    simpa using hn.2
  · intro n hn hh hps
    obtain ⟨h1, h2⟩ := (href n).1 hn
    rw [hnames, List.mem_filter]
    refine ⟨?_, by simpa using h2⟩
    rcases h1 with h1 | h1
    · exact hi.heavy n h1 hh hps
    · obtain ⟨a, ha, rfl⟩ := List.mem_map.1 h1
      have := hl.1 a ha
      rw [hh] at this; cases this

theorem LInv.fold {U : List Str} {skip ok : Str → Bool} (l : List Stage) :
    ∀ st : St, LInv U st → (∀ x ∈ l, lateOK x = true) →
      (∀ x ∈ l, ∀ p, x = Stage.patch p → ∀ a ∈ p.atoms, a.name ∈ U) →
      (∀ x ∈ l, ∀ p, x = Stage.patch p → ∀ kv ∈ p.altnames, kv.1 ∉ U) →
      LInv U (l.foldl (step skip ok) st) := by
  induction l with
  | nil => intro st hi _ _ _; exact hi
  | cons x l ih =>
    intro st hi h1 h2 h3
    rw [List.foldl_cons]
    apply ih
    · have hx := h1 x (List.mem_cons_self ..)
      cases x with
      | patch p =>
        exact hi.patch p hx (h2 _ (List.mem_cons_self ..) p rfl) (h3 _ (List.mem_cons_self ..) p rfl)
      | repair => exact absurd hx (by simp [lateOK])
      | stripH => exact hi.stripH
      | addH => exact absurd hx (by simp [lateOK])
    · exact fun y hy => h1 y (List.mem_cons_of_mem _ hy)
    · exact fun y hy => h2 y (List.mem_cons_of_mem _ hy)
    · exact fun y hy => h3 y (List.mem_cons_of_mem _ hy)

theorem isPseudo_of_isH {n : Str} (h : isH n = true) : isPseudo n = false := by
  unfold isPseudo
  rw [Bool.or_eq_false_iff]
  constructor
  · rw [decide_eq_false_iff_not]; rintro rfl; revert h; decide
  · rw [decide_eq_false_iff_not]; rintro rfl; revert h; decide

theorem LInv.addH {U : List Str} {skip ok : Str → Bool} {st : St} (hi : LInv U st)
    (hok : ∀ n, ok n = true) (hskip : ∀ n, skip n = false) :
    (step skip ok st .addH).names.Perm
      ((step skip ok st .addH).ref.names.filter (fun n => !isPseudo n)) := by
  show (addHydrogens st.ref.names skip ok st.names).Perm (st.ref.names.filter (fun n => !isPseudo n))
  rw [List.perm_ext_iff_of_nodup (P2P.Proofs.Atoms.hydrogens_nodup_core _ _ _ _ hi.snd)
    (hi.rnd.filter _)]
  intro n
  obtain ⟨hmono, horig⟩ := P2P.Proofs.Atoms.hydrogens_only_adds_core st.ref.names skip ok st.names
  rw [List.mem_filter]
  constructor
  · intro hn
    rcases horig n hn with h | ⟨h1, h2, _⟩
    · exact ⟨(hi.sub n h).1, by rw [(hi.sub n h).2]; rfl⟩
    · exact ⟨h1, by rw [isPseudo_of_isH h2]; rfl⟩
  · rintro ⟨h1, h2⟩
    have hps : isPseudo n = false := by simpa using h2
    cases hh : isH n
    · exact hmono n (hi.heavy n h1 hh hps)
    · exact P2P.Proofs.Atoms.hydrogens_complete_core _ _ _ _ hok n h1 hh (hskip n)

theorem run_split (skip ok : Str → Bool) (ref0 : ResDef) (s : Names) (early late : List Stage) :
    run skip ok ref0 s (early ++ [Stage.repair] ++ late ++ [Stage.addH]) =
      step skip ok (late.foldl (step skip ok) (step skip ok (run skip ok ref0 s early) .repair)) .addH := by
  simp only [run, List.foldl_append, List.foldl_cons, List.foldl_nil]

theorem RInv.early {U : List Str} (skip ok : Str → Bool) (ref0 : ResDef) (s : Names)
    (early : List Stage) (hearly : ∀ x ∈ early, isPatch x = true)
    (hU0 : ∀ n ∈ ref0.names, n ∈ U) (hnd0 : ref0.names.Nodup)
    (hUp : ∀ x ∈ early, ∀ p, x = Stage.patch p → ∀ a ∈ p.atoms, a.name ∈ U) :
    RInv U (run skip ok ref0 s early) :=
  RInv.foldPatches early _ ⟨hnd0, hU0⟩ hearly hUp

/-! ### accounting of heavy atoms -/

theorem refU_foldPatches {U : List Str} {skip ok : Str → Bool} (l : List Stage) :
    ∀ st : St, (∀ n ∈ st.ref.names, n ∈ U) → (∀ x ∈ l, isPatch x = true) →
      (∀ x ∈ l, ∀ p, x = Stage.patch p → ∀ a ∈ p.atoms, a.name ∈ U) →
      ∀ n ∈ (l.foldl (step skip ok) st).ref.names, n ∈ U := by
  induction l with
  | nil => intro st hi _ _; exact hi
  | cons x l ih =>
    intro st hi h1 h2
    rw [List.foldl_cons]
    apply ih
    · cases x with
      | patch p =>
        intro n hn
        rcases ((patch_ref_mem p st.ref st.names n).1 hn).1 with h | h
        · exact hi n h
        · obtain ⟨a, ha, rfl⟩ := List.mem_map.1 h
          exact h2 _ (List.mem_cons_self ..) p rfl a ha
      | repair => exact absurd (h1 _ (List.mem_cons_self ..)) (by simp [isPatch])
      | stripH => exact absurd (h1 _ (List.mem_cons_self ..)) (by simp [isPatch])
      | addH => exact absurd (h1 _ (List.mem_cons_self ..)) (by simp [isPatch])
    · exact fun y hy => h1 y (List.mem_cons_of_mem _ hy)
    · exact fun y hy => h2 y (List.mem_cons_of_mem _ hy)

/-- a heavy name of the universe survives every late stage -/
theorem late_keeps {U : List Str} {skip ok : Str → Bool} (n : Str) (hU : n ∈ U)
    (hheavy : isH n = false) (l : List Stage) :
    ∀ st : St, n ∈ st.names → (∀ x ∈ l, lateOK x = true) →
      (∀ x ∈ l, ∀ p, x = Stage.patch p → ∀ kv ∈ p.altnames, kv.1 ∉ U) →
      n ∈ (l.foldl (step skip ok) st).names := by
  induction l with
  | nil => intro st hn _ _; exact hn
  | cons x l ih =>
    intro st hn h1 h3
    rw [List.foldl_cons]
    apply ih
    · have hx := h1 x (List.mem_cons_self ..)
      cases x with
      | patch p =>
        simp only [lateOK, Bool.and_eq_true, List.all_eq_true] at hx
        show n ∈ (applyPatch p st.ref st.names).2
        rw [patch_names_eq]
        apply rename_mem_of
        · refine List.mem_filter.2 ⟨hn, ?_⟩
          have : n ∉ p.remove := by
            intro hm
            have := hx.2 n hm
            rw [hheavy] at this; cases this
          simpa using this
        · intro kv hkv e
          exact h3 _ (List.mem_cons_self ..) p rfl kv hkv (e ▸ hU)
      | repair => exact absurd hx (by simp [lateOK])
      | stripH => exact List.mem_filter.2 ⟨hn, by rw [hheavy]; rfl⟩
      | addH => exact absurd hx (by simp [lateOK])
    · exact fun y hy => h1 y (List.mem_cons_of_mem _ hy)
    · exact fun y hy => h3 y (List.mem_cons_of_mem _ hy)

/-- no stage takes a report back -/
theorem reported_mono {skip ok : Str → Bool} (n : Str) (l : List Stage) :
    ∀ st : St, n ∈ st.reported → n ∈ (l.foldl (step skip ok) st).reported := by
  induction l with
  | nil => intro st hn; exact hn
  | cons x l ih =>
    intro st hn
    rw [List.foldl_cons]
    apply ih
    cases x with
    | patch p => exact hn
    | repair => exact List.mem_append_left _ hn
    | stripH => exact hn
    | addH => exact hn

/-! ### the early patches -/

theorem early_keeps_fold {skip ok : Str → Bool} (l : List Stage) :
    ∀ st : St, (∀ x ∈ l, isPatch x = true) →
      (l.foldl (step skip ok) st).names.length ≤ st.names.length ∧
      ∀ n ∈ st.names, (∀ p, Stage.patch p ∈ l → n ∉ p.remove ∧ ∀ kv ∈ p.altnames, kv.1 ≠ n) →
        n ∈ (l.foldl (step skip ok) st).names := by
  induction l with
  | nil => intro st _; exact ⟨Nat.le_refl _, fun n hn _ => hn⟩
  | cons x l ih =>
    intro st h1
    rw [List.foldl_cons]
    have hx := h1 x (List.mem_cons_self ..)
    obtain ⟨i1, i2⟩ := ih (step skip ok st x) (fun y hy => h1 y (List.mem_cons_of_mem _ hy))
    cases x with
    | patch p =>
      have hnames : (step skip ok st (.patch p)).names =
          renamePresent (st.names.filter (fun n => !p.remove.contains n)) p.altnames := rfl
      constructor
      · refine Nat.le_trans i1 ?_
        rw [hnames]
        unfold renamePresent
        rw [List.length_map]
        exact List.length_filter_le _ _
      · intro n hn hall
        apply i2
        · rw [hnames]
          obtain ⟨a, b⟩ := hall p (List.mem_cons_self ..)
          exact rename_mem_of _ _ n (List.mem_filter.2 ⟨hn, by simpa using a⟩) b
        · exact fun q hq => hall q (List.mem_cons_of_mem _ hq)
    | repair => exact absurd hx (by simp [isPatch])
    | stripH => exact absurd hx (by simp [isPatch])
    | addH => exact absurd hx (by simp [isPatch])

/-- the names after the early (pre-repair) patches -/
abbrev afterEarly (skip ok : Str → Bool) (ref0 : ResDef) (s : Names) (early : List Stage) : St :=
  run skip ok ref0 s early

theorem stages_exact_core (U : List Str) (skip ok : Str → Bool) (ref0 : ResDef) (s : Names)
    (early late : List Stage)
    (hearly : ∀ x ∈ early, isPatch x = true) (hlate : ∀ x ∈ late, lateOK x = true)
    (hU0 : ∀ n ∈ ref0.names, n ∈ U)
    (hUp : ∀ x ∈ early ++ late, ∀ p, x = Stage.patch p → ∀ a ∈ p.atoms, a.name ∈ U)
    (halt : ∀ x ∈ late, ∀ p, x = Stage.patch p → ∀ kv ∈ p.altnames, kv.1 ∉ U)
    (hnd0 : ref0.names.Nodup)
    (hs1 : (afterEarly skip ok ref0 s early).names.Nodup)
    (hs1p : ∀ n ∈ (afterEarly skip ok ref0 s early).names, isPseudo n = false)
    (hop : OP1 ∉ (afterEarly skip ok ref0 s early).names ∧ OP2 ∉ (afterEarly skip ok ref0 s early).names)
    (hok : ∀ n, ok n = true) (hskip : ∀ n, skip n = false) :
    (run skip ok ref0 s (early ++ [Stage.repair] ++ late ++ [Stage.addH])).names.Perm
      ((run skip ok ref0 s (early ++ [Stage.repair] ++ late ++ [Stage.addH])).ref.names.filter
        (fun n => !isPseudo n)) := by
  rw [run_split]
  have hR : RInv U (run skip ok ref0 s early) :=
    RInv.early skip ok ref0 s early hearly hU0 hnd0
      (fun x hx => hUp x (List.mem_append_left _ hx))
  have h2 : LInv U (step skip ok (run skip ok ref0 s early) .repair) :=
    LInv.ofRepair hR hs1 hs1p hop.1 hop.2
  have h3 := LInv.fold (skip := skip) (ok := ok) late _ h2 hlate
    (fun x hx => hUp x (List.mem_append_right _ hx)) halt
  exact h3.addH hok hskip

/-- the case in which `repair_heavy` does nothing (it returns at once when no heavy atom is missing
anywhere in the structure): if the residue then holds only atoms of its reference and all of its
heavy atoms, the same conclusion holds without the repair stage -/
theorem stages_exact_norepair_core (U : List Str) (skip ok : Str → Bool) (ref0 : ResDef) (s : Names)
    (early late : List Stage)
    (hearly : ∀ x ∈ early, isPatch x = true) (hlate : ∀ x ∈ late, lateOK x = true)
    (hU0 : ∀ n ∈ ref0.names, n ∈ U)
    (hUp : ∀ x ∈ early ++ late, ∀ p, x = Stage.patch p → ∀ a ∈ p.atoms, a.name ∈ U)
    (halt : ∀ x ∈ late, ∀ p, x = Stage.patch p → ∀ kv ∈ p.altnames, kv.1 ∉ U)
    (hnd0 : ref0.names.Nodup)
    (hs1 : (afterEarly skip ok ref0 s early).names.Nodup)
    (hsub : ∀ n ∈ (afterEarly skip ok ref0 s early).names,
      n ∈ (afterEarly skip ok ref0 s early).ref.names ∧ isPseudo n = false)
    (hheavy : ∀ n ∈ (afterEarly skip ok ref0 s early).ref.names, isH n = false → isPseudo n = false →
      n ∈ (afterEarly skip ok ref0 s early).names)
    (hok : ∀ n, ok n = true) (hskip : ∀ n, skip n = false) :
    (run skip ok ref0 s (early ++ late ++ [Stage.addH])).names.Perm
      ((run skip ok ref0 s (early ++ late ++ [Stage.addH])).ref.names.filter
        (fun n => !isPseudo n)) := by
  have hsplit : run skip ok ref0 s (early ++ late ++ [Stage.addH]) =
      step skip ok (late.foldl (step skip ok) (run skip ok ref0 s early)) .addH := by
    simp only [run, List.foldl_append, List.foldl_cons, List.foldl_nil]
  rw [hsplit]
  have hR : RInv U (run skip ok ref0 s early) :=
    RInv.early skip ok ref0 s early hearly hU0 hnd0
      (fun x hx => hUp x (List.mem_append_left _ hx))
  have h2 : LInv U (run skip ok ref0 s early) := ⟨⟨hR.rnd, hR.rU⟩, hs1, hsub, hheavy⟩
  have h3 := LInv.fold (skip := skip) (ok := ok) late _ h2 hlate
    (fun x hx => hUp x (List.mem_append_right _ hx)) halt
  exact h3.addH hok hskip

/-- a heavy atom the residue holds when repair starts is in the final model or was reported as
deleted — whatever happens afterwards (late stages, failed hydrogen placements, skipped ones) -/
theorem stages_accounted_core (U : List Str) (skip ok : Str → Bool) (ref0 : ResDef) (s : Names)
    (early late : List Stage)
    (hearly : ∀ x ∈ early, isPatch x = true) (hlate : ∀ x ∈ late, lateOK x = true)
    (hU0 : ∀ n ∈ ref0.names, n ∈ U)
    (hUp : ∀ x ∈ early ++ late, ∀ p, x = Stage.patch p → ∀ a ∈ p.atoms, a.name ∈ U)
    (halt : ∀ x ∈ late, ∀ p, x = Stage.patch p → ∀ kv ∈ p.altnames, kv.1 ∉ U)
    (hop : OP1 ∉ (afterEarly skip ok ref0 s early).names ∧ OP2 ∉ (afterEarly skip ok ref0 s early).names)
    (n : Str) (hn : n ∈ (afterEarly skip ok ref0 s early).names) (hheavy : isH n = false) :
    n ∈ (run skip ok ref0 s (early ++ [Stage.repair] ++ late ++ [Stage.addH])).names ∨
    n ∈ (run skip ok ref0 s (early ++ [Stage.repair] ++ late ++ [Stage.addH])).reported := by
  rw [run_split]
  have hRU : ∀ m ∈ (run skip ok ref0 s early).ref.names, m ∈ U :=
    refU_foldPatches early _ hU0 hearly (fun x hx => hUp x (List.mem_append_left _ hx))
  rcases P2P.Proofs.Atoms.repair_reports_core (run skip ok ref0 s early).ref.names
    (run skip ok ref0 s early).names n hn with h | h
  · left
    have hU : n ∈ U := hRU n (repair_sub _ _ hop.1 hop.2 n h)
    have h3 : n ∈ (late.foldl (step skip ok)
        (step skip ok (run skip ok ref0 s early) .repair)).names :=
      late_keeps n hU hheavy late _ h hlate halt
    exact (P2P.Proofs.Atoms.hydrogens_only_adds_core _ skip ok _).1 n h3
  · right
    have h2 : n ∈ (step skip ok (run skip ok ref0 s early) .repair).reported :=
      List.mem_append_right _ h
    exact reported_mono n late _ h2

/-- the early patches invent nothing, and an input atom that no early patch removes or renames
is still there when repair starts -/
theorem early_keeps_core (skip ok : Str → Bool) (ref0 : ResDef) (s : Names) (early : List Stage)
    (hearly : ∀ x ∈ early, isPatch x = true) :
    (run skip ok ref0 s early).names.length ≤ s.length ∧
    ∀ n ∈ s, (∀ p, Stage.patch p ∈ early → n ∉ p.remove ∧ ∀ kv ∈ p.altnames, kv.1 ≠ n) →
      n ∈ (run skip ok ref0 s early).names :=
  early_keeps_fold early _ hearly

end P2P.Proofs.Stages
