import P2P.Proofs.CellsLemmas

/-!
  Exactness of the neighbour query (the other half of C14): besides returning every registered atom
  of an adjacent cell (`near_complete_static_core`), after any protocol-obeying history the query
  returns ONLY registered atoms of adjacent cells and returns each of them ONCE — which is what
  "equal to a brute-force search" needs in addition to completeness.
-/
namespace P2P.Proofs.Cells
open P2P.Cells

/-- the cell lists hold only atoms whose `cell` attribute names that cell, each once -/
def Exact (st : State) : Prop :=
  ∀ k v, (k, v) ∈ st.cellmap → v.Nodup ∧ ∀ a ∈ v, cellOf st a = some k

theorem exact_init (s : Int) : Exact (init s) := by
  intro k v h
  simp [init] at h

/-! ### helper lemmas -/

theorem mem_map_upd_inv (cm : List (Key × List Id)) (key : Key) (g : List Id → List Id)
    (k : Key) (v : List Id)
    (h : (k, v) ∈ cm.map (fun (k, v) => if k = key then (k, g v) else (k, v))) :
    ∃ v0, (k, v0) ∈ cm ∧ v = if k = key then g v0 else v0 := by
  obtain ⟨⟨k0, v0⟩, hm, he⟩ := List.mem_map.mp h
  dsimp only at he
  split at he
  · rename_i hk
    cases he
    exact ⟨_, hm, by rw [if_pos hk]⟩
  · rename_i hk
    cases he
    exact ⟨_, hm, by rw [if_neg hk]⟩

theorem mem_addCM (cm : List (Key × List Id)) (key : Key) (a : Id) (k : Key) (v : List Id)
    (h : (k, v) ∈ addCM cm key a) :
    (∃ v0, (k, v0) ∈ cm ∧ v = if k = key then v0 ++ [a] else v0) ∨ (k = key ∧ v = [a]) := by
  unfold addCM at h
  split at h
  · exact Or.inl (mem_map_upd_inv cm key (· ++ [a]) k v h)
  · rename_i hany
    rcases List.mem_append.mp h with h | h
    · by_cases hk : k = key
      · exfalso
        apply hany
        rw [List.any_eq_true]
        exact ⟨(k, v), h, by simpa using hk⟩
      · exact Or.inl ⟨v, h, by rw [if_neg hk]⟩
    · simp only [List.mem_singleton, Prod.mk.injEq] at h
      exact Or.inr h

theorem exact_setPos (st : State) (hE : Exact st) (a : Id) (p : TPos) : Exact (setPos st a p) :=
  fun k v h => hE k v h

theorem exact_addCell (st : State) (hE : Exact st) (a : Id) (hnone : cellOf st a = none) :
    Exact (addCell st a) := by
  rw [addCell_eq]
  have hnotin : ∀ k0 v0, (k0, v0) ∈ st.cellmap → a ∉ v0 := by
    intro k0 v0 hm ha
    have := (hE k0 v0 hm).2 a ha
    rw [hnone] at this
    cases this
  intro k v h
  have h' : (k, v) ∈ addCM st.cellmap (keyOf st.size (posOf st a)) a := h
  rcases mem_addCM _ _ _ _ _ h' with ⟨v0, hm, rfl⟩ | ⟨rfl, rfl⟩
  · obtain ⟨hnd, hmem⟩ := hE k v0 hm
    have hna := hnotin k v0 hm
    by_cases hk : k = keyOf st.size (posOf st a)
    · rw [if_pos hk]
      refine ⟨?_, ?_⟩
      · rw [List.nodup_append]
        refine ⟨hnd, by simp, ?_⟩
        intro x hx y hy
        simp only [List.mem_singleton] at hy
        subst hy
        intro e
        exact hna (e ▸ hx)
      · intro b hb
        rw [cellOf_setCell]
        rcases List.mem_append.mp hb with hb | hb
        · have hba : b ≠ a := fun e => hna (e ▸ hb)
          rw [if_neg hba]
          exact hmem b hb
        · simp only [List.mem_singleton] at hb
          rw [if_pos hb, hk]
    · rw [if_neg hk]
      refine ⟨hnd, ?_⟩
      intro b hb
      rw [cellOf_setCell]
      have hba : b ≠ a := fun e => hna (e ▸ hb)
      rw [if_neg hba]
      exact hmem b hb
  · refine ⟨by simp, ?_⟩
    intro b hb
    simp only [List.mem_singleton] at hb
    rw [cellOf_setCell, if_pos hb]

theorem exact_removeCell (st st' : State) (hE : Exact st) (a : Id)
    (h : removeCell st a = some st') : Exact st' := by
  unfold removeCell at h
  split at h
  · cases h
    exact hE
  · rename_i old hold
    split at h
    · cases h
    · rename_i k0 v0 hfind
      split at h
      · cases h
        intro k v hm
        have hm' : (k, v) ∈ st.cellmap.map
            (fun (k, w) => if k = old then (k, w.erase a) else (k, w)) := hm
        obtain ⟨v1, hm1, rfl⟩ := mem_map_upd_inv st.cellmap old (fun w => w.erase a) k v hm'
        obtain ⟨hnd, hmem⟩ := hE k v1 hm1
        by_cases hk : k = old
        · rw [if_pos hk]
          refine ⟨hnd.erase a, ?_⟩
          intro b hb
          have hb' := (hnd.mem_erase_iff).mp hb
          rw [cellOf_setCell, if_neg hb'.1]
          exact hmem b hb'.2
        · rw [if_neg hk]
          refine ⟨hnd, ?_⟩
          intro b hb
          have hba : b ≠ a := by
            intro e
            subst e
            have := hmem b hb
            rw [hold] at this
            cases this
            exact hk rfl
          rw [cellOf_setCell, if_neg hba]
          exact hmem b hb
      · cases h

theorem size_removeCell (st st' : State) (a : Id) (h : removeCell st a = some st') :
    st'.size = st.size := by
  unfold removeCell at h
  split at h
  · cases h; rfl
  · split at h
    · cases h
    · split at h
      · cases h; rfl
      · cases h

theorem exact_applyOp (st : State) (hI : Inv st) (hE : Exact st) (op : Op) : Exact (applyOp st op) := by
  cases op with
  | place a p =>
    show Exact (if cellOf st a = none then addCell (setPos st a p) a else st)
    split
    · rename_i hnone
      exact exact_addCell _ (exact_setPos st hE a p) a hnone
    · exact hE
  | remove a =>
    show Exact ((removeCell st a).getD st)
    cases h : removeCell st a with
    | none => exact hE
    | some st' => exact exact_removeCell st st' hE a h
  | move a p =>
    show Exact (match removeCell st a with
      | some st' => addCell (setPos st' a p) a
      | none => st)
    cases h : removeCell st a with
    | none => exact hE
    | some st' =>
      obtain ⟨_, h2⟩ := inv_removeCell st st' hI a h
      exact exact_addCell _ (exact_setPos st' (exact_removeCell st st' hE a h) a p) a h2

theorem size_applyOp (st : State) (op : Op) : (applyOp st op).size = st.size := by
  cases op with
  | place a p =>
    show (if cellOf st a = none then addCell (setPos st a p) a else st).size = st.size
    split <;> rfl
  | remove a =>
    show ((removeCell st a).getD st).size = st.size
    cases h : removeCell st a with
    | none => rfl
    | some st' => exact size_removeCell st st' a h
  | move a p =>
    show (match removeCell st a with
      | some st' => addCell (setPos st' a p) a
      | none => st).size = st.size
    cases h : removeCell st a with
    | none => rfl
    | some st' => exact size_removeCell st st' a h

theorem exact_foldl (ops : List Op) (st : State) (hI : Inv st) (hE : Exact st) :
    Exact (ops.foldl applyOp st) ∧ (ops.foldl applyOp st).size = st.size := by
  induction ops generalizing st with
  | nil => exact ⟨hE, rfl⟩
  | cons op t ih =>
    obtain ⟨h1, h2⟩ := ih _ (inv_applyOp st hI op) (exact_applyOp st hI hE op)
    exact ⟨h1, h2.trans (size_applyOp st op)⟩

theorem exact_after_any_history_core (s : Int) (ops : List Op) :
    Exact (ops.foldl applyOp (init s)) ∧ (ops.foldl applyOp (init s)).size = s :=
  exact_foldl ops (init s) (inv_init s) (exact_init s)

/-! ### the query, one cell at a time -/

/-- what the query takes from the cell with key `key` -/
def cellAt (st : State) (a : Id) (key : Key) : List Id :=
  match st.cellmap.find? (·.1 = key) with
  | none => []
  | some (_, v) => v.filter (· ≠ a)

theorem nearCells_eq (st : State) (a : Id) :
    nearCells st a =
      match cellOf st a with
      | none => []
      | some (x, y, z) =>
        (offsets st.size).flatMap (fun i => (offsets st.size).flatMap (fun j =>
          (offsets st.size).flatMap (fun k => cellAt st a (x + i, y + j, z + k)))) := rfl

theorem mem_cellAt (st : State) (hE : Exact st) (a b : Id) (key : Key) (h : b ∈ cellAt st a key) :
    b ≠ a ∧ cellOf st b = some key := by
  unfold cellAt at h
  split at h
  · simp at h
  · rename_i k v hf
    have hk : k = key := by simpa using List.find?_some hf
    have hm := List.mem_of_find?_eq_some hf
    subst hk
    rw [List.mem_filter] at h
    exact ⟨by simpa using h.2, (hE k v hm).2 b h.1⟩

theorem nodup_cellAt (st : State) (hE : Exact st) (a : Id) (key : Key) : (cellAt st a key).Nodup := by
  unfold cellAt
  split
  · simp
  · rename_i k v hf
    exact ((hE k v (List.mem_of_find?_eq_some hf)).1).filter _

theorem nodup_flatMap_tag {α β : Type} (l : List α) (f : α → List β) (g : β → α) (hl : l.Nodup)
    (hf : ∀ x ∈ l, (f x).Nodup) (hg : ∀ x ∈ l, ∀ b ∈ f x, g b = x) : (l.flatMap f).Nodup := by
  induction l with
  | nil => simp
  | cons x t ih =>
    rw [List.nodup_cons] at hl
    rw [List.flatMap_cons, List.nodup_append]
    refine ⟨hf x (List.mem_cons_self ..), ih hl.2 (fun y hy => hf y (List.mem_cons_of_mem _ hy))
      (fun y hy => hg y (List.mem_cons_of_mem _ hy)), ?_⟩
    intro b hb c hc e
    subst e
    obtain ⟨y, hy, hby⟩ := List.mem_flatMap.mp hc
    have h1 := hg x (List.mem_cons_self ..) b hb
    have h2 := hg y (List.mem_cons_of_mem _ hy) b hby
    exact hl.1 (by rw [← h1, h2]; exact hy)

theorem offsets_nodup (s : Int) (hs : 0 < s) : (offsets s).Nodup := by
  simp only [offsets, List.nodup_cons, List.mem_cons, List.not_mem_nil, or_false, not_or,
    List.nodup_nil, and_true, not_false_eq_true]
  omega

/-- soundness: whatever the query returns is a registered atom, different from the querying one,
whose cell is adjacent to the querying atom's cell -/
theorem near_sound_core (st : State) (hE : Exact st) (a b : Id) (hb : b ∈ nearCells st a) :
    b ≠ a ∧ ∃ ka kb, cellOf st a = some ka ∧ cellOf st b = some kb ∧ Adjacent st.size ka kb := by
  rw [nearCells_eq] at hb
  cases hc : cellOf st a with
  | none => rw [hc] at hb; simp at hb
  | some key =>
    obtain ⟨x, y, z⟩ := key
    rw [hc] at hb
    simp only [List.mem_flatMap] at hb
    obtain ⟨i, hi, j, hj, k, hk, hb⟩ := hb
    obtain ⟨hne, hcb⟩ := mem_cellAt st hE a b _ hb
    refine ⟨hne, (x, y, z), (x + i, y + j, z + k), rfl, hcb, ?_⟩
    have off : ∀ d : Int, d ∈ offsets st.size → ∀ w : Int,
        (w + d - w = -st.size ∨ w + d - w = 0 ∨ w + d - w = st.size) := by
      intro d hd w
      simp only [offsets, List.mem_cons, List.not_mem_nil, or_false] at hd
      omega
    exact ⟨off i hi x, off j hj y, off k hk z⟩

/-- no neighbour is returned twice -/
theorem near_nodup_core (st : State) (hs : 0 < st.size) (hI : Inv st) (hE : Exact st) (a : Id) :
    (nearCells st a).Nodup := by
  have _ := hI
  rw [nearCells_eq]
  cases hc : cellOf st a with
  | none => simp
  | some key =>
    obtain ⟨x, y, z⟩ := key
    dsimp only
    have hoff := offsets_nodup st.size hs
    apply nodup_flatMap_tag _ _
      (fun b => match cellOf st b with | some (x', _, _) => x' - x | none => 0) hoff
    · intro i _
      apply nodup_flatMap_tag _ _
        (fun b => match cellOf st b with | some (_, y', _) => y' - y | none => 0) hoff
      · intro j _
        apply nodup_flatMap_tag _ _
          (fun b => match cellOf st b with | some (_, _, z') => z' - z | none => 0) hoff
        · intro k _
          exact nodup_cellAt st hE a _
        · intro k _ b hb
          rw [(mem_cellAt st hE a b _ hb).2]
          show z + k - z = k
          omega
      · intro j _ b hb
        simp only [List.mem_flatMap] at hb
        obtain ⟨k, _, hb⟩ := hb
        rw [(mem_cellAt st hE a b _ hb).2]
        show y + j - y = j
        omega
    · intro i _ b hb
      simp only [List.mem_flatMap] at hb
      obtain ⟨j, _, k, _, hb⟩ := hb
      rw [(mem_cellAt st hE a b _ hb).2]
      show x + i - x = i
      omega

end P2P.Proofs.Cells
