/-
  P2P.Proofs.TextLemmas — reusable, model-independent lemmas about `P2P.Text`.

  Sections: padding (`ljust`/`rjust`), slicing, whitespace (`isWs`, `NoWs`, `strip`),
  `splitWs` on blank-separated tokens, digits (`natStr`, `intStr`, `parseNat?`,
  `parseInt?`), fixed-point text (`fmtFix`, `parseFloat?`).
-/
import P2P.Text

namespace P2P.Proofs.Text
open P2P

/-! ### padding -/

theorem length_ljust (s : Str) (w : Nat) : (ljust s w).length = max s.length w := by
  simp only [ljust, List.length_append, List.length_replicate]; omega

theorem length_rjust (s : Str) (w : Nat) : (rjust s w).length = max s.length w := by
  simp only [rjust, List.length_append, List.length_replicate]; omega

theorem length_take_ljust (s : Str) (w : Nat) : ((ljust s w).take w).length = w := by
  simp only [List.length_take, length_ljust]; omega

theorem length_take_rjust (s : Str) (w : Nat) : ((rjust s w).take w).length = w := by
  simp only [List.length_take, length_rjust]; omega

theorem length_ljust_of_le {s : Str} {w : Nat} (h : s.length ≤ w) : (ljust s w).length = w := by
  rw [length_ljust]; omega

theorem length_rjust_of_le {s : Str} {w : Nat} (h : s.length ≤ w) : (rjust s w).length = w := by
  rw [length_rjust]; omega

theorem take_ljust_of_le {s : Str} {w : Nat} (h : s.length ≤ w) : (ljust s w).take w = ljust s w :=
  List.take_of_length_le (by rw [length_ljust_of_le h]; exact Nat.le_refl _)

theorem take_rjust_of_le {s : Str} {w : Nat} (h : s.length ≤ w) : (rjust s w).take w = rjust s w :=
  List.take_of_length_le (by rw [length_rjust_of_le h]; exact Nat.le_refl _)

theorem ljust_of_ge {s : Str} {w : Nat} (h : w ≤ s.length) : ljust s w = s := by
  simp [ljust, Nat.sub_eq_zero_of_le h]

theorem rjust_of_ge {s : Str} {w : Nat} (h : w ≤ s.length) : rjust s w = s := by
  simp [rjust, Nat.sub_eq_zero_of_le h]

/-- `ljust` then `[:w]` is the identity on a string that already has width `w`. -/
theorem take_ljust_of_length_eq {s : Str} {w : Nat} (h : s.length = w) : (ljust s w).take w = s := by
  rw [ljust_of_ge (by omega)]; exact List.take_of_length_le (by omega)

theorem take_rjust_of_length_eq {s : Str} {w : Nat} (h : s.length = w) : (rjust s w).take w = s := by
  rw [rjust_of_ge (by omega)]; exact List.take_of_length_le (by omega)

/-! ### slicing -/

theorem length_slice (s : Str) (a b : Nat) : (slice s a b).length = min (b - a) (s.length - a) := by
  simp [slice]

/-- the slice that starts where `pre` ends and is as long as `f` is `f`. -/
theorem slice_append_mid (pre f post : Str) {a b : Nat} (ha : pre.length = a)
    (hb : a + f.length = b) : slice (pre ++ f ++ post) a b = f := by
  subst ha hb
  simp [slice, List.append_assoc]

theorem slice_append_mid' (pre f post : Str) {a b : Nat} (ha : pre.length = a)
    (hb : a + f.length = b) : slice (pre ++ (f ++ post)) a b = f := by
  rw [← List.append_assoc]; exact slice_append_mid pre f post ha hb

theorem slice_prefix (f post : Str) {b : Nat} (hb : f.length = b) : slice (f ++ post) 0 b = f := by
  subst hb; simp [slice]

theorem slice_suffix (pre f : Str) {a b : Nat} (ha : pre.length = a)
    (hb : a + f.length = b) : slice (pre ++ f) a b = f := by
  have := slice_append_mid pre f [] ha hb
  simpa using this

/-- slices may be taken inside the right part of an append. -/
theorem slice_append_right (pre s : Str) {a b : Nat} (ha : pre.length ≤ a) :
    slice (pre ++ s) a b = slice s (a - pre.length) (b - pre.length) := by
  simp only [slice]
  rw [List.drop_append, List.drop_of_length_le ha, List.nil_append]
  congr 1; omega

/-- slices that end inside the left part of an append ignore the right part. -/
theorem slice_append_left (s post : Str) {a b : Nat} (hb : b ≤ s.length) :
    slice (s ++ post) a b = slice s a b := by
  simp only [slice]
  rw [List.drop_append, List.take_append]
  have : b - a - (List.drop a s).length = 0 := by simp; omega
  rw [this, List.take_zero, List.append_nil]

theorem sliceFrom_append (pre post : Str) {a : Nat} (ha : pre.length = a) :
    sliceFrom (pre ++ post) a = post := by
  subst ha; simp [sliceFrom]

/-- adjacent slices glue. -/
theorem slice_append_slice (s : Str) {a b c : Nat} (hab : a ≤ b) (hbc : b ≤ c) :
    slice s a b ++ slice s b c = slice s a c := by
  simp only [slice]
  have h1 : c - a = (b - a) + (c - b) := by omega
  rw [h1, List.take_add, List.drop_drop]
  congr 3; omega

/-- a slice of a slice is a slice. -/
theorem slice_slice (s : Str) {a b i j : Nat} (h : a + j ≤ b) :
    slice (slice s a b) i j = slice s (a + i) (a + j) := by
  simp only [slice, List.drop_take, List.take_take, List.drop_drop]
  congr 1; omega

theorem sliceFrom_eq_slice (s : Str) (a : Nat) {b : Nat} (h : s.length ≤ b) :
    sliceFrom s a = slice s a b := by
  simp only [sliceFrom, slice]
  rw [List.take_of_length_le]; simp; omega

/-- the `i`-th field of a concatenation of fields sits at the cumulative offset. -/
theorem slice_flatten (pre : List Str) (f : Str) (post : List Str) {a b : Nat}
    (ha : (pre.map List.length).sum = a) (hb : a + f.length = b) :
    slice (pre ++ f :: post).flatten a b = f := by
  rw [List.flatten_append, List.flatten_cons]
  exact slice_append_mid' _ _ _ (by simpa [List.length_flatten] using ha) hb

/-- field number `i` of a record printed as a concatenation of fields. -/
theorem slice_flatten_getElem? (fs : List Str) (i : Nat) {f : Str} (hf : fs[i]? = some f)
    {a b : Nat} (ha : ((fs.take i).map List.length).sum = a) (hb : a + f.length = b) :
    slice fs.flatten a b = f := by
  obtain ⟨hi, rfl⟩ := List.getElem?_eq_some_iff.mp hf
  have h : fs = fs.take i ++ fs[i] :: fs.drop (i + 1) := by
    rw [← List.drop_eq_getElem_cons hi, List.take_append_drop]
  have := slice_flatten (fs.take i) fs[i] (fs.drop (i + 1)) ha hb
  rwa [← h] at this

/-! ### characters -/

theorem char_eq_iff_toNat (c d : Char) : c = d ↔ c.toNat = d.toNat := Char.toNat_inj.symm

theorem isDigit_iff (c : Char) : c.isDigit = true ↔ 48 ≤ c.toNat ∧ c.toNat ≤ 57 := by
  simp [Char.isDigit, UInt32.le_iff_toNat_le]

theorem isWs_space : isWs ' ' = true := by decide
theorem isWs_newline : isWs '\n' = true := by decide

theorem isWs_of_isDigit {c : Char} (h : c.isDigit = true) : isWs c = false := by
  rw [isDigit_iff] at h
  simp [isWs, char_eq_iff_toNat]
  omega

theorem isWs_minus : isWs '-' = false := by decide
theorem isWs_plus : isWs '+' = false := by decide
theorem isWs_dot : isWs '.' = false := by decide

theorem ne_minus_of_isDigit {c : Char} (h : c.isDigit = true) : c ≠ '-' := by
  rintro rfl; revert h; decide
theorem ne_plus_of_isDigit {c : Char} (h : c.isDigit = true) : c ≠ '+' := by
  rintro rfl; revert h; decide
theorem ne_dot_of_isDigit {c : Char} (h : c.isDigit = true) : c ≠ '.' := by
  rintro rfl; revert h; decide

/-! ### whitespace: `NoWs`, `AllWs`, `strip` -/

/-- no ASCII whitespace inside (the `Prop` form of `s.all (fun c => !isWs c)`). -/
def NoWs (s : Str) : Prop := ∀ c ∈ s, isWs c = false
/-- only ASCII whitespace. -/
def AllWs (s : Str) : Prop := ∀ c ∈ s, isWs c = true

theorem noWs_iff_all (s : Str) : NoWs s ↔ s.all (fun c => !isWs c) = true := by
  simp [NoWs]

theorem noWs_nil : NoWs [] := by simp [NoWs]
theorem noWs_cons {c : Char} {s : Str} : NoWs (c :: s) ↔ isWs c = false ∧ NoWs s := by
  simp [NoWs]
theorem noWs_append {s t : Str} : NoWs (s ++ t) ↔ NoWs s ∧ NoWs t := by
  simp only [NoWs, List.mem_append]
  exact ⟨fun h => ⟨fun c hc => h c (.inl hc), fun c hc => h c (.inr hc)⟩,
    fun h c hc => hc.elim (h.1 c) (h.2 c)⟩
theorem noWs_singleton {c : Char} : NoWs [c] ↔ isWs c = false := by simp [NoWs]
theorem noWs_of_all_isDigit {s : Str} (h : s.all Char.isDigit = true) : NoWs s := by
  intro c hc; exact isWs_of_isDigit (List.all_eq_true.mp h c hc)

theorem allWs_nil : AllWs [] := by simp [AllWs]
theorem allWs_cons {c : Char} {s : Str} : AllWs (c :: s) ↔ isWs c = true ∧ AllWs s := by
  simp [AllWs]
theorem allWs_append {s t : Str} : AllWs (s ++ t) ↔ AllWs s ∧ AllWs t := by
  simp only [AllWs, List.mem_append]
  exact ⟨fun h => ⟨fun c hc => h c (.inl hc), fun c hc => h c (.inr hc)⟩,
    fun h c hc => hc.elim (h.1 c) (h.2 c)⟩
theorem allWs_replicate (k : Nat) : AllWs (List.replicate k ' ') := by
  intro c hc; rw [(List.mem_replicate.mp hc).2]; exact isWs_space
theorem allWs_reverse {s : Str} (h : AllWs s) : AllWs s.reverse := by
  intro c hc; exact h c (List.mem_reverse.mp hc)

theorem dropWhile_allWs_append {u : Str} (hu : AllWs u) (s : Str) :
    (u ++ s).dropWhile isWs = s.dropWhile isWs := by
  induction u with
  | nil => rfl
  | cons c u ih =>
    rw [allWs_cons] at hu
    rw [List.cons_append, List.dropWhile_cons, if_pos hu.1, ih hu.2]

theorem dropWhile_allWs {u : Str} (hu : AllWs u) : u.dropWhile isWs = [] := by
  have := dropWhile_allWs_append hu []
  simpa using this

theorem dropWhile_noWs {s : Str} (hs : NoWs s) : s.dropWhile isWs = s := by
  cases s with
  | nil => rfl
  | cons c s => rw [List.dropWhile_cons, if_neg (by simp [(noWs_cons.mp hs).1])]

theorem lstrip_allWs_append {u : Str} (hu : AllWs u) (s : Str) : lstrip (u ++ s) = lstrip s :=
  dropWhile_allWs_append hu s

theorem rstrip_append_allWs {v : Str} (hv : AllWs v) (s : Str) : rstrip (s ++ v) = rstrip s := by
  simp only [rstrip, List.reverse_append]
  rw [dropWhile_allWs_append (allWs_reverse hv)]

/-- a string whose first character is not whitespace is its own `lstrip`. -/
theorem lstrip_cons {c : Char} (hc : isWs c = false) (s : Str) : lstrip (c :: s) = c :: s := by
  simp [lstrip, hc]

/-- a string whose last character is not whitespace is its own `rstrip`. -/
theorem rstrip_concat {c : Char} (hc : isWs c = false) (s : Str) : rstrip (s ++ [c]) = s ++ [c] := by
  simp [rstrip, hc]

theorem lstrip_noWs {s : Str} (hs : NoWs s) : lstrip s = s := dropWhile_noWs hs

theorem rstrip_noWs {s : Str} (hs : NoWs s) : rstrip s = s := by
  have : NoWs s.reverse := fun c hc => hs c (List.mem_reverse.mp hc)
  simp [rstrip, dropWhile_noWs this]

theorem strip_noWs {s : Str} (hs : NoWs s) : strip s = s := by
  rw [strip, lstrip_noWs hs, rstrip_noWs hs]

/-- **strip of a padded token**: whitespace on both sides of a whitespace-free
string disappears. -/
theorem strip_allWs_pad {u v s : Str} (hu : AllWs u) (hv : AllWs v) (hs : NoWs s) :
    strip (u ++ s ++ v) = s := by
  rw [strip, List.append_assoc, lstrip_allWs_append hu]
  cases s with
  | nil =>
    rw [List.nil_append, lstrip, dropWhile_allWs hv]; rfl
  | cons c s =>
    rw [List.cons_append, lstrip_cons (noWs_cons.mp hs).1, ← List.cons_append,
      rstrip_append_allWs hv, rstrip_noWs hs]

theorem strip_pad {s : Str} (hs : NoWs s) (i j : Nat) :
    strip (List.replicate i ' ' ++ s ++ List.replicate j ' ') = s :=
  strip_allWs_pad (allWs_replicate i) (allWs_replicate j) hs

theorem strip_rjust {s : Str} (hs : NoWs s) (w : Nat) : strip (rjust s w) = s := by
  have := strip_pad hs (w - s.length) 0
  simpa [rjust] using this

theorem strip_ljust {s : Str} (hs : NoWs s) (w : Nat) : strip (ljust s w) = s := by
  have := strip_pad hs 0 (w - s.length)
  simpa [ljust] using this

theorem strip_allWs {u : Str} (hu : AllWs u) : strip u = [] := by
  have := strip_allWs_pad hu allWs_nil noWs_nil
  simpa using this

theorem length_stripChars_le (cs s : Str) : (stripChars cs s).length ≤ s.length := by
  simp only [stripChars, List.length_reverse]
  have h1 := (List.dropWhile_sublist (l := (s.dropWhile fun c => cs.contains c).reverse)
    (fun c => cs.contains c)).length_le
  have h2 := (List.dropWhile_sublist (l := s) (fun c => cs.contains c)).length_le
  rw [List.length_reverse] at h1
  exact Nat.le_trans h1 h2

/-! ### `splitWs` on blank-separated tokens -/

theorem splitWsAux_acc (s cur : Str) (acc : List Str) :
    splitWsAux s cur acc = acc.reverse ++ splitWsAux s cur [] := by
  induction s generalizing cur acc with
  | nil => simp only [splitWsAux]; split <;> simp
  | cons c cs ih =>
    simp only [splitWsAux]
    split
    · rw [ih [] (if cur.isEmpty then acc else cur.reverse :: acc),
        ih [] (if cur.isEmpty then [] else [cur.reverse])]
      split <;> simp
    · exact ih (c :: cur) acc

theorem splitWsAux_noWs {tok : Str} (h : NoWs tok) (rest cur : Str) (acc : List Str) :
    splitWsAux (tok ++ rest) cur acc = splitWsAux rest (tok.reverse ++ cur) acc := by
  induction tok generalizing cur with
  | nil => rfl
  | cons c tok ih =>
    rw [noWs_cons] at h
    rw [List.cons_append, splitWsAux, if_neg (by simp [h.1]), ih h.2]
    simp

theorem splitWs_nil : splitWs [] = [] := rfl

theorem splitWs_cons_ws {c : Char} (hc : isWs c = true) (s : Str) : splitWs (c :: s) = splitWs s := by
  simp [splitWs, splitWsAux, hc]

theorem splitWs_allWs_append {u : Str} (hu : AllWs u) (s : Str) : splitWs (u ++ s) = splitWs s := by
  induction u with
  | nil => rfl
  | cons c u ih =>
    rw [allWs_cons] at hu
    rw [List.cons_append, splitWs_cons_ws hu.1, ih hu.2]

theorem splitWs_blanks_append (k : Nat) (s : Str) :
    splitWs (List.replicate k ' ' ++ s) = splitWs s :=
  splitWs_allWs_append (allWs_replicate k) s

theorem splitWs_allWs {u : Str} (hu : AllWs u) : splitWs u = [] := by
  have := splitWs_allWs_append hu []
  rw [List.append_nil] at this
  exact this

/-- a non-empty whitespace-free token followed by a whitespace character is the
first word. -/
theorem splitWs_tok_cons_ws {tok : Str} (hne : tok ≠ []) (h : NoWs tok) {c : Char}
    (hc : isWs c = true) (rest : Str) : splitWs (tok ++ c :: rest) = tok :: splitWs rest := by
  rw [splitWs, splitWsAux_noWs h, splitWsAux, if_pos hc, splitWsAux_acc]
  simp [hne, splitWs]

/-- a lone token. -/
theorem splitWs_tok {tok : Str} (hne : tok ≠ []) (h : NoWs tok) : splitWs tok = [tok] := by
  have := splitWsAux_noWs h [] [] []
  rw [List.append_nil] at this
  rw [splitWs, this]
  simp [splitWsAux, hne]

/-- the string is empty or starts with a whitespace character. -/
def StartsWs (s : Str) : Prop := ∀ c ∈ s.head?, isWs c = true

theorem startsWs_nil : StartsWs [] := by simp [StartsWs]
theorem startsWs_cons {c : Char} (hc : isWs c = true) (s : Str) : StartsWs (c :: s) := by
  simp [StartsWs, hc]
theorem startsWs_space (s : Str) : StartsWs (' ' :: s) := startsWs_cons isWs_space s
theorem startsWs_allWs_append {u : Str} (hu : AllWs u) {s : Str} (hs : StartsWs s) :
    StartsWs (u ++ s) := by
  cases u with
  | nil => exact hs
  | cons c u => exact startsWs_cons (allWs_cons.mp hu).1 _
theorem startsWs_blanks_append (k : Nat) {s : Str} (hs : StartsWs s) :
    StartsWs (List.replicate k ' ' ++ s) := startsWs_allWs_append (allWs_replicate k) hs
theorem startsWs_blanks_pos {k : Nat} (hk : 0 < k) (s : Str) :
    StartsWs (List.replicate k ' ' ++ s) := by
  obtain ⟨k, rfl⟩ : ∃ k', k = k' + 1 := ⟨k - 1, by omega⟩
  exact startsWs_space _

/-- **first word**: a non-empty whitespace-free token followed by end of text or
whitespace. -/
theorem splitWs_tok_append {tok : Str} (hne : tok ≠ []) (h : NoWs tok) {rest : Str}
    (hr : StartsWs rest) : splitWs (tok ++ rest) = tok :: splitWs rest := by
  cases rest with
  | nil => rw [List.append_nil, splitWs_tok hne h]; rfl
  | cons c rest =>
    have hc : isWs c = true := hr c (by simp)
    rw [splitWs_tok_cons_ws hne h hc, splitWs_cons_ws hc]

/-- `replicate k ' ' ++ tok ++ ' ' :: rest` splits into `tok` and the words of `rest`. -/
theorem splitWs_blanks_tok_space (k : Nat) {tok : Str} (hne : tok ≠ []) (h : NoWs tok) (rest : Str) :
    splitWs (List.replicate k ' ' ++ tok ++ ' ' :: rest) = tok :: splitWs rest := by
  rw [List.append_assoc, splitWs_blanks_append, splitWs_tok_cons_ws hne h isWs_space]

/-- `" ".join(toks).split() == toks` for non-empty whitespace-free tokens (any
separator made of whitespace, at least one character). -/
theorem splitWs_joinWith {sep : Str} (hsep : AllWs sep) (hne : sep ≠ []) (toks : List Str)
    (h : ∀ t ∈ toks, t ≠ [] ∧ NoWs t) : splitWs (joinWith sep toks) = toks := by
  induction toks with
  | nil => rfl
  | cons t ts ih =>
    have ht := h t (by simp)
    cases ts with
    | nil => simpa [joinWith] using splitWs_tok ht.1 ht.2
    | cons t' ts =>
      have hs : StartsWs (sep ++ joinWith sep (t' :: ts)) := by
        cases sep with
        | nil => exact absurd rfl hne
        | cons c sep => exact startsWs_cons (allWs_cons.mp hsep).1 _
      show splitWs (t ++ sep ++ joinWith sep (t' :: ts)) = _
      rw [List.append_assoc, splitWs_tok_append ht.1 ht.2 hs, splitWs_allWs_append hsep,
        ih (fun t ht => h t (List.mem_cons_of_mem _ ht))]

/-! ### decimal digits: `natStr`, `intStr`, `parseNat?`, `parseInt?` -/

theorem natStr_ne_nil (n : Nat) : natStr n ≠ [] := Nat.toDigits_ne_nil

theorem isDigit_of_mem_natStr {n : Nat} {c : Char} (h : c ∈ natStr n) : c.isDigit = true :=
  Nat.isDigit_of_mem_toDigits (by decide) (by decide) h

theorem all_isDigit_natStr (n : Nat) : (natStr n).all Char.isDigit = true :=
  List.all_eq_true.mpr fun _ h => isDigit_of_mem_natStr h

theorem allDigits_natStr (n : Nat) : allDigits (natStr n) = true := by
  simp [allDigits, all_isDigit_natStr, natStr_ne_nil]

theorem noWs_natStr (n : Nat) : NoWs (natStr n) := noWs_of_all_isDigit (all_isDigit_natStr n)

theorem ofDigitChars_natStr (n : Nat) : Nat.ofDigitChars 10 (natStr n) 0 = n :=
  Nat.ofDigitChars_ten_toDigits

theorem parseNat?_natStr (n : Nat) : parseNat? (natStr n) = some n := by
  simp [parseNat?, allDigits_natStr, ofDigitChars_natStr]

theorem length_natStr_pos (n : Nat) : 0 < (natStr n).length := Nat.length_toDigits_pos

/-- `n` has at most `k` decimal digits iff `n < 10 ^ k`. -/
theorem length_natStr_le_iff {n k : Nat} (hk : 0 < k) : (natStr n).length ≤ k ↔ n < 10 ^ k :=
  Nat.length_toDigits_le_iff (by decide) hk

/-- the text of a natural number starts with a digit. -/
theorem natStr_eq_cons (n : Nat) : ∃ d ds, natStr n = d :: ds ∧ d.isDigit = true := by
  cases h : natStr n with
  | nil => exact absurd h (natStr_ne_nil n)
  | cons d ds => exact ⟨d, ds, rfl, isDigit_of_mem_natStr (by rw [h]; simp)⟩

theorem intStr_ofNat (n : Nat) : intStr (n : Int) = natStr n := rfl
theorem intStr_negSucc (n : Nat) : intStr (Int.negSucc n) = '-' :: natStr (n + 1) := rfl

theorem intStr_ne_nil (i : Int) : intStr i ≠ [] := by
  cases i with
  | ofNat n => exact natStr_ne_nil n
  | negSucc n => simp [intStr]

theorem noWs_intStr (i : Int) : NoWs (intStr i) := by
  cases i with
  | ofNat n => exact noWs_natStr n
  | negSucc n => exact noWs_cons.mpr ⟨isWs_minus, noWs_natStr _⟩

theorem length_intStr_ofNat_le_iff {n k : Nat} (hk : 0 < k) :
    (intStr (n : Int)).length ≤ k ↔ n < 10 ^ k := length_natStr_le_iff hk

theorem length_intStr_negSucc_le_iff {n k : Nat} (hk : 0 < k) :
    (intStr (Int.negSucc n)).length ≤ k + 1 ↔ n + 1 < 10 ^ k := by
  rw [intStr_negSucc, List.length_cons, Nat.add_le_add_iff_right, length_natStr_le_iff hk]

/-- `0 ≤ i < 10^k` prints in at most `k` characters. -/
theorem length_intStr_le_of_nonneg {i : Int} {k : Nat} (hk : 0 < k) (h0 : 0 ≤ i)
    (h1 : i < ((10 ^ k : Nat) : Int)) : (intStr i).length ≤ k := by
  cases i with
  | ofNat n => exact (length_intStr_ofNat_le_iff hk).mpr (Int.ofNat_lt.mp h1)
  | negSucc n => omega

/-- `-10^k < i < 10^(k+1)` prints in at most `k + 1` characters (sign included). -/
theorem length_intStr_le_of_bounds {i : Int} {k : Nat} (hk : 0 < k)
    (h0 : -((10 ^ k : Nat) : Int) < i) (h1 : i < ((10 ^ (k + 1) : Nat) : Int)) :
    (intStr i).length ≤ k + 1 := by
  cases i with
  | ofNat n => exact (length_intStr_ofNat_le_iff (Nat.succ_pos k)).mpr (Int.ofNat_lt.mp h1)
  | negSucc n => exact (length_intStr_negSucc_le_iff hk).mpr (by omega)

/-- Python `int(text)` on anything whose `strip()` is the decimal text of `i`. -/
theorem parseInt?_of_strip_eq {s : Str} {i : Int} (h : strip s = intStr i) :
    parseInt? s = some i := by
  unfold parseInt?
  rw [h]
  cases i with
  | ofNat n =>
    obtain ⟨d, ds, hd, hdig⟩ := natStr_eq_cons n
    simp only [intStr]
    split
    · rename_i ds' heq
      rw [hd] at heq
      exact absurd (List.cons.inj heq).1 (ne_minus_of_isDigit hdig)
    · rename_i ds' heq
      rw [hd] at heq
      exact absurd (List.cons.inj heq).1 (ne_plus_of_isDigit hdig)
    · simp [parseNat?_natStr]
  | negSucc n =>
    simp only [intStr, parseNat?_natStr]
    rfl

theorem parseInt?_intStr (i : Int) : parseInt? (intStr i) = some i :=
  parseInt?_of_strip_eq (strip_noWs (noWs_intStr i))

theorem parseInt?_allWs_pad {u v : Str} (hu : AllWs u) (hv : AllWs v) (i : Int) :
    parseInt? (u ++ intStr i ++ v) = some i :=
  parseInt?_of_strip_eq (strip_allWs_pad hu hv (noWs_intStr i))

theorem parseInt?_pad (i : Int) (a b : Nat) :
    parseInt? (List.replicate a ' ' ++ intStr i ++ List.replicate b ' ') = some i :=
  parseInt?_of_strip_eq (strip_pad (noWs_intStr i) a b)

theorem parseInt?_rjust (i : Int) (w : Nat) : parseInt? (rjust (intStr i) w) = some i :=
  parseInt?_of_strip_eq (strip_rjust (noWs_intStr i) w)

theorem parseInt?_ljust (i : Int) (w : Nat) : parseInt? (ljust (intStr i) w) = some i :=
  parseInt?_of_strip_eq (strip_ljust (noWs_intStr i) w)

/-- Python `int(text)` fails on a whitespace-free text that is not an optionally
signed digit string; the one-character case. -/
theorem parseInt?_singleton_of_not_isDigit {c : Char} (hws : isWs c = false)
    (hd : c.isDigit = false) : parseInt? [c] = none := by
  unfold parseInt?
  rw [strip_noWs (noWs_singleton.mpr hws)]
  split
  · rename_i ds heq
    obtain ⟨-, rfl⟩ := List.cons.inj heq
    simp [parseNat?, allDigits]
  · rename_i ds heq
    obtain ⟨-, rfl⟩ := List.cons.inj heq
    simp [parseNat?, allDigits]
  · simp [parseNat?, allDigits, hd]

/-! ### `List.span`, `splitFirst` -/

theorem span_loop_eq {α : Type _} (p : α → Bool) (l acc : List α) :
    List.span.loop p l acc = (acc.reverse ++ l.takeWhile p, l.dropWhile p) := by
  induction l generalizing acc with
  | nil => simp [List.span.loop]
  | cons a l ih =>
    rw [List.span.loop]
    cases h : p a with
    | true => simp [ih, h]
    | false => simp [h]

theorem span_eq_takeWhile_dropWhile {α : Type _} (p : α → Bool) (l : List α) :
    l.span p = (l.takeWhile p, l.dropWhile p) := by
  simp [List.span, span_loop_eq]

theorem span_append_cons {α : Type _} {p : α → Bool} {l : List α} (hl : ∀ x ∈ l, p x = true)
    {a : α} (ha : p a = false) (r : List α) : (l ++ a :: r).span p = (l, a :: r) := by
  rw [span_eq_takeWhile_dropWhile]
  induction l with
  | nil => simp [ha]
  | cons x l ih =>
    have hx := hl x (by simp)
    have := ih (fun y hy => hl y (List.mem_cons_of_mem _ hy))
    simp only [Prod.mk.injEq] at this
    simp [hx, this.1, this.2]

theorem span_of_all {α : Type _} {p : α → Bool} {l : List α} (hl : ∀ x ∈ l, p x = true) :
    l.span p = (l, []) := by
  rw [span_eq_takeWhile_dropWhile]
  induction l with
  | nil => rfl
  | cons x l ih =>
    have hx := hl x (by simp)
    have := ih (fun y hy => hl y (List.mem_cons_of_mem _ hy))
    simp only [Prod.mk.injEq] at this
    simp [hx, this.1, this.2]

theorem splitFirst_append_cons {c : Char} {l : Str} (hl : ∀ x ∈ l, x ≠ c) (r : Str) :
    splitFirst c (l ++ c :: r) = (l, some r) := by
  unfold splitFirst
  rw [span_append_cons (p := fun x => decide (x ≠ c)) (by simpa using hl) (by simp)]

theorem splitFirst_of_not_mem {c : Char} {l : Str} (hl : ∀ x ∈ l, x ≠ c) :
    splitFirst c l = (l, none) := by
  unfold splitFirst
  rw [span_of_all (p := fun x => decide (x ≠ c)) (by simpa using hl)]

/-! ### decimals: `fmtFix`, `parseMant?`, `parseFloat?` -/

/-- optional sign in front of a number (the first `match` of `parseFloat?`). -/
def signSplit (s : Str) : Bool × Str :=
  match s with
  | '-' :: r => (true, r)
  | '+' :: r => (false, r)
  | r => (false, r)

/-- mantissa / exponent split at the first `e` or `E` (the second `match` of `parseFloat?`). -/
def expSplit (body : Str) : Str × Option Str :=
  match body.span (fun c => c ≠ 'e' && c ≠ 'E') with
  | (m, []) => (m, none)
  | (m, _ :: e) => (m, some e)

/-- `parseFloat?` with its local matches named. -/
theorem parseFloat?_eq (s0 : Str) : parseFloat? s0 =
    (let p := signSplit (strip s0)
     let lb := lower p.2
     if lb = str "inf" || lb = str "infinity" then some (.inf p.1)
     else if lb = str "nan" then some .nan
     else
       match parseMant? (expSplit p.2).1 with
       | none => none
       | some (mant, fd) =>
         match (expSplit p.2).2 with
         | none => some (.fin ⟨p.1, mant, - (fd : Int)⟩)
         | some es =>
           match parseNat? (signSplit es).2 with
           | none => none
           | some ev =>
             some (.fin ⟨p.1, mant, (if (signSplit es).1 then - (ev : Int) else ev) - fd⟩)) := by
  rfl

theorem signSplit_minus (r : Str) : signSplit ('-' :: r) = (true, r) := rfl
theorem signSplit_plus (r : Str) : signSplit ('+' :: r) = (false, r) := rfl
theorem signSplit_nil : signSplit [] = (false, []) := rfl
theorem signSplit_cons_of_ne {c : Char} (h1 : c ≠ '-') (h2 : c ≠ '+') (r : Str) :
    signSplit (c :: r) = (false, c :: r) := by
  unfold signSplit
  split
  · rename_i heq; exact absurd (List.cons.inj heq).1 h1
  · rename_i heq; exact absurd (List.cons.inj heq).1 h2
  · rfl
theorem signSplit_cons_of_isDigit {c : Char} (h : c.isDigit = true) (r : Str) :
    signSplit (c :: r) = (false, c :: r) :=
  signSplit_cons_of_ne (ne_minus_of_isDigit h) (ne_plus_of_isDigit h) r

theorem expSplit_of_all {body : Str} (h : ∀ c ∈ body, c ≠ 'e' ∧ c ≠ 'E') :
    expSplit body = (body, none) := by
  unfold expSplit
  rw [span_of_all (by simpa using h)]

theorem toLower_of_isDigit {c : Char} (h : c.isDigit = true) : c.toLower = c := by
  rw [isDigit_iff] at h
  unfold Char.toLower
  rw [dif_neg]
  simp only [ge_iff_le, UInt32.le_iff_toNat_le, Char.toNat_val]
  intro h'
  have : ('A' : Char).toNat = 65 := by decide
  omega

/-- digits followed by `.` followed by digits. -/
theorem parseMant?_dot {ip fp : Str} (hne : ip ≠ [] ∨ fp ≠ [])
    (hip : ip.all Char.isDigit = true) (hfp : fp.all Char.isDigit = true) :
    parseMant? (ip ++ '.' :: fp) = some (Nat.ofDigitChars 10 (ip ++ fp) 0, fp.length) := by
  unfold parseMant?
  rw [splitFirst_append_cons
    (fun x hx => ne_dot_of_isDigit (List.all_eq_true.mp hip x hx))]
  simp only [hip, hfp, Bool.and_self, if_true]
  rw [if_neg]
  simpa [List.isEmpty_iff] using fun h => hne.resolve_left (fun h' => h' h)

/-- digits only. -/
theorem parseMant?_digits {ip : Str} (hne : ip ≠ []) (hip : ip.all Char.isDigit = true) :
    parseMant? ip = some (Nat.ofDigitChars 10 ip 0, 0) := by
  unfold parseMant?
  rw [splitFirst_of_not_mem
    (fun x hx => ne_dot_of_isDigit (List.all_eq_true.mp hip x hx))]
  simp [allDigits, hip, hne]

/-- **Python `float(text)` on plain decimal notation** `[-]digits.digits`
(surrounded by any whitespace). -/
theorem parseFloat?_decimal {s : Str} {neg : Bool} {ip fp : Str}
    (hs : strip s = (if neg then ['-'] else []) ++ ip ++ '.' :: fp)
    (hne : ip ≠ []) (hip : ip.all Char.isDigit = true) (hfp : fp.all Char.isDigit = true) :
    parseFloat? s =
      some (.fin ⟨neg, Nat.ofDigitChars 10 (ip ++ fp) 0, - (fp.length : Int)⟩) := by
  obtain ⟨d, ds, rfl⟩ := List.exists_cons_of_ne_nil hne
  have hd : d.isDigit = true := List.all_eq_true.mp hip d (by simp)
  have hsign : signSplit (strip s) = (neg, (d :: ds) ++ '.' :: fp) := by
    rw [hs]
    cases neg
    · exact signSplit_cons_of_isDigit hd _
    · rfl
  have hexp : expSplit ((d :: ds) ++ '.' :: fp) = ((d :: ds) ++ '.' :: fp, none) := by
    apply expSplit_of_all
    intro c hc
    rcases List.mem_append.mp hc with hc | hc
    · have := List.all_eq_true.mp hip c hc
      constructor <;> (rintro rfl; revert this; decide)
    · rcases List.mem_cons.mp hc with rfl | hc
      · constructor <;> decide
      · have := List.all_eq_true.mp hfp c hc
        constructor <;> (rintro rfl; revert this; decide)
  have hlow : lower ((d :: ds) ++ '.' :: fp) = d :: lower (ds ++ '.' :: fp) := by
    simp [lower, toLower_of_isDigit hd]
  rw [parseFloat?_eq]
  simp only [hsign, hexp, parseMant?_dot (.inl hne) hip hfp, hlow]
  rw [if_neg, if_neg]
  · intro h
    have := (List.cons.inj h).1
    subst this; revert hd; decide
  · simp only [Bool.or_eq_true, decide_eq_true_eq, not_or]
    constructor <;>
    · intro h
      have := (List.cons.inj h).1
      subst this; revert hd; decide

/-- Python `float(text)` on unsigned/signed digit strings without a point. -/
theorem parseFloat?_digits {s : Str} {neg : Bool} {ip : Str}
    (hs : strip s = (if neg then ['-'] else []) ++ ip)
    (hne : ip ≠ []) (hip : ip.all Char.isDigit = true) :
    parseFloat? s = some (.fin ⟨neg, Nat.ofDigitChars 10 ip 0, 0⟩) := by
  obtain ⟨d, ds, rfl⟩ := List.exists_cons_of_ne_nil hne
  have hd : d.isDigit = true := List.all_eq_true.mp hip d (by simp)
  have hsign : signSplit (strip s) = (neg, d :: ds) := by
    rw [hs]
    cases neg
    · exact signSplit_cons_of_isDigit hd _
    · rfl
  have hexp : expSplit (d :: ds) = (d :: ds, none) := by
    apply expSplit_of_all
    intro c hc
    have := List.all_eq_true.mp hip c hc
    constructor <;> (rintro rfl; revert this; decide)
  have hlow : lower (d :: ds) = d :: lower ds := by
    simp [lower, toLower_of_isDigit hd]
  rw [parseFloat?_eq]
  simp only [hsign, hexp, parseMant?_digits hne hip, hlow]
  rw [if_neg, if_neg]
  · rfl
  · intro h
    have := (List.cons.inj h).1
    subst this; revert hd; decide
  · simp only [Bool.or_eq_true, decide_eq_true_eq, not_or]
    constructor <;>
    · intro h
      have := (List.cons.inj h).1
      subst this; revert hd; decide

theorem length_zpad (s : Str) (k : Nat) : (zpad s k).length = max s.length k := by
  simp only [zpad, List.length_append, List.length_replicate]; omega

theorem all_isDigit_zpad {s : Str} (h : s.all Char.isDigit = true) (k : Nat) :
    (zpad s k).all Char.isDigit = true := by
  simp only [zpad, List.all_append, List.all_replicate, h, Bool.and_true]
  simp

theorem ofDigitChars_zpad (s : Str) (k : Nat) :
    Nat.ofDigitChars 10 (zpad s k) 0 = Nat.ofDigitChars 10 s 0 := by
  simp [zpad, Nat.ofDigitChars_append]

theorem ofDigitChars_append_zero (l m : Str) :
    Nat.ofDigitChars 10 (l ++ m) 0 =
      Nat.ofDigitChars 10 l 0 * 10 ^ m.length + Nat.ofDigitChars 10 m 0 := by
  rw [Nat.ofDigitChars_append, Nat.ofDigitChars_eq_ofDigitChars_zero, Nat.mul_comm]

/-- the fraction digits of `fmtFix k` are exactly `k`. -/
theorem length_zpad_natStr_mod (n : Nat) {k : Nat} (hk : 0 < k) :
    (zpad (natStr (n % 10 ^ k)) k).length = k := by
  rw [length_zpad]
  have := (length_natStr_le_iff (n := n % 10 ^ k) hk).mpr (Nat.mod_lt _ (Nat.pow_pos (by decide)))
  omega

theorem fmtFix_eq (k : Nat) (f : Fix) :
    fmtFix k f = (if f.neg then ['-'] else []) ++ natStr (f.mag / 10 ^ k) ++
      '.' :: zpad (natStr (f.mag % 10 ^ k)) k := by
  simp [fmtFix]

theorem length_fmtFix {k : Nat} (hk : 0 < k) (f : Fix) :
    (fmtFix k f).length = (if f.neg then 1 else 0) + (natStr (f.mag / 10 ^ k)).length + 1 + k := by
  rw [fmtFix_eq]
  simp only [List.length_append, List.length_cons, length_zpad_natStr_mod _ hk]
  cases f.neg <;> simp <;> omega

theorem fmtFix_ne_nil (k : Nat) (f : Fix) : fmtFix k f ≠ [] := by
  rw [fmtFix_eq]; simp

theorem noWs_fmtFix (k : Nat) (f : Fix) : NoWs (fmtFix k f) := by
  rw [fmtFix_eq]
  refine noWs_append.mpr ⟨noWs_append.mpr ⟨?_, noWs_natStr _⟩,
    noWs_cons.mpr ⟨isWs_dot, noWs_of_all_isDigit (all_isDigit_zpad (all_isDigit_natStr _) k)⟩⟩
  cases f.neg
  · exact noWs_nil
  · exact noWs_singleton.mpr isWs_minus

/-- Python `float(text)` on anything whose `strip()` is `format(x, ".kf")`, `k ≥ 1`:
sign, all printed digits as mantissa, exponent `-k`. -/
theorem parseFloat?_of_strip_eq_fmtFix {s : Str} {k : Nat} (hk : 0 < k) {f : Fix}
    (h : strip s = fmtFix k f) :
    parseFloat? s = some (.fin ⟨f.neg, f.mag, - (k : Int)⟩) := by
  rw [fmtFix_eq] at h
  rw [parseFloat?_decimal h (natStr_ne_nil _) (all_isDigit_natStr _)
    (all_isDigit_zpad (all_isDigit_natStr _) k)]
  rw [length_zpad_natStr_mod _ hk, ofDigitChars_append_zero, length_zpad_natStr_mod _ hk,
    ofDigitChars_zpad, ofDigitChars_natStr, ofDigitChars_natStr, Nat.div_add_mod']

theorem parseFloat?_fmtFix {k : Nat} (hk : 0 < k) (f : Fix) :
    parseFloat? (fmtFix k f) = some (.fin ⟨f.neg, f.mag, - (k : Int)⟩) :=
  parseFloat?_of_strip_eq_fmtFix hk (strip_noWs (noWs_fmtFix k f))

theorem parseFloat?_fmtFix_allWs_pad {k : Nat} (hk : 0 < k) (f : Fix) {u v : Str}
    (hu : AllWs u) (hv : AllWs v) :
    parseFloat? (u ++ fmtFix k f ++ v) = some (.fin ⟨f.neg, f.mag, - (k : Int)⟩) :=
  parseFloat?_of_strip_eq_fmtFix hk (strip_allWs_pad hu hv (noWs_fmtFix k f))

theorem parseFloat?_fmtFix_pad {k : Nat} (hk : 0 < k) (f : Fix) (a b : Nat) :
    parseFloat? (List.replicate a ' ' ++ fmtFix k f ++ List.replicate b ' ') =
      some (.fin ⟨f.neg, f.mag, - (k : Int)⟩) :=
  parseFloat?_of_strip_eq_fmtFix hk (strip_pad (noWs_fmtFix k f) a b)

theorem parseFloat?_rjust_fmtFix {k : Nat} (hk : 0 < k) (f : Fix) (w : Nat) :
    parseFloat? (rjust (fmtFix k f) w) = some (.fin ⟨f.neg, f.mag, - (k : Int)⟩) :=
  parseFloat?_of_strip_eq_fmtFix hk (strip_rjust (noWs_fmtFix k f) w)

theorem parseFloat?_ljust_fmtFix {k : Nat} (hk : 0 < k) (f : Fix) (w : Nat) :
    parseFloat? (ljust (fmtFix k f) w) = some (.fin ⟨f.neg, f.mag, - (k : Int)⟩) :=
  parseFloat?_of_strip_eq_fmtFix hk (strip_ljust (noWs_fmtFix k f) w)

/-! ### padded fields: a token with whitespace on either side -/

/-- `f` is `tok` surrounded by whitespace (a fixed-width field holding `tok`). -/
def Padded (f tok : Str) : Prop := ∃ u v, AllWs u ∧ AllWs v ∧ f = u ++ tok ++ v

theorem padded_refl (tok : Str) : Padded tok tok :=
  ⟨[], [], allWs_nil, allWs_nil, by simp⟩

theorem padded_pad (tok : Str) (i j : Nat) :
    Padded (List.replicate i ' ' ++ tok ++ List.replicate j ' ') tok :=
  ⟨_, _, allWs_replicate i, allWs_replicate j, rfl⟩

theorem padded_ljust (s : Str) (w : Nat) : Padded (ljust s w) s :=
  ⟨[], List.replicate (w - s.length) ' ', allWs_nil, allWs_replicate _, by simp [ljust]⟩

theorem padded_rjust (s : Str) (w : Nat) : Padded (rjust s w) s :=
  ⟨List.replicate (w - s.length) ' ', [], allWs_replicate _, allWs_nil, by simp [rjust]⟩

theorem padded_take_ljust {s : Str} {w : Nat} (h : s.length ≤ w) : Padded ((ljust s w).take w) s := by
  rw [take_ljust_of_le h]; exact padded_ljust s w

theorem padded_take_rjust {s : Str} {w : Nat} (h : s.length ≤ w) : Padded ((rjust s w).take w) s := by
  rw [take_rjust_of_le h]; exact padded_rjust s w

theorem Padded.allWs_append_left {f tok u : Str} (h : Padded f tok) (hu : AllWs u) :
    Padded (u ++ f) tok := by
  obtain ⟨u', v', hu', hv', rfl⟩ := h
  exact ⟨u ++ u', v', allWs_append.mpr ⟨hu, hu'⟩, hv', by simp⟩

theorem Padded.allWs_append_right {f tok v : Str} (h : Padded f tok) (hv : AllWs v) :
    Padded (f ++ v) tok := by
  obtain ⟨u', v', hu', hv', rfl⟩ := h
  exact ⟨u', v' ++ v, hu', allWs_append.mpr ⟨hv', hv⟩, by simp⟩

theorem Padded.cons_space {f tok : Str} (h : Padded f tok) : Padded (' ' :: f) tok :=
  h.allWs_append_left (u := [' ']) (allWs_cons.mpr ⟨isWs_space, allWs_nil⟩)

theorem Padded.allWs {f : Str} (h : Padded f []) : AllWs f := by
  obtain ⟨u, v, hu, hv, rfl⟩ := h
  exact allWs_append.mpr ⟨allWs_append.mpr ⟨hu, allWs_nil⟩, hv⟩

theorem Padded.strip {f tok : Str} (h : Padded f tok) (hn : NoWs tok) : strip f = tok := by
  obtain ⟨u, v, hu, hv, rfl⟩ := h
  exact strip_allWs_pad hu hv hn

/-- the first word of a padded field followed by end of text / whitespace is its token. -/
theorem Padded.splitWs_append {f tok : Str} (h : Padded f tok) (hne : tok ≠ []) (hn : NoWs tok)
    {rest : Str} (hr : StartsWs rest) : splitWs (f ++ rest) = tok :: splitWs rest := by
  obtain ⟨u, v, hu, hv, rfl⟩ := h
  rw [List.append_assoc, List.append_assoc, splitWs_allWs_append hu,
    splitWs_tok_append hne hn (startsWs_allWs_append hv hr), splitWs_allWs_append hv]

theorem Padded.parseInt? {f : Str} {i : Int} (h : Padded f (intStr i)) : parseInt? f = some i :=
  parseInt?_of_strip_eq (h.strip (noWs_intStr i))

theorem Padded.parseFloat? {f : Str} {k : Nat} (hk : 0 < k) {v : Fix} (h : Padded f (fmtFix k v)) :
    parseFloat? f = some (.fin ⟨v.neg, v.mag, - (k : Int)⟩) :=
  parseFloat?_of_strip_eq_fmtFix hk (h.strip (noWs_fmtFix k v))

/-- a right-justified field that does not fill its width starts with a blank. -/
theorem startsWs_rjust_append {s : Str} {w : Nat} (h : s.length < w) (rest : Str) :
    StartsWs (rjust s w ++ rest) := by
  rw [rjust, List.append_assoc]
  exact startsWs_blanks_pos (by omega) _

end P2P.Proofs.Text
