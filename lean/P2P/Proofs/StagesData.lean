import P2P.Proofs.StagesLemmas
import P2P.Proofs.StagesTable

/-! The stage-composition theorem instantiated with this run's generated topology: the data
hypotheses are discharged by the kernel-checked facts of `StagesTable`. -/
namespace P2P.Proofs.Stages
open P2P P2P.Topology P2P.Atoms P2P.Stages P2P.Gen.Topology P2P.Proofs.StagesTable

theorem mem_U_of_residue {r : ResDef} (hr : r ∈ residues) {n : Str} (hn : n ∈ r.names) : n ∈ U := by
  unfold U
  exact List.mem_append_left _ (List.mem_flatMap.mpr ⟨r, hr, hn⟩)

theorem mem_U_of_patch {p : PatchDef} (hp : p ∈ patches) {a : AtomDef} (ha : a ∈ p.atoms) : a.name ∈ U := by
  unfold U
  exact List.mem_append_right _ (List.mem_flatMap.mpr ⟨p, hp, List.mem_map.mpr ⟨a, ha, rfl⟩⟩)

theorem latePatch_mem {p : PatchDef} (hp : p ∈ latePatches) : p ∈ patches ∧ patchFine p = true := by
  refine ⟨(List.mem_filter.mp hp).1, ?_⟩
  exact List.all_eq_true.mp late_patches_fine p hp

theorem stages_exact_on_data_core (skip ok : Str → Bool) (r : ResDef) (hr : r ∈ residues) (s : Names)
    (early late : List Stage)
    (hearly : ∀ x ∈ early, ∃ p ∈ patches, x = Stage.patch p)
    (hlate : ∀ x ∈ late, x = Stage.stripH ∨ ∃ p ∈ latePatches, x = Stage.patch p)
    (hs1 : (run skip ok r s early).names.Nodup)
    (hs1p : ∀ n ∈ (run skip ok r s early).names, isPseudo n = false)
    (hop : OP1 ∉ (run skip ok r s early).names ∧ OP2 ∉ (run skip ok r s early).names)
    (hok : ∀ n, ok n = true) (hskip : ∀ n, skip n = false) :
    (run skip ok r s (early ++ [Stage.repair] ++ late ++ [Stage.addH])).names.Perm
      ((run skip ok r s (early ++ [Stage.repair] ++ late ++ [Stage.addH])).ref.names.filter
        (fun n => !isPseudo n)) := by
  refine stages_exact_core U skip ok r s early late ?_ ?_ ?_ ?_ ?_ ?_ hs1 hs1p hop hok hskip
  · intro x hx
    obtain ⟨p, _, rfl⟩ := hearly x hx
    rfl
  · intro x hx
    rcases hlate x hx with rfl | ⟨p, hp, rfl⟩
    · rfl
    · have := (latePatch_mem hp).2
      unfold patchFine at this
      exact (Bool.and_eq_true _ _ ▸ this).1
  · intro n hn
    exact mem_U_of_residue hr hn
  · intro x hx p hxp a ha
    rcases List.mem_append.mp hx with h | h
    · obtain ⟨q, hq, hxq⟩ := hearly x h
      rw [hxp] at hxq
      cases hxq
      exact mem_U_of_patch hq ha
    · rcases hlate x h with hs | ⟨q, hq, hxq⟩
      · rw [hxp] at hs; cases hs
      · rw [hxp] at hxq
        cases hxq
        exact mem_U_of_patch (latePatch_mem hq).1 ha
  · intro x hx p hxp kv hkv
    rcases hlate x hx with hs | ⟨q, hq, hxq⟩
    · rw [hxp] at hs; cases hs
    · rw [hxp] at hxq
      cases hxq
      have := (latePatch_mem hq).2
      unfold patchFine at this
      have h2 := (Bool.and_eq_true _ _ ▸ this).2
      have h3 := List.all_eq_true.mp h2 kv hkv
      intro hmem
      simp [hmem] at h3
  · have := List.all_eq_true.mp residue_names_nodup r hr
    exact (nodupB_iff _).mp this

end P2P.Proofs.Stages
