import P2P.Proofs.RigidBase
namespace P2P.Proofs.RigidTable
/-- kernel evaluation of `baseOK` on base definitions 3 … 5 of the regenerated topology -/
theorem chunk1 : chunkOK 1 = true := by decide +kernel
end P2P.Proofs.RigidTable
