import P2P.Proofs.RigidTable0
import P2P.Proofs.RigidTable1
import P2P.Proofs.RigidTable2
import P2P.Proofs.RigidTable3
import P2P.Proofs.RigidTable4
import P2P.Proofs.RigidTable5
import P2P.Proofs.RigidTable6
import P2P.Proofs.RigidTable7
import P2P.Proofs.RigidTable8
import P2P.Proofs.RigidTable9
import P2P.Proofs.RigidTable10
namespace P2P.Proofs.RigidTable
open P2P P2P.Rigid P2P.Topology

theorem bases_short : bases.drop 33 = [] := by decide +kernel

private theorem peel (p : ResDef → Bool) (k : Nat) (h : ((bases.drop (3 * k)).take 3).all p = true)
    (rest : (bases.drop (3 * (k + 1))).all p = true) : (bases.drop (3 * k)).all p = true := by
  rw [split_all p (bases.drop (3 * k)) 3, h, List.drop_drop]
  have : 3 * k + 3 = 3 * (k + 1) := by omega
  rw [this, rest]; rfl

/-- every base definition passes `baseOK` -/
theorem bases_ok : bases.all (baseOK P2P.Gen.Topology.patches) = true := by
  have h11 : (bases.drop (3 * 11)).all (baseOK P2P.Gen.Topology.patches) = true := by
    show (bases.drop 33).all _ = true
    rw [bases_short]; rfl
  have h10 := peel _ 10 chunk10 h11
  have h9 := peel _ 9 chunk9 h10
  have h8 := peel _ 8 chunk8 h9
  have h7 := peel _ 7 chunk7 h8
  have h6 := peel _ 6 chunk6 h7
  have h5 := peel _ 5 chunk5 h6
  have h4 := peel _ 4 chunk4 h5
  have h3 := peel _ 3 chunk3 h4
  have h2 := peel _ 2 chunk2 h3
  have h1 := peel _ 1 chunk1 h2
  have h0 := peel _ 0 chunk0 h1
  simpa using h0

end P2P.Proofs.RigidTable
