import P2P.Proofs.DihedralLemmas

/-!
  Successive changes of one torsion through the cache `residue.dihedrals[k]`, as the debumping scan
  makes them: every change reads the old angle from the cache, turns the moved atom by
  `requested - cached`, and stores the RE-MEASURED torsion in the cache.
-/
namespace P2P.Proofs.Dihedral
open P2P P2P.Geom P2P.Rigid P2P.Proofs.Geom

/-- the requested angle is not within the range in which `utilities.dihedral` snaps to 0 or 180 -/
def NoSnap (small angle : ℝ) : Prop :=
  ¬ |Real.cos (rad angle) + 1| < small ∧ ¬ |Real.cos (rad angle) - 1| < small

/-- `Debump.set_dihedral_angle` on the fourth atom of the torsion, with the cache: state = (position of
c4, cached torsion) -/
noncomputable def stepTor (small : ℝ) (c1 c2 c3 : V3 ℝ) (st : V3 ℝ × ℝ) (angle : ℝ) : V3 ℝ × ℝ :=
  let c4' := torsionMap c2 c3 (angle - st.2) st.1
  (c4', dihedral (180 / Real.pi) small c1 c2 c3 c4')

/-- the invariant: c4 is off the axis, the cache holds the measured torsion, and that measurement is
not a snapped one -/
def Good (small : ℝ) (c1 c2 c3 : V3 ℝ) (st : V3 ℝ × ℝ) : Prop :=
  NonDeg c1 c2 c3 st.1 ∧ st.2 = dihedral (180 / Real.pi) small c1 c2 c3 st.1 ∧
  (¬ |cosTor c1 c2 c3 st.1 + 1| < small ∧ ¬ |cosTor c1 c2 c3 st.1 - 1| < small)

/-- the cross product that defines the second plane, after the turn, is the turned cross product -/
theorem cross_torsionMap (c2 c3 c4 : V3 ℝ) (he : V3.dot (V3.sub c3 c2) (V3.sub c3 c2) ≠ 0) (diff : ℝ) :
    V3.cross (V3.sub (torsionMap c2 c3 diff c4) c3) (V3.sub c3 c2) =
      rotPoint (chiMatrix (V3.normalize (V3.sub c3 c2)) diff) (V3.cross (V3.sub c4 c3) (V3.sub c3 c2)) := by
  have hu := normalize_unit_core _ he
  have hsm := smul_norm_normalize _ he
  have hfix := chi_fixes_axis_core _ hu diff (V3.norm (V3.sub c3 c2))
  rw [← hsm] at hfix
  have h1 : V3.sub (torsionMap c2 c3 diff c4) c3 =
      rotPoint (chiMatrix (V3.normalize (V3.sub c3 c2)) diff) (V3.sub c4 c3) := by
    have e1 : V3.sub (torsionMap c2 c3 diff c4) c3 =
        V3.sub (rotPoint (chiMatrix (V3.normalize (V3.sub c3 c2)) diff) (V3.sub c4 c2)) (V3.sub c3 c2) := by
      apply V3.ext' <;> simp only [torsionMap, V3.sub, V3.add] <;> ring
    have e2 : V3.sub c4 c3 = V3.sub (V3.sub c4 c2) (V3.sub c3 c2) := by
      apply V3.ext' <;> simp only [V3.sub] <;> ring
    rw [e1, e2, rotPoint_sub _ (V3.sub c4 c2) (V3.sub c3 c2), hfix]
  rw [h1]
  have := chi_cross_axis (V3.normalize (V3.sub c3 c2)) diff (V3.norm (V3.sub c3 c2)) (V3.sub c4 c3)
  rw [← hsm] at this
  exact this

/-- the turn keeps c4 off the axis -/
theorem nonDeg_torsionMap (c1 c2 c3 c4 : V3 ℝ) (h : NonDeg c1 c2 c3 c4) (diff : ℝ) :
    NonDeg c1 c2 c3 (torsionMap c2 c3 diff c4) := by
  have he := axis_ne c1 c2 c3 c4 h
  have hu := normalize_unit_core _ he
  refine ⟨h.1, ?_⟩
  rw [cross_torsionMap c2 c3 c4 he diff, chi_isometry_core _ hu]
  exact h.2

/-- one change: the torsion's cosine and sine become those of the requested angle, and the invariant
is kept when the requested angle is not in the snapping range -/
theorem stepTor_spec_core (small : ℝ) (hs : 0 < small) (c1 c2 c3 : V3 ℝ) (st : V3 ℝ × ℝ)
    (hg : Good small c1 c2 c3 st) (angle : ℝ) :
    cosTor c1 c2 c3 (stepTor small c1 c2 c3 st angle).1 = Real.cos (rad angle) ∧
    sinTor c1 c2 c3 (stepTor small c1 c2 c3 st angle).1 = Real.sin (rad angle) ∧
    (NoSnap small angle → Good small c1 c2 c3 (stepTor small c1 c2 c3 st angle)) := by
  obtain ⟨hnd, hcache, hgen⟩ := hg
  have hval := dihedral_value_core c1 c2 c3 st.1 hnd small hs hgen
  rw [← hcache] at hval
  have hset := tor_set_core c1 c2 c3 st.1 hnd st.2 angle hval
  have hfst : (stepTor small c1 c2 c3 st angle).1 = torsionMap c2 c3 (angle - st.2) st.1 := rfl
  rw [hfst]
  refine ⟨hset.1, hset.2, fun hns => ?_⟩
  refine ⟨?_, ?_, ?_⟩
  · rw [hfst]
    exact nonDeg_torsionMap c1 c2 c3 st.1 hnd _
  · rfl
  · rw [hfst, hset.1]
    exact hns

/-- **any number of successive changes**: after the last one the torsion's cosine and sine are those
of the last requested angle -/
theorem torsion_sequence_core (small : ℝ) (hs : 0 < small) (c1 c2 c3 : V3 ℝ) (st : V3 ℝ × ℝ)
    (hg : Good small c1 c2 c3 st) (angles : List ℝ) (last : ℝ)
    (hns : ∀ a ∈ angles, NoSnap small a) :
    cosTor c1 c2 c3 ((angles ++ [last]).foldl (stepTor small c1 c2 c3) st).1 = Real.cos (rad last) ∧
    sinTor c1 c2 c3 ((angles ++ [last]).foldl (stepTor small c1 c2 c3) st).1 = Real.sin (rad last) := by
  induction angles generalizing st with
  | nil =>
    have h := stepTor_spec_core small hs c1 c2 c3 st hg last
    exact ⟨h.1, h.2.1⟩
  | cons a as ih =>
    have h := stepTor_spec_core small hs c1 c2 c3 st hg a
    have hg' := h.2.2 (hns a List.mem_cons_self)
    rw [List.cons_append, List.foldl_cons]
    exact ih _ hg' (fun b hb => hns b (List.mem_cons_of_mem _ hb))

end P2P.Proofs.Dihedral
