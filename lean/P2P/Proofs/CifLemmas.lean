import P2P.Model.Cif
import P2P.Proofs.TextLemmas
import P2P.Proofs.PdbLemmas

namespace P2P.Proofs.Cif
open P2P P2P.Cif P2P.PdbRead

/-- no ASCII whitespace inside the items that end up in the record -/
def RowClean (r : Row) : Bool :=
  let clean (s : Str) : Bool := s.all (fun c => !isWs c)
  clean r.name && clean (r.alt.getD []) && clean r.comp && clean (chainId r) && clean (r.ins.getD []) &&
  clean r.id && clean r.seq && clean r.x && clean r.y && clean r.z

/-- the record a row stands for -/
def recOfRow (r : Row) (i n : Int) (x y z : PyFloat) : AtomRec :=
  AtomRec.mk (r.group = str "HETATM") r.group i r.name (if missing r.alt then [] else r.alt.getD []) r.comp (chainId r) n (if missing r.ins then [] else r.ins.getD []) x y z

theorem cif_line_is_pdb_line_core (r : Row) (h : RowOK r = true) :
    assemble r = pdbLine r ++ (if r.charge = some ['?'] then str "  " else []) := by
  sorry

theorem cif_pdb_agree_core (het : Bool) (r : Row) (h : RowOK r = true) :
    parseAtom het (assemble r) = parseAtom het (pdbLine r) := by
  sorry

theorem cif_record_is_row_core (r : Row) (h : RowOK r = true) (hc : RowClean r = true)
    (i n : Int) (x y z : PyFloat)
    (hi : parseInt? r.id = some i) (hn : parseInt? r.seq = some n)
    (hx : parseFloat? r.x = some x) (hy : parseFloat? r.y = some y) (hz : parseFloat? r.z = some z) :
    parseAtom (r.group = str "HETATM") (assemble r) = .ok (recOfRow r i n x y z) := by
  sorry

theorem first_model_only_core (rows : List Row) (recs : List Rec) (h : atomSite rows = .ok recs) :
    ∃ rs1, rowsRecs (rows.filter (·.model = (countModels rows).headD [])) = .ok rs1 ∧
      P2P.Proofs.Pdb.firstModel 1 recs 0 0 = P2P.Proofs.Pdb.atomsOf rs1 := by
  sorry

end P2P.Proofs.Cif
