import P2P.Model.Cif
import P2P.Proofs.TextLemmas
import P2P.Proofs.PdbLemmas

namespace P2P.Proofs.Cif
open P2P P2P.Cif P2P.PdbRead

/-- no ASCII whitespace inside the items that end up in the record -/
def RowClean (r : Row) : Bool :=
  let clean (s : Str) : Bool := s.all (fun c => !isWs c)
  clean r.name && clean (r.alt.getD []) && clean r.comp && clean (chainId r) && clean (r.ins.getD []) &&
  clean r.id && clean r.seq && clean r.x && clean r.y && clean r.z

/-- the record a row stands for -/
def recOfRow (r : Row) (i n : Int) (x y z : PyFloat) : AtomRec :=
  AtomRec.mk (r.group = str "HETATM") r.group i r.name (if missing r.alt then [] else r.alt.getD []) r.comp (chainId r) n (if missing r.ins then [] else r.ins.getD []) x y z

open P2P.Proofs.Text

theorem str_ATOM : str "ATOM" = ['A','T','O','M'] := by decide
theorem str_HETATM : str "HETATM" = ['H','E','T','A','T','M'] := by decide

theorem rowOK_group {r : Row} (h : RowOK r = true) : r.group = str "ATOM" ∨ r.group = str "HETATM" := by
  simp only [RowOK, Bool.and_eq_true, Bool.or_eq_true, decide_eq_true_eq] at h
  exact h.1.1.1.1.1.1.1.1.1.1.1.1.1

theorem group_field {g : Str} (h : g = str "ATOM" ∨ g = str "HETATM") :
    g ++ (if g = str "ATOM" then List.replicate (6 - g.length) ' ' else []) = ljust g 6 := by
  rcases h with h | h <;> subst h <;> decide

theorem name_field (n : Str) :
    (if n.length < 4 then str "  " else str " ") ++ n ++ List.replicate (3 - n.length) ' ' =
      ' ' :: (if n.length < 4 then ' ' :: ljust n 3 else n) := by
  split
  · simp [str, ljust]
  · have : 3 - n.length = 0 := by omega
    simp [str, this]

theorem cif_line_is_pdb_line_core (r : Row) (h : RowOK r = true) :
    assemble r = pdbLine r ++ (if r.charge = some ['?'] then str "  " else []) := by
  unfold assemble pdbLine padL
  rw [group_field (rowOK_group h)]
  simp only [List.append_assoc]
  congr 2
  rw [← List.append_assoc, ← List.append_assoc, name_field]
  simp

structure OK (r : Row) : Prop where
  group : r.group = str "ATOM" ∨ r.group = str "HETATM"
  id : 1 ≤ r.id.length ∧ r.id.length ≤ 5
  name : 1 ≤ r.name.length ∧ r.name.length ≤ 4
  alt : missing r.alt = true ∨ (r.alt.getD []).length = 1
  comp : 1 ≤ r.comp.length ∧ r.comp.length ≤ 3
  chain : (chainId r).length = 1
  seq : 1 ≤ r.seq.length ∧ r.seq.length ≤ 4
  ins : missing r.ins = true ∨ (r.ins.getD []).length = 1
  x : 1 ≤ r.x.length ∧ r.x.length ≤ 8
  y : 1 ≤ r.y.length ∧ r.y.length ≤ 8
  z : 1 ≤ r.z.length ∧ r.z.length ≤ 8
  occ : r.occ.length ≤ 6
  b : r.b.length ≤ 6
  sym : r.sym.length ≤ 2

theorem rowOK_ok {r : Row} (h : RowOK r = true) : OK r := by
  simp only [RowOK, Bool.and_eq_true, Bool.or_eq_true, decide_eq_true_eq] at h
  obtain ⟨⟨⟨⟨⟨⟨⟨⟨⟨⟨⟨⟨⟨h1, h2⟩, h3⟩, h4⟩, h5⟩, h6⟩, h7⟩, h8⟩, h9⟩, h10⟩, h11⟩, h12⟩, h13⟩, h14⟩ := h
  exact ⟨h1, h2, h3, h4, h5, h6, h7, h8, h9, h10, h11, h12, h13, h14⟩

/-- the one-character optional field (alternate location / insertion code) -/
def optField (v : Option Str) : Str := if missing v then [' '] else v.getD []

theorem length_optField {v : Option Str} (h : missing v = true ∨ (v.getD []).length = 1) :
    (optField v).length = 1 := by
  unfold optField
  split
  · rfl
  · rcases h with h | h
    · contradiction
    · exact h

/-- the four-character name field -/
def nameField (n : Str) : Str := if n.length < 4 then ' ' :: ljust n 3 else n

theorem length_nameField {n : Str} (h : n.length ≤ 4) : (nameField n).length = 4 := by
  unfold nameField
  split
  · rw [List.length_cons, length_ljust]; omega
  · omega

/-- the fields of `pdbLine` -/
def fields (r : Row) : List Str :=
  [ljust r.group 6, rjust r.id 5, [' '], nameField r.name, optField r.alt, rjust r.comp 3, [' '],
   rjust (chainId r) 1, rjust r.seq 4, optField r.ins, str "   ", rjust r.x 8, rjust r.y 8, rjust r.z 8,
   rjust r.occ 6, rjust r.b 6, List.replicate 10 ' ', rjust r.sym 2]

theorem pdbLine_eq_flatten (r : Row) : pdbLine r = (fields r).flatten := by
  simp [pdbLine, fields, nameField, optField, List.append_assoc]

theorem length_group {g : Str} (h : g = str "ATOM" ∨ g = str "HETATM") : (ljust g 6).length = 6 := by
  rcases h with h | h <;> subst h <;> decide

theorem fields_lengths {r : Row} (h : OK r) :
    (fields r).map List.length = [6, 5, 1, 4, 1, 3, 1, 1, 4, 1, 3, 8, 8, 8, 6, 6, 10, 2] := by
  simp only [fields, List.map_cons, List.map_nil, length_group h.group, length_rjust_of_le h.id.2,
    length_nameField h.name.2, length_optField h.alt, length_optField h.ins, length_rjust_of_le h.comp.2,
    length_rjust_of_le (Nat.le_of_eq h.chain), length_rjust_of_le h.seq.2, length_rjust_of_le h.x.2,
    length_rjust_of_le h.y.2, length_rjust_of_le h.z.2, length_rjust_of_le h.occ, length_rjust_of_le h.b,
    length_rjust_of_le h.sym, List.length_replicate, List.length_cons, List.length_nil]
  rfl

theorem length_pdbLine {r : Row} (h : OK r) : (pdbLine r).length = 78 := by
  rw [pdbLine_eq_flatten, List.length_flatten, fields_lengths h]
  rfl

theorem cif_pdb_agree_core (het : Bool) (r : Row) (h : RowOK r = true) :
    parseAtom het (assemble r) = parseAtom het (pdbLine r) := by
  have h1 := P2P.Proofs.Pdb.short_line_same_core het (assemble r) 78 (by omega)
  rw [← h1, cif_line_is_pdb_line_core r h, List.take_append_of_le_length (by rw [length_pdbLine (rowOK_ok h)]; omega),
    List.take_of_length_le (by rw [length_pdbLine (rowOK_ok h)]; omega)]


/-! ### the record read back -/

theorem take_fields_sum {r : Row} (h : OK r) (i : Nat) :
    (((fields r).take i).map List.length).sum =
      (([6, 5, 1, 4, 1, 3, 1, 1, 4, 1, 3, 8, 8, 8, 6, 6, 10, 2] : List Nat).take i).sum := by
  rw [List.map_take, fields_lengths h]

/-- field `i` of the assembled line -/
theorem slice_assemble {r : Row} (h : RowOK r = true) (i : Nat) {f : Str} (hf : (fields r)[i]? = some f)
    {a b : Nat}
    (ha : (([6, 5, 1, 4, 1, 3, 1, 1, 4, 1, 3, 8, 8, 8, 6, 6, 10, 2] : List Nat).take i).sum = a)
    (hb : (([6, 5, 1, 4, 1, 3, 1, 1, 4, 1, 3, 8, 8, 8, 6, 6, 10, 2] : List Nat).take (i + 1)).sum = b)
    (hb78 : b ≤ 78) :
    slice (assemble r) a b = f := by
  have hok := rowOK_ok h
  have hlen : a + f.length = b := by
    have h1 := take_fields_sum hok (i + 1)
    obtain ⟨hi, rfl⟩ := List.getElem?_eq_some_iff.mp hf
    rw [List.take_add_one, List.map_append, List.sum_append, take_fields_sum hok i, ha, hb] at h1
    simp only [List.getElem?_eq_getElem hi, Option.toList_some, List.map_cons, List.map_nil, List.sum_cons,
      List.sum_nil, Nat.add_zero] at h1
    exact h1
  rw [cif_line_is_pdb_line_core r h, slice_append_left _ _ (by rw [length_pdbLine hok]; exact hb78),
    pdbLine_eq_flatten]
  exact slice_flatten_getElem? (fields r) i hf (by rw [take_fields_sum hok i, ha]) hlen



theorem idx_of_slice {s : Str} {i : Nat} {c : Char} (h : slice s i (i + 1) = [c]) :
    idx s i = .ok (strip [c]) := by
  unfold slice at h
  unfold idx
  cases hd : s.drop i with
  | nil => rw [hd] at h; simp at h
  | cons d t =>
    rw [hd] at h
    have : i + 1 - i = 1 := by omega
    rw [this] at h
    simp only [List.take_succ_cons, List.take_zero, List.cons.injEq, and_true] at h
    rw [h]

theorem parseInt?_congr {a b : Str} (h : strip a = strip b) : parseInt? a = parseInt? b := by
  unfold parseInt?; rw [h]

theorem parseFloat?_congr {a b : Str} (h : strip a = strip b) : parseFloat? a = parseFloat? b := by
  rw [parseFloat?_eq, parseFloat?_eq, h]

theorem parseInt?_rjust_noWs {s : Str} (hs : NoWs s) (w : Nat) : parseInt? (rjust s w) = parseInt? s :=
  parseInt?_congr (by rw [strip_rjust hs, strip_noWs hs])

theorem parseFloat?_rjust_noWs {s : Str} (hs : NoWs s) (w : Nat) : parseFloat? (rjust s w) = parseFloat? s :=
  parseFloat?_congr (by rw [strip_rjust hs, strip_noWs hs])

/-- `parseAtom` on a line whose columns are known -/
theorem parseAtom_of_columns (het : Bool) (line : Str) (f0 f1 f3 f5 f8 fx fy fz : Str) (c4 c7 c9 : Char)
    (i n : Int) (x y z : PyFloat)
    (h0 : slice line 0 6 = f0) (h1 : slice line 6 11 = f1) (h3 : slice line 12 16 = f3)
    (h4 : slice line 16 17 = [c4]) (h5 : slice line 17 20 = f5) (h7 : slice line 21 22 = [c7])
    (h8 : slice line 22 26 = f8) (h9 : slice line 26 27 = [c9])
    (hx : slice line 30 38 = fx) (hy : slice line 38 46 = fy) (hz : slice line 46 54 = fz)
    (pi : parseInt? f1 = some i) (pn : parseInt? f8 = some n)
    (px : parseFloat? fx = some x) (py : parseFloat? fy = some y) (pz : parseFloat? fz = some z) :
    parseAtom het line = .ok ⟨het, strip f0, i, strip f3, strip [c4], strip f5, strip [c7], n, strip [c9], x, y, z⟩ := by
  unfold parseAtom
  rw [h0, h1, h3, h5, h8, hx, hy, hz, idx_of_slice h4, idx_of_slice h7, idx_of_slice h9]
  simp only [pyInt, pyFloat, pi, pn, px, py, pz]
  cases het <;> rfl

theorem noWs_of_clean {s : Str} (h : s.all (fun c => !isWs c) = true) : NoWs s := (noWs_iff_all s).mpr h

structure Clean (r : Row) : Prop where
  name : NoWs r.name
  alt : NoWs (r.alt.getD [])
  comp : NoWs r.comp
  chain : NoWs (chainId r)
  ins : NoWs (r.ins.getD [])
  id : NoWs r.id
  seq : NoWs r.seq
  x : NoWs r.x
  y : NoWs r.y
  z : NoWs r.z

theorem rowClean_clean {r : Row} (h : RowClean r = true) : Clean r := by
  simp only [RowClean, Bool.and_eq_true] at h
  obtain ⟨⟨⟨⟨⟨⟨⟨⟨⟨h1, h2⟩, h3⟩, h4⟩, h5⟩, h6⟩, h7⟩, h8⟩, h9⟩, h10⟩ := h
  exact ⟨noWs_of_clean h1, noWs_of_clean h2, noWs_of_clean h3, noWs_of_clean h4, noWs_of_clean h5,
    noWs_of_clean h6, noWs_of_clean h7, noWs_of_clean h8, noWs_of_clean h9, noWs_of_clean h10⟩

theorem optField_char {v : Option Str} (h : missing v = true ∨ (v.getD []).length = 1) (hc : NoWs (v.getD [])) :
    ∃ c, optField v = [c] ∧ strip [c] = (if missing v then [] else v.getD []) := by
  unfold optField
  by_cases hm : missing v = true
  · refine ⟨' ', by rw [if_pos hm], ?_⟩
    rw [if_pos hm]; decide
  · rcases h with h | h
    · contradiction
    · obtain ⟨c, hcv⟩ := List.length_eq_one_iff.mp h
      refine ⟨c, by rw [if_neg hm, hcv], ?_⟩
      rw [if_neg hm, hcv]
      exact strip_noWs (hcv ▸ hc)

theorem strip_nameField {n : Str} (h : NoWs n) : strip (nameField n) = n := by
  unfold nameField
  split
  · exact ((padded_ljust n 3).cons_space).strip h
  · exact strip_noWs h

theorem strip_groupField {g : Str} (h : g = str "ATOM" ∨ g = str "HETATM") : strip (ljust g 6) = g := by
  rcases h with h | h <;> subst h <;> decide

theorem cif_record_is_row_core (r : Row) (h : RowOK r = true) (hc : RowClean r = true)
    (i n : Int) (x y z : PyFloat)
    (hi : parseInt? r.id = some i) (hn : parseInt? r.seq = some n)
    (hx : parseFloat? r.x = some x) (hy : parseFloat? r.y = some y) (hz : parseFloat? r.z = some z) :
    parseAtom (r.group = str "HETATM") (assemble r) = .ok (recOfRow r i n x y z) := by
  have hok := rowOK_ok h
  have hcl := rowClean_clean hc
  obtain ⟨c4, e4, s4⟩ := optField_char hok.alt hcl.alt
  obtain ⟨c9, e9, s9⟩ := optField_char hok.ins hcl.ins
  obtain ⟨c7, e7⟩ := List.length_eq_one_iff.mp hok.chain
  have r7 : rjust (chainId r) 1 = [c7] := by rw [rjust_of_ge (by rw [hok.chain]; exact Nat.le_refl _), e7]
  have s7 : strip [c7] = chainId r := by rw [← e7]; exact strip_noWs hcl.chain
  rw [parseAtom_of_columns (decide (r.group = str "HETATM")) (assemble r)
    (ljust r.group 6) (rjust r.id 5) (nameField r.name) (rjust r.comp 3) (rjust r.seq 4)
    (rjust r.x 8) (rjust r.y 8) (rjust r.z 8) c4 c7 c9 i n x y z
    (slice_assemble h 0 rfl rfl rfl (by omega))
    (slice_assemble h 1 rfl rfl rfl (by omega))
    (slice_assemble h 3 rfl rfl rfl (by omega))
    (e4 ▸ slice_assemble h 4 rfl rfl rfl (by omega))
    (slice_assemble h 5 rfl rfl rfl (by omega))
    (r7 ▸ slice_assemble h 7 rfl rfl rfl (by omega))
    (slice_assemble h 8 rfl rfl rfl (by omega))
    (e9 ▸ slice_assemble h 9 rfl rfl rfl (by omega))
    (slice_assemble h 11 rfl rfl rfl (by omega))
    (slice_assemble h 12 rfl rfl rfl (by omega))
    (slice_assemble h 13 rfl rfl rfl (by omega))
    (by rw [parseInt?_rjust_noWs hcl.id, hi])
    (by rw [parseInt?_rjust_noWs hcl.seq, hn])
    (by rw [parseFloat?_rjust_noWs hcl.x, hx])
    (by rw [parseFloat?_rjust_noWs hcl.y, hy])
    (by rw [parseFloat?_rjust_noWs hcl.z, hz])]
  rw [strip_groupField hok.group, strip_nameField hcl.name, s4, s7, s9, strip_rjust hcl.comp]
  rfl


/-! ### models -/

/-- only coordinate records -/
def AtomsOnly (rs : List Rec) : Prop := ∀ x ∈ rs, ∃ a, x = Rec.atom a

theorem rowRec_atom {r : Row} {o : Option Rec} (h : rowRec r = .ok o) : ∀ x ∈ o, ∃ a, x = Rec.atom a := by
  unfold rowRec at h
  split at h
  · split at h
    · cases h; intro x hx; cases hx; exact ⟨_, rfl⟩
    · cases h
  · split at h
    · split at h
      · cases h; intro x hx; cases hx; exact ⟨_, rfl⟩
      · cases h
    · cases h; intro x hx; cases hx

theorem mapM_rowRec_atoms (rows : List Row) : ∀ os, rows.mapM rowRec = .ok os →
    ∀ o ∈ os, ∀ x ∈ o, ∃ a, x = Rec.atom a := by
  induction rows with
  | nil =>
    intro os h
    simp only [List.mapM_nil, pure, Except.pure] at h
    cases h
    intro o ho; cases ho
  | cons r rows ih =>
    intro os h
    rw [List.mapM_cons] at h
    simp only [bind, Except.bind, pure, Except.pure] at h
    split at h
    · cases h
    · rename_i o ho
      split at h
      · cases h
      · rename_i os' hos'
        cases h
        intro o' ho'
        rcases List.mem_cons.mp ho' with rfl | ho'
        · exact rowRec_atom ho
        · exact ih os' hos' o' ho'

theorem rowsRecs_atomsOnly {rows : List Row} {rs : List Rec} (h : rowsRecs rows = .ok rs) : AtomsOnly rs := by
  unfold rowsRecs at h
  simp only [bind, Except.bind, pure, Except.pure] at h
  split at h
  · cases h
  · rename_i os hos
    cases h
    intro x hx
    obtain ⟨o, ho, hox⟩ := List.mem_filterMap.mp hx
    exact mapM_rowRec_atoms rows os hos o ho x (by simpa using hox)

theorem relabel_one (c : Nat) (a : AtomRec) : P2P.Proofs.Pdb.relabel 1 c a = a := by
  unfold P2P.Proofs.Pdb.relabel
  simp

theorem firstModel_atoms (rs tail : List Rec) (h : AtomsOnly rs) (m c : Nat) :
    P2P.Proofs.Pdb.firstModel 1 (rs ++ tail) m c =
      P2P.Proofs.Pdb.atomsOf rs ++ P2P.Proofs.Pdb.firstModel 1 tail m c := by
  induction rs with
  | nil => rfl
  | cons x rs ih =>
    obtain ⟨a, rfl⟩ := h x List.mem_cons_self
    have ih' := ih (fun y hy => h y (List.mem_cons_of_mem _ hy))
    simp only [List.cons_append, P2P.Proofs.Pdb.firstModel, P2P.Proofs.Pdb.atomsOf, relabel_one, ih']

theorem firstModel_atomsOnly (rs : List Rec) (h : AtomsOnly rs) (m c : Nat) :
    P2P.Proofs.Pdb.firstModel 1 rs m c = P2P.Proofs.Pdb.atomsOf rs := by
  have := firstModel_atoms rs [] h m c
  simpa [P2P.Proofs.Pdb.firstModel] using this

/-- the fold of `countModels` keeps what it has and records every model number -/
theorem models_fold (rows : List Row) : ∀ acc : List Str,
    (∀ x ∈ acc, x ∈ rows.foldl (fun acc r => if acc.contains r.model then acc else acc ++ [r.model]) acc) ∧
    (∀ r ∈ rows, r.model ∈ rows.foldl (fun acc r => if acc.contains r.model then acc else acc ++ [r.model]) acc) := by
  induction rows with
  | nil => intro acc; exact ⟨fun x hx => hx, fun r hr => by cases hr⟩
  | cons r rows ih =>
    intro acc
    simp only [List.foldl_cons]
    obtain ⟨h1, h2⟩ := ih (if acc.contains r.model then acc else acc ++ [r.model])
    refine ⟨fun x hx => h1 x ?_, fun r' hr' => ?_⟩
    · split
      · exact hx
      · exact List.mem_append_left _ hx
    · rcases List.mem_cons.mp hr' with rfl | hr'
      · apply h1
        split
        · rename_i hc; simpa using hc
        · simp
      · exact h2 r' hr'

theorem model_mem_countModels {rows : List Row} {r : Row} (h : r ∈ rows) : r.model ∈ countModels rows :=
  (models_fold rows []).2 r h

/-- MODEL j … ENDMDL of one model number -/
def frame (rows : List Row) (acc : List Rec) (j : Str) : Except CErr (List Rec) := do
  let rs ← rowsRecs (rows.filter (·.model = j))
  pure (acc ++ [Rec.model] ++ rs ++ [Rec.other])

theorem atomSite_eq (rows : List Row) :
    atomSite rows = if (countModels rows).length = 1 then rowsRecs rows
      else (countModels rows).foldlM (frame rows) [] := rfl

theorem frame_ok {rows : List Row} {acc recs : List Rec} {j : Str} (h : frame rows acc j = .ok recs) :
    ∃ rs, rowsRecs (rows.filter (·.model = j)) = .ok rs ∧ recs = acc ++ [Rec.model] ++ rs ++ [Rec.other] := by
  unfold frame at h
  simp only [bind, Except.bind, pure, Except.pure] at h
  split at h
  · cases h
  · rename_i rs hrs
    cases h
    exact ⟨rs, hrs, rfl⟩

theorem foldlM_frame (rows : List Row) (js : List Str) : ∀ acc recs, js.foldlM (frame rows) acc = .ok recs →
    ∃ tail, recs = acc ++ tail ∧ (tail = [] ∨ ∃ t, tail = Rec.model :: t) := by
  induction js with
  | nil =>
    intro acc recs h
    simp only [List.foldlM_nil, pure, Except.pure] at h
    cases h
    exact ⟨[], by simp, Or.inl rfl⟩
  | cons j js ih =>
    intro acc recs h
    rw [List.foldlM_cons] at h
    simp only [bind, Except.bind] at h
    split at h
    · cases h
    · rename_i acc' hacc'
      obtain ⟨rs, -, rfl⟩ := frame_ok hacc'
      obtain ⟨tail, rfl, -⟩ := ih _ _ h
      exact ⟨[Rec.model] ++ rs ++ [Rec.other] ++ tail, by simp, Or.inr ⟨_, rfl⟩⟩

theorem firstModel_stop (tail : List Rec) (h : tail = [] ∨ ∃ t, tail = Rec.model :: t) (c : Nat) :
    P2P.Proofs.Pdb.firstModel 1 tail 1 c = [] := by
  rcases h with rfl | ⟨t, rfl⟩
  · rfl
  · simp [P2P.Proofs.Pdb.firstModel]

theorem first_model_only_core (rows : List Row) (recs : List Rec) (h : atomSite rows = .ok recs) :
    ∃ rs1, rowsRecs (rows.filter (·.model = (countModels rows).headD [])) = .ok rs1 ∧
      P2P.Proofs.Pdb.firstModel 1 recs 0 0 = P2P.Proofs.Pdb.atomsOf rs1 := by
  rw [atomSite_eq] at h
  cases hcm : countModels rows with
  | nil =>
    have hrows : rows = [] := by
      cases rows with
      | nil => rfl
      | cons r rows =>
        have := model_mem_countModels (rows := r :: rows) (r := r) List.mem_cons_self
        rw [hcm] at this; cases this
    subst hrows
    rw [hcm] at h
    simp only [List.length_nil, List.foldlM_nil, pure, Except.pure] at h
    rw [if_neg (by decide)] at h
    cases h
    exact ⟨[], rfl, rfl⟩
  | cons m1 rest =>
    rw [hcm] at h
    change ∃ rs1, rowsRecs (rows.filter (·.model = m1)) = .ok rs1 ∧
      P2P.Proofs.Pdb.firstModel 1 recs 0 0 = P2P.Proofs.Pdb.atomsOf rs1
    by_cases h1 : (m1 :: rest).length = 1
    · rw [if_pos h1] at h
      have hrest : rest = [] := by
        cases rest with
        | nil => rfl
        | cons _ _ => simp at h1
      subst hrest
      have hfil : rows.filter (·.model = m1) = rows := by
        rw [List.filter_eq_self]
        intro r hr
        have := model_mem_countModels hr
        rw [hcm] at this
        simpa using this
      rw [hfil]
      exact ⟨recs, h, firstModel_atomsOnly recs (rowsRecs_atomsOnly h) 0 0⟩
    · rw [if_neg h1, List.foldlM_cons] at h
      simp only [bind, Except.bind] at h
      split at h
      · cases h
      · rename_i acc' hacc'
        obtain ⟨rs1, hrs1, rfl⟩ := frame_ok hacc'
        obtain ⟨tail, rfl, htail⟩ := foldlM_frame rows rest _ _ h
        refine ⟨rs1, hrs1, ?_⟩
        simp only [List.nil_append, List.cons_append, List.append_assoc, P2P.Proofs.Pdb.firstModel]
        rw [if_neg (by omega), firstModel_atoms rs1 _ (rowsRecs_atomsOnly hrs1)]
        simp only [P2P.Proofs.Pdb.firstModel, firstModel_stop tail htail, List.append_nil]

end P2P.Proofs.Cif
