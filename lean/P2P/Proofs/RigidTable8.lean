import P2P.Proofs.RigidBase
namespace P2P.Proofs.RigidTable
/-- kernel evaluation of `baseOK` on base definitions 24 … 26 of the regenerated topology -/
theorem chunk8 : chunkOK 8 = true := by decide +kernel
end P2P.Proofs.RigidTable
