import P2P.Proofs.ChargeTableAMBER
import P2P.Proofs.ChargeTableCHARMM
import P2P.Proofs.ChargeTablePARSE
import P2P.Proofs.ChargeTablePEOEPB
import P2P.Proofs.ChargeTableSWANSON
import P2P.Proofs.ChargeTableTYL06

namespace P2P.Proofs.ChargeTable
open P2P P2P.ChargeTable P2P.Topology

theorem tableOK_all : ∀ ff ∈ P2P.Gen.FFCharges.all, tableOK ff = true := by
  intro ff hff
  simp only [P2P.Gen.FFCharges.all, List.mem_cons, List.mem_nil_iff, or_false] at hff
  rcases hff with rfl | rfl | rfl | rfl | rfl | rfl
  · exact ok_AMBER
  · exact ok_CHARMM
  · exact ok_PARSE
  · exact ok_PEOEPB
  · exact ok_SWANSON
  · exact ok_TYL06

theorem coverage_all :
    P2P.Gen.FFCharges.all.map (fun ff => (ff.1, (aminoDefs.filter (cellCovered ff.2)).length)) =
      [("AMBER", 73), ("CHARMM", 83), ("PARSE", 144), ("PEOEPB", 70), ("SWANSON", 73), ("TYL06", 73)] := by
  simp only [P2P.Gen.FFCharges.all, List.map_cons, List.map_nil]
  have h1 := cov_AMBER; have h2 := cov_CHARMM; have h3 := cov_PARSE
  have h4 := cov_PEOEPB; have h5 := cov_SWANSON; have h6 := cov_TYL06
  unfold covered at h1 h2 h3 h4 h5 h6
  rw [h1, h2, h3, h4, h5, h6]

theorem parse_cpro :
    (match P2P.Gen.FFCharges.PARSE.lookup (str "NEUTRAL-CPRO"), findRes P2P.Gen.Topology.residues (str "NEUTRAL-CPRO") with
     | some entries, some r => cellSum entries (atomsFor r)
     | _, _ => none) = some (-12 * 10 ^ (P2P.Gen.FFCharges.unitExp - 2)) := by
  decide +kernel

end P2P.Proofs.ChargeTable
