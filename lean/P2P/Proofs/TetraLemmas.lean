import P2P.Proofs.RigidLemmas

/-!
  The third hydrogen of an XH3 group (`rebuild_tetrahedral`, two hydrogens present): whatever the
  positions of the two existing hydrogens, the position taken is exactly one slot away from the
  first hydrogen and at least half a slot away from the second.
-/
namespace P2P.Proofs.Rigid
open P2P P2P.Geom P2P.Rigid P2P.Proofs.Geom

/-- the first candidate: `h0` turned by 120 degrees -/
noncomputable def cand1 (next bond h0 : V3 ℝ) : V3 ℝ :=
  (rotateTetrahedral next bond (GNum.ofNat 120) [h0]).getD 0 h0

/-- the second candidate: the first one turned by another 120 degrees -/
noncomputable def cand2 (next bond h0 : V3 ℝ) : V3 ℝ :=
  (rotateTetrahedral next bond (GNum.ofNat 120) [cand1 next bond h0]).getD 0 (cand1 next bond h0)

/-- one turn by 120 degrees about the axis `next`-`bond` -/
noncomputable def turn (next bond : V3 ℝ) (p : V3 ℝ) : V3 ℝ := torsionMap next bond (120 : ℝ) p

theorem cand1_eq (next bond h0 : V3 ℝ) : cand1 next bond h0 = turn next bond h0 := by
  simp [cand1, turn, rotateTetrahedral_eq]

theorem cand2_eq (next bond h0 : V3 ℝ) : cand2 next bond h0 = turn next bond (turn next bond h0) := by
  simp [cand2, cand1_eq, turn, rotateTetrahedral_eq]

theorem turn_iso (next bond : V3 ℝ) (h : d2 bond next ≠ 0) (p q : V3 ℝ) :
    d2 (turn next bond p) (turn next bond q) = d2 p q :=
  (torsionMap_rigid_core next bond h (120 : ℝ) p q).1

theorem turn_three (next bond : V3 ℝ) (h : d2 bond next ≠ 0) (p : V3 ℝ) :
    turn next bond (turn next bond (turn next bond p)) = p := by
  unfold turn
  rw [torsionMap_compose next bond h, torsionMap_compose next bond h]
  have e : (120 + 120 + 120 : ℝ) = 360 := by norm_num
  rw [e]
  have := (rotate_full_turn_core next bond h [p]).1
  rw [rotateTetrahedral_eq] at this
  simpa using this

theorem d2_nonneg (a b : V3 ℝ) : 0 ≤ d2 a b := by
  simp only [d2, V3.dot, V3.sub]
  nlinarith [mul_self_nonneg (a.x - b.x), mul_self_nonneg (a.y - b.y), mul_self_nonneg (a.z - b.z)]

/-- parallelogram inequality -/
theorem d2_le_two_two (c1 c2 x : V3 ℝ) : d2 c1 c2 ≤ 2 * d2 c1 x + 2 * d2 c2 x := by
  simp only [d2, V3.dot, V3.sub]
  nlinarith [sq_nonneg (2 * x.x - c1.x - c2.x), sq_nonneg (2 * x.y - c1.y - c2.y),
    sq_nonneg (2 * x.z - c1.z - c2.z)]

theorem dist_eq_sqrt (a b : V3 ℝ) : Geom.dist a b = Real.sqrt (d2 a b) := rfl

theorem thirdHydrogen_eq (next bond h0 h1 : V3 ℝ) :
    thirdHydrogen next bond h0 h1 =
      if Geom.dist h1 (cand2 next bond h0) < Geom.dist h1 (cand1 next bond h0) then cand1 next bond h0
      else cand2 next bond h0 := by
  show (if (decide (_ < _)) = true then _ else _) = _
  simp only [decide_eq_true_eq]
  rfl

/-- the two candidates and the first hydrogen form an equilateral triangle; the position taken is
one of the candidates; it is at least half a side away from the second hydrogen
(`4 |new - h1|^2 >= side^2`), wherever that hydrogen is -/
theorem third_hydrogen_clear_core (next bond h0 h1 : V3 ℝ) (h : d2 bond next ≠ 0) :
    d2 (cand1 next bond h0) h0 = d2 (cand2 next bond h0) (cand1 next bond h0) ∧
    d2 (cand2 next bond h0) h0 = d2 (cand1 next bond h0) h0 ∧
    (thirdHydrogen next bond h0 h1 = cand1 next bond h0 ∨ thirdHydrogen next bond h0 h1 = cand2 next bond h0) ∧
    d2 (cand1 next bond h0) h0 ≤ 4 * d2 (thirdHydrogen next bond h0 h1) h1 := by
  have hI := turn_iso next bond h
  have h3 := turn_three next bond h h0
  have e1 := cand1_eq next bond h0
  have e2 := cand2_eq next bond h0
  have A : d2 (cand1 next bond h0) h0 = d2 (cand2 next bond h0) (cand1 next bond h0) := by
    rw [e2, e1, hI]
  have B : d2 (cand2 next bond h0) h0 = d2 (cand1 next bond h0) h0 := by
    rw [e2, e1]
    calc d2 (turn next bond (turn next bond h0)) h0
        = d2 (turn next bond (turn next bond h0)) (turn next bond (turn next bond (turn next bond h0))) := by
          rw [h3]
      _ = d2 h0 (turn next bond h0) := by rw [hI, hI]
      _ = d2 (turn next bond h0) h0 := d2_comm _ _
  have P := d2_le_two_two (cand1 next bond h0) (cand2 next bond h0) h1
  have A' : d2 (cand1 next bond h0) h0 = d2 (cand1 next bond h0) (cand2 next bond h0) := by
    rw [A, d2_comm]
  refine ⟨A, B, ?_, ?_⟩
  · rw [thirdHydrogen_eq]
    split
    · exact Or.inl rfl
    · exact Or.inr rfl
  · rw [thirdHydrogen_eq]
    rw [dist_eq_sqrt, dist_eq_sqrt, d2_comm h1, d2_comm h1]
    split
    · rename_i hlt
      have : d2 (cand2 next bond h0) h1 ≤ d2 (cand1 next bond h0) h1 := by
        by_contra hc
        exact absurd hlt (not_lt.2 (Real.sqrt_le_sqrt (le_of_lt (not_le.1 hc))))
      linarith
    · rename_i hnlt
      have : d2 (cand1 next bond h0) h1 ≤ d2 (cand2 next bond h0) h1 := by
        by_contra hc
        exact hnlt (Real.sqrt_lt_sqrt (d2_nonneg _ _) (not_le.1 hc))
      linarith

end P2P.Proofs.Rigid
