import P2P.Model.ChargeGuard
import Mathlib.Algebra.Order.Round
import Mathlib.Data.Rat.Floor
import Mathlib.Tactic.Linarith

namespace P2P.Proofs.ChargeGuard
open P2P.ChargeGuard

/-- the rationals as the arithmetic the theorem is about (`round` = nearest integer) -/
instance : RNum ℚ where
  abs x := |x|
  round x := ((round x : ℤ) : ℚ)
  lt a b := decide (a < b)

/-- the guard lets a charge through exactly when it is within the tolerance of some integer -/
theorem nonInteger_spec_core (c tol : ℚ) :
    nonInteger c tol = false ↔ ∃ n : ℤ, |c - (n : ℚ)| ≤ |tol| := by
  have h : nonInteger c tol = decide (|tol| < |c - ((round c : ℤ) : ℚ)|) := rfl
  rw [h, decide_eq_false_iff_not, not_lt]
  constructor
  · intro hle
    exact ⟨round c, hle⟩
  · rintro ⟨n, hn⟩
    exact le_trans (round_le c n) hn

/-- the gate lets a structure through to `repair_heavy` exactly when something is missing and the
missing fraction is at most one tenth -/
theorem repairGate_spec_core (heavy missing : Nat) (lig : Bool) :
    repairGate heavy missing lig = Gate.repair ↔
      0 < heavy ∧ 0 < missing ∧ (missing : ℚ) / (heavy : ℚ) ≤ 1 / 10 := by
  unfold repairGate
  by_cases hh : heavy = 0
  · subst hh
    cases lig <;> simp
  · have hpos : 0 < heavy := Nat.pos_of_ne_zero hh
    have hq : (0 : ℚ) < (heavy : ℚ) := by exact_mod_cast hpos
    rw [if_neg hh]
    by_cases hm : missing = 0
    · subst hm
      simp
    · have hmpos : 0 < missing := Nat.pos_of_ne_zero hm
      rw [if_neg hm]
      have key : (missing : ℚ) / (heavy : ℚ) ≤ 1 / 10 ↔ 10 * missing ≤ heavy := by
        rw [div_le_iff₀ hq]
        constructor
        · intro h
          have h2 : (10 : ℚ) * (missing : ℚ) ≤ (heavy : ℚ) := by linarith
          exact_mod_cast h2
        · intro h
          have h2 : (10 : ℚ) * (missing : ℚ) ≤ (heavy : ℚ) := by exact_mod_cast h
          linarith
      by_cases hgt : 10 * missing > heavy
      · rw [if_pos hgt]
        constructor
        · intro h; cases h
        · rintro ⟨_, _, h3⟩
          have := key.mp h3
          omega
      · rw [if_neg hgt]
        constructor
        · intro _
          exact ⟨hpos, hmpos, key.mpr (by omega)⟩
        · intro _; rfl

end P2P.Proofs.ChargeGuard
