import P2P.Model.ChargeGuard
import Mathlib.Algebra.Order.Round
import Mathlib.Data.Rat.Floor
import Mathlib.Tactic.Linarith

namespace P2P.Proofs.ChargeGuard
open P2P.ChargeGuard

/-- the rationals as the arithmetic the theorem is about (`round` = nearest integer) -/
instance : RNum ℚ where
  abs x := |x|
  round x := ((round x : ℤ) : ℚ)
  lt a b := decide (a < b)

/-- the guard lets a charge through exactly when it is within the tolerance of some integer -/
theorem nonInteger_spec_core (c tol : ℚ) :
    nonInteger c tol = false ↔ ∃ n : ℤ, |c - (n : ℚ)| ≤ |tol| := by
  have h : nonInteger c tol = decide (|tol| < |c - ((round c : ℤ) : ℚ)|) := rfl
  rw [h, decide_eq_false_iff_not, not_lt]
  constructor
  · intro hle
    exact ⟨round c, hle⟩
  · rintro ⟨n, hn⟩
    exact le_trans (round_le c n) hn

end P2P.Proofs.ChargeGuard
