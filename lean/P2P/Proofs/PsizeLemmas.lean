import P2P.Model.Psize
import P2P.Proofs.TextLemmas
import P2P.Proofs.PqrLemmas
import Mathlib.Tactic.Linarith
import Mathlib.Tactic.NormNum
import Mathlib.Tactic.FieldSimp
import Mathlib.Tactic.Ring
import Mathlib.Algebra.Order.Floor.Defs
import Mathlib.Data.Rat.Floor

namespace P2P.Proofs.Psize
open P2P P2P.Psize P2P.Pqr

/-- exact arithmetic: the interpretation of the model the theorems are about -/
noncomputable instance : PNum ℚ where
  dec m e := (m : ℚ) / 10 ^ e
  ofInt i := (i : ℚ)
  lt a b := decide (a < b)
  trunc x := if x < 0 then - ⌊-x⌋ else ⌊x⌋

/-- what `parse_lines` must extract from the line written for atom `a` -/
def expectedLine (a : PAtom) : PLine :=
  PLine.mk (a.type = str "ATOM") (a.type = str "HETATM")
    (some (decOfFix 3 a.x, decOfFix 3 a.y, decOfFix 3 a.z, decOfOptFix4 a.q, decOfOptFix4 a.r))

/-! ### grid -/

theorem grid_legal_core {α : Type} [PNum α] (p : Params α) (mx mn : α) :
    ∃ k : Int, 1 ≤ k ∧ (axis p mx mn).ngrid = 32 * k + 1 := by
  simp only [axis]
  generalize (PNum.trunc (_ : α) : Int) = t
  show ∃ k : Int, 1 ≤ k ∧ max (32 * t + 1) 33 = 32 * k + 1
  by_cases ht : t ≤ 0
  · exact ⟨1, le_refl _, by omega⟩
  · exact ⟨t, by omega, by omega⟩

theorem boxes_enclose_core (p : Params ℚ) (mx mn : ℚ) (hc : 1 ≤ p.cfac) (hf : 0 ≤ p.fadd) (h : mn ≤ mx) :
    let g := axis p mx mn
    g.center = (mx + mn) / 2 ∧
    g.center - g.fine / 2 ≤ mn ∧ mx ≤ g.center + g.fine / 2 ∧
    g.center - g.coarse / 2 ≤ mn ∧ mx ≤ g.center + g.coarse / 2 ∧
    g.fine ≤ g.coarse := by
  have h10 : (PNum.dec 1 1 : ℚ) = 1 / 10 := by simp [PNum.dec]
  have h2 : (PNum.dec 2 0 : ℚ) = 2 := by simp [PNum.dec]
  simp only [axis, pmax, pmin, h10, h2, PNum.lt, decide_eq_true_eq]
  split_ifs with h1 h3 h3
  all_goals refine ⟨trivial, ?_, ?_, ?_, ?_, ?_⟩ <;> nlinarith

/-! ### extent -/

theorem upMin_le_self (m : Option ℚ) (v : ℚ) : upMin m v ≤ v := by
  cases m with
  | none => exact le_refl _
  | some o =>
    simp only [upMin, PNum.lt, decide_eq_true_eq]
    split_ifs with h
    · exact le_refl _
    · exact not_lt.mp h

theorem upMin_le_old (o v : ℚ) : upMin (some o) v ≤ o := by
  simp only [upMin, PNum.lt, decide_eq_true_eq]
  split_ifs with h
  · exact le_of_lt h
  · exact le_refl _

theorem self_le_upMax (m : Option ℚ) (v : ℚ) : v ≤ upMax m v := by
  cases m with
  | none => exact le_refl _
  | some o =>
    simp only [upMax, PNum.lt, decide_eq_true_eq]
    split_ifs with h
    · exact le_refl _
    · exact not_lt.mp h

theorem old_le_upMax (o v : ℚ) : o ≤ upMax (some o) v := by
  simp only [upMax, PNum.lt, decide_eq_true_eq]
  split_ifs with h
  · exact le_of_lt h
  · exact le_refl _

/-- the extent recorded in `a` contains the sphere `(x, y, z, r)` -/
def Cov (a : Acc ℚ) (x y z r : ℚ) : Prop :=
  ∃ mn mx, a.minlen = some mn ∧ a.maxlen = some mx ∧
    mn.1 ≤ x - r ∧ x + r ≤ mx.1 ∧ mn.2.1 ≤ y - r ∧ y + r ≤ mx.2.1 ∧ mn.2.2 ≤ z - r ∧ z + r ≤ mx.2.2

theorem cov_step_new (a : Acc ℚ) (fa fh : Bool) (x y z q r : ℚ) :
    Cov (accStep a fa fh (some (x, y, z, q, r))) x y z r :=
  ⟨_, _, rfl, rfl, upMin_le_self _ _, self_le_upMax _ _, upMin_le_self _ _, self_le_upMax _ _,
    upMin_le_self _ _, self_le_upMax _ _⟩

theorem cov_step_pres {a : Acc ℚ} {x y z r : ℚ} (h : Cov a x y z r) (fa fh : Bool)
    (v : Option (ℚ × ℚ × ℚ × ℚ × ℚ)) : Cov (accStep a fa fh v) x y z r := by
  obtain ⟨mn, mx, h1, h2, b1, b2, b3, b4, b5, b6⟩ := h
  match v with
  | none => exact ⟨mn, mx, h1, h2, b1, b2, b3, b4, b5, b6⟩
  | some (x', y', z', q', r') =>
    refine ⟨_, _, rfl, rfl, ?_, ?_, ?_, ?_, ?_, ?_⟩
    all_goals simp only [h1, h2, Option.map_some]
    · exact le_trans (upMin_le_old _ _) b1
    · exact le_trans b2 (old_le_upMax _ _)
    · exact le_trans (upMin_le_old _ _) b3
    · exact le_trans b4 (old_le_upMax _ _)
    · exact le_trans (upMin_le_old _ _) b5
    · exact le_trans b6 (old_le_upMax _ _)

theorem cov_foldl_pres (ls : List (Bool × Bool × Option (ℚ × ℚ × ℚ × ℚ × ℚ))) {a : Acc ℚ}
    {x y z r : ℚ} (h : Cov a x y z r) :
    Cov (ls.foldl (fun a l => accStep a l.1 l.2.1 l.2.2) a) x y z r := by
  induction ls generalizing a with
  | nil => exact h
  | cons l ls ih => exact ih (cov_step_pres h _ _ _)

theorem cov_foldl (ls : List (Bool × Bool × Option (ℚ × ℚ × ℚ × ℚ × ℚ))) (a : Acc ℚ)
    (x y z q r : ℚ) (fa fh : Bool) (hm : (fa, fh, some (x, y, z, q, r)) ∈ ls) :
    Cov (ls.foldl (fun a l => accStep a l.1 l.2.1 l.2.2) a) x y z r := by
  induction ls generalizing a with
  | nil => simp at hm
  | cons l ls ih =>
    rcases List.mem_cons.mp hm with rfl | hm
    · exact cov_foldl_pres ls (cov_step_new a fa fh x y z q r)
    · exact ih _ hm

theorem extent_covers_core (ls : List (Bool × Bool × Option (ℚ × ℚ × ℚ × ℚ × ℚ)))
    (x y z q r : ℚ) (fa fh : Bool) (hm : (fa, fh, some (x, y, z, q, r)) ∈ ls) :
    ∃ mn mx, (ls.foldl (fun a l => accStep a l.1 l.2.1 l.2.2) acc0).minlen = some mn ∧
      (ls.foldl (fun a l => accStep a l.1 l.2.1 l.2.2) acc0).maxlen = some mx ∧
      mn.1 ≤ x - r ∧ x + r ≤ mx.1 ∧ mn.2.1 ≤ y - r ∧ y + r ≤ mx.2.1 ∧ mn.2.2 ≤ z - r ∧ z + r ≤ mx.2.2 :=
  cov_foldl ls acc0 x y z q r fa fh hm

/-! ### memory estimate, input file -/

theorem memory_matches_core (p : Str) (nx ny nz : Int) :
    (gmem nx ny nz : ℚ) = 200 * nx * ny * nz / 1048576 ∧
    (inputHead p nx ny nz)[5]? = some (str "    dime " ++ intStr nx ++ [' '] ++ intStr ny ++ [' '] ++ intStr nz) := by
  constructor
  · simp only [gmem, PNum.dec, PNum.ofInt]
    norm_num
    ring
  · rfl

theorem splitGo_of_not_mem {sep : Char} {name : Str} (hs : sep ∉ name) (cur : Str) (acc : List Str) :
    splitOnChar.go sep name cur acc = acc.reverse ++ [cur.reverse ++ name] := by
  induction name generalizing cur with
  | nil => simp [splitOnChar.go]
  | cons c name ih =>
    have hc : c ≠ sep := fun h => hs (by simp [h])
    rw [splitOnChar.go, if_neg hc, ih (fun h => hs (List.mem_cons_of_mem _ h))]
    simp

theorem splitGo_append_sep {sep : Char} {name : Str} (hs : sep ∉ name) (dir cur : Str) (acc : List Str) :
    ∃ L, splitOnChar.go sep (dir ++ sep :: name) cur acc = L ++ [name] := by
  induction dir generalizing cur acc with
  | nil =>
    refine ⟨(cur.reverse :: acc).reverse, ?_⟩
    rw [List.nil_append, splitOnChar.go, if_pos rfl, splitGo_of_not_mem hs]
    simp
  | cons c dir ih =>
    rw [List.cons_append, splitOnChar.go]
    split
    · exact ih _ _
    · exact ih _ _

theorem baseName_append (dir name : Str) (hn : name ≠ []) (hs : '/' ∉ name) :
    baseName (dir ++ ['/'] ++ name) = name := by
  obtain ⟨L, hL⟩ := splitGo_append_sep hs dir [] []
  have : dir ++ ['/'] ++ name = dir ++ '/' :: name := by simp
  rw [baseName, splitOnChar, this, hL, List.filter_append]
  simp [hn]

theorem input_names_pqr_core (dir name : Str) (nx ny nz : Int) (hn : name ≠ []) (hs : '/' ∉ name) :
    (inputHead (dir ++ ['/'] ++ name) nx ny nz)[1]? = some (str "    mol pqr " ++ name) := by
  rw [inputHead, baseName_append dir name hn hs]
  rfl

/-! ### line parser -/

theorem header_ignored_core (l : Str) (h1 : startsWith l (str "ATOM") = false) (h2 : startsWith l (str "HETATM") = false) :
    parseLine l = .ok none := by
  simp [parseLine, h1, h2]

section parser
open P2P.Proofs.Text P2P.Proofs.Pqr

/-! ### `replaceMinus` -/

theorem replaceMinus_append (s t : Str) : replaceMinus (s ++ t) = replaceMinus s ++ replaceMinus t := by
  induction s with
  | nil => rfl
  | cons c s ih =>
    rw [List.cons_append, replaceMinus, replaceMinus, ih]
    split <;> rfl

theorem replaceMinus_of_not_mem {s : Str} (h : '-' ∉ s) : replaceMinus s = s := by
  induction s with
  | nil => rfl
  | cons c s ih =>
    have hc : c ≠ '-' := fun e => h (by simp [e])
    rw [replaceMinus, if_neg hc, ih (fun e => h (List.mem_cons_of_mem _ e))]

theorem replaceMinus_cons_space (s : Str) : replaceMinus (' ' :: s) = ' ' :: replaceMinus s := by
  rw [replaceMinus, if_neg (by decide)]

theorem replaceMinus_replicate (k : Nat) : replaceMinus (List.replicate k ' ') = List.replicate k ' ' :=
  replaceMinus_of_not_mem (fun h => absurd (List.mem_replicate.mp h).2 (by decide))

theorem replaceMinus_fmtFix (k : Nat) (v : Fix) :
    replaceMinus (fmtFix k v) = (if v.neg then [' '] else []) ++ fmtFix k v := by
  have hbody : '-' ∉ natStr (v.mag / 10 ^ k) ++ '.' :: zpad (natStr (v.mag % 10 ^ k)) k := by
    intro h
    rcases List.mem_append.mp h with h | h
    · exact ne_minus_of_isDigit (isDigit_of_mem_natStr h) rfl
    · rcases List.mem_cons.mp h with h | h
      · exact absurd h (by decide)
      · exact ne_minus_of_isDigit
          (List.all_eq_true.mp (all_isDigit_zpad (all_isDigit_natStr _) k) _ h) rfl
  rw [fmtFix_eq, List.append_assoc]
  cases v.neg
  · simpa using replaceMinus_of_not_mem hbody
  · simp only [if_true, List.singleton_append]
    rw [replaceMinus, if_pos rfl, replaceMinus_of_not_mem hbody]

/-- after `replace("-", " -")` the field `F` reads: blanks, then the token -/
def Fld (F tok : Str) : Prop := ∃ U, AllWs U ∧ replaceMinus F = U ++ tok
/-- … and there is at least one blank -/
def SepFld (F tok : Str) : Prop := ∃ U, AllWs U ∧ U ≠ [] ∧ replaceMinus F = U ++ tok

theorem SepFld.fld {F tok : Str} (h : SepFld F tok) : Fld F tok := by
  obtain ⟨U, h1, _, h3⟩ := h; exact ⟨U, h1, h3⟩

theorem Fld.cons_space {F tok : Str} (h : Fld F tok) : SepFld (' ' :: F) tok := by
  obtain ⟨U, h1, h3⟩ := h
  exact ⟨' ' :: U, allWs_cons.mpr ⟨isWs_space, h1⟩, by simp, by rw [replaceMinus_cons_space, h3]; rfl⟩

theorem fld_rjust_fmtFix (k : Nat) (v : Fix) (w : Nat) : Fld (rjust (fmtFix k v) w) (fmtFix k v) := by
  refine ⟨List.replicate (w - (fmtFix k v).length) ' ' ++ (if v.neg then [' '] else []), ?_, ?_⟩
  · refine allWs_append.mpr ⟨allWs_replicate _, ?_⟩
    cases v.neg
    · exact allWs_nil
    · exact allWs_cons.mpr ⟨isWs_space, allWs_nil⟩
  · rw [rjust, replaceMinus_append, replaceMinus_replicate, replaceMinus_fmtFix, List.append_assoc]

theorem sepFld_rjust_fmtFix (k : Nat) (v : Fix) (w : Nat)
    (h : ((fmtFix k v).length < w || v.neg) = true) : SepFld (rjust (fmtFix k v) w) (fmtFix k v) := by
  refine ⟨List.replicate (w - (fmtFix k v).length) ' ' ++ (if v.neg then [' '] else []), ?_, ?_, ?_⟩
  · refine allWs_append.mpr ⟨allWs_replicate _, ?_⟩
    cases v.neg
    · exact allWs_nil
    · exact allWs_cons.mpr ⟨isWs_space, allWs_nil⟩
  · simp only [Bool.or_eq_true, decide_eq_true_eq] at h
    rcases h with h | h
    · obtain ⟨n, hn⟩ : ∃ n, w - (fmtFix k v).length = n + 1 := ⟨w - (fmtFix k v).length - 1, by omega⟩
      rw [hn, List.replicate_succ]; simp
    · rw [h]; simp
  · rw [rjust, replaceMinus_append, replaceMinus_replicate, replaceMinus_fmtFix, List.append_assoc]

theorem startsWs_of_allWs_ne_nil {U : Str} (hU : AllWs U) (hne : U ≠ []) (s : Str) : StartsWs (U ++ s) := by
  cases U with
  | nil => exact absurd rfl hne
  | cons c U => exact startsWs_cons (allWs_cons.mp hU).1 _

/-- the five words after column 30 -/
theorem splitWs_replaceMinus5 {X Y Z Q R tx ty tz tq tr : Str}
    (hx : Fld X tx) (hy : SepFld Y ty) (hz : SepFld Z tz) (hq : SepFld Q tq) (hr : SepFld R tr)
    (nx : tx ≠ [] ∧ NoWs tx) (ny : ty ≠ [] ∧ NoWs ty) (nz : tz ≠ [] ∧ NoWs tz)
    (nq : tq ≠ [] ∧ NoWs tq) (nr : tr ≠ [] ∧ NoWs tr) :
    splitWs (replaceMinus (X ++ (Y ++ (Z ++ (Q ++ (R ++ ['\n'])))))) = [tx, ty, tz, tq, tr] := by
  obtain ⟨Ux, ax, ex⟩ := hx
  obtain ⟨Uy, ay, by', ey⟩ := hy
  obtain ⟨Uz, az, bz, ez⟩ := hz
  obtain ⟨Uq, aq, bq, eq⟩ := hq
  obtain ⟨Ur, ar, br, er⟩ := hr
  have hnl : replaceMinus ['\n'] = ['\n'] := by decide
  simp only [replaceMinus_append, ex, ey, ez, eq, er, hnl, List.append_assoc]
  rw [splitWs_allWs_append ax, splitWs_tok_append nx.1 nx.2 (startsWs_of_allWs_ne_nil ay by' _),
    splitWs_allWs_append ay, splitWs_tok_append ny.1 ny.2 (startsWs_of_allWs_ne_nil az bz _),
    splitWs_allWs_append az, splitWs_tok_append nz.1 nz.2 (startsWs_of_allWs_ne_nil aq bq _),
    splitWs_allWs_append aq, splitWs_tok_append nq.1 nq.2 (startsWs_of_allWs_ne_nil ar br _),
    splitWs_allWs_append ar, splitWs_tok_append nr.1 nr.2 (startsWs_cons isWs_newline _),
    splitWs_cons_ws isWs_newline, splitWs_nil]

/-- `parse_lines` on an ATOM/HETATM line with exactly these five words after column 30 -/
theorem parseLine_of_words {line ty w0 w1 w2 w3 w4 : Str} {x y z q r : PyFloat}
    (hty : ty = str "ATOM" ∨ ty = str "HETATM")
    (hA : startsWith line (str "ATOM") = decide (ty = str "ATOM"))
    (hH : startsWith line (str "HETATM") = decide (ty = str "HETATM"))
    (hW : splitWs (replaceMinus (line.drop 30)) = [w0, w1, w2, w3, w4])
    (h0 : parseFloat? w0 = some x) (h1 : parseFloat? w1 = some y) (h2 : parseFloat? w2 = some z)
    (h3 : parseFloat? w3 = some q) (h4 : parseFloat? w4 = some r) :
    parseLine line = .ok (some ⟨decide (ty = str "ATOM"), decide (ty = str "HETATM"), some (x, y, z, q, r)⟩) := by
  have e1 : decide (str "ATOM" = str "HETATM") = false := by decide
  have e2 : decide (str "HETATM" = str "ATOM") = false := by decide
  rcases hty with rfl | rfl
  · simp only [parseLine, hA, hH, hW, h0, h1, h2, h3, h4, e1, decide_true]
    rfl
  · simp only [parseLine, hA, hH, hW, h0, h1, h2, h3, h4, e2, decide_true]
    rfl

/-! ### the two layouts -/

theorem startsWith_type {a : PAtom} (hty : a.type = str "ATOM" ∨ a.type = str "HETATM") (rest : Str) :
    startsWith ((ljust a.type 6).take 6 ++ rest) (str "ATOM") = decide (a.type = str "ATOM") ∧
    startsWith ((ljust a.type 6).take 6 ++ rest) (str "HETATM") = decide (a.type = str "HETATM") := by
  rcases hty with h | h
  · rw [h]
    have e : (ljust (str "ATOM") 6).take 6 = 'A' :: 'T' :: 'O' :: 'M' :: ' ' :: ' ' :: [] := by decide
    rw [e]
    constructor
    · simp [startsWith, str]
    · simp [startsWith, str, List.isPrefixOf]
  · rw [h]
    have e : (ljust (str "HETATM") 6).take 6 = 'H' :: 'E' :: 'T' :: 'A' :: 'T' :: 'M' :: [] := by decide
    rw [e]
    constructor
    · simp [startsWith, str, List.isPrefixOf]
    · simp [startsWith, str]

theorem tok3 (v : Fix) : fmtFix 3 v ≠ [] ∧ NoWs (fmtFix 3 v) := ⟨fmtFix_ne_nil _ _, noWs_fmtFix _ _⟩
theorem tok4 (v : Option Fix) : optFix4 v ≠ [] ∧ NoWs (optFix4 v) := ⟨optFix4_ne_nil _, noWs_optFix4 _⟩

theorem parse_exact_fixed_aux (kc : Bool) (a : PAtom) (h : Fits a = true)
    (hy : ((fmtFix 3 a.y).length < 8 || a.y.neg) = true) (hz : ((fmtFix 3 a.z).length < 8 || a.z.neg) = true)
    (hq : ((optFix4 a.q).length < 8 || (a.q.getD ⟨false, 0⟩).neg) = true)
    (hr : ((optFix4 a.r).length < 7 || (a.r.getD ⟨false, 0⟩).neg) = true) :
    parseLine (fmtPqr kc a ++ ['\n']) = .ok (some (expectedLine a)) := by
  have F := fitsP_of_fits h
  have hline : fmtPqr kc a ++ ['\n'] =
      ((ljust a.type 6).take 6 ++ ((rjust (intStr a.serial) 5).take 5 ++ ([' '] ++ (nameField a.name ++
        (resNameField a.resName ++ ([' '] ++ ((ljust (if kc then a.chain else []) 1).take 1 ++
        ((rjust (intStr a.resSeq) 4).take 4 ++ insField a.ins)))))))) ++
      (coordField a.x ++ (coordField a.y ++ (coordField a.z ++
        ((rjust (optFix4 a.q) 8).take 8 ++ ((rjust (optFix4 a.r) 7).take 7 ++ ['\n']))))) := by
    simp only [fmtPqr, pqrFields_eq, List.flatten_cons, List.flatten_nil, List.append_assoc,
      List.append_nil]
  have hdrop : (fmtPqr kc a ++ ['\n']).drop 30 =
      coordField a.x ++ (coordField a.y ++ (coordField a.z ++
        ((rjust (optFix4 a.q) 8).take 8 ++ ((rjust (optFix4 a.r) 7).take 7 ++ ['\n'])))) := by
    rw [hline]
    apply List.drop_left'
    simp only [List.length_append, List.length_cons, List.length_nil, length_take_ljust,
      length_take_rjust, length_nameField, length_resNameField, length_insField F.ins1]
  have hS : startsWith (fmtPqr kc a ++ ['\n']) (str "ATOM") = decide (a.type = str "ATOM") ∧
      startsWith (fmtPqr kc a ++ ['\n']) (str "HETATM") = decide (a.type = str "HETATM") := by
    rw [hline, List.append_assoc]; exact startsWith_type F.type _
  have hW : splitWs (replaceMinus ((fmtPqr kc a ++ ['\n']).drop 30)) =
      [fmtFix 3 a.x, fmtFix 3 a.y, fmtFix 3 a.z, optFix4 a.q, optFix4 a.r] := by
    rw [hdrop, coordField_eq F.x8, coordField_eq F.y8, coordField_eq F.z8,
      take_rjust_of_le F.q8, take_rjust_of_le F.r7]
    refine splitWs_replaceMinus5 (fld_rjust_fmtFix _ _ _) (sepFld_rjust_fmtFix _ _ _ hy)
      (sepFld_rjust_fmtFix _ _ _ hz) ?_ ?_ (tok3 _) (tok3 _) (tok3 _) (tok4 _) (tok4 _)
    · rw [optFix4_eq]; rw [optFix4_eq] at hq; exact sepFld_rjust_fmtFix _ _ _ hq
    · rw [optFix4_eq]; rw [optFix4_eq] at hr; exact sepFld_rjust_fmtFix _ _ _ hr
  rw [parseLine_of_words F.type hS.1 hS.2 hW (parseFloat?_fmtFix (by decide) _)
    (parseFloat?_fmtFix (by decide) _) (parseFloat?_fmtFix (by decide) _)
    (parseFloat?_optFix4 _) (parseFloat?_optFix4 _)]
  rfl


theorem insField_split {ins : Str} (h : ins.length ≤ 1) :
    ∃ i2 : Str, i2.length = 2 ∧ insField ins = i2 ++ [' ', ' '] := by
  match ins, h with
  | [], _ => exact ⟨[' ', ' '], rfl, by decide⟩
  | [c], _ => exact ⟨[c, ' '], rfl, by simp [insField, str]⟩
  | _ :: _ :: _, h => simp at h

theorem parse_exact_ws_aux (kc : Bool) (a : PAtom) (h : Fits a = true)
    (hq : ((optFix4 a.q).length < 8 || (a.q.getD ⟨false, 0⟩).neg) = true)
    (hr : ((optFix4 a.r).length < 7 || (a.r.getD ⟨false, 0⟩).neg) = true) :
    parseLine (wsRespace (fmtPqr kc a) ++ ['\n']) = .ok (some (expectedLine a)) := by
  have F := fitsP_of_fits h
  obtain ⟨i2, hi2, hins⟩ := insField_split F.ins1
  have hline := wsLine_eq kc a F.ins1
  have hS : startsWith (wsRespace (fmtPqr kc a) ++ ['\n']) (str "ATOM") = decide (a.type = str "ATOM") ∧
      startsWith (wsRespace (fmtPqr kc a) ++ ['\n']) (str "HETATM") = decide (a.type = str "HETATM") := by
    rw [hline]; exact startsWith_type F.type _
  have hdrop : (wsRespace (fmtPqr kc a) ++ ['\n']).drop 30 =
      (' ' :: ' ' :: coordField a.x) ++ ((' ' :: coordField a.y) ++ ((' ' :: coordField a.z) ++
        ((rjust (optFix4 a.q) 8).take 8 ++ ((rjust (optFix4 a.r) 7).take 7 ++ ['\n'])))) := by
    have e : wsRespace (fmtPqr kc a) ++ ['\n'] =
        ((ljust a.type 6).take 6 ++ ' ' :: ((rjust (intStr a.serial) 5).take 5 ++ ' ' ::
        (nameField a.name ++ ' ' :: (resNameField a.resName ++ ' ' ::
        ((ljust (if kc then a.chain else []) 1).take 1 ++ ((rjust (intStr a.resSeq) 4).take 4 ++
        i2)))))) ++
        ((' ' :: ' ' :: coordField a.x) ++ ((' ' :: coordField a.y) ++ ((' ' :: coordField a.z) ++
        ((rjust (optFix4 a.q) 8).take 8 ++ ((rjust (optFix4 a.r) 7).take 7 ++ ['\n']))))) := by
      rw [hline, hins]
      simp only [List.append_assoc, List.cons_append, List.nil_append]
    rw [e]
    apply List.drop_left'
    simp only [List.length_append, List.length_cons, length_take_ljust,
      length_take_rjust, length_nameField, length_resNameField, hi2]
  have hW : splitWs (replaceMinus ((wsRespace (fmtPqr kc a) ++ ['\n']).drop 30)) =
      [fmtFix 3 a.x, fmtFix 3 a.y, fmtFix 3 a.z, optFix4 a.q, optFix4 a.r] := by
    rw [hdrop, coordField_eq F.x8, coordField_eq F.y8, coordField_eq F.z8,
      take_rjust_of_le F.q8, take_rjust_of_le F.r7]
    refine splitWs_replaceMinus5 (fld_rjust_fmtFix _ _ _).cons_space.fld.cons_space.fld
      (fld_rjust_fmtFix _ _ _).cons_space (fld_rjust_fmtFix _ _ _).cons_space
      ?_ ?_ (tok3 _) (tok3 _) (tok3 _) (tok4 _) (tok4 _)
    · rw [optFix4_eq]; rw [optFix4_eq] at hq; exact sepFld_rjust_fmtFix _ _ _ hq
    · rw [optFix4_eq]; rw [optFix4_eq] at hr; exact sepFld_rjust_fmtFix _ _ _ hr
  rw [parseLine_of_words F.type hS.1 hS.2 hW (parseFloat?_fmtFix (by decide) _)
    (parseFloat?_fmtFix (by decide) _) (parseFloat?_fmtFix (by decide) _)
    (parseFloat?_optFix4 _) (parseFloat?_optFix4 _)]
  rfl

end parser

theorem parse_exact_fixed_core (kc : Bool) (a : PAtom) (h : Fits a = true)
    (hy : ((fmtFix 3 a.y).length < 8 || a.y.neg) = true) (hz : ((fmtFix 3 a.z).length < 8 || a.z.neg) = true)
    (hq : ((optFix4 a.q).length < 8 || (a.q.getD ⟨false, 0⟩).neg) = true)
    (hr : ((optFix4 a.r).length < 7 || (a.r.getD ⟨false, 0⟩).neg) = true) :
    parseLine (fmtPqr kc a ++ ['\n']) = .ok (some (expectedLine a)) :=
  parse_exact_fixed_aux kc a h hy hz hq hr

theorem parse_exact_ws_core (kc : Bool) (a : PAtom) (h : Fits a = true)
    (hq : ((optFix4 a.q).length < 8 || (a.q.getD ⟨false, 0⟩).neg) = true)
    (hr : ((optFix4 a.r).length < 7 || (a.r.getD ⟨false, 0⟩).neg) = true) :
    parseLine (wsRespace (fmtPqr kc a) ++ ['\n']) = .ok (some (expectedLine a)) :=
  parse_exact_ws_aux kc a h hq hr

end P2P.Proofs.Psize
