import P2P.Model.Psize
import P2P.Proofs.TextLemmas
import P2P.Proofs.PqrLemmas
import Mathlib.Tactic.Linarith
import Mathlib.Tactic.NormNum
import Mathlib.Tactic.FieldSimp
import Mathlib.Tactic.Ring
import Mathlib.Algebra.Order.Floor.Defs
import Mathlib.Data.Rat.Floor

namespace P2P.Proofs.Psize
open P2P P2P.Psize P2P.Pqr

/-- exact arithmetic: the interpretation of the model the theorems are about -/
noncomputable instance : PNum ℚ where
  dec m e := (m : ℚ) / 10 ^ e
  ofInt i := (i : ℚ)
  lt a b := decide (a < b)
  trunc x := if x < 0 then - ⌊-x⌋ else ⌊x⌋

/-- what `parse_lines` must extract from the line written for atom `a` -/
def expectedLine (a : PAtom) : PLine :=
  PLine.mk (a.type = str "ATOM") (a.type = str "HETATM")
    (some (decOfFix 3 a.x, decOfFix 3 a.y, decOfFix 3 a.z, decOfOptFix4 a.q, decOfOptFix4 a.r))

theorem grid_legal_core {α : Type} [PNum α] (p : Params α) (mx mn : α) :
    ∃ k : Int, 1 ≤ k ∧ (axis p mx mn).ngrid = 32 * k + 1 := by
  sorry

theorem boxes_enclose_core (p : Params ℚ) (mx mn : ℚ) (hc : 1 ≤ p.cfac) (hf : 0 ≤ p.fadd) (h : mn ≤ mx) :
    let g := axis p mx mn
    g.center = (mx + mn) / 2 ∧
    g.center - g.fine / 2 ≤ mn ∧ mx ≤ g.center + g.fine / 2 ∧
    g.center - g.coarse / 2 ≤ mn ∧ mx ≤ g.center + g.coarse / 2 ∧
    g.fine ≤ g.coarse := by
  sorry

theorem extent_covers_core (ls : List (Bool × Bool × Option (ℚ × ℚ × ℚ × ℚ × ℚ)))
    (x y z q r : ℚ) (fa fh : Bool) (hm : (fa, fh, some (x, y, z, q, r)) ∈ ls) :
    ∃ mn mx, (ls.foldl (fun a l => accStep a l.1 l.2.1 l.2.2) acc0).minlen = some mn ∧
      (ls.foldl (fun a l => accStep a l.1 l.2.1 l.2.2) acc0).maxlen = some mx ∧
      mn.1 ≤ x - r ∧ x + r ≤ mx.1 ∧ mn.2.1 ≤ y - r ∧ y + r ≤ mx.2.1 ∧ mn.2.2 ≤ z - r ∧ z + r ≤ mx.2.2 := by
  sorry

theorem memory_matches_core (p : Str) (nx ny nz : Int) :
    (gmem nx ny nz : ℚ) = 200 * nx * ny * nz / 1048576 ∧
    (inputHead p nx ny nz)[5]? = some (str "    dime " ++ intStr nx ++ [' '] ++ intStr ny ++ [' '] ++ intStr nz) := by
  sorry

theorem input_names_pqr_core (dir name : Str) (nx ny nz : Int) (hn : name ≠ []) (hs : '/' ∉ name) :
    (inputHead (dir ++ ['/'] ++ name) nx ny nz)[1]? = some (str "    mol pqr " ++ name) := by
  sorry

theorem header_ignored_core (l : Str) (h1 : startsWith l (str "ATOM") = false) (h2 : startsWith l (str "HETATM") = false) :
    parseLine l = .ok none := by
  sorry

theorem parse_exact_fixed_core (kc : Bool) (a : PAtom) (h : Fits a = true)
    (hy : ((fmtFix 3 a.y).length < 8 || a.y.neg) = true) (hz : ((fmtFix 3 a.z).length < 8 || a.z.neg) = true)
    (hq : ((optFix4 a.q).length < 8 || (a.q.getD ⟨false, 0⟩).neg) = true)
    (hr : ((optFix4 a.r).length < 7 || (a.r.getD ⟨false, 0⟩).neg) = true) :
    parseLine (fmtPqr kc a ++ ['\n']) = .ok (some (expectedLine a)) := by
  sorry

theorem parse_exact_ws_core (kc : Bool) (a : PAtom) (h : Fits a = true)
    (hq : ((optFix4 a.q).length < 8 || (a.q.getD ⟨false, 0⟩).neg) = true)
    (hr : ((optFix4 a.r).length < 7 || (a.r.getD ⟨false, 0⟩).neg) = true) :
    parseLine (wsRespace (fmtPqr kc a) ++ ['\n']) = .ok (some (expectedLine a)) := by
  sorry

end P2P.Proofs.Psize
