import P2P.Proofs.RigidBase
namespace P2P.Proofs.RigidTable
/-- kernel evaluation of `baseOK` on base definitions 12 … 14 of the regenerated topology -/
theorem chunk4 : chunkOK 4 = true := by decide +kernel
end P2P.Proofs.RigidTable
