import P2P.Proofs.RigidBase
namespace P2P.Proofs.RigidTable
/-- kernel evaluation of `baseOK` on base definitions 9 … 11 of the regenerated topology -/
theorem chunk3 : chunkOK 3 = true := by decide +kernel
end P2P.Proofs.RigidTable
