/-
  P2P.Proofs.PqrLemmas — proofs behind property C08 (P2P/Props/C08.lean).

  * `fmtPqr_length`   every written line has 69 characters
  * `roundtrip_fixed` the fixed-column reader recovers every field on `Fits`
  * `roundtrip_ws`    pdb2pqr's token reader recovers every field of the
                      `--whitespace` layout on `FitsWs`

  Model-independent text lemmas live in P2P/Proofs/TextLemmas.lean.
-/
import P2P.Model.Pqr
import P2P.Proofs.TextLemmas
namespace P2P.Proofs.Pqr
open P2P P2P.Pqr P2P.Proofs.Text

theorem clean_iff (s : Str) : clean s = true ↔ NoWs s := (noWs_iff_all s).symm

/-! ### field widths -/

theorem length_coordField (v : Fix) : (coordField v).length = 8 := length_take_ljust _ 8

theorem length_nameField (n : Str) : (nameField n).length = 4 := by
  unfold nameField
  split
  · exact length_take_ljust _ 4
  · rw [List.length_cons, length_take_ljust]

theorem length_resNameField (n : Str) : (resNameField n).length = 4 := by
  unfold resNameField
  split
  · exact length_take_ljust _ 4
  · rw [List.length_cons, length_take_ljust]

theorem length_insField {ins : Str} (h : ins.length ≤ 1) : (insField ins).length = 4 := by
  unfold insField
  split
  · rename_i hne
    have : ins.length ≠ 0 := fun h0 => hne (List.length_eq_zero_iff.mp h0)
    rw [List.length_append]
    have : (str "   ").length = 3 := by decide
    omega
  · decide

/-- the 14 fields of a PQR line. -/
theorem pqrFields_eq (kc : Bool) (a : PAtom) : pqrFields kc a =
    [ (ljust a.type 6).take 6, (rjust (intStr a.serial) 5).take 5, [' '], nameField a.name,
      resNameField a.resName, [' '], (ljust (if kc then a.chain else []) 1).take 1,
      (rjust (intStr a.resSeq) 4).take 4, insField a.ins,
      coordField a.x, coordField a.y, coordField a.z,
      (rjust (optFix4 a.q) 8).take 8, (rjust (optFix4 a.r) 7).take 7 ] := rfl

theorem fmtPqr_length (kc : Bool) (a : PAtom) (h : a.ins.length ≤ 1) : (fmtPqr kc a).length = 69 := by
  simp only [fmtPqr, pqrFields_eq, List.flatten_cons, List.flatten_nil, List.length_append,
    List.length_nil, List.length_cons, length_take_ljust, length_take_rjust, length_nameField,
    length_resNameField, length_insField h, length_coordField]

/-! ### the columns of the written line -/

section columns
variable (kc : Bool) (a : PAtom)

/-- closes `slice (fmtPqr kc a) off (off + w) = field i`. -/
local macro "col" i:num : tactic =>
  `(tactic| (rw [fmtPqr, pqrFields_eq]
             refine slice_flatten_getElem? _ $i rfl ?_ ?_ <;>
             simp [-List.length_take, length_take_ljust, length_take_rjust, length_nameField, length_resNameField,
               length_coordField, *]))

theorem col_type : slice (fmtPqr kc a) 0 6 = (ljust a.type 6).take 6 := by col 0
theorem col_serial : slice (fmtPqr kc a) 6 11 = (rjust (intStr a.serial) 5).take 5 := by col 1
theorem col_sp1 : slice (fmtPqr kc a) 11 12 = [' '] := by col 2
theorem col_name : slice (fmtPqr kc a) 12 16 = nameField a.name := by col 3
theorem col_resName : slice (fmtPqr kc a) 16 20 = resNameField a.resName := by col 4
theorem col_sp2 : slice (fmtPqr kc a) 20 21 = [' '] := by col 5
theorem col_chain : slice (fmtPqr kc a) 21 22 = (ljust (if kc then a.chain else []) 1).take 1 := by
  col 6
theorem col_resSeq : slice (fmtPqr kc a) 22 26 = (rjust (intStr a.resSeq) 4).take 4 := by col 7
theorem col_ins (h : a.ins.length ≤ 1) : slice (fmtPqr kc a) 26 30 = insField a.ins := by
  have := length_insField h
  col 8
theorem col_x (h : a.ins.length ≤ 1) : slice (fmtPqr kc a) 30 38 = coordField a.x := by
  have := length_insField h
  col 9
theorem col_y (h : a.ins.length ≤ 1) : slice (fmtPqr kc a) 38 46 = coordField a.y := by
  have := length_insField h
  col 10
theorem col_z (h : a.ins.length ≤ 1) : slice (fmtPqr kc a) 46 54 = coordField a.z := by
  have := length_insField h
  col 11
theorem col_q (h : a.ins.length ≤ 1) : slice (fmtPqr kc a) 54 62 = (rjust (optFix4 a.q) 8).take 8 := by
  have := length_insField h
  col 12
theorem col_r (h : a.ins.length ≤ 1) : slice (fmtPqr kc a) 62 69 = (rjust (optFix4 a.r) 7).take 7 := by
  have := length_insField h
  col 13

end columns
/-! ### the domain predicates, as propositions -/

structure FitsP (a : PAtom) : Prop where
  type : a.type = str "ATOM" ∨ a.type = str "HETATM"
  serial0 : 0 ≤ a.serial
  serial1 : a.serial < 100000
  name1 : 1 ≤ a.name.length
  name4 : a.name.length ≤ 4
  nameC : NoWs a.name
  resName1 : 1 ≤ a.resName.length
  resName4 : a.resName.length ≤ 4
  resNameC : NoWs a.resName
  chain1 : a.chain.length ≤ 1
  chainC : NoWs a.chain
  resSeq0 : -999 ≤ a.resSeq
  resSeq1 : a.resSeq ≤ 9999
  ins1 : a.ins.length ≤ 1
  insC : NoWs a.ins
  x8 : (fmtFix 3 a.x).length ≤ 8
  y8 : (fmtFix 3 a.y).length ≤ 8
  z8 : (fmtFix 3 a.z).length ≤ 8
  q8 : (optFix4 a.q).length ≤ 8
  r7 : (optFix4 a.r).length ≤ 7

theorem fitsP_of_fits {a : PAtom} (h : Fits a = true) : FitsP a := by
  simp only [Fits, Bool.and_eq_true, Bool.or_eq_true, decide_eq_true_eq, clean_iff] at h
  obtain ⟨⟨⟨⟨⟨⟨⟨⟨h1, h2, h3⟩, ⟨h4, h5⟩, h6⟩, ⟨h7, h8⟩, h9⟩, h10, h11⟩, h12, h13⟩, h14, h15⟩,
    ⟨h16, h17⟩, h18⟩, h19, h20⟩ := h
  exact ⟨h1, h2, h3, h4, h5, h6, h7, h8, h9, h10, h11, h12, h13, h14, h15, h16, h17, h18, h19, h20⟩
/-! ### what each field holds -/

theorem padded_nameField {n : Str} (h : n.length ≤ 4) : Padded (nameField n) n := by
  unfold nameField
  by_cases h4 : n.length = 4
  · rw [if_pos (by simp [h4]), take_ljust_of_length_eq h4]; exact padded_refl n
  · have hs := length_stripChars_le (str "FLIP") n
    rw [if_neg (by simp only [Bool.or_eq_true, decide_eq_true_eq]; omega)]
    exact (padded_take_ljust (by omega)).cons_space

theorem padded_resNameField {n : Str} (h : n.length ≤ 4) : Padded (resNameField n) n := by
  unfold resNameField
  by_cases h4 : n.length = 4
  · rw [if_pos h4, take_ljust_of_length_eq h4]; exact padded_refl n
  · rw [if_neg h4]
    exact (padded_take_ljust (by omega)).cons_space

theorem coordField_eq {v : Fix} (h : (fmtFix 3 v).length ≤ 8) : coordField v = rjust (fmtFix 3 v) 8 := by
  unfold coordField
  exact take_ljust_of_length_eq (length_rjust_of_le h)

theorem padded_coordField {v : Fix} (h : (fmtFix 3 v).length ≤ 8) :
    Padded (coordField v) (fmtFix 3 v) := by
  rw [coordField_eq h]; exact padded_rjust _ _

/-- `None` prints like the fixed-point zero. -/
def optVal (v : Option Fix) : Fix := v.getD ⟨false, 0⟩

theorem optFix4_eq (v : Option Fix) : optFix4 v = fmtFix 4 (optVal v) := by
  cases v with
  | none => decide
  | some f => rfl

theorem decOfOptFix4_eq (v : Option Fix) : decOfOptFix4 v = decOfFix 4 (optVal v) := by
  cases v <;> rfl

theorem parseFloat?_optField {v : Option Fix} {w : Nat} (h : (optFix4 v).length ≤ w) :
    parseFloat? ((rjust (optFix4 v) w).take w) = some (decOfOptFix4 v) := by
  rw [decOfOptFix4_eq]
  have := padded_take_rjust h
  rw [optFix4_eq] at this ⊢
  exact this.parseFloat? (by decide)

theorem length_type_le {a : PAtom} (h : a.type = str "ATOM" ∨ a.type = str "HETATM") :
    a.type.length ≤ 6 := by
  rcases h with h | h <;> rw [h] <;> decide

theorem noWs_type {a : PAtom} (h : a.type = str "ATOM" ∨ a.type = str "HETATM") : NoWs a.type := by
  rw [noWs_iff_all]
  rcases h with h | h <;> rw [h] <;> decide

theorem length_serial_le {a : PAtom} (F : FitsP a) : (intStr a.serial).length ≤ 5 :=
  length_intStr_le_of_nonneg (k := 5) (by decide) F.serial0 F.serial1

theorem length_resSeq_le {a : PAtom} (F : FitsP a) : (intStr a.resSeq).length ≤ 4 :=
  length_intStr_le_of_bounds (k := 3) (by decide)
    (by have := F.resSeq0; show -(1000 : Int) < a.resSeq; omega)
    (by have := F.resSeq1; show a.resSeq < (10000 : Int); omega)

theorem insField_head {ins : Str} (h : ins.length ≤ 1) (hc : NoWs ins) :
    strip (slice (insField ins) 0 1) = ins := by
  match ins, h, hc with
  | [], _, _ => decide
  | [c], _, hc =>
    have : slice (insField [c]) 0 1 = [c] := by simp [insField, slice]
    rw [this]; exact strip_noWs hc
  | _ :: _ :: _, h, _ => simp at h

theorem roundtrip_fixed (kc : Bool) (a : PAtom) (h : Fits a = true) :
    slices (fmtPqr kc a) = some (fieldsOf kc a) := by
  have F := fitsP_of_fits h
  have hi := F.ins1
  have p1 : parseInt? (slice (fmtPqr kc a) 6 11) = some a.serial := by
    rw [col_serial]; exact (padded_take_rjust (length_serial_le F)).parseInt?
  have p2 : parseInt? (slice (fmtPqr kc a) 22 26) = some a.resSeq := by
    rw [col_resSeq]; exact (padded_take_rjust (length_resSeq_le F)).parseInt?
  have p3 : parseFloat? (slice (fmtPqr kc a) 30 38) = some (decOfFix 3 a.x) := by
    rw [col_x kc a hi]; exact (padded_coordField F.x8).parseFloat? (by decide)
  have p4 : parseFloat? (slice (fmtPqr kc a) 38 46) = some (decOfFix 3 a.y) := by
    rw [col_y kc a hi]; exact (padded_coordField F.y8).parseFloat? (by decide)
  have p5 : parseFloat? (slice (fmtPqr kc a) 46 54) = some (decOfFix 3 a.z) := by
    rw [col_z kc a hi]; exact (padded_coordField F.z8).parseFloat? (by decide)
  have p6 : parseFloat? (slice (fmtPqr kc a) 54 62) = some (decOfOptFix4 a.q) := by
    rw [col_q kc a hi]; exact parseFloat?_optField F.q8
  have p7 : parseFloat? (slice (fmtPqr kc a) 62 69) = some (decOfOptFix4 a.r) := by
    rw [col_r kc a hi]; exact parseFloat?_optField F.r7
  have s1 : strip (slice (fmtPqr kc a) 0 6) = a.type := by
    rw [col_type]; exact (padded_take_ljust (length_type_le F.type)).strip (noWs_type F.type)
  have s2 : strip (slice (fmtPqr kc a) 12 16) = a.name := by
    rw [col_name]; exact (padded_nameField F.name4).strip F.nameC
  have s3 : strip (slice (fmtPqr kc a) 16 20) = a.resName := by
    rw [col_resName]; exact (padded_resNameField F.resName4).strip F.resNameC
  have s4 : strip (slice (fmtPqr kc a) 21 22) = if kc then a.chain else [] := by
    rw [col_chain]
    cases kc
    · exact (padded_take_ljust (s := []) (by simp)).strip noWs_nil
    · exact (padded_take_ljust F.chain1).strip F.chainC
  have s5 : strip (slice (fmtPqr kc a) 26 27) = a.ins := by
    have : slice (fmtPqr kc a) 26 27 = slice (slice (fmtPqr kc a) 26 30) 0 1 := by
      rw [slice_slice _ (by decide)]
    rw [this, col_ins kc a hi]; exact insField_head F.ins1 F.insC
  simp only [slices, p1, p2, p3, p4, p5, p6, p7, s1, s2, s3, s4, s5]
  rfl
/-- `from_pqr_line` on a line whose words are the ten tokens without chain id. -/
theorem fromPqrLine_of_tokens {line ty s name resName rs x y z q r : Str}
    {sv rv : Int} {xv yv zv qv rv' : PyFloat}
    (hsplit : splitWs line = [ty, s, name, resName, rs, x, y, z, q, r])
    (hty : ty = str "ATOM" ∨ ty = str "HETATM")
    (hs : parseInt? s = some sv) (hrs : parseInt? rs = some rv)
    (hx : parseFloat? x = some xv) (hy : parseFloat? y = some yv) (hz : parseFloat? z = some zv)
    (hq : parseFloat? q = some qv) (hr : parseFloat? r = some rv') :
    fromPqrLine line =
      .ok (some ⟨ty, sv, name, resName, [], rv, [], xv, yv, zv, qv, rv'⟩) := by
  have hskip : skipTokens.contains ty = false := by
    rcases hty with rfl | rfl <;> decide
  have hty' : (ty = str "ATOM" || ty = str "HETATM") = true := by
    rcases hty with rfl | rfl <;> decide
  simp only [fromPqrLine, hsplit, pop, pyInt, pyFloat, hskip, hty', hs, hrs, hx, hy, hz, hq, hr,
    bind, Except.bind, pure, Except.pure, Bool.false_eq_true, ↓reduceIte]

/-- `from_pqr_line` on a line whose words are the eleven tokens with a chain id
that `int()` rejects. -/
theorem fromPqrLine_of_tokens_chain {line ty s name resName ch rs x y z q r : Str}
    {sv rv : Int} {xv yv zv qv rv' : PyFloat}
    (hsplit : splitWs line = [ty, s, name, resName, ch, rs, x, y, z, q, r])
    (hty : ty = str "ATOM" ∨ ty = str "HETATM")
    (hs : parseInt? s = some sv) (hch : parseInt? ch = none) (hrs : parseInt? rs = some rv)
    (hx : parseFloat? x = some xv) (hy : parseFloat? y = some yv) (hz : parseFloat? z = some zv)
    (hq : parseFloat? q = some qv) (hr : parseFloat? r = some rv') :
    fromPqrLine line =
      .ok (some ⟨ty, sv, name, resName, ch, rv, [], xv, yv, zv, qv, rv'⟩) := by
  have hskip : skipTokens.contains ty = false := by
    rcases hty with rfl | rfl <;> decide
  have hty' : (ty = str "ATOM" || ty = str "HETATM") = true := by
    rcases hty with rfl | rfl <;> decide
  simp only [fromPqrLine, hsplit, pop, pyInt, pyFloat, hskip, hty', hs, hch, hrs, hx, hy, hz, hq, hr,
    bind, Except.bind, pure, Except.pure, Bool.false_eq_true, ↓reduceIte]

/-! ### the whitespace layout -/

structure FitsWsP (kc : Bool) (a : PAtom) : Prop where
  fits : FitsP a
  ins : a.ins = []
  chainOk : kc = true → a.chain ≠ [] →
    (intStr a.resSeq).length ≤ 3 ∧ a.chain.all Char.isDigit = false
  q7 : (optFix4 a.q).length ≤ 7
  r6 : (optFix4 a.r).length ≤ 6

theorem fitsWsP_of_fitsWs {kc : Bool} {a : PAtom} (h : FitsWs kc a = true) : FitsWsP kc a := by
  simp only [FitsWs, Bool.and_eq_true, Bool.or_eq_true, decide_eq_true_eq, Bool.not_eq_true',
    Bool.and_eq_false_imp, decide_eq_false_iff_not, ne_eq, Decidable.not_not] at h
  obtain ⟨⟨⟨h1, h2⟩, h3⟩, h4, h5⟩ := h
  refine ⟨fitsP_of_fits h1, h2, ?_, h4, h5⟩
  intro hk hc
  rcases h3 with h3 | h3
  · exact absurd (h3 hk) hc
  · exact h3

/-- the re-spaced line, field by field. -/
theorem wsLine_eq (kc : Bool) (a : PAtom) (h : a.ins.length ≤ 1) :
    wsRespace (fmtPqr kc a) ++ ['\n'] =
      (ljust a.type 6).take 6 ++ ' ' :: ((rjust (intStr a.serial) 5).take 5 ++ ' ' ::
      (nameField a.name ++ ' ' :: (resNameField a.resName ++ ' ' ::
      ((ljust (if kc then a.chain else []) 1).take 1 ++ ((rjust (intStr a.resSeq) 4).take 4 ++
      (insField a.ins ++ (coordField a.x ++ ' ' :: (coordField a.y ++ ' ' :: (coordField a.z ++
      ((rjust (optFix4 a.q) 8).take 8 ++ ((rjust (optFix4 a.r) 7).take 7 ++ ['\n']))))))))))) := by
  have e2 : slice (fmtPqr kc a) 6 16 =
      (rjust (intStr a.serial) 5).take 5 ++ ([' '] ++ nameField a.name) := by
    rw [← col_serial kc a, ← col_sp1 kc a, ← col_name kc a,
      slice_append_slice _ (by decide) (by decide), slice_append_slice _ (by decide) (by decide)]
  have e3 : slice (fmtPqr kc a) 16 38 =
      resNameField a.resName ++ ([' '] ++ ((ljust (if kc then a.chain else []) 1).take 1 ++
        ((rjust (intStr a.resSeq) 4).take 4 ++ (insField a.ins ++ coordField a.x)))) := by
    rw [← col_resName kc a, ← col_sp2 kc a, ← col_chain kc a, ← col_resSeq kc a, ← col_ins kc a h,
      ← col_x kc a h,
      slice_append_slice _ (by decide) (by decide), slice_append_slice _ (by decide) (by decide),
      slice_append_slice _ (by decide) (by decide), slice_append_slice _ (by decide) (by decide),
      slice_append_slice _ (by decide) (by decide)]
  have e5 : sliceFrom (fmtPqr kc a) 46 =
      coordField a.z ++ ((rjust (optFix4 a.q) 8).take 8 ++ (rjust (optFix4 a.r) 7).take 7) := by
    rw [sliceFrom_eq_slice _ _ (Nat.le_of_eq (fmtPqr_length kc a h)),
      ← col_z kc a h, ← col_q kc a h, ← col_r kc a h,
      slice_append_slice _ (by decide) (by decide), slice_append_slice _ (by decide) (by decide)]
  rw [wsRespace, col_type, e2, e3, col_y kc a h, e5]
  simp only [List.append_assoc, List.cons_append, List.nil_append]

theorem type_ne_nil {a : PAtom} (h : a.type = str "ATOM" ∨ a.type = str "HETATM") : a.type ≠ [] := by
  rcases h with h | h <;> rw [h] <;> decide

theorem ne_nil_of_length_pos {s : Str} (h : 1 ≤ s.length) : s ≠ [] := by
  rintro rfl; simp at h

/-- the first four words -/
theorem splitWs_head {a : PAtom} (F : FitsP a) (R : Str) :
    splitWs ((ljust a.type 6).take 6 ++ ' ' :: ((rjust (intStr a.serial) 5).take 5 ++ ' ' ::
      (nameField a.name ++ ' ' :: (resNameField a.resName ++ ' ' :: R)))) =
    a.type :: intStr a.serial :: a.name :: a.resName :: splitWs R := by
  rw [(padded_take_ljust (length_type_le F.type)).splitWs_append (type_ne_nil F.type)
      (noWs_type F.type) (startsWs_space _), splitWs_cons_ws isWs_space,
    (padded_take_rjust (length_serial_le F)).splitWs_append (intStr_ne_nil _) (noWs_intStr _)
      (startsWs_space _), splitWs_cons_ws isWs_space,
    (padded_nameField F.name4).splitWs_append (ne_nil_of_length_pos F.name1) F.nameC
      (startsWs_space _), splitWs_cons_ws isWs_space,
    (padded_resNameField F.resName4).splitWs_append (ne_nil_of_length_pos F.resName1) F.resNameC
      (startsWs_space _), splitWs_cons_ws isWs_space]

theorem noWs_optFix4 (v : Option Fix) : NoWs (optFix4 v) := by
  rw [optFix4_eq]; exact noWs_fmtFix _ _

theorem optFix4_ne_nil (v : Option Fix) : optFix4 v ≠ [] := by
  rw [optFix4_eq]; exact fmtFix_ne_nil _ _

/-- the words from the residue number on -/
theorem splitWs_tail {kc : Bool} {a : PAtom} (W : FitsWsP kc a) :
    splitWs ((rjust (intStr a.resSeq) 4).take 4 ++
      (insField a.ins ++ (coordField a.x ++ ' ' :: (coordField a.y ++ ' ' :: (coordField a.z ++
      ((rjust (optFix4 a.q) 8).take 8 ++ ((rjust (optFix4 a.r) 7).take 7 ++ ['\n']))))))) =
    [intStr a.resSeq, fmtFix 3 a.x, fmtFix 3 a.y, fmtFix 3 a.z, optFix4 a.q, optFix4 a.r] := by
  have F := W.fits
  have hins : insField a.ins = List.replicate 4 ' ' := by rw [W.ins]; decide
  have hq : (rjust (optFix4 a.q) 8).take 8 = rjust (optFix4 a.q) 8 := take_rjust_of_le F.q8
  have hr : (rjust (optFix4 a.r) 7).take 7 = rjust (optFix4 a.r) 7 := take_rjust_of_le F.r7
  rw [hins, hq, hr,
    (padded_take_rjust (length_resSeq_le F)).splitWs_append (intStr_ne_nil _) (noWs_intStr _)
      (startsWs_blanks_pos (by decide) _),
    splitWs_blanks_append,
    (padded_coordField F.x8).splitWs_append (fmtFix_ne_nil _ _) (noWs_fmtFix _ _)
      (startsWs_space _), splitWs_cons_ws isWs_space,
    (padded_coordField F.y8).splitWs_append (fmtFix_ne_nil _ _) (noWs_fmtFix _ _)
      (startsWs_space _), splitWs_cons_ws isWs_space,
    (padded_coordField F.z8).splitWs_append (fmtFix_ne_nil _ _) (noWs_fmtFix _ _)
      (startsWs_rjust_append (by have := W.q7; omega) _),
    (padded_rjust _ _).splitWs_append (optFix4_ne_nil _) (noWs_optFix4 _)
      (startsWs_rjust_append (by have := W.r6; omega) _),
    (padded_rjust _ _).splitWs_append (optFix4_ne_nil _) (noWs_optFix4 _)
      (startsWs_cons isWs_newline _),
    splitWs_cons_ws isWs_newline, splitWs_nil]

theorem parseFloat?_optFix4 (v : Option Fix) : parseFloat? (optFix4 v) = some (decOfOptFix4 v) := by
  rw [optFix4_eq, decOfOptFix4_eq]; exact parseFloat?_fmtFix (by decide) _

theorem roundtrip_ws (kc : Bool) (a : PAtom) (h : FitsWs kc a = true) :
    fromPqrLine (wsRespace (fmtPqr kc a) ++ ['\n']) = .ok (some (fieldsOf kc a)) := by
  have W := fitsWsP_of_fitsWs h
  have F := W.fits
  have hx := parseFloat?_fmtFix (k := 3) (by decide) a.x
  have hy := parseFloat?_fmtFix (k := 3) (by decide) a.y
  have hz := parseFloat?_fmtFix (k := 3) (by decide) a.z
  by_cases hc : kc = true ∧ a.chain ≠ []
  · -- the chain identifier is a word of its own
    obtain ⟨hk, hne⟩ := hc
    obtain ⟨hlen, hdig⟩ := W.chainOk hk hne
    obtain ⟨c, hch⟩ : ∃ c, a.chain = [c] := by
      match hh : a.chain, F.chain1 with
      | [], _ => exact absurd hh hne
      | [c], _ => exact ⟨c, rfl⟩
      | _ :: _ :: _, h1 => simp at h1
    have hcws : isWs c = false := by
      have := F.chainC; rw [hch] at this; exact noWs_singleton.mp this
    have hcd : c.isDigit = false := by simpa [hch] using hdig
    have hfield : (ljust (if kc then a.chain else []) 1).take 1 = a.chain := by
      rw [hk, if_pos rfl]; exact take_ljust_of_length_eq (by rw [hch]; rfl)
    have hsplit : splitWs (wsRespace (fmtPqr kc a) ++ ['\n']) =
        [a.type, intStr a.serial, a.name, a.resName, a.chain, intStr a.resSeq,
          fmtFix 3 a.x, fmtFix 3 a.y, fmtFix 3 a.z, optFix4 a.q, optFix4 a.r] := by
      rw [wsLine_eq kc a F.ins1, splitWs_head F, hfield,
        splitWs_tok_append hne F.chainC
          (by rw [take_rjust_of_le (length_resSeq_le F)]
              exact startsWs_rjust_append (by omega) _),
        splitWs_tail W]
    rw [fromPqrLine_of_tokens_chain hsplit F.type (parseInt?_intStr _)
      (by rw [hch]; exact parseInt?_singleton_of_not_isDigit hcws hcd) (parseInt?_intStr _)
      hx hy hz (parseFloat?_optFix4 _) (parseFloat?_optFix4 _)]
    simp only [fieldsOf, hk, if_true, W.ins, decOfFix]
  · -- the chain column is blank
    have hch : (if kc then a.chain else []) = [] := by
      cases kc
      · rfl
      · simp only [if_true]
        exact Classical.byContradiction fun hne => hc ⟨rfl, hne⟩
    have hfield : (ljust (if kc then a.chain else []) 1).take 1 = [' '] := by rw [hch]; decide
    have hsplit : splitWs (wsRespace (fmtPqr kc a) ++ ['\n']) =
        [a.type, intStr a.serial, a.name, a.resName, intStr a.resSeq,
          fmtFix 3 a.x, fmtFix 3 a.y, fmtFix 3 a.z, optFix4 a.q, optFix4 a.r] := by
      rw [wsLine_eq kc a F.ins1, splitWs_head F, hfield, List.singleton_append,
        splitWs_cons_ws isWs_space, splitWs_tail W]
    rw [fromPqrLine_of_tokens hsplit F.type (parseInt?_intStr _) (parseInt?_intStr _)
      hx hy hz (parseFloat?_optFix4 _) (parseFloat?_optFix4 _)]
    simp only [fieldsOf, hch, W.ins, decOfFix]

end P2P.Proofs.Pqr
