import P2P.Proofs.ChargeTableBase
namespace P2P.Proofs.ChargeTable
/-- kernel evaluation of the AMBER column of the charge table -/
theorem ok_AMBER : tableOK ("AMBER", P2P.Gen.FFCharges.AMBER) = true := by decide +kernel
theorem cov_AMBER : covered P2P.Gen.FFCharges.AMBER = 73 := by decide +kernel
end P2P.Proofs.ChargeTable
