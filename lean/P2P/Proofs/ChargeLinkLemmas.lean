import P2P.Model.State
import P2P.Model.Termini
import P2P.Model.ChargeTable

/-! The two formal-charge specifications agree: the one C02 states on a residue description
(`Termini.formalCharge`) and the one the kernel-checked charge table uses on the look-up name
(`ChargeTable.formalOfName`). -/
namespace P2P.Proofs.ChargeLink
open P2P P2P.State P2P.Termini P2P.ChargeTable

/-- residue names that stand for a protonation state of their class -/
def stateNames : List (Str × Str) :=
  [(str "ASP", str "ASH"), (str "GLU", str "GLH"), (str "CYS", str "CYX"), (str "CYS", str "CYM"),
   (str "LYS", str "LYN"), (str "TYR", str "TYM"), (str "ARG", str "AR0")]

/-- the (class, name) pairs `formal_by_name_core` speaks about: class name itself or a state name -/
def goodPairs : List (Str × Str) :=
  aminoClasses.map (fun c => (c, c)) ++ stateNames

/-- an `if` on a Boolean is `cond`, whatever the decidability instance (used to get rid of
instances that still mention un-unfolded terms, so that Booleans can be generalised) -/
theorem ite_eq_true_cond {α : Sort _} (b : Bool) [inst : Decidable (b = true)] (x y : α) :
    @ite α (b = true) inst x y = cond b x y := by
  cases b <;> simp

/-- the two specifications agree as `Option`s; after fixing class and name, what is left of the
residue description is a handful of Booleans, and the statement is decided over all of them -/
theorem formal_map_of_good (r : RInfo) (h : (r.cls, r.name) ∈ goodPairs) :
    formalCharge r = (lookupName r).map formalOfName := by
  dsimp only [formalCharge, lookupName, sideState, terminusPrefix, proPrefix]
  simp only [ite_eq_true_cond]
  generalize patched r "NEUTRAL-NTERM" = pNN
  generalize patched r "NEUTRAL-CTERM" = pNC
  generalize patched r "AR0" = p1
  generalize patched r "ASH" = p2
  generalize patched r "CYX" = p3
  generalize patched r "CYM" = p4
  generalize patched r "GLH" = p5
  generalize patched r "LYN" = p6
  generalize patched r "TYM" = p7
  generalize has r "HG" = a1
  generalize has r "HD1" = a2
  generalize has r "HE2" = a3
  generalize r.isNterm = isN
  generalize r.isCterm = isC
  generalize r.ssBonded = ss
  simp only [goodPairs, aminoClasses, stateNames, List.map, List.cons_append, List.nil_append,
    List.mem_cons, Prod.mk.injEq, List.not_mem_nil] at h
  repeat' (rcases h with ⟨hc, hn⟩ | h)
  all_goals first | exact h.elim | skip
  all_goals
    have ha : isAmino r = true := by rw [isAmino, hc]; decide
    simp (config := {decide := true}) only [ha, hc, hn, cond_true, ↓reduceIte]
    decide +revert

/-- for every amino-acid residue description whose name is its class name or a state name of its
class: the formal charge of the residue is the formal charge its look-up name stands for -/
theorem formal_by_name_core (r : RInfo) (ha : isAmino r = true)
    (hname : r.name = r.cls ∨ (r.cls, r.name) ∈ stateNames) (D : Str) (hD : lookupName r = some D) :
    formalCharge r = some (formalOfName D) := by
  have hg : (r.cls, r.name) ∈ goodPairs := by
    simp only [goodPairs, List.mem_append, List.mem_map]
    rcases hname with h | h
    · left
      simp only [isAmino, List.contains_iff_mem] at ha
      exact ⟨r.cls, ha, by rw [h]⟩
    · right; exact h
  rw [formal_map_of_good r hg, hD]
  rfl

end P2P.Proofs.ChargeLink
