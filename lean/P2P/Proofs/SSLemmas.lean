import P2P.Model.SS
import Mathlib.Tactic.Ring

namespace P2P.Proofs.SS
open P2P P2P.SS

variable {α : Type} [DecidableEq α]

/-! ### association-list basics -/

theorem pget_cons (k : α) (v : List α) (ps : Partners α) (a : α) :
    pget ((k, v) :: ps) a = if k = a then v else pget ps a := by
  unfold pget
  by_cases h : k = a <;> simp [h]

theorem pappend_cons (k : α) (v : List α) (ps : Partners α) (a x : α) :
    pappend ((k, v) :: ps) a x
      = (if k = a then (k, v ++ [x]) else (k, v)) :: pappend ps a x := by
  simp [pappend]

theorem keys_pappend (ps : Partners α) (a x : α) :
    (pappend ps a x).map Prod.fst = ps.map Prod.fst := by
  induction ps with
  | nil => rfl
  | cons e ps ih =>
    obtain ⟨k, v⟩ := e
    rw [pappend_cons]
    by_cases h : k = a <;> simp [h, ih]

theorem pget_pappend_ne (ps : Partners α) (a x k : α) (h : k ≠ a) :
    pget (pappend ps a x) k = pget ps k := by
  induction ps with
  | nil => rfl
  | cons e ps ih =>
    obtain ⟨k', v⟩ := e
    rw [pappend_cons]
    by_cases h1 : k' = a
    · subst h1
      have hka : ¬ k' = k := fun e => h e.symm
      simp [pget_cons, hka, ih]
    · by_cases h2 : k' = k
      · subst h2; simp [pget_cons, h1]
      · simp [h1, h2, pget_cons, ih]

theorem pget_pappend_self (ps : Partners α) (a x : α) (h : a ∈ ps.map Prod.fst) :
    pget (pappend ps a x) a = pget ps a ++ [x] := by
  induction ps with
  | nil => simp at h
  | cons e ps ih =>
    obtain ⟨k, v⟩ := e
    rw [pappend_cons]
    by_cases h1 : k = a
    · simp [h1, pget_cons]
    · have h2 : a ∈ ps.map Prod.fst := by
        simp only [List.map_cons, List.mem_cons] at h
        rcases h with h | h
        · exact absurd h.symm h1
        · exact h
      simp [h1, pget_cons, ih h2]

theorem pget_init (l : List α) (x : α) :
    pget (l.map (fun a => (a, ([] : List α)))) x = [] := by
  induction l with
  | nil => rfl
  | cons y l ih =>
    rw [List.map_cons, pget_cons, ih]
    simp

omit [DecidableEq α] in
theorem keys_init (l : List α) :
    (l.map (fun a => (a, ([] : List α)))).map Prod.fst = l := by
  induction l with
  | nil => rfl
  | cons y l ih => rw [List.map_cons, List.map_cons, ih]

/-! ### one step of the inner loop -/

theorem inner_cases (close : α → α → Bool) (c : α) (ps : Partners α) (p : α) :
    inner close c ps p = ps ∨
      (c ≠ p ∧ pget ps c = [] ∧ close c p = true ∧
        inner close c ps p = pappend (pappend ps c p) p c) := by
  unfold inner
  by_cases h1 : c = p
  · left; simp [h1]
  · by_cases h2 : pget ps c = []
    · by_cases h3 : close c p = true
      · right; simp [h1, h2, h3]
      · left; simp [h3]
    · left; simp [h2]

theorem inner_fire (close : α → α → Bool) (c : α) (ps : Partners α) (p : α)
    (h1 : c ≠ p) (h2 : pget ps c = []) (h3 : close c p = true) :
    inner close c ps p = pappend (pappend ps c p) p c := by
  unfold inner
  simp [h1, h2, h3]

theorem inner_of_ne_nil (close : α → α → Bool) (c : α) (ps : Partners α) (p : α)
    (h : pget ps c ≠ []) : inner close c ps p = ps := by
  rcases inner_cases close c ps p with h1 | ⟨_, h2, _⟩
  · exact h1
  · exact absurd h2 h

theorem inner_of_not_close (close : α → α → Bool) (c : α) (ps : Partners α) (p : α)
    (h : close c p = false) : inner close c ps p = ps := by
  rcases inner_cases close c ps p with h1 | ⟨_, _, h3, _⟩
  · exact h1
  · rw [h] at h3; cases h3

theorem inner_self (close : α → α → Bool) (c : α) (ps : Partners α) :
    inner close c ps c = ps := by
  rcases inner_cases close c ps c with h1 | ⟨h0, _⟩
  · exact h1
  · exact absurd rfl h0

theorem keys_inner (close : α → α → Bool) (c : α) (ps : Partners α) (p : α) :
    (inner close c ps p).map Prod.fst = ps.map Prod.fst := by
  rcases inner_cases close c ps p with h1 | ⟨_, _, _, h4⟩
  · rw [h1]
  · rw [h4, keys_pappend, keys_pappend]

theorem keys_foldl_inner (close : α → α → Bool) (c : α) (l : List α) (ps : Partners α) :
    (l.foldl (inner close c) ps).map Prod.fst = ps.map Prod.fst := by
  induction l generalizing ps with
  | nil => rfl
  | cons p l ih => rw [List.foldl_cons, ih, keys_inner]

theorem inner_pget_other (close : α → α → Bool) (c : α) (ps : Partners α) (p k : α)
    (hc : k ≠ c) (hp : k ≠ p) : pget (inner close c ps p) k = pget ps k := by
  rcases inner_cases close c ps p with h1 | ⟨_, _, _, h4⟩
  · rw [h1]
  · rw [h4, pget_pappend_ne _ _ _ _ hp, pget_pappend_ne _ _ _ _ hc]

/-- the list of an atom `k` that is not the scanning atom and not close to it is untouched -/
theorem inner_pget_notclose (close : α → α → Bool) (c : α) (ps : Partners α) (p k : α)
    (hc : k ≠ c) (hn : close c k = false) : pget (inner close c ps p) k = pget ps k := by
  by_cases hp : k = p
  · subst hp; rw [inner_of_not_close _ _ _ _ hn]
  · exact inner_pget_other close c ps p k hc hp

theorem foldl_inner_pget_notclose (close : α → α → Bool) (c : α) (l : List α)
    (ps : Partners α) (k : α) (hc : k ≠ c) (hn : close c k = false) :
    pget (l.foldl (inner close c) ps) k = pget ps k := by
  induction l generalizing ps with
  | nil => rfl
  | cons p l ih => rw [List.foldl_cons, ih, inner_pget_notclose _ _ _ _ _ hc hn]

/-! ### free atoms -/

theorem inner_free (close : α → α → Bool) (a c p : α) (ps : Partners α)
    (hc : c ≠ a → close a c = false ∧ close c a = false)
    (hp : p ≠ a → close a p = false ∧ close p a = false)
    (h : pget ps a = []) : pget (inner close c ps p) a = [] := by
  by_cases hcp : c = p
  · subst hcp; rw [inner_self]; exact h
  · by_cases hac : a = c
    · subst hac
      have hpa : p ≠ a := fun e => hcp e.symm
      rw [inner_of_not_close _ _ _ _ (hp hpa).1]; exact h
    · have hca : c ≠ a := fun e => hac e.symm
      rw [inner_pget_notclose _ _ _ _ _ hac (hc hca).2]; exact h

theorem foldl_inner_free (close : α → α → Bool) (atoms : List α) (a c : α)
    (hfree : ∀ c ∈ atoms, c ≠ a → close a c = false ∧ close c a = false)
    (hc : c ∈ atoms) (l : List α) (hl : ∀ p ∈ l, p ∈ atoms) (ps : Partners α)
    (h : pget ps a = []) : pget (l.foldl (inner close c) ps) a = [] := by
  induction l generalizing ps with
  | nil => exact h
  | cons p l ih =>
    rw [List.foldl_cons]
    apply ih (fun q hq => hl q (List.mem_cons_of_mem _ hq))
    exact inner_free close a c p ps (hfree c hc) (hfree p (hl p List.mem_cons_self)) h

theorem foldl_outer_free (close : α → α → Bool) (atoms : List α) (a : α)
    (hfree : ∀ c ∈ atoms, c ≠ a → close a c = false ∧ close c a = false)
    (l : List α) (hl : ∀ c ∈ l, c ∈ atoms) (ps : Partners α) (h : pget ps a = []) :
    pget (l.foldl (fun ps atom => atoms.foldl (inner close atom) ps) ps) a = [] := by
  induction l generalizing ps with
  | nil => exact h
  | cons c l ih =>
    rw [List.foldl_cons]
    apply ih (fun q hq => hl q (List.mem_cons_of_mem _ hq))
    exact foldl_inner_free close atoms a c hfree (hl c List.mem_cons_self) atoms
      (fun _ hp => hp) ps h

theorem ss_free_untouched_core (close : α → α → Bool) (atoms : List α) (a : α)
    (hfree : ∀ c ∈ atoms, c ≠ a → close a c = false ∧ close c a = false) :
    bridgedWith close atoms a = none ∧ cysOutcome (bridgedWith close atoms a).isSome = (str "CYS", true) := by
  have h : pget (scan close atoms) a = [] :=
    foldl_outer_free close atoms a hfree atoms (fun _ hc => hc) _ (pget_init atoms a)
  have h1 : bridgedWith close atoms a = none := by
    unfold bridgedWith; rw [h]
  refine ⟨h1, ?_⟩
  rw [h1]; rfl

/-! ### isolated pairs -/

/-- both partner lists still empty -/
def St0 (a b : α) (ps : Partners α) : Prop := pget ps a = [] ∧ pget ps b = []
/-- bridged with each other, and nothing else -/
def St2 (a b : α) (ps : Partners α) : Prop := pget ps a = [b] ∧ pget ps b = [a]
def Keyed (a b : α) (ps : Partners α) : Prop := a ∈ ps.map Prod.fst ∧ b ∈ ps.map Prod.fst
def Inv (a b : α) (ps : Partners α) : Prop := Keyed a b ps ∧ (St0 a b ps ∨ St2 a b ps)

theorem St2.swap {a b : α} {ps : Partners α} (h : St2 a b ps) : St2 b a ps := ⟨h.2, h.1⟩
theorem Inv.swap {a b : α} {ps : Partners α} (h : Inv a b ps) : Inv b a ps :=
  ⟨⟨h.1.2, h.1.1⟩, h.2.elim (fun h0 => Or.inl ⟨h0.2, h0.1⟩) (fun h2 => Or.inr h2.swap)⟩

/-- one inner step with scanning atom `a` -/
theorem inner_a_step (close : α → α → Bool) (atoms : List α) (a b : α)
    (hab : a ≠ b) (hc : close a b = true)
    (hisoa : ∀ c ∈ atoms, c ≠ a → c ≠ b → close a c = false)
    (ps : Partners α) (p : α) (hp : p ∈ atoms) (hinv : Inv a b ps) :
    Inv a b (inner close a ps p) ∧ (St2 a b ps → St2 a b (inner close a ps p)) ∧
      (p = b → St2 a b (inner close a ps p)) := by
  by_cases hpb : p = b
  · subst hpb
    rcases hinv with ⟨hk, h0 | h2⟩
    · -- fires
      have h4 := inner_fire close a ps p hab h0.1 hc
      have hk' : p ∈ (pappend ps a p).map Prod.fst := by rw [keys_pappend]; exact hk.2
      have hs : St2 a p (inner close a ps p) := by
        rw [h4]
        refine ⟨?_, ?_⟩
        · rw [pget_pappend_ne _ _ _ _ hab, pget_pappend_self _ _ _ hk.1, h0.1]; rfl
        · rw [pget_pappend_self _ _ _ hk', pget_pappend_ne _ _ _ _ (Ne.symm hab), h0.2]; rfl
      refine ⟨⟨?_, Or.inr hs⟩, fun _ => hs, fun _ => hs⟩
      unfold Keyed; rw [keys_inner]; exact hk
    · have hne : pget ps a ≠ [] := by rw [h2.1]; simp
      rw [inner_of_ne_nil _ _ _ _ hne]
      exact ⟨⟨hk, Or.inr h2⟩, fun _ => h2, fun _ => h2⟩
  · have hsame : inner close a ps p = ps := by
      by_cases hpa : p = a
      · subst hpa; exact inner_self _ _ _
      · exact inner_of_not_close _ _ _ _ (hisoa p hp hpa hpb)
    rw [hsame]
    exact ⟨hinv, fun h => h, fun h => absurd h hpb⟩

/-- the inner loop with scanning atom `a` -/
theorem foldl_inner_a (close : α → α → Bool) (atoms : List α) (a b : α)
    (hab : a ≠ b) (hc : close a b = true)
    (hisoa : ∀ c ∈ atoms, c ≠ a → c ≠ b → close a c = false)
    (l : List α) (hl : ∀ p ∈ l, p ∈ atoms) (ps : Partners α) (hinv : Inv a b ps) :
    Inv a b (l.foldl (inner close a) ps) ∧
      ((St2 a b ps ∨ b ∈ l) → St2 a b (l.foldl (inner close a) ps)) := by
  induction l generalizing ps with
  | nil =>
    refine ⟨hinv, ?_⟩
    rintro (h | h)
    · exact h
    · simp at h
  | cons p l ih =>
    rw [List.foldl_cons]
    obtain ⟨s1, s2, s3⟩ := inner_a_step close atoms a b hab hc hisoa ps p
      (hl p List.mem_cons_self) hinv
    obtain ⟨i1, i2⟩ := ih (fun q hq => hl q (List.mem_cons_of_mem _ hq)) _ s1
    refine ⟨i1, ?_⟩
    rintro (h | h)
    · exact i2 (Or.inl (s2 h))
    · rcases List.mem_cons.1 h with h | h
      · exact i2 (Or.inl (s3 h.symm))
      · exact i2 (Or.inr h)

/-- the inner loop with a scanning atom other than `a`, `b` -/
theorem foldl_inner_other (close : α → α → Bool) (a b c : α)
    (hca : c ≠ a) (hcb : c ≠ b) (hna : close c a = false) (hnb : close c b = false)
    (l : List α) (ps : Partners α) (hinv : Inv a b ps) :
    Inv a b (l.foldl (inner close c) ps) ∧
      (St2 a b ps → St2 a b (l.foldl (inner close c) ps)) := by
  have ea := foldl_inner_pget_notclose close c l ps a (Ne.symm hca) hna
  have eb := foldl_inner_pget_notclose close c l ps b (Ne.symm hcb) hnb
  have ek := keys_foldl_inner close c l ps
  unfold Inv Keyed St0 St2 at *
  rw [ea, eb, ek]
  exact ⟨hinv, fun h => h⟩

theorem foldl_outer_pair (close : α → α → Bool) (atoms : List α) (a b : α)
    (ha : a ∈ atoms) (hb : b ∈ atoms) (hab : a ≠ b)
    (hsym : ∀ x y, close x y = close y x) (hc : close a b = true)
    (hiso : ∀ c ∈ atoms, c ≠ a → c ≠ b → close a c = false ∧ close b c = false)
    (l : List α) (hl : ∀ c ∈ l, c ∈ atoms) (ps : Partners α) (hinv : Inv a b ps) :
    Inv a b (l.foldl (fun ps atom => atoms.foldl (inner close atom) ps) ps) ∧
      ((St2 a b ps ∨ a ∈ l ∨ b ∈ l) →
        St2 a b (l.foldl (fun ps atom => atoms.foldl (inner close atom) ps) ps)) := by
  induction l generalizing ps with
  | nil =>
    refine ⟨hinv, ?_⟩
    rintro (h | h | h)
    · exact h
    · simp at h
    · simp at h
  | cons c l ih =>
    rw [List.foldl_cons]
    have hcm : c ∈ atoms := hl c List.mem_cons_self
    -- the step
    have hstep : Inv a b (atoms.foldl (inner close c) ps) ∧
        ((St2 a b ps ∨ c = a ∨ c = b) → St2 a b (atoms.foldl (inner close c) ps)) := by
      by_cases hca : c = a
      · subst hca
        obtain ⟨i1, i2⟩ := foldl_inner_a close atoms c b hab hc
          (fun d hd h1 h2 => (hiso d hd h1 h2).1) atoms (fun _ h => h) ps hinv
        exact ⟨i1, fun _ => i2 (Or.inr hb)⟩
      · by_cases hcb : c = b
        · subst hcb
          obtain ⟨i1, i2⟩ := foldl_inner_a close atoms c a (Ne.symm hab)
            (by rw [hsym]; exact hc)
            (fun d hd h1 h2 => (hiso d hd h2 h1).2) atoms (fun _ h => h) ps hinv.swap
          exact ⟨i1.swap, fun _ => (i2 (Or.inr ha)).swap⟩
        · obtain ⟨h1, h2⟩ := hiso c hcm hca hcb
          obtain ⟨i1, i2⟩ := foldl_inner_other close a b c hca hcb
            (by rw [hsym]; exact h1) (by rw [hsym]; exact h2) atoms ps hinv
          refine ⟨i1, ?_⟩
          rintro (h | h | h)
          · exact i2 h
          · exact absurd h hca
          · exact absurd h hcb
    obtain ⟨s1, s2⟩ := hstep
    obtain ⟨i1, i2⟩ := ih (fun q hq => hl q (List.mem_cons_of_mem _ hq)) _ s1
    refine ⟨i1, ?_⟩
    rintro (h | h | h)
    · exact i2 (Or.inl (s2 (Or.inl h)))
    · rcases List.mem_cons.1 h with h | h
      · exact i2 (Or.inl (s2 (Or.inr (Or.inl h.symm))))
      · exact i2 (Or.inr (Or.inl h))
    · rcases List.mem_cons.1 h with h | h
      · exact i2 (Or.inl (s2 (Or.inr (Or.inr h.symm))))
      · exact i2 (Or.inr (Or.inr h))

/-- `Nodup` is not needed: `pget` reads the first entry of a key and `pappend` updates all -/
theorem scan_pair (close : α → α → Bool) (atoms : List α) (a b : α)
    (ha : a ∈ atoms) (hb : b ∈ atoms) (hab : a ≠ b)
    (hsym : ∀ x y, close x y = close y x) (hc : close a b = true)
    (hiso : ∀ c ∈ atoms, c ≠ a → c ≠ b → close a c = false ∧ close b c = false) :
    pget (scan close atoms) a = [b] ∧ pget (scan close atoms) b = [a] := by
  have hinv : Inv a b (atoms.map (fun a => (a, ([] : List α)))) := by
    refine ⟨⟨?_, ?_⟩, Or.inl ⟨pget_init atoms a, pget_init atoms b⟩⟩
    · rw [keys_init]; exact ha
    · rw [keys_init]; exact hb
  exact (foldl_outer_pair close atoms a b ha hb hab hsym hc hiso atoms (fun _ h => h) _ hinv).2
    (Or.inr (Or.inl ha))

theorem ss_pair_symmetric_core (close : α → α → Bool) (atoms : List α) (a b : α)
    (hnd : atoms.Nodup) (ha : a ∈ atoms) (hb : b ∈ atoms) (hab : a ≠ b)
    (hsym : ∀ x y, close x y = close y x) (hc : close a b = true)
    (hiso : ∀ c ∈ atoms, c ≠ a → c ≠ b → close a c = false ∧ close b c = false) :
    bridgedWith close atoms a = some b ∧ bridgedWith close atoms b = some a := by
  have _ := hnd
  obtain ⟨h1, h2⟩ := scan_pair close atoms a b ha hb hab hsym hc hiso
  unfold bridgedWith
  rw [h1, h2]
  exact ⟨rfl, rfl⟩

theorem ss_order_independent_core (close : α → α → Bool) (atoms atoms' : List α) (a b : α)
    (hp : atoms.Perm atoms') (hnd : atoms.Nodup) (ha : a ∈ atoms) (hb : b ∈ atoms) (hab : a ≠ b)
    (hsym : ∀ x y, close x y = close y x) (hc : close a b = true)
    (hiso : ∀ c ∈ atoms, c ≠ a → c ≠ b → close a c = false ∧ close b c = false) :
    bridgedWith close atoms' a = bridgedWith close atoms a ∧ bridgedWith close atoms' b = bridgedWith close atoms b := by
  obtain ⟨h1, h2⟩ := ss_pair_symmetric_core close atoms a b hnd ha hb hab hsym hc hiso
  obtain ⟨h1', h2'⟩ := ss_pair_symmetric_core close atoms' a b (hp.nodup_iff.1 hnd)
    (hp.mem_iff.1 ha) (hp.mem_iff.1 hb) hab hsym hc
    (fun c hc' => hiso c (hp.mem_iff.2 hc'))
  rw [h1, h2, h1', h2']
  exact ⟨rfl, rfl⟩

theorem close_symmetric_core (l : Int) (a b : P3) : closeBy l a b = closeBy l b a := by
  have h : distSq a b = distSq b a := by
    unfold distSq; ring
  unfold closeBy
  rw [h]

end P2P.Proofs.SS
