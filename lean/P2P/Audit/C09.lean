import P2P.Props.C09
#print axioms P2P.Props.C09.whitespace_footprint
#print axioms P2P.Props.C09.keep_chain_footprint
#print axioms P2P.Props.C09.header_pdb_apbs_footprint
#print axioms P2P.Props.C09.ffout_after_charges
#print axioms P2P.Props.C09.only_transform_writes
#print axioms P2P.Props.C09.whitespace_changes_spacing_only
