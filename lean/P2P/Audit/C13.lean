import P2P.Props.C13
#print axioms P2P.Props.C13.ss_pair_symmetric
#print axioms P2P.Props.C13.ss_free_untouched
#print axioms P2P.Props.C13.ss_order_independent
#print axioms P2P.Props.C13.bridged_outcome
#print axioms P2P.Props.C13.close_symmetric
#print axioms P2P.Props.C13.limit_documented
