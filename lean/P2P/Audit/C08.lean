import P2P.Text
import P2P.Model.Pqr
import P2P.Props.C08
#print axioms P2P.Props.C08.roundtrip_fixed
#print axioms P2P.Props.C08.roundtrip_ws
#print axioms P2P.Props.C08.line_length
#print axioms P2P.Props.C08.serial_trunc_witness
#print axioms P2P.Props.C08.resseq_trunc_witness
#print axioms P2P.Props.C08.resseq_neg_trunc_witness
#print axioms P2P.Props.C08.coord_trunc_witness
#print axioms P2P.Props.C08.coord_neg_trunc_witness
#print axioms P2P.Props.C08.charge_trunc_witness
#print axioms P2P.Props.C08.radius_trunc_witness
#print axioms P2P.Props.C08.ws_chain_merge_witness
#print axioms P2P.Props.C08.ws_icode_witness
#print axioms P2P.Props.C08.ws_charge_merge_witness
#print axioms P2P.Props.C08.ws_radius_merge_witness
#print axioms P2P.Props.C08.ws_numeric_chain_witness
