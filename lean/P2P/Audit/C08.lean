import P2P.Props.C08
#print axioms P2P.Props.C08.placeholder
