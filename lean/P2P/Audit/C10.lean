import P2P.Props.C10
#print axioms P2P.Props.C10.cif_line_is_pdb_line
#print axioms P2P.Props.C10.cif_pdb_agree
#print axioms P2P.Props.C10.cif_record_is_row
#print axioms P2P.Props.C10.first_model_only
#print axioms P2P.Props.C10.altloc_marker_witness
#print axioms P2P.Props.C10.altloc_icode_name4_witness
#print axioms P2P.Props.C10.auth_chain_witness
#print axioms P2P.Props.C10.model_interleaving_irrelevant
