import P2P.Props.C10
#print axioms P2P.Props.C10.placeholder
