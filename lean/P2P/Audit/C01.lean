import P2P.Props.C01
#print axioms P2P.Props.C01.applyFF_exact
#print axioms P2P.Props.C01.applyFF_partition
#print axioms P2P.Props.C01.build_sound
#print axioms P2P.Props.C01.build_wf
#print axioms P2P.Props.C01.base_last_row_wins
#print axioms P2P.Props.C01.section_rename_spec
#print axioms P2P.Props.C01.section_alias_spec
#print axioms P2P.Props.C01.nterm_priority
#print axioms P2P.Props.C01.pro_nterm
#print axioms P2P.Props.C01.his_by_protons
#print axioms P2P.Props.C01.water_and_other
