import P2P.Props.C17
#print axioms P2P.Props.C17.grid_legal
#print axioms P2P.Props.C17.boxes_enclose
#print axioms P2P.Props.C17.extent_covers
#print axioms P2P.Props.C17.memory_matches
#print axioms P2P.Props.C17.input_names_pqr
#print axioms P2P.Props.C17.header_ignored
#print axioms P2P.Props.C17.parse_exact_fixed
#print axioms P2P.Props.C17.parse_exact_ws
#print axioms P2P.Props.C17.y_merge_witness
#print axioms P2P.Props.C17.z_merge_witness
#print axioms P2P.Props.C17.charge_merge_witness
#print axioms P2P.Props.C17.radius_merge_witness
#print axioms P2P.Props.C17.ws_radius_merge_witness
#print axioms P2P.Props.C17.remark_witness
