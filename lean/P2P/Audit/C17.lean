import P2P.Props.C17
#print axioms P2P.Props.C17.placeholder
