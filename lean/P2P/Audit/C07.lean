import P2P.Props.C07
#print axioms P2P.Props.C07.read_every_atom_line
#print axioms P2P.Props.C07.short_line_same
#print axioms P2P.Props.C07.group_complete
#print axioms P2P.Props.C07.group_error_only_chain_limit
#print axioms P2P.Props.C07.dedupe_first
#print axioms P2P.Props.C07.dropWater_exact
#print axioms P2P.Props.C07.blank_line_witness
#print axioms P2P.Props.C07.repeated_end_witness
#print axioms P2P.Props.C07.drop_water_witness
#print axioms P2P.Props.C07.model_witness
#print axioms P2P.Props.C07.one_ter_is_enough
#print axioms P2P.Props.C07.blank_record_chain_letter
#print axioms P2P.Props.C07.ter_advances_letter
#print axioms P2P.Props.C07.blank_records_separated
#print axioms P2P.Props.C07.blank_ter_witness
