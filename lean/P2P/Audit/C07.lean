import P2P.Props.C07
#print axioms P2P.Props.C07.placeholder
