import P2P.Props.C16
#print axioms P2P.Props.C16.placeholder
