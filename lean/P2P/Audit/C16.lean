import P2P.Props.C16
#print axioms P2P.Props.C16.peoe_conserves
#print axioms P2P.Props.C16.bonded_symmetric
#print axioms P2P.Props.C16.radii_positive
#print axioms P2P.Props.C16.radius_lookup_order
#print axioms P2P.Props.C16.transfer_spec
#print axioms P2P.Props.C16.ligand_only_partial
#print axioms P2P.Props.C16.name_clash_witness
#print axioms P2P.Props.C16.cycles_equivariant
