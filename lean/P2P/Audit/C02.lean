import P2P.Props.C02
#print axioms P2P.Props.C02.placeholder
