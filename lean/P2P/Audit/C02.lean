import P2P.Props.C02
#print axioms P2P.Props.C02.cyclic_none
#print axioms P2P.Props.C02.assign_preserves
#print axioms P2P.Props.C02.peptide_chain_termini
#print axioms P2P.Props.C02.single_residue_termini
#print axioms P2P.Props.C02.cterm_through_trailing
#print axioms P2P.Props.C02.set_termini_chainwise
#print axioms P2P.Props.C02.neutral_nterm_shift
#print axioms P2P.Props.C02.formal_range
#print axioms P2P.Props.C02.charge_table
#print axioms P2P.Props.C02.charge_table_coverage
#print axioms P2P.Props.C02.parse_neutral_cterm_pro_refuted
#print axioms P2P.Props.C02.formal_by_name
#print axioms P2P.Props.C02.residue_charge_from_table
#print axioms P2P.Props.C02.structure_total_integral
#print axioms P2P.Props.C02.integral_total_passes_guard
