import P2P.Props.C06
#print axioms P2P.Props.C06.never_unsupported_residue
#print axioms P2P.Props.C06.one_decision
#print axioms P2P.Props.C06.group_charge_antitone
#print axioms P2P.Props.C06.termini_charge_antitone
#print axioms P2P.Props.C06.total_charge_antitone
#print axioms P2P.Props.C06.side_keys_reach_groups
#print axioms P2P.Props.C06.termini_rows_dropped_witness
