import P2P.Props.C06
#print axioms P2P.Props.C06.placeholder
