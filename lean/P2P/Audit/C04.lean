import P2P.Props.C04
#print axioms P2P.Props.C04.torsion_outside_fixed
#print axioms P2P.Props.C04.torsion_inside
#print axioms P2P.Props.C04.torsionMap_rigid
#print axioms P2P.Props.C04.pair_preserved
#print axioms P2P.Props.C04.rigid_cond_preserves
#print axioms P2P.Props.C04.rigid_table
#print axioms P2P.Props.C04.bases_are_amino
#print axioms P2P.Props.C04.baseOK_spec
#print axioms P2P.Props.C04.variantOK_spec
#print axioms P2P.Props.C04.torsion_change_is_rigid
#print axioms P2P.Props.C04.backbone_never_moveable
#print axioms P2P.Props.C04.coordinate_writers_exact
#print axioms P2P.Props.C04.dynamic_setattr_exact
#print axioms P2P.Props.C04.torsion_reach_closed
#print axioms P2P.Props.C04.torsion_only_under_debump_or_opt
#print axioms P2P.Props.C04.torsion_not_under_clean
