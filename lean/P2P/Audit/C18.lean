import P2P.Props.C18
#print axioms P2P.Props.C18.cube_values
#print axioms P2P.Props.C18.cube_six_per_line
#print axioms P2P.Props.C18.cube_header
#print axioms P2P.Props.C18.dx_values
#print axioms P2P.Props.C18.dx_cube_roundtrip
