import P2P.Props.C18
#print axioms P2P.Props.C18.placeholder
