import P2P.Props.C12
#print axioms P2P.Props.C12.output_opened_only_by_print_pqr
#print axioms P2P.Props.C12.print_after_every_compute_stage
#print axioms P2P.Props.C12.output_path_footprint
#print axioms P2P.Props.C12.charge_check_before_output
#print axioms P2P.Props.C12.checks_first
#print axioms P2P.Props.C12.charge_guard_spec
#print axioms P2P.Props.C12.repair_gate_spec
#print axioms P2P.Props.C12.gate_accepts_iff_usable
#print axioms P2P.Props.C12.userff_without_usernames_refused
#print axioms P2P.Props.C12.missing_file_refused
#print axioms P2P.Props.C12.ph_outside_refused
#print axioms P2P.Props.C12.neutral_termini_need_parse
