import P2P.Props.C11
#print axioms P2P.Props.C11.history_independent
#print axioms P2P.Props.C11.frame_table
#print axioms P2P.Props.C11.defaults_never_mutated
#print axioms P2P.Props.C11.no_hash_order
