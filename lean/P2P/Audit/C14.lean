import P2P.Props.C14
#print axioms P2P.Props.C14.key_interval
#print axioms P2P.Props.C14.close_implies_adjacent
#print axioms P2P.Props.C14.near_complete_static
#print axioms P2P.Props.C14.inv_after_any_history
#print axioms P2P.Props.C14.near_excludes_self
#print axioms P2P.Props.C14.near_exact
#print axioms P2P.Props.C14.near_nodup
#print axioms P2P.Props.C14.near_in_range
#print axioms P2P.Props.C14.near_within_cutoff
#print axioms P2P.Props.C14.cutoff_beyond_cell_size_refuted
