import P2P.Props.C14
#print axioms P2P.Props.C14.placeholder
