import P2P.Props.C15
#print axioms P2P.Props.C15.q2mat_isometry
#print axioms P2P.Props.C15.q2mat_proper
#print axioms P2P.Props.C15.chi_isometry
#print axioms P2P.Props.C15.chi_fixes_axis
#print axioms P2P.Props.C15.normalize_unit
#print axioms P2P.Props.C15.qchichange_rigid
#print axioms P2P.Props.C15.jacobi_unit_quaternion
#print axioms P2P.Props.C15.findCoordinates_rigid
#print axioms P2P.Props.C15.horn_identity
#print axioms P2P.Props.C15.horn_exact
#print axioms P2P.Props.C15.torsion_unit
#print axioms P2P.Props.C15.torsion_rotates
#print axioms P2P.Props.C15.dihedral_value
#print axioms P2P.Props.C15.torsion_set
#print axioms P2P.Props.C15.torsion_sequence
