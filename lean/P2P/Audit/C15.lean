import P2P.Props.C15
#print axioms P2P.Props.C15.placeholder
