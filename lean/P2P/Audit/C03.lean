import P2P.Props.C03
#print axioms P2P.Props.C03.flip_clean
#print axioms P2P.Props.C03.alcoholic_clean
#print axioms P2P.Props.C03.alcoholic_needs_bonds
#print axioms P2P.Props.C03.water_clean
#print axioms P2P.Props.C03.cleanup_spec
#print axioms P2P.Props.C03.written_or_reported
#print axioms P2P.Props.C03.repair_complete
#print axioms P2P.Props.C03.repair_reports
#print axioms P2P.Props.C03.repair_keeps_known
#print axioms P2P.Props.C03.repair_nodup
#print axioms P2P.Props.C03.hydrogens_complete
#print axioms P2P.Props.C03.hydrogens_only_adds
#print axioms P2P.Props.C03.hydrogens_nodup
#print axioms P2P.Props.C03.ash_clean
#print axioms P2P.Props.C03.glh_clean
