import P2P.Props.C03
#print axioms P2P.Props.C03.flip_clean
#print axioms P2P.Props.C03.alcoholic_clean
#print axioms P2P.Props.C03.alcoholic_needs_bonds
#print axioms P2P.Props.C03.water_clean
#print axioms P2P.Props.C03.cleanup_spec
#print axioms P2P.Props.C03.written_or_reported
