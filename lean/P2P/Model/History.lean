/-
  P2P.Model.History — an abstract process that makes runs one after the other.

  `G` is the state that outlives a run, split into named cells. A run reads some cells and
  writes some cells. The frame theorem of C11 is stated over this model; the generated
  inventory (P2P/Gen/ModuleState.lean) instantiates which cells exist and which are written.
-/
namespace P2P.History

variable {Cell I O V : Type}

/-- global state: a value per cell -/
abbrev G (Cell V : Type) := Cell → V

/-- the outputs of a history of runs from an initial state -/
def outputs (step : G Cell V → I → G Cell V × O) : G Cell V → List I → List O
  | _, [] => []
  | g, i :: is => (step g i).2 :: outputs step (step g i).1 is

end P2P.History
