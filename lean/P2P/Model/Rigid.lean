/-
  P2P.Model.Rigid — which atoms a torsion change moves, and what that does to the residue.

  Mirrors biomolecule.py `set_reference_distance` (rank of every atom = bond-path length to CA,
  backbone −1, with the special values for the terminal cap hydrogens), residue.py
  `get_moveable_names` (the atoms attached to the pivot through atoms ranked beyond it),
  debump.py `set_dihedral_angle` on a whole residue (names ↦ coordinates), residue.py
  `rotate_tetrahedral` and optimize.py `make_atom_with_no_bonds`.

  The names-level part runs on the regenerated topology (P2P/Gen/Topology.lean); `RigidCond` is
  the decidable condition under which a torsion change keeps every bond length and bond angle,
  evaluated by the kernel for every residue variant and every torsion of its definition.
-/
import P2P.Model.Topology
import P2P.Model.Geom

namespace P2P.Rigid
open P2P P2P.Topology

/-- `config.BACKBONE` -/
def backbone : List Str :=
  [str "N", str "CA", str "C", str "O", str "O2", str "HA", str "HN", str "H", str "tN"]

/-- pseudo-atoms of the reference that never exist in a residue -/
def pseudo : List Str := [str "N+1", str "C-1"]

/-- the atoms of a complete residue: every reference atom except the pseudo-atoms -/
def fullAtoms (r : ResDef) : List Str := r.names.filter (fun n => !pseudo.contains n)

/-- the heavy atoms only (as after `remove_hydrogens`) -/
def heavyAtoms (r : ResDef) : List Str := (fullAtoms r).filter (fun n => n.head? ≠ some 'H')

/-- `atom.bonds` restricted to the residue: reference bonds whose partner is present
(`Amino.add_atom` links both directions; the reference is symmetric — `bondsSymmetric`) -/
def nbrs (r : ResDef) (present : List Str) (u : Str) : List Str :=
  match r.get? u with
  | some a => a.bonds.filter (fun v => present.contains v)
  | none => []

/-- the reference bond lists are symmetric on the atoms present -/
def bondsSymmetric (r : ResDef) (present : List Str) : Bool :=
  present.all (fun u => (nbrs r present u).all (fun v => (nbrs r present v).contains u))

/-- one breadth-first step: the allowed present atoms, not yet seen, bonded to the frontier -/
def nextLayer (r : ResDef) (present : List Str) (ok : Str → Bool) (seen frontier : List Str) : List Str :=
  present.filter (fun v => !seen.contains v && ok v && frontier.any (fun u => (nbrs r present u).contains v))

/-- breadth-first layers from `frontier`: `(atom, distance)` for every atom reached -/
def bfs (r : ResDef) (present : List Str) (ok : Str → Bool) : Nat → Nat → List Str → List Str → List (Str × Nat)
  | 0, _, _, _ => []
  | fuel + 1, d, seen, frontier =>
    match frontier with
    | [] => []
    | _ =>
      let nxt := nextLayer r present ok seen frontier
      frontier.map (fun u => (u, d)) ++ bfs r present ok fuel (d + 1) (seen ++ nxt) nxt

/-- length of the shortest bond path from each atom to CA inside the residue
(`util.shortest_path`); atoms not listed have none ("Found gap in biomolecule structure") -/
def pathTable (r : ResDef) (present : List Str) : List (Str × Nat) :=
  bfs r present (fun _ => true) (present.length + 1) 0 [str "CA"] [str "CA"]

/-- `atom.refdistance` for every present atom, as `set_reference_distance` assigns it -/
def refTable (r : ResDef) (present : List Str) (isN isC : Bool) : List (Str × Option Int) :=
  let pt := pathTable r present
  present.map (fun u =>
    (u,
     if backbone.contains u then some (-1)
     else if isC && u = str "HO" then some 3
     else if isN && (u = str "H3" || u = str "H2") then some 2
     else (pt.lookup u).map Int.ofNat))

def refDistance (r : ResDef) (present : List Str) (isN isC : Bool) (u : Str) : Option Int :=
  ((refTable r present isN isC).lookup u).join

/-- `Residue.get_moveable_names(pivot)`: atoms reached from the pivot through atoms ranked
beyond it, in residue order -/
def moveable (r : ResDef) (present : List Str) (isN isC : Bool) (pivot : Str) : List Str :=
  let rt := refTable r present isN isC
  match (rt.lookup pivot).join with
  | none => []
  | some dp =>
    let ok (v : Str) : Bool := match (rt.lookup v).join with | some dv => dv > dp | none => false
    let att := (bfs r present ok (present.length + 1) 0 [pivot] [pivot]).map (·.1)
    present.filter (fun u => u ≠ pivot && att.contains u)

/-- the condition under which moving exactly `M` by a rotation about the line through `b` and
`c` cannot change the distance between `u` and `w` -/
def pairOK (b c : Str) (M : List Str) (u w : Str) : Bool :=
  (M.contains u == M.contains w) || (M.contains u && (w = b || w = c)) || (M.contains w && (u = b || u = c))

/-- every bonded pair and every 1-3 pair of the residue is `pairOK` -/
def RigidCond (r : ResDef) (present : List Str) (b c : Str) (M : List Str) : Bool :=
  present.all (fun v => (nbrs r present v).all (fun u =>
    pairOK b c M u v && (nbrs r present v).all (fun w => pairOK b c M u w)))

/-- atoms that must never move in a torsion change: the backbone and the terminal caps -/
def fixedNames : List Str := backbone ++ [str "OXT", str "HO", str "H2", str "H3"]

/-- the check made for one residue definition, one presence pattern and one pair of terminus
flags: for every torsion of the definition whose four atoms are present, the moved set avoids the
backbone and the caps, contains the fourth atom, and satisfies `RigidCond` -/
def variantOK (r : ResDef) (present : List Str) (isN isC : Bool) : Bool :=
  r.dihedrals.all (fun d =>
    match d with
    | [a, b, c, e] =>
      if present.contains a && present.contains b && present.contains c && present.contains e then
        let M := moveable r present isN isC c
        M.all (fun u => !fixedNames.contains u) && M.contains e && !M.contains a && !M.contains b
          && RigidCond r present b c M
      else true
    | _ => false)

/-- amino-acid definitions are those with a CA atom -/
def isAmino (r : ResDef) : Bool := r.has (str "CA")

/-- one residue definition with its terminus flags: complete and heavy-atom-only presence -/
def defOK (r : ResDef) (isN isC : Bool) : Bool :=
  bondsSymmetric r (fullAtoms r) && variantOK r (fullAtoms r) isN isC && variantOK r (heavyAtoms r) isN isC

def applyAll (patches : List PatchDef) (r : ResDef) (names : List Str) : Option ResDef :=
  names.foldl (fun acc pn =>
    match acc, findPatch patches pn with
    | some r, some p => some (applyPatch p r []).1
    | _, _ => none) (some r)

/-- the terminus patch sequences `set_termini` / `set_state` apply at run time -/
def ntermSeqs : List (List Str) := [[], [str "NTERM"], [str "NTERM", str "NEUTRAL-NTERM"]]
def ctermSeqs : List (List Str) := [[], [str "CTERM"], [str "CTERM", str "NEUTRAL-CTERM"]]

/-- the run-time references of one base definition: every combination of terminus patches,
with the terminus flags the code sets alongside -/
def runtimeVariants (patches : List PatchDef) (base : ResDef) : List (Option ResDef × Bool × Bool) :=
  ntermSeqs.flatMap (fun ns => ctermSeqs.map (fun cs => (applyAll patches base (ns ++ cs), !ns.isEmpty, !cs.isEmpty)))

/-- all run-time variants of one base definition pass `defOK` -/
def baseOK (patches : List PatchDef) (base : ResDef) : Bool :=
  !isAmino base || (runtimeVariants patches base).all (fun v =>
    match v.1 with
    | some r => defOK r v.2.1 v.2.2
    | none => false)

/-- base definitions: a definition is a base one when it is not a `<newname>` terminus variant -/
def isBase (canonBase : List Str) (r : ResDef) : Bool := canonBase.contains r.name

/-! ### coordinates -/

open P2P.Geom
variable {α : Type} [GNum α]

/-- squared distance -/
def d2 (p q : V3 α) : α := V3.dot (V3.sub p q) (V3.sub p q)

/-- what `set_dihedral_angle` does to one moved atom: translate by `-o`, rotate by `diff` degrees
about `c - o`, translate back (`o`, `c` are the second and third atom of the torsion) -/
def torsionMap (o c : V3 α) (diff : α) (p : V3 α) : V3 α :=
  V3.add (rotPoint (chiMatrix (V3.normalize (V3.sub c o)) diff) (V3.sub p o)) o

/-- `Debump.set_dihedral_angle` on a residue given as names ↦ coordinates: the atoms of `M` get
the coordinates `setDihedral` computes, in order; all others keep theirs -/
def applyTorsion (r2d small : α) (pos : Str → V3 α) (a b c d : Str) (M : List Str) (angle : α) : Str → V3 α :=
  let newc := setDihedral r2d small (pos a) (pos b) (pos c) (pos d) angle (M.map pos)
  fun u =>
    match M.idxOf? u with
    | some i => newc.getD i (pos u)
    | none => pos u

/-- `Residue.rotate_tetrahedral(atom1, atom2, angle)` on the coordinates of the atoms bonded to
`atom2` other than `atom1` -/
def rotateTetrahedral (a1 a2 : V3 α) (angle : α) (moved : List (V3 α)) : List (V3 α) :=
  (qchichange (V3.sub a2 a1) (moved.map (fun p => V3.sub p a1)) angle).map (fun p => V3.add p a1)

/-- `rebuild_tetrahedral` with two hydrogens present (`h0`, `h1`, bonded to `bond`, whose other
neighbour is `next`): the candidates are `h0` turned by 120 and by 240 degrees about the bond; the
one FARTHER from `h1` is taken (after the repair: before it, the first one unless `h1` was within
0.1 Å of it). The code turns all hydrogens three times by 120 degrees and reads the candidates off
the first one; the three turns put everything back (`rotate_cycle_identity`). -/
def thirdHydrogen (next bond h0 h1 : V3 α) : V3 α :=
  let n1 := (rotateTetrahedral next bond (GNum.ofNat 120) [h0]).getD 0 h0
  let n2 := (rotateTetrahedral next bond (GNum.ofNat 120) [n1]).getD 0 n1
  if GNum.lt (dist h1 n2) (dist h1 n1) then n1 else n2

/-- the rule before the repair -/
def thirdHydrogenOld (next bond h0 h1 : V3 α) : V3 α :=
  let n1 := (rotateTetrahedral next bond (GNum.ofNat 120) [h0]).getD 0 h0
  let n2 := (rotateTetrahedral next bond (GNum.ofNat 120) [n1]).getD 0 n1
  if GNum.lt (GNum.dec 1 1) (dist h1 n1) then n1 else n2

/-- `make_atom_with_no_bonds`: one Ångström from `atom` towards `close` -/
def makeNoBonds (atom close : V3 α) : V3 α :=
  let vec := V3.sub close atom
  let d := dist atom close
  ⟨vec.x / d + atom.x, vec.y / d + atom.y, vec.z / d + atom.z⟩

end P2P.Rigid
