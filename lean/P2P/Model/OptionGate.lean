/-
  P2P.Model.OptionGate — the request gate of `main_driver`: `check_files` then `check_options`
  (main.py), read as a decision function on what the request says and on which of the named files
  exist. "Unusable option or file combination … terminates with an error" (C12) is a statement
  about this function; that nothing has opened the output path before it runs is the skeleton
  theorem of C12 (`gate` precedes every write-open in the regenerated call skeleton).

  A file option is `none` (not given) or `some exists`. The pH is an extended rational in
  thousandths (`--with-ph` is parsed by `float`, so ±inf can be requested).
-/
import P2P.Text

namespace P2P.OptionGate
open P2P

inductive PH where
  | neginf | fin (thousandths : Int) | posinf | nan
deriving Repr, DecidableEq

structure Req where
  usernames : Option Bool
  userff : Option Bool
  ff : Option Str          -- `--ff` (argparse default "PARSE": `none` only for library callers)
  ffDat : Bool             -- `io.test_dat_file(ff)` finds the data file
  ligand : Option Bool
  ph : PH
  neutraln : Bool
  neutralc : Bool
deriving Repr, DecidableEq

inductive Refusal where
  | usernamesMissing | userffMissing | userffWithoutUsernames | ffDatMissing | ligandMissing
  | phRange | neutralnNotParse | neutralcNotParse
deriving Repr, DecidableEq

/-- `(args.ph < 0) or (args.ph > 14)` on Python floats: both comparisons are False for NaN -/
def phOutside : PH → Bool
  | .neginf => true
  | .posinf => true
  | .nan => false
  | .fin t => t < 0 || t > 14000

def isParse (ff : Option Str) : Bool :=
  match ff with
  | none => false
  | some f => lower f = str "parse"

/-- `check_files`: the first exception raised, in source order -/
def checkFiles (r : Req) : Option Refusal :=
  if r.usernames = some false then some .usernamesMissing
  else match r.userff with
    | some false => some .userffMissing
    | some true =>
      if r.usernames = none then some .userffWithoutUsernames
      else if r.ligand = some false then some .ligandMissing else none
    | none =>
      if r.ff.isSome && !r.ffDat then some .ffDatMissing
      else if r.ligand = some false then some .ligandMissing else none

/-- `check_options` -/
def checkOptions (r : Req) : Option Refusal :=
  if phOutside r.ph then some .phRange
  else if r.neutraln && !isParse r.ff then some .neutralnNotParse
  else if r.neutralc && !isParse r.ff then some .neutralcNotParse
  else none

/-- `main_driver`: `check_files(args); check_options(args)` -/
def gate (r : Req) : Option Refusal :=
  match checkFiles r with
  | some e => some e
  | none => checkOptions r

/-- the usable requests, stated outright -/
def Usable (r : Req) : Prop :=
  r.usernames ≠ some false ∧ r.userff ≠ some false ∧ (r.userff = some true → r.usernames = some true) ∧
  (r.userff = none → r.ff.isSome = true → r.ffDat = true) ∧ r.ligand ≠ some false ∧
  phOutside r.ph = false ∧ (r.neutraln = true → isParse r.ff = true) ∧ (r.neutralc = true → isParse r.ff = true)

end P2P.OptionGate
