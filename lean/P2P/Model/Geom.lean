/-
  P2P.Model.Geom — rigid-body fitting and torsion geometry.

  Mirrors quatfit.py (`center`, `translate`, `rotmol`, `q2mat`, `qtrfit`, `jacobi`, `qfit`,
  `qtransform`, `find_coordinates`, `qchichange`), utilities.py (`normalize`, `dihedral`,
  `distance`) and the coordinate part of debump.py `set_dihedral_angle` /
  residue.py `rotate_tetrahedral`. Written once over the arithmetic interface `GNum`:
  the driver instantiates it with `Float` (replaying CPython's arithmetic), the theorems with ℝ.
-/
namespace P2P.Geom

class GNum (α : Type) extends Add α, Sub α, Mul α, Div α, Neg α where
  ofNat : Nat → α
  /-- `m / 10^e` -/
  dec : Nat → Nat → α
  sqrt : α → α
  sin : α → α
  cos : α → α
  acos : α → α
  abs : α → α
  lt : α → α → Bool
  pi : α

variable {α : Type} [GNum α]

local notation "𝟘" => (GNum.ofNat 0 : α)
local notation "𝟙" => (GNum.ofNat 1 : α)
local notation "𝟚" => (GNum.ofNat 2 : α)

structure V3 (α : Type) where
  x : α
  y : α
  z : α
deriving Repr, Inhabited

def V3.add (a b : V3 α) : V3 α := ⟨a.x + b.x, a.y + b.y, a.z + b.z⟩
def V3.sub (a b : V3 α) : V3 α := ⟨a.x - b.x, a.y - b.y, a.z - b.z⟩
def V3.smul (k : α) (a : V3 α) : V3 α := ⟨k * a.x, k * a.y, k * a.z⟩
def V3.dot (a b : V3 α) : α := a.x * b.x + a.y * b.y + a.z * b.z
def V3.cross (a b : V3 α) : V3 α := ⟨a.y * b.z - a.z * b.y, a.z * b.x - a.x * b.z, a.x * b.y - a.y * b.x⟩
def V3.norm (a : V3 α) : α := GNum.sqrt (V3.dot a a)
/-- `utilities.normalize` -/
def V3.normalize (a : V3 α) : V3 α := let n := V3.norm a; ⟨a.x / n, a.y / n, a.z / n⟩
/-- `utilities.distance` -/
def dist (a b : V3 α) : α := V3.norm (V3.sub a b)

/-- a 3×3 matrix by rows: `m r c` -/
structure M3 (α : Type) where
  r0 : V3 α
  r1 : V3 α
  r2 : V3 α
deriving Repr, Inhabited

/-- `rotmol` for one point: `out[c] = Σ_r lrot[r][c] * p[r]` (row vector times matrix) -/
def rotPoint (m : M3 α) (p : V3 α) : V3 α :=
  ⟨m.r0.x * p.x + m.r1.x * p.y + m.r2.x * p.z,
   m.r0.y * p.x + m.r1.y * p.y + m.r2.y * p.z,
   m.r0.z * p.x + m.r1.z * p.y + m.r2.z * p.z⟩

def rotmol (m : M3 α) (ps : List (V3 α)) : List (V3 α) := ps.map (rotPoint m)

/-- `q2mat` -/
def q2mat (q0 q1 q2 q3 : α) : M3 α :=
  ⟨⟨q0 * q0 + q1 * q1 - q2 * q2 - q3 * q3, 𝟚 * (q1 * q2 - q0 * q3), 𝟚 * (q1 * q3 + q0 * q2)⟩,
   ⟨𝟚 * (q2 * q1 + q0 * q3), q0 * q0 - q1 * q1 + q2 * q2 - q3 * q3, 𝟚 * (q2 * q3 - q0 * q1)⟩,
   ⟨𝟚 * (q3 * q1 - q0 * q2), 𝟚 * (q3 * q2 + q0 * q1), q0 * q0 - q1 * q1 - q2 * q2 + q3 * q3⟩⟩

/-- `center`: centroid (left fold from 0.0, then `/ numpoints`) and centred points -/
def center (ps : List (V3 α)) : V3 α × List (V3 α) :=
  let s := ps.foldl (fun (acc : V3 α) p => ⟨acc.x + p.x, acc.y + p.y, acc.z + p.z⟩) ⟨𝟘, 𝟘, 𝟘⟩
  let n : α := GNum.ofNat ps.length
  let c : V3 α := ⟨s.x / n, s.y / n, s.z / n⟩
  (c, ps.map (fun p => V3.sub p c))

/-- `qchichange`'s matrix for a unit axis `l` and angle in degrees -/
def chiMatrix (l : V3 α) (angle : α) : M3 α :=
  let rad := GNum.pi * angle / (GNum.dec 1800 1 : α)
  let c := GNum.cos rad
  let s := GNum.sin rad
  let omc := 𝟙 - c
  -- right[r][c] as assigned in the code
  ⟨⟨c + l.x * l.x * omc, l.y * l.x * omc + l.z * s, l.z * l.x * omc - l.y * s⟩,
   ⟨l.x * l.y * omc - l.z * s, c + l.y * l.y * omc, l.z * l.y * omc + l.x * s⟩,
   ⟨l.x * l.z * omc + l.y * s, l.y * l.z * omc - l.x * s, c + l.z * l.z * omc⟩⟩

/-- `qchichange(initcoords, refcoords, angle)` -/
def qchichange (axis : V3 α) (ps : List (V3 α)) (angle : α) : List (V3 α) :=
  rotmol (chiMatrix (V3.normalize axis) angle) ps

/-! ### quaternion fit -/

/-- 4×4 symmetric matrix, upper triangle only (the code never writes the lower one) -/
structure Sym4 (α : Type) where
  a00 : α
  a01 : α
  a02 : α
  a03 : α
  a11 : α
  a12 : α
  a13 : α
  a22 : α
  a23 : α
  a33 : α
deriving Repr, Inhabited

/-- the nine sums and `cmat` of `qtrfit` -/
def cmat (defs refs : List (V3 α)) : Sym4 α :=
  let z : α := GNum.dec 0 0
  let s := (defs.zip refs).foldl
    (fun (acc : (α × α × α) × (α × α × α) × (α × α × α)) (dr : V3 α × V3 α) =>
      let d := dr.1; let r := dr.2
      ((acc.1.1 + d.x * r.x, acc.1.2.1 + d.x * r.y, acc.1.2.2 + d.x * r.z),
       (acc.2.1.1 + d.y * r.x, acc.2.1.2.1 + d.y * r.y, acc.2.1.2.2 + d.y * r.z),
       (acc.2.2.1 + d.z * r.x, acc.2.2.2.1 + d.z * r.y, acc.2.2.2.2 + d.z * r.z)))
    ((z, z, z), (z, z, z), (z, z, z))
  let xxyx := s.1.1; let xxyy := s.1.2.1; let xxyz := s.1.2.2
  let xyyx := s.2.1.1; let xyyy := s.2.1.2.1; let xyyz := s.2.1.2.2
  let xzyx := s.2.2.1; let xzyy := s.2.2.2.1; let xzyz := s.2.2.2.2
  { a00 := xxyx + xyyy + xzyz, a01 := xzyy - xyyz, a02 := xxyz - xzyx, a03 := xyyx - xxyy,
    a11 := xxyx - xyyy - xzyz, a12 := xxyy + xyyx, a13 := xzyx + xxyz,
    a22 := xyyy - xzyz - xxyx, a23 := xyyz + xzyy, a33 := xzyz - xxyx - xyyy }

/-- the mutable state of `jacobi`: `amat` as a full 4×4 array (the code reads and writes
`amat[i][j]` for arbitrary index pairs), `vmat`, `dvec` -/
structure JState (α : Type) where
  a : Nat → Nat → α
  v : Nat → Nat → α
  d : Nat → α

def setA (s : JState α) (i j : Nat) (x : α) : JState α :=
  { s with a := fun p q => if p = i ∧ q = j then x else s.a p q }
def setV (s : JState α) (i j : Nat) (x : α) : JState α :=
  { s with v := fun p q => if p = i ∧ q = j then x else s.v p q }
def setD (s : JState α) (i : Nat) (x : α) : JState α :=
  { s with d := fun p => if p = i then x else s.d p }

def jinit (c : Sym4 α) : JState α :=
  let z : α := GNum.dec 0 0
  let a : Nat → Nat → α := fun i j =>
    match i, j with
    | 0, 0 => c.a00 | 0, 1 => c.a01 | 0, 2 => c.a02 | 0, 3 => c.a03
    | 1, 1 => c.a11 | 1, 2 => c.a12 | 1, 3 => c.a13
    | 2, 2 => c.a22 | 2, 3 => c.a23 | 3, 3 => c.a33
    | _, _ => z
  { a, v := fun i j => if i = j then GNum.dec 10 1 else z, d := fun i => a i i }

/-- one Givens rotation on the pair `(i, j)`, `i < j` -/
def jrot (s : JState α) (i j : Nat) : JState α :=
  let z : α := GNum.dec 0 0
  let bscl := s.a i j
  if GNum.lt z (GNum.abs bscl) then
    let dma := s.d j - s.d i
    let tscl : α :=
      if !(GNum.lt (GNum.abs dma) (GNum.abs dma + GNum.abs bscl)) then bscl / dma
      else
        let qscl := (GNum.dec 5 1 : α) * dma / bscl
        let t := (GNum.dec 10 1 : α) / (GNum.abs qscl + GNum.sqrt ((GNum.ofNat 1 : α) + qscl * qscl))
        if GNum.lt qscl z then t * (-(GNum.ofNat 1 : α)) else t
    let cscl := (GNum.dec 10 1 : α) / GNum.sqrt (tscl * tscl + (GNum.ofNat 1 : α))
    let sscl := tscl * cscl
    let s := setA s i j z
    let s := (List.range i).foldl (fun s k =>
      let atemp := cscl * s.a k i - sscl * s.a k j
      let s := setA s k j (sscl * s.a k i + cscl * s.a k j)
      setA s k i atemp) s
    let s := ((List.range j).drop (i + 1)).foldl (fun s k =>
      let atemp := cscl * s.a i k - sscl * s.a k j
      let s := setA s k j (sscl * s.a i k + cscl * s.a k j)
      setA s i k atemp) s
    let s := ((List.range 4).drop (j + 1)).foldl (fun s k =>
      let atemp := cscl * s.a i k - sscl * s.a j k
      let s := setA s j k (sscl * s.a i k + cscl * s.a j k)
      setA s i k atemp) s
    let s := (List.range 4).foldl (fun s k =>
      let vtemp := cscl * s.v k i - sscl * s.v k j
      let s := setV s k j (sscl * s.v k i + cscl * s.v k j)
      setV s k i vtemp) s
    let dtemp := cscl * cscl * s.d i + sscl * sscl * s.d j - (GNum.dec 20 1 : α) * cscl * sscl * bscl
    let s := setD s j (sscl * sscl * s.d i + cscl * cscl * s.d j + (GNum.dec 20 1 : α) * cscl * sscl * bscl)
    setD s i dtemp
  else s

def pairs : List (Nat × Nat) := [(0, 1), (0, 2), (1, 2), (0, 3), (1, 3), (2, 3)]   -- for j in 1..3: for i in 0..j-1

def converged (s : JState α) : Bool :=
  let z : α := GNum.dec 0 0
  let dnorm := (List.range 4).foldl (fun acc j => acc + GNum.abs (s.d j)) z
  -- the code accumulates onorm inside the same j loop: for j: dnorm += …; for i < j: onorm += |a[i][j]|
  let onorm := (List.range 4).foldl (fun acc j => (List.range j).foldl (fun acc i => acc + GNum.abs (s.a i j)) acc) z
  (GNum.lt dnorm z || GNum.lt z dnorm) && !(GNum.lt (GNum.dec 1 12 : α) (onorm / dnorm))

/-- the sweep loop -/
def jsweeps : Nat → JState α → JState α
  | 0, s => s
  | n + 1, s => if converged s then s else jsweeps n (pairs.foldl (fun s (ij : Nat × Nat) => jrot s ij.1 ij.2) s)

/-- the final selection sort of eigenvalues (ascending), columns of `vmat` swapped along -/
def jsort (s : JState α) : JState α :=
  (List.range 3).foldl (fun s j =>
    let (k, dtemp) := ((List.range 4).drop (j + 1)).foldl (fun (kd : Nat × α) i =>
      if GNum.lt (s.d i) kd.2 then (i, s.d i) else kd) (j, s.d j)
    if k > j then
      let s := setD (setD s k (s.d j)) j dtemp
      (List.range 4).foldl (fun s i =>
        let t := s.v i k
        setV (setV s i k (s.v i j)) i j t) s
    else s) s

def jacobi (c : Sym4 α) (nrot : Nat) : JState α := jsort (jsweeps nrot (jinit c))

/-- `qtrfit`: quaternion = last column of `vmat` (largest eigenvalue) -/
def qtrfit (defs refs : List (V3 α)) (nrot : Nat) : (α × α × α × α) × M3 α :=
  let s := jacobi (cmat defs refs) nrot
  let q := (s.v 0 3, s.v 1 3, s.v 2 3, s.v 3 3)
  (q, q2mat q.1 q.2.1 q.2.2.1 q.2.2.2)

/-- `find_coordinates(numpoints, refcoords, defcoords, defatomcoords)` -/
def findCoordinates (refs defs : List (V3 α)) (defatom : V3 α) : V3 α :=
  let (refcenter, refc) := center refs
  let (defcenter, defc) := center defs
  let (_, lrot) := qtrfit defc refc 30
  V3.add (rotPoint lrot (V3.sub defatom defcenter)) refcenter

/-! ### torsions -/

/-- `utilities.dihedral` (numpy) in degrees; `r2d` is RADIANS_TO_DEGREES, `small` SMALL_NUMBER -/
def dihedral (r2d small : α) (c1 c2 c3 c4 : V3 α) : α :=
  let d43 := V3.sub c4 c3
  let d32 := V3.sub c3 c2
  let d12 := V3.sub c1 c2
  let a := V3.normalize (V3.cross d12 d32)
  let b := V3.normalize (V3.cross d43 d32)
  let scal := V3.dot a b
  let one : α := GNum.dec 10 1
  let value : α :=
    if GNum.lt (GNum.abs (scal + one)) small then GNum.dec 1800 1
    else if GNum.lt (GNum.abs (scal - one)) small then GNum.dec 0 0
    else r2d * GNum.acos scal
  let chiral := V3.dot (V3.cross a b) d32
  if GNum.lt chiral (GNum.dec 0 0) then value * (-(GNum.dec 10 1 : α)) else value

/-- coordinate part of `Debump.set_dihedral_angle`: `difference = angle - old`; moved atoms are
translated by `-atom2`, rotated about `atom3 - atom2`, translated back -/
def setDihedral (r2d small : α) (c1 c2 c3 c4 : V3 α) (angle : α) (moved : List (V3 α)) : List (V3 α) :=
  let old := dihedral r2d small c1 c2 c3 c4
  let diff := angle - old
  let axis := V3.sub c3 c2
  let rel := moved.map (fun p => V3.sub p c2)
  (qchichange axis rel diff).map (fun p => V3.add p c2)

end P2P.Geom
