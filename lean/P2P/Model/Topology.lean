/-
  P2P.Model.Topology — residue topology definitions and run-time patches.

  Data types for the tables generated from AA.xml / NA.xml / PATCHES.xml
  (P2P/Gen/Topology.lean) and `applyPatch`, the functional reading of
  `Biomolecule.apply_patch` on a (reference, present atom names) pair.
  Coordinates are integers in micro-Ångströms (the XML has at most six decimals).
-/
import P2P.Text

namespace P2P.Topology
open P2P

structure AtomDef where
  name : Str
  x : Int
  y : Int
  z : Int
  bonds : List Str
deriving Repr, DecidableEq, Inhabited

structure ResDef where
  name : Str
  atoms : List AtomDef
  dihedrals : List (List Str)
deriving Repr, DecidableEq, Inhabited

structure PatchDef where
  name : Str
  atoms : List AtomDef        -- atoms to add
  remove : List Str
  altnames : List (Str × Str)
  dihedrals : List (List Str)
deriving Repr, DecidableEq, Inhabited

def ResDef.names (r : ResDef) : List Str := r.atoms.map (·.name)
def ResDef.has (r : ResDef) (n : Str) : Bool := r.atoms.any (·.name = n)
def ResDef.get? (r : ResDef) (n : Str) : Option AtomDef := r.atoms.find? (·.name = n)

def findRes (rs : List ResDef) (n : Str) : Option ResDef := rs.find? (·.name = n)
def findPatch (ps : List PatchDef) (n : Str) : Option PatchDef := ps.find? (·.name = n)

/-- `map[name] = atom` on the ordered atom dictionary -/
def setAtom (as : List AtomDef) (a : AtomDef) : List AtomDef :=
  if as.any (·.name = a.name) then as.map (fun b => if b.name = a.name then a else b) else as ++ [a]

def addBond (as : List AtomDef) (atom bond : Str) : List AtomDef :=
  as.map (fun a => if a.name = atom && !a.bonds.contains bond then { a with bonds := a.bonds ++ [bond] } else a)

def delBond (as : List AtomDef) (atom bond : Str) : List AtomDef :=
  as.map (fun a => if a.name = atom then { a with bonds := a.bonds.erase bond } else a)

/-- add phase of `apply_patch`: for each patch atom, set it and register it on its partners -/
def addAtoms (ref : List AtomDef) (padd : List AtomDef) : List AtomDef :=
  padd.foldl (fun as pa =>
    let as := setAtom as pa
    pa.bonds.foldl (fun as b => if as.any (·.name = b) then addBond as b pa.name else as) as) ref

/-- remove phase on the reference -/
def removeAtoms (ref : List AtomDef) (rm : List Str) : List AtomDef :=
  rm.foldl (fun as r =>
    match as.find? (·.name = r) with
    | none => as
    | some a =>
      let as := as.filter (·.name ≠ r)
      a.bonds.foldl (fun as b => delBond as b r) as) ref

/-- rename phase on the present atoms -/
def renamePresent (present : List Str) (alt : List (Str × Str)) : List Str :=
  present.map (fun n => match alt.find? (·.1 = n) with | some (_, new) => new | none => n)

/-- `Biomolecule.apply_patch(patchname, residue)` on (reference, present atom names) -/
def applyPatch (p : PatchDef) (ref : ResDef) (present : List Str) : ResDef × List Str :=
  let atoms := removeAtoms (addAtoms ref.atoms p.atoms) p.remove
  let present := renamePresent (present.filter (fun n => !p.remove.contains n)) p.altnames
  ({ ref with atoms, dihedrals := ref.dihedrals ++ p.dihedrals }, present)

end P2P.Topology
