/-
  P2P.Model.SS — disulfide bridge detection.

  Mirrors biomolecule.py `update_ss_bridges`: the nested loops over the SG dictionary (an atom
  scans only while its own partner list is empty; the partner's list is appended too), the
  `numpartners == 1` patch rule, and the names-level consequences (CYX patch removes HG;
  `add_hydrogens` skips HG when `ss_bonded`; `CYS.set_state` names the residue CYX).
  Atoms are abstract identifiers; closeness is a parameter (`close`), instantiated by the
  exact squared distance of coordinates in thousandths of an Ångström.
-/
import P2P.Text

namespace P2P.SS
open P2P

variable {α : Type} [DecidableEq α]

/-- `sg_partners` as an association list in dictionary order -/
abbrev Partners (α : Type) := List (α × List α)

def pget (ps : Partners α) (a : α) : List α := ((ps.find? (·.1 = a)).map (·.2)).getD []
def pappend (ps : Partners α) (a x : α) : Partners α :=
  ps.map (fun (k, v) => if k = a then (k, v ++ [x]) else (k, v))

/-- body of the inner loop for (`atom`, `partner`) -/
def inner (close : α → α → Bool) (atom : α) (ps : Partners α) (partner : α) : Partners α :=
  if atom = partner || pget ps atom ≠ [] then ps
  else if close atom partner then pappend (pappend ps atom partner) partner atom
  else ps

/-- the two nested loops -/
def scan (close : α → α → Bool) (atoms : List α) : Partners α :=
  atoms.foldl (fun ps atom => atoms.foldl (inner close atom) ps) (atoms.map (fun a => (a, [])))

/-- `numpartners == 1`: bridged, with that partner -/
def bridgedWith (close : α → α → Bool) (atoms : List α) (a : α) : Option α :=
  match pget (scan close atoms) a with
  | [p] => some p
  | _ => none

/-- names-level outcome for a residue of class CYS that is named CYS in the input, without
pKa-driven titration: (force-field name, has HG after hydrogen addition) -/
def cysOutcome (bridged : Bool) : Str × Bool :=
  if bridged then (str "CYX", false) else (str "CYS", true)

/-! ### geometric closeness (exact) -/

structure P3 where
  x : Int
  y : Int
  z : Int
deriving Repr, DecidableEq, Inhabited

def distSq (a b : P3) : Int := (a.x - b.x) ^ 2 + (a.y - b.y) ^ 2 + (a.z - b.z) ^ 2

/-- `distance(a, b) < limit` with coordinates and limit in thousandths -/
def closeBy (limit : Int) (a b : P3) : Bool := distSq a b < limit ^ 2

end P2P.SS
