/-
  P2P.Model.CoordFlow — the intermediate representation gen/coordflow.py emits for every function
  of the package (names it mentions, whether it assigns coordinates of an existing object), and
  the reachability analysis the C04 theorems evaluate on it (kernel-checked on regenerated data).
-/
namespace P2P.CoordFlow

structure Fn where
  mod : String
  cls : String
  name : String
  /-- package function / class names mentioned in the body (over-approximate call edges) -/
  refs : List String
  /-- assigns `.x/.y/.z/.coords` of an object not constructed in the same function -/
  writes : Bool
  /-- `setattr` with a computed attribute name -/
  dyn : Bool
deriving Repr, DecidableEq, Inhabited

/-- the names under which a function is reached: its own, or its class for a constructor -/
def Fn.handles (f : Fn) : List String := if f.name = "__init__" then [f.cls] else [f.name]

def Fn.qual (f : Fn) : String := f.mod ++ ":" ++ f.cls ++ "." ++ f.name

/-- one backward step: names of functions that mention a name already in `s` -/
def step (fs : List Fn) (s : List String) : List String :=
  fs.foldl (fun acc f =>
    if f.refs.any (fun r => s.contains r) then
      f.handles.foldl (fun acc h => if acc.contains h then acc else acc ++ [h]) acc
    else acc) s

def iter (fs : List Fn) : Nat → List String → List String
  | 0, s => s
  | k + 1, s => iter fs k (step fs s)

/-- every name from which a function named in `targets` may be reached: 16 backward rounds;
`closed` states that the fixed point was reached (the theorems check it) -/
def reach (fs : List Fn) (targets : List String) : List String := iter fs 16 targets

def closed (fs : List Fn) (s : List String) : Bool := (step fs s).length = s.length

/-- last component of a dotted callee name of the main.py skeleton, as characters -/
def simple (callee : String) : List Char := (callee.toList.reverse.takeWhile (· ≠ '.')).reverse

/-- does a call of the skeleton possibly reach one of the names in `s`? -/
def mayReach (s : List String) (callee : String) : Bool := (s.map String.toList).contains (simple callee)

end P2P.CoordFlow
