/-
  P2P.Model.Atoms — the atom-name bookkeeping of a residue and of the hydrogen-bond
  optimisation objects, at the level of names only.

  Mirrors residue.py `add_atom` / `create_atom` / `remove_atom` / `rename_atom` on the ordered
  list `residue.atoms`, and hydrogens/structures.py `Flip` (`__init__`, `fix_flip`, `finalize`,
  `complete`), `Alcoholic` and `Water` (`__init__`, the name effect of `try_donor`,
  `try_acceptor`, the undo in `try_both`, `finalize`, `complete`), and hydrogens/__init__.py
  `cleanup`. Everything geometric enters as the outcome of the call (a Boolean) or as the
  number of atoms bonded to the oxygen, both logged from the real run by the harness; the
  theorems quantify over ALL outcomes.
-/
import P2P.Text

namespace P2P.Atoms
open P2P

abbrev Names := List Str

def flipSuffix : Str := str "FLIP"
def isFlip (n : Str) : Bool := flipSuffix.isSuffixOf n && decide (n.length ≥ 4)
def baseOf (n : Str) : Str := n.take (n.length - 4)
def isLP (n : Str) : Bool := (str "LP").isPrefixOf n

/-- `create_atom` / `add_atom`: append -/
def create (s : Names) (n : Str) : Names := s ++ [n]
/-- `remove_atom`: the atom the map holds under that name leaves the list -/
def remove (s : Names) (n : Str) : Names := s.erase n
/-- `remove_atom` with its `KeyError` when the name is absent -/
def remove? (s : Names) (n : Str) : Option Names := if s.contains n then some (s.erase n) else none
/-- `rename_atom` -/
def rename (s : Names) (old new : Str) : Names := s.map (fun x => if x = old then new else x)

/-! ### Flip -/

/-- `Flip.__init__`: one `xFLIP` copy per moved atom -/
def flipInit (s : Names) (M : List Str) : Names := M.foldl (fun s n => create s (n ++ flipSuffix)) s

/-- `fix_flip(bondatom)`: if `bondatom` is a `*FLIP` atom, every atom that has a flip copy is
removed; otherwise every flip copy is -/
def fixFlip (s : Names) (bondatom : Str) : Names :=
  if isFlip bondatom then
    s.foldl (fun acc n => if isFlip n && acc.contains (baseOf n) then remove acc (baseOf n) else acc) s
  else
    s.foldl (fun acc n => if isFlip n then remove acc n else acc) s

/-- `Flip.finalize` when the residue is not fixed: for every flip copy, remove the atom of the
base name (`KeyError` = `none` if there is none) and give the copy that name -/
def flipFinalize (fixed : Bool) (s : Names) : Option Names :=
  if fixed then some s else
  s.foldl (fun acc n =>
    match acc with
    | none => none
    | some a => if isFlip n then (remove? a (baseOf n)).map (fun a' => rename a' n (baseOf n)) else some a) (some s)

/-- `Flip.complete`: `finalize`, then rename every remaining flip copy -/
def flipComplete (fixed : Bool) (s : Names) : Option Names :=
  (flipFinalize fixed s).map (fun t => t.map (fun n => if isFlip n then baseOf n else n))

/-! ### Alcoholic -/

def LP1 : Str := str "LP1"
def LP2 : Str := str "LP2"

/-- `Alcoholic.__init__`: the polar hydrogen is removed if present -/
def alcInit (s : Names) (h : Str) : Names := if s.contains h then remove s h else s

/-- name effect of `Alcoholic.try_donor`; `ok` is the value it returned -/
def alcTryDonor (s : Names) (h : Str) (ok : Bool) : Names := if ok && !s.contains h then create s h else s

/-- name effect of `try_acceptor` (both classes): the next free lone-pair name -/
def tryAcceptor (s : Names) (ok : Bool) : Names :=
  if !ok || s.contains LP2 then s else if s.contains LP1 then create s LP2 else create s LP1

/-- the undo in `Alcoholic.try_both` (donor satisfied, acceptor not) -/
def alcUndo (s : Names) (h : Str) : Option Names := remove? s h

/-- `Alcoholic.finalize`; `b` = number of atoms bonded to the oxygen -/
def alcFinalize (s : Names) (h : Str) (fixed : Bool) (b : Nat) : Names :=
  if fixed || s.contains h then s else if b = 1 || b = 2 || b = 3 then create s h else s

/-- `Alcoholic.complete` -/
def alcComplete (s : Names) (h : Str) (fixed : Bool) (b : Nat) : Names :=
  (alcFinalize s h fixed b).filter (fun n => !isLP n)

/-! ### Water -/

def H1 : Str := str "H1"
def H2 : Str := str "H2"

/-- name effect of `Water.try_donor` -/
def watTryDonor (s : Names) (ok : Bool) : Names :=
  if !ok || s.contains H2 then s else if s.contains H1 then create s H2 else create s H1

/-- the undo in `Water.try_both` -/
def watUndo (s : Names) : Names :=
  if s.contains H2 then remove s H2 else if s.contains H1 then remove s H1 else s

/-- atoms bonded to the water oxygen, when the bond lists are consistent with the names -/
def watBonds (s : Names) : Nat := (s.filter (fun n => n = H1 || n = H2 || n = LP1 || n = LP2)).length

/-- `Water.finalize` with the bond count read off the names (fuel 2: it recurses once, after
adding H1). Returns the names and the `fixed` flag. -/
def watFinalize : Nat → Names → Bool → Names × Bool
  | 0, s, fixed => (s, fixed)
  | fuel + 1, s, fixed =>
    if fixed || s.contains H2 then (s, fixed) else
    let add := if s.contains H1 then H2 else H1
    let b := watBonds s
    if b = 0 then watFinalize fuel (create s add) fixed
    else if b = 1 then
      let r := if add = H1 then watFinalize fuel (create s add) fixed else (create s add, fixed)
      (r.1, true)
    else if b = 2 then
      if add = H1 then watFinalize fuel (create s add) fixed else (create s add, fixed)
    else if b = 3 then (create s add, fixed)
    else (s, fixed)

/-- `Water.complete` -/
def watComplete (s : Names) (fixed : Bool) : Names := ((watFinalize 3 s fixed).1).filter (fun n => !isLP n)

/-! ### cleanup (hydrogens/__init__.py) -/

/-- `cleanup` on a GLH / ASH residue: `first`, `second` = HE1, HE2 or HD1, HD2 -/
def cleanup (s : Names) (first second : Str) : Names :=
  if s.contains first && s.contains second then remove s first else s

/-! ### histidine naming (aa.py `HIS.set_state`): the last change of an atom set in a run -/

/-- remove a name if it is there (`if self.has_atom(n): self.remove_atom(n)`) -/
def dropIf (s : Names) (n : Str) : Names := if s.contains n then remove s n else s

/-- `HIS.set_state`, atom-set part: unless the residue is doubly protonated by patch or by name
(`hip`), one of HD1 / HE2 is dropped according to the donor / acceptor flags the optimisation left
on ND1 and NE2; the default is to drop HE2 (HID) -/
def hisSetState (hip nd1D nd1A ne2D ne2A : Bool) (s : Names) : Names :=
  if hip then s
  else if nd1D && !nd1A then dropIf s (str "HE2")
  else if (ne2D && !ne2A) || (nd1A && !nd1D) then dropIf s (str "HD1")
  else dropIf s (str "HE2")

/-- the state name read off the atoms afterwards; `none` is the TypeError for a ring with neither proton -/
def hisName (s : Names) : Option Str :=
  if s.contains (str "HD1") && s.contains (str "HE2") then some (str "HIP")
  else if s.contains (str "HD1") then some (str "HID")
  else if s.contains (str "HE2") then some (str "HIE")
  else none

/-! ### heavy-atom repair and hydrogen addition (biomolecule.py) -/

def isH (n : Str) : Bool := n.head? = some 'H'
def isPseudo (n : Str) : Bool := n = str "N+1" || n = str "C-1"
def OP1 : Str := str "OP1"
def OP2 : Str := str "OP2"

/-- `num_missing_heavy` on one residue: the reference's heavy atoms that are absent, in
reference order (O1P/O2P count as present when OP1/OP2 are) -/
def missingHeavy (refNames : List Str) (s : Names) : List Str :=
  refNames.filter (fun n => !isH n && !isPseudo n && !(n = str "O1P" && s.contains OP1) &&
    !(n = str "O2P" && s.contains OP2) && !s.contains n)

/-- the atoms `repair_heavy` deletes (and reports: "Extra atom … Deleted this atom") -/
def isExtra (refNames : List Str) (s : Names) (n : Str) : Bool :=
  !((n = str "O1P" || n = OP1) && s.contains OP1) && !((n = str "O2P" || n = OP2) && s.contains OP2) &&
    !refNames.contains n

/-- `repair_heavy` on one residue when every missing atom can be rebuilt: (names afterwards,
names deleted and reported). The rebuilt atoms are appended (possibly in another order). -/
def repairHeavy (refNames : List Str) (s : Names) : Names × List Str :=
  (s.filter (fun n => !isExtra refNames s n) ++ missingHeavy refNames s, s.filter (isExtra refNames s))

/-- `add_hydrogens` on one residue: every hydrogen of the reference that is absent is created,
unless it is skipped (HG of a bridged cysteine) or cannot be placed (`ok n = false`:
"Couldn't rebuild") -/
def addHydrogens (refNames : List Str) (skip ok : Str → Bool) (s : Names) : Names :=
  refNames.foldl (fun acc n => if isH n && !acc.contains n && !skip n && ok n then create acc n else acc) s

/-! ### operation sequences -/

/-- what the optimisation loop can do to one residue between construction and `complete`:
`donor ok` / `acceptor ok` = `try_donor` / `try_acceptor` returning `ok`; `both okD okA` =
`try_both` with this residue as the donor (its own `try_donor` returned `okD`, the partner's
`try_acceptor` returned `okA`; the hydrogen is taken back when `okD` and not `okA`) -/
inductive Op where
  | donor (ok : Bool)
  | acceptor (ok : Bool)
  | both (okD okA : Bool)
deriving Repr, DecidableEq, Inhabited

def alcStep (h : Str) (s : Names) : Op → Names
  | .donor ok => alcTryDonor s h ok
  | .acceptor ok => tryAcceptor s ok
  | .both okD okA => if okD && !s.contains h then (if okA then create s h else s) else s

def watStep (s : Names) : Op → Names
  | .donor ok => watTryDonor s ok
  | .acceptor ok => tryAcceptor s ok
  | .both okD okA =>
    if okD && !s.contains H2 then (if okA then watTryDonor s true else s) else s

/-- `fix_flip` as the loop can call it: the bond atom is an atom of the flip object's atom list
(a moved atom or its copy) that is still present -/
def flipStep (M : List Str) (st : Names × Bool) (b : Str) : Names × Bool :=
  if st.1.contains b && (M.contains b || (isFlip b && M.contains (baseOf b))) then (fixFlip st.1 b, true) else st

/-! ### invariants -/

def NoTemp (s : Names) : Prop := ∀ n ∈ s, isFlip n = false ∧ isLP n = false

end P2P.Atoms
