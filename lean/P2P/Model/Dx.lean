/-
  P2P.Model.Dx — OpenDX reader and Gaussian-cube writer.

  Mirrors io.py `read_dx` and `write_cube`. Float *formatting* (`>11.6f`, `< 13.5E`)
  is a parameter of the model (`fF`, `fE`): the theorems hold for every formatting
  function of the stated shape, the driver instantiates them symbolically and the
  harness renders them with Python's own `format`.
-/
import P2P.Text
import P2P.Model.Pqr

namespace P2P.Dx
open P2P

inductive DErr where
  | valueError | indexError | typeError
deriving Repr, DecidableEq, Inhabited

structure DxData where
  counts : Option (Int × Int × Int)      -- "number of grid points"
  origin : Option (PyFloat × PyFloat × PyFloat)   -- "lower left corner"
  spacings : List (PyFloat × PyFloat × PyFloat)   -- "grid spacing"
  values : List PyFloat
deriving Repr, DecidableEq, Inhabited

def empty : DxData := { counts := none, origin := none, spacings := [], values := [] }

def word (ws : List Str) (i : Nat) : Except DErr Str :=
  match ws.drop i with | [] => .error .indexError | w :: _ => .ok w
def pyInt (s : Str) : Except DErr Int :=
  match parseInt? s with | some n => .ok n | none => .error .valueError
def pyFloat (s : Str) : Except DErr PyFloat :=
  match parseFloat? s with | some v => .ok v | none => .error .valueError

def float3 (ws : List Str) : Except DErr (PyFloat × PyFloat × PyFloat) := do
  let a ← pyFloat (← word ws 1)
  let b ← pyFloat (← word ws 2)
  let c ← pyFloat (← word ws 3)
  pure (a, b, c)

/-- one iteration of the `for line in dx_file` loop -/
def dxLine (d : DxData) (line : Str) : Except DErr DxData := do
  let words := splitWs line
  let w0 ← word words 0
  if w0 = str "#" || w0 = str "attribute" || w0 = str "component" then pure d
  else if w0 = str "object" then do
    let w1 ← word words 1
    if w1 = str "1" then do
      let a ← pyInt (← word words 5)
      let b ← pyInt (← word words 6)
      let c ← pyInt (← word words 7)
      pure { d with counts := some (a, b, c) }
    else pure d
  else if w0 = str "origin" then do
    let o ← float3 words
    pure { d with origin := some o }
  else if w0 = str "delta" then do
    let s ← float3 words
    pure { d with spacings := d.spacings ++ [s] }
  else do
    let vs ← words.mapM pyFloat
    pure { d with values := d.values ++ vs }

/-- `read_dx` on the lines of the file -/
def readDx (lines : List Str) : Except DErr DxData := lines.foldlM dxLine empty

structure CAtom where
  serial : Int
  charge : PyFloat
  x : PyFloat
  y : PyFloat
  z : PyFloat
deriving Repr, DecidableEq, Inhabited

/-- `f"{n:>4}"` -/
def fI4 (n : Int) : Str := rjust (intStr n) 4

/-- groups of six, Python `range(0, len(values), 6)` with the `i + 6 < len` rule:
every chunk but the last ends with a newline -/
def chunk6 : Nat → List Str → List (List Str)
  | 0, _ => []
  | _, [] => []
  | fuel + 1, vs => if vs.length ≤ 6 then [vs] else vs.take 6 :: chunk6 fuel (vs.drop 6)

def valueLines (ws : List Str) : List Str :=
  let cs := chunk6 (ws.length + 1) ws
  match cs.reverse with
  | [] => []
  | last :: revInit => (revInit.reverse.map (fun c => joinWith [' '] c ++ ['\n'])) ++ [joinWith [' '] last]

/-- `write_cube(cube_file, data_dict, atom_list)`: the text written -/
def writeCube (fF fE : PyFloat → Str) (d : DxData) (atoms : List CAtom) : Except DErr Str := do
  let head := str "CPMD CUBE FILE.\n" ++ str "OUTER LOOP: X, MIDDLE LOOP: Y, INNER LOOP: Z\n"
  let (ox, oy, oz) ← match d.origin with | some o => pure o | none => throw .typeError
  let l3 := fI4 atoms.length ++ [' '] ++ fF ox ++ [' '] ++ fF oy ++ [' '] ++ fF oz ++ ['\n']
  let (n0, n1, n2) ← match d.counts with | some c => pure c | none => throw .typeError
  let sp (i : Nat) (n : Int) : Except DErr Str :=
    match d.spacings.drop i with
    | [] => throw .indexError
    | (a, b, c) :: _ => pure (fI4 (-n) ++ [' '] ++ fF a ++ [' '] ++ fF b ++ [' '] ++ fF c ++ ['\n'])
  let g0 ← sp 0 n0
  let g1 ← sp 1 n1
  let g2 ← sp 2 n2
  let al := atoms.map (fun a => fI4 a.serial ++ [' '] ++ fF a.charge ++ [' '] ++ fF a.x ++ [' '] ++ fF a.y
    ++ [' '] ++ fF a.z ++ ['\n'])
  pure (head ++ l3 ++ g0 ++ g1 ++ g2 ++ al.flatten ++ (valueLines (d.values.map fE)).flatten)

def catomOfFields (f : Pqr.Fields) : CAtom :=
  { serial := f.serial, charge := f.q, x := f.x, y := f.y, z := f.z }

end P2P.Dx
