/-
  P2P.Model.Pka — titration-state assignment from pKa values.

  Mirrors biomolecule.py `apply_pka_values` (the per-residue decision tree, with the three
  dictionary keys it looks up) and the dictionary construction in main.py `non_trivial`
  (`group_label.startswith(res_name)` filter). pH and pKa values live in any type with a
  decidable `<` (`Float` in the driver, a linear order in the theorems); `ph >= value` is the
  code's own operator, modelled as `!(ph < value)`.
-/
import P2P.Text

namespace P2P.Pka
open P2P

inductive Action where
  | patch (name : Str)
  | warn
deriving Repr, DecidableEq, Inhabited

def isIn (s : Str) (l : List String) : Bool := l.any (fun x => str x = s)

variable {α : Type} (lt : α → α → Bool)

/-- the body of the residue loop for one amino-acid residue: `vN`, `vC`, `vS` are the values found
under the `N+`, `C-` and side-chain keys (`none` = key absent) -/
def pkaStep (ff resname : Str) (isN isC : Bool) (ph : α) (vN vC vS : Option α) : List Action :=
  let ge (a b : α) : Bool := !lt a b
  let others := ["amber", "charmm", "tyl06", "peoepb", "swanson"]
  let ats := ["amber", "tyl06", "swanson"]
  let a1 : List Action :=
    match (if isN then vN else none) with
    | some v => if ge ph v then (if isIn ff others then [.warn] else [.patch (str "NEUTRAL-NTERM")]) else []
    | none => []
  let a2 : List Action :=
    match (if isC then vC else none) with
    | some v => if lt ph v then (if isIn ff others then [.warn] else [.patch (str "NEUTRAL-CTERM")]) else []
    | none => []
  let a3 : List Action :=
    match vS with
    | none => []
    | some v =>
      if resname = str "ARG" && ge ph v then
        (if ff = str "parse" then [.patch (str "AR0"), .warn] else [.warn])
      else if resname = str "ASP" && lt ph v then
        (if isC && isIn ff ats then [.warn] else if isN && isIn ff ats then [.warn] else [.patch (str "ASH")])
      else if resname = str "CYS" && ge ph v then
        (if isIn ff ["charmm", "peoepb"] then [.warn]
         else if isIn ff ats && isC then [.warn]
         else if isIn ff ats && isN then [.warn]
         else [.patch (str "CYM")])
      else if resname = str "GLU" && lt ph v then
        (if ff = str "peoepb" then [.warn]
         else if isC && isIn ff ats then [.warn] else if isN && isIn ff ats then [.warn] else [.patch (str "GLH")])
      else if resname = str "HIS" && lt ph v then [.patch (str "HIP")]
      else if resname = str "LYS" && ge ph v then
        (if isIn ff ["charmm", "peoepb"] then [.warn]
         else if isIn ff ats && isC then [.warn]
         else if isIn ff ats && isN then [.warn]
         else [.patch (str "LYN")])
      else if resname = str "TYR" && ge ph v then
        (if isIn ff others then [.warn] else [.patch (str "TYM")])
      else []
  a1 ++ a2 ++ a3

/-- a row of the pKa table `run_propka` returns -/
structure PkaRow (α : Type) where
  resName : Str
  resNum : Int
  chain : Str
  label : Str
  pka : α

/-- the dictionary `non_trivial` hands to `apply_pka_values`: only rows whose group label starts
with the residue name; later rows overwrite earlier ones with the same key -/
def pkaDict (rows : List (PkaRow α)) : List (Str × α) :=
  rows.foldl (fun d r =>
    if r.resName.isPrefixOf r.label then
      let k := r.resName ++ [' '] ++ intStr r.resNum ++ [' '] ++ r.chain
      if d.any (·.1 = k) then d.map (fun (k', v) => if k' = k then (k', r.pka) else (k', v)) else d ++ [(k, r.pka)]
    else d) []

/-- the three keys `apply_pka_values` looks up for a residue -/
def keyN (resNum : Int) (chain : Str) : Str := strip (str "N+  " ++ rjust (intStr resNum) 3 ++ [' '] ++ chain)
def keyC (resNum : Int) (chain : Str) : Str := strip (str "C-  " ++ rjust (intStr resNum) 3 ++ [' '] ++ chain)
def keyS (resName : Str) (resNum : Int) (chain : Str) : Str := strip (resName ++ [' '] ++ intStr resNum ++ [' '] ++ chain)

end P2P.Pka
