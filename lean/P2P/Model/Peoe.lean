/-
  P2P.Model.Peoe — ligand charges and radii.

  Mirrors ligand/peoe.py `electronegativity`, `assign_terms`, `equilibrate`; ligand/mol2.py
  `bond_order`, `formal_charge` (with its seven corrections), `assign_radius`; and the transfer of
  ligand parameters onto HETATM atoms in main.py `non_trivial`.
  `equilibrate` is written over an arithmetic interface and with the electronegativity function
  as a parameter: the conservation theorem holds for EVERY electronegativity function (hence
  for every polynomial table, damping, scaling and cycle count); the driver plugs in the real
  polynomial with the regenerated coefficients in `Float`.
-/
import P2P.Text

namespace P2P.Peoe
open P2P

class QNum (α : Type) extends Add α, Sub α, Mul α, Div α, Neg α where
  ofNat : Nat → α
  abs : α → α
  lt : α → α → Bool
  pow : α → Nat → α

variable {α : Type} [QNum α]

/-- `math.isclose(a, b)` with the default tolerances (`rel_tol = 1e-9` passed in as `rel`) -/
def isclose (rel : α) (a b : α) : Bool :=
  let d := QNum.abs (a - b)
  let m := if QNum.lt (QNum.abs a) (QNum.abs b) then QNum.abs b else QNum.abs a
  !(QNum.lt (rel * m) d)

/-- the cycles of `equilibrate`, after formal charges were taken: `chi q i` is the
electronegativity of atom `i` at charge `q`, `norm i` that of atom `i` at charge +1,
`bonded i` the neighbour list (with multiplicity), `gt` the comparison `chi2 > chi1`.
Charges start at 0; `share i` is `(1/num_cycles) * equil_formal_charge` of atom `i` (0 for all
atoms when the molecule has no formal charge). Returns the charges before the final scaling. -/
def cycles (n : Nat) (chi : α → Nat → α) (norm : Nat → α) (bonded : Nat → List Nat) (damp : α)
    (share : Nat → α) : Nat → Nat → List α → List α
  | 0, _, q => q
  | k + 1, icycle, q =>
    let qi (i : Nat) : α := q.getD i (QNum.ofNat 0)
    let delta (i : Nat) : α :=
      (bonded i).foldl (fun acc j =>
        let chi1 := chi (qi i) i
        let chi2 := chi (qi j) j
        let nrm := if QNum.lt chi1 chi2 then norm i else norm j
        acc + ((chi2 - chi1) / nrm) * QNum.pow damp (icycle + 1)) (QNum.ofNat 0)
    let q' := (List.range n).map (fun i => qi i + (delta i + share i))
    cycles n chi norm bonded damp share k (icycle + 1) q'

/-- `equilibrate`: `formal i` is the formal charge handed in (atom.charge before the call) -/
def equilibrate (rel : α) (n : Nat) (chi : α → Nat → α) (norm : Nat → α) (bonded : Nat → List Nat)
    (damp scale : α) (numCycles : Nat) (formal : Nat → α) : List α :=
  let zero : α := QNum.ofNat 0
  let one : α := QNum.ofNat 1
  let eqf (i : Nat) : α := if isclose rel (formal i) zero then zero else formal i * (one / scale)
  let absq : α := (List.range n).foldl (fun acc i => if isclose rel (formal i) zero then acc else acc + QNum.abs (formal i)) zero
  let share (i : Nat) : α := if isclose rel absq zero then zero else (one / QNum.ofNat numCycles) * eqf i
  -- when abs_qges is ~0 the code adds delta only; `delta + 0` differs from `delta` in no way that matters to ℚ/ℝ;
  -- in Float `x + 0.0 = x` except for -0.0, which is irrelevant here
  let q := cycles n chi norm bonded damp share numCycles 0 ((List.range n).map (fun _ => zero))
  q.map (fun x => scale * x)

/-! ### formal charges (integers in halves of an electron) -/

inductive BondType where
  | single | double | triple | aromatic
deriving Repr, DecidableEq, Inhabited

/-- `Mol2Atom.bond_order` from the atom's bond types -/
def bondOrder (bs : List BondType) : Int :=
  let order := bs.foldl (fun o b => match b with
    | .single => o + 1 | .double => o + 2 | .triple => o + 3 | .aromatic => o) (0 : Int)
  let nar := (bs.filter (· = .aromatic)).length
  if nar > 0 then order + nar + 1 else order

/-- `formal_charge` in halves of an electron, before the order-dependent phosphate correction:
`valence` and `nonbonded2` (nonbonded electrons × 2) come from the regenerated tables -/
def formalCharge2 (ty : String) (valence : Int) (nonbonded2 : Int) (bo : Int) : Int ⊕ Unit :=
  let fc2 := 2 * valence - nonbonded2 - 2 * bo
  if (ty = "N.pl3" || ty = "N.am") && bo = 3 && fc2 ≠ 0 then .inl 0
  else if ty = "N.ar" && bo = 4 && fc2 ≠ 0 then .inl 0
  else if ty = "C.ar" && bo = 5 && fc2 ≠ 0 then .inl 0
  else if ty = "O.co2" && bo = 1 && fc2 ≠ -1 then .inl (-1)
  else if ty = "C.2" && bo = 5 && fc2 = -2 then .inl 0
  else if ty = "N.3" && bo = 4 && fc2 = -2 then .inl 2
  else if ty = "O.3" && bo = 1 && fc2 = 2 then .inr ()      -- phosphate: decided by position among the P's oxygens
  else .inl fc2

/-- `assign_radius`: primary table by type then element, then the secondary one -/
def assignRadius (primary secondary : List (String × Nat)) (ty element : String) : Option Nat :=
  let look (t : List (String × Nat)) : Option Nat :=
    match t.lookup ty with
    | some r => some r
    | none => t.lookup element
  match look primary with
  | some r => some r
  | none => look secondary

/-! ### molecule graph as `Mol2Molecule.parse_bonds` builds it -/

/-- bonds in file order: (atom1 index, atom2 index, type) -/
abbrev Bonds := List (Nat × Nat × BondType)

/-- `atom.bonds`: the bonds an atom takes part in, in file order -/
def atomBonds (bs : Bonds) (i : Nat) : Bonds := bs.filter (fun b => b.1 = i || b.2.1 = i)

/-- `atom.bonded_atoms`: each bond appends atom2 to atom1's list and atom1 to atom2's -/
def bondedOf (bs : Bonds) (i : Nat) : List Nat :=
  bs.flatMap (fun b => (if b.1 = i then [b.2.1] else []) ++ (if b.2.1 = i then [b.1] else []))

/-- all directed neighbour pairs `(i, j)` with `j ∈ bonded i`, for atoms `0 … n-1` -/
def directedEdges (n : Nat) (bonded : Nat → List Nat) : List (Nat × Nat) :=
  (List.range n).flatMap (fun i => (bonded i).map (fun j => (i, j)))

/-! ### transfer onto the complex (main.py 681-705) -/

structure HAtom where
  id : Nat
  isHet : Bool        -- `pdb_atom.type != "ATOM"`
  name : Str
deriving Repr, DecidableEq, Inhabited

/-- for each residue that is not a water (`aa.WAT`), atoms are scanned until the first ATOM
record; each scanned atom whose name is a ligand atom name receives the ligand's parameters
(returned as `hit`), the others are reported missing. Returns (ids that received ligand
parameters, ids appended to `missing`). -/
def ligandTransfer (ligNames : List Str) (residues : List (Bool × List HAtom)) : List Nat × List Nat :=
  residues.foldl (fun (acc : List Nat × List Nat) (wr : Bool × List HAtom) =>
    if wr.1 then acc else
    let scanned := wr.2.takeWhile (·.isHet)
    scanned.foldl (fun (acc : List Nat × List Nat) a =>
      if ligNames.contains a.name then (acc.1 ++ [a.id], acc.2) else (acc.1, acc.2 ++ [a.id])) acc) ([], [])

end P2P.Peoe
