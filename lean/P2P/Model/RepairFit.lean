/-
  P2P.Model.RepairFit — which three atoms `repair_heavy` superposes on when it rebuilds a missing
  heavy atom, at the level of names.

  Mirrors definitions.py `DefinitionResidue.get_nearest_bonds` (the atoms one, two and three bonds
  away from the missing atom, in the order the code collects them) and the selection loop of
  biomolecule.py `repair_heavy` (the first three of them that exist: own atoms by name, the
  template's `N+1` / `C-1` through the neighbouring residues). `fitLocal` is the decidable condition
  under which the fit can be exact whatever the torsion angles of the structure: the three atoms are
  pairwise at most two bonds apart in the template, so their mutual distances are fixed by bond
  lengths and bond angles alone.
-/
import P2P.Model.Topology
import P2P.Model.Rigid

namespace P2P.RepairFit
open P2P P2P.Topology

def bondsOf (r : ResDef) (u : Str) : List Str :=
  match r.get? u with
  | some a => a.bonds
  | none => []

def addNew (acc : List Str) (v : Str) : List Str := if acc.contains v then acc else acc ++ [v]

/-- `get_nearest_bonds(atomname)` -/
def nearestBonds (r : ResDef) (x : Str) : List Str :=
  let b1 := (bondsOf r x).foldl addNew []
  let st2 := (bondsOf r x).foldl (fun (acc : List Str × List Str) v =>
    (bondsOf r v).foldl (fun (acc2 : List Str × List Str) w =>
      if !acc2.1.contains w && w ≠ x then (acc2.1 ++ [w], acc2.2 ++ [w]) else acc2) acc) (b1, [])
  st2.2.foldl (fun acc l2 => (bondsOf r l2).foldl addNew acc) st2.1

/-- the fit atoms: the first three of the nearest atoms that are there (`present` lists the
residue's atoms and, for a residue with a successor / predecessor, `N+1` / `C-1`) -/
def fitAtoms (r : ResDef) (present : List Str) (x : Str) : List Str :=
  ((nearestBonds r x).filter (fun v => present.contains v)).take 3

/-- at most two bonds apart in the template -/
def within2 (r : ResDef) (a b : Str) : Bool :=
  a = b || (bondsOf r a).contains b || (bondsOf r a).any (fun c => (bondsOf r c).contains b)

def allPairs (f : List Str) (p : Str → Str → Bool) : Bool := f.all (fun a => f.all (fun b => p a b))

/-- the three fit atoms exist and are pairwise at most two bonds apart -/
def fitLocal (r : ResDef) (present : List Str) (x : Str) : Bool :=
  let f := fitAtoms r present x
  f.length = 3 && allPairs f (within2 r)

/-- heavy atoms of the reference, pseudo-atoms included (a residue inside a chain) -/
def heavyAll (r : ResDef) : List Str := r.names.filter (fun n => n.head? ≠ some 'H')

/-- bond-path length to CA over the heavy atoms -/
def depthTable (r : ResDef) : List (Str × Nat) :=
  P2P.Rigid.bfs r (heavyAll r) (fun _ => true) ((heavyAll r).length + 1) 0 [str "CA"] [str "CA"]

def mainChain : List Str := [str "N", str "CA", str "C", str "O", str "N+1", str "C-1"]

/-- a side chain truncated at `x`: the main chain and every heavy atom closer to CA than `x` -/
def truncatedAt (r : ResDef) (x : Str) : List Str :=
  let dt := depthTable r
  match dt.lookup x with
  | none => []
  | some dx => (heavyAll r).filter (fun u => mainChain.contains u ||
      (match dt.lookup u with | some du => decide (du < dx) | none => false))

/-- only `x` is missing -/
def onlyMissing (r : ResDef) (x : Str) : List Str := (heavyAll r).filter (fun u => u ≠ x)

/-! ### the neighbour pointers (`Biomolecule.update_bonds`, third step) -/

/-- for two consecutive amino-acid residues of a chain — the first has its C (`hasC`), the second
its N (`hasN`), and if both exist they are farther apart than `PEPTIDE_DIST` (`far`) — which of the
two pointers end up set: (`res1.peptide_n`, `res2.peptide_c`). These pointers are what the template
atoms `N+1` / `C-1` resolve to in `repair_heavy` and `add_hydrogens`. -/
def peptideLink (hasC hasN far : Bool) : Bool × Bool :=
  if hasC && hasN then (if far then (false, false) else (true, true)) else (hasN, hasC)

end P2P.RepairFit
