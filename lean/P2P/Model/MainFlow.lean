/-
  P2P.Model.MainFlow — the intermediate representation of main.py that gen/mainflow.py emits,
  and the analyses the C09 / C12 theorems evaluate on it (kernel-checked over the regenerated data).
-/
namespace P2P.MainFlow

structure Func where
  name : String
  /-- options read directly as `args.<opt>` -/
  reads : List String
  /-- (option, innermost enclosing call — or `<if>` for a bare test, `<stmt>` otherwise) -/
  readCtx : List (String × String)
  /-- options assigned -/
  writes : List String
  /-- callees that receive the whole namespace -/
  passes : List String
  /-- ordered call skeleton: (guards in force, callee) -/
  calls : List (List String × String)
deriving Repr, DecidableEq, Inhabited

def find (fs : List Func) (n : String) : Option Func := fs.find? (·.name = n)

/-- functions that read `opt` directly -/
def readers (fs : List Func) (opt : String) : List String := (fs.filter (·.reads.contains opt)).map (·.name)

/-- contexts in which `f` reads `opt` -/
def contexts (fs : List Func) (f opt : String) : List String :=
  match find fs f with
  | some fn => (fn.readCtx.filter (·.1 = opt)).map (·.2)
  | none => []

/-- position of the first call of `callee` in `f`'s skeleton -/
def firstCall (fs : List Func) (f callee : String) : Option Nat :=
  match find fs f with
  | some fn => (fn.calls.map (·.2)).findIdx? (· = callee)
  | none => none

def lastCall (fs : List Func) (f callee : String) : Option Nat :=
  match find fs f with
  | some fn =>
    let n := fn.calls.length
    ((fn.calls.map (·.2)).reverse.findIdx? (· = callee)).map (fun i => n - 1 - i)
  | none => none

/-- position of the first call made under a guard mentioning `opt` -/
def firstGuarded (fs : List Func) (f opt : String) : Option Nat :=
  match find fs f with
  | some fn => fn.calls.findIdx? (fun c => c.1.contains opt)
  | none => none

/-- every call of `f` at position `≥ i` is one of `allowed` -/
def onlyAfter (fs : List Func) (f : String) (i : Nat) (allowed : List String) : Bool :=
  match find fs f with
  | some fn => ((fn.calls.drop i).map (·.2)).all (fun c => allowed.contains c)
  | none => false

def before (a b : Option Nat) : Bool :=
  match a, b with
  | some x, some y => x < y
  | _, _ => false

end P2P.MainFlow
