/-
  P2P.Model.State — residue state → force-field residue name.

  Mirrors the `set_state` family of aa.py / na.py (called once per residue by
  `Biomolecule.set_states`) and the name `apply_force_field` looks up. The input is the
  residue as it stands when `set_state` returns (HIS has by then dropped HD1 or HE2).
-/
import P2P.Text

namespace P2P.State
open P2P

structure RInfo where
  /-- Python class of the residue object: ALA … VAL, HIS, WAT, ADE, CYT, GUA, THY, URA, LIG, Residue -/
  cls : Str
  /-- `residue.name` -/
  name : Str
  patches : List Str
  isNterm : Bool
  isCterm : Bool
  is5term : Bool
  is3term : Bool
  ssBonded : Bool
  atoms : List Str
deriving Repr, DecidableEq, Inhabited

def aminoClasses : List Str :=
  ["ALA", "ARG", "ASN", "ASP", "CYS", "GLN", "GLU", "GLY", "HIS", "ILE", "LEU", "LYS", "MET", "PHE",
   "PRO", "SER", "THR", "TRP", "TYR", "VAL"].map str
def nucleicClasses : List Str := ["ADE", "CYT", "GUA", "THY", "URA"].map str

def isAmino (r : RInfo) : Bool := aminoClasses.contains r.cls
def isNucleic (r : RInfo) : Bool := nucleicClasses.contains r.cls
def isWater (r : RInfo) : Bool := r.cls = str "WAT"

def has (r : RInfo) (a : String) : Bool := r.atoms.contains (str a)
def patched (r : RInfo) (p : String) : Bool := r.patches.contains (str p)

/-- `Amino.set_state` -/
def terminusPrefix (r : RInfo) (ff : Str) : Str :=
  if r.isNterm then (if patched r "NEUTRAL-NTERM" then str "NEUTRAL-N" ++ ff else ['N'] ++ ff)
  else if r.isCterm then (if patched r "NEUTRAL-CTERM" then str "NEUTRAL-C" ++ ff else ['C'] ++ ff)
  else ff

/-- `PRO.set_state`: no neutral N-terminus name -/
def proPrefix (r : RInfo) (ff : Str) : Str :=
  if r.isNterm then ['N'] ++ ff
  else if r.isCterm then (if patched r "NEUTRAL-CTERM" then str "NEUTRAL-C" ++ ff else ['C'] ++ ff)
  else ff

/-- the residue-specific part: `none` is HIS's TypeError (neither HD1 nor HE2) -/
def sideState (r : RInfo) : Option Str :=
  let named (p : String) := patched r p || r.name = str p
  if r.cls = str "ARG" then some (if named "AR0" then str "AR0" else r.name)
  else if r.cls = str "ASP" then some (if named "ASH" then str "ASH" else r.name)
  else if r.cls = str "CYS" then
    some (if named "CYX" || r.ssBonded then str "CYX" else if named "CYM" then str "CYM"
          else if !has r "HG" then str "CYX" else r.name)
  else if r.cls = str "GLU" then some (if named "GLH" then str "GLH" else r.name)
  else if r.cls = str "HIS" then
    if has r "HD1" && has r "HE2" then some (str "HIP")
    else if has r "HD1" then some (str "HID")
    else if has r "HE2" then some (str "HIE")
    else none
  else if r.cls = str "LYS" then some (if named "LYN" then str "LYN" else r.name)
  else if r.cls = str "TYR" then some (if named "TYM" then str "TYM" else r.name)
  else some r.name

def nucleicBase (r : RInfo) : Str :=
  let ribo := has r "O2'"
  if r.cls = str "ADE" then (if ribo then str "RA" else str "DA")
  else if r.cls = str "CYT" then (if ribo then str "RC" else str "DC")
  else if r.cls = str "GUA" then (if ribo then str "RG" else str "DG")
  else if r.cls = str "THY" then str "DT"
  else str "RU"

/-- the name `apply_force_field` looks parameters up under; `none` = TypeError in `set_states` -/
def lookupName (r : RInfo) : Option Str :=
  if isAmino r then
    (sideState r).map (fun ff => if r.cls = str "PRO" then proPrefix r ff else terminusPrefix r ff)
  else if isNucleic r then
    let b := nucleicBase r
    let b := if r.is5term then b ++ ['5'] else b
    some (if r.is3term then b ++ ['3'] else b)
  else if isWater r then some (str "WAT")
  else some r.name

end P2P.State
