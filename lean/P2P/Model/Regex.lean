/-
  P2P.Model.Regex — the fragment of Python `re` used by the `.names` files and PATCHES.xml:
  literals, `.`, character classes (optionally negated), `?`, capture groups, negative
  look-ahead over alternatives, `$`. `matchRe` returns every way the pattern can match a prefix
  in Python's priority order; `reMatch` is `re.compile(p).match(s)` (anchored at the start, first
  success): the groups captured, or `none`.
-/
import P2P.Text

namespace P2P.Regex
open P2P

inductive Re where
  | eps
  | lit (c : Char)
  | any
  | cls (neg : Bool) (cs : List Char)
  | opt (r : Re)             -- greedy `r?`
  | seq (a b : Re)
  | alt (a b : Re)
  | group (r : Re)
  | nla (r : Re)             -- `(?!r)`
  | eos                      -- `$` (names never contain newlines)
deriving Repr, DecidableEq, Inhabited

/-- all matches of `r` at the start of `s`, in priority order: (rest, groups captured so far) -/
def matchRe : Re → Str → List Str → List (Str × List Str)
  | .eps, s, g => [(s, g)]
  | .lit c, s, g => match s with | x :: xs => if x = c then [(xs, g)] else [] | [] => []
  | .any, s, g => match s with | x :: xs => if x ≠ '\n' then [(xs, g)] else [] | [] => []
  | .cls neg cs, s, g => match s with | x :: xs => if cs.contains x != neg then [(xs, g)] else [] | [] => []
  | .opt r, s, g => matchRe r s g ++ [(s, g)]
  | .seq a b, s, g => (matchRe a s g).flatMap (fun (s', g') => matchRe b s' g')
  | .alt a b, s, g => matchRe a s g ++ matchRe b s g
  | .group r, s, g => (matchRe r s g).map (fun (s', g') => (s', g' ++ [s.take (s.length - s'.length)]))
  | .nla r, s, g => if (matchRe r s g).isEmpty then [(s, g)] else []
  | .eos, s, g => if s.isEmpty then [(s, g)] else []

/-- `re.match`: groups of the first successful match -/
def reMatch (r : Re) (s : Str) : Option (List Str) := ((matchRe r s []).head?).map (·.2)

/-- right-nested sequence -/
def seqs : List Re → Re
  | [] => .eps
  | [r] => r
  | r :: rs => .seq r (seqs rs)

def alts : List Re → Re
  | [] => .nla .eps          -- matches nothing
  | [r] => r
  | r :: rs => .alt r (alts rs)

def lits (s : String) : Re := seqs (s.toList.map Re.lit)

end P2P.Regex
