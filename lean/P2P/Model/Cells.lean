/-
  P2P.Model.Cells — the cell list used for neighbour search.

  Mirrors cells.py: `add_cell` (coordinate → cell key with the separate formula for negative
  values), `remove_cell`, `get_near_cells` (27-cell neighbourhood), on atoms reduced to an
  identifier; an atom's coordinates and its `cell` attribute are part of the state.
  The key arithmetic is written over integers: `trunc x` (Python `int(x)`) is supplied by the
  caller (`Float` truncation in the driver, `Int.toNat`-style truncation of a rational in the
  theorems).
-/
namespace P2P.Cells

/-- Python `a // s` for `s > 0` -/
def fdiv (a s : Int) : Int := a.fdiv s

/-- cell coordinate of a value whose truncation toward zero is `t`; `neg` = the value is `< 0` -/
def cellCoord (s : Int) (neg : Bool) (t : Int) : Int :=
  if neg then fdiv (t - 1) s * s else fdiv t s * s

abbrev Key := Int × Int × Int
abbrev Id := Nat

/-- truncated coordinates with their signs: what `add_cell` needs of an atom's position -/
structure TPos where
  nx : Bool
  tx : Int
  ny : Bool
  ty : Int
  nz : Bool
  tz : Int
deriving Repr, DecidableEq, Inhabited

def keyOf (s : Int) (p : TPos) : Key := (cellCoord s p.nx p.tx, cellCoord s p.ny p.ty, cellCoord s p.nz p.tz)

structure State where
  size : Int
  cellmap : List (Key × List Id)
  /-- `atom.cell` -/
  cell : List (Id × Option Key)
  /-- current (truncated) coordinates of each atom -/
  pos : List (Id × TPos)
deriving Repr, Inhabited

def cellOf (st : State) (a : Id) : Option Key := ((st.cell.find? (·.1 = a)).map (·.2)).getD none
def posOf (st : State) (a : Id) : TPos := ((st.pos.find? (·.1 = a)).map (·.2)).getD default
def setAssoc {β : Type} (l : List (Id × β)) (a : Id) (v : β) : List (Id × β) :=
  if l.any (·.1 = a) then l.map (fun (k, w) => if k = a then (k, v) else (k, w)) else l ++ [(a, v)]

/-- the atom's coordinates change (`atom.x = …`): no cell bookkeeping happens by itself -/
def setPos (st : State) (a : Id) (p : TPos) : State := { st with pos := setAssoc st.pos a p }

/-- `add_cell(atom)` -/
def addCell (st : State) (a : Id) : State :=
  let key := keyOf st.size (posOf st a)
  let cellmap :=
    if st.cellmap.any (·.1 = key) then st.cellmap.map (fun (k, v) => if k = key then (k, v ++ [a]) else (k, v))
    else st.cellmap ++ [(key, [a])]
  { st with cellmap, cell := setAssoc st.cell a (some key) }

/-- `remove_cell(atom)`: `none` is the ValueError of `list.remove` when the atom is not in the
cell its `cell` attribute names -/
def removeCell (st : State) (a : Id) : Option State :=
  match cellOf st a with
  | none => some st
  | some old =>
    match st.cellmap.find? (·.1 = old) with
    | none => none        -- KeyError cannot happen in the code either way; treated as error
    | some (_, v) =>
      if v.contains a then
        some { st with cell := setAssoc st.cell a none,
                       cellmap := st.cellmap.map (fun (k, w) => if k = old then (k, w.erase a) else (k, w)) }
      else none

def offsets (s : Int) : List Int := [-s, 0, s]

/-- `get_near_cells(atom)`: atoms of the 27 neighbouring cells in the code's iteration order -/
def nearCells (st : State) (a : Id) : List Id :=
  match cellOf st a with
  | none => []
  | some (x, y, z) =>
    (offsets st.size).flatMap (fun i => (offsets st.size).flatMap (fun j => (offsets st.size).flatMap (fun k =>
      match st.cellmap.find? (·.1 = (x + i, y + j, z + k)) with
      | none => []
      | some (_, v) => v.filter (· ≠ a))))

def init (s : Int) : State := { size := s, cellmap := [], cell := [], pos := [] }

end P2P.Cells
