/-
  P2P.Model.Stages — the per-residue composition of the atom-set stages of a pdb2pqr run
  (main.py `non_trivial` when atoms are added), at the level of names:

    terminus / peptide patches (`set_termini`, `apply_patch`)         — before repair
    `repair_heavy`                                                     — extras deleted + reported, missing heavy atoms rebuilt
    disulfide patch (`update_ss_bridges`), `remove_hydrogens` and the
    pKa-state patches (`apply_pka_values`, PROPKA route)               — after repair
    `add_hydrogens`

  It composes `Topology.applyPatch` (the functional reading of `Biomolecule.apply_patch` on the
  pair reference / present names) with `Atoms.repairHeavy` and `Atoms.addHydrogens`. The state
  carries the residue's current run-time reference, its atom names and the names reported as
  deleted. The hydrogen-bond optimisation that follows is modelled in `Atoms` / `Carboxylic`
  (it returns a permutation of what it was given, see Props/C03).
-/
import P2P.Model.Topology
import P2P.Model.Atoms

namespace P2P.Stages
open P2P P2P.Topology P2P.Atoms

inductive Stage where
  | patch (p : PatchDef)   -- `apply_patch(p, residue)`
  | repair                 -- `repair_heavy` on this residue
  | stripH                 -- `remove_hydrogens` on this residue
  | addH                   -- `add_hydrogens` on this residue
deriving Repr, Inhabited

structure St where
  ref : ResDef
  names : Names
  reported : List Str
deriving Repr, Inhabited

def step (skip ok : Str → Bool) (st : St) : Stage → St
  | .patch p =>
    let r := applyPatch p st.ref st.names
    { st with ref := r.1, names := r.2 }
  | .repair =>
    let r := repairHeavy st.ref.names st.names
    { st with names := r.1, reported := st.reported ++ r.2 }
  | .stripH => { st with names := st.names.filter (fun n => !isH n) }
  | .addH => { st with names := addHydrogens st.ref.names skip ok st.names }

def run (skip ok : Str → Bool) (ref0 : ResDef) (s : Names) (stages : List Stage) : St :=
  stages.foldl (step skip ok) { ref := ref0, names := s, reported := [] }

def isPatch : Stage → Bool
  | .patch _ => true
  | _ => false

/-- what may happen between `repair_heavy` and `add_hydrogens`: hydrogens are stripped, or a
patch that adds and removes hydrogens only is applied (CYX, and every pKa state: ASH, GLH, LYN,
TYM, CYM, AR0, HID, HIE, HIP, HSD, HSE, HSP) -/
def lateOK : Stage → Bool
  | .stripH => true
  | .patch p => p.atoms.all (fun a => isH a.name) && p.remove.all isH
  | _ => false

end P2P.Stages
