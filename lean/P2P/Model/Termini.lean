/-
  P2P.Model.Termini — chain termini and formal charges at names level.

  Mirrors biomolecule.py `assign_termini` and `set_termini` (including the hidden-chain loop
  that cuts a chain after an internal residue carrying OXT / a 3' end) on residues reduced to
  their kind, names, flags and patch lists. Geometry enters only through the cyclic test
  (N–C distance < 1.35 Å), supplied as one oracle bit per `assign_termini` call, and through
  "N is bonded to two heavy atoms" (`nHeavy2`, true for proline).
  `formalCharge` is the specification side of C02.
-/
import P2P.Text
import P2P.Model.State

namespace P2P.Termini
open P2P P2P.State

inductive Kind where
  | amino | nucleic | water | other
deriving Repr, DecidableEq, Inhabited

structure TRes where
  id : Nat
  kind : Kind
  name : Str
  atoms : List Str
  /-- N has more than one heavy-atom neighbour inside the residue (proline) -/
  nHeavy2 : Bool
  isN : Bool := false
  isC : Bool := false
  is5 : Bool := false
  is3 : Bool := false
  patches : List Str := []
deriving Repr, DecidableEq, Inhabited

def patch (r : TRes) (p : String) : TRes := { r with patches := r.patches ++ [str p] }

def setAt (rs : List TRes) (i : Nat) (f : TRes → TRes) : List TRes :=
  rs.mapIdx (fun j r => if j = i then f r else r)

/-- index (from the start) of the residue the trailing-residue loop of `assign_termini` ends on,
with what it does there: scanning from the end, the first amino residue gets the C-terminus, the
first nucleotide the 3' end, NH2/NME stop the scan -/
def lastScan : List TRes → Nat → Option (Nat × Bool)   -- (index, isAmino)
  | _, 0 => none
  | rs, k + 1 =>
    match rs[k]? with
    | none => none
    | some r =>
      if r.kind = .amino then some (k, true)
      else if r.name = str "NH2" || r.name = str "NME" then none
      else if r.kind = .nucleic then some (k, false)
      else lastScan rs k

/-- the residue the ring of a cyclic chain closes on (repaired code, `fix:` in /repo): the last amino
residue, looking through trailing waters / hetero groups exactly as the C-terminus assignment does
(`lastScan`); the last residue when the scan ends on NH2 / NME, a nucleotide, or finds nothing -/
def ringEnd (chain : List TRes) (res0 : TRes) : TRes :=
  match lastScan chain chain.length with
  | some (i, true) => (chain[i]?).getD res0
  | _ => chain.getLastD res0

/-- `assign_termini(chain)`; `cyclic` = the N–C distance test (first residue's N, ring end's C) succeeded -/
def assignTermini (neutraln neutralc cyclic : Bool) (chain : List TRes) : Option (List TRes) :=
  match chain with
  | [] => none                                   -- IndexError
  | res0 :: _ =>
    let reslast := chain.getLastD res0
    if res0.atoms.contains (str "N") && (ringEnd chain res0).atoms.contains (str "C") && cyclic then some chain else
    -- N terminus / 5' end
    let chain :=
      if res0.kind = .amino then
        setAt chain 0 (fun r => patch { r with isN := true } (if neutraln || r.nHeavy2 then "NEUTRAL-NTERM" else "NTERM"))
      else if res0.kind = .nucleic then setAt chain 0 (fun r => patch { r with is5 := true } "5TERM")
      else chain
    -- C terminus / 3' end
    let n := chain.length
    let cpatch := if neutralc then "NEUTRAL-CTERM" else "CTERM"
    if reslast.kind = .amino then some (setAt chain (n - 1) (fun r => patch { r with isC := true } cpatch))
    else if reslast.kind = .nucleic then some (setAt chain (n - 1) (fun r => patch { r with is3 := true } "3TERM"))
    else
      match lastScan chain n with
      | some (i, true) => some (setAt chain i (fun r => patch { r with isC := true } cpatch))
      | some (i, false) => some (setAt chain i (fun r => patch { r with is3 := true } "3TERM"))
      | none => some chain

/-- does the hidden-chain scan cut after this residue? -/
def fixflag (r : TRes) : Bool :=
  match r.kind with
  | .amino => r.atoms.contains (str "OXT") && !r.isC
  | .nucleic => (r.atoms.contains (str "H3T") || r.name.getLast? = some '3') && !r.is3
  | _ => false

/-- one chain of the hidden-chain loop: scan the (original) residues; at each cut the residues
seen since the last cut become a new chain placed before the remainder, and both are given
termini again (remainder first). `bits` are the cyclic-test outcomes consumed in call order.
Returns the chains this chain turned into (in `self.chains` order) and the unused bits. -/
def splitChain (neutraln neutralc : Bool) :
    Nat → List TRes → List TRes → List TRes → List (List TRes) → List Bool → Option (List (List TRes) × List Bool)
  -- fuel, residues still to scan (ids refer into `rest`), current remainder, pending reslist, finished chains
  | 0, _, rest, _, done, bits => some (done ++ [rest], bits)
  | _, [], rest, _, done, bits => some (done ++ [rest], bits)
  | fuel + 1, r0 :: scan, rest, pending, done, bits =>
    -- the residue as it is now in the remainder (flags may have changed since the copy was taken)
    match rest.find? (·.id = r0.id) with
    | none => splitChain neutraln neutralc fuel scan rest pending done bits
    | some r =>
      let pending := pending ++ [r]
      if fixflag r then
        let remainder := rest.filter (fun x => !(pending.any (·.id = x.id)))
        let newchain := rest.filter (fun x => pending.any (·.id = x.id))
        let (b1, bits) := (bits.headD false, bits.drop 1)
        match assignTermini neutraln neutralc b1 remainder with
        | none => none
        | some remainder =>
          let (b2, bits) := (bits.headD false, bits.drop 1)
          match assignTermini neutraln neutralc b2 newchain with
          | none => none
          | some newchain => splitChain neutraln neutralc fuel scan remainder [] (done ++ [newchain]) bits
      else splitChain neutraln neutralc fuel scan rest pending done bits

/-- `set_termini`: first pass over all chains, then the hidden-chain loop. `none` = IndexError. -/
def setTermini (neutraln neutralc : Bool) (chains : List (List TRes)) (bits : List Bool) : Option (List (List TRes)) := do
  -- first pass
  let (cs, bits) ← chains.foldlM (fun (acc, bits) ch => do
    let ch' ← assignTermini neutraln neutralc (bits.headD false) ch
    pure (acc ++ [ch'], bits.drop 1)) (([] : List (List TRes)), bits)
  -- hidden chains
  let (out, _) ← cs.foldlM (fun (acc, bits) ch => do
    let (parts, bits) ← splitChain neutraln neutralc (ch.length + 1) ch ch [] [] bits
    pure (acc ++ parts, bits)) (([] : List (List TRes)), bits)
  pure out

/-! ### formal charge (specification) -/

def startsWith' (s : Str) (p : String) : Bool := (str p).isPrefixOf s

/-- formal charge of a residue in its final state, from the residue description alone -/
def formalCharge (r : RInfo) : Option Int :=
  if isAmino r then
    match sideState r with
    | none => none
    | some s =>
      let side : Int :=
        if r.cls = str "ASP" then (if s = str "ASH" then 0 else -1)
        else if r.cls = str "GLU" then (if s = str "GLH" then 0 else -1)
        else if r.cls = str "HIS" then (if s = str "HIP" then 1 else 0)
        else if r.cls = str "CYS" then (if s = str "CYM" then -1 else 0)
        else if r.cls = str "LYS" then (if s = str "LYN" then 0 else 1)
        else if r.cls = str "TYR" then (if s = str "TYM" then -1 else 0)
        else if r.cls = str "ARG" then (if s = str "AR0" then 0 else 1)
        else 0
      -- a terminus is neutral only when the run asked for it; N-terminal proline is charged
      let term : Int :=
        if r.isNterm then (if patched r "NEUTRAL-NTERM" && r.cls ≠ str "PRO" then 0 else 1)
        else if r.isCterm then (if patched r "NEUTRAL-CTERM" then 0 else -1)
        else 0
      some (side + term)
  else if isNucleic r then some (if has r "P" then -1 else 0)
  else if isWater r then some 0
  else none

end P2P.Termini
