/-
  P2P.Model.Carboxylic — the atom-name bookkeeping of hydrogens/structures.py `Carboxylic`
  (protonated ASP / GLU: ASH, GLH), at the level of names.

  A protonated carboxyl group is built with both alternative protons (HD1 on OD1, HD2 on OD2;
  HE1/HE2 for GLH). `__init__` doubles each processed proton into two candidate positions
  (`HD1 → HD11`, new `HD12`), the hydrogen-bond search eliminates candidates, and `rename`
  gives the survivor the name the force fields expect (`…2`), swapping the names of the two
  oxygens through the temporary name `FLIP` when the survivor sat on the first oxygen.
  Geometry enters as the choices the real run made (which candidate was eliminated / kept),
  logged by the harness; the theorems quantify over all choices.
-/
import P2P.Model.Atoms

namespace P2P.Carboxylic
open P2P P2P.Atoms

structure St where
  names : Names
  /-- candidate hydrogens still alive (`self.hlist`), by current name -/
  hlist : List Str
  /-- the oxygens (`self.atomlist`), by current name, in the order they were appended -/
  atomlist : List Str
  fixed : Bool
deriving Repr, DecidableEq, Inhabited

/-- rename an atom object: its name changes wherever the object is referenced -/
def renameAll (s : St) (old new : Str) : St :=
  { s with names := rename s.names old new,
           hlist := s.hlist.map (fun x => if x = old then new else x),
           atomlist := s.atomlist.map (fun x => if x = old then new else x) }

def removeAtom (s : St) (n : Str) : St :=
  { s with names := remove s.names n, hlist := s.hlist.filter (· ≠ n) }

/-- `__init__`: `order` = the proton names processed, in order (one when one C–O bond is clearly
longer, else both); `oxy h` = the oxygen `h` is bonded to; `skip h` = its torsion is undefined -/
def init (names : Names) (order : List Str) (oxy : Str → Str) (skip : Str → Bool) : St :=
  order.foldl (fun s h =>
    if skip h then { s with atomlist := s.atomlist ++ [oxy h] }
    else
      let s := renameAll s h (h ++ ['1'])
      { s with names := create s.names (h ++ ['2']), atomlist := s.atomlist ++ [oxy h],
               hlist := s.hlist ++ [h ++ ['1'], h ++ ['2']] })
    { names, hlist := [], atomlist := [], fixed := false }

def endsWith1 (n : Str) : Bool := n.getLast? = some '1'
def stem (n : Str) : Str := n.dropLast

/-- the O-swap through the temporary name `FLIP` -/
def swapO (s : St) : St :=
  match s.atomlist with
  | [o0, o1] =>
    let s := renameAll s o0 flipSuffix
    let s := renameAll s o1 o0
    renameAll s flipSuffix o1
  | _ => s

/-- `rename(hydatom)`; `other h` = the oxygen name to append when only one oxygen is listed
(`optinstance.map[hname].bond` of the other proton) -/
def renameH (s : St) (hyd : Str) (proton1 proton2 : Str) (oxy : Str → Str) : St :=
  if !s.names.contains hyd then s else
  -- take off the extension
  let (s, hyd) := if hyd.length = 4 then (renameAll s hyd (stem hyd), stem hyd) else (s, hyd)
  if s.atomlist.length = 2 then
    if endsWith1 hyd then
      let s := renameAll s hyd (stem hyd ++ ['2'])
      swapO s
    else s
  else if s.atomlist.length = 1 then
    -- append the other oxygen
    let s := [proton1, proton2].foldl (fun s h =>
      if s.atomlist.head? ≠ some (oxy h) && !s.atomlist.contains (oxy h) then { s with atomlist := s.atomlist ++ [oxy h] } else s) s
    if endsWith1 hyd then
      let s := if s.names.contains (stem hyd ++ ['2']) then removeAtom s (stem hyd ++ ['2']) else s
      let s := renameAll s hyd (stem hyd ++ ['2'])
      swapO s
    else s
  else s

/-- `try_acceptor` when a hydrogen bond to this group is found: the closer of the first two
candidates is eliminated (`elimFirst`) -/
def tryAcceptor (s : St) (elimFirst : Bool) (p1 p2 : Str) (oxy : Str → Str) : St :=
  match s.hlist with
  | h0 :: h1 :: _ =>
    let (s, donorh) := if elimFirst then (removeAtom s h0, some h1) else (removeAtom s h1, some h0)
    if s.hlist.length = 1 then
      let s := match donorh with | some d => renameH s d p1 p2 oxy | none => s
      { s with fixed := true }
    else s
  | _ => s

/-- `fix`: the candidate that makes the bond is kept, every other candidate removed -/
def fix (s : St) (keep : Str) (p1 p2 : Str) (oxy : Str → Str) : St :=
  let s := s.hlist.foldl (fun s h => if h ≠ keep then removeAtom s h else s) s
  let s := renameH s keep p1 p2 oxy
  { s with fixed := true }

/-- `finalize`: `best` = the candidate with the lowest energy (none if there is none) -/
def finalize (s : St) (best : Option Str) (p1 p2 : Str) (oxy : Str → Str) : St :=
  if s.fixed then s else
  let s := s.hlist.foldl (fun s h => if some h ≠ best then removeAtom s h else s) s
  let s := match best with
    | some b => if b.length = 4 then renameH s b p1 p2 oxy else s
    | none => s
  { s with fixed := true }

/-- `complete` -/
def complete (s : St) (best : Option Str) (p1 p2 : Str) (oxy : Str → Str) : St :=
  let s := if s.hlist.length = 2 && s.fixed then { s with fixed := false } else s
  if !s.fixed then finalize s best p1 p2 oxy else s

/-! ### what the optimisation loop can do between construction and `complete` -/

inductive COp where
  /-- `try_acceptor` found a bond: the first (`true`) or the second of the first two candidates goes -/
  | acc (elimFirst : Bool)
  /-- `fix` (from `try_donor` / `try_both`): candidate number `k` of the list is kept -/
  | fix (k : Nat)
deriving Repr, DecidableEq, Inhabited

def step (p1 p2 : Str) (oxy : Str → Str) (s : St) : COp → St
  | .acc b => tryAcceptor s b p1 p2 oxy
  | .fix k => match s.hlist[k]? with
    | some h => fix s h p1 p2 oxy
    | none => s

/-- the whole life of one object: construction, any sequence of steps, `complete` with candidate
`bestIdx` (modulo the number left) as the lowest-energy one, then `cleanup` of the residue -/
def run (names : Names) (p1 p2 : Str) (oxy : Str → Str) (order : List Str) (ops : List COp) (bestIdx : Nat) : Names :=
  let s := ops.foldl (step p1 p2 oxy) (init names order oxy (fun h => !names.contains h))
  let best := if s.hlist.isEmpty then none else s.hlist[bestIdx % s.hlist.length]?
  cleanup (complete s best p1 p2 oxy).names p1 p2

/-- the four ways `__init__` can go: both protons doubled in either order, or only one when one
C–O bond is clearly longer -/
def orders (p1 p2 : Str) : List (List Str) := [[p1, p2], [p2, p1], [p1], [p2]]

/-- ASH -/
def HD1 : Str := str "HD1"
def HD2 : Str := str "HD2"
def OD1 : Str := str "OD1"
def OD2 : Str := str "OD2"
def oxyD (h : Str) : Str := if h = HD1 then OD1 else OD2
/-- every name the ASH object may create, rename to or look at -/
def alphabetD : List Str := [OD1, OD2, HD1, HD2, str "HD11", str "HD12", str "HD21", str "HD22", flipSuffix]

/-- GLH -/
def HE1 : Str := str "HE1"
def HE2 : Str := str "HE2"
def OE1 : Str := str "OE1"
def OE2 : Str := str "OE2"
def oxyE (h : Str) : Str := if h = HE1 then OE1 else OE2
def alphabetE : List Str := [OE1, OE2, HE1, HE2, str "HE11", str "HE12", str "HE21", str "HE22", flipSuffix]

end P2P.Carboxylic
