/-
  P2P.Model.PdbRead — PDB ingestion.

  Mirrors
    pdb.py          read_pdb (line loop, errlist), ATOM/HETATM.__init__, read_atom, MODEL/TER/END
    biomolecule.py  Biomolecule.__init__ (chain assignment, residue boundaries, END/MODEL/TER)
    residue.py/aa.py/na.py  residue constructors: first occurrence of an atom name wins
    main.py         drop_water (through BaseRecord.record_type)
  Records other than ATOM/HETATM/TER/END/MODEL have no effect on the atoms and are `other`.
-/
import P2P.Text
import P2P.Model.Pqr

namespace P2P.PdbRead
open P2P

structure AtomRec where
  het : Bool
  /-- `record_type()`: columns 1-6 of the stored line, stripped -/
  rtype : Str
  serial : Int
  name : Str
  altLoc : Str
  resName : Str
  chain : Str
  resSeq : Int
  ins : Str
  x : PyFloat
  y : PyFloat
  z : PyFloat
deriving Repr, DecidableEq, Inhabited

inductive Rec where
  | atom (a : AtomRec)
  | ter
  | end_
  | model
  | other
deriving Repr, DecidableEq, Inhabited

inductive RErr where
  | valueError | indexError | attributeError | tooManyChains
deriving Repr, DecidableEq, Inhabited

def pyInt (s : Str) : Except RErr Int :=
  match parseInt? s with | some n => .ok n | none => .error .valueError
def pyFloat (s : Str) : Except RErr PyFloat :=
  match parseFloat? s with | some v => .ok v | none => .error .valueError
/-- `line[i].strip()` -/
def idx (s : Str) (i : Nat) : Except RErr Str :=
  match s.drop i with | [] => .error .indexError | c :: _ => .ok (strip [c])

/-- `ATOM.__init__` / `HETATM.__init__` (the coordinate part; the trailing
occupancy…charge block is optional in the code and carries nothing we observe). -/
def parseAtom (het : Bool) (line : Str) : Except RErr AtomRec := do
  let serial ← pyInt (slice line 6 11)
  let name := strip (slice line 12 16)
  let altLoc ← idx line 16
  let resName := strip (slice line 17 20)
  let toV (e : Except RErr Str) : Except RErr Str :=   -- HETATM turns IndexError into ValueError here
    if het then (match e with | .error .indexError => .error .valueError | r => r) else e
  let chain ← toV (idx line 21)
  let resSeq ← pyInt (slice line 22 26)
  let ins ← toV (idx line 26)
  let x ← pyFloat (slice line 30 38)
  let y ← pyFloat (slice line 38 46)
  let z ← pyFloat (slice line 46 54)
  let rtype := strip (slice line 0 6)
  return { het, rtype, serial, name, altLoc, resName, chain, resSeq, ins, x, y, z }

/-- `words[i]` with Python's IndexError -/
def word (ws : List Str) (i : Nat) : Except RErr Str :=
  match ws.drop i with | [] => .error .indexError | w :: _ => .ok w

/-- the search loop of `read_atom`: scan from the right for 5 consecutive floats -/
def findRun (words : List Str) (size : Nat) : Nat → Nat → Nat → Nat
  | 0, _, _ => 0
  | fuel + 1, i, consec =>
    if i ≥ size then 0 else
    match parseFloat? (words.getD (size - i) []) with
    | some _ => if consec + 1 = 5 then i else findRun words size fuel (i + 1) (consec + 1)
    | none => findRun words size fuel (i + 1) 0

/-- `read_atom(line)`: whitespace fallback for short lines -/
def readAtom (line : Str) : Except RErr AtomRec := do
  let words := splitWs line
  let size := words.length - 1
  let iword := findRun words size (size + 1) 0 0
  let record := strip (slice line 0 6)
  let w0 ← (if size < iword + 1 then .error .indexError else word words (size - iword - 1))
  let w1 ← word words (size - iword)
  let w2 ← word words (size - iword + 1)
  let w3 ← word words (size - iword + 2)
  let w4 ← word words (size - iword + 3)
  let w5 ← word words (size - iword + 4)
  let newline := slice line 0 22 ++ rjust w0 4 ++ str "   " ++ rjust w1 8 ++ rjust w2 8 ++ rjust w3 8
    ++ rjust w4 6 ++ rjust w5 6
  parseAtom (record = str "HETATM") newline

/-- the `while True` loop of `read_pdb`. `modelErr`: "MODEL" is in `errlist`. -/
def readLoop : List Str → Bool → List Rec → Except RErr (List Rec)
  | [], _, acc => .ok acc.reverse
  | raw :: rest, modelErr, acc =>
    let line := strip raw
    if line = [] then readLoop rest modelErr acc else      -- blank line: `continue`
    let record := strip (slice line 0 6)
    if record = str "ATOM" || record = str "HETATM" then
      match parseAtom (record = str "HETATM") line with
      | .ok a => readLoop rest modelErr (.atom a :: acc)
      | .error .indexError =>
        match readAtom line with
        | .ok a => readLoop rest modelErr (.atom a :: acc)
        | .error .indexError => readLoop rest modelErr acc       -- logged, skipped
        | .error e => .error e
      | .error e => .error e                                     -- `raise details`
    else if record = str "TER" then readLoop rest modelErr (.ter :: acc)
    else if record = str "END" then readLoop rest modelErr (.end_ :: acc)
    else if record = str "MODEL" then readLoop rest modelErr (.model :: acc)   -- serial is optional
    else readLoop rest modelErr (.other :: acc)

/-- `read_pdb` on the lines `readline()` yields -/
def readPdb (lines : List Str) : Except RErr (List Rec) := readLoop lines false []

/-! ### Biomolecule.__init__ -/

def chainAlphabet : Str :=
  str "ABCDEFGHIJKLMNOPQRSTUVWXYZabcdefghijklmnopqrstuvwxyz0123456789"

def isWaterName (n : Str) : Bool := n = str "WAT" || n = str "HOH"

structure GState where
  /-- `chain_dict` in insertion order: chain id ↦ residues, each the list of its records -/
  chains : List (Str × List (List AtomRec))
  prev : Option AtomRec
  residue : List AtomRec
  numModels : Nat
  count : Nat
  stopped : Bool       -- `break`
deriving Repr, Inhabited

def addChain (cs : List (Str × List (List AtomRec))) (c : Str) : List (Str × List (List AtomRec)) :=
  if cs.any (·.1 = c) then cs else cs ++ [(c, [])]

def addResidue (cs : List (Str × List (List AtomRec))) (c : Str) (r : List AtomRec) :
    List (Str × List (List AtomRec)) :=
  cs.map (fun (k, rs) => if k = c then (k, rs ++ [r]) else (k, rs))

/-- `create_residue(residue, …)` followed by `chain_dict[prev.chain].add_residue`;
an empty atom list is `atoms[-1]` → IndexError; no previous atom is AttributeError. -/
def flush (s : GState) : Except RErr GState :=
  match s.prev with
  | none => .error .attributeError
  | some p =>
    if s.residue = [] then .error .indexError
    else .ok { s with chains := addResidue s.chains p.chain s.residue, residue := [] }

def gstep (numChains : Nat) (s : GState) (r : Rec) : Except RErr GState :=
  if s.stopped then .ok s else
  match r with
  | .atom a0 => do
    let a ←
      if a0.chain = [] && numChains > 1 && !isWaterName a0.resName then
        match chainAlphabet.drop s.count with
        | [] => .error .tooManyChains
        | c :: _ => pure { a0 with chain := [c] }
      else pure a0
    let prev := s.prev.getD a
    let s1 := { s with chains := addChain s.chains a.chain, prev := some prev }
    let s2 ←
      if s1.residue ≠ [] && (a.resSeq ≠ prev.resSeq || a.ins ≠ prev.ins || a.chain ≠ prev.chain) then flush s1
      else pure s1
    pure { s2 with residue := s2.residue ++ [a], prev := some a }
  | .end_ => if s.residue = [] then .ok s else flush s
  | .model =>
    let s := { s with numModels := s.numModels + 1 }
    if s.numModels > 1 then do
      let s ← if s.residue ≠ [] then flush s else pure s
      pure { s with stopped := true, residue := [] }
    else .ok s
  | .ter => .ok { s with count := s.count + 1 }
  | .other => .ok s

/-- lexicographic `≤` on strings by code point (Python's `list.sort` on `str`) -/
def strLe : Str → Str → Bool
  | [], _ => true
  | _ :: _, [] => false
  | a :: as, b :: bs => if a.toNat < b.toNat then true else if a.toNat > b.toNat then false else strLe as bs

def insertSorted (x : Str × List (List AtomRec)) : List (Str × List (List AtomRec)) → List (Str × List (List AtomRec))
  | [] => [x]
  | y :: ys => if strLe x.1 y.1 then x :: y :: ys else y :: insertSorted x ys

def sortChains (cs : List (Str × List (List AtomRec))) : List (Str × List (List AtomRec)) :=
  cs.foldl (fun acc c => insertSorted c acc) []

/-- residues (as record lists, before the constructors' de-duplication) in the
order of `biomolecule.residues` -/
def group (recs : List Rec) : Except RErr (List (List AtomRec)) := do
  let numChains := 1 + (recs.filter (· = .ter)).length
  let s ← recs.foldlM (gstep numChains) { chains := [], prev := none, residue := [], numModels := 0, count := 0, stopped := false }
  let s ← if s.residue ≠ [] && s.numModels ≤ 1 then flush s else pure s
  let cs := s.chains.map (fun (k, rs) => (if k = [] then str "ZZ" else k, rs))
  pure ((sortChains cs).flatMap (·.2))

/-- residue constructors: the first record with a given atom name wins -/
def dedupe : List AtomRec → List AtomRec
  | [] => []
  | a :: as => a :: (dedupe as).filter (fun b => b.name ≠ a.name)

/-- `Biomolecule(pdblist).residues` as lists of kept records -/
def biomolecule (recs : List Rec) : Except RErr (List (List AtomRec)) :=
  (group recs).map (·.map dedupe)

/-- `main.drop_water` -/
def dropWater (recs : List Rec) : List Rec :=
  recs.filter (fun r => match r with
    | .atom a => !((a.rtype = str "HETATM" || a.rtype = str "ATOM") && isWaterName a.resName)
    | _ => true)

/-- the whole ingestion path of `main_driver` up to `setup_molecule` -/
def ingest (dropW : Bool) (lines : List Str) : Except RErr (List (List AtomRec)) := do
  let recs ← readPdb lines
  biomolecule (if dropW then dropWater recs else recs)

end P2P.PdbRead
