/-
  P2P.Model.NucCharge — "a nucleic-acid strand with free 5'/3' ends carries −1 per phosphate".

  A nucleotide of a strand is looked up under its sugar-specific base name (`DA … RU`, chosen by
  `ADE/CYT/GUA/THY/URA.set_state` from the presence of O2') plus the suffix `Nucleic.set_state`
  appends: `5` for the first residue of the strand, `3` for the last. Its run-time atoms are those
  of the base definition after the patches `assign_termini` applies (`5TERM`: the 5'-phosphate
  P, O1P, O2P removed, H5T added; `3TERM`: H3T added) — computed here with the same
  `Topology.applyPatch` the stage model uses, NOT read from the load-time definitions `DA5`, `DA3`
  (there is no load-time definition `DT5` at all, yet `DT5` is what a 5'-thymidine is looked up as).

  The end cells are fractional by design (−0.3079 / −0.6921 e in AMBER): only a whole strand is
  integral. `nucCell` is the exact sum of one residue, `strandTotal` the exact sum of a strand.
-/
import P2P.Model.ChargeTable

namespace P2P.NucCharge
open P2P P2P.Topology P2P.ChargeTable

/-- position of a nucleotide in its strand -/
inductive Pos where
  | five | mid | three
deriving Repr, DecidableEq

/-- the eight look-up base names `set_state` can produce -/
def dnaBases : List Str := [str "DA", str "DC", str "DG", str "DT"]
def rnaBases : List Str := [str "RA", str "RC", str "RG", str "RU"]
def bases : List Str := dnaBases ++ rnaBases

/-- `Nucleic.set_state`: the suffix appended to the look-up name -/
def suffix : Pos → Str
  | .five => str "5"
  | .mid => []
  | .three => str "3"

/-- `assign_termini`: the patch applied to the first / last nucleotide of a chain -/
def patchName : Pos → Option Str
  | .five => some (str "5TERM")
  | .mid => none
  | .three => some (str "3TERM")

def ffName (base : Str) (p : Pos) : Str := base ++ suffix p

/-- run-time reference atoms of a nucleotide at a strand position -/
def runtimeAtoms (residues : List ResDef) (patches : List PatchDef) (base : Str) (p : Pos) : Option (List Str) :=
  match findRes residues base with
  | none => none
  | some r =>
    match patchName p with
    | none => some r.names
    | some pn =>
      match findPatch patches pn with
      | none => none
      | some pd => some (applyPatch pd r []).1.names

/-- exact charge of one nucleotide (units of 10^-unitExp e); `none` when the force field does not
know the look-up name or not every atom -/
def nucCell (residues : List ResDef) (patches : List PatchDef) (ff : List (Str × List (Str × Int)))
    (base : Str) (p : Pos) : Option Int :=
  match ff.lookup (ffName base p), runtimeAtoms residues patches base p with
  | some entries, some atoms => cellSum entries atoms
  | _, _ => none

/-- a strand with free ends: first residue, middle residues, last residue (at least two residues;
a one-residue "strand" is looked up as `DA53`, which no force field defines) -/
structure Strand where
  first : Str
  mids : List Str
  last : Str
deriving Repr, DecidableEq

/-- the 5'-phosphate is removed by design, so every residue but the first carries one -/
def Strand.phosphates (s : Strand) : Nat := s.mids.length + 1

def addOpt (a b : Option Int) : Option Int :=
  match a, b with
  | some x, some y => some (x + y)
  | _, _ => none

/-- sum of the middle residues -/
def midsTotal (cell : Str → Pos → Option Int) : List Str → Option Int
  | [] => some 0
  | b :: bs => addOpt (cell b .mid) (midsTotal cell bs)

def strandTotal (cell : Str → Pos → Option Int) (s : Strand) : Option Int :=
  addOpt (addOpt (cell s.first .five) (cell s.last .three)) (midsTotal cell s.mids)

/-- the table fact for one sugar kind: every parameterised middle residue sums to −1, and every
parameterised 5' end together with every parameterised 3' end sums to −1 -/
def kindOK (unit : Int) (cell : Str → Pos → Option Int) (kind : List Str) : Bool :=
  kind.all (fun b => match cell b .mid with | some q => q = -unit | none => true) &&
  kind.all (fun x => kind.all (fun y =>
    match cell x .five, cell y .three with
    | some q5, some q3 => q5 + q3 = -unit
    | _, _ => true))

/-- number of parameterised cells of a kind (3 positions × 4 bases at most) -/
def kindCovered (cell : Str → Pos → Option Int) (kind : List Str) : Nat :=
  (kind.flatMap (fun b => [Pos.five, Pos.mid, Pos.three].map (fun p => (cell b p).isSome))).count true

/-- the 5'-phosphate is gone and the capping hydrogen there, at the name level -/
def fiveEndShape (atoms : List Str) : Bool :=
  !atoms.contains (str "P") && !atoms.contains (str "O1P") && !atoms.contains (str "O2P") &&
  atoms.contains (str "H5T") && atoms.contains (str "O5'")

end P2P.NucCharge
