/-
  P2P.Model.ChargeTable — "the numbers of a force field add up to the formal charge of the state".

  For a definition name (the name a residue is looked up under in its final state: LYS, NLYS,
  CASP, NEUTRAL-CGLU, HID, CYX …), `formalOfName` is the formal charge that name stands for,
  `cellAtoms` the atoms a residue in that state carries (the regenerated definition without the
  pseudo-atoms; of the two alternative protons of a protonated carboxyl group only the one that
  remains), `cellSum` the exact sum of the regenerated force-field charges over those atoms —
  `none` when the force field does not parameterise every atom of the state.
-/
import P2P.Model.Topology

namespace P2P.ChargeTable
open P2P P2P.Topology

def pseudo (n : Str) : Bool := n = str "N+1" || n = str "C-1"

/-- terminus prefix of a definition name and the base name: (charge of the terminus, base) -/
def splitName (n : Str) : Int × Str :=
  if (str "NEUTRAL-N").isPrefixOf n then (0, n.drop 9)
  else if (str "NEUTRAL-C").isPrefixOf n then (0, n.drop 9)
  else if n.length = 4 && n.head? = some 'N' then (1, n.drop 1)
  else if n.length = 4 && n.head? = some 'C' then (-1, n.drop 1)
  else (0, n)

/-- formal charge of a side chain state -/
def sideCharge (base : Str) : Int :=
  if base = str "ASP" || base = str "GLU" || base = str "CYM" || base = str "TYM" then -1
  else if base = str "LYS" || base = str "ARG" || base = str "HIP" || base = str "HSP" || base = str "HIS" then 1
  else 0

def formalOfName (n : Str) : Int := (splitName n).1 + sideCharge (splitName n).2

/-- atoms of a residue in the state named by the definition -/
def cellAtoms (r : ResDef) : List Str :=
  let names := r.names.filter (fun n => !pseudo n)
  let drop1 (first second : Str) (ns : List Str) : List Str :=
    if ns.contains first && ns.contains second then ns.filter (· ≠ first) else ns
  drop1 (str "HE1") (str "HE2") (drop1 (str "HD1") (str "HD2") names)

/-- exact sum of the charges, `none` if an atom has no entry -/
def cellSum (entries : List (Str × Int)) (atoms : List Str) : Option Int :=
  atoms.foldl (fun acc a => match acc, entries.lookup a with
    | some s, some q => some (s + q)
    | _, _ => none) (some 0)

/-- the carboxylic pair is dropped only for the protonated-carboxyl states -/
def isCarboxylicState (base : Str) : Bool := base = str "ASH" || base = str "GLH"

def atomsFor (r : ResDef) : List Str :=
  if isCarboxylicState (splitName r.name).2 then cellAtoms r else r.names.filter (fun n => !pseudo n)

/-- one cell: vacuous when the force field does not know the name or not every atom -/
def cellOK (unit : Int) (ff : List (Str × List (Str × Int))) (r : ResDef) : Bool :=
  match ff.lookup r.name with
  | none => true
  | some entries =>
    match cellSum entries (atomsFor r) with
    | none => true
    | some q => q = unit * formalOfName r.name

/-- is the cell fully parameterised (so that `cellOK` says something)? -/
def cellCovered (ff : List (Str × List (Str × Int))) (r : ResDef) : Bool :=
  match ff.lookup r.name with
  | none => false
  | some entries => (cellSum entries (atomsFor r)).isSome

end P2P.ChargeTable
