/-
  P2P.Model.Cif — mmCIF atom_site → PDB record assembly.

  Mirrors cif.py `atom_site` (the four copies of the column assembly are one function
  here: they are textually identical but for the HETATM record-name padding, which is
  a no-op) and `count_models`. A row is what `mmcif-pdbx` delivers for one atom_site
  row: item values as strings, `none` for Python `None` (the parser's rendering of `?`)
  and `""` for its rendering of `.`; both renderings and the literal markers are handled.
  The assembled text goes through `PdbRead.parseAtom` (= `pdb.ATOM(line)`), the record
  list through `PdbRead.biomolecule`.
-/
import P2P.Text
import P2P.Model.PdbRead

namespace P2P.Cif
open P2P P2P.PdbRead

structure Row where
  group : Str            -- group_PDB
  id : Str
  name : Str             -- label_atom_id
  alt : Option Str       -- label_alt_id
  comp : Str             -- label_comp_id
  asym : Str             -- label_asym_id
  authAsym : Option Str  -- auth_asym_id (none when the item is absent or `?`)
  seq : Str              -- auth_seq_id
  ins : Option Str       -- pdbx_PDB_ins_code (none also when the item is absent)
  x : Str
  y : Str
  z : Str
  occ : Str
  b : Str
  sym : Str              -- type_symbol
  charge : Option Str    -- pdbx_formal_charge
  model : Str            -- pdbx_PDB_model_num
deriving Repr, DecidableEq, Inhabited

/-- `v in (".", "?", "", None)` -/
def missing (v : Option Str) : Bool :=
  match v with
  | none => true
  | some s => s = ['.'] || s = ['?'] || s = []

/-- `_chain_id`: the author's chain identifier when present, else the label one -/
def chainId (r : Row) : Str := if missing r.authAsym then r.asym else r.authAsym.getD []

/-- `" " * (w - len(s)) + s` -/
def padL (s : Str) (w : Nat) : Str := rjust s w

/-- the text handed to `pdb.ATOM` / `pdb.HETATM` -/
def assemble (r : Row) : Str :=
  r.group ++ (if r.group = str "ATOM" then List.replicate (6 - r.group.length) ' ' else [])
  ++ padL r.id 5
  ++ (if r.name.length < 4 then str "  " else str " ")
  ++ r.name ++ List.replicate (3 - r.name.length) ' '
  ++ (if missing r.alt then [' '] else r.alt.getD [])
  ++ padL r.comp 3
  ++ [' ']
  ++ padL (chainId r) 1
  ++ padL r.seq 4
  ++ (if missing r.ins then [' '] else r.ins.getD [])
  ++ str "   "
  ++ padL r.x 8 ++ padL r.y 8 ++ padL r.z 8
  ++ padL r.occ 6 ++ padL r.b 6
  ++ List.replicate 10 ' '
  ++ padL r.sym 2
  ++ (if r.charge = some ['?'] then str "  " else [])

/-- `count_models`: distinct model numbers in order of first appearance -/
def countModels (rows : List Row) : List Str :=
  rows.foldl (fun acc r => if acc.contains r.model then acc else acc ++ [r.model]) []

inductive CErr where
  | valueError | indexError
deriving Repr, DecidableEq, Inhabited

def liftErr : RErr → CErr
  | .valueError => .valueError
  | _ => .indexError

/-- one row → record (rows whose group is neither ATOM nor HETATM are ignored) -/
def rowRec (r : Row) : Except CErr (Option Rec) :=
  if r.group = str "ATOM" then
    match parseAtom false (assemble r) with | .ok a => .ok (some (.atom a)) | .error e => .error (liftErr e)
  else if r.group = str "HETATM" then
    match parseAtom true (assemble r) with | .ok a => .ok (some (.atom a)) | .error e => .error (liftErr e)
  else .ok none

def rowsRecs (rows : List Row) : Except CErr (List Rec) := do
  let rs ← rows.mapM rowRec
  pure (rs.filterMap id)

/-- `atom_site(block)`: the coordinate part of the record list `read_cif` returns -/
def atomSite (rows : List Row) : Except CErr (List Rec) :=
  let models := countModels rows
  if models.length = 1 then rowsRecs rows
  else models.foldlM (fun acc j => do
    let rs ← rowsRecs (rows.filter (·.model = j))
    pure (acc ++ [Rec.model] ++ rs ++ [Rec.other])) []      -- MODEL j … ENDMDL

/-- from rows to `Biomolecule(…).residues` -/
def ingestCif (dropW : Bool) (rows : List Row) : Except CErr (List (List AtomRec)) := do
  let recs ← atomSite rows
  match biomolecule (if dropW then dropWater recs else recs) with
  | .ok r => pure r
  | .error e => throw (liftErr e)

/-! ### the PDB encoding of the same atom (spec: standard columns) -/

/-- the standard PDB coordinate line for the fields of a row (what an independent PDB
writer emits): name in columns 13-16 by the usual rule, altloc 17, residue 18-20, chain 22,
number 23-26, insertion code 27, coordinates 31-54, occupancy, B, element. -/
def pdbLine (r : Row) : Str :=
  ljust r.group 6
  ++ rjust r.id 5
  ++ [' ']
  ++ (if r.name.length < 4 then ' ' :: ljust r.name 3 else r.name)
  ++ (if missing r.alt then [' '] else r.alt.getD [])
  ++ rjust r.comp 3
  ++ [' ']
  ++ rjust (chainId r) 1
  ++ rjust r.seq 4
  ++ (if missing r.ins then [' '] else r.ins.getD [])
  ++ str "   "
  ++ rjust r.x 8 ++ rjust r.y 8 ++ rjust r.z 8
  ++ rjust r.occ 6 ++ rjust r.b 6
  ++ List.replicate 10 ' '
  ++ rjust r.sym 2

/-- decidable well-formedness: a row expressible in both formats -/
def RowOK (r : Row) : Bool :=
  (r.group = str "ATOM" || r.group = str "HETATM") &&
  (1 ≤ r.id.length && r.id.length ≤ 5) &&
  (1 ≤ r.name.length && r.name.length ≤ 4) &&
  (missing r.alt || (r.alt.getD []).length = 1) &&
  (1 ≤ r.comp.length && r.comp.length ≤ 3) &&
  ((chainId r).length = 1) &&
  (1 ≤ r.seq.length && r.seq.length ≤ 4) &&
  (missing r.ins || (r.ins.getD []).length = 1) &&
  (1 ≤ r.x.length && r.x.length ≤ 8) && (1 ≤ r.y.length && r.y.length ≤ 8) && (1 ≤ r.z.length && r.z.length ≤ 8) &&
  (r.occ.length ≤ 6) && (r.b.length ≤ 6) && (r.sym.length ≤ 2)

end P2P.Cif
