/-
  P2P.Model.Psize — the APBS grid suggestion.

  Mirrors psize.py `parse_lines` (character level) and `set_length … set_fine_grid_points`
  + the memory estimate of `__str__` / `inputgen.Elec.__init__`, and the first lines of
  `inputgen.Input.__str__` / `Elec.__str__` for `io.dump_apbs` (method mg-auto, potdx).
  Arithmetic is written once over `PNum`; the driver runs it in `Float` (bit-for-bit
  Python's arithmetic), the theorems instantiate it in an ordered field.
  Not modelled: `set_smallest`, `set_proc_grid`, `set_focus` (parallel focusing; not
  part of the property).
-/
import P2P.Text
import P2P.Model.Pqr

namespace P2P.Psize
open P2P

/-! ### line parser -/

/-- Python `s.replace("-", " -")` -/
def replaceMinus : Str → Str
  | [] => []
  | c :: cs => if c = '-' then ' ' :: '-' :: replaceMinus cs else c :: replaceMinus cs

structure PLine where
  isAtom : Bool
  isHet : Bool
  /-- `x y z charge radius` when the line has at least five words after column 30 -/
  vals : Option (PyFloat × PyFloat × PyFloat × PyFloat × PyFloat)
deriving Repr, DecidableEq, Inhabited

inductive PErr where
  | valueError
deriving Repr, DecidableEq, Inhabited

/-- one iteration of `parse_lines` (after the fix: lines that are neither ATOM nor HETATM
records are skipped). `none` = the line contributes nothing. -/
def parseLine (line : Str) : Except PErr (Option PLine) :=
  let isAtom := startsWith line (str "ATOM")
  let isHet := !isAtom && startsWith line (str "HETATM")
  if !isAtom && !isHet then .ok none else
  let words := splitWs (replaceMinus (line.drop 30))
  match words with
  | w0 :: w1 :: w2 :: w3 :: w4 :: _ =>
    -- evaluation order of the code: charge (words[3]), radius (words[4]), then the centre
    match parseFloat? w3, parseFloat? w4, parseFloat? w0, parseFloat? w1, parseFloat? w2 with
    | some q, some r, some x, some y, some z => .ok (some { isAtom, isHet, vals := some (x, y, z, q, r) })
    | _, _, _, _, _ => .error .valueError
  | _ => .ok (some { isAtom, isHet, vals := none })

/-! ### arithmetic -/

class PNum (α : Type) extends Add α, Sub α, Mul α, Div α where
  /-- `m / 10^e` -/
  dec : Nat → Nat → α
  ofInt : Int → α
  lt : α → α → Bool
  /-- Python `int(x)`: truncation toward zero -/
  trunc : α → Int

variable {α : Type} [PNum α]

def pmax (a b : α) : α := if PNum.lt a b then b else a     -- Python max(a, b): first maximal
def pmin (a b : α) : α := if PNum.lt b a then b else a     -- Python min(a, b)

structure Acc (α : Type) where
  gotatom : Nat
  gothet : Nat
  charge : α
  minlen : Option (α × α × α)
  maxlen : Option (α × α × α)

def acc0 : Acc α := { gotatom := 0, gothet := 0, charge := PNum.dec 0 0, minlen := none, maxlen := none }

def upMin (m : Option α) (v : α) : α := match m with | none => v | some o => if PNum.lt v o then v else o
def upMax (m : Option α) (v : α) : α := match m with | none => v | some o => if PNum.lt o v then v else o

/-- accumulation step of `parse_lines` for one parsed line -/
def accStep (a : Acc α) (isAtom isHet : Bool) (v : Option (α × α × α × α × α)) : Acc α :=
  let a := { a with gotatom := a.gotatom + (if isAtom then 1 else 0), gothet := a.gothet + (if isHet then 1 else 0) }
  match v with
  | none => a
  | some (x, y, z, q, r) =>
    { a with
      charge := a.charge + q
      minlen := some (upMin (a.minlen.map (·.1)) (x - r), upMin (a.minlen.map (·.2.1)) (y - r), upMin (a.minlen.map (·.2.2)) (z - r))
      maxlen := some (upMax (a.maxlen.map (·.1)) (x + r), upMax (a.maxlen.map (·.2.1)) (y + r), upMax (a.maxlen.map (·.2.2)) (z + r)) }

structure Params (α : Type) where
  cfac : α
  fadd : α
  space : α

structure Grid (α : Type) where
  molLength : α
  coarse : α
  fine : α
  center : α
  ngrid : Int

/-- one axis of `set_length … set_fine_grid_points` -/
def axis (p : Params α) (mx mn : α) : Grid α :=
  let mol := pmax (mx - mn) (PNum.dec 1 1)
  let coarse := p.cfac * mol
  let fine := pmin (mol + p.fadd) coarse
  let center := (mx + mn) / PNum.dec 2 0
  let tempNum : Int := PNum.trunc (fine / p.space + (PNum.dec 5 1 : α))
  let n : Int := 32 * PNum.trunc ((PNum.ofInt (tempNum - 1) : α) / PNum.dec 320 1 + (PNum.dec 5 1 : α)) + 1
  { molLength := mol, coarse, fine, center, ngrid := max n 33 }

/-- `200.0 * nx * ny * nz / 1024 / 1024` -/
def gmem (nx ny nz : Int) : α :=
  (PNum.dec 2000 1 : α) * PNum.ofInt nx * PNum.ofInt ny * PNum.ofInt nz / PNum.dec 1024 0 / PNum.dec 1024 0

/-! ### input file (structure only: the numeric fields are rendered by the harness) -/

/-- `Path(p).name` for a POSIX path -/
def baseName (p : Str) : Str := ((splitOnChar '/' p).filter (· ≠ [])).getLastD []

/-- the lines of `str(Input(pqrpath, size, "mg-auto", 0, potdx=True))` that the property talks
about: the `read` section and the `dime` line -/
def inputHead (pqrpath : Str) (nx ny nz : Int) : List Str :=
  [ str "read", str "    mol pqr " ++ baseName pqrpath, str "end", str "elec ", str "    mg-auto",
    str "    dime " ++ intStr nx ++ [' '] ++ intStr ny ++ [' '] ++ intStr nz ]

end P2P.Psize
