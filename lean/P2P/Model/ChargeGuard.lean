/-
  P2P.Model.ChargeGuard — utilities.py `noninteger_charge`: the test that stands between a
  computed structure and the output file (main.non_trivial raises on the total charge).
  Written over a small arithmetic interface: `Float` in the driver, ℚ in the proofs.
-/
namespace P2P.ChargeGuard

class RNum (α : Type) extends Sub α where
  abs : α → α
  round : α → α
  lt : α → α → Bool

/-- `bool(noninteger_charge(charge, error_tol))`: the deviation from the nearest integer exceeds
the tolerance -/
def nonInteger {α : Type} [RNum α] (charge tol : α) : Bool :=
  RNum.lt (RNum.abs tol) (RNum.abs (charge - RNum.round charge))

/-! ### the repair gate (main.py `is_repairable`) -/

/-- what `is_repairable(biomolecule, has_ligand)` does with the two counts it reads -/
inductive Gate where
  | noHeavyError      -- no heavy atom, no ligand: raises ValueError
  | noHeavyLigand     -- no heavy atom but a ligand: warns, returns False
  | clean             -- nothing missing: returns False (no repair needed)
  | tooMany           -- more than the repair limit (0.1) missing: logs an error, returns False
  | repair            -- returns True
deriving Repr, DecidableEq, Inhabited

/-- `float(num_missing) / float(num_heavy) > 0.1` for counts far below 2^50 is `10 * missing > heavy`
(the harness compares the two on a grid around the limit and on every run) -/
def repairGate (heavy missing : Nat) (hasLigand : Bool) : Gate :=
  if heavy = 0 then (if hasLigand then .noHeavyLigand else .noHeavyError)
  else if missing = 0 then .clean
  else if 10 * missing > heavy then .tooMany
  else .repair

end P2P.ChargeGuard
