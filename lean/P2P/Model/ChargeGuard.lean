/-
  P2P.Model.ChargeGuard — utilities.py `noninteger_charge`: the test that stands between a
  computed structure and the output file (main.non_trivial raises on the total charge).
  Written over a small arithmetic interface: `Float` in the driver, ℚ in the proofs.
-/
namespace P2P.ChargeGuard

class RNum (α : Type) extends Sub α where
  abs : α → α
  round : α → α
  lt : α → α → Bool

/-- `bool(noninteger_charge(charge, error_tol))`: the deviation from the nearest integer exceeds
the tolerance -/
def nonInteger {α : Type} [RNum α] (charge tol : α) : Bool :=
  RNum.lt (RNum.abs tol) (RNum.abs (charge - RNum.round charge))

end P2P.ChargeGuard
