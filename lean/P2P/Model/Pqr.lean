/-
  P2P.Model.Pqr — the PQR writer and the two readers.

  Mirrors, statement for statement:
    structures.py  Atom.get_common_string_rep / get_pqr_string / from_pqr_line
    io.py          print_biomolecule_atoms / read_pqr
    main.py        print_pqr (the whitespace re-spacing and the TER/CIF rules)
  plus `slices`, the fixed-column reader that docs/source/formats/pqr.rst and the
  PDB column conventions define for the default layout.
-/
import P2P.Text

namespace P2P.Pqr
open P2P

structure PAtom where
  type : Str
  serial : Int
  name : Str
  resName : Str
  chain : Str
  resSeq : Int
  ins : Str
  x : Fix
  y : Fix
  z : Fix
  q : Option Fix      -- `ffcharge` (None prints 0.0000)
  r : Option Fix      -- `radius`
deriving Repr, DecidableEq, Inhabited

/-- `f"{v:8.3f}"` then `str.ljust(tstr, 8)[:8]`. -/
def coordField (v : Fix) : Str := (ljust (rjust (fmtFix 3 v) 8) 8).take 8

def nameField (n : Str) : Str :=
  if n.length = 4 || (stripChars (str "FLIP") n).length = 4 then (ljust n 4).take 4
  else ' ' :: (ljust n 3).take 3

def resNameField (n : Str) : Str :=
  if n.length = 4 then (ljust n 4).take 4 else ' ' :: (ljust n 3).take 3

def insField (ins : Str) : Str := if ins ≠ [] then ins ++ str "   " else str "    "

/-- The fields of `get_common_string_rep`, in order (concatenated by `fmtCommon`). -/
def commonFields (kc : Bool) (a : PAtom) : List Str :=
  [ (ljust a.type 6).take 6,
    (rjust (intStr a.serial) 5).take 5,
    [' '],
    nameField a.name,
    resNameField a.resName,
    [' '],
    (ljust (if kc then a.chain else []) 1).take 1,
    (rjust (intStr a.resSeq) 4).take 4,
    insField a.ins,
    coordField a.x, coordField a.y, coordField a.z ]

def optFix4 (v : Option Fix) : Str :=
  match v with
  | some f => fmtFix 4 f
  | none => str "0.0000"

def pqrFields (kc : Bool) (a : PAtom) : List Str :=
  commonFields kc a ++ [ (rjust (optFix4 a.q) 8).take 8, (rjust (optFix4 a.r) 7).take 7 ]

/-- `Atom.get_pqr_string(chainflag=kc)`. -/
def fmtPqr (kc : Bool) (a : PAtom) : Str := (pqrFields kc a).flatten

/-- `print_biomolecule_atoms(atoms, chainflag)` for PQR output: renumbers the
serials, puts `TER` between chains, ends with the single item `TER\nEND`. -/
def printAtomsAux (kc : Bool) : Option Str → Nat → List PAtom → List Str
  | _, _, [] => [str "TER\nEND"]
  | cur, i, a :: as =>
    let line := fmtPqr kc { a with serial := (i + 1 : Nat) } ++ ['\n']
    match cur with
    | none => line :: printAtomsAux kc (some a.chain) (i + 1) as
    | some c =>
      if a.chain ≠ c then str "TER\n" :: line :: printAtomsAux kc (some a.chain) (i + 1) as
      else line :: printAtomsAux kc cur (i + 1) as

def printAtoms (kc : Bool) (as : List PAtom) : List Str := printAtomsAux kc none 0 as

/-- the five slices of `print_pqr` (whitespace layout). -/
def wsRespace (l : Str) : Str :=
  slice l 0 6 ++ [' '] ++ slice l 6 16 ++ [' '] ++ slice l 16 38 ++ [' '] ++ slice l 38 46 ++ [' ']
    ++ sliceFrom l 46

/-- what `print_pqr` writes for one item of `pqr_lines`. -/
def printPqrLine (ws isCif : Bool) (l : Str) : Str :=
  if ws then
    if slice l 0 4 = str "ATOM" || slice l 0 6 = str "HETATM" then wsRespace l else []
  else if slice l 0 3 ≠ str "TER" || !isCif then l else []

/-- the bytes of the PQR file. -/
def printPqr (ws isCif : Bool) (lines : List Str) : Str :=
  (lines.map (printPqrLine ws isCif)).flatten ++ (if isCif then str "#\n" else [])

def writePqr (ws kc isCif : Bool) (as : List PAtom) : Str := printPqr ws isCif (printAtoms kc as)

/-! ### readers -/

/-- what a reader recovers from one line -/
structure Fields where
  type : Str
  serial : Int
  name : Str
  resName : Str
  chain : Str
  resSeq : Int
  ins : Str
  x : PyFloat
  y : PyFloat
  z : PyFloat
  q : PyFloat
  r : PyFloat
deriving Repr, DecidableEq, Inhabited

/-- Fixed-column reader of the default layout (PDB columns; charge 55-62, radius 63-69). -/
def slices (l : Str) : Option Fields := do
  let serial ← parseInt? (slice l 6 11)
  let resSeq ← parseInt? (slice l 22 26)
  let x ← parseFloat? (slice l 30 38)
  let y ← parseFloat? (slice l 38 46)
  let z ← parseFloat? (slice l 46 54)
  let q ← parseFloat? (slice l 54 62)
  let r ← parseFloat? (slice l 62 69)
  pure { type := strip (slice l 0 6), serial, name := strip (slice l 12 16),
         resName := strip (slice l 16 20), chain := strip (slice l 21 22), resSeq,
         ins := strip (slice l 26 27), x, y, z, q, r }

inductive PErr where
  | valueError
  | indexError            -- `words.pop(0)` on an empty list
deriving Repr, DecidableEq, Inhabited

def skipTokens : List Str :=
  ["REMARK", "TER", "END", "HEADER", "TITLE", "COMPND", "SOURCE", "KEYWDS", "EXPDTA", "AUTHOR",
   "REVDAT", "JRNL"].map str

def pop : List Str → Except PErr (Str × List Str)
  | [] => .error .indexError
  | w :: ws => .ok (w, ws)
def pyInt (s : Str) : Except PErr Int :=
  match parseInt? s with | some n => .ok n | none => .error .valueError
def pyFloat (s : Str) : Except PErr PyFloat :=
  match parseFloat? s with | some v => .ok v | none => .error .valueError

/-- `Atom.from_pqr_line`: `none` is Python's `None` (REMARK, TER, END, …). -/
def fromPqrLine (line : Str) : Except PErr (Option Fields) := do
  let (token, words) ← pop (splitWs line)
  if skipTokens.contains token then return none
  let (ty, words) ←
    if token = str "ATOM" || token = str "HETATM" then pure (token, words)
    else if token.take 4 = str "ATOM" then pure (str "ATOM", token.drop 4 :: words)
    else if token.take 6 = str "HETATM" then pure (str "HETATM", token.drop 6 :: words)
    else throw .valueError
  let (w, words) ← pop words
  let serial ← pyInt w
  let (name, words) ← pop words
  let (resName, words) ← pop words
  let (token, words) ← pop words
  let (chain, resSeq, words) ←
    match parseInt? token with
    | some n => pure (([] : Str), n, words)
    | none => do
      let (w, words) ← pop words
      let n ← pyInt w
      pure (token, n, words)
  let (token, words) ← pop words
  let (ins, x, words) ←
    match parseFloat? token with
    | some v => pure (([] : Str), v, words)
    | none => do
      let (w, words) ← pop words
      let v ← pyFloat w
      pure (token, v, words)
  let (w, words) ← pop words
  let y ← pyFloat w
  let (w, words) ← pop words
  let z ← pyFloat w
  let (w, words) ← pop words
  let q ← pyFloat w
  let (w, _) ← pop words
  let r ← pyFloat w
  return some { type := ty, serial, name, resName, chain, resSeq, ins, x, y, z, q, r }

/-- Python's text-mode line iteration: split after each `\n`. -/
def fileLines (s : Str) : List Str :=
  let rec go : Str → Str → List Str → List Str
    | [], cur, acc => (if cur.isEmpty then acc else cur.reverse :: acc).reverse
    | c :: cs, cur, acc => if c = '\n' then go cs [] ((c :: cur).reverse :: acc) else go cs (c :: cur) acc
  go s [] []

/-- `io.read_pqr`: list of atoms, or the first error. -/
def readPqr (file : Str) : Except PErr (List Fields) :=
  (fileLines file).foldlM (init := []) (fun acc l => do
    match ← fromPqrLine l with
    | none => pure acc
    | some f => pure (acc ++ [f]))

/-- the fields the property wants back, from the model atom -/
def decOfFix (k : Nat) (f : Fix) : PyFloat := .fin ⟨f.neg, f.mag, - (k : Int)⟩
def decOfOptFix4 (v : Option Fix) : PyFloat :=
  match v with
  | some f => decOfFix 4 f
  | none => .fin ⟨false, 0, -4⟩

def fieldsOf (kc : Bool) (a : PAtom) : Fields :=
  { type := a.type, serial := a.serial, name := a.name, resName := a.resName,
    chain := if kc then a.chain else [], resSeq := a.resSeq, ins := a.ins,
    x := decOfFix 3 a.x, y := decOfFix 3 a.y, z := decOfFix 3 a.z,
    q := decOfOptFix4 a.q, r := decOfOptFix4 a.r }

deriving instance DecidableEq for Except

/-! ### the domain on which the round trip holds (decidable; mirrored by the harness) -/

/-- no ASCII whitespace inside -/
def clean (s : Str) : Bool := s.all (fun c => !isWs c)

/-- the atom fits the fixed columns -/
def Fits (a : PAtom) : Bool :=
  (a.type = str "ATOM" || a.type = str "HETATM") &&
  (0 ≤ a.serial && a.serial < 100000) &&
  (1 ≤ a.name.length && a.name.length ≤ 4 && clean a.name) &&
  (1 ≤ a.resName.length && a.resName.length ≤ 4 && clean a.resName) &&
  (a.chain.length ≤ 1 && clean a.chain) &&
  (-999 ≤ a.resSeq && a.resSeq ≤ 9999) &&
  (a.ins.length ≤ 1 && clean a.ins) &&
  ((fmtFix 3 a.x).length ≤ 8 && (fmtFix 3 a.y).length ≤ 8 && (fmtFix 3 a.z).length ≤ 8) &&
  ((optFix4 a.q).length ≤ 8 && (optFix4 a.r).length ≤ 7)

/-- … and its tokens stay apart in the `--whitespace` layout and are read
unambiguously by pdb2pqr's own reader -/
def FitsWs (kc : Bool) (a : PAtom) : Bool :=
  Fits a && a.ins = [] &&
  (!(kc && a.chain ≠ []) || ((intStr a.resSeq).length ≤ 3 && !(a.chain.all Char.isDigit))) &&
  ((optFix4 a.q).length ≤ 7 && (optFix4 a.r).length ≤ 6)

end P2P.Pqr
