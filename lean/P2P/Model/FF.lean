/-
  P2P.Model.FF — force-field parameter map.

  Mirrors forcefield.py: the DAT line reader in `Forcefield.__init__`, `ForcefieldHandler`
  (`update_map`, `find_matching_names`, `endElement` for `<residue>` sections, cumulative),
  `get_params` / `get_names`; and biomolecule.py `apply_force_field`. Numbers stay exact
  decimals (`Dec`): `float(text)` is applied by the harness on both sides.
  Dictionaries are association lists with Python `dict` semantics (insertion order, in-place update).
-/
import P2P.Text
import P2P.Model.Regex

namespace P2P.FF
open P2P P2P.Regex

/-- `ForcefieldAtom` -/
structure Entry where
  name : Str
  q : Dec
  r : Dec
  resname : Str
  group : Str
deriving Repr, DecidableEq, Inhabited

/-- `ForcefieldResidue` -/
structure ResEntry where
  name : Str
  atoms : List (Str × Entry)
deriving Repr, DecidableEq, Inhabited

abbrev FFMap := List (Str × ResEntry)

/-- `d[k] = v` -/
def dset {β : Type} (d : List (Str × β)) (k : Str) (v : β) : List (Str × β) :=
  if d.any (·.1 = k) then d.map (fun (k', v') => if k' = k then (k', v) else (k', v')) else d ++ [(k, v)]
def dget? {β : Type} (d : List (Str × β)) (k : Str) : Option β := (d.find? (·.1 = k)).map (·.2)
def dhas {β : Type} (d : List (Str × β)) (k : Str) : Bool := d.any (·.1 = k)

inductive FErr where
  | valueError     -- unparsable number in the parameter file
  | indexError     -- fewer than four fields / pattern without the group `$group` needs
  | keyError       -- `useresname` names a residue the parameter file does not have
deriving Repr, DecidableEq, Inhabited

structure Row where
  res : Str
  atom : Str
  q : Dec
  r : Dec
  group : Str
deriving Repr, DecidableEq, Inhabited

def decOf (s : Str) : Except FErr Dec :=
  match parseFloat? s with
  | some (.fin d) => .ok d
  | some _ => .ok ⟨false, 0, 0⟩      -- inf/nan: outside the documented format (generators never produce it)
  | none => .error .valueError

/-- one line of the DAT file: `none` for comments and blank lines -/
def parseDatLine (line : Str) : Except FErr (Option Row) :=
  if startsWith line ['#'] then .ok none else
  match splitWs line with
  | [] => .ok none
  | [_] => .error .indexError
  | res :: atom :: rest =>
    match rest with
    | [] => .error .indexError
    | [q] => (decOf q).bind (fun _ => .error .indexError)
    | q :: r :: more => do
      let q ← decOf q
      let r ← decOf r
      pure (some { res, atom, q, r, group := more.headD [] })

def parseDat (lines : List Str) : Except FErr (List Row) := do
  let rs ← lines.mapM parseDatLine
  pure (rs.filterMap id)

/-- the map after reading the parameter file: later rows overwrite earlier ones -/
def addRow (m : FFMap) (row : Row) : FFMap :=
  let e : Entry := { name := row.atom, q := row.q, r := row.r, resname := row.res, group := row.group }
  match dget? m row.res with
  | some re => dset m row.res { re with atoms := dset re.atoms row.atom e }
  | none => m ++ [(row.res, { name := row.res, atoms := [(row.atom, e)] })]

def baseMap (rows : List Row) : FFMap := rows.foldl addRow []

/-- one `<residue>` section of a `.names` file -/
structure Section where
  /-- `<name>` compiled with the `$` that `find_matching_names` appends -/
  pat : Re
  /-- `<useresname>` -/
  useres : Option Str
  /-- `<atom>` items: new atom name ↦ `<useatomname>` (a dict) -/
  atoms : List (Str × Str)
deriving Repr, DecidableEq, Inhabited

/-- `update_map(toname, fromname, map_)` for residues -/
def updateMapRes (m : FFMap) (toname fromname : Str) : Except FErr FFMap :=
  match dget? m fromname with
  | none => .error .keyError
  | some from_ =>
    let m := if dhas m toname then m else m ++ [(toname, { name := fromname, atoms := [] })]
    .ok (m.map (fun (k, re) =>
      if k = toname then (k, { re with atoms := from_.atoms.foldl (fun as (an, e) => dset as an e) re.atoms })
      else (k, re)))

/-- Python `s.replace(old, new)` -/
def replaceAll (s old new : Str) : Str :=
  if old.isEmpty then s else
  let rec go : Nat → Str → Str
    | 0, s => s
    | _, [] => []
    | fuel + 1, c :: cs =>
      if old.isPrefixOf (c :: cs) then new ++ go fuel ((c :: cs).drop old.length) else c :: go fuel cs
  go (s.length + 1) s

def containsSub (s sub : Str) : Bool :=
  (List.range (s.length + 1)).any (fun i => sub.isPrefixOf (s.drop i))

def groupVar : Str := str "$group"

/-- `endElement("residue")` -/
def applySection (canon : List Str) (m : FFMap) (s : Section) : Except FErr FFMap := do
  let m1 ←
    match s.useres with
    | none => pure m
    | some old =>
      let newreslist := canon.filterMap (fun n => (reMatch s.pat n).map (fun g => (n, g)))
      if containsSub old groupVar then
        newreslist.foldlM (fun m (resname, groups) =>
          match groups with
          | [] => .error .indexError
          | g :: _ =>
            let fromname := replaceAll old groupVar g
            if dhas m fromname then updateMapRes m resname fromname else pure m) m
      else
        newreslist.foldlM (fun m (resname, _) => updateMapRes m resname old) m
  if s.atoms.isEmpty then pure m1 else
  pure (m1.map (fun (k, re) =>
    if (reMatch s.pat k).isSome then
      (k, { re with atoms := s.atoms.foldl (fun as (newname, oldname) =>
        match dget? as oldname with
        | some e => dset as newname e
        | none => as) re.atoms })
    else (k, re)))

/-- the whole map: parameter file, then the sections in file order (cumulative) -/
def build (rows : List Row) (sections : List Section) (canon : List Str) : Except FErr FFMap :=
  sections.foldlM (applySection canon) (baseMap rows)

/-- `Forcefield.get_params(resname, atomname)` -/
def getParams (m : FFMap) (res atom : Str) : Option (Dec × Dec) :=
  match dget? m res with
  | none => none
  | some re => (dget? re.atoms atom).map (fun e => (e.q, e.r))

/-- `Forcefield.get_names` -/
def getNames (m : FFMap) (res atom : Str) : Option (Str × Str) :=
  match dget? m res with
  | none => none
  | some re => (dget? re.atoms atom).map (fun e => (e.resname, e.name))

/-! ### apply_force_field -/

structure AAtom where
  id : Nat
  name : Str
deriving Repr, DecidableEq, Inhabited

structure ARes where
  /-- the name looked up: `ffname` for amino acids, waters and nucleotides, `name` otherwise -/
  lookup : Str
  atoms : List AAtom
deriving Repr, DecidableEq, Inhabited

/-- (hits with their parameters, misses), both in model order -/
def applyFF (m : FFMap) (rs : List ARes) : List (AAtom × Dec × Dec) × List AAtom :=
  rs.foldl (fun (hits, misses) r =>
    r.atoms.foldl (fun (hits, misses) a =>
      match getParams m r.lookup a.name with
      | some (q, rad) => (hits ++ [(a, q, rad)], misses)
      | none => (hits, misses ++ [a])) (hits, misses)) ([], [])

/-! ### protocol decoding of a regex (prefix tokens) -/

def parseRe : Nat → List Str → Option (Re × List Str)
  | 0, _ => none
  | _, [] => none
  | fuel + 1, t :: ts =>
    match t with
    | ['e'] => some (.eps, ts)
    | ['a'] => some (.any, ts)
    | ['$'] => some (.eos, ts)
    | 'l' :: n => (parseNat? n).map (fun k => (.lit (Char.ofNat k), ts))
    | 'c' :: neg :: rest =>
      let cs := (splitOnChar ',' rest).filterMap parseNat?
      some (.cls (neg = '1') (cs.map Char.ofNat), ts)
    | ['o'] => (parseRe fuel ts).map (fun (r, ts) => (.opt r, ts))
    | ['g'] => (parseRe fuel ts).map (fun (r, ts) => (.group r, ts))
    | ['n'] => (parseRe fuel ts).map (fun (r, ts) => (.nla r, ts))
    | ['s'] => (parseRe fuel ts).bind (fun (a, ts) => (parseRe fuel ts).map (fun (b, ts) => (.seq a b, ts)))
    | ['v'] => (parseRe fuel ts).bind (fun (a, ts) => (parseRe fuel ts).map (fun (b, ts) => (.alt a b, ts)))
    | _ => none

end P2P.FF
