/-
  C02 — every residue carries the formal charge of its protonation and terminal state.

  Models: P2P/Model/Termini.lean (`assignTermini`, `setTermini` with the hidden-chain loop,
  and the specification `formalCharge`), P2P/Model/State.lean. Tied to biomolecule.py by
  harness/props/c02.py: the real `set_termini` on generated chain layouts against the model
  (flags and patch lists of every residue), and `residue.charge` of every fully parameterised
  residue of real runs against `formalCharge`.

  What is proved here is the *logic*: where termini go, for every chain layout; what the
  neutral-terminus options change. That a force field's numbers add up to the formal charge
  for a given cell is data, checked on the real pipeline for every cell reached (see
  DESIGN.md §4 C02 for why the kernel-checked table is not part of this version).
-/
import P2P.Model.Termini
import P2P.Proofs.TerminiLemmas
import P2P.Model.ChargeTable
import P2P.Proofs.ChargeTableAll
import P2P.Proofs.ChargeLinkLemmas
import P2P.Proofs.ChargeTotal
import P2P.Proofs.NucLemmas
import P2P.Proofs.NucTable

namespace P2P.Props.C02
open P2P P2P.Termini P2P.State P2P.Proofs.Termini

/-- **A cyclic chain gets no termini.** -/
theorem cyclic_none (nn nc : Bool) (chain : List TRes) (r0 : TRes) (rest : List TRes) (hc : chain = r0 :: rest)
    (hN : r0.atoms.contains (str "N") = true) (hC : (ringEnd chain r0).atoms.contains (str "C") = true) :
    assignTermini nn nc true chain = some chain :=
  cyclic_none_core nn nc chain r0 rest hc hN hC

/-- **Only flags and patch lists change**: number, order, identity, kind, name and atoms of the
residues are untouched by terminus assignment. -/
theorem assign_preserves (nn nc cyc : Bool) (chain out : List TRes) (h : assignTermini nn nc cyc chain = some out) :
    out.map (fun r => (r.id, r.kind, r.name, r.atoms)) = chain.map (fun r => (r.id, r.kind, r.name, r.atoms)) :=
  assign_preserves_core nn nc cyc chain out h

/-- **Peptide chain, any length ≥ 2, any composition**: exactly the first residue becomes the
N-terminus (one N-terminus patch appended), exactly the last one the C-terminus (one C-terminus
patch appended), every residue in between is returned unchanged. -/
theorem peptide_chain_termini (nn nc : Bool) (r0 rl : TRes) (mid : List TRes)
    (ha : ∀ r ∈ r0 :: mid ++ [rl], r.kind = .amino) :
    assignTermini nn nc false (r0 :: mid ++ [rl]) = some (
      patch { r0 with isN := true } (if nn || r0.nHeavy2 then "NEUTRAL-NTERM" else "NTERM") :: mid ++
      [patch { rl with isC := true } (if nc then "NEUTRAL-CTERM" else "CTERM")]) :=
  peptide_chain_termini_core nn nc r0 rl mid ha

/-- a one-residue peptide chain is both termini -/
theorem single_residue_termini (nn nc : Bool) (r : TRes) (ha : r.kind = .amino) :
    assignTermini nn nc false [r] = some [
      patch { (patch { r with isN := true } (if nn || r.nHeavy2 then "NEUTRAL-NTERM" else "NTERM")) with isC := true }
        (if nc then "NEUTRAL-CTERM" else "CTERM")] :=
  single_residue_termini_core nn nc r ha

/-- **A cyclic chain followed by waters or hetero groups of the same chain gets no termini either**
(the repaired behaviour, `fix:` commit in /repo; before it the ring test looked at the chain's very last
residue, so a deposited cyclic peptide with its waters filed under the same chain identifier was given a
charged N- and C-terminus: +1 / −2 instead of 0 / −1 on the test suite's own cyclic peptide): the ring
closes on the last amino residue, looking through trailing waters / hetero groups exactly as the
C-terminus assignment does. -/
theorem cyclic_through_trailing (nn nc : Bool) (pre tail : List TRes) (r0 a : TRes)
    (hc : ∃ rest, pre ++ [a] ++ tail = r0 :: rest) (ha : a.kind = .amino)
    (hk : ∀ r ∈ tail, (r.kind = .water ∨ r.kind = .other) ∧ r.name ≠ str "NH2" ∧ r.name ≠ str "NME")
    (hN : r0.atoms.contains (str "N") = true) (hC : a.atoms.contains (str "C") = true) :
    assignTermini nn nc true (pre ++ [a] ++ tail) = some (pre ++ [a] ++ tail) :=
  cyclic_through_trailing_core nn nc pre tail r0 a hc ha hk hN hC

/-- **Trailing waters / hetero groups are looked through**: with only non-amino, non-nucleotide,
non-cap residues after it, the last amino residue still becomes the C-terminus, and those
trailing residues are unchanged. -/
theorem cterm_through_trailing (nn nc : Bool) (r0 rl : TRes) (mid tail : List TRes)
    (ha : ∀ r ∈ r0 :: mid ++ [rl], r.kind = .amino) (ht : tail ≠ [])
    (hk : ∀ r ∈ tail, (r.kind = .water ∨ r.kind = .other) ∧ r.name ≠ str "NH2" ∧ r.name ≠ str "NME") :
    assignTermini nn nc false (r0 :: mid ++ [rl] ++ tail) = some (
      patch { r0 with isN := true } (if nn || r0.nHeavy2 then "NEUTRAL-NTERM" else "NTERM") :: mid ++
      [patch { rl with isC := true } (if nc then "NEUTRAL-CTERM" else "CTERM")] ++ tail) :=
  cterm_through_trailing_core nn nc r0 rl mid tail ha ht hk

/-- **Whatever the number of chains**: with no hidden chain end (no internal residue carrying
OXT / a 3' marker after the first pass) `set_termini` is the chain-wise assignment — chain ids,
numbering and order play no role. -/
theorem set_termini_chainwise (nn nc : Bool) (chains out : List (List TRes)) (bits : List Bool)
    (hlen : bits.length ≥ chains.length)
    (h1 : (chains.zip bits).mapM (fun (c, b) => assignTermini nn nc b c) = some out)
    (hfix : ∀ c ∈ out, ∀ r ∈ c, fixflag r = false) :
    setTermini nn nc chains bits = some out :=
  set_termini_chainwise_core nn nc chains out bits hlen h1 hfix

/-- **Neutral termini shift the formal charge by exactly one** for the residue they are applied
to (−1 at an N-terminus other than proline, +1 at a C-terminus) and nothing else. -/
theorem neutral_nterm_shift (r : RInfo) (ha : isAmino r = true) (hp : r.cls ≠ str "PRO") (hn : r.isNterm = true)
    (hnot : patched r "NEUTRAL-NTERM" = false) (c : Int) (hc : formalCharge r = some c) :
    formalCharge { r with patches := r.patches ++ [str "NEUTRAL-NTERM"] } = some (c - 1) ∨
    sideState { r with patches := r.patches ++ [str "NEUTRAL-NTERM"] } ≠ sideState r :=
  neutral_nterm_shift_core r ha hp hn hnot c hc

/-- formal charges of single residues lie between −2 and +2 -/
theorem formal_range (r : RInfo) (c : Int) (h : formalCharge r = some c) : -2 ≤ c ∧ c ≤ 2 :=
  formal_range_core r c h

/-! ### non-vacuity -/
def mk (i : Nat) (n : String) (as : List String) : TRes :=
  { id := i, kind := .amino, name := str n, atoms := as.map str, nHeavy2 := n = "PRO" }
def demo : List TRes := [mk 0 "PRO" ["N", "CA", "C", "O", "CD"], mk 1 "ALA" ["N", "CA", "C", "O", "OXT"], mk 2 "GLY" ["N", "CA", "C", "O"],
  mk 3 "SER" ["N", "CA", "C", "O"]]

/-- hidden chain end: the internal OXT cuts the chain in two, both pieces get both termini (the
re-assignment appends the same patch again to the pieces' outer ends: idempotent on atoms) -/
example : (setTermini false false [demo] [false, false, false]).map (·.map (·.map (fun r => (r.id, r.isN, r.isC, r.patches.length)))) =
    some [[(0, true, false, 2), (1, false, true, 1)], [(2, true, false, 1), (3, false, true, 2)]] := by
  decide +kernel

/-! ### the force fields' numbers add up to the formal charge of every state (kernel-checked on
the regenerated topology and the regenerated final force-field maps; one module per force field,
P2P/Proofs/ChargeTable*.lean, so that the kernel evaluations run in parallel) -/

open P2P.ChargeTable P2P.Topology P2P.Proofs.ChargeTable

/-- **charge table**: for each of the six force fields and every amino-acid state/position the
force field parameterises completely, the charges of the state's atoms add up — exactly, in
integers — to the formal charge the state's name stands for (N-terminal proline excluded: its
run-time atoms are not those of the definition; PARSE's neutral C-terminal proline excluded: it
is the refuted cell below). Hence the total charge of every structure whose residues are fully
parameterised is an integer, the sum of the residues' formal charges. -/
theorem charge_table :
    ∀ ff ∈ P2P.Gen.FFCharges.all, ∀ r ∈ aminoDefs,
      excluded.contains r.name = false → knownNonIntegral.contains (ff.1, r.name) = false →
      cellOK unit ff.2 r = true := by
  intro ff hff r hr he hk
  have h := tableOK_all ff hff
  rw [tableOK, List.all_eq_true] at h
  have := h r hr
  rw [Bool.or_eq_true, Bool.or_eq_true, he, hk] at this
  rcases this with (h1 | h1) | h1
  · exact absurd h1 (by decide)
  · exact absurd h1 (by decide)
  · exact h1

/-- the table is not vacuous: 516 cells are fully parameterised -/
theorem charge_table_coverage :
    P2P.Gen.FFCharges.all.map (fun ff => (ff.1, (aminoDefs.filter (cellCovered ff.2)).length)) =
      [("AMBER", 73), ("CHARMM", 83), ("PARSE", 144), ("PEOEPB", 70), ("SWANSON", 73), ("TYL06", 73)] :=
  coverage_all

/-- full strength refuted at one cell: PARSE's neutral C-terminal proline sums to −0.12 e -/
theorem parse_neutral_cterm_pro_refuted :
    (match P2P.Gen.FFCharges.PARSE.lookup (str "NEUTRAL-CPRO"), findRes P2P.Gen.Topology.residues (str "NEUTRAL-CPRO") with
     | some entries, some r => cellSum entries (atomsFor r)
     | _, _ => none) = some (-12 * 10 ^ (P2P.Gen.FFCharges.unitExp - 2)) :=
  parse_cpro

/-- **the two specifications agree**: for every amino-acid residue description whose name is its
class name or a state name of its class, the formal charge C02 states on the residue
(`formalCharge`: side-chain state + terminus, from patches, flags and atoms) is the formal charge
its look-up name stands for (`formalOfName`, the specification `charge_table` is checked against).
So `charge_table` speaks about residues, not only about names. -/
theorem formal_by_name (r : RInfo) (ha : isAmino r = true)
    (hname : r.name = r.cls ∨ (r.cls, r.name) ∈ P2P.Proofs.ChargeLink.stateNames) (D : Str)
    (hD : lookupName r = some D) : formalCharge r = some (formalOfName D) :=
  P2P.Proofs.ChargeLink.formal_by_name_core r ha hname D hD

/-- **residue form of the charge table**: a residue looked up under the name `D` of an amino-acid
definition of the table, in a force field that parameterises every atom of that state, carries
exactly its formal charge (as an integer in units of 10^-unitExp e) -/
theorem residue_charge_from_table (r : RInfo) (ha : isAmino r = true)
    (hname : r.name = r.cls ∨ (r.cls, r.name) ∈ P2P.Proofs.ChargeLink.stateNames)
    (d : ResDef) (hd : d ∈ aminoDefs) (hD : lookupName r = some d.name)
    (ff : String × List (Str × List (Str × Int))) (hff : ff ∈ P2P.Gen.FFCharges.all)
    (he : excluded.contains d.name = false) (hk : knownNonIntegral.contains (ff.1, d.name) = false)
    (entries : List (Str × Int)) (hent : ff.2.lookup d.name = some entries)
    (q : Int) (hq : cellSum entries (atomsFor d) = some q) :
    ∃ f : Int, formalCharge r = some f ∧ q = unit * f := by
  refine ⟨formalOfName d.name, formal_by_name r ha hname d.name hD, ?_⟩
  have h := charge_table ff hff d hd he hk
  unfold cellOK at h
  rw [hent] at h
  simp only [hq] at h
  exact of_decide_eq_true h

/-- **From the table to whole structures**: for each of the six force fields and EVERY sequence
(any length, any composition, any order) of fully parameterised amino-acid states of the table, the
exact total charge is the unit times the sum of the states' formal charges — an integer number of
elementary charges. -/
theorem structure_total_integral :
    ∀ ff ∈ P2P.Gen.FFCharges.all, ∀ rs : List ResDef,
      (∀ r ∈ rs, r ∈ aminoDefs ∧ excluded.contains r.name = false ∧
        knownNonIntegral.contains (ff.1, r.name) = false ∧ cellCovered ff.2 r = true) →
      structureTotal ff.2 rs = some (unit * (rs.map (fun r => formalOfName r.name)).sum) :=
  structure_total_integral_core

/-- … and such a total, expressed in e, passes the total-charge guard of `main.non_trivial`
(`noninteger_charge`) for every tolerance: a structure of fully parameterised standard states never
fails the charge check (C12's success side; floating-point summation error is what the tolerance
1e-3 is for and is observed on the runs, not proved). -/
theorem integral_total_passes_guard (n : Int) (tol : ℚ) :
    P2P.ChargeGuard.nonInteger (((unit * n : Int) : ℚ) / (unit : ℚ)) tol = false :=
  integral_total_passes_guard_core n tol


/-! ### Nucleic acids: −1 per phosphate (Model/NucCharge.lean; kernel tables in Proofs/NucTable.lean)

The end residues of a strand are fractional by design (AMBER: −0.3079 e at the 5' end, −0.6921 e at
the 3' end), so the statement is about whole strands. A nucleotide's atoms are those of its
run-time reference — the base definition after `assign_termini`'s `5TERM` / `3TERM` patch, computed
with the same `applyPatch` as C03's stage model — and its charges those of the regenerated final
force-field map under the look-up name `Nucleic.set_state` builds (`DA5`, `RU3` …). -/

open P2P.NucCharge P2P.Proofs.Nuc in
/-- **nucleotide table** (kernel, regenerated data): in each of the six force fields, for DNA and for
RNA, every parameterised middle nucleotide sums exactly to −1 e, and every parameterised 5' end
together with every parameterised 3' end sums exactly to −1 e -/
theorem nucleotide_table :
    ∀ ff ∈ P2P.Gen.FFCharges.all,
      kindOK unit (cellOf ff.2) dnaBases = true ∧ kindOK unit (cellOf ff.2) rnaBases = true := by
  intro ff hff
  have h := nuc_ok_all
  rw [List.all_eq_true] at h
  have := h ff hff
  rw [ffOK, Bool.and_eq_true] at this
  exact this

open P2P.NucCharge P2P.Proofs.Nuc in
/-- **−1 per phosphate, for EVERY strand**: in each of the six force fields, a DNA strand (or an RNA
strand) with free ends — any length ≥ 2, any base sequence — whose residues are all parameterised
carries exactly −1 e per phosphate; the 5'-terminal residue has none (`five_end_has_no_phosphate`),
so that is −(number of residues − 1). -/
theorem strand_minus_one_per_phosphate :
    ∀ ff ∈ P2P.Gen.FFCharges.all, ∀ kind ∈ [dnaBases, rnaBases], ∀ s : Strand,
      s.first ∈ kind → s.last ∈ kind → (∀ b ∈ s.mids, b ∈ kind) →
      ∀ t, strandTotal (cellOf ff.2) s = some t → t = -unit * (s.phosphates : Int) := by
  intro ff hff kind hkind s hf hl hm t ht
  have hk := nucleotide_table ff hff
  simp only [List.mem_cons, List.mem_nil_iff, or_false] at hkind
  rcases hkind with rfl | rfl
  · exact strand_total_core unit _ _ hk.1 s hf hl hm t ht
  · exact strand_total_core unit _ _ hk.2 s hf hl hm t ht

open P2P.NucCharge P2P.Proofs.Nuc in
/-- the table is not vacuous: parameterised (DNA, RNA) cells per force field, 12 each at most
(4 bases × 3 strand positions). CHARMM's 12 DNA cells include the 5'-thymidine that was missing
before the `fix:` commit 2d5aba7 (PATCHES.xml: `DT5` applied to the non-existent residue `T`). -/
theorem nucleotide_table_coverage :
    P2P.Gen.FFCharges.all.map (fun ff => (ff.1, kindCovered (cellOf ff.2) dnaBases, kindCovered (cellOf ff.2) rnaBases)) =
      [("AMBER", 12, 12), ("CHARMM", 12, 12), ("PARSE", 0, 12), ("PEOEPB", 0, 0), ("SWANSON", 0, 0), ("TYL06", 12, 12)] :=
  nuc_coverage

open P2P.NucCharge P2P.Proofs.Nuc in
/-- the 5'-terminal phosphate is removed by design (P, O1P, O2P gone, H5T on O5') for every base -/
theorem five_end_has_no_phosphate :
    bases.all (fun b => match runtimeAtoms P2P.Gen.Topology.residues P2P.Gen.Topology.patches b .five with
      | some atoms => fiveEndShape atoms | none => false) = true :=
  five_end_shape

open P2P.NucCharge P2P.Proofs.Nuc in
/-- **run-time reference = named definition, for nucleotides** (the counterpart of C03's
`runtime_reference_is_named_definition`): for each of the eight bases at each strand position the atoms
`Biomolecule.apply_patch` leaves the residue with (base definition + `5TERM` / `3TERM`) are the atoms of the
definition `Definition.__init__` built at load time under the look-up name (`DA5` … `RU3`) — all 24 exist.
False before the `fix:` commit 2d5aba7: there was no definition `DT5`. -/
theorem nucleotide_runtime_is_named_definition :
    bases.all (fun b => namedOK b .five && namedOK b .mid && namedOK b .three) = true :=
  nuc_named_all

open P2P.NucCharge P2P.Proofs.Nuc in
/-- full strength refuted for a chimeric strand: a DNA 5' end followed by an RNA 3' end sums to
−0.9998 e under AMBER (the two sugar kinds split the end charge differently: −0.3079/−0.6921 vs
−0.3081/−0.6919). Known finding; `strand_minus_one_per_phosphate` therefore asks for one kind. -/
theorem chimeric_strand_refuted :
    strandTotal (cellOf P2P.Gen.FFCharges.AMBER) ⟨str "DA", [], str "RU"⟩ = some (-9998000) ∧
      (-9998000 : Int) ≠ -unit * ((⟨str "DA", [], str "RU"⟩ : Strand).phosphates : Int) :=
  ⟨chimera_amber, by decide⟩

open P2P.NucCharge P2P.Proofs.Nuc in
/-- non-vacuity: a five-nucleotide DNA strand under CHARMM beginning with thymidine is fully
parameterised and sums to −4 e -/
example : strandTotal (cellOf P2P.Gen.FFCharges.CHARMM) ⟨str "DT", [str "DA", str "DG", str "DC"], str "DT"⟩ =
    some (-4 * unit) := by decide +kernel

/-- non-vacuity: three states of the table under AMBER -/
example : (["NALA", "ASH", "CLYS"].map str).all (fun n =>
    aminoDefs.any (fun r => r.name = n && cellCovered P2P.Gen.FFCharges.AMBER r)) = true := by
  decide +kernel

example : formalOfName (str "NEUTRAL-CGLU") = -1 ∧ formalOfName (str "NLYS") = 2 ∧ formalOfName (str "CASH") = -1 ∧
    formalOfName (str "HID") = 0 ∧ formalOfName (str "CYX") = 0 := by decide

end P2P.Props.C02
