/-
  C03 — no atom is silently lost, duplicated or invented.

  Model: P2P/Model/Atoms.lean — the atom-name bookkeeping of `residue.py` and of the
  hydrogen-bond optimisation objects `Flip`, `Alcoholic`, `Water` and `cleanup`, at the level of
  names; P2P/Model/FF.lean `applyFF` (the found / missing split, shared with C01).

  Proved, for EVERY residue (any duplicate-free name list without temporaries), EVERY moved set
  and EVERY outcome of every hydrogen-bond attempt, in any number and order:
    * `flip_clean` — an ASN/GLN/HIS flip object ends, after `complete`, with exactly the names the
      residue had before the object was built: no `*FLIP` copy left, nothing lost, nothing
      doubled — and `finalize` never hits the `KeyError` of `remove_atom`;
    * `alcoholic_clean` — a SER/THR/TYR(/neutral terminus) object ends with the original names
      plus the polar hydrogen exactly once and no `LP*` (given 1–3 atoms bonded to the oxygen;
      `alcoholic_needs_bonds` shows the hypothesis is necessary — the harness checks it at every
      real `finalize`);
    * `water_clean` — a water ends with its original names plus H1 and H2, once each, no `LP*`;
    * `cleanup_spec` — the doubled carboxylic proton is removed exactly when both are present;
    * `his_state_clean` — `HIS.set_state`, the last change of an atom set in a run: one ring proton
      dropped from a neutral histidine for every flag combination, none from a doubly protonated one;
    * `written_or_reported` — whatever the force-field map, the atoms found (printed) and the
      atoms reported missing are together a permutation of all atoms of all residues.
    * `repair_complete`, `repair_reports`, `repair_keeps_known`, `repair_nodup` — one residue through
      `repair_heavy`: every heavy atom of the reference present afterwards, every input atom kept
      or reported as deleted, atoms the reference knows always kept, no duplicates;
    * `hydrogens_complete`, `hydrogens_only_adds`, `hydrogens_nodup` — one residue through
      `add_hydrogens`: with every placement succeeding no reference hydrogen is missing (except
      HG of a bridged cysteine), nothing is removed, only reference hydrogens are added, once.
    * `ash_clean`, `glh_clean` — a protonated carboxyl group (`Carboxylic`: candidates doubled into
      HD11…HD22, eliminated by the hydrogen-bond search, the survivor renamed and the two oxygens
      swapped through the temporary name `FLIP`) ends with exactly OD1, OD2, HD2 (OE1, OE2, HE2),
      everything else untouched — for every construction order and every sequence of outcomes;
    * `stages_exact`, `stages_exact_norepair`, `stages_accounted`, `early_keeps`,
      `stages_exact_on_data` — the COMPOSITION of the stages on one residue (Model/Stages.lean):
      terminus patches (`apply_patch`, reference and residue side, renames included), heavy-atom
      repair, disulfide / pKa-state patches and `remove_hydrogens`, hydrogen addition. Whatever the
      input residue held — any subset of its atoms, any extra atoms, any order — it ends with exactly
      the atoms of its final run-time reference, each once; a heavy atom never disappears without a
      report. `stages_exact_on_data` discharges the data hypotheses on this run's generated
      topology with kernel-checked tables (Proofs/StagesTable.lean);
      `runtime_reference_is_named_definition` (230-combination kernel table) and
      `stages_reach_named_definition`: the residue ends with exactly the atoms of the DEFINITION
      IT IS NAMED AFTER (the link to C02's charge table).
  Not modelled: the neutral C-terminus variant of `Carboxylic` (CTR),
  the retry order of `repair_heavy` — covered by the oracle on real runs only (final names of
  every residue against the topology of its final state, input heavy atoms conserved unless
  reported, matched ∪ missing = all, PQR lines = matched). Partial on exactly those.
-/
import P2P.Model.Atoms
import P2P.Model.FF
import P2P.Proofs.AtomsLemmas
import P2P.Proofs.FFLemmas
import P2P.Model.Carboxylic
import P2P.Proofs.CarboxylicLemmas
import P2P.Model.Stages
import P2P.Proofs.StagesLemmas
import P2P.Proofs.StagesData
import P2P.Proofs.StagesBridge

namespace P2P.Props.C03
open P2P P2P.Atoms P2P.Proofs.Atoms

theorem flip_clean (s : Names) (M : List Str) (hs : s.Nodup) (ht : NoTemp s) (hM : M.Nodup)
    (hsub : ∀ n ∈ M, n ∈ s) (bs : List Str) :
    ∃ t, flipComplete (bs.foldl (flipStep M) (flipInit s M, false)).2 (bs.foldl (flipStep M) (flipInit s M, false)).1 = some t ∧
      t.Perm s :=
  flip_clean_core s M hs ht hM hsub bs

theorem alcoholic_clean (s : Names) (h : Str) (hs : s.Nodup) (ht : NoTemp s)
    (hh : isLP h = false) (ops : List Op) (b : Nat) (hb : b = 1 ∨ b = 2 ∨ b = 3) :
    (alcComplete (ops.foldl (alcStep h) (alcInit s h)) h false b).Perm (s.erase h ++ [h]) :=
  alc_clean_core s h hs ht hh ops b hb

theorem alcoholic_needs_bonds (s : Names) (h : Str) (hh : h ∉ s) (b : Nat) (hb : b = 0 ∨ b ≥ 4) :
    h ∉ alcComplete s h false b :=
  alc_needs_bonds_core s h hh b hb

theorem water_clean (s : Names) (hs : s.Nodup) (ht : NoTemp s) (h1 : H1 ∉ s) (h2 : H2 ∉ s)
    (ops : List Op) :
    (watComplete (ops.foldl watStep s) false).Perm (s ++ [H1, H2]) :=
  wat_clean_core s hs ht h1 h2 ops

theorem cleanup_spec (s : Names) (first second : Str) (hs : s.Nodup) (hne : first ≠ second) :
    ¬ (first ∈ cleanup s first second ∧ second ∈ cleanup s first second) ∧
    (∀ n, n ≠ first → (n ∈ cleanup s first second ↔ n ∈ s)) ∧ (cleanup s first second).Nodup :=
  cleanup_spec_core s first second hs hne

/-- **Histidine naming** (`HIS.set_state`, the last change of an atom set in a run): a histidine
that reaches it with both ring protons ends — for every combination of the donor / acceptor flags
the optimisation left on ND1 and NE2 — with exactly one of HD1 / HE2 when it is neutral and with both
when it is doubly protonated by patch or name; every other atom is untouched, nothing is doubled, and
the state name (HID / HIE / HIP) is the one its atoms spell. -/
theorem his_state_clean (hip nd1D nd1A ne2D ne2A : Bool) (s : Names) (hs : s.Nodup)
    (h1 : str "HD1" ∈ s) (h2 : str "HE2" ∈ s) :
    (hisSetState hip nd1D nd1A ne2D ne2A s).Nodup ∧
    (∀ m, m ≠ str "HD1" → m ≠ str "HE2" → (m ∈ hisSetState hip nd1D nd1A ne2D ne2A s ↔ m ∈ s)) ∧
    (hip = true → hisSetState hip nd1D nd1A ne2D ne2A s = s ∧ hisName (hisSetState hip nd1D nd1A ne2D ne2A s) = some (str "HIP")) ∧
    (hip = false →
      ((str "HD1" ∈ hisSetState hip nd1D nd1A ne2D ne2A s ∧ str "HE2" ∉ hisSetState hip nd1D nd1A ne2D ne2A s ∧
          hisName (hisSetState hip nd1D nd1A ne2D ne2A s) = some (str "HID")) ∨
       (str "HE2" ∈ hisSetState hip nd1D nd1A ne2D ne2A s ∧ str "HD1" ∉ hisSetState hip nd1D nd1A ne2D ne2A s ∧
          hisName (hisSetState hip nd1D nd1A ne2D ne2A s) = some (str "HIE")))) :=
  his_state_clean_core hip nd1D nd1A ne2D ne2A s hs h1 h2

/-- every atom of the final model is written (found) or reported (missing) — exactly once -/
theorem written_or_reported (m : P2P.FF.FFMap) (rs : List P2P.FF.ARes) :
    ((P2P.FF.applyFF m rs).1.map (·.1) ++ (P2P.FF.applyFF m rs).2).Perm (rs.flatMap (·.atoms)) :=
  P2P.Proofs.FF.applyFF_partition_core m rs

/-! ### protonated carboxyl groups (ASH, GLH): `Carboxylic` -/

open P2P.Carboxylic in
/-- **ASH**: for every residue that holds OD1, OD2, HD1, HD2 (anywhere in its atom list) and none of
the names the object creates, every construction order (both protons doubled in either order, or
one only), every sequence of hydrogen-bond outcomes (`try_acceptor` eliminating the first or the
second candidate, `fix` keeping any candidate) and every lowest-energy candidate at `complete`:
after `complete` and `cleanup` the carboxyl group holds exactly OD1, OD2 and the proton HD2 — no
HD1, no doubled candidate HD11…HD22, no `FLIP` — and every other atom of the residue is untouched.
(The real `finalize` picks a candidate whenever one is alive; the harness checks that coupling at
every call.) -/
theorem ash_clean (names : Names) (hn : names.Nodup)
    (hin : OD1 ∈ names ∧ OD2 ∈ names ∧ HD1 ∈ names ∧ HD2 ∈ names)
    (hout : ∀ n ∈ [str "HD11", str "HD12", str "HD21", str "HD22", flipSuffix], n ∉ names)
    (order : List Str) (ho : order ∈ orders HD1 HD2) (ops : List COp) (bestIdx : Nat) :
    ((run names HD1 HD2 oxyD order ops bestIdx).filter (fun n => alphabetD.contains n)).Perm [OD1, OD2, HD2] ∧
    (run names HD1 HD2 oxyD order ops bestIdx).filter (fun n => !alphabetD.contains n) =
      names.filter (fun n => !alphabetD.contains n) :=
  P2P.Proofs.Carboxylic.ash_clean_core names hn hin hout order ho ops bestIdx

open P2P.Carboxylic in
/-- **GLH**: the same for OE1, OE2, HE1, HE2 -/
theorem glh_clean (names : Names) (hn : names.Nodup)
    (hin : OE1 ∈ names ∧ OE2 ∈ names ∧ HE1 ∈ names ∧ HE2 ∈ names)
    (hout : ∀ n ∈ [str "HE11", str "HE12", str "HE21", str "HE22", flipSuffix], n ∉ names)
    (order : List Str) (ho : order ∈ orders HE1 HE2) (ops : List COp) (bestIdx : Nat) :
    ((run names HE1 HE2 oxyE order ops bestIdx).filter (fun n => alphabetE.contains n)).Perm [OE1, OE2, HE2] ∧
    (run names HE1 HE2 oxyE order ops bestIdx).filter (fun n => !alphabetE.contains n) =
      names.filter (fun n => !alphabetE.contains n) :=
  P2P.Proofs.Carboxylic.glh_clean_core names hn hin hout order ho ops bestIdx

open P2P.Carboxylic in
example : run ([str "N", str "HD2", str "CA", str "OD2", str "C", str "O", str "HD1", str "CB", str "CG", str "OD1"])
    HD1 HD2 oxyD [HD1, HD2] [.acc true, .acc false, .fix 0] 0 =
    [str "N", str "CA", str "OD1", str "C", str "O", str "CB", str "CG", str "OD2", str "HD2"] := by decide

/-! ### heavy-atom repair and hydrogen addition, one residue -/

/-- after `repair_heavy` every heavy atom of the reference is present -/
theorem repair_complete (refNames : List Str) (s : Names) (n : Str) (hn : n ∈ refNames)
    (hh : isH n = false) (hp : isPseudo n = false) (h1 : ¬ (n = str "O1P" ∧ OP1 ∈ s)) (h2 : ¬ (n = str "O2P" ∧ OP2 ∈ s)) :
    n ∈ (repairHeavy refNames s).1 :=
  repair_complete_core refNames s n hn hh hp h1 h2

/-- an input atom is kept or its deletion is reported — never dropped silently -/
theorem repair_reports (refNames : List Str) (s : Names) (n : Str) (hn : n ∈ s) :
    n ∈ (repairHeavy refNames s).1 ∨ n ∈ (repairHeavy refNames s).2 :=
  repair_reports_core refNames s n hn

/-- an input atom the reference knows is always kept -/
theorem repair_keeps_known (refNames : List Str) (s : Names) (n : Str) (hn : n ∈ s) (hr : n ∈ refNames) :
    n ∈ (repairHeavy refNames s).1 ∧ n ∉ (repairHeavy refNames s).2 :=
  repair_keeps_known_core refNames s n hn hr

theorem repair_nodup (refNames : List Str) (s : Names) (hs : s.Nodup) (hr : refNames.Nodup) :
    (repairHeavy refNames s).1.Nodup :=
  repair_nodup_core refNames s hs hr

/-- when every placement succeeds, `add_hydrogens` leaves no hydrogen of the reference missing
(except the skipped HG of a bridged cysteine) -/
theorem hydrogens_complete (refNames : List Str) (skip ok : Str → Bool) (s : Names)
    (hok : ∀ n, ok n = true) (n : Str) (hn : n ∈ refNames) (hh : isH n = true) (hs : skip n = false) :
    n ∈ addHydrogens refNames skip ok s :=
  hydrogens_complete_core refNames skip ok s hok n hn hh hs

/-- it removes nothing and invents nothing: only hydrogens of the reference are added -/
theorem hydrogens_only_adds (refNames : List Str) (skip ok : Str → Bool) (s : Names) :
    (∀ n ∈ s, n ∈ addHydrogens refNames skip ok s) ∧
    (∀ n ∈ addHydrogens refNames skip ok s, n ∈ s ∨ (n ∈ refNames ∧ isH n = true ∧ skip n = false)) :=
  hydrogens_only_adds_core refNames skip ok s

theorem hydrogens_nodup (refNames : List Str) (skip ok : Str → Bool) (s : Names) (hs : s.Nodup) :
    (addHydrogens refNames skip ok s).Nodup :=
  hydrogens_nodup_core refNames skip ok s hs

/-! ### composition of the stages on one residue -/

section stages
open P2P.Topology P2P.Stages

/-- **Exactly the topology's atom set**, for every input: after the terminus patches (`early`),
`repair_heavy`, any mixture of `remove_hydrogens` and hydrogen-only patches (`late`: CYX and the
pKa states) and `add_hydrogens` with every placement succeeding, the residue's names are a
permutation of the names of its FINAL run-time reference (pseudo-atoms N+1, C-1 aside): no atom
missing, none twice, none invented — whatever subset of atoms, extra atoms and order the input
had. `U` is any set of canonical names containing the reference's and the patches' atoms and none
of the late patches' alternative names. -/
theorem stages_exact (U : List Str) (skip ok : Str → Bool) (ref0 : ResDef) (s : Names)
    (early late : List Stage)
    (hearly : ∀ x ∈ early, isPatch x = true) (hlate : ∀ x ∈ late, lateOK x = true)
    (hU0 : ∀ n ∈ ref0.names, n ∈ U)
    (hUp : ∀ x ∈ early ++ late, ∀ p, x = Stage.patch p → ∀ a ∈ p.atoms, a.name ∈ U)
    (halt : ∀ x ∈ late, ∀ p, x = Stage.patch p → ∀ kv ∈ p.altnames, kv.1 ∉ U)
    (hnd0 : ref0.names.Nodup)
    (hs1 : (run skip ok ref0 s early).names.Nodup)
    (hs1p : ∀ n ∈ (run skip ok ref0 s early).names, isPseudo n = false)
    (hop : OP1 ∉ (run skip ok ref0 s early).names ∧ OP2 ∉ (run skip ok ref0 s early).names)
    (hok : ∀ n, ok n = true) (hskip : ∀ n, skip n = false) :
    (run skip ok ref0 s (early ++ [Stage.repair] ++ late ++ [Stage.addH])).names.Perm
      ((run skip ok ref0 s (early ++ [Stage.repair] ++ late ++ [Stage.addH])).ref.names.filter
        (fun n => !isPseudo n)) :=
  P2P.Proofs.Stages.stages_exact_core U skip ok ref0 s early late hearly hlate hU0 hUp halt hnd0 hs1 hs1p hop hok hskip

/-- the same when `repair_heavy` does nothing (it returns at once when no heavy atom is missing
anywhere in the structure, and then deletes nothing): if the residue holds only atoms of its
reference and all of its heavy atoms when the late stages start, the conclusion is the same -/
theorem stages_exact_norepair (U : List Str) (skip ok : Str → Bool) (ref0 : ResDef) (s : Names)
    (early late : List Stage)
    (hearly : ∀ x ∈ early, isPatch x = true) (hlate : ∀ x ∈ late, lateOK x = true)
    (hU0 : ∀ n ∈ ref0.names, n ∈ U)
    (hUp : ∀ x ∈ early ++ late, ∀ p, x = Stage.patch p → ∀ a ∈ p.atoms, a.name ∈ U)
    (halt : ∀ x ∈ late, ∀ p, x = Stage.patch p → ∀ kv ∈ p.altnames, kv.1 ∉ U)
    (hnd0 : ref0.names.Nodup)
    (hs1 : (run skip ok ref0 s early).names.Nodup)
    (hsub : ∀ n ∈ (run skip ok ref0 s early).names,
      n ∈ (run skip ok ref0 s early).ref.names ∧ isPseudo n = false)
    (hheavy : ∀ n ∈ (run skip ok ref0 s early).ref.names, isH n = false → isPseudo n = false →
      n ∈ (run skip ok ref0 s early).names)
    (hok : ∀ n, ok n = true) (hskip : ∀ n, skip n = false) :
    (run skip ok ref0 s (early ++ late ++ [Stage.addH])).names.Perm
      ((run skip ok ref0 s (early ++ late ++ [Stage.addH])).ref.names.filter
        (fun n => !isPseudo n)) :=
  P2P.Proofs.Stages.stages_exact_norepair_core U skip ok ref0 s early late hearly hlate hU0 hUp halt hnd0 hs1 hsub hheavy hok hskip

/-- **No heavy atom vanishes silently**: a heavy atom the residue holds when repair starts is in
the final model or was reported as deleted — whatever happens afterwards (any late stages, failed
or skipped hydrogen placements) -/
theorem stages_accounted (U : List Str) (skip ok : Str → Bool) (ref0 : ResDef) (s : Names)
    (early late : List Stage)
    (hearly : ∀ x ∈ early, isPatch x = true) (hlate : ∀ x ∈ late, lateOK x = true)
    (hU0 : ∀ n ∈ ref0.names, n ∈ U)
    (hUp : ∀ x ∈ early ++ late, ∀ p, x = Stage.patch p → ∀ a ∈ p.atoms, a.name ∈ U)
    (halt : ∀ x ∈ late, ∀ p, x = Stage.patch p → ∀ kv ∈ p.altnames, kv.1 ∉ U)
    (hop : OP1 ∉ (run skip ok ref0 s early).names ∧ OP2 ∉ (run skip ok ref0 s early).names)
    (n : Str) (hn : n ∈ (run skip ok ref0 s early).names) (hheavy : isH n = false) :
    n ∈ (run skip ok ref0 s (early ++ [Stage.repair] ++ late ++ [Stage.addH])).names ∨
    n ∈ (run skip ok ref0 s (early ++ [Stage.repair] ++ late ++ [Stage.addH])).reported :=
  P2P.Proofs.Stages.stages_accounted_core U skip ok ref0 s early late hearly hlate hU0 hUp halt hop n hn hheavy

/-- the terminus patches invent nothing, and an input atom that no patch removes or renames is
still there when repair starts -/
theorem early_keeps (skip ok : Str → Bool) (ref0 : ResDef) (s : Names) (early : List Stage)
    (hearly : ∀ x ∈ early, isPatch x = true) :
    (run skip ok ref0 s early).names.length ≤ s.length ∧
    ∀ n ∈ s, (∀ p, Stage.patch p ∈ early → n ∉ p.remove ∧ ∀ kv ∈ p.altnames, kv.1 ≠ n) →
      n ∈ (run skip ok ref0 s early).names :=
  P2P.Proofs.Stages.early_keeps_core skip ok ref0 s early hearly

open P2P.Gen.Topology P2P.Proofs.StagesTable in
/-- **On this run's topology** (AA.xml, NA.xml, PATCHES.xml as translated now): for every residue
definition, any patches of the file applied before repair, and CYX / the pKa-state patches /
`remove_hydrogens` after it, the data hypotheses of `stages_exact` hold (kernel-checked tables
`late_patches_fine`, `residue_names_nodup`), so only the conditions on the input remain. -/
theorem stages_exact_on_data (skip ok : Str → Bool) (r : ResDef) (hr : r ∈ residues) (s : Names)
    (early late : List Stage)
    (hearly : ∀ x ∈ early, ∃ p ∈ patches, x = Stage.patch p)
    (hlate : ∀ x ∈ late, x = Stage.stripH ∨ ∃ p ∈ latePatches, x = Stage.patch p)
    (hs1 : (run skip ok r s early).names.Nodup)
    (hs1p : ∀ n ∈ (run skip ok r s early).names, isPseudo n = false)
    (hop : OP1 ∉ (run skip ok r s early).names ∧ OP2 ∉ (run skip ok r s early).names)
    (hok : ∀ n, ok n = true) (hskip : ∀ n, skip n = false) :
    (run skip ok r s (early ++ [Stage.repair] ++ late ++ [Stage.addH])).names.Perm
      ((run skip ok r s (early ++ [Stage.repair] ++ late ++ [Stage.addH])).ref.names.filter
        (fun n => !isPseudo n)) :=
  P2P.Proofs.Stages.stages_exact_on_data_core skip ok r hr s early late hearly hlate hs1 hs1p hop hok hskip

open P2P.Gen.Topology P2P.Proofs.StagesTable in
/-- every late patch the run uses exists in the file -/
theorem late_patches_exist : latePatchNames.all (fun n => patches.any (fun p => p.name = n)) = true :=
  late_patches_present

open P2P.Proofs.Stages in
/-- **The run-time reference is the named definition** (kernel table over this run's topology): for
each of the 33 amino-acid definitions, each terminus variant (none, N, C, neutral N, neutral C) and
each state patch that applies (230 combinations), the reference `Biomolecule.apply_patch` builds at
run time has the same atoms as the definition `Definition.__init__` built at load time under the name
the final state is looked up by (two different routines in the code) — and every state patch is one of
the modelled late patches. -/
theorem runtime_reference_is_named_definition : combos.all comboOK = true ∧ combos.length = 230 :=
  ⟨combos_ok, combos_count⟩

open P2P.Proofs.Stages in
/-- **The residue ends with exactly the atoms of the definition it is named after**, for every
input: any of the 230 combinations, any input name list (duplicate-free and free of pseudo-atom /
OP1 / OP2 names once the terminus patches are applied), with or without `remove_hydrogens`: after
PEPTIDE (inside a chain) or the terminus patches, `repair_heavy`, the state patch and `add_hydrogens` the names are
a permutation of the named definition's atoms. This is the fact C02's `charge_table` (stated per
named definition) needs to speak about residues of a run. -/
theorem stages_reach_named_definition (c : Combo) (hc : c ∈ combos) (r : Resolved)
    (hr : resolve c = some r) (skip ok : Str → Bool) (s : Names) (strip : Bool)
    (hs1 : (run skip ok r.base s (r.early.map Stage.patch)).names.Nodup)
    (hs1p : ∀ n ∈ (run skip ok r.base s (r.early.map Stage.patch)).names, isPseudo n = false)
    (hop : OP1 ∉ (run skip ok r.base s (r.early.map Stage.patch)).names ∧
      OP2 ∉ (run skip ok r.base s (r.early.map Stage.patch)).names)
    (hok : ∀ n, ok n = true) (hskip : ∀ n, skip n = false) :
    (run skip ok r.base s (stagesOf r strip)).names.Perm (r.named.names.filter notPseudo) :=
  stages_reach_named_definition_core c hc r hr skip ok s strip hs1 hs1p hop hok hskip

open P2P.Gen.Topology in
/-- non-vacuity on the generated topology: a C-terminal aspartate given with CA, N, an
old-style OT2, an unknown atom XX and one hydrogen, protonated by the pKa route (PEPTIDE, CTERM;
repair; strip hydrogens; ASH; add hydrogens): XX is reported, OT2 becomes OXT, and the residue ends
with exactly the atoms of its final reference -/
example :
    (do
      let r ← findRes residues (str "ASP")
      let pe ← findPatch patches (str "PEPTIDE")
      let ct ← findPatch patches (str "CTERM")
      let ash ← findPatch patches (str "ASH")
      let st := run (fun _ => false) (fun _ => true) r [str "CA", str "N", str "OT2", str "XX", str "HB2"]
        [.patch pe, .patch ct, .repair, .stripH, .patch ash, .addH]
      pure (st.names, st.reported)) =
    some ([str "CA", str "N", str "OXT", str "C", str "O", str "CB", str "CG", str "OD1", str "OD2", str "H", str "HA",
        str "HB2", str "HB3", str "HD2", str "HD1"], [str "XX"]) := by
  decide +kernel

end stages

/-! ### non-vacuity -/
example : ([str "N", str "CA", str "OD1", str "ND2"] : Names).Nodup ∧ NoTemp [str "N", str "CA", str "OD1", str "ND2"] := by
  refine ⟨by decide, ?_⟩
  intro n hn
  simp only [List.mem_cons, List.mem_nil_iff, or_false] at hn
  rcases hn with rfl | rfl | rfl | rfl <;> decide
example : flipComplete true (fixFlip (flipInit [str "CG", str "OD1"] [str "OD1"]) (str "OD1FLIP")) = some [str "CG", str "OD1"] := by
  decide
example : watComplete ([str "O"].foldl (fun s _ => s) [str "O"]) false = [str "O", str "H1", str "H2"] := by decide

/-- the hypothesis `H2 ∉ s` of `water_clean` is necessary: the water code takes "has H2" for "is
complete", so a water that comes with H2 but without H1 never gets H1 (the excluded point was run on
the real code: the water stays O, H2 and the run then fails loudly at the total-charge guard — no
output is written, so no listed property is broken; recorded in DESIGN, not repaired) -/
example : watComplete [str "O", str "H2"] false = [str "O", str "H2"] ∧
    watComplete [str "O", str "H1"] false = [str "O", str "H1", str "H2"] := by decide

end P2P.Props.C03
