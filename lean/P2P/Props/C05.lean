/-
  C05 — atoms added by pdb2pqr have template-consistent bonded geometry.

  Models: P2P/Model/Geom.lean `findCoordinates` (the quaternion fit every placement goes through;
  the driver's `Float` instance answers bit-identically to CPython — C15), P2P/Model/Rigid.lean
  `rotateTetrahedral` (residue.py `rotate_tetrahedral`, used by `rebuild_tetrahedral` and the
  two- and three-bond placements of optimize.py), `makeNoBonds` (`make_atom_with_no_bonds`),
  `applyTorsion`/`moveable` (what debumping and flips do to atoms already placed).

  Proved over ℝ, for ALL coordinates:
    * `placed_bond_le_residual` — an atom placed by a fit lies at its template distance from every
      fit atom up to that atom's fit residual: | ‖new − P‖ − ‖h − p‖ | ≤ ‖T p − P‖ (`T` the fitted
      rigid map, `h`, `p` template positions, `P` the real position of the neighbour). On an
      undistorted neighbourhood the residual is 0 and bond length and angles are the template's;
      otherwise they are off by at most the distortion already present. Two atoms placed by the
      same fit are at exactly their template distance, and distinct template points stay distinct
      (`placed_pair_exact`, `placement_injective`);
    * `rotateTetrahedral_rigid` — the 120° constructions keep the distance of every rotated atom to
      both axis atoms and to each other: the new hydrogen sits at the existing hydrogen's bond
      length and angle; `rotate_cycle_identity`, `rotate_back_identity` — three 120° turns, or
      +120° then −120°, leave every atom where it was (so the probing rotations move nothing);
    * `makeNoBonds_unit` — the first water hydrogen is placed exactly 1 Å from the oxygen;
    * `hydrogen_stays_attached` — in every variant of the kernel-checked table (C04
      `rigid_table`), every torsion change keeps every bond length and bond angle involving the
      atoms present, hydrogens included: an added atom moves only together with its parent or
      about an axis through it.
  Not proved: floating-point rounding (the harness bounds it on every placement it observes);
  which of the alternative positions the hydrogen-bond optimisation picks.
-/
import P2P.Model.Rigid
import P2P.Proofs.RigidLemmas
import P2P.Props.C04
import P2P.Proofs.RepairFitTable
import P2P.Proofs.TetraLemmas

namespace P2P.Props.C05
open P2P P2P.Geom P2P.Rigid P2P.Topology P2P.Proofs.Geom P2P.Proofs.Rigid P2P.Proofs.RigidTable

/-- **bond length within the fit residual** -/
theorem placed_bond_le_residual (refs defs : List (V3 ℝ)) (h p P : V3 ℝ) :
    |edist (findCoordinates refs defs h) P - edist h p| ≤ edist (findCoordinates refs defs p) P :=
  placed_bond_le_residual_core refs defs h p P

/-- two atoms placed by the same fit are at exactly their template distance -/
theorem placed_pair_exact (refs defs : List (V3 ℝ)) (a b : V3 ℝ) :
    d2 (findCoordinates refs defs a) (findCoordinates refs defs b) = d2 a b :=
  findCoordinates_rigid_core refs defs a b

/-- distinct template points are placed at distinct positions -/
theorem placement_injective (refs defs : List (V3 ℝ)) (a b : V3 ℝ)
    (h : findCoordinates refs defs a = findCoordinates refs defs b) : a = b :=
  placement_injective_core refs defs a b h

/-- **`rotate_tetrahedral` is rigid about the bond**: every rotated atom keeps its distance to
both bond atoms and to every other rotated atom, for every angle -/
theorem rotateTetrahedral_rigid (a1 a2 : V3 ℝ) (h : d2 a2 a1 ≠ 0) (angle : ℝ) (ps : List (V3 ℝ)) :
    (rotateTetrahedral a1 a2 angle ps).length = ps.length ∧
    ∀ i j (hi : i < ps.length) (hj : j < ps.length),
      d2 ((rotateTetrahedral a1 a2 angle ps).getD i a1) ((rotateTetrahedral a1 a2 angle ps).getD j a1) = d2 ps[i] ps[j] ∧
      d2 ((rotateTetrahedral a1 a2 angle ps).getD i a1) a1 = d2 ps[i] a1 ∧
      d2 ((rotateTetrahedral a1 a2 angle ps).getD i a1) a2 = d2 ps[i] a2 :=
  rotateTetrahedral_rigid_core a1 a2 h angle ps

/-- three turns of 120° put every atom back (the probing in `rebuild_tetrahedral`,
`get_positions_with_two_bonds`, `get_position_with_three_bonds`) -/
theorem rotate_cycle_identity (a1 a2 : V3 ℝ) (h : d2 a2 a1 ≠ 0) (ps : List (V3 ℝ)) :
    rotateTetrahedral a1 a2 120 (rotateTetrahedral a1 a2 120 (rotateTetrahedral a1 a2 120 ps)) = ps := by
  rw [rotate_compose_core a1 a2 h, rotate_compose_core a1 a2 h]
  norm_num
  exact (rotate_full_turn_core a1 a2 h ps).1

/-- +120° then −120° put every atom back -/
theorem rotate_back_identity (a1 a2 : V3 ℝ) (h : d2 a2 a1 ≠ 0) (ps : List (V3 ℝ)) :
    rotateTetrahedral a1 a2 (-120) (rotateTetrahedral a1 a2 120 ps) = ps := by
  rw [rotate_compose_core a1 a2 h]
  norm_num
  exact (rotate_full_turn_core a1 a2 h ps).2

/-- the first hydrogen of a bare water oxygen is exactly 1 Å away -/
theorem makeNoBonds_unit (atom close : V3 ℝ) (h : d2 atom close ≠ 0) :
    d2 (makeNoBonds atom close) atom = 1 :=
  makeNoBonds_unit_core atom close h

/-- **added atoms stay attached through torsion changes**: in every variant of the table, with
all atoms present, a torsion change keeps the distance of every atom to each atom it is bonded to
and to each atom bonded to the same neighbour (bond lengths and bond angles, hydrogens included) -/
theorem hydrogen_stays_attached (base : ResDef) (hb : base ∈ bases) (ns cs : List Str)
    (hn : ns ∈ ntermSeqs) (hc : cs ∈ ctermSeqs) :
    ∃ r, applyAll P2P.Gen.Topology.patches base (ns ++ cs) = some r ∧
      ∀ a b c e, [a, b, c, e] ∈ r.dihedrals →
        ((fullAtoms r).contains a = true ∧ (fullAtoms r).contains b = true ∧
          (fullAtoms r).contains c = true ∧ (fullAtoms r).contains e = true) →
        ∀ (r2d small : ℝ) (pos : Str → V3 ℝ) (angle : ℝ), d2 (pos c) (pos b) ≠ 0 →
          let M := moveable r (fullAtoms r) (!ns.isEmpty) (!cs.isEmpty) c
          let pos' := applyTorsion r2d small pos a b c e M angle
          ∀ v ∈ fullAtoms r, ∀ u ∈ nbrs r (fullAtoms r) v,
            d2 (pos' u) (pos' v) = d2 (pos u) (pos v) ∧
            ∀ w ∈ nbrs r (fullAtoms r) v, d2 (pos' u) (pos' w) = d2 (pos u) (pos w) := by
  have ha : isAmino base = true := List.all_eq_true.mp P2P.Props.C04.bases_are_amino base hb
  obtain ⟨r, hr, _, hfull, _⟩ :=
    P2P.Props.C04.baseOK_spec base ha (P2P.Props.C04.rigid_table base hb) ns cs hn hc
  refine ⟨r, hr, ?_⟩
  intro a b c e hd hp r2d small pos angle haxis
  exact (P2P.Props.C04.torsion_change_is_rigid r (fullAtoms r) _ _ hfull a b c e hd hp r2d small pos angle haxis).2

/-- **The third hydrogen of an XH3 group never lands on an existing one** (`rebuild_tetrahedral`
with two hydrogens present, as repaired): for ALL positions of the two existing hydrogens — ideal or
not — the position taken is one of the two candidates (the first hydrogen turned by 120 and by 240
degrees about the bond), the candidates and the first hydrogen form an equilateral triangle, the new
hydrogen is exactly one side away from the first hydrogen and at least HALF a side away from the
second (`side² ≤ 4 |new − h1|²`; the side is 1.63 Å for a methyl group, so at least 0.81 Å). Before
the repair the first candidate was taken unless the second hydrogen was within 0.1 Å of it: an input
hydrogen 8 degrees off its slot then got the new one 0.13 Å away (fixed: 4b2b694). -/
theorem third_hydrogen_clear (next bond h0 h1 : V3 ℝ) (h : d2 bond next ≠ 0) :
    d2 (cand1 next bond h0) h0 = d2 (cand2 next bond h0) (cand1 next bond h0) ∧
    d2 (cand2 next bond h0) h0 = d2 (cand1 next bond h0) h0 ∧
    (thirdHydrogen next bond h0 h1 = cand1 next bond h0 ∨ thirdHydrogen next bond h0 h1 = cand2 next bond h0) ∧
    d2 (cand1 next bond h0) h0 ≤ 4 * d2 (thirdHydrogen next bond h0 h1) h1 :=
  third_hydrogen_clear_core next bond h0 h1 h

/-! ### rebuilt heavy atoms: which atoms `repair_heavy` fits on (Model/RepairFit.lean) -/

section repairfit
open P2P.RepairFit P2P.Proofs.RepairFit

/-- **Truncated side chains are rebuilt from local fits** (kernel table over this run's topology,
every three-letter amino-acid definition inside a chain): when a side chain is cut off at `x`, the
three atoms `x` is superposed on are pairwise at most two bonds apart in the template, so their
mutual distances are fixed by bond lengths and bond angles alone and the fit does not depend on any
torsion angle of the structure (with `placed_pair_exact`: an undistorted stub gives the template's
bond length and angles exactly) — except for the atoms closing an aromatic ring, whose fit atoms lie
in one planar ring. -/
theorem truncated_rebuild_fits_local :
    P2P.Proofs.RepairFit.bases.all (fun r => (sideHeavy r).all (fun x =>
      fitLocal (midRef r) (truncatedAt (midRef r) x) x || ringClosers.contains (r.name, x))) = true :=
  truncated_fits_local

/-- the carbonyl O inside a chain is fitted on C, CA and the next residue's N (one planar unit);
a missing leaf atom (one heavy neighbour) is always fitted locally -/
theorem carbonyl_O_and_leaves_fit_local :
    P2P.Proofs.RepairFit.bases.all (fun r =>
      fitAtoms (midRef r) (onlyMissing (midRef r) (str "O")) (str "O") = [str "C", str "CA", str "N+1"]
        && fitLocal (midRef r) (onlyMissing (midRef r) (str "O")) (str "O")) = true ∧
    P2P.Proofs.RepairFit.bases.all (fun r => (leaves r).all (fun x =>
      fitLocal (midRef r) (onlyMissing (midRef r) x) x)) = true :=
  ⟨carbonyl_O_fit_local, leaf_fits_local⟩

/-- **Refutation (known finding "fit spans a rotatable bond").** The property does NOT hold for an
atom missing from the middle of a flexible chain: the amide N of every non-proline residue inside a
chain is fitted on CA, C-1 and C, with C-1 and C three bonds apart across the rotatable N-CA bond;
CG of lysine on CB, CD and CA, with CD and CA three bonds apart across CB-CG. The template's torsion
is then imposed on three atoms that do not have it, and the rebuilt atom misses its bond lengths. -/
theorem single_missing_middle_atom_refuted :
    P2P.Proofs.RepairFit.bases.all (fun r => r.name = str "PRO" ||
      (fitAtoms (midRef r) (onlyMissing (midRef r) (str "N")) (str "N") = [str "CA", str "C-1", str "C"]
        && !within2 (midRef r) (str "C-1") (str "C"))) = true ∧
    spanning.contains (str "LYS", str "CG") = true ∧ spanning.contains (str "GLU", str "CB") = true :=
  ⟨backbone_N_fit_spans, middle_atom_fit_spans.1, middle_atom_fit_spans.2.1⟩

/-- **Every hydrogen placed by superposition is fitted locally** when the heavy atoms are
complete: for every amino-acid definition at every chain position (inside a chain, N-terminal,
C-terminal), with none or all of the earlier hydrogens present, the three atoms a hydrogen is
superposed on are pairwise at most two template bonds apart — the fit cannot be spoiled by any
torsion of the structure. -/
theorem hydrogen_fits_local :
    P2P.Proofs.RepairFit.bases.all (fun b => (posRefs b).all (fun r => (hydrogens r).all (fun h =>
      fitLocal r (heavyAll r) h && fitLocal r (presentFor r h) h))) = true ∧
    P2P.Proofs.RepairFit.bases.all (fun b => (posRefs b).length = 3) = true :=
  ⟨P2P.Proofs.RepairFit.hydrogen_fits_local, posRefs_complete⟩

/-- **Neighbour pointers** (`update_bonds`): when both atoms of the peptide bond exist, the two
pointers are set together, and exactly when the atoms are within the bonding distance — a chain gap
clears both. -/
theorem peptide_link_spec (far : Bool) :
    peptideLink true true far = (!far, !far) := by
  cases far <;> rfl

/-- **Refutation (known finding "fit across a chain gap").** When one of the two atoms is missing
the pointer to the other one is set WITHOUT any distance test: a residue that lacks its C and is
followed, after a gap in the chain, by the next residue of the file gets that residue's far-away N
as its `N+1`, and the missing C is then superposed on it (rebuilt 3.4 Å from CA on the real code). -/
theorem peptide_link_untested_refuted (far : Bool) :
    peptideLink false true far = (true, false) ∧ peptideLink true false far = (false, true) := by
  cases far <;> exact ⟨rfl, rfl⟩

end repairfit

/-! ### non-vacuity -/
example : d2 (⟨0, 0, 1⟩ : V3 ℝ) ⟨0, 0, 0⟩ ≠ 0 := by simp [d2, V3.dot, V3.sub]
example : bases.length = 33 := by decide +kernel

end P2P.Props.C05
