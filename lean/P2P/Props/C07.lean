/-
  C07 — every coordinate record of the first model of a PDB input is ingested.

  Model: P2P/Model/PdbRead.lean (read_pdb, ATOM/HETATM parsing, Biomolecule.__init__,
  residue constructors, drop_water), tied to the code by harness/props/c07.py.

  The theorems below are at full strength for the repaired tree (fix: commits for
  blank lines, END handling, MODEL handling and record_type are listed in
  known_findings.txt as `fixed`): no hypothesis about where blank lines, unknown
  records, TER, END or MODEL records sit.
-/
import P2P.Model.PdbRead
import P2P.Proofs.PdbLemmas
import P2P.Proofs.PdbChainLemmas

namespace P2P.Props.C07
open P2P P2P.PdbRead

-- Spec-level definitions (`atomsOf`, `firstModel`, `relabel`, `isAtomLine`, `isWaterRec`)
-- are in P2P/Proofs/PdbLemmas.lean next to the proofs; they are repeated here in words:
--  * `atomsOf recs`        : the atom records of a record list, in order
--  * `firstModel n recs`   : the atom records before the second MODEL record, in file order, each
--                            blank-chain non-water atom relabelled with the letter of the number of TER
--                            records seen so far when the file has TER records (`n` = 1 + #TER)
--  * `isAtomLine l`        : columns 1-6 of `l`, stripped, are ATOM or HETATM

open P2P.Proofs.Pdb

/-- **No line is skipped.** Whatever blank lines, unknown records, TER/END/MODEL/ENDMDL
records surround them, if every ATOM/HETATM line parses, the atom records `read_pdb`
returns are exactly the parses of the ATOM/HETATM lines, in file order. -/
theorem read_every_atom_line (lines : List Str)
    (h : ∀ l ∈ lines, isAtomLine (strip l) = true → ∃ a, parseLine (strip l) = some a) :
    ∃ recs, readPdb lines = .ok recs ∧
      atomsOf recs = lines.filterMap (fun l => if isAtomLine (strip l) then parseLine (strip l) else none) :=
  read_every_atom_line_core lines h

/-- **Trailing-column variations.** Cutting an ATOM/HETATM line anywhere at or after
column 54 (lost occupancy, B-factor, element, trailing blanks) does not change what is
parsed. -/
theorem short_line_same (het : Bool) (l : Str) (n : Nat) (hn : 54 ≤ n) :
    parseAtom het (l.take n) = parseAtom het l :=
  short_line_same_core het l n hn

/-- **Nothing lost, nothing duplicated, later models ignored**, irrespective of the
number and position of TER, END, MODEL and other records: grouping succeeds and the
residues, concatenated, are a permutation (chains are sorted) of the first model's atoms. -/
theorem group_complete (recs : List Rec) (h : (recs.filter (· = .ter)).length < 62) :
    ∃ rs, group recs = .ok rs ∧
      rs.flatten.Perm (firstModel (1 + (recs.filter (· = .ter)).length) recs 0 0) :=
  group_complete_core recs h

/-- the only way grouping fails is the documented chain limit -/
theorem group_error_only_chain_limit (recs : List Rec) (e : RErr) (h : group recs = .error e) :
    e = .tooManyChains :=
  group_error_core recs e h

/-- **First listed alternate location wins**: per atom name the residue keeps the first
record, once, and keeps nothing else. -/
theorem dedupe_first (as : List AtomRec) :
    ((dedupe as).map (·.name)).Nodup ∧ (dedupe as).Sublist as ∧
    ∀ n, (dedupe as).find? (fun a => a.name = n) = as.find? (fun a => a.name = n) :=
  dedupe_first_core as

/-- **Waters are removed iff `--drop-water`**: exactly the coordinate records whose
residue name is HOH or WAT disappear (for records produced by `read_pdb`), and
without the flag the record list is untouched (by definition of `ingest`). -/
theorem dropWater_exact (lines : List Str) (recs : List Rec) (h : readPdb lines = .ok recs) :
    dropWater recs = recs.filter (fun r => !isWaterRec r) :=
  dropWater_exact_core lines recs h

/-! ### non-vacuity and regression witnesses (the inputs that failed before the fixes) -/

def l1 : Str := str "ATOM      1  N   ALA A   1      11.104   6.134  -6.504  1.00  0.00           N  \n"
def l2 : Str := str "ATOM      2  CA  ALA A   1      11.639   6.071  -5.147  1.00  0.00           C  \n"
def l3 : Str := str "ATOM      3  C   ALA A   2      12.100   7.400  -4.600\n"
def w1 : Str := str "HETATM10000  O   HOH A 202      12.000  10.000  10.000  1.00  0.00           O  \n"

def serials (r : Except RErr (List (List AtomRec))) : Option (List (List Int)) :=
  match r with | .ok rs => some (rs.map (·.map (·.serial))) | .error _ => none

/-- blank line in the middle: everything is read -/
theorem blank_line_witness : serials (ingest false [l1, str "\n", l2, str "   \n", l3, str "END\n"]) = some [[1, 2], [3]] := by
  decide +kernel
/-- repeated END, END first -/
theorem repeated_end_witness : serials (ingest false [str "END\n", l1, l2, str "END\n", str "END\n"]) = some [[1, 2]] := by
  decide +kernel
/-- water with a five-digit serial is dropped -/
theorem drop_water_witness : serials (ingest true [l1, w1, str "END\n"]) = some [[1]] ∧
    serials (ingest false [l1, w1, str "END\n"]) = some [[1], [10000]] := by
  decide +kernel
/-- MODEL without serial: only the first model -/
theorem model_witness :
    serials (ingest false [str "MODEL\n", l1, l2, str "ENDMDL\n", str "END\n", str "MODEL 2\n", l1, l2, str "ENDMDL\n"]) = some [[1, 2]] := by
  decide +kernel

/-! ### Records without a chain identifier (`Biomolecule.__init__`; round 4)

"One atom per chain, residue number, insertion code and atom name": for records whose chain column
is blank the chain is what `Biomolecule.__init__` makes of the TER records. -/

open P2P.Proofs.PdbChain in
/-- **one TER is enough**: the pre-count of chains is one more than the number of TER records, so
every file with at least one TER has blank chain identifiers replaced (the off-by-one of the round-4
seeded defect `num_chains = number of TER` is excluded by this line of the model and shown by the tie) -/
theorem one_ter_is_enough (recs : List Rec) (h : Rec.ter ∈ recs) :
    1 + (recs.filter (· = .ter)).length > 1 := by
  have : 0 < (recs.filter (· = .ter)).length := by
    apply List.length_pos_of_mem (a := Rec.ter)
    simp [List.mem_filter, h]
  omega

open P2P.Proofs.PdbChain in
/-- **the chain letter of a blank record is the number of TER records before it**: a non-water
record without chain identifier, in a file whose pre-count exceeds one, is filed under the letter at
position `count` of the 62-letter alphabet; a TER advances `count` by one and changes nothing else;
every other atom record keeps the identifier it came with; no atom record changes `count`. -/
theorem blank_record_chain_letter (n : Nat) (s s' : GState) (a0 : AtomRec) (hs : s.stopped = false)
    (h : gstep n s (.atom a0) = .ok s') :
    s'.count = s.count ∧
    ((a0.chain = [] ∧ n > 1 ∧ isWaterName a0.resName = false) →
      ∃ c rest, chainAlphabet.drop s.count = c :: rest ∧ filedChain s' = some [c]) ∧
    (¬ (a0.chain = [] ∧ n > 1 ∧ isWaterName a0.resName = false) → filedChain s' = some a0.chain) :=
  atom_step n s s' a0 hs h

open P2P.Proofs.PdbChain in
theorem ter_advances_letter (n : Nat) (s s' : GState) (hs : s.stopped = false) (h : gstep n s .ter = .ok s') :
    s'.count = s.count + 1 ∧ s'.chains = s.chains ∧ s'.prev = s.prev :=
  ter_counts n s s' hs h

open P2P.Proofs.PdbChain in
/-- **different TER counts, different chains**: two blank records taken in at different TER counts
are filed under different chain identifiers (the 62 letters are pairwise different) — residues of
two TER-separated chains that re-use residue numbers are never merged. -/
theorem blank_records_separated (n : Nat) (s1 s1' s2 s2' : GState) (a b : AtomRec)
    (h1s : s1.stopped = false) (h2s : s2.stopped = false)
    (ha : a.chain = [] ∧ n > 1 ∧ isWaterName a.resName = false)
    (hb : b.chain = [] ∧ n > 1 ∧ isWaterName b.resName = false)
    (h1 : gstep n s1 (.atom a) = .ok s1') (h2 : gstep n s2 (.atom b) = .ok s2')
    (hc : s1.count ≠ s2.count) : filedChain s1' ≠ filedChain s2' := by
  obtain ⟨c1, r1, hd1, hf1⟩ := (atom_step n s1 s1' a h1s h1).2.1 ha
  obtain ⟨c2, r2, hd2, hf2⟩ := (atom_step n s2 s2' b h2s h2).2.1 hb
  rw [hf1, hf2]
  intro he
  have hcc : c1 = c2 := by
    have := Option.some.inj he
    exact (List.cons.inj this).1
  subst hcc
  exact hc (drop_head_inj _ _ c1 r1 r2 hd1 hd2)

/-- non-vacuity: two blank-chain residues with the same number, one TER between them, none at the
end, are ingested as two residues (chains A and B) -/
theorem blank_ter_witness :
    serials (ingest false [str "ATOM      1  N   ALA     1      11.000  12.000  13.000  1.00  0.00\n",
                           str "TER\n",
                           str "ATOM      2  N   ALA     1      21.000  22.000  23.000  1.00  0.00\n"]) = some [[1], [2]] := by
  decide +kernel

end P2P.Props.C07
