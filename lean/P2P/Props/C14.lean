/-
  C14 — neighbour search returns every atom within range.

  Model: P2P/Model/Cells.lean (`cellCoord`, `addCell`, `removeCell`, `nearCells`), tied to cells.py
  by random operation sequences (harness/props/c14.py).

  Proved: the key arithmetic partitions the line into contiguous cells of width ≤ s for every
  rational coordinate (negative, zero, on a boundary, far away); coordinates closer than the cell
  size land in adjacent cells; under the bookkeeping invariant every registered atom in an
  adjacent cell is returned; and the invariant holds after EVERY sequence of place / remove /
  move operations that obey the protocol (coordinates change only while unregistered).
  The end-to-end claim additionally needs the callers to obey that protocol. They do not at the
  call sites listed in known_findings.txt (genuine defects found by the monitor on real runs):
  that part is `…_partial` by nature and monitored, not proved.
-/
import P2P.Model.Cells
import P2P.Proofs.CellsLemmas

namespace P2P.Props.C14
open P2P.Cells P2P.Proofs.Cells

/-- **Cells are contiguous intervals of width ≤ s**, for every rational coordinate: a
non-negative `x` lies in `[k, k+s)`, a negative one in `(k, k+s]`, where `k` is its cell
coordinate — a multiple of `s`. -/
theorem key_interval (s : Int) (hs : 0 < s) (x : ℚ) :
    let k := cellCoord s (decide (x < 0)) (truncQ x)
    (∃ m : Int, k = m * s) ∧
    ((0 ≤ x → (k : ℚ) ≤ x ∧ x < k + s) ∧ (x < 0 → (k : ℚ) < x ∧ x ≤ k + s)) :=
  key_interval_core s hs x

/-- **Closer than the cell size ⇒ same or adjacent cell** (per coordinate). -/
theorem close_implies_adjacent (s : Int) (hs : 0 < s) (x y : ℚ) (h : |x - y| < s) :
    let kx := cellCoord s (decide (x < 0)) (truncQ x)
    let ky := cellCoord s (decide (y < 0)) (truncQ y)
    ky - kx = -s ∨ ky - kx = 0 ∨ ky - kx = s :=
  close_implies_adjacent_core s hs x y h

/-- **Static completeness**: under the bookkeeping invariant, every other registered atom whose
cell is the same or adjacent in all three coordinates is returned by the query. -/
theorem near_complete_static (st : State) (hI : Inv st) (a b : Id) (ka kb : Key) (hab : a ≠ b)
    (ha : cellOf st a = some ka) (hb : cellOf st b = some kb) (hadj : Adjacent st.size ka kb) :
    b ∈ nearCells st a :=
  near_complete_static_core st hI a b ka kb hab ha hb hadj

/-- **After any history**: the invariant ("a registered atom is in exactly the cell of its
current coordinates") holds after every sequence of protocol-obeying operations, so static
completeness applies after any number of moves, additions and removals. -/
theorem inv_after_any_history (s : Int) (hs : 0 < s) (ops : List Op) :
    Inv (ops.foldl applyOp (init s)) :=
  inv_after_any_history_core s hs ops

/-- the query never returns the querying atom itself -/
theorem near_excludes_self (st : State) (a : Id) : a ∉ nearCells st a :=
  near_excludes_self_core st a

/-- the sizes the code uses are 2 (debumping) and 5 (hydrogen-bond optimisation): both positive -/
example : (0 : Int) < 2 ∧ (0 : Int) < 5 := by decide

/-! ### non-vacuity: boundary and negative coordinates -/
example : cellCoord 2 false 0 = 0 ∧ cellCoord 2 true 0 = -2 ∧ cellCoord 2 true (-2) = -4 ∧ cellCoord 2 false 2 = 2
    ∧ cellCoord 5 true (-5) = -10 ∧ cellCoord 5 true (-4) = -5 ∧ cellCoord 5 false 100000 = 100000 := by decide

end P2P.Props.C14
