/-
  C14 — neighbour search returns every atom within range.

  Model: P2P/Model/Cells.lean (`cellCoord`, `addCell`, `removeCell`, `nearCells`), tied to cells.py
  by random operation sequences (harness/props/c14.py).

  Proved: the key arithmetic partitions the line into contiguous cells of width ≤ s for every
  rational coordinate (negative, zero, on a boundary, far away); coordinates closer than the cell
  size land in adjacent cells; under the bookkeeping invariant every registered atom in an
  adjacent cell is returned; and the invariant holds after EVERY sequence of place / remove /
  move operations that obey the protocol (coordinates change only while unregistered).
  Exactness (the other half of "equal to a brute-force search"): after every such history the
  query returns ONLY registered atoms of adjacent cells, never the querying atom, and returns no
  atom twice (`near_exact`, `near_nodup`).
  The end-to-end claim additionally needs the callers to obey that protocol. They do not at the
  call sites listed in known_findings.txt (genuine defects found by the monitor on real runs):
  that part is `…_partial` by nature and monitored, not proved.
-/
import P2P.Model.Cells
import P2P.Proofs.CellsLemmas
import P2P.Proofs.CellsExactLemmas

namespace P2P.Props.C14
open P2P.Cells P2P.Proofs.Cells

/-- **Cells are contiguous intervals of width ≤ s**, for every rational coordinate: a
non-negative `x` lies in `[k, k+s)`, a negative one in `(k, k+s]`, where `k` is its cell
coordinate — a multiple of `s`. -/
theorem key_interval (s : Int) (hs : 0 < s) (x : ℚ) :
    let k := cellCoord s (decide (x < 0)) (truncQ x)
    (∃ m : Int, k = m * s) ∧
    ((0 ≤ x → (k : ℚ) ≤ x ∧ x < k + s) ∧ (x < 0 → (k : ℚ) < x ∧ x ≤ k + s)) :=
  key_interval_core s hs x

/-- **Closer than the cell size ⇒ same or adjacent cell** (per coordinate). -/
theorem close_implies_adjacent (s : Int) (hs : 0 < s) (x y : ℚ) (h : |x - y| < s) :
    let kx := cellCoord s (decide (x < 0)) (truncQ x)
    let ky := cellCoord s (decide (y < 0)) (truncQ y)
    ky - kx = -s ∨ ky - kx = 0 ∨ ky - kx = s :=
  close_implies_adjacent_core s hs x y h

/-- **Static completeness**: under the bookkeeping invariant, every other registered atom whose
cell is the same or adjacent in all three coordinates is returned by the query. -/
theorem near_complete_static (st : State) (hI : Inv st) (a b : Id) (ka kb : Key) (hab : a ≠ b)
    (ha : cellOf st a = some ka) (hb : cellOf st b = some kb) (hadj : Adjacent st.size ka kb) :
    b ∈ nearCells st a :=
  near_complete_static_core st hI a b ka kb hab ha hb hadj

/-- **After any history**: the invariant ("a registered atom is in exactly the cell of its
current coordinates") holds after every sequence of protocol-obeying operations, so static
completeness applies after any number of moves, additions and removals. -/
theorem inv_after_any_history (s : Int) (hs : 0 < s) (ops : List Op) :
    Inv (ops.foldl applyOp (init s)) :=
  inv_after_any_history_core s hs ops

/-- the query never returns the querying atom itself -/
theorem near_excludes_self (st : State) (a : Id) : a ∉ nearCells st a :=
  near_excludes_self_core st a

/-- **Exactness.** After every protocol-obeying history the cell lists hold exactly the
registered atoms (`Exact`), so for a registered querying atom the query returns `b` if and only if
`b` is another registered atom whose cell is adjacent to the querying atom's cell: nothing is
lost (completeness) and nothing stale, removed or foreign is returned (soundness). -/
theorem near_exact (s : Int) (hs : 0 < s) (ops : List Op) (a b : Id) :
    let st := ops.foldl applyOp (init s)
    b ∈ nearCells st a ↔
      (b ≠ a ∧ ∃ ka kb, cellOf st a = some ka ∧ cellOf st b = some kb ∧ Adjacent s ka kb) := by
  intro st
  have hI : Inv st := inv_after_any_history_core s hs ops
  obtain ⟨hE, hsz⟩ := exact_after_any_history_core s ops
  constructor
  · intro hb
    have h := near_sound_core st hE a b hb
    rw [hsz] at h
    exact h
  · rintro ⟨hne, ka, kb, ha, hb, hadj⟩
    exact near_complete_static_core st hI a b ka kb (Ne.symm hne) ha hb (by rw [hsz]; exact hadj)

/-- **No neighbour is returned twice**, after every protocol-obeying history: the result is a
set, as a brute-force search over the structure's atoms gives. -/
theorem near_nodup (s : Int) (hs : 0 < s) (ops : List Op) (a : Id) :
    (nearCells (ops.foldl applyOp (init s)) a).Nodup := by
  have hI : Inv (ops.foldl applyOp (init s)) := inv_after_any_history_core s hs ops
  obtain ⟨hE, hsz⟩ := exact_after_any_history_core s ops
  exact near_nodup_core _ (by rw [hsz]; exact hs) hI hE a

/-- what `add_cell` sees of a point with rational coordinates -/
def tposOf (p : ℚ × ℚ × ℚ) : TPos :=
  { nx := decide (p.1 < 0), tx := truncQ p.1, ny := decide (p.2.1 < 0), ty := truncQ p.2.1,
    nz := decide (p.2.2 < 0), tz := truncQ p.2.2 }

/-- **The end-to-end statement on the model**: after every protocol-obeying history, two
registered atoms whose coordinates differ by less than the cell size along every axis (in
particular: two atoms closer than the cell size) find each other — for any rational coordinates,
negative, zero, on cell boundaries or far from the origin. Together with `near_exact` and
`near_nodup`: filtering the query's result by distance gives the brute-force result. -/
theorem near_in_range (s : Int) (hs : 0 < s) (ops : List Op) (a b : Id) (pa pb : ℚ × ℚ × ℚ)
    (hab : a ≠ b) :
    let st := ops.foldl applyOp (init s)
    (cellOf st a).isSome → (cellOf st b).isSome →
    posOf st a = tposOf pa → posOf st b = tposOf pb →
    |pa.1 - pb.1| < s → |pa.2.1 - pb.2.1| < s → |pa.2.2 - pb.2.2| < s →
    b ∈ nearCells st a := by
  intro st ha hb hpa hpb hx hy hz
  have hI : Inv st := inv_after_any_history_core s hs ops
  obtain ⟨_, hsz⟩ := exact_after_any_history_core s ops
  obtain ⟨ka, hka⟩ := Option.isSome_iff_exists.mp ha
  obtain ⟨kb, hkb⟩ := Option.isSome_iff_exists.mp hb
  have h1 := (hI.2 a ka hka).1
  have h2 := (hI.2 b kb hkb).1
  refine near_complete_static_core st hI a b ka kb hab hka hkb ?_
  rw [hsz] at h1 h2 ⊢
  rw [h1, h2, hpa, hpb]
  exact ⟨close_implies_adjacent_core s hs _ _ hx, close_implies_adjacent_core s hs _ _ hy,
    close_implies_adjacent_core s hs _ _ hz⟩

/-- non-vacuity: a history with two atoms in adjacent cells, one move and one removal; the moved
atom is found at its new place, the removed one is not returned -/
example :
    let p (x : Int) : TPos := { nx := decide (x < 0), tx := x, ny := false, ty := 0, nz := false, tz := 0 }
    let st := [Op.place 1 (p 1), Op.place 2 (p 3), Op.place 3 (p (-1)), Op.move 2 (p 9), Op.remove 3, Op.move 2 (p 2)].foldl applyOp (init 2)
    nearCells st 1 = [2] := by decide

/-- the sizes the code uses are 2 (debumping) and 5 (hydrogen-bond optimisation): both positive -/
example : (0 : Int) < 2 ∧ (0 : Int) < 5 := by decide

/-! ### non-vacuity: boundary and negative coordinates -/
example : cellCoord 2 false 0 = 0 ∧ cellCoord 2 true 0 = -2 ∧ cellCoord 2 true (-2) = -4 ∧ cellCoord 2 false 2 = 2
    ∧ cellCoord 5 true (-5) = -10 ∧ cellCoord 5 true (-4) = -5 ∧ cellCoord 5 false 100000 = 100000 := by decide

/-! ### The callers' distance filter (round 4)

The property's goal clause is about the *callers*: "results after distance filtering equal a
brute-force all-pairs search". That holds exactly when the distance the caller filters with does
not exceed the cell size of the list it queries. -/

/-- squared Euclidean distance of two points -/
def dist2 (p q : ℚ × ℚ × ℚ) : ℚ := (p.1 - q.1) ^ 2 + (p.2.1 - q.2.1) ^ 2 + (p.2.2 - q.2.2) ^ 2

/-- **a caller whose cutoff does not exceed the cell size loses nothing**: after every
protocol-obeying history, every registered atom closer (Euclidean distance) than a cutoff `r ≤ s` to
the query atom is in the query's result; with `near_exact` / `near_nodup`, filtering the result at
`r` is the brute-force answer. (`optimize_hydrogens` filters at 4.3 Å on a 5 Å list, the debumper
at ≤ 2 Å on a 2 Å list.) -/
theorem near_within_cutoff (s : Int) (hs : 0 < s) (ops : List Op) (a b : Id) (pa pb : ℚ × ℚ × ℚ)
    (hab : a ≠ b) (r : ℚ) (hr0 : 0 ≤ r) (hr : r ≤ s) :
    let st := ops.foldl applyOp (init s)
    (cellOf st a).isSome → (cellOf st b).isSome →
    posOf st a = tposOf pa → posOf st b = tposOf pb →
    dist2 pa pb < r ^ 2 → b ∈ nearCells st a := by
  intro st ha hb hpa hpb hd
  have key : ∀ u v w : ℚ, u ^ 2 + v ^ 2 + w ^ 2 < r ^ 2 → |u| < (s : ℚ) := by
    intro u v w h
    have h1 : u ^ 2 < r ^ 2 := by nlinarith [sq_nonneg v, sq_nonneg w]
    have h2 : |u| < r := abs_lt_of_sq_lt_sq h1 hr0
    exact lt_of_lt_of_le h2 hr
  unfold dist2 at hd
  set u := pa.1 - pb.1
  set v := pa.2.1 - pb.2.1
  set w := pa.2.2 - pb.2.2
  exact near_in_range s hs ops a b pa pb hab ha hb hpa hpb (key u v w hd) (key v u w (by linarith)) (key w u v (by linarith))

/-- **… and a cutoff beyond the cell size does lose atoms** (the round-4 seeded defect: a 2 Å list
queried by a caller that filters at 4.3 Å): two registered atoms 4 Å apart are not neighbours in a
2 Å list. -/
theorem cutoff_beyond_cell_size_refuted :
    let p (x : Int) : TPos := { nx := decide (x < 0), tx := x, ny := false, ty := 0, nz := false, tz := 0 }
    let st := [Op.place 1 (p 0), Op.place 2 (p 4)].foldl applyOp (init 2)
    (cellOf st 1).isSome ∧ (cellOf st 2).isSome ∧ 2 ∉ nearCells st 1 ∧
      dist2 (0, 0, 0) (4, 0, 0) < (43 / 10 : ℚ) ^ 2 := by
  refine ⟨by decide, by decide, by decide, by norm_num [dist2]⟩

end P2P.Props.C14
