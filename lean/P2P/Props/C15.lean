/-
  C15 — rigid-body fitting reproduces exact placements.

  Model: P2P/Model/Geom.lean, written once over `GNum`; executed in `Float` by the driver (every
  sampled `find_coordinates` answer is bit-identical to CPython's) and instantiated with ℝ here
  (`GNum ℝ` instance in P2P/Proofs/GeomLemmas.lean).

  Proved over ℝ, for ALL points, angles and quaternions:
    * a unit quaternion gives a proper rotation (isometry, determinant +1: never a mirror image);
    * the torsion matrix is a proper rotation about the normalised axis, for every angle;
    * the accumulated Jacobi eigenvector matrix is orthogonal after ANY number of sweeps, so the
      quaternion extracted always has unit norm and `find_coordinates` always applies a proper
      rigid motion `refcenter + R (p − defcenter)`;
    * Horn's identity, and exactness: if the structure points are a proper rigid image of the
      template points and the quaternion maximises the quadratic form (= is a top eigenvector),
      every template point is mapped onto its image.
  Not proved (validated numerically on every sample, see evidence): that 30 Jacobi sweeps reach
  the maximiser; floating-point rounding; the measured torsion after `set_dihedral_angle`
  (the oracle checks it to 0.05° on the real code). Partial on exactly those.
-/
import P2P.Model.Geom
import P2P.Proofs.GeomLemmas

namespace P2P.Props.C15
open P2P.Geom P2P.Proofs.Geom

/-- **Unit quaternion ⇒ isometry**: `rotPoint (q2mat q)` preserves all dot products. -/
theorem q2mat_isometry (q0 q1 q2 q3 : ℝ) (h : q0 ^ 2 + q1 ^ 2 + q2 ^ 2 + q3 ^ 2 = 1) (p p' : V3 ℝ) :
    V3.dot (rotPoint (q2mat q0 q1 q2 q3) p) (rotPoint (q2mat q0 q1 q2 q3) p') = V3.dot p p' :=
  q2mat_isometry_core q0 q1 q2 q3 h p p'

/-- **… and proper** (determinant +1, so never a mirror image): it preserves cross products. -/
theorem q2mat_proper (q0 q1 q2 q3 : ℝ) (h : q0 ^ 2 + q1 ^ 2 + q2 ^ 2 + q3 ^ 2 = 1) (p p' : V3 ℝ) :
    rotPoint (q2mat q0 q1 q2 q3) (V3.cross p p') =
      V3.cross (rotPoint (q2mat q0 q1 q2 q3) p) (rotPoint (q2mat q0 q1 q2 q3) p') :=
  q2mat_proper_core q0 q1 q2 q3 h p p'

/-- **Torsion matrix**: for a unit axis and every angle, an isometry … -/
theorem chi_isometry (l : V3 ℝ) (hl : V3.dot l l = 1) (angle : ℝ) (p p' : V3 ℝ) :
    V3.dot (rotPoint (chiMatrix l angle) p) (rotPoint (chiMatrix l angle) p') = V3.dot p p' :=
  chi_isometry_core l hl angle p p'

/-- … that fixes every point of the axis. -/
theorem chi_fixes_axis (l : V3 ℝ) (hl : V3.dot l l = 1) (angle t : ℝ) :
    rotPoint (chiMatrix l angle) (V3.smul t l) = V3.smul t l :=
  chi_fixes_axis_core l hl angle t

/-- normalising a non-zero axis gives a unit vector -/
theorem normalize_unit (a : V3 ℝ) (ha : V3.dot a a ≠ 0) : V3.dot (V3.normalize a) (V3.normalize a) = 1 :=
  normalize_unit_core a ha

/-- **`qchichange` is rigid**: distances between rotated points, and from every rotated point to
every point of the axis, are unchanged — for every non-zero axis and every angle. -/
theorem qchichange_rigid (axis : V3 ℝ) (ha : V3.dot axis axis ≠ 0) (angle : ℝ) (p p' : V3 ℝ) (t : ℝ) :
    let R := rotPoint (chiMatrix (V3.normalize axis) angle)
    V3.dot (V3.sub (R p) (R p')) (V3.sub (R p) (R p')) = V3.dot (V3.sub p p') (V3.sub p p') ∧
    V3.dot (V3.sub (R p) (V3.smul t axis)) (V3.sub (R p) (V3.smul t axis)) =
      V3.dot (V3.sub p (V3.smul t axis)) (V3.sub p (V3.smul t axis)) :=
  qchichange_rigid_core axis ha angle p p' t

/-- **Jacobi keeps the eigenvector matrix orthogonal**, for every symmetric input and every number
of sweeps: the quaternion `find_coordinates` extracts always has unit norm. -/
theorem jacobi_unit_quaternion (c : Sym4 ℝ) (nrot : Nat) :
    let s := jacobi c nrot
    (s.v 0 3) ^ 2 + (s.v 1 3) ^ 2 + (s.v 2 3) ^ 2 + (s.v 3 3) ^ 2 = 1 :=
  jacobi_unit_quaternion_core c nrot

/-- **`find_coordinates` always applies a proper rigid motion**: the placed atom is
`refcenter + R (p − defcenter)` with `R` the rotation of a unit quaternion; in particular the
distance between two atoms placed by the same fit is the template distance. -/
theorem findCoordinates_rigid (refs defs : List (V3 ℝ)) (a b : V3 ℝ) :
    V3.dot (V3.sub (findCoordinates refs defs a) (findCoordinates refs defs b))
           (V3.sub (findCoordinates refs defs a) (findCoordinates refs defs b)) =
    V3.dot (V3.sub a b) (V3.sub a b) :=
  findCoordinates_rigid_core refs defs a b

/-- **Horn's identity**: the quadratic form of the 4×4 matrix `qtrfit` builds is the overlap
`Σ (R(q) xᵢ) · yᵢ` of the rotated template points with the structure points. -/
theorem horn_identity (defs refs : List (V3 ℝ)) (q0 q1 q2 q3 : ℝ) :
    quadForm (cmat defs refs) q0 q1 q2 q3 =
      ((defs.zip refs).map (fun dr => V3.dot (rotPoint (q2mat q0 q1 q2 q3) dr.1) dr.2)).sum :=
  horn_identity_core defs refs q0 q1 q2 q3

/-- **Exactness**: if the (centred) structure points are the image of the (centred) template
points under the rotation of a unit quaternion `g`, and the unit quaternion `q` maximises the
quadratic form, then `R(q)` maps every template point exactly onto its image. -/
theorem horn_exact (defs : List (V3 ℝ)) (g0 g1 g2 g3 q0 q1 q2 q3 : ℝ)
    (hg : g0 ^ 2 + g1 ^ 2 + g2 ^ 2 + g3 ^ 2 = 1) (hq : q0 ^ 2 + q1 ^ 2 + q2 ^ 2 + q3 ^ 2 = 1)
    (hmax : quadForm (cmat defs (defs.map (rotPoint (q2mat g0 g1 g2 g3)))) g0 g1 g2 g3 ≤
            quadForm (cmat defs (defs.map (rotPoint (q2mat g0 g1 g2 g3)))) q0 q1 q2 q3) :
    ∀ d ∈ defs, rotPoint (q2mat q0 q1 q2 q3) d = rotPoint (q2mat g0 g1 g2 g3) d :=
  horn_exact_core defs g0 g1 g2 g3 q0 q1 q2 q3 hg hq hmax

/-! ### non-vacuity -/
example : (1 : ℝ) ^ 2 + 0 ^ 2 + 0 ^ 2 + 0 ^ 2 = 1 := by norm_num
example : V3.dot (⟨0, 0, 1⟩ : V3 ℝ) ⟨0, 0, 1⟩ = 1 := by simp [V3.dot]

end P2P.Props.C15
