/-
  C15 — rigid-body fitting reproduces exact placements.

  Model: P2P/Model/Geom.lean, written once over `GNum`; executed in `Float` by the driver (every
  sampled `find_coordinates` answer is bit-identical to CPython's) and instantiated with ℝ here
  (`GNum ℝ` instance in P2P/Proofs/GeomLemmas.lean).

  Proved over ℝ, for ALL points, angles and quaternions:
    * a unit quaternion gives a proper rotation (isometry, determinant +1: never a mirror image);
    * the torsion matrix is a proper rotation about the normalised axis, for every angle;
    * the accumulated Jacobi eigenvector matrix is orthogonal after ANY number of sweeps, so the
      quaternion extracted always has unit norm and `find_coordinates` always applies a proper
      rigid motion `refcenter + R (p − defcenter)`;
    * Horn's identity, and exactness: if the structure points are a proper rigid image of the
      template points and the quaternion maximises the quadratic form (= is a top eigenvector),
      every template point is mapped onto its image.
    * the requested torsion: turning the moved atom about the axis by `diff` degrees turns the
      pair (cosine, sine) of the torsion — exactly the quantities `utilities.dihedral` computes —
      by `diff`; the value `dihedral` returns has that cosine and sine; so after
      `set_dihedral_angle` the torsion's cosine and sine are those of the requested angle, and after
      ANY number of successive changes through the cache (each one re-measuring) those of the last
      requested angle (`torsion_rotates`, `dihedral_value`, `torsion_set`, `torsion_sequence`).
  Not proved (validated numerically on every sample, see evidence): that 30 Jacobi sweeps reach
  the maximiser; floating-point rounding; requested angles within 0.03 degrees of 0 or 180, where
  `dihedral` snaps its result (the oracle checks the measured torsion to 0.05° on the real code).
  Partial on exactly those.
-/
import P2P.Model.Geom
import P2P.Proofs.GeomLemmas
import P2P.Proofs.DihedralLemmas
import P2P.Proofs.DihedralSeq

namespace P2P.Props.C15
open P2P.Geom P2P.Proofs.Geom

/-- **Unit quaternion ⇒ isometry**: `rotPoint (q2mat q)` preserves all dot products. -/
theorem q2mat_isometry (q0 q1 q2 q3 : ℝ) (h : q0 ^ 2 + q1 ^ 2 + q2 ^ 2 + q3 ^ 2 = 1) (p p' : V3 ℝ) :
    V3.dot (rotPoint (q2mat q0 q1 q2 q3) p) (rotPoint (q2mat q0 q1 q2 q3) p') = V3.dot p p' :=
  q2mat_isometry_core q0 q1 q2 q3 h p p'

/-- **… and proper** (determinant +1, so never a mirror image): it preserves cross products. -/
theorem q2mat_proper (q0 q1 q2 q3 : ℝ) (h : q0 ^ 2 + q1 ^ 2 + q2 ^ 2 + q3 ^ 2 = 1) (p p' : V3 ℝ) :
    rotPoint (q2mat q0 q1 q2 q3) (V3.cross p p') =
      V3.cross (rotPoint (q2mat q0 q1 q2 q3) p) (rotPoint (q2mat q0 q1 q2 q3) p') :=
  q2mat_proper_core q0 q1 q2 q3 h p p'

/-- **Torsion matrix**: for a unit axis and every angle, an isometry … -/
theorem chi_isometry (l : V3 ℝ) (hl : V3.dot l l = 1) (angle : ℝ) (p p' : V3 ℝ) :
    V3.dot (rotPoint (chiMatrix l angle) p) (rotPoint (chiMatrix l angle) p') = V3.dot p p' :=
  chi_isometry_core l hl angle p p'

/-- … that fixes every point of the axis. -/
theorem chi_fixes_axis (l : V3 ℝ) (hl : V3.dot l l = 1) (angle t : ℝ) :
    rotPoint (chiMatrix l angle) (V3.smul t l) = V3.smul t l :=
  chi_fixes_axis_core l hl angle t

/-- normalising a non-zero axis gives a unit vector -/
theorem normalize_unit (a : V3 ℝ) (ha : V3.dot a a ≠ 0) : V3.dot (V3.normalize a) (V3.normalize a) = 1 :=
  normalize_unit_core a ha

/-- **`qchichange` is rigid**: distances between rotated points, and from every rotated point to
every point of the axis, are unchanged — for every non-zero axis and every angle. -/
theorem qchichange_rigid (axis : V3 ℝ) (ha : V3.dot axis axis ≠ 0) (angle : ℝ) (p p' : V3 ℝ) (t : ℝ) :
    let R := rotPoint (chiMatrix (V3.normalize axis) angle)
    V3.dot (V3.sub (R p) (R p')) (V3.sub (R p) (R p')) = V3.dot (V3.sub p p') (V3.sub p p') ∧
    V3.dot (V3.sub (R p) (V3.smul t axis)) (V3.sub (R p) (V3.smul t axis)) =
      V3.dot (V3.sub p (V3.smul t axis)) (V3.sub p (V3.smul t axis)) :=
  qchichange_rigid_core axis ha angle p p' t

/-- **Jacobi keeps the eigenvector matrix orthogonal**, for every symmetric input and every number
of sweeps: the quaternion `find_coordinates` extracts always has unit norm. -/
theorem jacobi_unit_quaternion (c : Sym4 ℝ) (nrot : Nat) :
    let s := jacobi c nrot
    (s.v 0 3) ^ 2 + (s.v 1 3) ^ 2 + (s.v 2 3) ^ 2 + (s.v 3 3) ^ 2 = 1 :=
  jacobi_unit_quaternion_core c nrot

/-- **`find_coordinates` always applies a proper rigid motion**: the placed atom is
`refcenter + R (p − defcenter)` with `R` the rotation of a unit quaternion; in particular the
distance between two atoms placed by the same fit is the template distance. -/
theorem findCoordinates_rigid (refs defs : List (V3 ℝ)) (a b : V3 ℝ) :
    V3.dot (V3.sub (findCoordinates refs defs a) (findCoordinates refs defs b))
           (V3.sub (findCoordinates refs defs a) (findCoordinates refs defs b)) =
    V3.dot (V3.sub a b) (V3.sub a b) :=
  findCoordinates_rigid_core refs defs a b

/-- **Horn's identity**: the quadratic form of the 4×4 matrix `qtrfit` builds is the overlap
`Σ (R(q) xᵢ) · yᵢ` of the rotated template points with the structure points. -/
theorem horn_identity (defs refs : List (V3 ℝ)) (q0 q1 q2 q3 : ℝ) :
    quadForm (cmat defs refs) q0 q1 q2 q3 =
      ((defs.zip refs).map (fun dr => V3.dot (rotPoint (q2mat q0 q1 q2 q3) dr.1) dr.2)).sum :=
  horn_identity_core defs refs q0 q1 q2 q3

/-- **Exactness**: if the (centred) structure points are the image of the (centred) template
points under the rotation of a unit quaternion `g`, and the unit quaternion `q` maximises the
quadratic form, then `R(q)` maps every template point exactly onto its image. -/
theorem horn_exact (defs : List (V3 ℝ)) (g0 g1 g2 g3 q0 q1 q2 q3 : ℝ)
    (hg : g0 ^ 2 + g1 ^ 2 + g2 ^ 2 + g3 ^ 2 = 1) (hq : q0 ^ 2 + q1 ^ 2 + q2 ^ 2 + q3 ^ 2 = 1)
    (hmax : quadForm (cmat defs (defs.map (rotPoint (q2mat g0 g1 g2 g3)))) g0 g1 g2 g3 ≤
            quadForm (cmat defs (defs.map (rotPoint (q2mat g0 g1 g2 g3)))) q0 q1 q2 q3) :
    ∀ d ∈ defs, rotPoint (q2mat q0 q1 q2 q3) d = rotPoint (q2mat g0 g1 g2 g3) d :=
  horn_exact_core defs g0 g1 g2 g3 q0 q1 q2 q3 hg hq hmax

/-! ### non-vacuity -/
example : (1 : ℝ) ^ 2 + 0 ^ 2 + 0 ^ 2 + 0 ^ 2 = 1 := by norm_num
example : V3.dot (⟨0, 0, 1⟩ : V3 ℝ) ⟨0, 0, 1⟩ = 1 := by simp [V3.dot]

/-! ### the requested torsion -/

section torsion
open P2P.Rigid P2P.Proofs.Dihedral

/-- the cosine and sine of a torsion, as `utilities.dihedral` computes them, lie on the unit circle -/
theorem torsion_unit (c1 c2 c3 c4 : V3 ℝ) (h : NonDeg c1 c2 c3 c4) :
    cosTor c1 c2 c3 c4 ^ 2 + sinTor c1 c2 c3 c4 ^ 2 = 1 :=
  tor_unit_core c1 c2 c3 c4 h

/-- **Turning the moved atom by `diff` degrees turns the torsion by `diff`**: for all positions
(c1 and c4 off the axis) and every angle -/
theorem torsion_rotates (c1 c2 c3 c4 : V3 ℝ) (h : NonDeg c1 c2 c3 c4) (diff : ℝ) :
    cosTor c1 c2 c3 (torsionMap c2 c3 diff c4) =
      Real.cos (rad diff) * cosTor c1 c2 c3 c4 - Real.sin (rad diff) * sinTor c1 c2 c3 c4 ∧
    sinTor c1 c2 c3 (torsionMap c2 c3 diff c4) =
      Real.sin (rad diff) * cosTor c1 c2 c3 c4 + Real.cos (rad diff) * sinTor c1 c2 c3 c4 :=
  tor_rotates_core c1 c2 c3 c4 h diff

/-- the value `utilities.dihedral` returns has exactly that cosine and sine (outside the two
branches in which it snaps to 0 or 180 degrees) -/
theorem dihedral_value (c1 c2 c3 c4 : V3 ℝ) (h : NonDeg c1 c2 c3 c4) (small : ℝ) (hs : 0 < small)
    (hgen : ¬ |cosTor c1 c2 c3 c4 + 1| < small ∧ ¬ |cosTor c1 c2 c3 c4 - 1| < small) :
    Real.cos (rad (dihedral (180 / Real.pi) small c1 c2 c3 c4)) = cosTor c1 c2 c3 c4 ∧
    Real.sin (rad (dihedral (180 / Real.pi) small c1 c2 c3 c4)) = sinTor c1 c2 c3 c4 :=
  dihedral_value_core c1 c2 c3 c4 h small hs hgen

/-- **Setting a torsion to a requested angle leaves the torsion at that angle**: turning by
`angle - old`, where `old` is the measured torsion, gives a torsion whose cosine and sine are those
of `angle` -/
theorem torsion_set (c1 c2 c3 c4 : V3 ℝ) (h : NonDeg c1 c2 c3 c4) (old angle : ℝ)
    (hold : Real.cos (rad old) = cosTor c1 c2 c3 c4 ∧ Real.sin (rad old) = sinTor c1 c2 c3 c4) :
    cosTor c1 c2 c3 (torsionMap c2 c3 (angle - old) c4) = Real.cos (rad angle) ∧
    sinTor c1 c2 c3 (torsionMap c2 c3 (angle - old) c4) = Real.sin (rad angle) :=
  tor_set_core c1 c2 c3 c4 h old angle hold

/-- **Any number of successive changes of one torsion** (the debumping scan): each change reads the
old angle from the cache, turns by `requested - cached` and stores the re-measured torsion; after
the last change the torsion is the last requested angle — whatever the earlier requests were
(none of them within the snapping range). -/
theorem torsion_sequence (small : ℝ) (hs : 0 < small) (c1 c2 c3 : V3 ℝ) (st : V3 ℝ × ℝ)
    (hg : Good small c1 c2 c3 st) (angles : List ℝ) (last : ℝ)
    (hns : ∀ a ∈ angles, NoSnap small a) :
    cosTor c1 c2 c3 ((angles ++ [last]).foldl (stepTor small c1 c2 c3) st).1 = Real.cos (rad last) ∧
    sinTor c1 c2 c3 ((angles ++ [last]).foldl (stepTor small c1 c2 c3) st).1 = Real.sin (rad last) :=
  torsion_sequence_core small hs c1 c2 c3 st hg angles last hns

/-- non-vacuity: a torsion of 90 degrees satisfies the hypothesis -/
example : NonDeg (⟨1, 0, 0⟩ : V3 ℝ) ⟨0, 0, 0⟩ ⟨0, 0, 1⟩ ⟨0, 1, 1⟩ := by
  constructor <;> norm_num [V3.cross, V3.sub, V3.dot]

end torsion

end P2P.Props.C15
