/-
  C04 — input coordinates are preserved; only rigid side-chain rotations move atoms.

  Models: P2P/Model/Rigid.lean (rank of each atom from CA, the set a torsion change moves,
  `set_dihedral_angle` on a whole residue), P2P/Model/Geom.lean (the rotation itself, shared with
  C15), P2P/Model/CoordFlow.lean over the regenerated P2P/Gen/CoordFlow.lean (who assigns
  coordinates, who can reach the torsion routine) and P2P/Gen/MainFlow.lean (under which options).

  Proved:
    * for ALL coordinates, torsion values and target angles: atoms outside the moved set keep
      their coordinates exactly; the moved atoms all undergo one and the same map, which is an
      isometry fixing both atoms of the torsion axis (`torsion_outside_fixed`, `torsion_inside`,
      `torsionMap_rigid`);
    * if the moved set satisfies the decidable condition `RigidCond`, every bond length and every
      1-3 distance (hence every bond angle) of the residue is unchanged (`rigid_cond_preserves`);
    * `RigidCond` — together with "no backbone atom, no OXT/HO/H2/H3 in the moved set" — holds,
      by kernel evaluation over the regenerated topology, for every base amino-acid definition ×
      every combination of terminus patches the pipeline applies × every torsion of the
      definition, with all atoms present and with heavy atoms only (`rigid_table`);
      `torsion_change_is_rigid` puts the three together;
    * for EVERY definition (also user-supplied ones) the backbone is never in the moved set
      (`backbone_never_moveable`);
    * on the regenerated call data: the functions that assign coordinates of an existing object
      are exactly the listed ones; the torsion routine is reachable from `non_trivial` only
      through calls guarded by `not assign_only` and by `debump` or `opt`, and from
      `main_driver` only under `not clean` (`coordinate_writers_exact`,
      `torsion_only_under_debump_or_opt`, `torsion_not_under_clean`).
  Not proved (checked on every run by the write monitor of the harness, see evidence): that the
  hydrogen-placement writers of the list only touch hydrogens and lone pairs; that the 120° cycles
  of `rotate_tetrahedral` return exactly in floating point (they return exactly over ℝ — C05).
-/
import P2P.Model.Rigid
import P2P.Model.CoordFlow
import P2P.Gen.CoordFlow
import P2P.Gen.MainFlow
import P2P.Proofs.RigidLemmas
import P2P.Proofs.RigidTableAll

namespace P2P.Props.C04
open P2P P2P.Geom P2P.Rigid P2P.Topology P2P.Proofs.Geom P2P.Proofs.Rigid P2P.Proofs.RigidTable

/-- atoms outside the moved set keep their coordinates exactly -/
theorem torsion_outside_fixed (r2d small : ℝ) (pos : Str → V3 ℝ) (a b c d : Str) (M : List Str) (angle : ℝ)
    (u : Str) (h : u ∉ M) : applyTorsion r2d small pos a b c d M angle u = pos u :=
  applyTorsion_outside_core r2d small pos a b c d M angle u h

/-- every moved atom undergoes the same map `torsionMap (pos b) (pos c) diff` -/
theorem torsion_inside (r2d small : ℝ) (pos : Str → V3 ℝ) (a b c d : Str) (M : List Str) (angle : ℝ)
    (u : Str) (h : u ∈ M) :
    applyTorsion r2d small pos a b c d M angle u =
      torsionMap (pos b) (pos c) (diffOf r2d small pos a b c d angle) (pos u) :=
  applyTorsion_inside_core r2d small pos a b c d M angle u h

/-- … which preserves all distances and fixes both atoms of the axis, for every angle -/
theorem torsionMap_rigid (o c : V3 ℝ) (h : d2 c o ≠ 0) (diff : ℝ) (p q : V3 ℝ) :
    d2 (torsionMap o c diff p) (torsionMap o c diff q) = d2 p q ∧
    torsionMap o c diff o = o ∧ torsionMap o c diff c = c :=
  torsionMap_rigid_core o c h diff p q

/-- a pair that is `pairOK` keeps its distance -/
theorem pair_preserved (r2d small : ℝ) (pos : Str → V3 ℝ) (a b c d : Str) (M : List Str) (angle : ℝ)
    (haxis : d2 (pos c) (pos b) ≠ 0) (u w : Str) (h : pairOK b c M u w = true) :
    d2 (applyTorsion r2d small pos a b c d M angle u) (applyTorsion r2d small pos a b c d M angle w) =
      d2 (pos u) (pos w) :=
  pair_preserved_core r2d small pos a b c d M angle haxis u w h

/-- **`RigidCond` suffices**: every bond length and every 1-3 distance of the residue is
unchanged, for all coordinates and all angles -/
theorem rigid_cond_preserves (r : ResDef) (present : List Str) (r2d small : ℝ) (pos : Str → V3 ℝ)
    (a b c d : Str) (M : List Str) (angle : ℝ) (haxis : d2 (pos c) (pos b) ≠ 0)
    (h : RigidCond r present b c M = true) :
    ∀ v ∈ present, ∀ u ∈ nbrs r present v,
      d2 (applyTorsion r2d small pos a b c d M angle u) (applyTorsion r2d small pos a b c d M angle v) =
        d2 (pos u) (pos v) ∧
      ∀ w ∈ nbrs r present v,
        d2 (applyTorsion r2d small pos a b c d M angle u) (applyTorsion r2d small pos a b c d M angle w) =
          d2 (pos u) (pos w) :=
  rigid_cond_preserves_core r present r2d small pos a b c d M angle haxis h

/-- **the table** (kernel evaluation on the regenerated topology): every base definition, under
every terminus-patch combination, passes `defOK` -/
theorem rigid_table : ∀ base ∈ bases, baseOK P2P.Gen.Topology.patches base = true := by
  intro base hb
  exact List.all_eq_true.mp bases_ok base hb

theorem bases_are_amino : bases.all isAmino = true := by decide +kernel

/-- what the table says for one run-time variant -/
theorem baseOK_spec (base : ResDef) (ha : isAmino base = true)
    (h : baseOK P2P.Gen.Topology.patches base = true) (ns cs : List Str) (hn : ns ∈ ntermSeqs) (hc : cs ∈ ctermSeqs) :
    ∃ r, applyAll P2P.Gen.Topology.patches base (ns ++ cs) = some r ∧
      bondsSymmetric r (fullAtoms r) = true ∧
      variantOK r (fullAtoms r) (!ns.isEmpty) (!cs.isEmpty) = true ∧
      variantOK r (heavyAtoms r) (!ns.isEmpty) (!cs.isEmpty) = true :=
  baseOK_spec_core P2P.Gen.Topology.patches base ha h ns cs hn hc

/-- … and for one torsion of it -/
theorem variantOK_spec (r : ResDef) (present : List Str) (isN isC : Bool) (h : variantOK r present isN isC = true)
    (a b c e : Str) (hd : [a, b, c, e] ∈ r.dihedrals)
    (hp : present.contains a = true ∧ present.contains b = true ∧ present.contains c = true ∧ present.contains e = true) :
    (∀ u ∈ moveable r present isN isC c, u ∉ fixedNames) ∧ e ∈ moveable r present isN isC c ∧
    a ∉ moveable r present isN isC c ∧ b ∉ moveable r present isN isC c ∧
    RigidCond r present b c (moveable r present isN isC c) = true :=
  variantOK_spec_core r present isN isC h a b c e hd hp

/-- **a torsion change is a rigid side-chain rotation**: for every variant the table covers,
every torsion of it, all coordinates with a non-degenerate axis and every target angle — the
backbone and the terminal caps keep their coordinates exactly, and all bond lengths and 1-3
distances among the atoms present are unchanged -/
theorem torsion_change_is_rigid (r : ResDef) (present : List Str) (isN isC : Bool)
    (h : variantOK r present isN isC = true) (a b c e : Str) (hd : [a, b, c, e] ∈ r.dihedrals)
    (hp : present.contains a = true ∧ present.contains b = true ∧ present.contains c = true ∧ present.contains e = true)
    (r2d small : ℝ) (pos : Str → V3 ℝ) (angle : ℝ) (haxis : d2 (pos c) (pos b) ≠ 0) :
    let M := moveable r present isN isC c
    let pos' := applyTorsion r2d small pos a b c e M angle
    (∀ u ∈ fixedNames, pos' u = pos u) ∧
    (∀ v ∈ present, ∀ u ∈ nbrs r present v,
      d2 (pos' u) (pos' v) = d2 (pos u) (pos v) ∧
      ∀ w ∈ nbrs r present v, d2 (pos' u) (pos' w) = d2 (pos u) (pos w)) := by
  intro M pos'
  obtain ⟨hfix, _, _, _, hrc⟩ := variantOK_spec r present isN isC h a b c e hd hp
  refine ⟨?_, rigid_cond_preserves r present r2d small pos a b c e M angle haxis hrc⟩
  intro u hu
  apply torsion_outside_fixed
  intro hm
  exact hfix u hm hu

/-- for EVERY residue definition and presence pattern the backbone is never moved -/
theorem backbone_never_moveable (r : ResDef) (present : List Str) (isN isC : Bool) (pivot u : Str)
    (hu : u ∈ backbone) : u ∉ moveable r present isN isC pivot :=
  backbone_never_moveable_core r present isN isC pivot u hu

/-! ### who writes coordinates, and under which options (regenerated call data) -/

open P2P.CoordFlow in
/-- the functions that assign `.x/.y/.z/.coords` of an object they did not construct -/
theorem coordinate_writers_exact :
    (P2P.Gen.CoordFlow.fns.filter (·.writes)).map (·.qual) =
      ["debump:Debump.set_dihedral_angle", "hydrogens.__init__:HydrogenRoutines.pka_switchstate",
       "hydrogens.optimize:Optimize.try_single_alcoholic_h", "hydrogens.optimize:Optimize.try_single_alcoholic_lp",
       "hydrogens.optimize:Optimize.try_positions_with_two_bonds_h",
       "hydrogens.optimize:Optimize.try_positions_with_two_bonds_lp", "hydrogens.structures:Alcoholic.finalize",
       "hydrogens.structures:Water.finalize", "residue:Residue.rotate_tetrahedral",
       "topology:TopologyHandler.characters"] := by decide +kernel

open P2P.CoordFlow in
/-- `setattr` with a computed name occurs only in the XML handlers and `check_options` -/
theorem dynamic_setattr_exact :
    (P2P.Gen.CoordFlow.fns.filter (·.dyn)).map (·.qual) =
      ["definitions:DefinitionHandler.endElement", "hydrogens.structures:HydrogenHandler.characters",
       "main:.check_options"] := by decide +kernel

open P2P.CoordFlow in
/-- the set of names from which the torsion routine may be reached is a fixed point … -/
theorem torsion_reach_closed :
    closed P2P.Gen.CoordFlow.fns (reach P2P.Gen.CoordFlow.fns ["set_dihedral_angle"]) = true := by decide +kernel

open P2P.CoordFlow in
/-- … and in `non_trivial` every call that may reach it runs only without `--assign-only` and
with debumping or optimisation switched on -/
theorem torsion_only_under_debump_or_opt :
    (match P2P.MainFlow.find P2P.Gen.MainFlow.funcs "non_trivial" with
     | some f => f.calls.all (fun c =>
         !mayReach (reach P2P.Gen.CoordFlow.fns ["set_dihedral_angle"]) c.2 ||
           (c.1.contains "!assign_only" && (c.1.contains "debump" || c.1.contains "opt")))
     | none => false) = true := by decide +kernel

open P2P.CoordFlow in
/-- in `main_driver` every call that may reach it runs only without `--clean` -/
theorem torsion_not_under_clean :
    (match P2P.MainFlow.find P2P.Gen.MainFlow.funcs "main_driver" with
     | some f => f.calls.all (fun c =>
         !mayReach (reach P2P.Gen.CoordFlow.fns ["set_dihedral_angle"]) c.2 || c.1.contains "!clean")
     | none => false) = true := by decide +kernel

/-! ### non-vacuity -/
example : bases.length = 33 := by decide +kernel
example : (ntermSeqs.length, ctermSeqs.length) = (3, 3) := by decide
example : (P2P.CoordFlow.reach P2P.Gen.CoordFlow.fns ["set_dihedral_angle"]).contains "debump_biomolecule" = true := by
  decide +kernel

end P2P.Props.C04
