/-
  C10 — mmCIF and PDB encodings of one structure give the same result.

  Model: P2P/Model/Cif.lean (`assemble` = the column assembly of cif.atom_site, `atomSite` =
  model framing, then PdbRead.parseAtom / biomolecule), tied to cif.py by harness/props/c10.py
  on the rows mmcif-pdbx delivers. `pdbLine` is the standard PDB column encoding of the same
  fields (the spec of "the same structure as PDB").

  Full strength holds on the repaired tree (four fix: commits — alternate-location column,
  insertion code / column 30, four-character names, author chain id — are listed in
  known_findings.txt as `fixed`; their inputs are the regression witnesses below).
  Partial by nature: only the installed mmcif-pdbx version can be exercised; its rendering of
  the missing-value markers (`.` → "", `?` → None) and the literal markers are all covered by
  `missing`.
-/
import P2P.Model.Cif
import P2P.Proofs.CifLemmas

namespace P2P.Props.C10
open P2P P2P.Cif P2P.PdbRead P2P.Proofs.Cif

/-- **Same text**: for every row expressible in both formats, the line assembled from the
mmCIF row is the standard PDB line of the same fields (plus two blanks when the formal charge
is the literal `?`). No column is shifted by alternate locations, insertion codes,
four-character names, missing-value markers or eight-character coordinates. -/
theorem cif_line_is_pdb_line (r : Row) (h : RowOK r = true) :
    assemble r = pdbLine r ++ (if r.charge = some ['?'] then str "  " else []) :=
  cif_line_is_pdb_line_core r h

/-- **Same record**: hence `pdb.ATOM`/`pdb.HETATM` read the same record from both encodings. -/
theorem cif_pdb_agree (het : Bool) (r : Row) (h : RowOK r = true) :
    parseAtom het (assemble r) = parseAtom het (pdbLine r) :=
  cif_pdb_agree_core het r h

/-- **The record is the row**: the assembled line parses back to the row's own values
(serial, name, alternate location, residue name, author chain, number, insertion code,
coordinates), for clean (whitespace-free) items whose numbers parse. -/
theorem cif_record_is_row (r : Row) (h : RowOK r = true) (hc : RowClean r = true)
    (i n : Int) (x y z : PyFloat)
    (hi : parseInt? r.id = some i) (hn : parseInt? r.seq = some n)
    (hx : parseFloat? r.x = some x) (hy : parseFloat? r.y = some y) (hz : parseFloat? r.z = some z) :
    parseAtom (r.group = str "HETATM") (assemble r) = .ok (recOfRow r i n x y z) :=
  cif_record_is_row_core r h hc i n x y z hi hn hx hy hz

/-- **Several models**: whatever the number of models, the atoms `Biomolecule` takes (the
first model of the record list, C07) are exactly the records of the rows of the first model
number, in file order. -/
theorem first_model_only (rows : List Row) (recs : List Rec) (h : atomSite rows = .ok recs) :
    ∃ rs1, rowsRecs (rows.filter (·.model = (countModels rows).headD [])) = .ok rs1 ∧
      P2P.Proofs.Pdb.firstModel 1 recs 0 0 = P2P.Proofs.Pdb.atomsOf rs1 :=
  first_model_only_core rows recs h

/-- **The order of the rows of different models is irrelevant** (row order has no meaning in an mmCIF
loop; round 5): two `atom_site` loops with the same first model number whose first-model rows are
the same sequence — however the rows of the other models are interleaved with them, polymer of all
models first, models residue by residue, … — give `Biomolecule` the same atoms. -/
theorem model_interleaving_irrelevant (rows rows' : List Row) (recs recs' : List Rec)
    (h : atomSite rows = .ok recs) (h' : atomSite rows' = .ok recs')
    (hm : (countModels rows).headD [] = (countModels rows').headD [])
    (hf : rows.filter (·.model = (countModels rows).headD []) = rows'.filter (·.model = (countModels rows).headD [])) :
    P2P.Proofs.Pdb.firstModel 1 recs 0 0 = P2P.Proofs.Pdb.firstModel 1 recs' 0 0 := by
  obtain ⟨rs1, e1, f1⟩ := first_model_only rows recs h
  obtain ⟨rs2, e2, f2⟩ := first_model_only rows' recs' h'
  rw [← hm, ← hf, e1] at e2
  cases e2
  rw [f1, f2]

/-! ### non-vacuity and regression witnesses -/

/-- first atom of tests/data/1FAS.cif as mmcif-pdbx 2.1.0 delivers it -/
def r1 : Row := Row.mk (str "ATOM") (str "1") (str "N") (some []) (str "THR") (str "A") (some (str "A")) (str "1") none (str "46.148") (str "16.581") (str "2.104") (str "1.00") (str "20.55") (str "N") none (str "1")

example : RowOK r1 = true ∧ RowClean r1 = true := by decide +kernel

def resNameOf (l : Str) : Option Str := match parseAtom false l with | .ok a => some a.resName | .error _ => none
structure Key where
  name : Str
  resName : Str
  chain : Str
  resSeq : Int
  ins : Str
  altLoc : Str
deriving DecidableEq
def keyOf (het : Bool) (l : Str) : Option Key :=
  match parseAtom het l with | .ok a => some ⟨a.name, a.resName, a.chain, a.resSeq, a.ins, a.altLoc⟩ | .error _ => none

/-- alternate-location marker as delivered (""): residue name is THR, not HR -/
theorem altloc_marker_witness : keyOf false (assemble r1) = some ⟨str "N", str "THR", str "A", 1, [], []⟩ := by
  decide +kernel
/-- present alternate location, insertion code and a four-character name, eight-character x -/
theorem altloc_icode_name4_witness :
    keyOf false (assemble { r1 with alt := some (str "B"), ins := some (str "C"), name := str "HG21", x := str "-123.456" })
      = some ⟨str "HG21", str "THR", str "A", 1, str "C", str "B"⟩ := by
  decide +kernel
/-- water of 1FAS.cif: label chain B, author chain A -/
theorem auth_chain_witness :
    keyOf true (assemble { r1 with group := str "HETATM", name := str "O", comp := str "HOH", asym := str "B", seq := str "166" })
      = some ⟨str "O", str "HOH", str "A", 166, [], []⟩ := by
  decide +kernel

end P2P.Props.C10
