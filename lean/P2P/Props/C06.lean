/-
  C06 — titration follows pKa versus pH and stays within force-field support.

  Model: P2P/Model/Pka.lean (`pkaStep` = the per-residue decision tree of apply_pka_values,
  `pkaDict` = the dictionary main.non_trivial builds, `keyN/keyC/keyS` = the keys looked up),
  tied to the code by EXHAUSTIVE differential execution over the tree's discrete inputs
  (harness/props/c06.py) — after the `fix:` commit that added the missing guards.

  `Gen.FFKeys` (residues and atom names of the six final force-field maps) is generated on
  every run by the compiled Lean model of `Forcefield` from the regenerated DAT/names tables and
  is compared with the real maps exhaustively by the C01 check.

  Full strength fails in one respect on the current tree, stated below as a refutation and
  listed in known_findings.txt: the N+/C- rows never reach the decision tree.
-/
import P2P.Model.Pka
import P2P.Model.State
import P2P.Gen.FFKeys
import P2P.Proofs.PkaLemmas

namespace P2P.Props.C06
open P2P P2P.Pka P2P.State P2P.Proofs.Pka

/-- **Never outside force-field support (residue level)**: for all six force fields, every
titratable residue type at every chain position and on either side of its pKa, every state the
decision tree applies is a residue the final force-field map knows under the name the residue
will be looked up by — so no residue is dropped from the output because of titration.
(Kernel-checked over the regenerated tables.) -/
theorem never_unsupported_residue : allCellsSupported = true := by
  decide +kernel

/-- **At most one decision per group**: the side-chain group of a residue gets no action, one
warning, or one patch (AR0 comes with its rarity warning); each terminus likewise. -/
theorem one_decision {α : Type} (lt : α → α → Bool) (ff rn : Str) (isN isC : Bool) (ph : α) (v : Option α) :
    (pkaStep lt ff rn isN isC ph none none v = [] ∨ pkaStep lt ff rn isN isC ph none none v = [.warn] ∨
     (∃ p, pkaStep lt ff rn isN isC ph none none v = [.patch p]) ∨
     pkaStep lt ff rn isN isC ph none none v = [.patch (str "AR0"), .warn]) :=
  one_decision_core lt ff rn isN isC ph v

/-- **Charge never increases with pH** (one group): over any linear order of pH/pKa values, the
formal charge the decision tree leaves a group with is antitone in the pH, for every force field,
residue type and position. -/
theorem group_charge_antitone {α : Type} [LinearOrder α] (ff rn : Str) (isN isC : Bool) (v : α) (ph₁ ph₂ : α)
    (h : ph₁ ≤ ph₂) :
    sideCharge rn (pkaStep (fun a b => decide (a < b)) ff rn isN isC ph₂ none none (some v)) ≤
    sideCharge rn (pkaStep (fun a b => decide (a < b)) ff rn isN isC ph₁ none none (some v)) :=
  group_charge_antitone_core ff rn isN isC v ph₁ ph₂ h

/-- the same for the two termini -/
theorem termini_charge_antitone {α : Type} [LinearOrder α] (ff rn : Str) (vN vC : α) (ph₁ ph₂ : α)
    (h : ph₁ ≤ ph₂) :
    terminiCharge (pkaStep (fun a b => decide (a < b)) ff rn true true ph₂ (some vN) (some vC) none) ≤
    terminiCharge (pkaStep (fun a b => decide (a < b)) ff rn true true ph₁ (some vN) (some vC) none) :=
  termini_charge_antitone_core ff rn vN vC ph₁ ph₂ h

/-- **… hence the total charge of any set of groups never increases with pH.** -/
theorem total_charge_antitone {α : Type} [LinearOrder α] (ff : Str) (groups : List (Str × Bool × Bool × α))
    (ph₁ ph₂ : α) (h : ph₁ ≤ ph₂) :
    (groups.map (fun g => sideCharge g.1 (pkaStep (fun a b => decide (a < b)) ff g.1 g.2.1 g.2.2.1 ph₂ none none (some g.2.2.2)))).sum ≤
    (groups.map (fun g => sideCharge g.1 (pkaStep (fun a b => decide (a < b)) ff g.1 g.2.1 g.2.2.1 ph₁ none none (some g.2.2.2)))).sum :=
  total_charge_antitone_core ff groups ph₁ ph₂ h

/-- **Side-chain rows reach their group**: the dictionary key built from a PROPKA row of a
side-chain group is the key the decision tree looks up (non-blank, whitespace-free names). -/
theorem side_keys_reach_groups {α : Type} (rn ch : Str) (num : Int) (v : α) (label : Str)
    (hl : rn.isPrefixOf label = true) (hrn : rn ≠ [] ∧ rn.all (fun c => !isWs c) = true)
    (hch : ch ≠ [] ∧ ch.all (fun c => !isWs c) = true) :
    (pkaDict [⟨rn, num, ch, label, v⟩]).map (·.1) = [keyS rn num ch] :=
  side_keys_reach_groups_core rn ch num v label hl hrn hch

/-- **Refutation of full strength** (known finding): the terminus rows PROPKA returns (labels
`N+ …`, `C- …`, `res_name` = the residue's name) are filtered out, so `vN`/`vC` are always
`none` in real runs and the termini are never titrated, although PARSE supports neutral termini. -/
theorem termini_rows_dropped_witness :
    pkaDict [(⟨str "PRO", 4, str "A", str "N+    4 A", (7 : Nat)⟩ : PkaRow Nat), ⟨str "ALA", 40, str "A", str "C-   40 A", 3⟩] = [] ∧
    keyN 4 (str "A") = str "N+    4 A" ∧ keyC 40 (str "A") = str "C-   40 A" := by
  decide +kernel

/-! ### non-vacuity -/
example : pkaStep Nat.blt (str "amber") (str "ASP") false false 3 none none (some 4) = [.patch (str "ASH")] := by decide +kernel
example : pkaStep Nat.blt (str "amber") (str "CYS") true false 9 none none (some 8) = [.warn] := by decide +kernel
example : pkaStep Nat.blt (str "parse") (str "CYS") true false 9 none none (some 8) = [.patch (str "CYM")] := by decide +kernel

end P2P.Props.C06
