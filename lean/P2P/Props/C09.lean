/-
  C09 — formatting and naming options never change the computed model.

  The model is regenerated from the AST of pdb2pqr/main.py on every run
  (P2P/Gen/MainFlow.lean, by gen/mainflow.py): which function reads which `args.<option>`,
  in which expression context, and each function's ordered call skeleton. The theorems below are
  kernel-checked over that data: a source change that lets a formatting option reach a compute
  stage changes the data and breaks the corresponding theorem. The harness
  (harness/props/c09.py) checks the metamorphic statement itself on real runs: pairs of runs
  differing in one option, compared column by column.
-/
import P2P.Model.MainFlow
import P2P.Gen.MainFlow
import P2P.Model.Pqr
import P2P.Proofs.PqrLemmas

namespace P2P.Props.C09
open P2P.MainFlow P2P.Gen.MainFlow

/-- **`--whitespace`** is read in `print_pqr` only, as the test of an `if`: after every atom line
has been produced. -/
theorem whitespace_footprint :
    readers funcs "whitespace" = ["print_pqr"] ∧ contexts funcs "print_pqr" "whitespace" = ["<if>"] := by
  decide +kernel

/-- **`--keep-chain`** is read by `main_driver`, `non_trivial` and `run_propka`, and in each only
as an argument of `io.print_biomolecule_atoms` (the line formatter; `run_propka` calls it with
`pdbfile=True`, where the flag is ignored). -/
theorem keep_chain_footprint :
    readers funcs "keep_chain" = ["main_driver", "non_trivial", "run_propka"] ∧
    contexts funcs "main_driver" "keep_chain" = ["io.print_biomolecule_atoms"] ∧
    contexts funcs "non_trivial" "keep_chain" = ["io.print_biomolecule_atoms"] ∧
    contexts funcs "run_propka" "keep_chain" = ["io.print_biomolecule_atoms"] := by
  decide +kernel

/-- **`--include-header`** reaches only the header builders; **`--pdb-output`** only
`print_pdb` (and the test guarding its call); **`--apbs-input`** only `io.dump_apbs`. -/
theorem header_pdb_apbs_footprint :
    readers funcs "include_header" = ["non_trivial"] ∧
    (contexts funcs "non_trivial" "include_header").all (fun c => c = "io.print_pqr_header" || c = "io.print_pqr_header_cif") = true ∧
    readers funcs "pdb_output" = ["main_driver", "print_pdb"] ∧
    contexts funcs "main_driver" "pdb_output" = ["<if>"] ∧ contexts funcs "print_pdb" "pdb_output" = ["open"] ∧
    readers funcs "apbs_input" = ["main_driver"] ∧
    (contexts funcs "main_driver" "apbs_input").all (fun c => c = "<if>" || c = "io.dump_apbs") = true := by
  decide +kernel

/-- **`--ffout`** is consulted only after the parameters are assigned and the total charge has
been checked: in `non_trivial` the first call made under an `ffout` guard comes after the last
`apply_force_field` and the last `noninteger_charge`; elsewhere it is only lower-cased. -/
theorem ffout_after_charges :
    readers funcs "ffout" = ["non_trivial", "transform_arguments"] ∧
    before (lastCall funcs "non_trivial" "biomolecule.apply_force_field") (firstGuarded funcs "non_trivial" "ffout") = true ∧
    before (lastCall funcs "non_trivial" "noninteger_charge") (firstGuarded funcs "non_trivial" "ffout") = true ∧
    (contexts funcs "non_trivial" "ffout").all (fun c => c = "<if>" || c = "_LOGGER.info" || c = "forcefield.Forcefield"
        || c = "io.print_pqr_header" || c = "io.print_pqr_header_cif") = true := by
  decide +kernel

/-- **No option is assigned after the argument checks**: only `transform_arguments` writes options
(`debump`, `opt`, `ff`, `ffout`, `userff`), so the options a stage sees are the user's. -/
theorem only_transform_writes :
    (funcs.filter (fun f => f.writes ≠ [])).map (·.name) = ["transform_arguments"] := by
  decide +kernel

/-- **Spacing only**: re-spacing a written line does not change its tokens when the atom fits the
whitespace layout (from C08): `--whitespace` changes blanks, never a value. -/
theorem whitespace_changes_spacing_only (kc : Bool) (a : P2P.Pqr.PAtom) (h : P2P.Pqr.FitsWs kc a = true) :
    P2P.Pqr.fromPqrLine (P2P.Pqr.wsRespace (P2P.Pqr.fmtPqr kc a) ++ ['\n']) = .ok (some (P2P.Pqr.fieldsOf kc a)) :=
  P2P.Proofs.Pqr.roundtrip_ws kc a h

end P2P.Props.C09
