/-
  C18 — DX to cube conversion preserves the grid data.

  Model: P2P/Model/Dx.lean (`readDx`, `writeCube`), tied to io.py by harness/props/c18.py.
  Float formatting is a parameter (`fF` for `>11.6f`, `fE` for `< 13.5E`); the theorems
  hold for every formatting function, the token-level corollaries for every one that
  prints one whitespace-free token (which the harness checks of Python's `format`).
-/
import P2P.Model.Dx
import P2P.Proofs.DxLemmas

namespace P2P.Props.C18
open P2P P2P.Dx P2P.Proofs.Dx

/-- **Values, any n** (n mod 6 ∈ {0..5}, n < 6, n = 0): re-tokenising the value section
gives exactly the formatted values' tokens, in order — none lost, merged or reordered. -/
theorem cube_values (ws : List Str) : splitWs (valueLines ws).flatten = ws.flatMap splitWs :=
  cube_values_core ws

/-- six values on every line but the last; the last line has between one and six; the
chunks concatenate to the input -/
theorem cube_six_per_line (ws : List Str) :
    (chunk6 (ws.length + 1) ws).flatten = ws ∧
    (∀ c ∈ (chunk6 (ws.length + 1) ws).dropLast, c.length = 6) ∧
    (∀ c ∈ (chunk6 (ws.length + 1) ws), 1 ≤ c.length ∧ c.length ≤ 6) :=
  cube_six_per_line_core ws

/-- **Header**: with counts, origin and three spacings present the cube text is the two
comment lines, the atom-count/origin line, three lines with the *negated* counts and the
spacing vectors in order, one line per atom in order, then the value section. -/
theorem cube_header (fF fE : PyFloat → Str) (d : DxData) (atoms : List CAtom)
    (n0 n1 n2 : Int) (o s0 s1 s2 : PyFloat × PyFloat × PyFloat) (rest : List (PyFloat × PyFloat × PyFloat))
    (hc : d.counts = some (n0, n1, n2)) (ho : d.origin = some o) (hs : d.spacings = s0 :: s1 :: s2 :: rest) :
    writeCube fF fE d atoms = .ok (
      str "CPMD CUBE FILE.\n" ++ str "OUTER LOOP: X, MIDDLE LOOP: Y, INNER LOOP: Z\n" ++
      (fI4 atoms.length ++ [' '] ++ fF o.1 ++ [' '] ++ fF o.2.1 ++ [' '] ++ fF o.2.2 ++ ['\n']) ++
      (fI4 (-n0) ++ [' '] ++ fF s0.1 ++ [' '] ++ fF s0.2.1 ++ [' '] ++ fF s0.2.2 ++ ['\n']) ++
      (fI4 (-n1) ++ [' '] ++ fF s1.1 ++ [' '] ++ fF s1.2.1 ++ [' '] ++ fF s1.2.2 ++ ['\n']) ++
      (fI4 (-n2) ++ [' '] ++ fF s2.1 ++ [' '] ++ fF s2.2.1 ++ [' '] ++ fF s2.2.2 ++ ['\n']) ++
      (atoms.map (fun a => fI4 a.serial ++ [' '] ++ fF a.charge ++ [' '] ++ fF a.x ++ [' '] ++ fF a.y
        ++ [' '] ++ fF a.z ++ ['\n'])).flatten ++
      (valueLines (d.values.map fE)).flatten) :=
  cube_header_core fF fE d atoms n0 n1 n2 o s0 s1 s2 rest hc ho hs

/-- **Reader**: whatever comment/attribute/component/object/origin/delta lines are
interleaved, the values read are the float tokens of the remaining lines, in file order. -/
theorem dx_values (lines : List Str) (d : DxData) (h : readDx lines = .ok d) :
    d.values = (lines.filter isDataLine).flatMap (fun l => (splitWs l).filterMap parseFloat?) :=
  dx_values_core lines d h

/-- **Round trip**: DX data tokens → cube value tokens, same number, same order. -/
theorem dx_cube_roundtrip (fE : PyFloat → Str) (tok : PyFloat → Str) (lines : List Str) (d : DxData)
    (h : readDx lines = .ok d) (hE : ∀ v, splitWs (fE v) = [tok v]) :
    splitWs (valueLines (d.values.map fE)).flatten =
      ((lines.filter isDataLine).flatMap (fun l => (splitWs l).filterMap parseFloat?)).map tok :=
  dx_cube_roundtrip_core fE tok lines d h hE

/-! ### non-vacuity -/
def demo : List Str := [str "# c\n", str "object 1 class gridpositions counts 1 1 7\n", str "origin 0 0 0\n",
  str "delta 1 0 0\n", str "delta 0 1 0\n", str "delta 0 0 1\n", str "object 3 class array\n",
  str "1 2 3\n", str "attribute \"dep\" string \"positions\"\n", str "4 5 6\n", str "7\n"]

example : (readDx demo).toOption.map (·.values.length) = some 7 := by decide +kernel
example : ((chunk6 8 (List.replicate 7 (str "x"))).map List.length) = [6, 1] := by decide +kernel
example : ((chunk6 13 (List.replicate 12 (str "x"))).map List.length) = [6, 6] := by decide +kernel

end P2P.Props.C18
