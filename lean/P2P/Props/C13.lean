/-
  C13 — disulfide bridges are detected symmetrically and exclusively.

  Model: P2P/Model/SS.lean (`scan` = the nested dictionary loops of update_ss_bridges,
  `bridgedWith` = the `numpartners == 1` rule, `closeBy` = exact squared-distance test),
  tied to biomolecule.py by harness/props/c13.py; the limit is regenerated from config.py.
-/
import P2P.Model.SS
import P2P.Gen.Consts
import P2P.Proofs.SSLemmas

namespace P2P.Props.C13
open P2P P2P.SS P2P.Proofs.SS

variable {α : Type} [DecidableEq α]

/-- **Symmetric detection**: two sulfurs within the limit of each other and of no third sulfur end
up as each other's single partner — whatever their positions in the residue list, whatever else
is in the structure (other pairs, clusters, free cysteines). -/
theorem ss_pair_symmetric (close : α → α → Bool) (atoms : List α) (a b : α)
    (hnd : atoms.Nodup) (ha : a ∈ atoms) (hb : b ∈ atoms) (hab : a ≠ b)
    (hsym : ∀ x y, close x y = close y x) (hc : close a b = true)
    (hiso : ∀ c ∈ atoms, c ≠ a → c ≠ b → close a c = false ∧ close b c = false) :
    bridgedWith close atoms a = some b ∧ bridgedWith close atoms b = some a :=
  ss_pair_symmetric_core close atoms a b hnd ha hb hab hsym hc hiso

/-- **Exclusive**: a sulfur with no other sulfur within the limit gets no partner, hence no CYX
patch: the residue keeps its thiol hydrogen and its CYS parameters. -/
theorem ss_free_untouched (close : α → α → Bool) (atoms : List α) (a : α)
    (hfree : ∀ c ∈ atoms, c ≠ a → close a c = false ∧ close c a = false) :
    bridgedWith close atoms a = none ∧ cysOutcome (bridgedWith close atoms a).isSome = (str "CYS", true) :=
  ss_free_untouched_core close atoms a hfree

/-- **Order independence**: for an isolated pair the outcome is the same for every permutation
of the residue list (file order, chain order, numbering do not matter). -/
theorem ss_order_independent (close : α → α → Bool) (atoms atoms' : List α) (a b : α)
    (hp : atoms.Perm atoms') (hnd : atoms.Nodup) (ha : a ∈ atoms) (hb : b ∈ atoms) (hab : a ≠ b)
    (hsym : ∀ x y, close x y = close y x) (hc : close a b = true)
    (hiso : ∀ c ∈ atoms, c ≠ a → c ≠ b → close a c = false ∧ close b c = false) :
    bridgedWith close atoms' a = bridgedWith close atoms a ∧ bridgedWith close atoms' b = bridgedWith close atoms b :=
  ss_order_independent_core close atoms atoms' a b hp hnd ha hb hab hsym hc hiso

/-- both partners of a bridge lose HG and are named CYX -/
theorem bridged_outcome : cysOutcome true = (str "CYX", false) := by decide

/-- the geometric test is symmetric (and strict) -/
theorem close_symmetric (l : Int) (a b : P3) : closeBy l a b = closeBy l b a :=
  close_symmetric_core l a b

/-- the limit in the code is the documented 2.5 Å -/
theorem limit_documented : Gen.Consts.BONDED_SS_LIMIT = ⟨false, 25, -1⟩ := by decide

/-! ### non-vacuity -/
def pts : List P3 := [⟨0, 0, 0⟩, ⟨2030, 0, 0⟩, ⟨9000, 0, 0⟩, ⟨9000, 2499, 0⟩, ⟨-7000, 0, 0⟩]
def cl (i j : Nat) : Bool := closeBy 2500 (pts.getD i default) (pts.getD j default)
example : (List.range 5).map (bridgedWith cl (List.range 5)) = [some 1, some 0, some 3, some 2, none] := by
  decide +kernel
example : (List.range 5).map (bridgedWith cl [4, 3, 2, 1, 0]) = [some 1, some 0, some 3, some 2, none] := by
  decide +kernel

end P2P.Props.C13
