/-
  C16 — ligand charges conserve formal charge and stay on the ligand.

  Model: P2P/Model/Peoe.lean (`equilibrate` with the electronegativity function as a parameter,
  `bondOrder`, `formalCharge2`, `assignRadius`, `bondedOf`, `ligandTransfer`), tied to
  ligand/peoe.py, ligand/mol2.py and main.non_trivial by harness/props/c16.py (Float instance,
  regenerated POLY_TERMS / RADII / valence tables).

  Full strength fails in one respect on the current tree (refutation + known finding): the
  transfer is by atom name onto every non-water residue that starts with HETATM atoms.
-/
import P2P.Model.Peoe
import P2P.Gen.Ligand
import P2P.Proofs.PeoeLemmas
import P2P.Proofs.PeoeEquivLemmas

namespace P2P.Props.C16
open P2P P2P.Peoe P2P.Proofs.Peoe

/-- **Conservation**: for EVERY electronegativity function, normaliser, damping factor, non-zero
scaling factor and positive number of cycles, and every molecule whose neighbour lists are
symmetric (with multiplicity), the equilibrated charges sum to the sum of the formal charges —
equilibration only redistributes charge. (Over ℚ; `isclose(x, 0)` is `x = 0` for `0 ≤ rel < 1`.) -/
theorem peoe_conserves (rel : ℚ) (hrel : 0 ≤ rel ∧ rel < 1) (n : Nat) (chi : ℚ → Nat → ℚ) (norm : Nat → ℚ)
    (bonded : Nat → List Nat) (damp scale : ℚ) (hs : scale ≠ 0) (nc : Nat) (hnc : 0 < nc) (formal : Nat → ℚ)
    (hsym : (directedEdges n bonded).Perm ((directedEdges n bonded).map Prod.swap)) :
    (equilibrate rel n chi norm bonded damp scale nc formal).sum = ((List.range n).map formal).sum :=
  peoe_conserves_core rel hrel n chi norm bonded damp scale hs nc hnc formal hsym

/-- **The reader's neighbour lists are symmetric**: the lists `parse_bonds` builds from any bond
list (any order, any direction, duplicates, self-bonds) satisfy the hypothesis of
`peoe_conserves`, provided every bond joins atoms `< n`. -/
theorem bonded_symmetric (n : Nat) (bs : Bonds) (h : ∀ b ∈ bs, b.1 < n ∧ b.2.1 < n) :
    (directedEdges n (bondedOf bs)).Perm ((directedEdges n (bondedOf bs)).map Prod.swap) :=
  bonded_symmetric_core n bs h

/-- **Radii are positive** in both documented tables (kernel-checked over the regenerated tables),
and the lookup order is: primary table by Sybyl type, primary by element, secondary by type,
secondary by element. -/
theorem radii_positive : (Gen.Ligand.radii_zap9 ++ Gen.Ligand.radii_bondi).all (fun kv => 0 < kv.2) = true := by
  decide +kernel

theorem radius_lookup_order (p s : List (String × Nat)) (ty el : String) :
    assignRadius p s ty el =
      (match p.lookup ty with
       | some r => some r
       | none => match p.lookup el with
         | some r => some r
         | none => match s.lookup ty with
           | some r => some r
           | none => s.lookup el) :=
  radius_lookup_order_core p s ty el

/-- **Transfer stays inside name-matching HETATM prefixes of non-water residues**: an atom
receives ligand parameters only if it belongs to a non-water residue, lies before that residue's
first ATOM record and carries a ligand atom name; each such atom is hit exactly as often as it
occurs. -/
theorem transfer_spec (lig : List Str) (rs : List (Bool × List HAtom)) :
    (ligandTransfer lig rs).1 =
      (rs.filter (fun wr => !wr.1)).flatMap (fun wr => ((wr.2.takeWhile (·.isHet)).filter (fun a => lig.contains a.name)).map (·.id)) :=
  transfer_spec_core lig rs

/-- **Partial form of "ligand only"**: if no other residue shares a HETATM atom name with the
ligand, exactly the ligand residue's name-matching atoms are hit. -/
theorem ligand_only_partial (lig : List Str) (pre post : List (Bool × List HAtom)) (ligand : List HAtom)
    (hpre : ∀ wr ∈ pre ++ post, wr.1 = true ∨ ∀ a ∈ wr.2.takeWhile (·.isHet), lig.contains a.name = false) :
    (ligandTransfer lig (pre ++ [(false, ligand)] ++ post)).1 =
      ((ligand.takeWhile (·.isHet)).filter (fun a => lig.contains a.name)).map (·.id) :=
  ligand_only_partial_core lig pre post ligand hpre

/-- **Refutation of full strength** (known finding): a second hetero group that shares an atom
name with the ligand receives the ligand's parameters. -/
theorem name_clash_witness :
    (ligandTransfer [str "C1", str "O1"] [(false, [⟨0, true, str "C1"⟩, ⟨1, true, str "O1"⟩]), (true, [⟨2, true, str "O1"⟩]),
      (false, [⟨3, true, str "O1"⟩])]).1 = [0, 1, 3] := by
  decide +kernel

/-! ### formal charges: the corrections, stated on the half-electron scale -/
example : formalCharge2 "O.co2" 6 9 1 = .inl (-1) ∧ formalCharge2 "O.co2" 6 9 2 = .inl (-1) ∧
    formalCharge2 "N.4" 5 0 4 = .inl 2 ∧ formalCharge2 "N.3" 5 4 4 = .inl 2 ∧ formalCharge2 "C.3" 4 0 4 = .inl 0 ∧
    formalCharge2 "N.am" 5 0 3 = .inl 0 ∧ formalCharge2 "O.3" 6 8 1 = .inr () := by decide
example : bondOrder [.aromatic, .aromatic, .single] = 4 ∧ bondOrder [.double, .single, .single] = 4 := by decide

/-- **relabelling the atoms and re-ordering the bond records only permutes the charges** (over ℚ):
if a second description of the molecule is the first one seen through a relabelling `σ` of the
atoms `0 … n-1` (inverse `τ`) — same electronegativity, normaliser and formal-charge share for
corresponding atoms, and for every atom a neighbour list that is a permutation of the relabelled
neighbour list of its counterpart — then after any number of PEOE cycles from corresponding
charges, atom `i` of the second description carries the charge of atom `σ i` of the first. (The
formal charges themselves are input here: the phosphate correction of `formal_charge` picks "the
first terminal oxygen" and is order-dependent between equivalent oxygens by design.) -/
theorem cycles_equivariant (n : Nat) (σ τ : Nat → Nat)
    (hσ : ∀ i, i < n → σ i < n) (hτ : ∀ i, i < n → τ i < n) (hστ : ∀ i, i < n → σ (τ i) = i) (hτσ : ∀ i, i < n → τ (σ i) = i)
    (chi chi' : ℚ → Nat → ℚ) (norm norm' : Nat → ℚ) (bonded bonded' : Nat → List Nat) (damp : ℚ) (share share' : Nat → ℚ)
    (hchi : ∀ q i, i < n → chi' q i = chi q (σ i)) (hnorm : ∀ i, i < n → norm' i = norm (σ i))
    (hshare : ∀ i, i < n → share' i = share (σ i))
    (hb : ∀ i, i < n → ∀ j ∈ bonded i, j < n)
    (hbond : ∀ i, i < n → (bonded' i).Perm ((bonded (σ i)).map τ))
    (k icycle : Nat) (q q' : List ℚ) (hq : q.length = n) (hq' : q'.length = n)
    (hqq : ∀ i, i < n → q'.getD i 0 = q.getD (σ i) 0) :
    let r := cycles n chi norm bonded damp share k icycle q
    let r' := cycles n chi' norm' bonded' damp share' k icycle q'
    r.length = q.length ∧ r'.length = q'.length ∧ (k = 0 ∨ (r.length = n ∧ r'.length = n)) ∧
    ∀ i, i < n → r'.getD i 0 = r.getD (σ i) 0 :=
  P2P.Proofs.PeoeEquiv.cycles_equivariant_core n σ τ hσ hτ hστ hτσ chi chi' norm norm' bonded bonded' damp share share'
    hchi hnorm hshare hb hbond k icycle q q' hq hq' hqq

end P2P.Props.C16
