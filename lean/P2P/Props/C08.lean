import P2P.Model.Pqr
namespace P2P.Props.C08
theorem placeholder : True := trivial
end P2P.Props.C08
