/-
  C08 — the PQR file is a faithful, re-readable serialisation of the model.

  Property theorems only (helper lemmas live in P2P/Proofs). The model is
  P2P/Model/Pqr.lean; it is tied to structures.py / io.py / main.py by the
  correspondence harness (harness/props/c08.py) on every run.

  Full strength ("whatever the magnitude of numbers, insertion codes or name
  lengths") is FALSE of the current code: the `…_witness` theorems below refute it
  with concrete atoms, each replayed on the real code by the harness and listed in
  known_findings.txt. What holds is the round trip under the explicit, decidable
  predicates `Fits` (fixed columns) and `FitsWs` (whitespace layout), whose
  complements are exactly the classes of the witnesses.
-/
import P2P.Model.Pqr
import P2P.Proofs.PqrLemmas

namespace P2P.Props.C08
open P2P P2P.Pqr

-- `Fits`, `FitsWs` are defined next to the model (P2P/Model/Pqr.lean) because the
-- driver exposes them and the harness checks its own domain split against them.

/-- **Round trip, default layout**: the fixed-column reader recovers every field. -/
theorem roundtrip_fixed (kc : Bool) (a : PAtom) (h : Fits a = true) :
    slices (fmtPqr kc a) = some (fieldsOf kc a) :=
  P2P.Proofs.Pqr.roundtrip_fixed kc a h

/-- **Round trip, whitespace layout**: pdb2pqr's own token reader recovers every
field from the re-spaced line. -/
theorem roundtrip_ws (kc : Bool) (a : PAtom) (h : FitsWs kc a = true) :
    fromPqrLine (wsRespace (fmtPqr kc a) ++ ['\n']) = .ok (some (fieldsOf kc a)) :=
  P2P.Proofs.Pqr.roundtrip_ws kc a h

/-- every written line has the same length, so columns never shift (needs only a
one-character insertion code) -/
theorem line_length (kc : Bool) (a : PAtom) (h : a.ins.length ≤ 1) : (fmtPqr kc a).length = 69 :=
  P2P.Proofs.Pqr.fmtPqr_length kc a h

/-! ### non-vacuity -/
def base : PAtom :=
  { type := str "ATOM", serial := 1, name := str "CA", resName := str "ALA", chain := str "A",
    resSeq := 1, ins := [], x := ⟨false, 1000⟩, y := ⟨false, 2000⟩, z := ⟨false, 3000⟩,
    q := some ⟨true, 1000⟩, r := some ⟨false, 15000⟩ }

example : Fits base = true := by decide +kernel
example : FitsWs true base = true := by decide +kernel
/-- every field at the edge of its column -/
def edge : PAtom :=
  { type := str "HETATM", serial := 99999, name := str "HD21", resName := str "NALA", chain := str "A",
    resSeq := -999, ins := str "B", x := ⟨true, 999999⟩, y := ⟨false, 9999999⟩, z := ⟨true, 0⟩,
    q := some ⟨true, 999999⟩, r := some ⟨false, 999999⟩ }
example : Fits edge = true := by decide +kernel
example : FitsWs true { edge with ins := [], resSeq := 999, q := none, r := some ⟨false, 99999⟩ } = true := by
  decide +kernel

/-! ### full strength is false: witnesses (each one is replayed on the real code) -/

theorem serial_trunc_witness :
    slices (fmtPqr false { base with serial := 123456 }) ≠ some (fieldsOf false { base with serial := 123456 }) := by
  decide +kernel
theorem resseq_trunc_witness :
    slices (fmtPqr false { base with resSeq := 12345 }) ≠ some (fieldsOf false { base with resSeq := 12345 }) := by
  decide +kernel
theorem resseq_neg_trunc_witness :
    slices (fmtPqr false { base with resSeq := -1234 }) ≠ some (fieldsOf false { base with resSeq := -1234 }) := by
  decide +kernel
theorem coord_trunc_witness :
    slices (fmtPqr false { base with x := ⟨false, 12345678⟩ }) ≠ some (fieldsOf false { base with x := ⟨false, 12345678⟩ }) := by
  decide +kernel
theorem coord_neg_trunc_witness :
    slices (fmtPqr false { base with y := ⟨true, 1234567⟩ }) ≠ some (fieldsOf false { base with y := ⟨true, 1234567⟩ }) := by
  decide +kernel
theorem charge_trunc_witness :
    slices (fmtPqr false { base with q := some ⟨true, 1005000⟩ }) ≠ some (fieldsOf false { base with q := some ⟨true, 1005000⟩ }) := by
  decide +kernel
theorem radius_trunc_witness :
    slices (fmtPqr false { base with r := some ⟨false, 1002500⟩ }) ≠ some (fieldsOf false { base with r := some ⟨false, 1002500⟩ }) := by
  decide +kernel
theorem ws_chain_merge_witness :
    fromPqrLine (wsRespace (fmtPqr true { base with resSeq := 1234 }) ++ ['\n']) ≠ .ok (some (fieldsOf true { base with resSeq := 1234 })) := by
  decide +kernel
theorem ws_icode_witness :
    fromPqrLine (wsRespace (fmtPqr false { base with ins := str "B" }) ++ ['\n']) = .error .valueError := by
  decide +kernel
theorem ws_charge_merge_witness :
    fromPqrLine (wsRespace (fmtPqr false { base with q := some ⟨true, 105000⟩ }) ++ ['\n']) = .error .valueError := by
  decide +kernel
theorem ws_radius_merge_witness :
    fromPqrLine (wsRespace (fmtPqr false { base with r := some ⟨false, 102500⟩ }) ++ ['\n']) = .error .valueError := by
  decide +kernel
theorem ws_numeric_chain_witness :
    fromPqrLine (wsRespace (fmtPqr true { base with chain := str "7" }) ++ ['\n']) ≠ .ok (some (fieldsOf true { base with chain := str "7" })) := by
  decide +kernel

end P2P.Props.C08
