/-
  C01 — assigned charges and radii are exactly the selected force field's parameters.

  Models: P2P/Model/FF.lean (`parseDat`, `baseMap`, `applySection`, `build`, `getParams`,
  `applyFF`), P2P/Model/Regex.lean, P2P/Model/State.lean (`lookupName`). The DAT rows, the
  `.names` sections (with every Python regex translated to the `Re` AST) and the canonical
  residue names are regenerated from /repo on every run (P2P/Gen/FF_*.lean, Gen/Topology.lean);
  the six maps the model builds from them are compared with the real `Forcefield.map`
  exhaustively, generated parameter/names pairs and end-to-end runs cover the rest.

  All theorems are for EVERY parameter file, names file and canonical-name list, i.e. for
  user-supplied pairs as well as the six built-ins.
-/
import P2P.Model.FF
import P2P.Model.State
import P2P.Proofs.FFLemmas

namespace P2P.Props.C01
open P2P P2P.FF P2P.Regex P2P.State P2P.Proofs.FF

/-- **Hit or miss, exactly**: the atoms `apply_force_field` returns as found are exactly the
atoms for which the map answers, in model order, each with exactly the map's charge and radius;
the atoms it returns as missing are exactly those for which the map has no entry. Nothing is
defaulted, borrowed, lost or duplicated. -/
theorem applyFF_exact (m : FFMap) (rs : List ARes) :
    (applyFF m rs).1 = rs.flatMap (fun r => r.atoms.filterMap (fun a =>
        (getParams m r.lookup a.name).map (fun p => (a, p.1, p.2)))) ∧
    (applyFF m rs).2 = rs.flatMap (fun r => r.atoms.filter (fun a => (getParams m r.lookup a.name).isNone)) :=
  applyFF_exact_core m rs

/-- hence hits and misses partition the atoms -/
theorem applyFF_partition (m : FFMap) (rs : List ARes) :
    ((applyFF m rs).1.map (·.1) ++ (applyFF m rs).2).Perm (rs.flatMap (·.atoms)) :=
  applyFF_partition_core m rs

/-- **The parameter file is the only source of numbers**: every entry of the final map is,
field for field, the entry of one row of the parameter file — whatever the sections do, they
only copy entries. -/
theorem build_sound (rows : List Row) (secs : List Section) (canon : List Str) (m : FFMap)
    (h : build rows secs canon = .ok m) :
    ∀ k re, (k, re) ∈ m → ∀ an e, (an, e) ∈ re.atoms → ∃ row ∈ rows, e = entryOf row :=
  build_sound_core rows secs canon m h

/-- the map is a well-formed dictionary of dictionaries (the invariant the section specs need) -/
theorem build_wf (rows : List Row) (secs : List Section) (canon : List Str) (m : FFMap)
    (h : build rows secs canon = .ok m) : WF m :=
  build_wf_core rows secs canon m h

/-- last row of a (residue, atom) pair wins in the parameter file -/
theorem base_last_row_wins (rows : List Row) (res atom : Str) :
    getParams (baseMap rows) res atom =
      (rows.reverse.find? (fun r => r.res = res && r.atom = atom)).map (fun r => (r.q, r.r)) :=
  base_last_row_wins_core rows res atom

/-- **Residue rename section** `<name>P</name><useresname>U</useresname>` (documented in
xml-names.rst): every canonical residue name matching `P` answers each atom of `U` with `U`'s
entry and keeps its other atoms; no other residue changes. -/
theorem section_rename_spec (canon : List Str) (m m' : FFMap) (P : Re) (U : Str) (from_ : ResEntry)
    (hw : WF m) (hU : dget? m U = some from_) (hg : containsSub U groupVar = false)
    (h : applySection canon m ⟨P, some U, []⟩ = .ok m') :
    (∀ n ∈ canon, (reMatch P n).isSome → ∀ a,
        getParams m' n a = (match getParams m U a with | some v => some v | none => getParams m n a)) ∧
    (∀ k, (k ∉ canon ∨ reMatch P k = none) → dget? m' k = dget? m k) :=
  section_rename_spec_core canon m m' P U from_ hw hU hg h

/-- **Atom alias section** `<name>P</name><atom><name>new</name><useatomname>old</useatomname>`:
in exactly the map's residues matching `P` that have `old`, `new` answers with `old`'s entry;
every other (residue, atom) answer is unchanged. -/
theorem section_alias_spec (canon : List Str) (m m' : FFMap) (P : Re) (new old : Str)
    (h : applySection canon m ⟨P, none, [(new, old)]⟩ = .ok m') :
    ∀ k a, getParams m' k a =
      (if (reMatch P k).isSome && a = new then
         (match getParams m k old with | some v => some v | none => getParams m k new)
       else getParams m k a) :=
  section_alias_spec_core canon m m' P new old h

/-! ### state naming (decision logic stated outright) -/

/-- N-terminus takes priority over C-terminus; neutral names only with the neutral patches -/
theorem nterm_priority (r : RInfo) (ha : isAmino r = true) (hp : r.cls ≠ str "PRO") (hn : r.isNterm = true)
    (s : Str) (hs : sideState r = some s) :
    lookupName r = some (if patched r "NEUTRAL-NTERM" then str "NEUTRAL-N" ++ s else ['N'] ++ s) :=
  nterm_priority_core r ha hp hn s hs

/-- a proline N-terminus is never given the neutral name -/
theorem pro_nterm (r : RInfo) (hp : r.cls = str "PRO") (hn : r.isNterm = true) :
    lookupName r = some (['N'] ++ r.name) :=
  pro_nterm_core r hp hn

/-- histidine is named by the protons it carries -/
theorem his_by_protons (r : RInfo) (hc : r.cls = str "HIS") (hn : r.isNterm = false) (hct : r.isCterm = false) :
    lookupName r =
      (if has r "HD1" && has r "HE2" then some (str "HIP") else if has r "HD1" then some (str "HID")
       else if has r "HE2" then some (str "HIE") else none) :=
  his_by_protons_core r hc hn hct

/-- water is always looked up as WAT; unknown residues under their own name -/
theorem water_and_other (r : RInfo) (hA : isAmino r = false) (hN : isNucleic r = false) :
    lookupName r = some (if isWater r then str "WAT" else r.name) :=
  water_and_other_core r hA hN

/-! ### non-vacuity -/
def demoRows : List Row := [⟨str "ALA", str "N", ⟨true, 4157, -4⟩, ⟨false, 18240, -4⟩, str "N"⟩,
  ⟨str "ALA", str "H1", ⟨false, 2719, -4⟩, ⟨false, 6000, -4⟩, str "H"⟩]
def demoSec : Section := ⟨seqs [.lit 'N', .any, .any, .any, .eos, .eos], some (str "ALA"), [(str "H", str "H1")]⟩

example : (build demoRows [demoSec] [str "ALA", str "NALA"]).toOption.map
    (fun m => (getParams m (str "NALA") (str "H"), getParams m (str "ALA") (str "H"))) =
    some (some (⟨false, 2719, -4⟩, ⟨false, 6000, -4⟩), none) := by decide +kernel

end P2P.Props.C01
