/-
  C17 — the suggested APBS grid encloses the molecule and is multigrid-legal.

  Model: P2P/Model/Psize.lean (character-level line parser; arithmetic generic over `PNum`),
  tied to psize.py / inputgen.py / io.py by harness/props/c17.py (Float instance, bit-exact).
  Arithmetic theorems are over ℚ (`PNum ℚ` instance in P2P/Proofs/PsizeLemmas.lean: exact
  division, `trunc` = truncation toward zero). Hypotheses of the enclosure clauses:
  `1 ≤ cfac`, `0 ≤ fadd` (the property's sizing parameters), `mn ≤ mx`.

  Parser: full strength ("for every line the PQR writer produces") is FALSE of the current
  code — the `…_witness` theorems show atoms silently skipped when adjacent fields fill
  their columns; they are replayed on the real code and listed in known_findings.txt. What
  holds is `parse_exact_*` under the explicit separation predicate `Sep`.
-/
import P2P.Model.Psize
import P2P.Proofs.PsizeLemmas

namespace P2P.Props.C17
open P2P P2P.Psize P2P.Pqr P2P.Proofs.Psize

/-- **Multigrid-legal**: every grid dimension is `32k+1` with `k ≥ 1` (hence ≥ 33), for
every extent, every sizing parameter and every arithmetic (any `PNum`). -/
theorem grid_legal {α : Type} [PNum α] (p : Params α) (mx mn : α) :
    ∃ k : Int, 1 ≤ k ∧ (axis p mx mn).ngrid = 32 * k + 1 :=
  grid_legal_core p mx mn

/-- **Boxes enclose and are centred**: on each axis both boxes are centred on the middle of
the molecule's extent, contain the whole extent `[mn, mx]`, and fine ≤ coarse. -/
theorem boxes_enclose (p : Params ℚ) (mx mn : ℚ) (hc : 1 ≤ p.cfac) (hf : 0 ≤ p.fadd) (h : mn ≤ mx) :
    let g := axis p mx mn
    g.center = (mx + mn) / 2 ∧
    g.center - g.fine / 2 ≤ mn ∧ mx ≤ g.center + g.fine / 2 ∧
    g.center - g.coarse / 2 ≤ mn ∧ mx ≤ g.center + g.coarse / 2 ∧
    g.fine ≤ g.coarse :=
  boxes_enclose_core p mx mn hc hf h

/-- **The extent contains every atom sphere** and is attained: after any sequence of
parsed lines, `minlen ≤ c − r` and `c + r ≤ maxlen` on each axis for every atom seen, and
`minlen ≤ maxlen` when the radii are non-negative. -/
theorem extent_covers (ls : List (Bool × Bool × Option (ℚ × ℚ × ℚ × ℚ × ℚ)))
    (x y z q r : ℚ) (fa fh : Bool) (hm : (fa, fh, some (x, y, z, q, r)) ∈ ls) :
    ∃ mn mx, (ls.foldl (fun a l => accStep a l.1 l.2.1 l.2.2) acc0).minlen = some mn ∧
      (ls.foldl (fun a l => accStep a l.1 l.2.1 l.2.2) acc0).maxlen = some mx ∧
      mn.1 ≤ x - r ∧ x + r ≤ mx.1 ∧ mn.2.1 ≤ y - r ∧ y + r ≤ mx.2.1 ∧ mn.2.2 ≤ z - r ∧ z + r ≤ mx.2.2 :=
  extent_covers_core ls x y z q r fa fh hm

/-- **Memory estimate corresponds to the grid** named on the `dime` line of the input file. -/
theorem memory_matches (nx ny nz : Int) :
    (gmem nx ny nz : ℚ) = 200 * nx * ny * nz / 1048576 ∧
    (inputHead p nx ny nz)[5]? = some (str "    dime " ++ intStr nx ++ [' '] ++ intStr ny ++ [' '] ++ intStr nz) :=
  memory_matches_core p nx ny nz

/-- **The input file names the PQR just written** (its base name). -/
theorem input_names_pqr (dir name : Str) (nx ny nz : Int) (hn : name ≠ []) (hs : '/' ∉ name) :
    (inputHead (dir ++ ['/'] ++ name) nx ny nz)[1]? = some (str "    mol pqr " ++ name) :=
  input_names_pqr_core dir name nx ny nz hn hs

/-- **Header and comment lines do not affect the result**: a line that does not start with
ATOM or HETATM contributes nothing (full strength, every line). -/
theorem header_ignored (l : Str) (h1 : startsWith l (str "ATOM") = false) (h2 : startsWith l (str "HETATM") = false) :
    parseLine l = .ok none :=
  header_ignored_core l h1 h2

/-- the field either leaves a blank in front of it or starts with a minus sign (which psize
turns into a separator) -/
def Sep (s : Str) (w : Nat) (neg : Bool) : Bool := s.length < w || neg

/-- **Parser, default layout**: every atom line the PQR writer produces within `Fits`, whose
y, z, charge and radius fields are separated from their left neighbours, yields exactly the
atom's coordinates, charge and radius. -/
theorem parse_exact_fixed (kc : Bool) (a : PAtom) (h : Fits a = true)
    (hy : Sep (fmtFix 3 a.y) 8 a.y.neg = true) (hz : Sep (fmtFix 3 a.z) 8 a.z.neg = true)
    (hq : Sep (optFix4 a.q) 8 ((a.q.getD ⟨false, 0⟩).neg) = true)
    (hr : Sep (optFix4 a.r) 7 ((a.r.getD ⟨false, 0⟩).neg) = true) :
    parseLine (fmtPqr kc a ++ ['\n']) = .ok (some (expectedLine a)) :=
  parse_exact_fixed_core kc a h hy hz hq hr

/-- **Parser, `--whitespace` layout** (y and z are preceded by an inserted blank). -/
theorem parse_exact_ws (kc : Bool) (a : PAtom) (h : Fits a = true)
    (hq : Sep (optFix4 a.q) 8 ((a.q.getD ⟨false, 0⟩).neg) = true)
    (hr : Sep (optFix4 a.r) 7 ((a.r.getD ⟨false, 0⟩).neg) = true) :
    parseLine (wsRespace (fmtPqr kc a) ++ ['\n']) = .ok (some (expectedLine a)) :=
  parse_exact_ws_core kc a h hq hr

/-! ### non-vacuity, and the witnesses of what full strength would need -/

def base : PAtom :=
  { type := str "ATOM", serial := 1, name := str "CA", resName := str "ALA", chain := str "A",
    resSeq := 1, ins := [], x := ⟨false, 1000⟩, y := ⟨true, 2000⟩, z := ⟨false, 3000⟩,
    q := some ⟨true, 1000⟩, r := some ⟨false, 15000⟩ }

example : Fits base = true ∧ Sep (fmtFix 3 base.y) 8 base.y.neg = true ∧ Sep (fmtFix 3 base.z) 8 base.z.neg = true := by
  decide +kernel
example : (1 : ℚ) ≤ 17 / 10 ∧ (0 : ℚ) ≤ 20 := by norm_num

def skipped (l : Str) : Bool :=
  match parseLine l with | .ok (some p) => p.vals.isNone | _ => false

/-- y ≥ 1000.000 in the default layout: the atom is skipped (four words) -/
theorem y_merge_witness : skipped (fmtPqr false { base with y := ⟨false, 1234567⟩ } ++ ['\n']) = true := by decide +kernel
theorem z_merge_witness : skipped (fmtPqr false { base with z := ⟨false, 1234567⟩ } ++ ['\n']) = true := by decide +kernel
theorem charge_merge_witness : skipped (fmtPqr false { base with q := some ⟨false, 1234000⟩ } ++ ['\n']) = true := by decide +kernel
theorem radius_merge_witness : skipped (fmtPqr false { base with r := some ⟨false, 125000⟩ } ++ ['\n']) = true := by decide +kernel
theorem ws_radius_merge_witness : skipped (wsRespace (fmtPqr false { base with r := some ⟨false, 125000⟩ }) ++ ['\n']) = true := by decide +kernel
/-- regression witness of the fixed defect: a REMARK line with five words after column 30 -/
theorem remark_witness :
    parseLine (str "REMARK   5 Gasteiger, Marsili & Monson, Iterative partial equalization of orbital electronegativity 1 2 3 4 5\n") = .ok none := by
  decide +kernel

end P2P.Props.C17
