/-
  C12 — runs succeed on well-formed input, otherwise fail loudly leaving no output.

  Failure side: the model is the regenerated call skeleton of main.py and the inventory of every
  write-open in the package (P2P/Gen/MainFlow.lean); the theorems are kernel-checked over that
  data. The harness (harness/props/c12.py) injects a failure into every stage of the generated
  skeleton on the real code and checks the output path; natural failures and the success side
  (complete peptides x six force fields) are run for real.
  Not modelled: the OS (a crash inside `write` leaves a partial file; `with open` is not atomic).
-/
import P2P.Model.MainFlow
import P2P.Gen.MainFlow
import P2P.Model.ChargeGuard
import P2P.Proofs.ChargeLemmas
import P2P.Proofs.OptionGateLemmas

namespace P2P.Props.C12
open P2P.MainFlow P2P.Gen.MainFlow

/-- **The output PQR path is opened for writing in exactly one place**: `print_pqr`. (Every other
write-open of the package targets another path: PDB output, APBS input files, pickles, cube.) -/
theorem output_opened_only_by_print_pqr :
    (writeOpens.filter (fun o => o.2.2.2 = "args.output_pqr")).map (fun o => (o.1, o.2.1)) =
      [("pdb2pqr/main.py", "print_pqr")] ∧
    (writeOpens.filter (fun o => o.2.1 = "print_pqr")).length = 1 := by
  decide +kernel

/-- **Writing happens only after the pipeline returned**: in `main_driver`, `print_pqr` is called
exactly once, after argument checks, file lookup, parsing, set-up, termini, and `non_trivial`;
nothing but the optional PDB / APBS outputs comes after it. -/
theorem print_after_every_compute_stage :
    firstCall funcs "main_driver" "print_pqr" = lastCall funcs "main_driver" "print_pqr" ∧
    (["transform_arguments", "check_files", "check_options", "io.get_definitions", "io.get_molecule", "drop_water",
      "setup_molecule", "biomolecule.set_termini", "biomolecule.update_bonds", "non_trivial"].all (fun c =>
        before (lastCall funcs "main_driver" c) (firstCall funcs "main_driver" "print_pqr"))) = true ∧
    (match firstCall funcs "main_driver" "print_pqr" with
     | some i => onlyAfter funcs "main_driver" (i + 1) ["io.print_biomolecule_atoms", "print_pdb", "io.dump_apbs"]
     | none => false) = true := by
  decide +kernel

/-- **`print_pqr` is the only function of the skeleton that receives the output path through the
namespace and opens it**: `non_trivial` and the stages it calls never see `output_pqr`. -/
theorem output_path_footprint :
    readers funcs "output_pqr" = ["main_driver", "print_pqr"] ∧
    (contexts funcs "main_driver" "output_pqr").all (fun c => c = "io.dump_apbs") = true ∧
    contexts funcs "print_pqr" "output_pqr" = ["open"] := by
  decide +kernel

/-- **The charge guard precedes naming and line generation** inside `non_trivial`: the last
`noninteger_charge` call comes before `apply_name_scheme` and `print_biomolecule_atoms`, and all
of `non_trivial` precedes `print_pqr` (previous theorem): a non-integral total never reaches a file. -/
theorem charge_check_before_output :
    before (lastCall funcs "non_trivial" "noninteger_charge") (firstCall funcs "non_trivial" "io.print_biomolecule_atoms") = true ∧
    before (lastCall funcs "non_trivial" "noninteger_charge") (firstCall funcs "non_trivial" "biomolecule.apply_name_scheme") = true ∧
    before (lastCall funcs "non_trivial" "biomolecule.apply_force_field") (firstCall funcs "non_trivial" "noninteger_charge") = true := by
  decide +kernel

/-- argument and file checks come before any work -/
theorem checks_first :
    before (lastCall funcs "main_driver" "check_options") (firstCall funcs "main_driver" "io.get_definitions") = true ∧
    before (lastCall funcs "main_driver" "check_files") (firstCall funcs "main_driver" "io.get_molecule") = true := by
  decide +kernel

/-- **the charge guard** (`utilities.noninteger_charge`, model P2P/Model/ChargeGuard.lean, run in
`Float` by the driver against the real function): a total charge passes exactly when it lies
within the tolerance of some integer — for every charge and every tolerance (over ℚ). With
`charge_check_before_output` this is "a structure whose charges do not add up to an integer never
reaches the output file". -/
theorem charge_guard_spec (c tol : ℚ) :
    P2P.ChargeGuard.nonInteger c tol = false ↔ ∃ n : ℤ, |c - (n : ℚ)| ≤ |tol| :=
  P2P.Proofs.ChargeGuard.nonInteger_spec_core c tol

/-- **The repair gate.** `is_repairable` lets a structure through to heavy-atom repair exactly
when something is missing and the missing fraction is at most one tenth (`REPAIR_LIMIT`); with no
heavy atom and no ligand it raises — for all counts. (Model of the decision on the two counts the
function reads; compared with the real function on a grid around the limit and at every run.) -/
theorem repair_gate_spec (heavy missing : Nat) (lig : Bool) :
    P2P.ChargeGuard.repairGate heavy missing lig = P2P.ChargeGuard.Gate.repair ↔
      0 < heavy ∧ 0 < missing ∧ (missing : ℚ) / (heavy : ℚ) ≤ 1 / 10 :=
  P2P.Proofs.ChargeGuard.repairGate_spec_core heavy missing lig

/-- 11 of 108 heavy atoms missing (10.19 %) is over the limit, 10 of 100 is not -/
example : P2P.ChargeGuard.repairGate 108 11 false = P2P.ChargeGuard.Gate.tooMany ∧
    P2P.ChargeGuard.repairGate 100 10 false = P2P.ChargeGuard.Gate.repair ∧
    P2P.ChargeGuard.repairGate 0 0 false = P2P.ChargeGuard.Gate.noHeavyError := by decide

/-- the total of the eight-residue CA trace of the seeded defect (-0.7086) is rejected -/
example : P2P.ChargeGuard.nonInteger (-7086 / 10000 : ℚ) (1 / 1000) = true := by
  by_contra h
  rw [Bool.not_eq_true, charge_guard_spec] at h
  obtain ⟨n, hn⟩ := h
  have ht : |(1 : ℚ) / 1000| = 1 / 1000 := by norm_num
  rw [ht, abs_le] at hn
  have h1 : (n : ℚ) < 0 := by linarith [hn.1]
  have h2 : (-1 : ℚ) < n := by linarith [hn.2]
  have h3 : n < 0 := by exact_mod_cast h1
  have h4 : -1 < n := by exact_mod_cast h2
  omega

/-! ### The request gate (`check_files`, `check_options`; Model/OptionGate.lean) -/

open P2P.OptionGate in
/-- **the gate, characterised for EVERY request**: `main_driver` gets past `check_files` and
`check_options` exactly for the usable requests — every named file exists, a user force field comes
with a names file, the built-in force field has its data file, 0 ≤ pH ≤ 14 (NaN slips through both
comparisons, as in Python), and the neutral-terminus options are used with PARSE only. Every other
option or file combination is refused (and, by `checks_first`, before anything is opened). -/
theorem gate_accepts_iff_usable (r : Req) : gate r = none ↔ Usable r :=
  P2P.Proofs.OptionGate.gate_none_iff_core r

open P2P.OptionGate in
/-- a user force field without a names file is refused, whatever else the request says (in
particular whatever `--ff` says: the clause the round-4 seeded defect disabled) -/
theorem userff_without_usernames_refused (r : Req) (h1 : r.userff = some true) (h2 : r.usernames = none) :
    gate r ≠ none := by
  intro h
  have hu := (gate_accepts_iff_usable r).mp h
  have := hu.2.2.1 h1
  rw [h2] at this
  cases this

open P2P.OptionGate in
/-- a named file that does not exist is refused -/
theorem missing_file_refused (r : Req) (h : r.usernames = some false ∨ r.userff = some false ∨ r.ligand = some false) :
    gate r ≠ none := by
  intro hg
  have hu := (gate_accepts_iff_usable r).mp hg
  rcases h with h | h | h
  · exact hu.1 h
  · exact hu.2.1 h
  · exact hu.2.2.2.2.1 h

open P2P.OptionGate in
/-- a pH outside [0, 14] (±inf included) is refused -/
theorem ph_outside_refused (r : Req) (h : phOutside r.ph = true) : gate r ≠ none := by
  intro hg
  have hu := (gate_accepts_iff_usable r).mp hg
  rw [hu.2.2.2.2.2.1] at h
  cases h

open P2P.OptionGate in
/-- neutral termini are refused unless the force field is PARSE (in any letter case) -/
theorem neutral_termini_need_parse (r : Req) (h : r.neutraln = true ∨ r.neutralc = true) (hp : isParse r.ff = false) :
    gate r ≠ none := by
  intro hg
  have hu := (gate_accepts_iff_usable r).mp hg
  rcases h with h | h
  · have := hu.2.2.2.2.2.2.1 h; rw [hp] at this; cases this
  · have := hu.2.2.2.2.2.2.2 h; rw [hp] at this; cases this

open P2P.OptionGate in
/-- non-vacuity: an ordinary request passes, the round-4 request does not -/
example : gate ⟨none, none, some (str "AMBER"), true, none, .fin 7000, false, false⟩ = none ∧
    gate ⟨none, some true, some (str "AMBER"), true, none, .fin 7000, false, false⟩ = some .userffWithoutUsernames ∧
    gate ⟨some true, some true, some (str "PARSE"), true, some true, .fin 14000, true, true⟩ = none := by decide

end P2P.Props.C12
