/-
  C11 — runs are deterministic and independent of process history.

  Two parts. (1) An abstract frame theorem over `P2P.Model.History`: if every run's output depends
  only on its input and on cells no run ever writes, the n-th output of ANY history of runs
  (successful or failed — a failed run is just a run whose output is its error) is the output of
  that input run alone from the initial state. (2) The hypothesis is discharged for the current
  tree by theorems kernel-checked over an inventory REGENERATED from the AST of every module of
  pdb2pqr on each run (P2P/Gen/ModuleState.lean): which mutable objects outlive a run, which
  statements inside functions mutate them, where a set is iterated, where id()/hash() is used.
  Partial by nature: the AST cannot see mutation through aliases created at run time or state held
  by third-party modules (propka, numpy, logging); the harness validates the inventory dynamically
  (deep fingerprint of every module global before/after runs) and runs A-B-A / A-fail-A histories
  and fresh processes under several hash seeds.
-/
import P2P.Model.History
import P2P.Gen.ModuleState
import P2P.Proofs.HistoryLemmas

namespace P2P.Props.C11
open P2P.History P2P.Gen.ModuleState

/-- **Frame theorem**: `W` = cells some run may write, and the output of a run is determined by
its input and the cells outside `W`. Then for every history the outputs are those of the runs made
alone from the initial state. -/
theorem history_independent {Cell I O V : Type} (step : G Cell V → I → G Cell V × O) (W : Cell → Prop)
    (hframe : ∀ g i c, ¬ W c → (step g i).1 c = g c)
    (hreads : ∀ g g' i, (∀ c, ¬ W c → g c = g' c) → (step g i).2 = (step g' i).2)
    (g0 : G Cell V) (hist : List I) :
    outputs step g0 hist = hist.map (fun i => (step g0 i).2) :=
  P2P.Proofs.History.history_independent_core step W hframe hreads g0 hist

/-- **Only import-time registration mutates a long-lived object**: the single statement inside a
function that mutates a module-level / class-level / default-argument mutable object is
`register_line_parser` filling `LINE_PARSERS` (a decorator, executed while `pdb.py` is imported). -/
theorem frame_table :
    writes = [("pdb2pqr.pdb.LINE_PARSERS", "pdb2pqr.pdb.register_line_parser")] := by
  decide +kernel

/-- the three mutable default arguments (HETATM's bond lists, `shortest_path`'s path) are never
mutated through their parameter -/
theorem defaults_never_mutated :
    (writes.filter (fun w => (cells.filter (fun c => c.2 = "default")).any (fun c => c.1 = w.1))) = [] := by
  decide +kernel

/-- **No hash-order dependence on the way to the PQR**: sets are iterated only in the ligand ring /
torsion perception (`ligand/mol2.py`), whose results are again sets used for membership and
counting; `id()` and `hash()` are not used at all. -/
theorem no_hash_order :
    (setIteration.all (fun s => s.1 = "pdb2pqr.ligand.mol2" && (s.2.1 = "set_rings" || s.2.1 = "set_torsions"))) = true ∧
    idHash = [] := by
  decide +kernel

end P2P.Props.C11
