/-
  P2P.Text — character-level building blocks shared by every text model.

  Strings are `List Char` (`Str`) so that theorems are plain list reasoning.
  Every function mirrors one Python `str` operation that the pdb2pqr sources use
  (`ljust`, `rjust`, slicing, `split()`, `strip()`, `int()`, `float()`, `format`).
  No Mathlib import: this file is linked into the native driver.
-/
namespace P2P

abbrev Str := List Char

def str (s : String) : Str := s.toList
def Str.toS (s : Str) : String := String.ofList s

/-- Python `str.ljust(s, w)`. -/
def ljust (s : Str) (w : Nat) : Str := s ++ List.replicate (w - s.length) ' '
/-- Python `str.rjust(s, w)`. -/
def rjust (s : Str) (w : Nat) : Str := List.replicate (w - s.length) ' ' ++ s
/-- Python `s[a:b]` for `0 ≤ a`, `0 ≤ b` (clamps like Python). -/
def slice (s : Str) (a b : Nat) : Str := (s.drop a).take (b - a)
/-- Python `s[a:]`. -/
def sliceFrom (s : Str) (a : Nat) : Str := s.drop a

/-- ASCII part of Python's `str.isspace` (what `split()`/`strip()` use). The
generators stay inside ASCII; non-ASCII whitespace is outside the model. -/
def isWs (c : Char) : Bool :=
  c = ' ' || c = '\t' || c = '\n' || c = '\r' || c.toNat = 11 || c.toNat = 12 ||
  (28 ≤ c.toNat && c.toNat ≤ 31)

def lstrip (s : Str) : Str := s.dropWhile isWs
def rstrip (s : Str) : Str := (s.reverse.dropWhile isWs).reverse
/-- Python `s.strip()`. -/
def strip (s : Str) : Str := rstrip (lstrip s)

/-- Python `s.strip(chars)`. -/
def stripChars (cs : Str) (s : Str) : Str :=
  ((s.dropWhile (fun c => cs.contains c)).reverse.dropWhile (fun c => cs.contains c)).reverse

/-- Python `s.split()` (no argument): maximal runs of non-whitespace. -/
def splitWsAux : Str → Str → List Str → List Str
  | [], cur, acc => (if cur.isEmpty then acc else cur.reverse :: acc).reverse
  | c :: cs, cur, acc =>
    if isWs c then splitWsAux cs [] (if cur.isEmpty then acc else cur.reverse :: acc)
    else splitWsAux cs (c :: cur) acc
def splitWs (s : Str) : List Str := splitWsAux s [] []

/-- Python `" ".join(xs)` generalised to a separator. -/
def joinWith (sep : Str) : List Str → Str
  | [] => []
  | [x] => x
  | x :: xs => x ++ sep ++ joinWith sep xs

/-- Python `s.split(sep)` for a one-character separator. -/
def splitOnChar (sep : Char) (s : Str) : List Str :=
  let rec go : Str → Str → List Str → List Str
    | [], cur, acc => (cur.reverse :: acc).reverse
    | c :: cs, cur, acc => if c = sep then go cs [] (cur.reverse :: acc) else go cs (c :: cur) acc
  go s [] []

/-- `s.startswith(p)`. -/
def startsWith (s p : Str) : Bool := p.isPrefixOf s

/-! ### integers -/

def natStr (n : Nat) : Str := Nat.toDigits 10 n
/-- Python `f"{i:d}"` / `str(i)`. -/
def intStr (i : Int) : Str :=
  match i with
  | Int.ofNat n => natStr n
  | Int.negSucc n => '-' :: natStr (n + 1)

def allDigits (s : Str) : Bool := !s.isEmpty && s.all Char.isDigit

/-- digits only, non-empty. -/
def parseNat? (s : Str) : Option Nat :=
  if allDigits s then some (Nat.ofDigitChars 10 s 0) else none

/-- Python `int(s)` on ASCII text without underscores: surrounding whitespace,
optional sign, decimal digits. -/
def parseInt? (s : Str) : Option Int :=
  match strip s with
  | '-' :: ds => (parseNat? ds).map (fun n => - (n : Int))
  | '+' :: ds => (parseNat? ds).map (fun n => (n : Int))
  | ds => (parseNat? ds).map (fun n => (n : Int))

/-! ### decimals

A decimal literal is `(-1)^neg · mant · 10^exp`. Python's `float(text)` is the
correctly rounded binary value of that number; the harness performs the same
conversion on the model's answer, so the model stays exact. -/

structure Dec where
  neg : Bool
  mant : Nat
  exp : Int
deriving Repr, DecidableEq, Inhabited

/-- exact value comparison helper: normalise trailing zeros of the mantissa. -/
def Dec.isZero (d : Dec) : Bool := d.mant == 0

/-- A fixed-point number with `k` implied decimals: sign and magnitude of the
*rounded* value, which is what Python's `format(x, ".kf")` prints. `neg` is kept
separately because Python prints `-0.000`. -/
structure Fix where
  neg : Bool
  mag : Nat
deriving Repr, DecidableEq, Inhabited

def Fix.toInt (f : Fix) : Int := if f.neg then - (f.mag : Int) else f.mag

/-- left-pad with `'0'` to width `w`. -/
def zpad (s : Str) (w : Nat) : Str := List.replicate (w - s.length) '0' ++ s

/-- Python `f"{x:.kf}"` where `f` is the value of `x` rounded to `k` decimals (`k ≥ 1`). -/
def fmtFix (k : Nat) (f : Fix) : Str :=
  (if f.neg then ['-'] else []) ++ natStr (f.mag / 10 ^ k) ++ ['.'] ++ zpad (natStr (f.mag % 10 ^ k)) k

/-- split at the first occurrence of `c`. -/
def splitFirst (c : Char) (s : Str) : Str × Option Str :=
  match s.span (· ≠ c) with
  | (a, []) => (a, none)
  | (a, _ :: b) => (a, some b)

/-- mantissa part: `digits`, `digits.`, `digits.digits`, `.digits`. -/
def parseMant? (s : Str) : Option (Nat × Nat) :=   -- (mantissa, number of fraction digits)
  match splitFirst '.' s with
  | (ip, none) => if allDigits ip then some (Nat.ofDigitChars 10 ip 0, 0) else none
  | (ip, some fp) =>
    if (ip.isEmpty && fp.isEmpty) then none
    else if ip.all Char.isDigit && fp.all Char.isDigit then
      some (Nat.ofDigitChars 10 (ip ++ fp) 0, fp.length)
    else none

def lower (s : Str) : Str := s.map Char.toLower

inductive PyFloat where
  | fin (d : Dec)
  | inf (neg : Bool)
  | nan
deriving Repr, DecidableEq, Inhabited

/-- Python `float(s)` on ASCII text without underscores. -/
def parseFloat? (s0 : Str) : Option PyFloat :=
  let s := strip s0
  let (neg, body) := match s with
    | '-' :: r => (true, r)
    | '+' :: r => (false, r)
    | r => (false, r)
  let lb := lower body
  if lb = str "inf" || lb = str "infinity" then some (.inf neg)
  else if lb = str "nan" then some .nan
  else
    let (m, e) := match body.span (fun c => c ≠ 'e' && c ≠ 'E') with
      | (m, []) => (m, none)
      | (m, _ :: e) => (m, some e)
    match parseMant? m with
    | none => none
    | some (mant, fd) =>
      match e with
      | none => some (.fin ⟨neg, mant, - (fd : Int)⟩)
      | some es =>
        let (eneg, eds) := match es with
          | '-' :: r => (true, r)
          | '+' :: r => (false, r)
          | r => (false, r)
        match parseNat? eds with
        | none => none
        | some ev => some (.fin ⟨neg, mant, (if eneg then - (ev : Int) else ev) - fd⟩)

/-! ### hex transport for the line protocol -/

def hexVal (c : Char) : Nat :=
  if c.isDigit then c.toNat - 48
  else if 'a' ≤ c && c ≤ 'f' then c.toNat - 87
  else if 'A' ≤ c && c ≤ 'F' then c.toNat - 55 else 0

/-- decode a hex string of code points encoded as 2 hex digits each (Latin-1 range). -/
def unhex : Str → Str
  | a :: b :: r => Char.ofNat (hexVal a * 16 + hexVal b) :: unhex r
  | _ => []

def hexDigit (n : Nat) : Char := if n < 10 then Char.ofNat (48 + n) else Char.ofNat (87 + n)
def hex (s : Str) : Str := s.flatMap (fun c => [hexDigit (c.toNat / 16 % 16), hexDigit (c.toNat % 16)])

end P2P
