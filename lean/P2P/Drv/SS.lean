import P2P.Drv.Proto
import P2P.Model.SS
import P2P.Gen.Consts

namespace P2P.Drv.SSD
open P2P P2P.Drv P2P.SS

/-- value of a decimal constant in thousandths (exact when it has at most three decimals) -/
def thousandths (d : Dec) : Int :=
  let v : Int := if d.exp + 3 ≥ 0 then d.mant * 10 ^ (d.exp + 3).toNat else d.mant / 10 ^ (-(d.exp + 3)).toNat
  if d.neg then -v else v

def handlers : List (String × Handler) := [
  ("ss.scan", fun a => match a with
    | [pts] =>
      let ps : List P3 := if pts.isEmpty then [] else (splitOnChar ';' pts).map (fun p =>
        match splitOnChar ',' p with
        | [x, y, z] => ⟨decInt x, decInt y, decInt z⟩
        | _ => default)
      let ids := List.range ps.length
      let close (i j : Nat) : Bool := closeBy (thousandths Gen.Consts.BONDED_SS_LIMIT) (ps.getD i default) (ps.getD j default)
      let res := scan close ids
      encList ';' (res.map (fun (k, v) => natStr k ++ [':'] ++ encList ',' (v.map natStr)))
    | _ => str "bad-op"),
  ("ss.limit", fun _ => intStr (thousandths Gen.Consts.BONDED_SS_LIMIT))
]

end P2P.Drv.SSD
