import P2P.Drv.Proto
import P2P.Model.Psize

namespace P2P.Drv.PsizeD
open P2P P2P.Drv P2P.Psize

instance : PNum Float where
  dec m e := Float.ofScientific m true e
  ofInt i := Float.ofInt i
  lt a b := a < b
  trunc x := if x < 0 then - Int.ofNat ((-x).floor.toUInt64.toNat) else Int.ofNat (x.floor.toUInt64.toNat)

def hexNat (s : Str) : Nat := s.foldl (fun n c => n * 16 + hexVal c) 0
def decF (s : Str) : Float := Float.ofBits (UInt64.ofNat (hexNat s))
def encF (x : Float) : Str :=
  let n := x.toBits.toNat
  (List.range 16).reverse.map (fun i => hexDigit (n / 16 ^ i % 16))

def enc3 (t : Float × Float × Float) : Str := encF t.1 ++ [','] ++ encF t.2.1 ++ [','] ++ encF t.2.2

def handlers : List (String × Handler) := [
  ("psize.parse", fun a => match a with
    | [l] => match parseLine (unhex l) with
      | .error _ => str "ValueError"
      | .ok none => str "skip"
      | .ok (some p) => encBool p.isAtom ++ encBool p.isHet ++ [':'] ++
          (match p.vals with
           | none => str "-"
           | some (x, y, z, q, r) => encList ',' [encPyFloat x, encPyFloat y, encPyFloat z, encPyFloat q, encPyFloat r])
    | _ => str "bad-op"),
  ("psize.run", fun a => match a with
    | cfac :: fadd :: space :: rest =>
      let items := match rest with | [l] => (if l.isEmpty then [] else splitOnChar ';' l) | _ => []
      let acc : Acc Float := items.foldl (fun acc it =>
        match splitOnChar ',' it with
        | [fl, x, y, z, q, r] => accStep acc (fl = ['a']) (fl = ['h']) (some (decF x, decF y, decF z, decF q, decF r))
        | [fl] => accStep acc (fl = ['a']) (fl = ['h']) none
        | _ => acc) acc0
      match acc.minlen, acc.maxlen with
      | some mn, some mx =>
        let p : Params Float := { cfac := decF cfac, fadd := decF fadd, space := decF space }
        let gx := axis p mx.1 mn.1
        let gy := axis p mx.2.1 mn.2.1
        let gz := axis p mx.2.2 mn.2.2
        let g (x : Grid Float) : Str := encList ',' [encF x.molLength, encF x.coarse, encF x.fine, encF x.center, intStr x.ngrid]
        encList '|' [natStr acc.gotatom, natStr acc.gothet, encF acc.charge, enc3 mn, enc3 mx, g gx, g gy, g gz,
          encF (gmem gx.ngrid gy.ngrid gz.ngrid : Float)]
      | _, _ => str "no-atoms:" ++ natStr acc.gotatom ++ [':'] ++ natStr acc.gothet
    | _ => str "bad-op"),
  ("psize.input", fun a => match a with
    | [p, nx, ny, nz] => hex (joinWith ['\n'] (inputHead (unhex p) (decInt nx) (decInt ny) (decInt nz)))
    | _ => str "bad-op")
]

end P2P.Drv.PsizeD
