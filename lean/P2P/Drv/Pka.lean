import P2P.Drv.Proto
import P2P.Drv.Psize
import P2P.Model.Pka

namespace P2P.Drv.PkaD
open P2P P2P.Drv P2P.Pka

def decOptF (s : Str) : Option Float := if s = ['-'] then none else some (PsizeD.decF s)

def encAct : Action → Str
  | .patch n => str "patch:" ++ n
  | .warn => str "warn"

def handlers : List (String × Handler) := [
  ("pka.step", fun a => match a with
    | [ff, rn, fl, ph, vn, vc, vs] =>
      encList ',' ((pkaStep (fun (x y : Float) => x < y) (unhex ff) (unhex rn) (fl.getD 0 '0' = '1') (fl.getD 1 '0' = '1')
        (PsizeD.decF ph) (decOptF vn) (decOptF vc) (decOptF vs)).map encAct)
    | _ => str "bad-op"),
  ("pka.keys", fun a => match a with
    | [rn, num, ch] => encList ',' [hex (keyN (decInt num) (unhex ch)), hex (keyC (decInt num) (unhex ch)), hex (keyS (unhex rn) (decInt num) (unhex ch))]
    | _ => str "bad-op"),
  ("pka.dict", fun a => match a with
    | [rows] =>
      let rs : List (PkaRow Float) := if rows.isEmpty then [] else (splitOnChar ';' rows).filterMap (fun r =>
        match splitOnChar ',' r with
        | [rn, num, ch, lb, v] => some { resName := unhex rn, resNum := decInt num, chain := unhex ch, label := unhex lb, pka := PsizeD.decF v }
        | _ => none)
      encList ';' ((pkaDict rs).map (fun (k, v) => hex k ++ ['='] ++ PsizeD.encF v))
    | _ => str "bad-op")
]

end P2P.Drv.PkaD
