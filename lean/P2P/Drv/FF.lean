import P2P.Drv.Proto
import P2P.Model.FF
import P2P.Model.State
import P2P.Gen.Topology
import P2P.Gen.FF_AMBER
import P2P.Gen.FF_CHARMM
import P2P.Gen.FF_PARSE
import P2P.Gen.FF_PEOEPB
import P2P.Gen.FF_SWANSON
import P2P.Gen.FF_TYL06

namespace P2P.Drv.FFD
open P2P P2P.Drv P2P.FF P2P.Regex

def encDec (d : Dec) : Str := encBool d.neg ++ [':'] ++ natStr d.mant ++ [':'] ++ intStr d.exp

def encErr : FErr → Str
  | .valueError => str "ValueError"
  | .indexError => str "IndexError"
  | .keyError => str "KeyError"

def encMap (m : FFMap) : Str :=
  encList ';' (m.flatMap (fun (k, re) => re.atoms.map (fun (an, e) =>
    encList ',' [hex k, hex an, encDec e.q, encDec e.r, hex e.resname, hex e.name, hex e.group, hex re.name])))

def builtin (name : Str) : Option (List Row × List Section) :=
  if name = str "AMBER" then some (Gen.FF_AMBER.rows, Gen.FF_AMBER.sections)
  else if name = str "CHARMM" then some (Gen.FF_CHARMM.rows, Gen.FF_CHARMM.sections)
  else if name = str "PARSE" then some (Gen.FF_PARSE.rows, Gen.FF_PARSE.sections)
  else if name = str "PEOEPB" then some (Gen.FF_PEOEPB.rows, Gen.FF_PEOEPB.sections)
  else if name = str "SWANSON" then some (Gen.FF_SWANSON.rows, Gen.FF_SWANSON.sections)
  else if name = str "TYL06" then some (Gen.FF_TYL06.rows, Gen.FF_TYL06.sections)
  else none

def builtinMap (name : Str) : Option (Except FErr FFMap) :=
  (builtin name).map (fun (rows, secs) => build rows secs Gen.Topology.canon)

def decSection (s : Str) : Option Section :=
  match splitOnChar '|' s with
  | [re, use, atoms] =>
    match parseRe 200 (splitOnChar ' ' re) with
    | some (r, []) =>
      let useres := if use = ['~'] then none else some (unhex use)
      let as := if atoms.isEmpty then [] else (splitOnChar ',' atoms).filterMap (fun p =>
        match splitOnChar '=' p with | [a, b] => some (unhex a, unhex b) | _ => none)
      some { pat := r, useres, atoms := as }
    | _ => none
  | _ => none

def decResidues (s : Str) : List ARes :=
  if s.isEmpty then [] else
  (splitOnChar ';' s).map (fun r =>
    match splitOnChar ':' r with
    | [lk, atoms] => { lookup := unhex lk, atoms := (if atoms.isEmpty then [] else (splitOnChar ',' atoms)).mapIdx (fun i a => ⟨i, unhex a⟩) }
    | [lk] => { lookup := unhex lk, atoms := [] }
    | _ => default)

def encApply (m : FFMap) (rs : List ARes) : Str :=
  encList ';' (rs.map (fun r => encList ',' (r.atoms.map (fun a =>
    match getParams m r.lookup a.name with
    | some (q, rad) => ['h'] ++ encDec q ++ ['/'] ++ encDec rad
    | none => ['m']))))

/-- residue = cls,name,patches(+),flags(5 bits),atoms(+) with hex strings -/
def decRInfo (s : Str) : State.RInfo :=
  match splitOnChar ',' s with
  | [c, n, ps, fl, as] =>
    let lst (x : Str) : List Str := if x.isEmpty then [] else (splitOnChar '+' x).map unhex
    let b (i : Nat) : Bool := fl.getD i '0' = '1'
    { cls := unhex c, name := unhex n, patches := lst ps, isNterm := b 0, isCterm := b 1, is5term := b 2,
      is3term := b 3, ssBonded := b 4, atoms := lst as }
  | _ => default

def handlers : List (String × Handler) := [
  ("state.apply", fun a => match a with
    | [n, rs] => match builtinMap (unhex n) with
      | some (.ok m) =>
        let infos := if rs.isEmpty then [] else (splitOnChar ';' rs).map decRInfo
        encList ';' (infos.map (fun r =>
          match State.lookupName r with
          | none => str "TypeError"
          | some lk => hex lk ++ ['='] ++ encList ',' (r.atoms.map (fun an =>
              match getParams m lk an with
              | some (q, rad) => ['h'] ++ encDec q ++ ['/'] ++ encDec rad
              | none => ['m']))))
      | _ => str "no-map"
    | _ => str "bad-op"),
  ("ff.dump", fun a => match a with
    | [n] => match builtinMap (unhex n) with
      | some (.ok m) => encMap m
      | some (.error e) => encErr e
      | none => str "unknown-ff"
    | _ => str "bad-op"),
  ("ff.canon", fun _ => encList ',' (Gen.Topology.canon.map hex)),
  ("ff.build", fun a =>
    let (dat, secs, canon) := match a with
      | [d, s, c] => (d, s, c)
      | [d, s] => (d, s, [])
      | [d] => (d, [], [])
      | _ => ([], [], [])
    let lines := if dat.isEmpty then [] else (splitOnChar ';' dat).map unhex
    let ss := if secs.isEmpty then some [] else (splitOnChar ';' secs).mapM decSection
    let cn := if canon.isEmpty then [] else (splitOnChar ',' canon).map unhex
    match ss with
    | none => str "bad-section"
    | some ss =>
      match parseDat lines with
      | .error e => encErr e
      | .ok rows => match build rows ss cn with
        | .ok m => encMap m
        | .error e => encErr e),
  ("ff.apply", fun a => match a with
    | [n, rs] => match builtinMap (unhex n) with
      | some (.ok m) => encApply m (decResidues rs)
      | _ => str "no-map"
    | _ => str "bad-op"),
  ("re.match", fun a => match a with
    | [re, s] => match parseRe 200 (splitOnChar ' ' re) with
      | some (r, []) => match reMatch r (unhex s) with
        | some gs => ['+'] ++ encList ',' (gs.map hex)
        | none => ['-']
      | _ => str "bad-re"
    | _ => str "bad-op")
]

end P2P.Drv.FFD
