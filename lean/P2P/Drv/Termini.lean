import P2P.Drv.Proto
import P2P.Drv.FF
import P2P.Model.Termini
import P2P.Model.Topology
import P2P.Gen.Topology

namespace P2P.Drv.TerminiD
open P2P P2P.Drv P2P.Termini P2P.State

def decKind (s : Str) : Kind :=
  if s = ['a'] then .amino else if s = ['n'] then .nucleic else if s = ['w'] then .water else .other

/-- "N bonded to more than one heavy atom" from the generated topology and the atoms present -/
def nHeavy2Of (name : Str) (atoms : List Str) : Bool :=
  match Topology.findRes Gen.Topology.residues name with
  | none => false
  | some rd =>
    match rd.get? (str "N") with
    | none => false
    | some n => (n.bonds.filter (fun b => atoms.contains b && b.head? ≠ some 'H')).length > 1

/-- residue = id,kind,name,atoms(+) -/
def decTRes (s : Str) : TRes :=
  match splitOnChar ',' s with
  | [i, k, n, as] =>
    let atoms := if as.isEmpty then [] else (splitOnChar '+' as).map unhex
    { id := decNat i, kind := decKind k, name := unhex n, atoms, nHeavy2 := nHeavy2Of (unhex n) atoms }
  | _ => default

def encTRes (r : TRes) : Str :=
  natStr r.id ++ [':'] ++ encBool r.isN ++ encBool r.isC ++ encBool r.is5 ++ encBool r.is3 ++ [':'] ++
    encList '+' (r.patches.map hex)

def handlers : List (String × Handler) := [
  ("term.set", fun a => match a with
    | [nn, nc, bits, chains] =>
      let cs := if chains.isEmpty then [] else (splitOnChar ';' chains).map (fun c =>
        if c.isEmpty then [] else (splitOnChar '|' c).map decTRes)
      match setTermini (decBool nn) (decBool nc) cs (bits.map (· = '1')) with
      | none => str "IndexError"
      | some out => encList ';' (out.map (fun c => encList '|' (c.map encTRes)))
    | _ => str "bad-op"),
  ("state.formal", fun a => match a with
    | [rs] =>
      let infos := if rs.isEmpty then [] else (splitOnChar ';' rs).map FFD.decRInfo
      encList ';' (infos.map (fun r => match formalCharge r with | some c => intStr c | none => str "none"))
    | _ => str "bad-op")
]

end P2P.Drv.TerminiD
