import P2P.Drv.Proto
import P2P.Model.Atoms

namespace P2P.Drv.AtomsD
open P2P P2P.Drv P2P.Atoms

def names (s : Str) : List Str := if s.isEmpty then [] else (splitOnChar ',' s).map unhex
def enc (s : Names) : Str := encList ',' (s.map hex)
def encOpt : Option Names → Str
  | some s => enc s
  | none => str "KeyError"

def handlers : List (String × Handler) := [
  ("atoms.flipinit", fun a => match a with
    | [s, m] => enc (flipInit (names s) (names m))
    | _ => str "bad-op"),
  ("atoms.fixflip", fun a => match a with
    | [s, b] => enc (fixFlip (names s) (unhex b))
    | _ => str "bad-op"),
  ("atoms.flipfinalize", fun a => match a with
    | [s, fixed] => encOpt (flipFinalize (decBool fixed) (names s))
    | _ => str "bad-op"),
  ("atoms.flipcomplete", fun a => match a with
    | [s, fixed] => encOpt (flipComplete (decBool fixed) (names s))
    | _ => str "bad-op"),
  ("atoms.alcinit", fun a => match a with
    | [s, h] => enc (alcInit (names s) (unhex h))
    | _ => str "bad-op"),
  ("atoms.alcdonor", fun a => match a with
    | [s, h, ok] => enc (alcTryDonor (names s) (unhex h) (decBool ok))
    | _ => str "bad-op"),
  ("atoms.acceptor", fun a => match a with
    | [s, ok] => enc (tryAcceptor (names s) (decBool ok))
    | _ => str "bad-op"),
  ("atoms.alcboth", fun a => match a with
    | [s, h, okD, okA] => enc (alcStep (unhex h) (names s) (.both (decBool okD) (decBool okA)))
    | _ => str "bad-op"),
  ("atoms.alcfinalize", fun a => match a with
    | [s, h, fixed, b] => enc (alcFinalize (names s) (unhex h) (decBool fixed) (decNat b))
    | _ => str "bad-op"),
  ("atoms.alccomplete", fun a => match a with
    | [s, h, fixed, b] => enc (alcComplete (names s) (unhex h) (decBool fixed) (decNat b))
    | _ => str "bad-op"),
  ("atoms.watdonor", fun a => match a with
    | [s, ok] => enc (watTryDonor (names s) (decBool ok))
    | _ => str "bad-op"),
  ("atoms.watboth", fun a => match a with
    | [s, okD, okA] => enc (watStep (names s) (.both (decBool okD) (decBool okA)))
    | _ => str "bad-op"),
  ("atoms.watfinalize", fun a => match a with
    | [s, fixed] => let r := watFinalize 3 (names s) (decBool fixed); enc r.1 ++ ['|'] ++ encBool r.2 ++ ['|'] ++ natStr (watBonds (names s))
    | _ => str "bad-op"),
  ("atoms.watcomplete", fun a => match a with
    | [s, fixed] => enc (watComplete (names s) (decBool fixed))
    | _ => str "bad-op"),
  ("atoms.repair", fun a => match a with
    | [refn, s] => let r := repairHeavy (names refn) (names s); enc r.1 ++ ['|'] ++ enc r.2
    | _ => str "bad-op"),
  ("atoms.addh", fun a => match a with
    | [refn, s, skipHG] =>
      enc (addHydrogens (names refn) (fun n => decBool skipHG && n = str "HG") (fun _ => true) (names s))
    | _ => str "bad-op"),
  ("atoms.his", fun a => match a with
    | [s, hip, d1, a1, d2, a2] =>
      let r := hisSetState (decBool hip) (decBool d1) (decBool a1) (decBool d2) (decBool a2) (names s)
      enc r ++ ['|'] ++ (match hisName r with | some n => hex n | none => str "TypeError")
    | _ => str "bad-op"),
  ("atoms.cleanup", fun a => match a with
    | [s, f1, f2] => enc (cleanup (names s) (unhex f1) (unhex f2))
    | _ => str "bad-op")
]

end P2P.Drv.AtomsD
