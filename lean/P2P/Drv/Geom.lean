import P2P.Drv.Proto
import P2P.Drv.Psize
import P2P.Model.Geom
import P2P.Gen.Consts

namespace P2P.Drv.GeomD
open P2P P2P.Drv P2P.Geom

instance : GNum Float where
  ofNat n := Float.ofNat n
  dec m e := Float.ofScientific m true e
  sqrt := Float.sqrt
  sin := Float.sin
  cos := Float.cos
  acos := Float.acos
  abs := Float.abs
  lt a b := a < b
  pi := Float.ofScientific 3141592653589793 true 15

def decV (s : Str) : V3 Float :=
  match splitOnChar ',' s with
  | [x, y, z] => ⟨PsizeD.decF x, PsizeD.decF y, PsizeD.decF z⟩
  | _ => default
def decVs (s : Str) : List (V3 Float) := if s.isEmpty then [] else (splitOnChar ';' s).map decV
def encV (v : V3 Float) : Str := PsizeD.encF v.x ++ [','] ++ PsizeD.encF v.y ++ [','] ++ PsizeD.encF v.z

def decToFloat (d : Dec) : Float :=
  let v := if d.exp ≥ 0 then Float.ofScientific d.mant false d.exp.toNat else Float.ofScientific d.mant true (-d.exp).toNat
  if d.neg then -v else v

def r2d : Float := decToFloat Gen.Consts.RADIANS_TO_DEGREES
def small : Float := decToFloat Gen.Consts.SMALL_NUMBER

def handlers : List (String × Handler) := [
  ("geom.find", fun a => match a with
    | [refs, defs, atom] => encV (findCoordinates (decVs refs) (decVs defs) (decV atom))
    | _ => str "bad-op"),
  ("geom.quat", fun a => match a with
    | [refs, defs] =>
      let (q, _) := qtrfit (center (decVs defs)).2 (center (decVs refs)).2 30
      encList ',' [PsizeD.encF q.1, PsizeD.encF q.2.1, PsizeD.encF q.2.2.1, PsizeD.encF q.2.2.2]
    | _ => str "bad-op"),
  ("geom.chi", fun a => match a with
    | [axis, angle, pts] => encList ';' ((qchichange (decV axis) (decVs pts) (PsizeD.decF angle)).map encV)
    | _ => str "bad-op"),
  ("geom.dihedral", fun a => match a with
    | [pts] => match decVs pts with
      | [c1, c2, c3, c4] => PsizeD.encF (dihedral r2d small c1 c2 c3 c4)
      | _ => str "bad-op"
    | _ => str "bad-op"),
  ("geom.setdih", fun a => match a with
    | [pts, angle, moved] => match decVs pts with
      | [c1, c2, c3, c4] => encList ';' ((setDihedral r2d small c1 c2 c3 c4 (PsizeD.decF angle) (decVs moved)).map encV)
      | _ => str "bad-op"
    | _ => str "bad-op")
]

end P2P.Drv.GeomD
