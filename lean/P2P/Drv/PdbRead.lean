import P2P.Drv.Proto
import P2P.Model.PdbRead

namespace P2P.Drv.PdbReadD
open P2P P2P.Drv P2P.PdbRead

def encErr : RErr → Str
  | .valueError => str "ValueError"
  | .indexError => str "IndexError"
  | .attributeError => str "AttributeError"
  | .tooManyChains => str "Exception"

def encAtom (a : AtomRec) : Str :=
  encList ',' [encBool a.het, hex a.rtype, intStr a.serial, hex a.name, hex a.altLoc, hex a.resName,
    hex a.chain, intStr a.resSeq, hex a.ins, encPyFloat a.x, encPyFloat a.y, encPyFloat a.z]

def encResidues (rs : List (List AtomRec)) : Str :=
  encList '|' (rs.map (fun r =>
    match r.getLast? with
    | none => str "empty"
    | some s => hex s.chain ++ [','] ++ intStr s.resSeq ++ [','] ++ hex s.ins ++ [':'] ++
        encList ' ' (r.map (fun a => intStr a.serial))))

def decLines (s : Str) : List Str := if s.isEmpty then [] else (splitOnChar ';' s).map unhex

def handlers : List (String × Handler) := [
  ("pdb.parse", fun a => match a with
    | [het, l] => match parseAtom (decBool het) (unhex l) with
      | .ok r => encAtom r
      | .error e => encErr e
    | _ => str "bad-op"),
  ("pdb.readatom", fun a => match a with
    | [l] => match readAtom (unhex l) with
      | .ok r => encAtom r
      | .error e => encErr e
    | _ => str "bad-op"),
  ("pdb.read", fun a =>
    let ls := match a with | [l] => decLines l | _ => []
    match readPdb ls with
    | .ok rs => encList ' ' (rs.map (fun r => match r with
        | .atom a => ['A'] ++ intStr a.serial | .ter => str "TER" | .end_ => str "END"
        | .model => str "MODEL" | .other => str "o"))
    | .error e => encErr e),
  ("pdb.ingest", fun a => match a with
    | dw :: rest =>
      let ls := match rest with | [l] => decLines l | _ => []
      match ingest (decBool dw) ls with
      | .ok rs => str "ok|" ++ encResidues rs
      | .error e => encErr e
    | _ => str "bad-op")
]

end P2P.Drv.PdbReadD
