import P2P.Drv.Proto
import P2P.Model.Dx

namespace P2P.Drv.DxD
open P2P P2P.Drv P2P.Dx

def encErr : DErr → Str
  | .valueError => str "ValueError"
  | .indexError => str "IndexError"
  | .typeError => str "TypeError"

/-- symbolic float formatting: the harness renders `<F…>` with `>11.6f` and `<E…>` with `< 13.5E` -/
def symF (v : PyFloat) : Str := str "<F" ++ encPyFloat v ++ ['>']
def symE (v : PyFloat) : Str := str "<E" ++ encPyFloat v ++ ['>']

def decLines (s : Str) : List Str := if s.isEmpty then [] else (splitOnChar ';' s).map unhex

def handlers : List (String × Handler) := [
  ("dx.convert", fun a =>
    let (dxl, pqr) := match a with
      | [d, p] => (decLines d, unhex p)
      | [d] => (decLines d, [])
      | _ => ([], [])
    match Pqr.readPqr pqr with
    | .error .valueError => str "pqr:ValueError"
    | .error .indexError => str "pqr:IndexError"
    | .ok fs =>
      match readDx dxl with
      | .error e => str "dx:" ++ encErr e
      | .ok d =>
        match writeCube symF symE d (fs.map catomOfFields) with
        | .error e => str "cube:" ++ encErr e
        | .ok t => str "ok:" ++ hex t),
  ("dx.read", fun a =>
    let dxl := match a with | [d] => decLines d | _ => []
    match readDx dxl with
    | .error e => str "dx:" ++ encErr e
    | .ok d => str "ok:" ++ natStr d.values.length ++ [':'] ++ natStr d.spacings.length)
]

end P2P.Drv.DxD
