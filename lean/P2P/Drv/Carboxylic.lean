import P2P.Drv.Proto
import P2P.Model.Carboxylic

namespace P2P.Drv.CarboxylicD
open P2P P2P.Drv P2P.Atoms P2P.Carboxylic

def names (s : Str) : List Str := if s.isEmpty then [] else (splitOnChar ',' s).map unhex
def enc (s : List Str) : Str := encList ',' (s.map hex)

/-- state = names;hlist;atomlist;fixed -/
def decSt (s : Str) : St :=
  match splitOnChar ';' s with
  | [n, h, a, f] => { names := names n, hlist := names h, atomlist := names a, fixed := decBool f }
  | _ => default
def encSt (s : St) : Str := enc s.names ++ [';'] ++ enc s.hlist ++ [';'] ++ enc s.atomlist ++ [';'] ++ encBool s.fixed

def optName (s : Str) : Option Str := if s = ['-'] then none else some (unhex s)

def handlers : List (String × Handler) := [
  ("carb.init", fun a => match a with
    | [n, p1, p2, o1, o2, order] =>
      let p1 := unhex p1; let o1 := unhex o1; let o2 := unhex o2
      let nm := names n
      encSt (init nm (names order) (fun h => if h = p1 then o1 else o2) (fun h => !nm.contains h))
    | _ => str "bad-op"),
  ("carb.acc", fun a => match a with
    | [st, b, p1, p2, o1, o2] =>
      let p1 := unhex p1; let o1 := unhex o1; let o2 := unhex o2
      encSt (tryAcceptor (decSt st) (decBool b) p1 (unhex p2) (fun h => if h = p1 then o1 else o2))
    | _ => str "bad-op"),
  ("carb.fix", fun a => match a with
    | [st, keep, p1, p2, o1, o2] =>
      let p1 := unhex p1; let o1 := unhex o1; let o2 := unhex o2
      encSt (fix (decSt st) (unhex keep) p1 (unhex p2) (fun h => if h = p1 then o1 else o2))
    | _ => str "bad-op"),
  ("carb.finalize", fun a => match a with
    | [st, best, p1, p2, o1, o2] =>
      let p1 := unhex p1; let o1 := unhex o1; let o2 := unhex o2
      encSt (finalize (decSt st) (optName best) p1 (unhex p2) (fun h => if h = p1 then o1 else o2))
    | _ => str "bad-op"),
  ("carb.complete", fun a => match a with
    | [st, best, p1, p2, o1, o2] =>
      let p1 := unhex p1; let o1 := unhex o1; let o2 := unhex o2
      encSt (complete (decSt st) (optName best) p1 (unhex p2) (fun h => if h = p1 then o1 else o2))
    | _ => str "bad-op")
]

end P2P.Drv.CarboxylicD
