import P2P.Drv.Proto
import P2P.Drv.Geom
import P2P.Model.Rigid
import P2P.Gen.Topology

namespace P2P.Drv.RigidD
open P2P P2P.Drv P2P.Rigid P2P.Topology P2P.Geom

def names (s : Str) : List Str := if s.isEmpty then [] else (splitOnChar ',' s).map unhex

def real (xs : List Str) : List Str := xs.filter (fun n => !pseudo.contains n)

/-- content of a definition without pseudo-atoms: atoms with their bonds, and the torsions -/
def encDef (r : ResDef) : Str :=
  encList ',' ((r.atoms.filter (fun a => !pseudo.contains a.name)).map (fun a =>
    hex a.name ++ [':'] ++ encList '+' ((real a.bonds).map hex))) ++ ['|'] ++
  encList ',' (r.dihedrals.map (fun d => encList '+' (d.map hex)))

/-- all variants of the kernel-checked table (C04 `rigid_table`), as sets -/
def canonAtoms (r : ResDef) : List (Str × List Str) :=
  (r.atoms.filter (fun a => !pseudo.contains a.name)).map (fun a => (a.name, real a.bonds))

def sameSet (xs ys : List Str) : Bool := xs.all (ys.contains ·) && ys.all (xs.contains ·)

def sameDef (r s : ResDef) : Bool :=
  let ra := canonAtoms r
  let sa := canonAtoms s
  ra.length = sa.length &&
  ra.all (fun a => match sa.lookup a.1 with | some b => sameSet a.2 b | none => false) &&
  r.dihedrals.all (s.dihedrals.contains ·) && s.dihedrals.all (r.dihedrals.contains ·)

def tableBases : List ResDef :=
  Gen.Topology.residues.filter (fun r => isAmino r && decide (r.name.length ≤ 3))

def tableVariants : List (ResDef × Bool × Bool) :=
  tableBases.flatMap (fun b => (runtimeVariants Gen.Topology.patches b).filterMap (fun v =>
    match v.1 with | some r => some (r, v.2.1, v.2.2) | none => none))

def encOptInt : Option Int → Str
  | some i => intStr i
  | none => ['-']

def handlers : List (String × Handler) := [
  /- base, patch sequence, present atoms, isN, isC ->
     definition | refdistances | moved set per torsion | variantOK on the present atoms | in table -/
  ("rigid.check", fun a => match a with
    | [base, patches, present, isN, isC] =>
      match findRes Gen.Topology.residues (unhex base) with
      | none => str "no-such-definition"
      | some b =>
        match applyAll Gen.Topology.patches b (names patches) with
        | none => str "no-such-patch"
        | some r =>
          let pres := names present
          let n := decBool isN
          let c := decBool isC
          let rt := refTable r pres n c
          let mv := r.dihedrals.map (fun d => match d with
            | [_, _, p, _] => if pres.contains p then encList '+' ((moveable r pres n c p).map hex) else ['-']
            | _ => ['?'])
          let inTab := tableVariants.any (fun v => v.2.1 = n && v.2.2 = c && sameDef v.1 r)
          encDef r ++ ['|'] ++
          encList ',' (rt.map (fun e => hex e.1 ++ [':'] ++ encOptInt e.2)) ++ ['|'] ++
          encList ',' mv ++ ['|'] ++ encBool (bondsSymmetric r pres && variantOK r pres n c) ++ ['|'] ++ encBool inTab
    | _ => str "bad-op"),
  ("rigid.tetra", fun a => match a with
    | [a1, a2, angle, pts] =>
      encList ';' ((rotateTetrahedral (GeomD.decV a1) (GeomD.decV a2) (PsizeD.decF angle) (GeomD.decVs pts)).map GeomD.encV)
    | _ => str "bad-op"),
  ("rigid.third", fun a => match a with
    | [nxt, bond, h0, h1] =>
      GeomD.encV (thirdHydrogen (GeomD.decV nxt) (GeomD.decV bond) (GeomD.decV h0) (GeomD.decV h1))
    | _ => str "bad-op"),
  ("rigid.nobonds", fun a => match a with
    | [atom, close] => GeomD.encV (makeNoBonds (GeomD.decV atom) (GeomD.decV close))
    | _ => str "bad-op")
]

end P2P.Drv.RigidD
