import P2P.Drv.Proto
import P2P.Drv.Psize
import P2P.Model.ChargeGuard
import P2P.Model.ChargeTable
import P2P.Model.OptionGate

namespace P2P.Drv.ChargeGuardD
open P2P P2P.Drv P2P.ChargeGuard

instance : RNum Float where
  abs := Float.abs
  round := Float.round
  lt a b := a < b

def handlers : List (String × Handler) := [
  ("charge.nonint", fun a => match a with
    | [c, tol] => encBool (nonInteger (PsizeD.decF c) (PsizeD.decF tol))
    | _ => str "bad-op"),
  ("repair.gate", fun a => match a with
    | [h, m, lig] =>
      match h.toS.toNat?, m.toS.toNat? with
      | some h, some m => str (match repairGate h m (decBool lig) with
          | .noHeavyError => "ValueError" | .noHeavyLigand => "False:warning" | .clean => "False:info"
          | .tooMany => "False:error" | .repair => "True")
      | _, _ => str "bad-op"
    | _ => str "bad-op"),
  ("option.gate", fun a => match a with
    | [un, uf, ff, dat, lig, ph, nn, nc] =>
      let ob (s : Str) : Option Bool := if s = str "-" then none else some (decBool s)
      let phv : P2P.OptionGate.PH :=
        if ph = str "-inf" then .neginf else if ph = str "inf" then .posinf else if ph = str "nan" then .nan else .fin (decInt ph)
      let r : P2P.OptionGate.Req := ⟨ob un, ob uf, if ff = str "-" then none else some (unhex ff), decBool dat, ob lig, phv, decBool nn, decBool nc⟩
      str (match P2P.OptionGate.gate r with
        | none => "pass" | some .usernamesMissing => "usernamesMissing" | some .userffMissing => "userffMissing"
        | some .userffWithoutUsernames => "userffWithoutUsernames" | some .ffDatMissing => "ffDatMissing"
        | some .ligandMissing => "ligandMissing" | some .phRange => "phRange"
        | some .neutralnNotParse => "neutralnNotParse" | some .neutralcNotParse => "neutralcNotParse")
    | _ => str "bad-op"),
  ("charge.formalname", fun a => match a with
    | [n] => intStr (P2P.ChargeTable.formalOfName (unhex n))
    | _ => str "bad-op")
]

end P2P.Drv.ChargeGuardD
