import P2P.Drv.Proto
import P2P.Drv.Psize
import P2P.Model.ChargeGuard
import P2P.Model.ChargeTable

namespace P2P.Drv.ChargeGuardD
open P2P P2P.Drv P2P.ChargeGuard

instance : RNum Float where
  abs := Float.abs
  round := Float.round
  lt a b := a < b

def handlers : List (String × Handler) := [
  ("charge.nonint", fun a => match a with
    | [c, tol] => encBool (nonInteger (PsizeD.decF c) (PsizeD.decF tol))
    | _ => str "bad-op"),
  ("repair.gate", fun a => match a with
    | [h, m, lig] =>
      match h.toS.toNat?, m.toS.toNat? with
      | some h, some m => str (match repairGate h m (decBool lig) with
          | .noHeavyError => "ValueError" | .noHeavyLigand => "False:warning" | .clean => "False:info"
          | .tooMany => "False:error" | .repair => "True")
      | _, _ => str "bad-op"
    | _ => str "bad-op"),
  ("charge.formalname", fun a => match a with
    | [n] => intStr (P2P.ChargeTable.formalOfName (unhex n))
    | _ => str "bad-op")
]

end P2P.Drv.ChargeGuardD
