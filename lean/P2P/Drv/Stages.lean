import P2P.Drv.Proto
import P2P.Drv.Atoms
import P2P.Model.Stages
import P2P.Gen.Topology

namespace P2P.Drv.StagesD
open P2P P2P.Drv P2P.Atoms P2P.Topology P2P.Stages P2P.Drv.AtomsD

/-- one token of the stage string: `P<hex patch name>`, `R`, `S`, `A0` / `A1` (skip HG of a bridged cysteine) -/
def parseStage (t : Str) : Option (Stage × Bool) :=
  match t with
  | 'P' :: h => (findPatch Gen.Topology.patches (unhex h)).map (fun p => (Stage.patch p, false))
  | ['R'] => some (Stage.repair, false)
  | ['S'] => some (Stage.stripH, false)
  | ['A', '0'] => some (Stage.addH, false)
  | ['A', '1'] => some (Stage.addH, true)
  | _ => none

/-- state after every stage: `names|reference names`, `;`-separated, then `#` and the reported names -/
def runAll (ref0 : ResDef) (s : Names) (toks : List Str) : Str :=
  let rec go (st : St) (toks : List Str) (acc : List Str) : Str :=
    match toks with
    | [] => encList ';' acc.reverse ++ ['#'] ++ enc st.reported
    | t :: rest =>
      match parseStage t with
      | none => str "unknown-stage:" ++ t
      | some (stage, skipHG) =>
        let st' := step (fun n => skipHG && n = str "HG") (fun _ => true) st stage
        go st' rest ((enc st'.names ++ ['|'] ++ enc st'.ref.names) :: acc)
  go { ref := ref0, names := s, reported := [] } toks []

def handlers : List (String × Handler) := [
  ("stages.run", fun a => match a with
    | [refn, s, stages] =>
      match findRes Gen.Topology.residues (unhex refn) with
      | none => str "unknown-residue"
      | some r => runAll r (names s) (if stages.isEmpty then [] else splitOnChar ';' stages)
    | _ => str "bad-op"),
  ("stages.refnames", fun a => match a with
    | [refn] =>
      match findRes Gen.Topology.residues (unhex refn) with
      | none => str "unknown-residue"
      | some r => enc r.names
    | _ => str "bad-op")
]

end P2P.Drv.StagesD
