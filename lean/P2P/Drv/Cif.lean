import P2P.Drv.Proto
import P2P.Drv.PdbRead
import P2P.Model.Cif

namespace P2P.Drv.CifD
open P2P P2P.Drv P2P.Cif

def decOpt (s : Str) : Option Str := if s = ['~'] then none else some (unhex s)

def decRow (s : Str) : Row :=
  match splitOnChar ',' s with
  | [g, id, n, alt, comp, asym, aasym, seq, ins, x, y, z, occ, b, sym, ch, m] =>
    { group := unhex g, id := unhex id, name := unhex n, alt := decOpt alt, comp := unhex comp, asym := unhex asym, authAsym := decOpt aasym,
      seq := unhex seq, ins := decOpt ins, x := unhex x, y := unhex y, z := unhex z, occ := unhex occ, b := unhex b,
      sym := unhex sym, charge := decOpt ch, model := unhex m }
  | _ => default

def decRows (s : Str) : List Row := if s.isEmpty then [] else (splitOnChar ';' s).map decRow

def encErr : CErr → Str
  | .valueError => str "ValueError"
  | .indexError => str "IndexError"

def handlers : List (String × Handler) := [
  ("cif.line", fun a => match a with
    | [r] => hex (assemble (decRow r)) ++ [','] ++ hex (pdbLine (decRow r)) ++ [','] ++ encBool (RowOK (decRow r))
    | _ => str "bad-op"),
  ("cif.ingest", fun a => match a with
    | dw :: rest =>
      let rows := match rest with | [r] => decRows r | _ => []
      match ingestCif (decBool dw) rows with
      | .ok rs => str "ok|" ++ PdbReadD.encResidues rs
      | .error e => encErr e
    | _ => str "bad-op")
]

end P2P.Drv.CifD
