import P2P.Drv.Proto
import P2P.Drv.Psize
import P2P.Model.Cells

namespace P2P.Drv.CellsD
open P2P P2P.Drv P2P.Cells

def truncF (x : Float) : Int := if x < 0 then - Int.ofNat ((-x).floor.toUInt64.toNat) else Int.ofNat (x.floor.toUInt64.toNat)

def decPos (s : Str) : TPos :=
  match splitOnChar ',' s with
  | [x, y, z] =>
    let fx := PsizeD.decF x; let fy := PsizeD.decF y; let fz := PsizeD.decF z
    { nx := fx < 0, tx := truncF fx, ny := fy < 0, ty := truncF fy, nz := fz < 0, tz := truncF fz }
  | _ => default

/-- a whole operation sequence in one request: ops separated by ';':
    `s<id>:<x,y,z>` set position, `a<id>` add, `r<id>` remove, `n<id>` near → replies joined by ';' -/
def runOps (size : Int) (ops : List Str) : Str :=
  let (_, out) := ops.foldl (fun (acc : Option State × List Str) op =>
    match acc.1 with
    | none => (none, acc.2 ++ [str "dead"])
    | some st =>
      match op with
      | 's' :: rest =>
        match splitOnChar ':' rest with
        | [i, p] => (some (setPos st (decNat i) (decPos p)), acc.2 ++ [str "ok"])
        | _ => (some st, acc.2 ++ [str "bad-op"])
      | 'a' :: i => (some (addCell st (decNat i)), acc.2 ++ [str "ok"])
      | 'r' :: i =>
        match removeCell st (decNat i) with
        | some st' => (some st', acc.2 ++ [str "ok"])
        | none => (none, acc.2 ++ [str "ValueError"])
      | 'n' :: i => (some st, acc.2 ++ [encList ',' ((nearCells st (decNat i)).map natStr)])
      | 'k' :: i => (some st, acc.2 ++ [match cellOf st (decNat i) with
          | some (x, y, z) => intStr x ++ [','] ++ intStr y ++ [','] ++ intStr z
          | none => str "None"])
      | _ => (some st, acc.2 ++ [str "bad-op"])) (some (init size), [])
  encList ';' out

def handlers : List (String × Handler) := [
  ("cells.run", fun a => match a with
    | [size, ops] => runOps (decInt size) (if ops.isEmpty then [] else splitOnChar ';' ops)
    | _ => str "bad-op")
]

end P2P.Drv.CellsD
