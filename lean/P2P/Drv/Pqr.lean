import P2P.Drv.Proto
import P2P.Model.Pqr

namespace P2P.Drv.PqrD
open P2P P2P.Drv P2P.Pqr

/-- atom = 12 comma-separated items: type,serial,name,resName,chain,resSeq,ins,x,y,z,q,r (strings hex) -/
def decAtom (s : Str) : PAtom :=
  match splitOnChar ',' s with
  | [ty, se, na, rn, ch, rs, ic, x, y, z, q, r] =>
    { type := unhex ty, serial := decInt se, name := unhex na, resName := unhex rn, chain := unhex ch,
      resSeq := decInt rs, ins := unhex ic, x := decFix x, y := decFix y, z := decFix z,
      q := decOptFix q, r := decOptFix r }
  | _ => default

def encFields (f : Fields) : Str :=
  encList ',' [hex f.type, intStr f.serial, hex f.name, hex f.resName, hex f.chain, intStr f.resSeq,
    hex f.ins, encPyFloat f.x, encPyFloat f.y, encPyFloat f.z, encPyFloat f.q, encPyFloat f.r]

def encErr : PErr → Str
  | .valueError => str "ValueError"
  | .indexError => str "IndexError"

def handlers : List (String × Handler) := [
  ("pqr.fmt", fun a => match a with
    | [kc, atom] => hex (fmtPqr (decBool kc) (decAtom atom))
    | _ => str "bad-op"),
  ("pqr.write", fun a => match a with
    | [ws, kc, cif, atoms] =>
      let as := if atoms.isEmpty then [] else (splitOnChar ';' atoms).map decAtom
      hex (writePqr (decBool ws) (decBool kc) (decBool cif) as)
    | _ => str "bad-op"),
  ("pqr.fromline", fun a => match a with
    | [l] => match fromPqrLine (unhex l) with
      | .ok none => str "None"
      | .ok (some f) => encFields f
      | .error e => encErr e
    | _ => str "bad-op"),
  ("pqr.slices", fun a => match a with
    | [l] => match slices (unhex l) with
      | none => str "unreadable"
      | some f => encFields f
    | _ => str "bad-op"),
  ("pqr.read", fun a => match a with
    | [f] => match readPqr (unhex f) with
      | .ok fs => encList ';' (fs.map encFields)
      | .error e => encErr e
    | [] => match readPqr [] with
      | .ok fs => encList ';' (fs.map encFields)
      | .error e => encErr e
    | _ => str "bad-op"),
  ("pqr.fits", fun a => match a with
    | [kc, atom] => encBool (Fits (decAtom atom)) ++ encBool (FitsWs (decBool kc) (decAtom atom))
    | _ => str "bad-op"),
  ("pqr.fields", fun a => match a with
    | [kc, atom] => encFields (fieldsOf (decBool kc) (decAtom atom))
    | _ => str "bad-op")
]

end P2P.Drv.PqrD
