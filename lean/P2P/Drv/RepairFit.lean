import P2P.Drv.Proto
import P2P.Drv.Atoms
import P2P.Model.RepairFit
import P2P.Model.Rigid
import P2P.Gen.Topology

namespace P2P.Drv.RepairFitD
open P2P P2P.Drv P2P.Topology P2P.RepairFit P2P.Drv.AtomsD

/-- reference by definition name + run-time patch names -/
def refOf (name patches : Str) : Option ResDef :=
  match findRes Gen.Topology.residues (unhex name) with
  | none => none
  | some r => P2P.Rigid.applyAll Gen.Topology.patches r (names patches)

def handlers : List (String × Handler) := [
  ("repairfit.nearest", fun a => match a with
    | [name, patches, x] =>
      match refOf name patches with
      | some r => enc (nearestBonds r (unhex x))
      | none => str "unknown"
    | _ => str "bad-op"),
  ("repairfit.link", fun a => match a with
    | [c, n, far] => let r := peptideLink (decBool c) (decBool n) (decBool far); encBool r.1 ++ encBool r.2
    | _ => str "bad-op"),
  ("repairfit.fit", fun a => match a with
    | [name, patches, present, x] =>
      match refOf name patches with
      | some r => enc (fitAtoms r (names present) (unhex x)) ++ ['|'] ++ encBool (fitLocal r (names present) (unhex x))
      | none => str "unknown"
    | _ => str "bad-op")
]

end P2P.Drv.RepairFitD
