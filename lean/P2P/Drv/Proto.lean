/-
  P2P.Drv.Proto — line-protocol helpers for the driver.
  One request per line: `op<TAB>arg…`; one reply per line. Strings travel as hex.
-/
import P2P.Text

namespace P2P.Drv
open P2P

abbrev Handler := List Str → Str

def tab : Char := '\t'

def encBool (b : Bool) : Str := if b then ['1'] else ['0']
def decBool (s : Str) : Bool := s = ['1']

def decInt (s : Str) : Int := (parseInt? s).getD 0
def decNat (s : Str) : Nat := (parseNat? s).getD 0

/-- `p123` / `n123` -/
def decFix (s : Str) : Fix :=
  match s with
  | 'n' :: r => ⟨true, decNat r⟩
  | 'p' :: r => ⟨false, decNat r⟩
  | _ => ⟨false, 0⟩
def decOptFix (s : Str) : Option Fix := if s = ['-'] then none else some (decFix s)

def encPyFloat : PyFloat → Str
  | .fin d => str "f:" ++ encBool d.neg ++ [':'] ++ natStr d.mant ++ [':'] ++ intStr d.exp
  | .inf n => str "inf:" ++ encBool n
  | .nan => str "nan"

def joinTab (xs : List Str) : Str := joinWith [tab] xs

def encList (sep : Char) (xs : List Str) : Str := joinWith [sep] xs

end P2P.Drv
