import P2P.Drv.Proto
import P2P.Drv.Atoms
import P2P.Model.NucCharge
import P2P.Gen.Topology

/-! `nuc.atoms <hex base> <5|m|3>` → the run-time reference atoms of a nucleotide at a strand position
(Model/NucCharge.lean over the regenerated topology), and the look-up name. -/
namespace P2P.Drv.NucD
open P2P P2P.Drv P2P.NucCharge P2P.Drv.AtomsD

def decPos (s : Str) : Option Pos :=
  if s = str "5" then some .five else if s = str "m" then some .mid else if s = str "3" then some .three else none

def handlers : List (String × Handler) := [
  ("nuc.atoms", fun a => match a with
    | [b, p] =>
      match decPos p with
      | none => str "bad-op"
      | some pos =>
        match runtimeAtoms Gen.Topology.residues Gen.Topology.patches (unhex b) pos with
        | none => str "unknown"
        | some atoms => enc atoms ++ ['#'] ++ hex (ffName (unhex b) pos)
    | _ => str "bad-op")
]

end P2P.Drv.NucD
