import P2P.Drv.Proto
import P2P.Drv.Psize
import P2P.Model.Peoe
import P2P.Gen.Ligand

namespace P2P.Drv.PeoeD
open P2P P2P.Drv P2P.Peoe

instance : QNum Float where
  ofNat n := Float.ofNat n
  abs := Float.abs
  lt a b := a < b
  pow a n := Float.pow a (Float.ofNat n)

def fbits (u : UInt64) : Float := Float.ofBits u
def relTol : Float := Float.ofScientific 1 true 9

def upper (s : String) : String := String.ofList (s.toList.map Char.toUpper)

/-- `assign_terms` -/
def termsOf (ty : String) : Option (List Float) :=
  let t := upper ty
  let t := if t = "O.3" then "O.OH" else t
  (Gen.Ligand.polyTerms.lookup t).map (·.map fbits)

/-- `electronegativity(charge, poly_terms, atom_type)` -/
def electroneg (charge : Float) (terms : List Float) (ty : String) : Float :=
  let mx := fbits Gen.Ligand.MAX_CHARGE
  let c := if Float.abs charge > mx then (if charge < 0 then -1.0 * mx else mx) else charge
  if ty = "H" && isclose relTol c (fbits Gen.Ligand.DEFAULT_H_CHARGE) then fbits Gen.Ligand.DEFAULT_H_ELECTRONEG
  else match terms with
    | [p0, p1, p2, p3] => p0 + p1 * c + p2 * c * c + p3 * c * c * c
    | [p0, p1, p2] => p0 + p1 * c + p2 * c * c
    | _ => 0.0 / 0.0

def decBond (s : Str) : BondType :=
  if s = ['1'] then .single else if s = ['2'] then .double else if s = ['3'] then .triple else .aromatic

def elementOf (ty : String) : String := (ty.splitOn ".").headD ""

structure Mol where
  names : List Str
  types : List String
  /-- bonds in file order: (atom1 index, atom2 index, type) -/
  bonds : List (Nat × Nat × BondType)

def boOf (m : Mol) (i : Nat) : Int := bondOrder ((atomBonds m.bonds i).map (·.2.2))

/-- formal charges in halves of an electron; `none` = KeyError/ValueError in the real code -/
def formalAll (m : Mol) : Option (List Int) :=
  (List.range m.types.length).mapM (fun i =>
    let ty := m.types.getD i ""
    match Gen.Ligand.valence.lookup (elementOf ty), Gen.Ligand.nonbonded2.lookup ty with
    | some v, some nb =>
      match formalCharge2 ty v nb (boOf m i) with
      | .inl c => some c
      | .inr () =>
        -- phosphate: first bond of this atom, the P end of it; the P's bonds in order, both atoms of each
        match (atomBonds m.bonds i).head? with
        | none => none
        | some b0 =>
          let ends := [b0.1, b0.2.1]
          match ends.find? (fun k => ((m.types.getD k "").toList.head? = some 'P')) with
          | none => none
          | some p =>
            let os := (atomBonds m.bonds p).flatMap (fun b => [b.1, b.2.1].filter (fun k =>
              (m.types.getD k "").toList.head? = some 'O' && boOf m k = 1))
            some (if os.head? = some i then -2 else 0)
    | _, _ => none)

def handlers : List (String × Handler) := [
  ("peoe.run", fun a => match a with
    | [names, types, bonds] =>
      let ns := if names.isEmpty then [] else (splitOnChar ',' names).map unhex
      let ts := if types.isEmpty then [] else (splitOnChar ',' types).map (fun t => (unhex t).toS)
      let bs := if bonds.isEmpty then [] else (splitOnChar ';' bonds).filterMap (fun b =>
        match splitOnChar ',' b with
        | [i, j, t] => some (decNat i, decNat j, decBond t)
        | _ => none)
      let m : Mol := { names := ns, types := ts, bonds := bs }
      let n := ts.length
      match formalAll m, ts.mapM termsOf with
      | some f2, some terms =>
        let formal (i : Nat) : Float := Float.ofInt (f2.getD i 0) / 2.0
        let chi (q : Float) (i : Nat) : Float := electroneg q (terms.getD i []) (ts.getD i "")
        let norm (i : Nat) : Float := electroneg 1.0 (terms.getD i []) (ts.getD i "")
        let q := equilibrate relTol n chi norm (bondedOf m.bonds) (fbits Gen.Ligand.DAMPING_FACTOR)
          (fbits Gen.Ligand.SCALING_FACTOR) Gen.Ligand.NUM_CYCLES formal
        let radii := ts.map (fun t => assignRadius Gen.Ligand.radii_zap9 Gen.Ligand.radii_bondi t (upper (elementOf t)))
        encList ';' [encList ',' (f2.map intStr), encList ',' (q.map PsizeD.encF),
          encList ',' (radii.map (fun r => match r with | some x => natStr x | none => str "KeyError"))]
      | _, _ => str "KeyError"
    | _ => str "bad-op"),
  ("lig.transfer", fun a => match a with
    | [lig, residues] =>
      let ln := if lig.isEmpty then [] else (splitOnChar ',' lig).map unhex
      let rs : List (Bool × List HAtom) := if residues.isEmpty then [] else (splitOnChar ';' residues).map (fun r0 =>
        let (w, r) := match r0 with | 'w' :: rest => (true, rest) | 'r' :: rest => (false, rest) | x => (false, x)
        (w, if r.isEmpty then [] else (splitOnChar ',' r).filterMap (fun x =>
          match splitOnChar ':' x with
          | [i, h, n] => some { id := decNat i, isHet := h = ['1'], name := unhex n }
          | _ => none)))
      let (hit, miss) := ligandTransfer ln rs
      encList ',' (hit.map natStr) ++ [';'] ++ encList ',' (miss.map natStr)
    | _ => str "bad-op")
]

end P2P.Drv.PeoeD
