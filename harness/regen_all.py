"""Run every property's generators (used by setup.sh)."""
import importlib
import sys
from pathlib import Path

sys.path.insert(0, str(Path(__file__).resolve().parent))
import core  # noqa: E402

b = core.Build()
seen = set()
core.run_generators(core.driver_generators(), b)
for p in sorted((Path(__file__).parent / "props").glob("c*.py")):
    mod = importlib.import_module(f"props.{p.stem}")
    for g in getattr(mod, "GENERATORS", ()):
        if g not in seen:
            seen.add(g)
            core.run_generators([g], b)
print("generated:", sorted(b.gen_files), "problems:", b.problems)
