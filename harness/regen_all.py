"""Run every property's generators (used by setup.sh)."""
import importlib
import sys
from pathlib import Path

sys.path.insert(0, str(Path(__file__).resolve().parent))
import core  # noqa: E402

b = core.Build()
seen = set()
core.run_generators(core.driver_generators(), b)
for p in sorted((Path(__file__).parent / "props").glob("c*.py")):
    mod = importlib.import_module(f"props.{p.stem}")
    for g in getattr(mod, "GENERATORS", ()):
        if g not in seen:
            seen.add(g)
            core.run_generators([g], b)
print("generated:", sorted(b.gen_files), "problems:", b.problems)

# phase 2 (needs the compiled driver): build it, then run every property's GENERATORS2
import subprocess  # noqa: E402

r = subprocess.run(["lake", "build", "driver"], cwd=core.LEAN, capture_output=True, text=True)
if r.returncode != 0:
    print(r.stdout[-2000:], r.stderr[-2000:])
    sys.exit(1)
seen2 = set()
for p in sorted((Path(__file__).parent / "props").glob("c*.py")):
    mod = importlib.import_module(f"props.{p.stem}")
    for g in getattr(mod, "GENERATORS2", ()):
        if g not in seen2:
            seen2.add(g)
            core.run_generators([g], b)
print("generated (phase 2):", sorted(k for k in b.gen_files if "FFKeys" in k), "problems:", b.problems)
