#!/bin/sh
# usage: harness/try_mutant.sh Cxx <dir with patch.diff, demo.py> [check ids...]
# applies the seeded defect to /repo's working tree, runs the demonstration and the checks, reverts.
set -u
PID=$1; DIR=$2; shift 2
CHECKS=${*:-$PID}
cd /repo || exit 2
if [ -n "$(git status --porcelain)" ]; then echo "/repo not clean"; exit 2; fi
git apply "$DIR/patch.diff" || { echo "patch does not apply"; exit 2; }
trap 'git -C /repo checkout -- . ; git -C /repo status --porcelain' EXIT
echo "== demo on mutated /repo"
(cd "$DIR" && PYTHONPATH=/repo timeout 900 /venv/bin/python demo.py 2>&1 | tail -3; echo "demo exit=$?")
for c in $CHECKS; do
  for s in ${SEEDS:-0}; do
    echo "== ./check $c seed=$s"
    (cd /verif && VERIF_SEED=$s ./check $c 2>&1 | grep -v "^KNOWN-FINDING" | tail -${TAIL:-4} | cut -c1-400)
  done
done
