#!/bin/sh
# usage: harness/regress_mutants.sh [seeded dirs...]   (default: all of seeded/C*)
# For every kept seeded defect: scratch worktree of /repo's HEAD under /tmp, apply its patch, run the check of its
# property against it (VERIF_REPO), print one line, remove the worktree. /repo itself is never touched; evidence and
# replay files of these runs go to /tmp/regress_out (VERIF_EVIDENCE_DIR / VERIF_REPLAYS_DIR), not into /verif.
# SEEDS="0 1 2" runs several seeds per defect (default: 0); PAR=<n> runs n defects at a time (default 1).
# A seeded defect must be reported (exit 1 with a VIOLATION line); "concrete" = with a failing input.
cd /verif || exit 2
LIST=${*:-$(ls -d seeded/C*)}
if [ "${PAR:-1}" -gt 1 ] && [ -z "$REGRESS_CHILD" ]; then
  echo $LIST | tr ' ' '\n' | REGRESS_CHILD=1 xargs -P $PAR -I{} sh harness/regress_mutants.sh {}
  git -C /repo worktree prune
  exit 0
fi
mkdir -p /tmp/regress_out/evidence /tmp/regress_out/replays
export VERIF_EVIDENCE_DIR=/tmp/regress_out/evidence VERIF_REPLAYS_DIR=/tmp/regress_out/replays
for d in $LIST; do
  name=$(basename $d)
  pid=$(echo $name | cut -c1-3)
  wt=/tmp/regress_$name
  git -C /repo worktree add -q --detach $wt HEAD 2>/dev/null || { echo "$name worktree-failed"; continue; }
  if git -C $wt apply /verif/$d/patch.diff 2>/dev/null; then
    for seed in ${SEEDS:-0}; do
    out=$(VERIF_REPO=$wt VERIF_SEED=$seed ./check $pid ${BUILD:---no-build} 2>&1)
    rc=$?
    conc=$(echo "$out" | grep "^VIOLATION" | grep -vc "no-failing-input-found")
    nf=$(echo "$out" | grep "^VIOLATION" | grep -c "no-failing-input-found")
    echo "$name check=$pid seed=$seed exit=$rc concrete=$conc no-failing-input=$nf | $(echo "$out" | grep '^VIOLATION' | grep -v no-failing | head -1 | cut -c1-160)"
    done
  else
    echo "$name patch-does-not-apply (the defect's code was changed by a later fix: commit)"
  fi
  git -C /repo worktree remove --force $wt
done
[ -z "$REGRESS_CHILD" ] && git -C /repo worktree prune
exit 0
