"""Regenerates MANIFEST.json from the table below (run by hand after a property is built)."""
import json
import subprocess
from pathlib import Path

ROOT = Path(__file__).resolve().parent.parent
props = [json.loads(l) for l in (ROOT / "properties.jsonl").read_text().splitlines() if l.strip()]

COMMON_NOTE = (
    "Trusted: Lean 4.33.0 kernel (axioms of every property theorem printed each run, must be within propext/Classical.choice/Quot.sound; "
    "no sorry/native_decide/own axioms); the hand-written model is tied to /repo only by the differential harness, so agreement is "
    "observed on generated inputs, not proved; "
)

CLAIMED = {
    "C03": dict(
        text="Lean theorems about a names-level model of residue.py's atom bookkeeping and of the hydrogen-bond optimisation objects, for EVERY residue, EVERY moved set and EVERY outcome of every hydrogen-bond attempt in any number and order: "
        "a Flip object ends after complete with exactly the names the residue had before (no *FLIP copy left, nothing lost or doubled, and finalize never hits remove_atom's KeyError); an Alcoholic object ends with the original names plus the polar hydrogen once and no LP* "
        "(given 1-3 atoms bonded to the oxygen - shown necessary, and checked at every real finalize); a Water ends with its names plus H1 and H2 once each and no LP*; a protonated carboxyl group (Carboxylic on ASH / GLH: doubled candidates, elimination, renaming, O-swap through the temporary name FLIP) ends with exactly OD1, OD2, HD2 (OE1, OE2, HE2) and everything else untouched, for every construction order and outcome sequence (closure table checked by the kernel, lifted to any residue by a simulation argument); cleanup removes the doubled carboxylic proton exactly when both are present; "
        "one residue through repair_heavy: every heavy atom of the reference present afterwards, every input atom kept or reported deleted, atoms the reference knows always kept, no duplicates; one residue through add_hydrogens: with every placement succeeding no reference hydrogen missing (except HG of a bridged cysteine), nothing removed, only reference hydrogens added; "
        "the COMPOSITION of the stages on one residue (Model/Stages.lean over the apply_patch model and the generated topology): terminus patches; repair_heavy; CYX / pKa-state patches and remove_hydrogens; add_hydrogens - whatever atoms the input residue held, in any order, with any extras, it ends with exactly the atoms of its final run-time reference, each once (stages_exact, stages_exact_norepair), no heavy atom disappears without a report (stages_accounted, early_keeps); the data hypotheses are discharged on this run's topology by kernel-checked tables (stages_exact_on_data); a 230-combination kernel table (runtime_reference_is_named_definition) shows that the reference apply_patch builds at run time has the atoms of the definition Definition.__init__ built at load time under the final state's name, so the residue ends with exactly the atoms of the definition it is named after (stages_reach_named_definition - the link to C02's charge table); "
        "HIS.set_state (the last atom-set change of a run) drops exactly one ring proton of a neutral histidine for every flag combination, keeps both of a doubly protonated one, touches nothing else and names the state its atoms spell (his_state_clean); "
        "found and missing atoms of apply_force_field are together a permutation of all atoms (from C01). Tie: the translator's topology objects against the real Definition, exhaustively (194 definitions, 176 patches: atoms, coordinates, bonds, removals, alternative names, dihedrals); the stage sequence of EVERY residue of every run is replayed in the model on the model's own state (names and reference after every stage must agree, and nothing else may change a residue between those stages); trace replay - every method call on the real Flip/Alcoholic/Water objects and cleanup is logged with the residue's name list before/after, return value, fixed flag and bond count, and replayed in the model. "
        "Oracle on real runs: final names of every fully parameterised residue (no duplicate, no LP*/...FLIP, exactly the atom set of its run-time reference or of the definition its final state is named after, one carboxylic proton); every input heavy atom of a recognised residue kept exactly once unless its deletion was reported; found U missing = all, PQR lines = found.",
        note="partial: the neutral-C-terminus variant of Carboxylic and the retry order inside repair_heavy are covered by the final-state oracle on the runs made, not by theorems; which residue gets which patch is modelled under C02/C06/C13; nucleic-acid strands are synthesised from the NA.xml templates (no deposited structure offline): atom conservation incl. the 5'-phosphate removed by design and --drop-water on one-letter RNA names are exercised on those",
        ref="DESIGN.md §4 C03",
    ),
    "C04": dict(
        text="Lean theorems: for ALL coordinates, torsion values and target angles, Debump.set_dihedral_angle leaves every atom outside the moved set exactly where it was and applies one and the same isometry, fixing both axis atoms, to the moved ones; "
        "if the moved set satisfies the decidable RigidCond, every bond length and 1-3 distance (bond angle) of the residue is unchanged; RigidCond, and 'no backbone atom, OXT, HO, H2, H3 is ever in the moved set', hold by kernel evaluation over the regenerated topology "
        "for 33 base amino-acid definitions x 9 terminus-patch combinations x every torsion, with all atoms and with heavy atoms only; for every definition whatsoever the backbone is never moved. "
        "Kernel-checked over a call model REGENERATED from the AST of the whole package: the functions that assign coordinates of an existing object are exactly ten listed ones; the torsion routine is reachable from non_trivial only under not-assign-only and (debump or opt), from main_driver only under not-clean. "
        "Tie/oracle: run-time write monitor on Atom.x/y/z; at every observed torsion change the real reference, refdistance, moved set and coordinates vs the model; final vs input coordinates of every input heavy atom, bond lengths, 1-3 distances, SG-SG of bridged cysteines, no motion under --clean/--assign-only/--nodebump --noopt; debumping forced by packed waters at every residue type and chain position.",
        note="theorems over the reals (rounding observed <= 1e-12 A); variants met at run time outside the kernel table are evaluated by the compiled model per call; that the hydrogen-placement writers only touch hydrogens is monitored, not proved; the deliberate O/OXT and OD1/OD2 relabelling of protonated carboxyl groups is treated as relabelling, not motion",
        ref="DESIGN.md §4 C04",
    ),
    "C05": dict(
        text="Lean theorems over the reals, for ALL coordinates: an atom placed by find_coordinates lies at its template distance from every fit atom up to that atom's fit residual (| |new-P| - |h-p| | <= |T p - P|); atoms placed by one fit are at exactly their template distance and distinct template points stay distinct; "
        "rotate_tetrahedral keeps every rotated atom's distance to both bond atoms and to the other rotated atoms for every angle, three 120-degree turns or +120/-120 return every atom (the probing rotations move nothing); make_atom_with_no_bonds places the atom exactly 1 A away; "
        "the neighbour pointers behind the template atoms N+1 / C-1 (update_bonds: peptideLink) are set together and exactly for bonded residues when both atoms of the peptide bond exist (peptide_link_spec; refuted when one is missing: known finding); "
        "the third hydrogen of an XH3 group (rebuild_tetrahedral with two present, as repaired by 4b2b694) is for ALL positions of the existing two exactly one slot from the first and at least half a slot from the second (third_hydrogen_clear); "
        "in every variant of the kernel-checked C04 table a torsion change keeps every bond length and bond angle with all atoms present, hydrogens included (added atoms stay attached); "
        "rebuilt heavy atoms (Model/RepairFit.lean: get_nearest_bonds and repair_heavy's choice of the three fit atoms, kernel tables over the regenerated topology): for every amino-acid definition a side chain truncated at any atom, the carbonyl O and every leaf atom are rebuilt from three atoms pairwise within two template bonds, i.e. from a fit that no torsion of the structure can spoil (truncated_rebuild_fits_local, carbonyl_O_and_leaves_fit_local); refuted for an atom missing from the middle of a flexible chain (single_missing_middle_atom_refuted: known finding); every hydrogen placed by the superposition route of add_hydrogens is fitted locally at every chain position when the heavy atoms are complete (hydrogen_fits_local). "
        "Tie/oracle: every observed find_coordinates / rotate_tetrahedral / make_atom_with_no_bonds call vs the Float model (1e-9), the residual inequality evaluated at every observed fit, every observed torsion change checked for all bonded and 1-3 distances, "
        "every pointer pair update_bonds sets vs the model; every observed third-hydrogen placement vs the model (Float); get_nearest_bonds vs the model for every atom of every definition (3 787), the three atoms every observed repair_heavy / add_hydrogens fit used vs the model's fitAtoms, every fit point paired with the atom its template point names (neighbours taken from the chain order), "
        "and on the returned biomolecule every added atom's bond lengths (within the largest fit residual of its residue), bond angles (hydrogens and rebuilt heavy atoms: within input distortion + 20 degrees; groups of three hydrogens 3 degrees) and 0.5 A separation.",
        note="the choice of fit atoms is modelled for repair_heavy and for the superposition route of add_hydrogens; for rebuild_tetrahedral and optimize.py it is read from the monitored calls, not modelled; final-state tolerances are the oracle's reading of 'within the distortion already present'; no nucleic-acid structure offline",
        ref="DESIGN.md §4 C05",
    ),
    "C01": dict(
        text="Lean theorems, for EVERY parameter file / names file / canonical-name list: apply_force_field returns as found exactly the atoms the map answers, each with exactly the map's charge and radius, and as missing exactly the others (nothing defaulted, borrowed, lost, duplicated); "
        "every entry of the final map is field-for-field a row of the parameter file; last row wins; the documented semantics of residue-rename and atom-alias sections; terminus/state naming priorities. "
        "DAT rows, .names sections (Python regexes translated to a Regex AST) and canonical names are regenerated from /repo each run; the six maps the Lean model builds from them are compared with the real Forcefield.map exhaustively, "
        "plus generated parameter/names pairs and end-to-end runs (every atom's assigned parameters, hit/miss and PQR columns vs state naming + lookup).",
        note="translators gen/ff.py, gen/topology.py (cross-checked against the real objects every run); expat/SAX (handler view compared with etree view); '$' before a trailing newline not modelled",
        ref="DESIGN.md §4 C01",
    ),
    "C09": dict(
        text="Lean theorems kernel-checked over a model REGENERATED from the AST of main.py on every run (which function reads which args.<option>, in which expression context; ordered call skeletons): "
        "--whitespace is read only as the test of an if in print_pqr; --keep-chain only as an argument of the line formatter; --include-header only by the header builders; --pdb-output / --apbs-input only by their writers; "
        "--ffout only after the last apply_force_field and charge check; only transform_arguments assigns options; and (from C08) re-spacing changes blanks, never a value. "
        "Oracle: metamorphic real runs - each formatting option toggled alone against the same base options, compared column by column; --drop-water against the input with waters deleted; --neutraln/--neutralc shift against the plain PARSE run.",
        note="reads hidden from the AST: check_options' getattr loop over IGNORED_PROPKA_OPTIONS; run_propka hands the namespace to PROPKA (covered only by runs with propka); translator gen/mainflow.py trusted",
        ref="DESIGN.md §4 C09",
    ),
    "C11": dict(
        text="Lean frame theorem (no axioms): if every run leaves the cells outside a write set W unchanged and its output depends only on its input and on cells outside W, then for EVERY history of runs (successful or failed) the n-th output is that of the same input run alone from the initial state. "
        "The hypothesis is discharged for the current tree by theorems kernel-checked over an inventory REGENERATED from the AST of every module on each run: the only statement inside a function that mutates a long-lived mutable object is the import-time parser registration; "
        "mutable default arguments are never mutated; sets are iterated only in ligand ring/torsion perception; id()/hash() are not used. "
        "Dynamic validation: structural fingerprint of every pdb2pqr module global / class attribute / function default before and after runs (changes must be in the generated write set); A-B-A and A-fail-A histories in one process; fresh processes under PYTHONHASHSEED 0/1/2/random; PQR bytes compared.",
        note="partial by nature: third-party module state (propka, numpy, logging) and aliasing created at run time are invisible to the AST; only the histories and seeds actually run are observed",
        ref="DESIGN.md §4 C11",
    ),
    "C12": dict(
        text="Lean theorems kernel-checked over the regenerated call skeleton of main.py and the inventory of every write-open in the package: the output PQR path is opened for writing in exactly one place (print_pqr); print_pqr is called once, "
        "after every argument check, file lookup, parse, set-up and compute stage, and only the optional PDB/APBS writers follow it; non_trivial never sees the output path; the charge guard precedes naming and line generation; checks come first; "
        "charge_guard_spec (over Q, model run in Float against the real noninteger_charge): a total passes the guard exactly when it is within the tolerance of some integer; repair_gate_spec: is_repairable lets a structure through to repair exactly when something is missing and at most one tenth of the heavy atoms (model compared with the real function on counts around the limit, and with the decision observed in runs on peptides whose missing count straddles the limit). "
        "Oracle: fault injection into EVERY stage of that generated skeleton on the real code x {ValueError, RuntimeError} x output path {absent, pre-existing with sentinel content and mtime}; eleven natural failure triggers; "
        "the request gate (Model/OptionGate.lean = check_files then check_options as main_driver calls them): gate_accepts_iff_usable - for EVERY request the gate lets through exactly the usable ones (every named file exists, a user force field comes with a names file, the built-in force field has its data file, 0 <= pH <= 14, neutral termini with PARSE only) - and its corollaries userff_without_usernames_refused, missing_file_refused, ph_outside_refused, neutral_termini_need_parse; tied EXHAUSTIVELY to the real functions on the 6 048-cell request grid (file options absent/existing/missing x seven --ff values incl. None, lower case and an unknown name x eight pH values incl. +-inf and NaN x the two neutral flags), compared by pass / exception class; refused requests end to end (every refusal in the text of the parser, check_files, check_options x --ff values x path states); "
        "hydrogen-free peptides under --assign-only and CA traces (totals that cannot be integral) must fail and leave the path alone or write an integral total; "
        "success side: C02's structure_total_integral / integral_total_passes_guard (every sequence of fully parameterised amino-acid states has an integral exact total and passes the guard) and, on real runs, side-chain-complete peptides with each residue type forced in turn x six force fields, and PARSE with --neutraln/--neutralc at each residue type (PEOEPB terminal gaps, PARSE neutral C-terminal PRO and the non-raising is_repairable are known findings).",
        note="the OS is not modelled (a crash inside write() leaves a partial file); success for ALL sequences is checked on the windows run, not proved by a kernel table",
        ref="DESIGN.md §4 C12",
    ),
    "C16": dict(
        text="Lean theorems: for EVERY electronegativity function, normaliser, damping, non-zero scaling and positive cycle count, and every molecule with symmetric neighbour lists, PEOE-equilibrated charges sum to the sum of formal charges (over Q); "
        "relabelling the atoms and re-ordering the bond records only permutes the charges produced by the cycles (equivariance, over Q); the neighbour lists the MOL2 reader builds from any bond list are symmetric; radii tables positive (kernel-checked on regenerated tables) and looked up type-then-element, primary-then-secondary; the ligand transfer hits exactly name-matching HETATM-prefix atoms of non-water residues; "
        "partial 'ligand only' theorem + refutation witness of full strength (name clash with a second hetero group: known finding). Tie: real Mol2Molecule.read/assign_parameters vs the model in Float with regenerated tables (formal charges exact, charges 1e-9, radii exact), real main_driver --ligand vs ligandTransfer.",
        note="float summation order / pow compared at 1e-9; equivariance is proved for the charge cycles given corresponding formal charges - the formal charges themselves (phosphate correction picks the first terminal oxygen) are order-dependent between equivalent oxygens by design and are covered by the oracle on permuted molecules",
        ref="DESIGN.md §4 C16",
    ),
    "C13": dict(
        text="Lean theorems about a model of update_ss_bridges (the nested dictionary loops, numpartners==1 rule): two sulfurs close to each other and to no third one become each other's single partner whatever their position in the residue list and whatever else is in the structure; "
        "a sulfur with nothing in range is untouched (keeps HG, CYS parameters); the outcome of an isolated pair is invariant under every permutation of the residue list; the geometric test is symmetric; the limit regenerated from config.py is 2.5. "
        "Model tied to the real pipeline on fragments placed rigidly at controlled SG-SG distances (typical, just inside/outside the limit, far, third sulfur, both file orders, same/different chains).",
        note="float norm within 1e-6 of the limit not modelled; coordinates with three decimals so squared distances are exact",
        ref="DESIGN.md §4 C13",
    ),
    "C02": dict(
        text="Lean theorems about a names-level model of assign_termini / set_termini (hidden-chain loop included) and the specification formalCharge: a cyclic chain gets no termini - also when waters / hetero groups of the same chain follow the peptide (cyclic_through_trailing: the ring closes on the last amino residue, looked through exactly as for the C-terminus; repaired in /repo df57431); only flags and patch lists change; "
        "in every peptide chain exactly the first residue gets one N-terminus patch and exactly the last one C-terminus patch with everything in between untouched; trailing waters/hetero groups are looked through; "
        "with no hidden chain end set_termini is chain-wise (chain ids, numbering, order irrelevant); a neutral N-terminus shifts the formal charge by exactly -1; formal charges lie in [-2,2]; "
        "charge_table (kernel, regenerated data): for each of the six force fields and every amino-acid state x chain position it parameterises completely, the exact integer sum of the state's charges is the formal charge its name stands for; structure_total_integral: hence for EVERY sequence of such states (any length, composition, order) the exact total is the sum of the formal charges, and integral_total_passes_guard: such a total passes the total-charge guard for every tolerance. "
        "NUCLEIC ACIDS (Model/NucCharge.lean): nucleotide_table (kernel, regenerated NA.xml / PATCHES.xml / final force-field maps; the atoms of a nucleotide are its run-time reference = base definition + 5TERM / 3TERM through the same applyPatch as C03's stage model): in every force field, for DNA and for RNA, each parameterised middle nucleotide sums exactly to -1 e and each 5' end with each 3' end to -1 e; strand_minus_one_per_phosphate: hence EVERY strand with free ends (any length >= 2, any base sequence) of one sugar kind carries exactly -1 e per phosphate; five_end_has_no_phosphate; nucleotide_runtime_is_named_definition (24 cells: the run-time reference has the atoms of the load-time definition under the look-up name - false before the DT5 repair); nucleotide_table_coverage (DNA/RNA cells per force field - this count exposed the DT5 defect repaired in /repo 2d5aba7); chimeric_strand_refuted (DNA 5' end + RNA 3' end: -0.9998 e, known finding). "
        "Ties: the real set_termini on generated chain layouts (blank chains, internal OXT, trailing hetero residues, the cyclic test peptide, neutral flags) vs the model, flags and patch lists of every residue; "
        "end to end residue.charge of every fully parameterised residue vs formalCharge evaluated by the driver, total = sum, PQR charge column = total; synthesised DNA / RNA strands (every base at 5', middle, 3' x every force field that defines them; full and one-letter residue names; with waters / a peptide chain): atoms of every nucleotide = the model's run-time reference, look-up name, strand total = -(residues - 1), waters neutral; the test suite's head-to-tail cyclic peptide with waters after it (same / other chain, HETATM / ATOM records, TER, --drop-water): no termini; peptide segments whose ends the FILE delimits (TER / chain id, blank or lettered ids, with/without trailing TER and OXT): first residue +1, last -1 on top of the side chain.",
        note="the cyclic test enters the model as an oracle bit logged from the real call; charge table: kernel-checked for amino-acid states over the regenerated topology and the regenerated final force-field maps (516 fully parameterised cells; N-terminal proline excluded - checked on runs; PARSE neutral C-terminal proline refuted: known finding under C12); that a residue's final atoms are those of the definition it is named after is C03's stages_reach_named_definition (up to add_hydrogens), chained with this table by reading, not by a third theorem; nucleotides: separate kernel table per strand (no deposited nucleic-acid structure offline: strands synthesised from NA.xml templates, residues 12 A apart)",
        ref="DESIGN.md §4 C02",
    ),
    "C06": dict(
        text="Lean theorems about a model of apply_pka_values (per-residue decision tree) and of the pKa dictionary main.non_trivial builds: kernel-checked over the regenerated force-field tables, every state the tree applies "
        "(all six force fields x seven titratable types x N/internal/C x both sides of the pKa, and the termini for all twenty residue types) is a residue of the final force-field map under its look-up name, so no residue is dropped by titration; "
        "at most one decision per group; over any linear order of pH/pKa values the formal charge left on a group, on the termini and on any set of groups is antitone in pH; side-chain rows reach their group's key. "
        "Full strength refuted in one respect (witness theorem + known finding): the N+/C- rows never reach the tree. Tie: EXHAUSTIVE differential execution of the real apply_pka_values over its discrete inputs (6240 cells) and of the dictionary on supplied tables. "
        "Oracle: real runs with main.run_propka replaced by a supplied table; support decided by independent reference runs with the state pre-named in the input.",
        note="PROPKA is an input (not verified); residue-level support in the kernel theorem, atom-level support by the oracle on real runs; model hand-written (the DESIGN's AST translator was replaced by the exhaustive tie)",
        ref="DESIGN.md §4 C06",
    ),
    "C07": dict(
        text="Lean theorems about a model of read_pdb + Biomolecule.__init__ + residue constructors + drop_water: no ATOM/HETATM line skipped whatever surrounds it, "
        "trailing-column cuts parse identically, grouping is a permutation of the first model's atoms for every placement of TER/END/MODEL/other records, "
        "first altloc wins, drop_water removes exactly the waters; records without a chain identifier (round 4): one TER is enough for the chain pre-count (one_ter_is_enough), a blank non-water record is filed under the letter at position (number of TER records before it) of the 62-letter alphabet, a TER advances that position and nothing else (blank_record_chain_letter, ter_advances_letter), and two blank records taken in at different TER counts never share a chain (blank_records_separated). Full strength on the repaired tree (five fix: commits). Model tied to code by differential runs on generated PDB texts (incl. blank-chain TER layouts: one TER and none at the end, TER after every chain; residue names that are fragments of the water names, e.g. the nucleotides A and T).",
        note="records other than ATOM/HETATM/TER/END/MODEL modelled as no-ops; atom-name aliases not modelled (generator avoids two spellings of one atom); universal-newline decoding trusted",
        ref="DESIGN.md §4 C07",
    ),
    "C08": dict(
        text="Lean theorems about a model of the PQR writer and both readers: round trip by fixed columns under Fits, round trip through pdb2pqr's own token reader under FitsWs, constant line length; "
        "full strength refuted by twelve kernel-checked witnesses (truncation/merge classes) that are replayed on the real code and listed as known findings. Model tied to code by differential runs.",
        note="float formatting modelled as exact half-even decimal rounding of the binary value (harness computes it with decimal); ASCII-only split/strip; int()/float() grammar without underscores",
        ref="DESIGN.md §4 C08",
    ),
    "C10": dict(
        text="Lean theorems about a model of cif.atom_site: for every row expressible in both formats the assembled text IS the standard PDB line of the same fields (no column shift from altloc, "
        "insertion code, 4-character names, missing-value markers, 8-character coordinates), hence pdb.ATOM reads the same record; the record equals the row's own values; with several models "
        "exactly the rows of the first model number reach Biomolecule. Full strength on the repaired tree (four fix: commits). Model fed with the rows mmcif-pdbx delivers and compared with the real read_cif + Biomolecule; "
        "oracle = one abstract structure written as PDB and mmCIF by the harness's own writers and read by the real code, plus end-to-end PQRs on a sample. model_interleaving_irrelevant (round 5): two atom_site loops with the same first model number and the same sequence of first-model rows give Biomolecule the same atoms however the rows of the other models are interleaved (row order has no meaning in an mmCIF loop); the generator writes multi-model entries model by model, polymer first, and models interleaved residue by residue.",
        note="only the installed mmcif-pdbx 2.1.0 can be exercised ('any supported version' is partial); header categories are taken from a template (a CIF without them crashes read_cif: outside the generated domain)",
        ref="DESIGN.md §4 C10",
    ),
    "C14": dict(
        text="Lean theorems about a model of cells.py: for every rational coordinate (negative, zero, on a boundary, far away) the key arithmetic puts it into a contiguous interval of width <= s whose lower end is a multiple of s; "
        "coordinates closer than the cell size land in the same or an adjacent cell; under the bookkeeping invariant every other registered atom in an adjacent cell is returned by the 27-cell query; "
        "the invariant holds after EVERY sequence of protocol-obeying place / remove / move operations; after every such history the query is EXACT (near_exact: b is returned iff b is another registered atom of an adjacent cell; near_nodup: nothing is returned twice; "
        "near_in_range: two registered atoms closer than the cell size along every axis find each other, for any rational coordinates). Model tied to the real Cells by random operation sequences (incl. protocol-violating ones). "
        "The end-to-end claim additionally needs the callers to obey the protocol: monitored on real runs (every neighbour query compared with brute force over the live structure: lost, ghost and doubly returned neighbours); the call sites that break it are genuine defects listed as known findings. The callers' clause (round 4): near_within_cutoff - a caller whose distance filter r does not exceed the cell size loses no registered atom closer than r (squared Euclidean distance over Q), cutoff_beyond_cell_size_refuted - with r beyond the cell size atoms are lost (4 A apart in a 2 A list); the run-time monitor compares every real neighbour query at the distance its CALLER filters with (read from the caller's source text), also on --noopt runs with waters in hydrogen-bond range.",
        note="partial by nature: caller discipline is monitored on runs, not proved for all structures; int() truncation supplied by the driver",
        ref="DESIGN.md §4 C14",
    ),
    "C15": dict(
        text="Lean theorems over the reals about a model of quatfit.py / utilities.py written once over an arithmetic interface: a unit quaternion gives an isometry that preserves cross products (proper rotation, never a mirror image); "
        "the torsion matrix is an isometry fixing the axis for every angle; qchichange keeps all distances among moved points and to every point of the axis; the Jacobi eigenvector matrix stays orthogonal after ANY number of sweeps, "
        "so find_coordinates always applies a proper rigid motion (placed-atom distances equal template distances); Horn's identity; exactness: if the structure is a proper rigid image of the template and the quaternion maximises the quadratic form, every template point is mapped onto its image; the requested torsion: turning the moved atom about the axis by diff degrees turns the pair (cosine, sine) that utilities.dihedral computes by diff (torsion_rotates), the value dihedral returns has that cosine and sine (dihedral_value), so set_dihedral_angle leaves the torsion at the requested angle (torsion_set) and after ANY number of successive changes through the re-measured cache at the last requested angle (torsion_sequence). "
        "The same definitions run in Float in the driver: every sampled find_coordinates answer is bit-identical to CPython. Oracle: the property's tolerances (1e-6 A, 0.05 degrees) on the real routines incl. set_dihedral_angle and rotate_tetrahedral on real residues.",
        note="not proved, validated numerically on every sample: that 30 Jacobi sweeps reach the maximiser; floating-point rounding; requested angles within 0.03 degrees of 0 or 180 (where utilities.dihedral snaps its result). Partial on exactly those.",
        ref="DESIGN.md §4 C15",
    ),
    "C17": dict(
        text="Lean theorems about a model of psize: every grid dimension is 32k+1 with k>=1 for every input and arithmetic; over Q the boxes are centred, enclose the extent and fine<=coarse (cfac>=1, fadd>=0); "
        "the extent covers every parsed atom sphere; memory formula and dime line; input file names the PQR; header lines ignored (after fix); line parser exact on writer output under the separation predicate, "
        "full strength refuted by witnesses (merged columns) listed as known findings. Arithmetic executed in Float bit-for-bit against CPython for the tie.",
        note="IEEE rounding not modelled in the theorems (Q); set_smallest/set_proc_grid/set_focus not modelled; partial on floating point",
        ref="DESIGN.md §4 C17",
    ),
    "C18": dict(
        text="Lean theorems about a model of read_dx/write_cube: for every n the re-tokenised value section is the formatted values in order (none lost/merged/reordered), six per line but the last, "
        "header layout with negated counts, reader collects exactly the float tokens of data lines whatever lines are interleaved, and the DX->cube token round trip. Model tied to code by differential runs.",
        note="format(v,'>11.6f') / format(v,'< 13.5E') are parameters of the model (any printer producing one whitespace-free token); the harness checks shape and value with decimal",
        ref="DESIGN.md §4 C18",
    ),
}

REASON_PENDING = "check under construction in this session; not claimed until its model, theorems and tie are committed"


def main():
    HOLD = set()  # built, proofs in progress
    claimed = [p["id"] for p in props if p["id"] in CLAIMED and p["id"] not in HOLD and (ROOT / "harness" / "props" / f"{p['id'].lower()}.py").exists()]
    m = {
        "version": 1,
        "setup_cmd": "./setup.sh",
        "hooks": {
            "guard": "PDB2PQR_VERIF",
            "enable": "no source hooks: the harness wraps classes from outside the repository; nothing to enable",
            "baseline_off_cmd": "cd /repo && /venv/bin/python -m pytest -ra -q -p no:cacheprovider --timeout=900 --continue-on-collection-errors",
            "source_commits": [],
            "add_only": True,
        },
        "engines": [
            {
                "name": "lean+harness",
                "path": "lean/ harness/",
                "serves_properties": claimed,
                "kind_free_text": "Lean 4 models and theorems (lean/), tied to /repo by a Python differential harness (harness/) through a native line-protocol driver",
            }
        ],
        "checks": [],
        "not_applicable": [],
        "notes": "see DESIGN.md; genuine defects repaired by fix: commits in /repo and the remaining ones are in known_findings.txt",
    }
    for p in props:
        pid = p["id"]
        if pid in claimed:
            c = CLAIMED[pid]
            m["checks"].append(
                {
                    "property_id": pid,
                    "quick_cmd": f"./check {pid} --tier quick",
                    "thorough_cmd": f"./check {pid} --tier thorough",
                    "evidence_file": f"evidence/{pid}.json",
                    "replay_cmd_template": f"./check {pid} --replay {{path}}",
                    "engine": "lean+harness",
                    "level_claimed": {"category": "proof", "text": c["text"], "design_ref": c["ref"]},
                    "level_note": COMMON_NOTE + c["note"],
                    "technique": "Lean 4 machine-checked proof + model/implementation correspondence check",
                }
            )
        else:
            m["not_applicable"].append({"property_id": pid, "reason": REASON_PENDING})
    (ROOT / "MANIFEST.json").write_text(json.dumps(m, indent=1))
    print("claimed:", claimed)


if __name__ == "__main__":
    main()
