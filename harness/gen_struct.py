"""Structure generator (inputs only, never an oracle) and in-process pipeline runner.

Windows of consecutive residues are cut out of the offline PDB files (real local geometry, every
residue type at every chain position) and composed with rigid motions, chain splitting,
renumbering, pre-named states, atom deletions, waters, etc."""

from __future__ import annotations

import logging
import math
import os
import random
import tempfile
from pathlib import Path

from core import REPO

DATA = REPO / "tests" / "data"
AA3 = ["ALA", "ARG", "ASN", "ASP", "CYS", "GLN", "GLU", "GLY", "HIS", "ILE", "LEU", "LYS", "MET", "PHE", "PRO", "SER", "THR", "TRP", "TYR", "VAL"]
BACKBONE = ["N", "CA", "C", "O"]
_pool = None


class Atom:
    __slots__ = ("het", "name", "alt", "resn", "chain", "resseq", "ins", "x", "y", "z", "occ", "b", "elem", "tail")

    def __init__(self, line: str):
        self.het = line.startswith("HETATM")
        self.name = line[12:16].strip()
        self.alt = line[16]
        self.resn = line[17:20].strip()
        self.chain = line[21]
        self.resseq = int(line[22:26])
        self.ins = line[26]
        self.x, self.y, self.z = float(line[30:38]), float(line[38:46]), float(line[46:54])
        self.occ = line[54:60].strip() or "1.00"
        self.b = line[60:66].strip() or "0.00"
        self.elem = line[76:78].strip() if len(line) >= 78 else ""

    def copy(self):
        a = Atom.__new__(Atom)
        for s in Atom.__slots__:
            if hasattr(self, s):
                setattr(a, s, getattr(self, s))
        return a

    def line(self, serial):
        name = self.name if len(self.name) == 4 else " " + self.name.ljust(3)
        return (
            f"{'HETATM' if self.het else 'ATOM  '}{serial:5d} {name}{self.alt}{self.resn:>3} {self.chain}{self.resseq:4d}{self.ins}   "
            f"{self.x:8.3f}{self.y:8.3f}{self.z:8.3f}{self.occ:>6}{self.b:>6}          {self.elem:>2}"
        )


def pool():
    """{file: [residue = [Atom,…]]} for protein residues (first conformer only), plus waters"""
    global _pool
    if _pool is None:
        _pool = {}
        for p in sorted(DATA.glob("*.pdb")):
            residues, cur, key = [], [], None
            for line in p.read_text().splitlines():
                if line.startswith("ENDMDL"):
                    break
                if line.startswith(("ATOM  ", "HETATM")) and len(line) >= 54:
                    if line[16] not in " A":
                        continue
                    a = Atom(line)
                    a.alt = " "
                    k = (a.chain, a.resseq, a.ins)
                    if k != key and cur:
                        residues.append(cur)
                        cur = []
                    key = k
                    cur.append(a)
            if cur:
                residues.append(cur)
            _pool[p.name] = residues
    return _pool


def is_protein(res):
    return res[0].resn in AA3 and not res[0].het


def complete(res):
    names = {a.name for a in res}
    return all(b in names for b in BACKBONE)


_segments = None


def segments():
    """maximal runs of consecutive complete protein residues of one chain: (file, [residues])"""
    global _segments
    if _segments is None:
        _segments = []
        for f, residues in pool().items():
            run = []
            for r in residues:
                ok = is_protein(r) and complete(r)
                if ok and run and (r[0].chain != run[-1][0].chain or not bonded(run[-1], r)):
                    if len(run) >= 2:
                        _segments.append((f, run))
                    run = []
                if ok:
                    run.append(r)
                else:
                    if len(run) >= 2:
                        _segments.append((f, run))
                    run = []
            if len(run) >= 2:
                _segments.append((f, run))
    return _segments


def bonded(r1, r2):
    c = next((a for a in r1 if a.name == "C"), None)
    n = next((a for a in r2 if a.name == "N"), None)
    if c is None or n is None:
        return False
    return math.dist((c.x, c.y, c.z), (n.x, n.y, n.z)) < 1.7


def window(rng: random.Random, nres=None, must_have=None, strip_h=True):
    """a list of residues (deep copies) forming a contiguous peptide; `must_have`: residue name
    that must occur (position free)"""
    segs = segments()
    for _ in range(200):
        f, run = rng.choice(segs)
        n = nres or rng.choice([2, 3, 4, 5, 6, 8, 12])
        n = min(n, len(run))
        if must_have:
            idx = [i for i, r in enumerate(run) if r[0].resn == must_have]
            if not idx:
                continue
            i = rng.choice(idx)
            pos = rng.choice(["first", "mid", "last"])
            if pos == "first":
                start = i
            elif pos == "last":
                start = i - n + 1
            else:
                start = i - rng.randint(1, max(1, n - 2))
            start = max(0, min(start, len(run) - n))
            if not (start <= i < start + n):
                continue
        else:
            start = rng.randrange(0, len(run) - n + 1)
        res = [[a.copy() for a in r if not (strip_h and (a.elem == "H" or a.name[0] == "H" or (a.name[0].isdigit() and a.name[1:2] == "H")))] for r in run[start : start + n]]
        return f, res
    raise RuntimeError("no window")


def rotation(rng):
    """random proper rotation matrix from a unit quaternion"""
    q = [rng.gauss(0, 1) for _ in range(4)]
    n = math.sqrt(sum(x * x for x in q))
    a, b, c, d = (x / n for x in q)
    return [
        [a * a + b * b - c * c - d * d, 2 * (b * c - a * d), 2 * (b * d + a * c)],
        [2 * (b * c + a * d), a * a - b * b + c * c - d * d, 2 * (c * d - a * b)],
        [2 * (b * d - a * c), 2 * (c * d + a * b), a * a - b * b - c * c + d * d],
    ]


def rigid(residues, R, t):
    for r in residues:
        for a in r:
            x, y, z = a.x, a.y, a.z
            a.x = R[0][0] * x + R[0][1] * y + R[0][2] * z + t[0]
            a.y = R[1][0] * x + R[1][1] * y + R[1][2] * z + t[1]
            a.z = R[2][0] * x + R[2][1] * y + R[2][2] * z + t[2]


def set_chain(residues, chain, start=1, step=1):
    for i, r in enumerate(residues):
        for a in r:
            a.chain = chain
            a.resseq = start + i * step
            a.ins = " "


def to_pdb(chains, waters=(), ter=True, end=True):
    """chains: list of residue lists. Serial numbers are assigned here."""
    lines = []
    serial = 1
    for ch in chains:
        for r in ch:
            for a in r:
                lines.append(a.line(serial))
                serial += 1
        if ter:
            lines.append("TER")
    for w in waters:
        for a in w:
            lines.append(a.line(serial))
            serial += 1
    if end:
        lines.append("END")
    return "\n".join(lines) + "\n"


def water(rng, chain="A", resseq=500, center=(0, 0, 0), spread=15.0, name="HOH", record="HETATM"):
    """one water oxygen; `record` = "HETATM" (deposited files) or "ATOM  " (MD tool chains write waters so)"""
    l = f"{record}    1  O   {name} {chain}{resseq:4d}    {center[0] + rng.uniform(-spread, spread):8.3f}{center[1] + rng.uniform(-spread, spread):8.3f}{center[2] + rng.uniform(-spread, spread):8.3f}  1.00 20.00           O"
    return [Atom(l)]


def centroid(residues):
    pts = [(a.x, a.y, a.z) for r in residues for a in r]
    n = len(pts)
    return tuple(sum(p[i] for p in pts) / n for i in range(3))


# ------------------------------------------------------------------ pipeline


def quiet():
    logging.getLogger("pdb2pqr").setLevel(logging.CRITICAL)
    logging.getLogger().setLevel(logging.CRITICAL)
    logging.disable(logging.CRITICAL)


class Run:
    def __init__(self):
        self.status = "ok"
        self.exc = None
        self.pqr = None
        self.biomolecule = None
        self.missed = None
        self.pka_df = None
        self.extra_files = {}
        self.args = None


def run_pipeline(pdb_text: str, options: list[str], suffix=".pdb", extra_inputs=None, keep_dir=False) -> Run:
    """real main_driver in-process on a temporary directory"""
    from pdb2pqr.main import build_main_parser, main_driver

    quiet()
    r = Run()
    d = tempfile.mkdtemp(prefix="p2p_")
    inp, out = os.path.join(d, "in" + suffix), os.path.join(d, "out.pqr")
    with open(inp, "w") as f:
        f.write(pdb_text)
    opts = []
    for k, v in (extra_inputs or {}).items():
        with open(os.path.join(d, k), "w") as f:
            f.write(v)
    for o in options:
        opts.append(o.replace("@DIR@", d))
    try:
        try:
            args = build_main_parser().parse_args([*opts, "--log-level=CRITICAL", inp, out])
        except SystemExit as e:
            r.status, r.exc = "argparse", e
            return r
        r.args = args
        try:
            missed, pka_df, bio = main_driver(args)
            r.missed, r.pka_df, r.biomolecule = missed, pka_df, bio
        except Exception as e:  # noqa: BLE001
            r.status, r.exc = type(e).__name__, e
        if os.path.exists(out):
            r.pqr = open(out).read()
        for fn in os.listdir(d):
            if fn not in ("in" + suffix, "out.pqr") and fn not in (extra_inputs or {}):
                try:
                    r.extra_files[fn] = open(os.path.join(d, fn)).read()
                except Exception:  # noqa: BLE001
                    pass
    finally:
        if not keep_dir:
            for fn in os.listdir(d):
                os.unlink(os.path.join(d, fn))
            os.rmdir(d)
    return r


def residue_info(res):
    """what the state model needs from a residue object after the run"""
    from pdb2pqr import aa, na

    cls = type(res).__name__
    return {
        "cls": cls,
        "name": res.name,
        "patches": list(getattr(res, "patches", []) or []),
        "n": bool(getattr(res, "is_n_term", 0)),
        "c": bool(getattr(res, "is_c_term", 0)),
        "5": bool(getattr(res, "is5term", 0)),
        "3": bool(getattr(res, "is3term", 0)),
        "ss": bool(getattr(res, "ss_bonded", 0)),
        "atoms": [a.name for a in res.atoms],
        "ffname": getattr(res, "ffname", None),
        "is_amino": isinstance(res, aa.Amino),
        "is_nucleic": isinstance(res, na.Nucleic),
        "is_water": isinstance(res, aa.WAT),
    }


def pqr_atoms(pqr_text: str):
    """token lists of the atom lines of a whitespace PQR"""
    return [l.split() for l in pqr_text.splitlines() if l.startswith(("ATOM", "HETATM"))]


# ------------------------------------------------------------ nucleic acids (synthesised: no structure offline)

DNA = ["DA", "DC", "DG", "DT"]
RNA = ["RA", "RC", "RG", "RU"]
_defs = None


def definitions():
    global _defs
    if _defs is None:
        from pdb2pqr import io as pio

        _defs = pio.get_definitions()
    return _defs


def nucleotide(base: str, chain="A", resseq=1, shift=(0.0, 0.0, 0.0), resname=None, hydrogens=False, record="ATOM  "):
    """one nucleotide from its NA.xml template (heavy atoms unless `hydrogens`), translated by `shift`;
    `resname` is the name written into the file (DA…; A/C/G/U for RNA as deposited files write it)"""
    ref = definitions().map[base]
    rn = resname or base
    out = []
    for an, a in ref.map.items():
        if an.startswith("H") and not hydrogens:
            continue
        nm = an if len(an) == 4 else " " + an.ljust(3)
        l = f"{record}{1:5d} {nm} {rn:>3} {chain}{resseq:4d}    {a.x + shift[0]:8.3f}{a.y + shift[1]:8.3f}{a.z + shift[2]:8.3f}  1.00  0.00          {an[0]:>2}"
        out.append(Atom(l))
    return out


def strand(rng: random.Random, kind=None, n=None, chain="A", start=1, origin=(0.0, 0.0, 0.0), naming=None, bases=None):
    """a strand with free ends: residues placed 12 Å apart along x (pdb2pqr needs no inter-residue geometry for nucleic
    acids: hydrogens are placed from intra-residue atoms). Returns (residues, base names)."""
    kind = kind or rng.choice("DR")
    alphabet = DNA if kind == "D" else RNA
    n = n or rng.randint(2, 6)
    bases = bases or [rng.choice(alphabet) for _ in range(n)]
    naming = naming or ("full" if kind == "D" else rng.choice(["full", "one-letter"]))
    res = []
    for i, b in enumerate(bases):
        rn = b[1] if (naming == "one-letter" and b in RNA) else b
        res.append(nucleotide(b, chain, start + i, (origin[0] + 12.0 * i, origin[1], origin[2]), resname=rn))
    return res, bases
