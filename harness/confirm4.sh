#!/bin/sh
# usage: harness/confirm4.sh Cxx   — confirm a round-4 seeded defect (worktree /tmp/mut4r/Cxx, deliverables /tmp/mut4r/Cxx-out):
# demonstration on the changed and the unchanged tree, pinned test-suite in the worktree, the property's check against the worktree
id=$1; WT=/tmp/mut4r/$id; OUT=/tmp/mut4r/$id-out
echo "== patch applies to /repo HEAD? $(git -C $WT diff --stat | tail -1)"
echo "== demo on changed tree"; (cd $OUT && PYTHONPATH=$WT timeout 900 /venv/bin/python demo.py 2>&1 | tail -2 | cut -c1-300; echo "exit=$?")
echo "== demo on unchanged tree"; (cd $OUT && PYTHONPATH=/repo timeout 900 /venv/bin/python demo.py 2>&1 | tail -1 | cut -c1-300)
echo "== pinned tests in worktree"; sh /verif/harness/baseline_at.sh $WT
for s in ${SEEDS:-0}; do
echo "== check $id seed=$s against worktree"; (cd /verif && VERIF_REPO=$WT VERIF_SEED=$s ./check $id --no-build 2>&1 | grep -v "^KNOWN-FINDING" | tail -${TAIL:-5} | cut -c1-500)
done
