#!/bin/sh
# usage: harness/keep_mutant.sh Cxx [name]   — archive /tmp/mut/Cxx-out as /verif/seeded/<name or Cxx>/
pid=$1; name=${2:-$1}; src=${MUTROOT:-/tmp/mut}/$pid-out; dst=/verif/seeded/$name
mkdir -p $dst/demonstration; cp $src/patch.diff $src/meta.json $dst/
for f in $src/*; do b=$(basename $f); case $b in patch.diff|meta.json|before*|after*|tests_*|work|*.xml|*.log|*.list|exp*.py|__pycache__) ;; *) [ -f $f ] && [ $(stat -c %s $f) -lt 600000 ] && cp $f $dst/demonstration/ ;; esac; done
ls $dst $dst/demonstration
