#!/bin/sh
# run the pinned test-suite inside a scratch worktree (a seeded defect applied there) and compare with BASELINE.json
D=$1; OUT=/tmp/baseline_$(basename $D).xml
cd $D && PYTHONPATH=$D /venv/bin/python -m pytest -ra -q -p no:cacheprovider --timeout=900 --continue-on-collection-errors --junitxml=$OUT >/tmp/baseline_$(basename $D).log 2>&1
/venv/bin/python - "$OUT" <<'PY'
import json,sys,xml.etree.ElementTree as ET
base=set(json.load(open('/root/.vp/BASELINE.json'))['stable_pass'])
t=ET.parse(sys.argv[1]).getroot()
passed=set()
for tc in t.iter('testcase'):
    if not any(c.tag in ('failure','error','skipped') for c in tc):
        passed.add(f"{tc.get('classname')}::{tc.get('name')}")
missing=sorted(base-passed)
print(sys.argv[1],"baseline stable_pass:",len(base),"passed now:",len(passed&base),"missing:",missing[:10])
PY
