"""Shared machinery for every check: build + audit of the Lean side, the driver
line protocol, verdict logic (violations / known findings / broken ties),
replay files and evidence files.  Runs under /venv/bin/python (so that the real
pdb2pqr, editable-installed from /repo, is importable in-process)."""

from __future__ import annotations

import fcntl
import hashlib
import json
import os
import random
import re
import subprocess
import sys
import time
from pathlib import Path

ROOT = Path(__file__).resolve().parent.parent
LEAN = ROOT / "lean"
REPO = Path(os.environ.get("VERIF_REPO", "/repo"))
# runs against scratch worktrees (seeded defects) must not overwrite the evidence / replays of the registered checks:
# harness/regress_mutants.sh points these two somewhere else
EVID = Path(os.environ.get("VERIF_EVIDENCE_DIR") or ROOT / "evidence")
REPLAYS = Path(os.environ.get("VERIF_REPLAYS_DIR") or ROOT / "replays")
CORPUS = ROOT / "corpus"
KNOWN = ROOT / "known_findings.txt"
ALLOWED_AXIOMS = {"propext", "Classical.choice", "Quot.sound"}
FORBIDDEN = re.compile(
    r"\bsorry\b|\badmit\b|^\s*axiom\s|native_decide|bv_decide|implemented_by|\bunsafe\s|maxHeartbeats\s+0\b",
    re.M,
)

if str(ROOT) not in sys.path:
    sys.path.insert(0, str(ROOT))

# make /repo importable even if the editable install is missing
if str(REPO) not in sys.path:
    sys.path.insert(0, str(REPO))


def hexs(s: str) -> str:
    """hex transport of a (Latin-1 range) string"""
    return "".join(f"{ord(c) & 0xFF:02x}" for c in s)


def unhexs(h: str) -> str:
    return "".join(chr(int(h[i : i + 2], 16)) for i in range(0, len(h), 2))


class Build:
    """Result of regenerate + build + audit for one property."""

    def __init__(self):
        self.ok = True
        self.problems: list[str] = []  # names of theorems / steps that no longer check
        self.obligations = 0
        self.discharged = 0
        self.axioms: dict[str, list[str]] = {}
        self.theorems: list[str] = []
        self.gen_files: dict[str, str] = {}
        self.log = ""
        self.wall = 0.0
        self.notes: list[str] = []


def strip_comments(src: str) -> str:
    # remove nested block comments and line comments
    out = []
    i, depth, n = 0, 0, len(src)
    while i < n:
        if src.startswith("/-", i):
            depth += 1
            i += 2
        elif depth and src.startswith("-/", i):
            depth -= 1
            i += 2
        elif depth:
            i += 1
        elif src.startswith("--", i):
            j = src.find("\n", i)
            i = n if j < 0 else j
        else:
            out.append(src[i])
            i += 1
    return "".join(out)


def import_cone(mod: str, seen=None) -> list[str]:
    seen = seen if seen is not None else []
    if mod in seen:
        return seen
    p = LEAN / (mod.replace(".", "/") + ".lean")
    if not p.exists():
        return seen
    seen.append(mod)
    for m in re.findall(r"^import\s+(P2P\.[\w.]+)", p.read_text(), re.M):
        import_cone(m, seen)
    return seen


DECL = re.compile(r"^\s*(?:@\[[^\]]*\]\s*)*(?:private\s+|protected\s+)?(theorem|lemma|example)\b\s*([\w.'₀-₉]*)", re.M)


def lean_lock():
    (LEAN / ".lock").touch(exist_ok=True)
    f = open(LEAN / ".lock", "w")
    fcntl.flock(f, fcntl.LOCK_EX)
    return f


def run_generators(gens, build: Build):
    """gens: list of callables returning {relative lean path: content}. Files are
    rewritten only when changed."""
    for g in gens:
        try:
            files = g()
        except Exception as e:  # translator met source outside its subset
            build.ok = False
            build.problems.append(f"translator:{getattr(g, '__name__', g)}: {type(e).__name__}: {e}")
            continue
        for rel, content in files.items():
            p = LEAN / rel
            p.parent.mkdir(parents=True, exist_ok=True)
            if not p.exists() or p.read_text() != content:
                p.write_text(content)
            build.gen_files[rel] = hashlib.sha256(content.encode()).hexdigest()[:16]


def driver_generators():
    import gen.consts
    import gen.ff
    import gen.ligand
    import gen.topology

    return [gen.topology.generate, gen.ff.generate, gen.consts.generate, gen.ligand.generate]


def build_and_audit(pid: str, gens=(), extra_targets=(), gens2=()) -> Build:
    """Regenerate Gen files, build the driver + Props module, audit axioms."""
    b = Build()
    t0 = time.time()
    lock = lean_lock()
    try:
        run_generators(gens, b)
        # the driver links every generated table: regenerate the others too, but a translator
        # problem there is not this property's business (the previous file, if any, is kept)
        other = Build()
        run_generators([g for g in driver_generators() if g not in gens], other)
        b.gen_files.update(other.gen_files)
        b.notes = other.problems
        props_mod = f"P2P.Props.{pid}"
        if gens2:
            # phase 2: generators that need the compiled driver (model evaluated on generated tables)
            r0 = subprocess.run(["lake", "build", "driver"], cwd=LEAN, capture_output=True, text=True)
            if r0.returncode == 0:
                run_generators(gens2, b)
            else:
                b.log += r0.stdout + r0.stderr
        targets = ["driver", props_mod, *extra_targets]
        r = subprocess.run(["lake", "build", *targets], cwd=LEAN, capture_output=True, text=True)
        b.log += r.stdout + r.stderr
        if r.returncode != 0:
            b.ok = False
            # name what failed
            errs = re.findall(r"^error: (.*)$", b.log, re.M)
            failed = re.findall(r"✖ \[\d+/\d+\] (?:Building|Built) ([\w.]+)", b.log)
            b.problems.append("lake build failed: " + "; ".join(failed or errs[:3]))
            # find theorem names near the error lines
            for m in re.finditer(r"error: ([^\n:]+\.lean):(\d+):\d+", b.log):
                try:
                    lines = Path(LEAN / m.group(1)).read_text().splitlines() if not os.path.isabs(m.group(1)) else Path(m.group(1)).read_text().splitlines()
                    ln = int(m.group(2))
                    for k in range(ln - 1, -1, -1):
                        dm = DECL.match(lines[k]) if k < len(lines) else None
                        if dm:
                            b.problems.append(f"theorem {dm.group(2) or '(example)'} at {m.group(1)}:{k+1}")
                            break
                except Exception:
                    pass
        # obligations: theorems/examples in Props + Proofs cone
        cone = import_cone(props_mod)
        n = 0
        for mod in cone:
            if ".Props." in mod or ".Proofs." in mod or ".Gen." in mod:
                src = strip_comments((LEAN / (mod.replace(".", "/") + ".lean")).read_text())
                for dm in DECL.finditer(src):
                    n += 1
                    if ".Props." in mod and dm.group(1) != "example" and dm.group(2):
                        b.theorems.append(dm.group(2))
        b.obligations = n
        # forbidden tokens anywhere in the cone (and the driver)
        for mod in cone:
            src = strip_comments((LEAN / (mod.replace(".", "/") + ".lean")).read_text())
            m = FORBIDDEN.search(src)
            if m:
                b.ok = False
                b.problems.append(f"forbidden token {m.group(0).strip()!r} in {mod}")
        # axiom audit
        if r.returncode == 0:
            audit = LEAN / "P2P" / "Audit" / f"{pid}.lean"
            if audit.exists():
                ra = subprocess.run(["lake", "env", "lean", str(audit.relative_to(LEAN))], cwd=LEAN, capture_output=True, text=True)
                out = ra.stdout + ra.stderr
                if ra.returncode != 0:
                    b.ok = False
                    b.problems.append("audit failed: " + out[:300])
                for m in re.finditer(r"'([^']+)' depends on axioms: \[([^\]]*)\]", out):
                    axs = [a.strip() for a in m.group(2).replace("\n", " ").split(",") if a.strip()]
                    b.axioms[m.group(1)] = axs
                    bad = [a for a in axs if a not in ALLOWED_AXIOMS]
                    if bad:
                        b.ok = False
                        b.problems.append(f"theorem {m.group(1)} uses axioms {bad}")
                for m in re.finditer(r"'([^']+)' does not depend on any axioms", out):
                    b.axioms[m.group(1)] = []
                audited = set(a.split(".")[-1] for a in b.axioms)
                missing = [t for t in b.theorems if t.split(".")[-1] not in audited]
                if missing:
                    b.ok = False
                    b.problems.append("theorems not audited: " + ",".join(missing))
            else:
                b.ok = False
                b.problems.append("no audit file")
            b.discharged = n if b.ok else 0
        else:
            b.discharged = 0
    finally:
        lock.close()
    b.wall = time.time() - t0
    return b


class Driver:
    """Batch client of the native Lean driver."""

    def __init__(self):
        self.exe = LEAN / ".lake" / "build" / "bin" / "driver"
        self.calls = 0

    def available(self):
        return self.exe.exists()

    def ask(self, lines: list[str]) -> list[str]:
        if not lines:
            return []
        self.calls += len(lines)
        data = "\n".join(lines) + "\n"
        if self.exe.exists():
            r = subprocess.run([str(self.exe)], input=data, capture_output=True, text=True)
        else:
            r = subprocess.run(["lake", "env", "lean", "--run", "Driver.lean"], cwd=LEAN, input=data, capture_output=True, text=True)
        out = r.stdout.split("\n")
        if out and out[-1] == "":
            out.pop()
        if len(out) != len(lines):
            raise RuntimeError(f"driver answered {len(out)} lines for {len(lines)} requests: {r.stderr[:500]}")
        return out


def load_known(pid: str):
    """known_findings.txt: one entry per line, never written at run time.
    `{json}` with status "known" = a recorded genuine defect (suppresses exactly its signature);
    `fixed: property=<id> <commit> <what failed>` = repaired by a fix: commit (suppresses nothing)."""
    known, fixed = [], []
    if KNOWN.exists():
        for line in KNOWN.read_text().splitlines():
            line = line.strip()
            if not line or line.startswith("#"):
                continue
            if line.startswith("fixed:"):
                m = re.match(r"fixed:\s+property=(\S+)\s+(\S+)\s+(.*)", line)
                if m and m.group(1) == pid:
                    fixed.append({"property": pid, "commit": m.group(2), "what": m.group(3)})
                continue
            e = json.loads(line)
            if e.get("property") != pid:
                continue
            if e.get("status") == "known":
                known.append(e)
    return known, fixed


def sig_matches(entry_sig: dict, sig: dict) -> bool:
    """a known entry matches when every key it lists has the same value"""
    return all(sig.get(k) == v for k, v in entry_sig.items())


class Ctx:
    def __init__(self, pid: str, tier: str, seed: int):
        self.pid = pid
        self.tier = tier
        self.seed = seed
        self.rng = random.Random(f"{pid}:{seed}")
        self.driver = Driver()
        self.build: Build | None = None
        self.evaluations = 0
        self.distinct: set = set()
        self.samples: list = []
        self.distribution: dict = {}
        self.disagreements: list[dict] = []  # model vs implementation (tie broken)
        self.violations: list[dict] = []  # property fails on the implementation
        self.notes: list[str] = []
        self.extra: dict = {}
        self.t0 = time.time()

    @property
    def thorough(self):
        return self.tier == "thorough"

    def scale(self, quick: int, thorough: int) -> int:
        return thorough if self.thorough else quick

    def count(self, key: str, sub=None, n=1):
        d = self.distribution.setdefault(key, {} if sub is not None else 0)
        if sub is None:
            self.distribution[key] = d + n
        else:
            d[str(sub)] = d.get(str(sub), 0) + n

    def sample(self, s, limit=6):
        if len(self.samples) < limit:
            self.samples.append(s)

    def disagree(self, where: str, inp, model, impl):
        if len(self.disagreements) < 50:
            self.disagreements.append({"where": where, "input": inp, "model": model, "impl": impl})

    def violate(self, signature: dict, what: str, replay: dict):
        self.violations.append({"signature": signature, "what": what, "replay": replay})


def write_replay(pid: str, name: str, data: dict) -> str:
    REPLAYS.mkdir(exist_ok=True)
    h = hashlib.sha256(json.dumps(data, sort_keys=True, default=str).encode()).hexdigest()[:10]
    p = REPLAYS / f"{pid}_{name}_{h}.json"
    p.write_text(json.dumps(data, indent=1, sort_keys=True, default=str))
    return str(p.relative_to(ROOT)) if p.is_relative_to(ROOT) else str(p)


def finish(ctx: Ctx, level_note_tb: list[str], checker_cmd: str, assumptions: list[str]) -> int:
    """Verdict + evidence. Returns the exit code."""
    pid = ctx.pid
    known, fixed = load_known(pid)
    b = ctx.build
    new_violations = []
    known_hits: dict[str, dict] = {}
    for v in ctx.violations:
        hit = None
        for e in known:
            if sig_matches(e["signature"], v["signature"]):
                hit = e
                break
        if hit is not None:
            known_hits.setdefault(json.dumps(hit["signature"], sort_keys=True), {"entry": hit, "n": 0})["n"] += 1
        else:
            new_violations.append(v)
    # one line per listed finding that still reproduces
    for k, h in known_hits.items():
        print(f"KNOWN-FINDING: property={pid} {h['entry']['what']} (signature {k}; reproduced {h['n']}x this run)")
    exit_code = 0
    printed = set()
    for v in new_violations:
        key = json.dumps(v["signature"], sort_keys=True)
        if key in printed:
            continue
        printed.add(key)
        path = write_replay(pid, "violation", {"property": pid, "kind": "failing-input", **v})
        print(f"VIOLATION property={pid} replay={path}  # {v['what'][:200]}")
        exit_code = 1
        if len(printed) >= 10:
            break
    tie_problems = list(b.problems) if b is not None else []
    if ctx.disagreements:
        tie_problems.append(f"correspondence: {len(ctx.disagreements)} disagreement(s), first at {ctx.disagreements[0]['where']}")
    if tie_problems and not new_violations:
        path = write_replay(
            pid,
            "tie",
            {
                "property": pid,
                "kind": "tie-broken",
                "no_longer_checks": tie_problems,
                "first_disagreements": ctx.disagreements[:5],
                "build_log_tail": (b.log[-3000:] if b is not None else ""),
            },
        )
        print(f"VIOLATION property={pid} replay={path} no-failing-input-found")
        exit_code = 1
    elif tie_problems:
        for t in tie_problems:
            print(f"note: tie also broken: {t}")
    wall = time.time() - ctx.t0
    cov = {
        "obligations": b.obligations if b else 0,
        "discharged": b.discharged if b else 0,
        "checker_cmd": checker_cmd,
        "trusted_base": level_note_tb,
        "theorems": b.theorems if b else [],
        "axioms_seen": sorted({a for axs in (b.axioms.values() if b else []) for a in axs}),
        "generated_files": b.gen_files if b else {},
        "build_wall_s": round(b.wall, 2) if b else 0,
        "evaluations": ctx.evaluations,
        "distinct_nontrivial": len(ctx.distinct),
        "rule": ctx.extra.pop("rule", ""),
        "samples": ctx.samples or ["(none)"],
        "traces_validated_against_impl": ctx.evaluations,
        "driver_requests": ctx.driver.calls,
        "input_distribution": ctx.distribution,
        "correspondence_disagreements": len(ctx.disagreements),
        "known_findings_reproduced": [h["entry"]["what"] for h in known_hits.values()],
        "known_findings_listed": len(known),
        "fixed_listed": len(fixed),
        "new_violations": len(new_violations),
        "tie_problems": tie_problems,
        "notes": ctx.notes,
        **ctx.extra,
    }
    ev = {
        "property_id": pid,
        "tier": ctx.tier,
        "seed": ctx.seed,
        "level": "proof",
        "coverage": cov,
        "assumptions": assumptions,
        "wall_s": round(wall, 2),
        "violations": len(new_violations) + (1 if (tie_problems and not new_violations) else 0),
    }
    EVID.mkdir(exist_ok=True)
    (EVID / f"{pid}.json").write_text(json.dumps(ev, indent=1, default=str))
    status = "OK" if exit_code == 0 else "FAIL"
    print(
        f"[{pid}] {status} tier={ctx.tier} seed={ctx.seed} obligations={cov['obligations']} discharged={cov['discharged']} "
        f"evaluations={ctx.evaluations} distinct={len(ctx.distinct)} disagreements={len(ctx.disagreements)} "
        f"known={len(known_hits)} new_violations={len(new_violations)} wall={wall:.1f}s"
    )
    return exit_code


def leanchecker(ctx: Ctx, pid: str):
    """thorough tier: independent re-check of the compiled .olean of the property module"""
    t0 = time.time()
    r = subprocess.run(["lake", "env", "leanchecker", f"P2P.Props.{pid}"], cwd=LEAN, capture_output=True, text=True)
    ok = r.returncode == 0
    ctx.extra["leanchecker"] = {"ok": ok, "wall_s": round(time.time() - t0, 1), "tail": (r.stdout + r.stderr)[-300:]}
    if not ok:
        ctx.build.ok = False
        ctx.build.problems.append("leanchecker rejected P2P.Props." + pid)
