"""Entry point: ./check Cxx [--tier quick|thorough] [--replay FILE]"""
import argparse
import importlib
import json
import os
import signal
import sys
import traceback
from pathlib import Path

sys.path.insert(0, str(Path(__file__).resolve().parent))
import core  # noqa: E402


def main():
    ap = argparse.ArgumentParser()
    ap.add_argument("pid")
    ap.add_argument("--tier", default=os.environ.get("VERIF_TIER") or "quick", choices=["quick", "thorough"])
    ap.add_argument("--replay")
    ap.add_argument("--no-build", action="store_true", help="debugging only: skip lake build")
    a = ap.parse_args()
    pid = a.pid.upper()
    seed = int(os.environ.get("VERIF_SEED") or 0)
    os.chdir(core.ROOT)

    def on_alarm(*_):
        print(f"[{pid}] TIMEOUT", flush=True)
        os._exit(2)

    signal.signal(signal.SIGALRM, on_alarm)
    signal.alarm(int(os.environ.get("VERIF_TIMEOUT") or (1500 if a.tier == "quick" else 4 * 3600)))
    mod = importlib.import_module(f"props.{pid.lower()}")
    ctx = core.Ctx(pid, a.tier, seed)
    if a.no_build:
        ctx.build = core.Build()
    else:
        ctx.build = core.build_and_audit(pid, getattr(mod, "GENERATORS", ()), getattr(mod, "EXTRA_TARGETS", ()), getattr(mod, "GENERATORS2", ()))
    if a.tier == "thorough" and ctx.build.ok and not a.no_build:
        core.leanchecker(ctx, pid)
    if a.replay:
        data = json.loads(Path(a.replay).read_text())
        try:
            still = mod.replay(ctx, data)
        except Exception:
            traceback.print_exc()
            sys.exit(2)
        print(f"[{pid}] replay {a.replay}: {'REPRODUCED' if still else 'not reproduced'}")
        if still:
            print(f"VIOLATION property={pid} replay={a.replay}")
        sys.exit(1 if still else 0)
    try:
        mod.run(ctx)
    except Exception:
        # a crash of the harness itself is not a verdict about the property
        traceback.print_exc()
        print(f"[{pid}] HARNESS ERROR", flush=True)
        sys.exit(2)
    checker = f"cd lean && lake build driver P2P.Props.{pid} && lake env lean P2P/Audit/{pid}.lean"
    code = core.finish(ctx, mod.TRUSTED_BASE, checker, mod.ASSUMPTIONS)
    sys.exit(code)


if __name__ == "__main__":
    main()
