#!/bin/sh
# usage: harness/try_mutant_wt.sh <worktree with the seeded defect applied> <demo dir> [check ids...]
# runs the demonstration and the checks against a scratch worktree (VERIF_REPO), leaving /repo untouched
set -u
WT=$1; DIR=$2; shift 2
CHECKS=$*
echo "== demo against $WT"
(cd "$DIR" && PYTHONPATH=$WT timeout 900 /venv/bin/python demo.py 2>&1 | tail -2 | cut -c1-300)
for c in $CHECKS; do
  for s in ${SEEDS:-0}; do
    echo "== VERIF_REPO=$WT ./check $c seed=$s"
    (cd /verif && VERIF_REPO=$WT VERIF_SEED=$s ./check $c ${TIER:+--tier $TIER} 2>&1 | grep -v "^KNOWN-FINDING" | tail -${TAIL:-4} | cut -c1-400)
  done
done
